#!/usr/bin/env python3
"""harness/py2lean_api.py — translator for the object-level helpers of pyspike/spikes.py
(`reconcile_spike_trains`, `reconcile_spike_trains_bi`, `merge_spike_trains`) into Lean
(`lean/PySpikeVerif/Gen/Api.lean`).

The numeric kernels are translated by py2lean.py (state records + loops). The functions here are of a
different kind: straight-line code over *lists of SpikeTrain objects* written with comprehensions. The
subset understood (anything else raises Untranslatable — never a guess):

  types       rat (float), ratlist (1-d array / list of floats), train (SpikeTrain), trainlist, bool
  expressions names, float literals (their exact double value), + - * /, comparisons, `and`,
              `s.spikes` / `s.t_start` / `s.t_end`, `L[k]` for a constant k ≥ 0 (IndexError ↦ none),
              `[e for v in L if c]`, `[a, b]` of trains, `min(L)` / `max(L)` (ValueError on [] ↦ none),
              `np.unique(x)`, `np.sort(x)`, `np.concatenate([…])` (ValueError on [] ↦ none),
              `SpikeTrain(x, [a, b], is_sorted=…)` ↦ `mkTrain` (the constructor is modelled, see Gen/PreludeApi.lean),
              calls of the other translated functions
  statements  `v = e`, `x.sort()` for a ratlist local, `return e` / `return e1, e2`,
              `for s in L: s.spikes = e` where L was built in this function by a comprehension that constructs
              fresh SpikeTrain objects (so no two entries alias and nobody else sees the mutation) ↦ a map

Every function becomes one Lean definition in the Option monad, statement by statement, names kept.

Value semantics: the generated code has no object identity. That is sound for the subset because (checked, else
Untranslatable) no mutable object gets a second name (`y = x` for a list / array / SpikeTrain is rejected), in-place
operations (`x.sort()`, `acc += …`, `s.spikes = …` in a loop) are accepted only on objects created in the same function
and not handed to anyone else before. Division is total in the rational model (`x / 0 = 0` where numpy yields nan / inf
with a warning); the refinement theorems show every divisor."""
import ast, os, sys
try:
    from .py2lean import Untranslatable, ratlit, source_digest, check_no_rebinding, lname
except ImportError:      # run as a script
    sys.path.insert(0, os.path.dirname(os.path.abspath(__file__)))
    from py2lean import Untranslatable, ratlit, source_digest, check_no_rebinding, lname

SIGS_API = {
    'reconcile_spike_trains': ([('spike_trains', 'trainlist')], 'trainlist'),
    'reconcile_spike_trains_bi': ([('spike_train1', 'train'), ('spike_train2', 'train')], 'trainpair'),
    'merge_spike_trains': ([('spike_trains', 'trainlist')], 'train'),
}
SIGS_THRESH = {
    'default_thresh_': ([('train_list', 'ratlistlist'), ('t_start', 'rat'), ('t_end', 'rat')], 'rat'),
    'default_thresh': ([('spike_train_list', 'trainlist')], 'rat'),
}
SIGS_TRAIN = {      # methods of class SpikeTrain; `self` is the object
    'get_spikes_non_empty': ([('self', 'train')], 'ratlist'),
    'copy': ([('self', 'train')], 'train'),
    'sort': ([('self', 'train')], 'train'),       # assigns an attribute of self and returns None: emitted as returning the updated object
}
# functions whose result is a square root: the radicand is emitted under the name <f>_sq (√ is outside ℚ); every `return`
# of such a function is squared accordingly (`np.sqrt(e)` ↦ e, a call of another such function ↦ its `_sq`, a number c ↦ c·c)
SQ_FUNCS = {'default_thresh_', 'default_thresh'}
FUELED = {'default_thresh_', 'default_thresh', 'isi_lengths'}      # take the loop fuel `F` as first argument
EXTERNAL = {'isi_lengths': ('PySpike.GenIsiLen.isi_lengths', [('spike_times', 'ratlist'), ('t_start', 'rat'), ('t_end', 'rat')], 'ratlist')}
# names the translator gives a fixed meaning: they must not be re-bound anywhere in the module or used as local names
INTERPRETED = {'np', 'SpikeTrain', 'min', 'max', 'len', 'range', 'isi_lengths', 'default_thresh', 'default_thresh_',
               'reconcile_spike_trains', 'reconcile_spike_trains_bi', 'merge_spike_trains', 'True', 'False', 'None'}
LEAN_TY = {'int': 'Int', 'rat': 'Rat', 'ratlist': 'List Rat', 'train': 'PyTrain', 'trainlist': 'List PyTrain', 'bool': 'Bool',
           'trainpair': 'PyTrain × PyTrain', 'ratlistlist': 'List (List Rat)'}
ELEM = {'ratlist': 'rat', 'trainlist': 'train', 'ratlistlist': 'ratlist'}
LISTOF = {v: k for k, v in ELEM.items()}
ATTR = {'spikes': 'ratlist', 't_start': 'rat', 't_end': 'rat'}


class ApiFn:
    def __init__(self, name, node, sig, ret, sigs=None, src='spikes.py'):
        self.name, self.node, self.sig, self.ret = name, node, sig, ret
        self.sigs = SIGS_API if sigs is None else sigs
        self.src = src
        self.sq = name in SQ_FUNCS
        self.env = {n: t for n, t in sig}
        self.fresh = set()          # trainlist locals known to hold freshly constructed, pairwise distinct objects
        self.fresh_arr = set()      # array locals created by a numpy call in this function and not aliased
        self.nd = set()             # list-of-floats locals that are numpy arrays (the others are Python lists)
        self.k = 0
        self.lines = []

    def bad(self, node, why):
        raise Untranslatable('%s:%s line %s: %s' % (self.src, self.name, getattr(node, 'lineno', '?'), why))

    def tmp(self):
        self.k += 1
        return '«$%d»' % self.k          # not a Python identifier: cannot capture a local of the source

    def user_name(self, node, n):
        """a name bound by the source (parameter, local, loop or comprehension variable)"""
        if n.endswith('_') or n in ('F', 'acc_') or n in INTERPRETED:
            self.bad(node, 'the name %s would collide with a name the translator uses or interprets' % n)
        return n

    # --- expressions: returns (code, type); partial sub-expressions are bound first (only at statement level)
    def cx(self, e, env, top):
        if isinstance(e, ast.Name):
            if e.id not in env:
                self.bad(e, 'unknown name %s' % e.id)
            return lname(e.id), env[e.id]
        if isinstance(e, ast.Constant) and isinstance(e.value, float):
            return ratlit(e.value), 'rat'
        if isinstance(e, ast.Constant) and isinstance(e.value, bool):
            return ('true' if e.value else 'false'), 'bool'
        if isinstance(e, ast.Constant) and isinstance(e.value, int):
            return '(%d : Int)' % e.value, 'int'
        if isinstance(e, ast.List) and not e.elts:
            return '([] : List Rat)', 'ratlist'          # an empty list display: a list of floats (any other later use is a type error here)
        if isinstance(e, ast.Attribute) and e.attr in ATTR:
            c, t = self.cx(e.value, env, top)
            if t != 'train':
                self.bad(e, 'attribute .%s of a non-SpikeTrain' % e.attr)
            return '%s.%s' % (c, e.attr), ATTR[e.attr]
        if isinstance(e, ast.BinOp) and isinstance(e.op, (ast.Add, ast.Sub, ast.Mult, ast.Div)):
            a, ta = self.cx(e.left, env, top); b, tb = self.cx(e.right, env, top)
            if (ta, tb) == ('ratlist', 'ratlist') and isinstance(e.op, ast.Mult):
                if not (self.is_nd(e.left, env) and self.is_nd(e.right, env)):
                    self.bad(e, '`*` of Python lists (only numpy arrays multiply elementwise)')
                return self.partial('vZip (fun x y => x * y) %s %s' % (a, b), 'ratlist', top, e)
            if (ta, tb) == ('rat', 'int') and isinstance(e.op, ast.Div):
                b, tb = '((%s : Int) : Rat)' % b, 'rat'       # float / int: true division in every Python version
            if ta != 'rat' or tb != 'rat':
                self.bad(e, 'arithmetic on non-floats')
            return '(%s %s %s)' % (a, {ast.Add: '+', ast.Sub: '-', ast.Mult: '*', ast.Div: '/'}[type(e.op)], b), 'rat'
        if isinstance(e, ast.Compare) and len(e.ops) == 1 and isinstance(e.ops[0], (ast.Lt, ast.Gt, ast.LtE, ast.GtE)):
            a, ta = self.cx(e.left, env, top); b, tb = self.cx(e.comparators[0], env, top)
            if (ta, tb) not in (('rat', 'rat'), ('int', 'int')):
                self.bad(e, 'comparison of non-numbers / mixed numbers')
            return 'decide (%s %s %s)' % (a, {ast.Lt: '<', ast.Gt: '>', ast.LtE: '≤', ast.GtE: '≥'}[type(e.ops[0])], b), 'bool'
        if isinstance(e, ast.Compare) and len(e.ops) == 1 and isinstance(e.ops[0], ast.Eq):
            a, ta = self.cx(e.left, env, top); b, tb = self.cx(e.comparators[0], env, top)
            if (ta, tb) != ('int', 'int'):
                self.bad(e, '== on non-integers')
            return 'decide (%s = %s)' % (a, b), 'bool'
        if isinstance(e, ast.Call) and isinstance(e.func, ast.Attribute) and e.func.attr == 'copy' and not e.args and not e.keywords \
                and not (isinstance(e.func.value, ast.Name) and e.func.value.id == 'np'):
            c, t = self.cx(e.func.value, env, top)
            if t != 'ratlist':
                self.bad(e, '.copy() of a non-array')
            return c, 'ratlist'                           # values are immutable here: a copy is the same value
        if isinstance(e, ast.Call) and isinstance(e.func, ast.Attribute) and e.func.attr == 'tolist' and not e.args and not e.keywords:
            c, t = self.cx(e.func.value, env, top)
            if t != 'ratlist':
                self.bad(e, '.tolist() of a non-array')
            return c, 'ratlist'
        if isinstance(e, ast.BoolOp) and isinstance(e.op, (ast.And, ast.Or)):
            # short-circuit: only the first operand is always evaluated, so only it may contain an expression that can raise
            parts = [self.cx(v, env, top and k == 0) for k, v in enumerate(e.values)]
            if any(t != 'bool' for _, t in parts):
                self.bad(e, '`and` / `or` of non-booleans')
            return '(' + (' && ' if isinstance(e.op, ast.And) else ' || ').join(c for c, _ in parts) + ')', 'bool'
        if isinstance(e, ast.Subscript) and isinstance(e.slice, ast.Constant) and isinstance(e.slice.value, int) and e.slice.value >= 0:
            c, t = self.cx(e.value, env, top)
            if t not in ELEM:
                self.bad(e, 'subscript of a non-list')
            return self.partial('%s[%d]?' % (c, e.slice.value), ELEM[t], top, e)
        if isinstance(e, ast.ListComp) and len(e.generators) == 1 and not e.generators[0].is_async \
                and isinstance(e.generators[0].target, ast.Name):
            g = e.generators[0]
            it, tit = self.cx(g.iter, env, top)
            if tit not in ELEM:
                self.bad(e, 'comprehension over a non-list')
            v = self.user_name(e, g.target.id)
            env2 = dict(env); env2[v] = ELEM[tit]
            src = it
            for c in g.ifs:
                cc, tc = self.cx(c, env2, False)
                if tc != 'bool':
                    self.bad(c, 'comprehension condition is not a comparison')
                src = 'List.filter (fun (%s : %s) => %s) %s' % (lname(v), LEAN_TY[ELEM[tit]], cc, src)
            ec, te = self.cx(e.elt, env2, False)
            if te not in LISTOF:
                self.bad(e, 'comprehension of %s' % te)
            if isinstance(e.elt, ast.Name) and e.elt.id == v:
                return '(%s)' % src, tit
            return '(List.map (fun (%s : %s) => %s) (%s))' % (lname(v), LEAN_TY[ELEM[tit]], ec, src), LISTOF[te]
        if isinstance(e, (ast.List, ast.Tuple)) and e.elts:
            parts = [self.cx(v, env, top) for v in e.elts]
            ts = {t for _, t in parts}
            if len(ts) != 1 or next(iter(ts)) not in LISTOF:
                self.bad(e, 'list display of mixed / unsupported types')
            return '[' + ', '.join(c for c, _ in parts) + ']', LISTOF[next(iter(ts))]
        if isinstance(e, ast.Call):
            f = e.func
            fn = f.id if isinstance(f, ast.Name) else ('np.' + f.attr if isinstance(f, ast.Attribute) and isinstance(f.value, ast.Name) and f.value.id == 'np' else None)
            if fn in ('min', 'max') and len(e.args) == 1 and not e.keywords:
                c, t = self.cx(e.args[0], env, top)
                if t != 'ratlist':
                    self.bad(e, '%s of a non-list of floats' % fn)
                return self.partial('%s %s' % ('pyMin' if fn == 'min' else 'pyMax', c), 'rat', top, e)
            if fn == 'np.insert' and len(e.args) == 3 and not e.keywords and isinstance(e.args[1], ast.Constant) and isinstance(e.args[1].value, int) and e.args[1].value >= 0:
                a, ta = self.cx(e.args[0], env, top); v, tv = self.cx(e.args[2], env, top)
                if ta != 'ratlist' or tv != 'ratlist':
                    self.bad(e, 'np.insert argument types')
                return self.partial('npInsert %s %d %s' % (a, e.args[1].value, v), 'ratlist', top, e)
            if fn == 'len' and len(e.args) == 1 and not e.keywords:
                c, t = self.cx(e.args[0], env, top)
                if t not in ELEM:
                    self.bad(e, 'len of a non-list')
                return '((%s).length : Int)' % c, 'int'
            if fn == 'np.array' and len(e.args) == 1 and not e.keywords:
                c, t = self.cx(e.args[0], env, top)
                if t != 'ratlist':
                    self.bad(e, 'np.array of something that is not a list of floats')
                return c, 'ratlist'
            if fn == 'np.sum' and len(e.args) == 1 and not e.keywords:
                c, t = self.cx(e.args[0], env, top)
                if t != 'ratlist':
                    self.bad(e, 'np.sum of a non-array')
                return '(vSum %s)' % c, 'rat'
            if fn in EXTERNAL and not e.keywords and len(e.args) == len(EXTERNAL[fn][1]) and self.sigs is SIGS_THRESH:
                args = [self.cx(a, env, top) for a in e.args]
                if [t for _, t in args] != [t for _, t in EXTERNAL[fn][1]]:
                    self.bad(e, 'argument types of %s' % fn)
                return self.partial('%s F %s' % (EXTERNAL[fn][0], ' '.join(c for c, _ in args)), EXTERNAL[fn][2], top, e)
            if fn in ('np.unique', 'np.sort') and len(e.args) == 1 and not e.keywords:
                c, t = self.cx(e.args[0], env, top)
                if t != 'ratlist':
                    self.bad(e, '%s of a non-array' % fn)
                return '(%s %s)' % ('npUnique' if fn == 'np.unique' else 'npSort', c), 'ratlist'
            if fn == 'np.concatenate' and len(e.args) == 1 and not e.keywords:
                c, t = self.cx(e.args[0], env, top)
                if t != 'ratlistlist':
                    self.bad(e, 'np.concatenate of something that is not a list of arrays')
                return self.partial('npConcatenate %s' % c, 'ratlist', top, e)
            if fn == 'SpikeTrain':
                kws = {k.arg: k.value for k in e.keywords}
                if len(e.args) != 2 or set(kws) - {'is_sorted'} or not isinstance(e.args[1], (ast.List, ast.Tuple)) or len(e.args[1].elts) != 2:
                    self.bad(e, 'SpikeTrain(…) call form not understood')
                sp, tsp = self.cx(e.args[0], env, top)
                a, ta = self.cx(e.args[1].elts[0], env, top); b, tb = self.cx(e.args[1].elts[1], env, top)
                if tsp != 'ratlist' or ta != 'rat' or tb != 'rat':
                    self.bad(e, 'SpikeTrain(…) argument types')
                srt = 'true'
                if 'is_sorted' in kws:
                    if not (isinstance(kws['is_sorted'], ast.Constant) and isinstance(kws['is_sorted'].value, bool)):
                        self.bad(e, 'is_sorted is not a literal')
                    srt = 'true' if kws['is_sorted'].value else 'false'
                return '(mkTrain %s %s %s %s)' % (sp, a, b, srt), 'train'
            if fn in self.sigs and not e.keywords and len(e.args) == len(self.sigs[fn][0]):
                args = [self.cx(a, env, top) for a in e.args]
                if [t for _, t in args] != [t for _, t in self.sigs[fn][0]]:
                    self.bad(e, 'argument types of %s' % fn)
                if fn in SQ_FUNCS:
                    self.bad(e, 'the value of a square-root function is used other than as the returned value')
                return self.partial('%s %s%s' % (fn, 'F ' if fn in FUELED else '', ' '.join(c for c, _ in args)), self.sigs[fn][1], top, e)
        self.bad(e, 'expression not in the translated subset: %s' % ast.dump(e)[:80])

    def partial(self, code, ty, top, node):
        if not top:
            self.bad(node, 'an expression that can raise inside a comprehension')
        v = self.tmp()
        self.lines.append('  Option.bind (%s) fun (%s : %s) =>' % (code, v, LEAN_TY[ty]))
        return v, ty

    def note_escapes(self, stmt):
        """an array created locally stops being exclusively ours as soon as it is stored somewhere or handed on: in a list /
        tuple display, as an attribute value, as an argument of a call other than np.* / len / SpikeTrain(…) (which copy or
        only read). After that an in-place `.sort()` on it is no longer accepted."""
        if not self.fresh_arr:
            return
        parents = {}
        for node in ast.walk(stmt):
            for ch in ast.iter_child_nodes(node):
                parents[ch] = node
        for node in ast.walk(stmt):
            if isinstance(node, ast.Name) and node.id in self.fresh_arr and isinstance(node.ctx, ast.Load):
                par = parents.get(node)
                ok = False
                if isinstance(par, ast.Attribute) and par.attr == 'sort' and isinstance(parents.get(par), ast.Call) and isinstance(parents.get(parents.get(par)), ast.Expr):
                    ok = True
                elif isinstance(par, ast.Call) and node in par.args:
                    f = par.func
                    ok = (isinstance(f, ast.Name) and f.id in ('len', 'SpikeTrain')) or \
                         (isinstance(f, ast.Attribute) and isinstance(f.value, ast.Name) and f.value.id == 'np')
                elif isinstance(par, (ast.BinOp, ast.Subscript, ast.Compare)):
                    ok = True
                if not ok:
                    self.fresh_arr.discard(node.id)

    def is_nd(self, e, env):
        """is this list-of-floats expression a numpy array (True) or a Python list (False)?"""
        if isinstance(e, ast.Name):
            return e.id in self.nd
        if isinstance(e, ast.Attribute) and e.attr == 'spikes':
            return True
        if isinstance(e, ast.Call) and isinstance(e.func, ast.Attribute) and isinstance(e.func.value, ast.Name) and e.func.value.id == 'np':
            return True
        if isinstance(e, ast.Call) and isinstance(e.func, ast.Attribute) and e.func.attr == 'copy':
            return self.is_nd(e.func.value, env)
        return False

    def tmp_keep(self):
        self.last_tmp = self.tmp()
        return self.last_tmp

    def ret_code(self, r):
        """the returned expression; in a square-root function: its square (see SQ_FUNCS)"""
        e = r.value
        if not self.sq:
            c, t = self.cx(e, self.env, True)
            if t != self.ret:
                self.bad(r, 'returns %s, expected %s' % (t, self.ret))
            return c
        if isinstance(e, ast.Call) and isinstance(e.func, ast.Attribute) and isinstance(e.func.value, ast.Name) and e.func.value.id == 'np' \
                and e.func.attr == 'sqrt' and len(e.args) == 1 and not e.keywords:
            c, t = self.cx(e.args[0], self.env, True)
            if t != 'rat':
                self.bad(r, 'np.sqrt of a non-float')
            return c
        if isinstance(e, ast.Call) and isinstance(e.func, ast.Name) and e.func.id in SQ_FUNCS and e.func.id in self.sigs and not e.keywords:
            fn = e.func.id
            args = [self.cx(a, self.env, True) for a in e.args]
            if [t for _, t in args] != [t for _, t in self.sigs[fn][0]]:
                self.bad(r, 'argument types of %s' % fn)
            v = self.tmp()
            self.lines.append('  Option.bind (%s_sq F %s) fun (%s : Rat) =>' % (fn, ' '.join(c for c, _ in args), v))
            return v
        if isinstance(e, ast.Constant) and isinstance(e.value, (int, float)) and not isinstance(e.value, bool):
            q = ratlit(float(e.value))
            return '(%s * %s)' % (q, q)
        self.bad(r, 'return value of a square-root function is neither np.sqrt(…), a call of such a function, nor a number')

    def is_fresh_comp(self, e):
        return isinstance(e, ast.ListComp) and isinstance(e.elt, ast.Call) and isinstance(e.elt.func, ast.Name) and e.elt.func.id == 'SpikeTrain'

    def translate(self):
        body = [s for s in self.node.body if not (isinstance(s, ast.Expr) and isinstance(s.value, ast.Constant))]
        if self.node.args.defaults or self.node.args.kwonlyargs or self.node.args.vararg or self.node.args.kwarg or self.node.decorator_list:
            self.bad(self.node, 'signature with defaults / decorators')
        if [a.arg for a in self.node.args.args] != [n for n, _ in self.sig]:
            self.bad(self.node, 'parameters are %s' % [a.arg for a in self.node.args.args])
        done = False
        for n_, _ in self.sig:
            if n_ != 'self':
                self.user_name(self.node, n_)
        for s in body:
            if done:
                self.bad(s, 'statement after return')
            self.note_escapes(s)
            if isinstance(s, ast.Assign) and len(s.targets) == 1 and isinstance(s.targets[0], ast.Name):
                c, t = self.cx(s.value, self.env, True)
                n = s.targets[0].id
                if n in self.env and self.env[n] != t:
                    self.bad(s, '%s changes its type' % n)
                if isinstance(s.value, ast.Name) and t in ('ratlist', 'trainlist', 'train', 'ratlistlist'):
                    self.bad(s, 'a second name for a mutable object (aliasing is not modelled)')
                # an object taken out of a list, or a list built from its objects, is a second reference to them: the list
                # can no longer be treated as the only holder of fresh objects
                if t in ('train', 'trainlist'):
                    for x in ast.walk(s.value):
                        if isinstance(x, ast.Name) and x.id in self.fresh and not self.is_fresh_comp(s.value):
                            self.fresh.discard(x.id)
                self.user_name(s, n)
                self.env[n] = t
                self.fresh.discard(n)
                self.fresh_arr.discard(n)
                self.nd.discard(n)
                if t == 'ratlist' and self.is_nd(s.value, self.env):
                    self.nd.add(n)
                if self.is_fresh_comp(s.value):
                    self.fresh.add(n)
                if isinstance(s.value, ast.Call) and isinstance(s.value.func, ast.Attribute) and isinstance(s.value.func.value, ast.Name) \
                        and s.value.func.value.id == 'np' and s.value.func.attr in ('concatenate', 'unique', 'sort', 'array'):
                    self.fresh_arr.add(n)        # a new array nobody else refers to
                self.lines.append('  let %s : %s := %s' % (lname(n), LEAN_TY[t], c))
            elif isinstance(s, ast.Expr) and isinstance(s.value, ast.Call) and isinstance(s.value.func, ast.Attribute) \
                    and s.value.func.attr == 'sort' and isinstance(s.value.func.value, ast.Name) and not s.value.args and not s.value.keywords:
                n = s.value.func.value.id
                if self.env.get(n) != 'ratlist' or n not in self.fresh_arr:
                    self.bad(s, '.sort() of something that is not a local array created in this function by a numpy call')
                self.lines.append('  let %s : List Rat := npSort %s' % (lname(n), lname(n)))
            elif isinstance(s, ast.For) and isinstance(s.target, ast.Name) and isinstance(s.iter, ast.Name) and not s.orelse \
                    and all(isinstance(b, ast.Assign) for b in s.body):
                L, v = s.iter.id, s.target.id
                self.user_name(s, v)
                if self.env.get(L) != 'trainlist' or L not in self.fresh:
                    self.bad(s, 'loop mutating the objects of a list that is not known to hold fresh, distinct objects')
                env2 = dict(self.env); env2[v] = 'train'
                upd = []
                for b in s.body:
                    if not (isinstance(b, ast.Assign) and len(b.targets) == 1 and isinstance(b.targets[0], ast.Attribute)
                            and isinstance(b.targets[0].value, ast.Name) and b.targets[0].value.id == v and b.targets[0].attr in ATTR):
                        self.bad(b, 'loop body is not `%s.<attr> = …`' % v)
                    if any(isinstance(x, ast.Name) and x.id == L for x in ast.walk(b.value)):
                        self.bad(b, 'loop body reads the list it mutates')
                    if upd:
                        self.bad(b, 'more than one assignment in the loop body')
                    c, t = self.cx(b.value, env2, False)
                    if t != ATTR[b.targets[0].attr]:
                        self.bad(b, 'attribute type')
                    upd.append('%s := %s' % (b.targets[0].attr, c))
                self.lines.append('  let %s : List PyTrain := List.map (fun (%s : PyTrain) => { %s with %s }) %s' % (lname(L), lname(v), lname(v), ', '.join(upd), lname(L)))
                self.env.pop(v, None)
            elif isinstance(s, ast.If) and len(s.body) == 1 and len(s.orelse) == 1 and isinstance(s.body[0], ast.Return) and isinstance(s.orelse[0], ast.Return) \
                    and s.body[0].value is not None and s.orelse[0].value is not None and not self.sq:
                c, t = self.cx(s.test, self.env, True)
                if t != 'bool':
                    self.bad(s, 'condition is not a comparison')
                outer = self.lines
                self.lines = []; ra = self.ret_code(s.body[0]); la = self.lines
                self.lines = []; rb = self.ret_code(s.orelse[0]); lb = self.lines
                self.lines = outer
                blk = lambda ls, r: ''.join('  %s\n' % l for l in ls) + '    some %s' % r
                self.lines.append('  if %s then\n%s\n  else\n%s' % (c, blk(la, ra), blk(lb, rb)))
                done = True
            elif isinstance(s, ast.Assign) and len(s.targets) == 1 and isinstance(s.targets[0], ast.Attribute) and isinstance(s.targets[0].value, ast.Name) \
                    and s.targets[0].value.id == 'self' and self.env.get('self') == 'train' and s.targets[0].attr in ATTR:
                c, t = self.cx(s.value, self.env, True)
                if t != ATTR[s.targets[0].attr]:
                    self.bad(s, 'attribute type')
                self.lines.append('  let self : PyTrain := { self with %s := %s }' % (s.targets[0].attr, c))
                self.mutated_self = True
            elif isinstance(s, ast.If) and not s.orelse and len(s.body) == 1 and isinstance(s.body[0], ast.Return) and s.body[0].value is not None:
                c, t = self.cx(s.test, self.env, True)
                if t != 'bool':
                    self.bad(s, 'condition is not a comparison')
                outer = self.lines
                self.lines = []; r = self.ret_code(s.body[0]); inner = self.lines
                self.lines = outer
                if inner:
                    self.lines.append('  if %s then\n%s    some %s\n  else' % (c, ''.join('  %s\n' % l for l in inner), r))
                else:
                    self.lines.append('  if %s then some %s else' % (c, r))
            elif isinstance(s, ast.For) and isinstance(s.target, ast.Name) and not s.orelse and len(s.body) == 1 \
                    and isinstance(s.body[0], ast.AugAssign) and isinstance(s.body[0].op, ast.Add) and isinstance(s.body[0].target, ast.Name):
                # `for v in L: acc += e(v)` on a list accumulator: a left fold in the Option monad
                acc, v = s.body[0].target.id, s.target.id
                it, tit = self.cx(s.iter, self.env, True)
                self.user_name(s, v)
                if acc in self.nd:
                    self.bad(s, '`+=` on a numpy array is elementwise addition, not concatenation')
                if self.env.get(acc) != 'ratlist' or tit not in ELEM or acc == v or acc in [n for n, _ in self.sig]:
                    self.bad(s, 'accumulation loop of an unsupported shape (the accumulator must be a local list)')
                if any(isinstance(x, ast.Name) and x.id == acc for x in ast.walk(s.body[0].value)) or \
                        any(isinstance(x, ast.Name) and x.id == acc for x in ast.walk(s.iter)):
                    self.bad(s, 'the accumulator is read inside its own update')
                env2 = dict(self.env); env2[v] = ELEM[tit]
                saved, self.lines = self.lines, []
                c, t = self.cx(s.body[0].value, env2, True)
                inner, self.lines = self.lines, saved
                if t != 'ratlist':
                    self.bad(s, 'accumulating a non-list')
                body = ' '.join(l.strip() for l in inner) + ' some (acc_ ++ %s)' % c
                self.lines.append('  Option.bind (List.foldlM (fun (acc_ : List Rat) (%s : %s) => %s) %s %s) fun (%s : List Rat) =>' % (
                    lname(v), LEAN_TY[ELEM[tit]], body, lname(acc), it, self.tmp_keep()))
                self.lines.append('  let %s : List Rat := %s' % (lname(acc), self.last_tmp))
                self.env.pop(v, None)        # Python keeps the loop variable; a later read would see the LAST element: not modelled
            elif isinstance(s, ast.Return) and s.value is not None and self.sq:
                self.lines.append('  some %s' % self.ret_code(s))
                done = True
            elif isinstance(s, ast.Return) and s.value is not None:
                if isinstance(s.value, ast.Tuple) and len(s.value.elts) == 2:
                    a, ta = self.cx(s.value.elts[0], self.env, True); b, tb = self.cx(s.value.elts[1], self.env, True)
                    if (ta, tb) != ('train', 'train'):
                        self.bad(s, 'tuple return of non-trains')
                    c, t = '(%s, %s)' % (a, b), 'trainpair'
                else:
                    c, t = self.cx(s.value, self.env, True)
                if t != self.ret:
                    self.bad(s, 'returns %s, expected %s' % (t, self.ret))
                self.lines.append('  some %s' % c)
                done = True
            else:
                self.bad(s, 'statement not in the translated subset')
        if not done:
            if getattr(self, 'mutated_self', False) and self.ret == 'train':
                self.lines.append('  some self')       # the method returns None; its effect is the updated object
            else:
                self.bad(self.node, 'no return')
        head = '/-- `%s` (%s line %d)%s -/\ndef %s%s %s%s : Option (%s) :=' % (
            self.name, self.src, self.node.lineno, ': the SQUARE of the returned value (the source returns its square root)' if self.sq else '',
            self.name, '_sq' if self.sq else '', '(F : Nat) ' if self.name in FUELED else '',
            ' '.join('(%s : %s)' % (lname(n), LEAN_TY[t]) for n, t in self.sig), LEAN_TY[self.ret])
        return head + '\n' + '\n'.join(self.lines) + '\n'


def check_names_untouched(tree, where, translated):
    """The module must give the interpreted names the meaning the translator assumes, everywhere: no assignment, `global`,
    `def`, `class`, `import … as`, loop or `with` target binding one of them at ANY depth (outside the translated functions,
    whose own locals are checked by `user_name`), and each translated function defined exactly once in the whole file."""
    expected_imports = {'np': (None, 'numpy'), 'SpikeTrain': ('pyspike', 'SpikeTrain'), 'isi_lengths': None,
                        'default_thresh': ('pyspike.isi_lengths', 'default_thresh'),
                        'reconcile_spike_trains': None, 'reconcile_spike_trains_bi': None}
    defs = {}
    # a function may use its own name for a local (isi_lengths does): that binding is local to it and shadows nothing else
    own_local = set()
    for fn in ast.walk(tree):
        if isinstance(fn, ast.FunctionDef):
            for x in ast.walk(fn):
                if isinstance(x, ast.Name) and isinstance(x.ctx, ast.Store) and x.id == fn.name and not any(isinstance(g, ast.Global) and fn.name in g.names for g in ast.walk(fn)):
                    own_local.add(id(x))
    for node in ast.walk(tree):
        if isinstance(node, (ast.FunctionDef, ast.AsyncFunctionDef, ast.ClassDef)):
            defs[node.name] = defs.get(node.name, 0) + 1
            if node.name in INTERPRETED and node.name not in translated and not (node.name == 'SpikeTrain' and where == 'SpikeTrain.py') \
                    and not (node.name == 'isi_lengths' and where == 'isi_lengths.py'):
                raise Untranslatable('%s: %s is re-defined' % (where, node.name))
        if isinstance(node, (ast.Global, ast.Nonlocal)) and set(node.names) & INTERPRETED:
            raise Untranslatable('%s: global / nonlocal declaration of %s' % (where, sorted(set(node.names) & INTERPRETED)))
        if isinstance(node, ast.Name) and isinstance(node.ctx, (ast.Store, ast.Del)) and node.id in INTERPRETED and id(node) not in own_local:
            raise Untranslatable('%s: %s is re-bound (line %s)' % (where, node.id, node.lineno))
        if isinstance(node, (ast.Import, ast.ImportFrom)):
            for a in node.names:
                nm = a.asname or a.name.split('.')[0]
                if nm in INTERPRETED:
                    exp = expected_imports.get(nm, 'none')
                    got = (getattr(node, 'module', None), a.name)
                    if exp == 'none' or (exp is not None and got != exp):
                        raise Untranslatable('%s: `%s` is imported as %s' % (where, nm, got))
        if isinstance(node, ast.arg) and node.arg in INTERPRETED:
            raise Untranslatable('%s: a parameter is called %s' % (where, node.arg))
        if isinstance(node, ast.ExceptHandler) and node.name in INTERPRETED:
            raise Untranslatable('%s: an exception is bound to %s' % (where, node.name))
    for nm in translated:
        if defs.get(nm, 0) != 1:
            raise Untranslatable('%s: %s is defined %d times in the file' % (where, nm, defs.get(nm, 0)))
    # imports inside try / if / functions could be conditional re-bindings: imports of the interpreted names must be top-level
    for node in ast.walk(tree):
        for ch in ast.iter_child_nodes(node):
            if isinstance(ch, (ast.Import, ast.ImportFrom)) and node is not tree:
                if any((a.asname or a.name.split('.')[0]) in INTERPRETED for a in ch.names):
                    raise Untranslatable('%s: conditional / nested import of an interpreted name' % where)


# the SpikeTrain constructor is MODELLED (Gen/PreludeApi.lean: mkTrain): its source is pinned, a change is not silently accepted
CTOR_PIN = None


def check_ctor(repo):
    """`SpikeTrain.__init__` must be the constructor `mkTrain` models: pinned by the dump of its AST (docstring removed);
    returns the default of `is_sorted`. The class must not define properties / descriptors for the three attributes."""
    import hashlib
    tree = ast.parse(open(os.path.join(repo, 'pyspike', 'SpikeTrain.py'), 'rb').read().decode('utf-8'))
    cs = [n for n in ast.walk(tree) if isinstance(n, ast.ClassDef) and n.name == 'SpikeTrain']
    if len(cs) != 1 or cs[0] not in tree.body:
        raise Untranslatable('SpikeTrain.py: class SpikeTrain is not defined exactly once at top level')
    cls = cs[0]
    if [getattr(b, 'id', None) for b in cls.bases] != ['object'] or cls.keywords or cls.decorator_list:
        raise Untranslatable('SpikeTrain.py: class SpikeTrain has bases / a metaclass / decorators')
    for n in cls.body:
        if isinstance(n, ast.FunctionDef) and (n.name in ('__getattr__', '__getattribute__', '__setattr__', '__slots__', 'spikes', 't_start', 't_end')
                                               or (n.decorator_list and n.name not in ())):
            raise Untranslatable('SpikeTrain.py: attribute access is customised (%s)' % n.name)
        if isinstance(n, (ast.Assign, ast.AnnAssign, ast.AugAssign)):
            raise Untranslatable('SpikeTrain.py: class-level assignment')
    inits = [n for n in cls.body if isinstance(n, ast.FunctionDef) and n.name == '__init__']
    if len(inits) != 1:
        raise Untranslatable('SpikeTrain.py: __init__ is defined %d times' % len(inits))
    init = inits[0]
    body = [b for b in init.body if not (isinstance(b, ast.Expr) and isinstance(b.value, ast.Constant))]
    dump = ast.unparse(ast.Module(body=body, type_ignores=[])) + '|' + ast.unparse(init.args)      # normalised source text
    h = hashlib.sha256(dump.encode()).hexdigest()[:24]
    if h != CTOR_DIGEST:
        raise Untranslatable('SpikeTrain.py: __init__ differs from the constructor modelled by mkTrain (AST digest %s, pinned %s)' % (h, CTOR_DIGEST))
    d = init.args.defaults
    if [a.arg for a in init.args.args] != ['self', 'spike_times', 'edges', 'is_sorted'] or len(d) != 1 or not isinstance(d[0], ast.Constant) or d[0].value is not True:
        raise Untranslatable('SpikeTrain.py: __init__ signature')
    return True


CTOR_DIGEST = '23592cb6239a55462bebf1be'


def generate_api(repo='/repo'):
    rel = 'pyspike/spikes.py'
    tree = ast.parse(open(os.path.join(repo, rel), 'rb').read().decode('utf-8'))
    names = list(SIGS_API)
    check_no_rebinding(tree, names, 'spikes.py')
    check_names_untouched(tree, 'spikes.py', names)
    check_ctor(repo)
    # the names the functions rely on must mean what the translator assumes
    imps = {(a.asname or a.name): (getattr(n, 'module', None), a.name) for n in tree.body if isinstance(n, (ast.Import, ast.ImportFrom)) for a in n.names}
    if imps.get('np') != (None, 'numpy') or imps.get('SpikeTrain') != ('pyspike', 'SpikeTrain'):
        raise Untranslatable('spikes.py: `np` / `SpikeTrain` are not numpy / pyspike.SpikeTrain (%s, %s)' % (imps.get('np'), imps.get('SpikeTrain')))
    for n in tree.body:
        for t in (n.targets if isinstance(n, ast.Assign) else []):
            for x in ast.walk(t):
                if isinstance(x, ast.Name) and x.id in ('np', 'SpikeTrain', 'min', 'max'):
                    raise Untranslatable('spikes.py: %s is re-bound at module level' % x.id)
    for n in tree.body:
        if isinstance(n, (ast.FunctionDef, ast.ClassDef)) and n.name in ('np', 'SpikeTrain', 'min', 'max'):
            raise Untranslatable('spikes.py: %s is re-defined' % n.name)
    out = ['/-\n  Gen/Api.lean — GENERATED by harness/py2lean_api.py from pyspike/spikes.py of /repo. Do not edit.\n-/\n'
           'import PySpikeVerif.Gen.PreludeApi\n'
           'set_option linter.unusedVariables false\n' +
           source_digest(repo, [rel, 'pyspike/SpikeTrain.py']) +
           'namespace PySpike.GenApi\nopen PySpike.Gen\n']
    for nm in names:
        node = [n for n in tree.body if isinstance(n, ast.FunctionDef) and n.name == nm][0]
        sig, ret = SIGS_API[nm]
        out.append(ApiFn(nm, node, sig, ret).translate())
    out.append('end PySpike.GenApi\n')
    return '\n'.join(out)


def generate_train(repo='/repo'):
    rel = 'pyspike/SpikeTrain.py'
    tree = ast.parse(open(os.path.join(repo, rel), 'rb').read().decode('utf-8'))
    names = list(SIGS_TRAIN)
    check_no_rebinding(tree, names, 'SpikeTrain.py', cls='SpikeTrain')
    check_names_untouched(tree, 'SpikeTrain.py', names)
    check_ctor(repo)
    imps = {(a.asname or a.name): (getattr(n, 'module', None), a.name) for n in tree.body if isinstance(n, (ast.Import, ast.ImportFrom)) for a in n.names}
    if imps.get('np') != (None, 'numpy'):
        raise Untranslatable('SpikeTrain.py: `np` is not numpy')
    cls = [n for n in tree.body if isinstance(n, ast.ClassDef) and n.name == 'SpikeTrain'][0]
    if [getattr(b, 'id', None) for b in cls.bases] != ['object'] or cls.keywords or cls.decorator_list:
        raise Untranslatable('SpikeTrain.py: class SpikeTrain has bases / a metaclass / decorators')
    if any(isinstance(n, ast.FunctionDef) and n.name in ('__getattr__', '__getattribute__', '__setattr__') for n in cls.body):
        raise Untranslatable('SpikeTrain.py: attribute access is customised')
    for n in tree.body:
        for t in (n.targets if isinstance(n, ast.Assign) else []):
            for x in ast.walk(t):
                if isinstance(x, ast.Name) and x.id in ('np', 'len', 'SpikeTrain'):
                    raise Untranslatable('SpikeTrain.py: %s is re-bound at module level' % x.id)
    out = ['/-\n  Gen/ApiTrain.lean — GENERATED by harness/py2lean_api.py from pyspike/SpikeTrain.py of /repo. Do not edit.\n-/\n'
           'import PySpikeVerif.Gen.PreludeApi\n'
           'set_option linter.unusedVariables false\n' +
           source_digest(repo, [rel]) +
           'namespace PySpike.GenApi.SpikeTrain\nopen PySpike.Gen\n']
    for nm in names:
        node = [n for n in cls.body if isinstance(n, ast.FunctionDef) and n.name == nm][0]
        sig, ret = SIGS_TRAIN[nm]
        out.append(ApiFn(nm, node, sig, ret, sigs=SIGS_TRAIN, src='SpikeTrain.py').translate())
    out.append('end PySpike.GenApi.SpikeTrain\n')
    return '\n'.join(out)


def generate_thresh(repo='/repo'):
    rel = 'pyspike/isi_lengths.py'
    tree = ast.parse(open(os.path.join(repo, rel), 'rb').read().decode('utf-8'))
    names = list(SIGS_THRESH)
    check_no_rebinding(tree, names + ['isi_lengths'], 'isi_lengths.py')
    check_names_untouched(tree, 'isi_lengths.py', names + ['isi_lengths'])
    imps = {(a.asname or a.name): (getattr(n, 'module', None), a.name) for n in tree.body if isinstance(n, (ast.Import, ast.ImportFrom)) for a in n.names}
    if imps.get('np') != (None, 'numpy'):
        raise Untranslatable('isi_lengths.py: `np` is not numpy')
    for n in tree.body:
        for t in (n.targets if isinstance(n, ast.Assign) else []):
            for x in ast.walk(t):
                if isinstance(x, ast.Name) and x.id in ('np', 'len'):
                    raise Untranslatable('isi_lengths.py: %s is re-bound at module level' % x.id)
        if isinstance(n, (ast.FunctionDef, ast.ClassDef)) and n.name in ('np', 'len'):
            raise Untranslatable('isi_lengths.py: %s is re-defined' % n.name)
    out = ['/-\n  Gen/ApiThresh.lean — GENERATED by harness/py2lean_api.py from pyspike/isi_lengths.py of /repo. Do not edit.\n-/\n'
           'import PySpikeVerif.Gen.PreludeApi\nimport PySpikeVerif.Gen.IsiLengths\n'
           'set_option linter.unusedVariables false\n' +
           source_digest(repo, [rel]) +
           'namespace PySpike.GenApi\nopen PySpike.Gen\n']
    for nm in names:
        node = [n for n in tree.body if isinstance(n, ast.FunctionDef) and n.name == nm][0]
        sig, ret = SIGS_THRESH[nm]
        out.append(ApiFn(nm, node, sig, ret, sigs=SIGS_THRESH, src='isi_lengths.py').translate())
    out.append('end PySpike.GenApi\n')
    return '\n'.join(out)


if __name__ == '__main__':
    try:
        repo_ = sys.argv[1] if len(sys.argv) > 1 else '/repo'
        which = sys.argv[2] if len(sys.argv) > 2 else 'api'
        sys.stdout.write({'thresh': generate_thresh, 'train': generate_train, 'api': generate_api}[which](repo_))
    except Untranslatable as ex:
        sys.stderr.write('Untranslatable: %s\n' % ex)
        sys.exit(3)
