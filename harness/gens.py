"""harness/gens.py — case generators. Every random choice comes from the `rng` passed in
(seeded from VERIF_SEED). A generator yields (op, fields, tags)."""
import itertools, random
from fractions import Fraction as Fr

H = Fr(1, 2)


def subsets(points):
    pts = list(points)
    for mask in range(1 << len(pts)):
        yield [pts[i] for i in range(len(pts)) if mask >> i & 1]


def non_empty(s, ts, te):
    return list(s) if s else [ts, te]


def tags_of(s1, s2, ts, te):
    t = []
    if not s1 or not s2:
        t.append('empty-train')
    if len(s1) == 1 or len(s2) == 1:
        t.append('one-spike')
    if (s1 and (s1[0] == ts or s1[-1] == te)) or (s2 and (s2[0] == ts or s2[-1] == te)):
        t.append('edge-spike')
    if set(s1) & set(s2):
        t.append('shared-spike')
    if s1 == s2:
        t.append('identical')
    if any(x.denominator >= 2 ** 20 for x in list(s1) + list(s2)):
        t.append('near-equal-times')
    return t


MRTS_TABLE = [Fr(0), Fr(1), Fr(3), Fr(40)]
MAXTAU_TABLE = [Fr(0), Fr(3, 4), Fr(3, 2), Fr(5, 2)]


def grid_pairs(T, ts=0):
    pts = [Fr(ts + k) for k in range(T + 1)]
    subs = list(subsets(pts))
    for s1 in subs:
        for s2 in subs:
            yield s1, s2, Fr(ts), Fr(ts + T)


def random_train(rng, ts, te, nmax=8, den=8, mode=None):
    """sorted duplicate-free spikes on a 1/den grid inside [ts, te]"""
    mode = mode or rng.choice(['uniform', 'cluster', 'regular', 'edge', 'sparse'])
    lo, hi = int(ts * den), int(te * den)
    n = rng.randint(0, nmax)
    if mode == 'sparse':
        n = rng.randint(0, 2)
    if mode == 'uniform' or mode == 'sparse':
        pts = set(rng.randint(lo, hi) for _ in range(n))
    elif mode == 'cluster':
        c = rng.randint(lo, hi)
        pts = set(min(hi, max(lo, c + rng.randint(-den, den))) for _ in range(n))
    elif mode == 'regular':
        step = max(1, (hi - lo) // (n + 1))
        off = rng.randint(0, step)
        pts = set(min(hi, lo + off + k * step) for k in range(n))
    else:
        pts = set(rng.randint(lo, hi) for _ in range(n))
        if rng.random() < 0.7:
            pts.add(lo)
        if rng.random() < 0.7:
            pts.add(hi)
    return sorted(Fr(p, den) for p in pts)


EPS_NEAR = Fr(1, 2 ** 20)


def nearify(rng, s, ts, te, other=None):
    """add spikes that are 2^-20 away from an edge / from a spike of the other train / from an own
    spike (a tolerant float comparison such as np.isclose would treat them as equal)"""
    pts = set(s)
    r = rng.random()
    if r < 0.35:
        pts.add(te - EPS_NEAR)
    elif r < 0.6:
        pts.add(ts + EPS_NEAR)
    elif r < 0.8 and other:
        x = rng.choice(list(other))
        y = x + rng.choice([1, -1]) * EPS_NEAR
        if ts <= y <= te:
            pts.add(y)
    elif pts:
        x = rng.choice(sorted(pts))
        y = x + rng.choice([1, -1]) * EPS_NEAR
        if ts <= y <= te:
            pts.add(y)
    return sorted(pts)


def random_pair(rng, den=8):
    ts = Fr(rng.choice([0, 0, -3, 5, 1]), 1) + rng.choice([0, H, Fr(1, 4)])
    te = ts + rng.choice([2, 4, 6, 10]) + rng.choice([0, H])
    s1 = random_train(rng, ts, te, den=den)
    s2 = random_train(rng, ts, te, den=den)
    r = rng.random()
    if r < 0.15 and s1:
        # force shared spike times
        s2 = sorted(set(s2) | set(rng.sample(s1, min(len(s1), rng.randint(1, 3)))))
    elif r < 0.22:
        s2 = list(s1)
    if rng.random() < 0.12:
        if rng.random() < 0.5:
            s1 = nearify(rng, s1, ts, te, s2)
        else:
            s2 = nearify(rng, s2, ts, te, s1)
    return s1, s2, ts, te


def kernel_params(op, rng=None, full=True):
    """parameter tuples for the kernel ops"""
    if op == 'isi_profile':
        return [[m] for m in MRTS_TABLE]
    if op == 'spike_profile':
        return [[m, ri] for m in MRTS_TABLE for ri in (0, 1)]
    return [[mt, m] for mt in MAXTAU_TABLE for m in MRTS_TABLE]


def kernel_grid(op, T, ts=0, sample=None, rng=None):
    """all pairs of subsets of a (T+1)-point grid × parameter table for one kernel op"""
    ne = op in ('isi_profile', 'spike_profile')
    params = kernel_params(op)
    for s1, s2, a, b in grid_pairs(T, ts):
        tg = tags_of(s1, s2, a, b)
        if sample is not None and rng.random() > sample:
            continue
        u1, u2 = (non_empty(s1, a, b), non_empty(s2, a, b)) if ne else (s1, s2)
        for p in params:
            yield op, [u1, u2, [a, b] + p], tg


def kernel_random(op, rng, n):
    ne = op in ('isi_profile', 'spike_profile')
    for _ in range(n):
        s1, s2, a, b = random_pair(rng)
        tg = tags_of(s1, s2, a, b) + ['random']
        u1, u2 = (non_empty(s1, a, b), non_empty(s2, a, b)) if ne else (s1, s2)
        if op == 'isi_profile':
            p = [rng.choice([0, 0, Fr(1, 4), 1, 2, 50])]
        elif op == 'spike_profile':
            p = [rng.choice([0, 0, Fr(1, 4), 1, 2, 50]), rng.choice([0, 1])]
        else:
            p = [rng.choice([0, 0, Fr(1, 8), H, 1, 3]), rng.choice([0, 0, Fr(1, 4), 1, 2, 50])]
        yield op, [u1, u2, [a, b] + p], tg


def tau_tie_cases(rng, n):
    """spike pairs whose distance equals the coincidence window exactly (strict `<` must reject)
    and just inside it"""
    for _ in range(n):
        ts, te = Fr(0), Fr(rng.choice([16, 20, 32]))
        # train 1: a, a+d ; train 2: a + d/2  → tau = d/2 - ... construct from ISIs
        a = Fr(rng.randint(2, 8))
        d = Fr(rng.choice([2, 4, 6]))
        x = a + d / 2 * rng.choice([1, 1, Fr(1, 2)])          # on or inside the window of (a, a+d)
        s1 = sorted({a, a + d, min(te, a + 2 * d)})
        s2 = sorted({x} | ({x + d + rng.randint(1, 3)} if rng.random() < 0.5 else set()))
        s2 = [v for v in s2 if v <= te]
        mt = rng.choice([0, 0, d / 2, d / 4, d])
        m = rng.choice([0, 0, d, 2 * d, 4 * d])
        for op in ('coinc_profile', 'coinc_single', 'order_profile', 'dir_profile'):
            yield op, [s1, s2, [ts, te, mt, m]], ['tau-tie']
            yield op, [s2, s1, [ts, te, mt, m]], ['tau-tie']


def get_tau_cases(rng, n):
    for _ in range(n):
        s1, s2, ts, te = random_pair(rng)
        if not s1 or not s2:
            continue
        i = rng.randint(-1, len(s1) - 1)
        j = rng.randint(-1, len(s2) - 1)
        mt = rng.choice([te - ts, 1, 2, H])
        m = rng.choice([0, 0, Fr(1, 4), 1, 2, 8, 50])
        yield 'get_tau', [s1, s2, [i, j, mt, m]], []


# ---------------------------------------------------------------- function classes

def pw_values(rng, n, lo=-4, hi=4):
    # quarters, not integers: a truncation to int somewhere (dtype inherited from integer breakpoints) must show
    return [Fr(rng.randint(4 * lo, 4 * hi), 4) for _ in range(n)]


def pwc_on(rng, T, inner):
    x = [Fr(0)] + [Fr(v) for v in inner] + [Fr(T)]
    return x, pw_values(rng, len(x) - 1)


def pwl_on(rng, T, inner):
    x = [Fr(0)] + [Fr(v) for v in inner] + [Fr(T)]
    return x, pw_values(rng, len(x) - 1), pw_values(rng, len(x) - 1)


def disc_on(rng, T, inner, free_edges=False):
    x = [Fr(0)] + [Fr(v) for v in inner] + [Fr(T)]
    mp = [Fr(rng.randint(1, 3)) for _ in x]
    y = [Fr(rng.randint(0, int(m))) for m in mp]
    if len(x) > 2 and not free_edges:
        # as the profile routines write them: the edge entries repeat their neighbours
        y[0], mp[0], y[-1], mp[-1] = y[1], mp[1], y[-2], mp[-2]
    return x, y, mp


def add_cases(rng, T):
    inner = list(subsets(range(1, T)))
    for i1 in inner:
        for i2 in inner:
            tg = []
            if set(i1) & set(i2):
                tg.append('shared-breakpoint')
            if not i1 or not i2:
                tg.append('single-piece')
            yield 'add_pwc', list(pwc_on(rng, T, i1)) + list(pwc_on(rng, T, i2)), tg
            yield 'add_pwl', list(pwl_on(rng, T, i1)) + list(pwl_on(rng, T, i2)), tg
            yield 'add_disc', list(disc_on(rng, T, i1)) + list(disc_on(rng, T, i2)), tg
            # edge entries with values of their own (they never count, but `add` must add them too)
            yield 'add_disc', list(disc_on(rng, T, i1, True)) + list(disc_on(rng, T, i2, True)), tg + ['free-edge-entries']
    # breakpoints / event times that differ by 2^-20 only (a tolerant comparison would fuse them)
    e = Fr(1, 2 ** 20)
    for i1 in inner:
        if not i1:
            continue
        for sg in (1, -1):
            def near(f):
                f = list(f)
                f[0] = [f[0][0]] + [v + sg * e for v in f[0][1:-1]] + [f[0][-1]]
                return f
            yield 'add_pwc', list(pwc_on(rng, T, i1)) + near(pwc_on(rng, T, i1)), ['near-breakpoints']
            yield 'add_pwl', list(pwl_on(rng, T, i1)) + near(pwl_on(rng, T, i1)), ['near-breakpoints']
            yield 'add_disc', list(disc_on(rng, T, i1)) + near(disc_on(rng, T, i1)), ['near-breakpoints']
    # breakpoints that are ADJACENT DOUBLES (one unit in the last place apart): a midpoint or an average of the
    # two rounds onto one of them. ulp(v) = 2^(floor(log2 v) - 52), exact as a rational.
    def ulp(v):
        k = 0
        while Fr(2) ** (k + 1) <= v:
            k += 1
        return Fr(2) ** (k - 52)
    for i1 in inner:
        if not i1:
            continue
        for sg in (1, -1):
            def adj(f):
                f = list(f)
                f[0] = [f[0][0]] + [v + (ulp(v) if sg > 0 else -ulp(v) / (2 if v == Fr(2) ** int(v).bit_length() / 2 else 1)) for v in f[0][1:-1]] + [f[0][-1]]
                return f
            yield 'add_pwc', list(pwc_on(rng, T, i1)) + adj(pwc_on(rng, T, i1)), ['adjacent-doubles']
            yield 'add_pwl', list(pwl_on(rng, T, i1)) + adj(pwl_on(rng, T, i1)), ['adjacent-doubles']
            yield 'add_disc', list(disc_on(rng, T, i1)) + adj(disc_on(rng, T, i1)), ['adjacent-doubles']


def avg_mul_cases(rng, T, n):
    """average_profile of 1..4 functions on common end points; mul_scalar of the three classes"""
    inner = list(subsets(range(1, T)))
    for _ in range(n):
        k = rng.choice([1, 2, 2, 3, 3, 4])
        fc, fl_ = [], []
        for _ in range(k):
            fc += list(pwc_on(rng, T, rng.choice(inner)))
            fl_ += list(pwl_on(rng, T, rng.choice(inner)))
        tg = ['avg-%d' % k]
        yield 'avg_pwc', fc, tg
        yield 'avg_pwl', fl_, tg
        c = [rng.choice([Fr(0), Fr(1), Fr(-1), Fr(1, 2), Fr(3), Fr(1, 3)])]
        i1 = rng.choice(inner)
        yield 'mul_pwc', list(pwc_on(rng, T, i1)) + [c], ['mul']
        yield 'mul_pwl', list(pwl_on(rng, T, i1)) + [c], ['mul']
        yield 'mul_disc', list(disc_on(rng, T, i1)) + [c], ['mul']


def half_points(T):
    return [Fr(k, 2) for k in range(2 * T + 1)]


def func_cases(rng, T, per_func_intervals=None):
    """integral / avrg / call / plot of the three classes, all breakpoint subsets of {1..T-1},
    all half-integer intervals"""
    hp = half_points(T)
    all_iv = [(a, b) for a in hp for b in hp if a < b]
    for inner in subsets(range(1, T)):
        fc = list(pwc_on(rng, T, inner))
        fl_ = list(pwl_on(rng, T, inner))
        fd = list(disc_on(rng, T, inner))
        ivl = all_iv if per_func_intervals is None else rng.sample(all_iv, min(per_func_intervals, len(all_iv)))
        for (a, b) in ivl:
            tg = ['iv-on-breakpoint'] if (a in fc[0] or b in fc[0]) else []
            yield 'pwc_integral', fc + [[a, b]], tg
            yield 'pwc_avrg', fc + [[a, b]], tg
            yield 'pwl_integral', fl_ + [[a, b]], tg
            yield 'pwl_avrg', fl_ + [[a, b]], tg
            yield 'disc_integral', fd + [[a, b]], tg
            yield 'disc_avrg', fd + [[a, b]], tg
        for _ in range(3):
            k = rng.randint(1, 3)
            cuts = sorted(rng.sample(hp, 2 * k))
            iv = [v for pair in zip(cuts[0::2], cuts[1::2]) for v in pair]
            yield 'pwc_avrg_list', fc + [iv], ['iv-list']
            yield 'pwl_avrg_list', fl_ + [iv], ['iv-list']
            yield 'disc_integral_list', fd + [iv], ['iv-list']
        yield 'pwc_integral_all', fc, []
        yield 'pwc_avrg_all', fc, []
        yield 'pwl_integral_all', fl_, []
        yield 'pwl_avrg_all', fl_, []
        yield 'disc_integral_all', fd, []
        yield 'disc_avrg_all', fd, []
        near = [Fr(k) + sg * Fr(1, 2 ** 20) for k in range(1, T) for sg in (1, -1)] + [Fr(1, 2 ** 20), Fr(T) - Fr(1, 2 ** 20)]
        yield 'pwc_call', fc + [hp + near], []
        yield 'pwc_call_seq', fc + [hp + near], []
        yield 'pwl_call', fl_ + [hp + near], []
        yield 'pwl_call_seq', fl_ + [hp + near], []
        yield 'pwc_plot', fc, []
        yield 'pwl_plot', fl_, []
        for k in range(0, 4):
            yield 'disc_plot', fd + [[k]], ['smooth-k%d' % k]
        # out-of-support intervals (Pwc raises ValueError)
        yield 'pwc_integral', fc + [[Fr(-1), Fr(1)]], ['iv-outside']
        yield 'pwc_integral', fc + [[Fr(1), Fr(T + 1)]], ['iv-outside']
        yield 'pwc_integral', fc + [[Fr(3), Fr(1)]], ['iv-reversed']
        yield 'pwc_avrg', fc + [[Fr(3), Fr(1)]], ['iv-reversed']
        yield 'pwl_integral', fl_ + [[Fr(-1), Fr(1)]], ['iv-outside']
        # the piecewise-linear integral has no range check for the upper bound: it indexes past the arrays
        # (IndexError) when b > x[-1] or a >= x[-1]; a reversed interval inside the support is computed
        yield 'pwl_integral', fl_ + [[Fr(1), Fr(T + 1)]], ['iv-outside']
        yield 'pwl_integral', fl_ + [[Fr(T), Fr(T)]], ['iv-degenerate']
        yield 'pwl_integral', fl_ + [[Fr(T), Fr(1)]], ['iv-reversed']
        yield 'pwl_integral', fl_ + [[Fr(3), Fr(1)]], ['iv-reversed']
        yield 'pwl_avrg', fl_ + [[Fr(1), Fr(T + 1)]], ['iv-outside']
        yield 'pwc_integral', fc + [[Fr(T), Fr(T)]], ['iv-degenerate']
        yield 'pwc_integral', fc + [[Fr(0), Fr(0)]], ['iv-degenerate']
        yield 'disc_integral', fd + [[Fr(-1), Fr(1)]], ['iv-outside']
        yield 'disc_integral', fd + [[Fr(1), Fr(T + 1)]], ['iv-outside']


# ---------------------------------------------------------------- API level

def kw_field(mrts=0, ri=0, max_tau=0, recon=1, interval=None, extra=()):
    a, b = interval if interval else (0, 0)
    return [Fr(mrts), Fr(ri), Fr(max_tau), Fr(recon), Fr(1 if interval else 0), Fr(a), Fr(b)] + [Fr(e) for e in extra]


def idx_field(idx):
    return [Fr(0)] if idx is None else [Fr(1)] + [Fr(i) for i in idx]


def train_field(s, ts, te):
    return [Fr(ts), Fr(te)] + list(s)


def random_list(rng, nmin=2, nmax=5, den=4, degenerate=0.3):
    ts = Fr(rng.choice([0, 0, -2, 3]))
    te = ts + rng.choice([4, 6, 8])
    n = rng.randint(nmin, nmax)
    L = []
    for _ in range(n):
        r = rng.random()
        if r < degenerate / 3:
            s = []
        elif r < 2 * degenerate / 3:
            s = [rng.choice([ts, te, ts + Fr(rng.randint(0, int((te - ts) * den)), den)])]
        elif r < degenerate and L:
            s = list(rng.choice(L))
        else:
            s = random_train(rng, ts, te, nmax=6, den=den)
        L.append(s)
    if rng.random() < 0.12:
        k = rng.randrange(len(L))
        L[k] = nearify(rng, L[k], ts, te, L[(k + 1) % len(L)])
    return L, ts, te


def random_interval(rng, ts, te, den=2):
    """sub-interval of the recording; one in four is anchored at an edge: the whole recording,
    [t_start, b] or [a, t_end] (spikes exactly on a bound of the interval are where the interval
    forms of the measures differ from the whole-recording forms)"""
    lo, hi = int(ts * den), int(te * den)
    a = rng.randint(lo, hi - 1)
    b = rng.randint(a + 1, hi)
    r = rng.random()
    if r < 0.1:
        return Fr(ts), Fr(te)
    if r < 0.18:
        return Fr(ts), Fr(b, den)
    if r < 0.26:
        return Fr(a, den), Fr(te)
    return Fr(a, den), Fr(b, den)


def random_kw(rng, T, measure):
    mrts = rng.choice([0, 0, 0, Fr(1, 4), 1, 2, 4 * T, -1])
    ri = rng.choice([0, 1]) if measure == 'spike' else 0
    mt = rng.choice([0, 0, Fr(1, 2), 1, 2]) if measure in ('sync', 'order', 'dir', 'filter') else 0
    return mrts, ri, mt


BI_OPS = {
    'isi': ['isi_profile_bi', 'isi_distance_bi'],
    'spike': ['spike_profile_bi', 'spike_distance_bi'],
    'sync': ['sync_profile_bi', 'spike_sync_bi'],
    'order': ['order_profile_bi', 'order_bi'],
    'dir': ['dir_bi'],
}
MULTI_OPS = {
    'isi': ['isi_profile_multi', 'isi_distance_multi', 'isi_distance_matrix'],
    'spike': ['spike_profile_multi', 'spike_distance_multi', 'spike_distance_matrix'],
    'sync': ['sync_profile_multi', 'spike_sync_multi', 'spike_sync_matrix'],
    'order': ['order_profile_multi', 'order_multi'],
    'dir': ['dir_values', 'dir_matrix'],
}
INTERVAL_OPS = {'isi_distance_bi', 'isi_distance_multi', 'isi_distance_matrix', 'spike_distance_bi',
                'spike_distance_multi', 'spike_distance_matrix', 'spike_sync_bi', 'spike_sync_multi',
                'spike_sync_matrix'}
NO_INTERVAL_OPS = {'order_bi', 'order_multi', 'dir_values', 'dir_bi', 'dir_matrix'}
INDEX_OPS = {o for v in MULTI_OPS.values() for o in v}


def api_cases(rng, n, measures=('isi', 'spike', 'sync', 'order', 'dir'), with_idx=True, with_iv=True):
    for _ in range(n):
        L, ts, te = random_list(rng)
        T = te - ts
        meas = rng.choice(measures)
        mrts, ri, mt = random_kw(rng, T, meas)
        tfs = [train_field(s, ts, te) for s in L]
        tg = ['api-' + meas]
        if any(not s for s in L):
            tg.append('empty-train')
        for op in MULTI_OPS[meas]:
            iv = random_interval(rng, ts, te) if (with_iv and op in INTERVAL_OPS and rng.random() < 0.5) else None
            if with_iv and op in NO_INTERVAL_OPS and rng.random() < 0.04:
                iv = random_interval(rng, ts, te)     # `interval` is documented as unsupported: both sides must reject
            idx = None
            if with_idx and len(L) > 2 and rng.random() < 0.4:
                k = rng.randint(2, len(L))
                idx = rng.sample(range(len(L)), k)
            extra = [rng.choice([0, 1])] if op == 'dir_matrix' else []
            yield op, [kw_field(mrts, ri, mt, 1, iv, extra), idx_field(idx)] + tfs, tg + (['indices'] if idx else []) + (['interval'] if iv else [])
        i, j = rng.sample(range(len(L)), 2)
        for op in BI_OPS[meas]:
            iv = random_interval(rng, ts, te) if (with_iv and op in INTERVAL_OPS and rng.random() < 0.5) else None
            if with_iv and op in NO_INTERVAL_OPS and rng.random() < 0.04:
                iv = random_interval(rng, ts, te)
            extra = [rng.choice([0, 1])] if op in ('order_bi', 'dir_bi') else []
            yield op, [kw_field(mrts, ri, mt, 1, iv, extra), idx_field(None), tfs[i], tfs[j]], tg + (['interval'] if iv else [])


def api_small_exhaustive(T=3, ops=None, max_trains=3):
    """all lists of 2..max_trains trains on a (T+1)-point grid"""
    pts = [Fr(k) for k in range(T + 1)]
    subs = list(subsets(pts))
    for n in range(2, max_trains + 1):
        for combo in itertools.product(subs, repeat=n):
            yield list(combo), Fr(0), Fr(T)


def disordered_list(rng):
    """spike trains with shuffled, repeated, out-of-range spikes and differing edges, plus the
    same data sorted and de-duplicated"""
    L, ts, te = random_list(rng, degenerate=0.2)
    raw = []
    eps_offsets = [Fr(1, 2 ** 21), Fr(1, 2 ** 19), Fr(1)]
    for s in L:
        r = list(s)
        for _ in range(rng.randint(0, 3)):
            if r:
                r.append(rng.choice(r))
        if rng.random() < 0.3:
            r.append(te + rng.choice(eps_offsets))
        if rng.random() < 0.3:
            r.append(ts - rng.choice(eps_offsets))
        rng.shuffle(r)
        e0 = ts + rng.choice([0, 0, 0, 1])
        e1 = te - rng.choice([0, 0, 0, 1])
        raw.append((r, e0, e1))
    # make sure the common interval is [ts, te]: one train (at a random position - not always the first, so that
    # a train listed EARLIER can have spikes outside its own edges but inside the common interval) spans it
    k = rng.randrange(len(raw))
    raw[k] = (raw[k][0], ts, te)
    return raw, ts, te


def filter_cases(rng, n):
    for _ in range(n):
        L, ts, te = random_list(rng, nmin=2, nmax=6)
        N = len(L)
        thr = rng.choice([Fr(k, N - 1) for k in range(N)] + [Fr(0), Fr(1, 4), H, Fr(3, 4), Fr(1)])
        mrts, ri, mt = random_kw(rng, te - ts, 'filter')
        yield 'filter_by_sync', [kw_field(mrts, 0, mt, 1, None, [thr]), idx_field(None)] + [train_field(s, ts, te) for s in L], ['filter']


def reconcile_cases(rng, n):
    """`reconcile` op on disordered lists, and API measures on disordered lists"""
    for _ in range(n):
        raw, ts, te = disordered_list(rng)
        tfs = [train_field(s, a, b) for s, a, b in raw]
        yield 'reconcile', [kw_field(), idx_field(None)] + tfs, ['disordered']
        eps = Fr(1, 10 ** 6)
        tS = min(a for _, a, _ in raw); tE = max(b for _, _, b in raw)
        if any(any(tS - eps < x < tS or tE < x < tE + eps for x in s) for s, _, _ in raw):
            continue    # kept by the tolerance but outside the interval: measures undefined
        meas = rng.choice(['isi', 'spike', 'sync', 'order', 'dir'])
        mrts, ri, mt = random_kw(rng, te - ts, meas)
        # the sync filter reconciles by default like every measure
        thr = rng.choice([Fr(0), Fr(1, 4), Fr(1, 2), Fr(3, 4)])
        fm, _, fmt = random_kw(rng, te - ts, 'filter')
        yield 'filter_by_sync', [kw_field(fm, 0, fmt, 1, None, [thr]), idx_field(None)] + tfs, ['disordered', 'filter']
        for op in MULTI_OPS[meas]:
            extra = [rng.choice([0, 1])] if op == 'dir_matrix' else []
            yield op, [kw_field(mrts, ri, mt, 1, None, extra), idx_field(None)] + tfs, ['disordered', 'api-' + meas]
        for op in BI_OPS[meas]:
            extra = [rng.choice([0, 1])] if op in ('order_bi', 'dir_bi') else []
            yield op, [kw_field(mrts, ri, mt, 1, None, extra), idx_field(None), tfs[0], tfs[1]], ['disordered', 'api-' + meas]


def norecon_cases(rng, n):
    """Reconcile=False on valid input"""
    for op, f, tg in api_cases(rng, n, with_idx=False):
        f = [list(f[0])] + f[1:]
        f[0][3] = Fr(0)
        yield op, f, tg + ['reconcile-off']


def misc_cases(rng, n):
    for _ in range(n):
        L, ts, te = random_list(rng, nmin=1, nmax=5)
        tfs = [train_field(s, ts, te) for s in L]
        yield 'merge', [kw_field(), idx_field(None)] + tfs, ['merge']
        yield 'default_thresh_sq', [kw_field(), idx_field(None)] + tfs, ['thresh']
        yield 'isi_lengths', [kw_field(), idx_field(None), tfs[0]], ['isi-lengths']
        nb = rng.choice([1, 2, 4, 8, 16])
        yield 'psth', [kw_field(extra=[nb]), idx_field(None)] + tfs, ['psth']
        # Poisson: the recorded stream of exponential variates is passed as the "spikes" of a train
        T = te - ts
        k = rng.randint(0, 8)
        stream = [Fr(rng.randint(1, 12), 8) for _ in range(k)]
        yield 'poisson', [kw_field(), idx_field(None), train_field(stream, ts, te)], ['poisson']
        rows = rng.randint(1, 3); cols = rng.randint(1, 8)
        start = Fr(rng.choice([0, 1, -2])); binw = rng.choice([Fr(1), H, Fr(1, 4), Fr(2)])
        yield 'time_series', [kw_field(), idx_field(None)] + [[start, binw] + [Fr(rng.choice([0, 0, 1, 1, 2])) for _ in range(cols)] for _ in range(rows)], ['time-series']


def isi_lengths_grid(T):
    pts = [Fr(k) for k in range(T + 1)]
    for s in subsets(pts):
        yield 'isi_lengths', [kw_field(), idx_field(None), train_field(s, 0, T)], ['isi-lengths']


def api_grid(T, measures, max_tau=(0,), mrts=(0,), n_trains=2):
    """all lists of n_trains subsets of a (T+1)-point grid through the public bivariate/multivariate ops"""
    pts = [Fr(k) for k in range(T + 1)]
    subs = list(subsets(pts))
    for combo in itertools.product(subs, repeat=n_trains):
        tfs = [train_field(s, 0, T) for s in combo]
        tg = tags_of(combo[0], combo[1], Fr(0), Fr(T))
        for meas in measures:
            for m in mrts:
                for mt in (max_tau if meas in ('sync', 'order', 'dir') else (0,)):
                    ris = (0, 1) if meas == 'spike' else (0,)
                    for ri in ris:
                        if n_trains == 2:
                            for op in BI_OPS[meas]:
                                yield op, [kw_field(m, ri, mt), idx_field(None)] + tfs, tg
                        else:
                            for op in MULTI_OPS[meas]:
                                yield op, [kw_field(m, ri, mt), idx_field(None)] + tfs, tg


def text_cases(rng, n):
    """save/load round trips and the decimal rounding of `{:.pe}`; spike times are arbitrary
    doubles here (converted exactly to rationals)"""
    def rnd():
        r = rng.random()
        if r < 0.2:
            return Fr(rng.randint(0, 999))
        if r < 0.4:
            return Fr(float(rng.random() * 10 ** rng.randint(-6, 6)))
        if r < 0.5:
            # decimal ties of the rounding: k + 1/2 at the last printed digit (dyadic ones)
            return Fr(rng.randint(1, 999)) + Fr(1, 2 ** rng.randint(1, 4))
        return Fr(float(rng.uniform(0, 100)))
    for _ in range(n):
        p = rng.randint(1, 17)
        yield 'round_sci', [[Fr(p)], [rnd() for _ in range(rng.randint(1, 6))]], ['round-p%d' % p]
        k = rng.randint(1, 5)
        trains = []
        for _ in range(k):
            m = rng.randint(0, 5)
            t = [rnd() for _ in range(m)]
            if rng.random() < 0.6:
                t.sort()
            trains.append(t)
        if all(len(t) == 0 for t in trains) and rng.random() < 0.8:
            trains[0] = [Fr(1)]
        yield 'save_load', [[Fr(p), Fr(rng.choice([0, 1])), Fr(rng.choice([0, 0, 1]))]] + trains, ['save-load', 'prec-%d' % p] + (['empty-train'] if any(len(t) == 0 for t in trains) else [])
