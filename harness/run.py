"""harness/run.py — entry point behind ./check.

  python -m harness.run C07 --tier quick          check one property
  python -m harness.run --replay build/replay/x.json

Order (DESIGN.md §6): Lean build + axiom audit of the property's theorems → correspondence suites
(model vs /repo) → property oracle on the implementation (failing-input search) → known-finding
replays → evidence → verdict.
"""
import sys, os, json, time, random, subprocess, re, argparse, traceback, copy

from .core import VERIF, BUILD, Stats, line_of
LEAN_DIR = os.path.join(VERIF, 'lean')
ALLOWED_AXIOMS = {'propext', 'Classical.choice', 'Quot.sound'}
FORBIDDEN = re.compile(r'\bsorry\b|\badmit\b|^\s*axiom\s|native_decide|bv_decide|implemented_by|\bunsafe\s|maxHeartbeats\s+0\b')

TRUSTED_BASE = [
    'Lean 4.33.0 kernel (leanchecker re-check in the thorough tier)',
    'axioms: propext, Classical.choice, Quot.sound only (audited with #print axioms on every run); no native_decide, bv_decide, sorry, user axioms',
    'hand-written Lean model of the code (lean/PySpikeVerif/Model) tied to /repo by the correspondence check of this run (differential testing; bounded by the generators)',
    'second tie for the pure-Python backend kernels: Lean text generated from the source by harness/py2lean.py on every run (coverage.generated_model), proved equal to the hand-written model (Properties/GenRefine.lean); trusted there: the translator (a shallow embedding of the Python subset used; validated on every run against the real routines), not the hand-written model',
    'real-number (Rat) abstraction of IEEE doubles: branch decisions are exact on the dyadic inputs generated, values compared to 1e-11 relative',
    'numpy primitives (searchsorted, unique, sort, sum, histogram, linspace, loadtxt) modelled by their documented meaning',
    'non-mutation, absence of exceptions: monitored on every call the harness makes, not proved',
]


def sh(cmd, cwd=None, timeout=3600):
    p = subprocess.run(cmd, cwd=cwd, shell=isinstance(cmd, str), stdout=subprocess.PIPE, stderr=subprocess.STDOUT, timeout=timeout)
    return p.returncode, p.stdout.decode(errors='replace')


def obligations():
    with open(os.path.join(LEAN_DIR, 'obligations.json')) as f:
        return json.load(f)


def strip_comments(src):
    src = re.sub(r'/-.*?-/', '', src, flags=re.S)
    return '\n'.join(l.split('--')[0] for l in src.split('\n'))


def lean_check(prop, tier):
    """build, forbidden-token grep, #print axioms audit. Returns dict."""
    out = {'obligations': 0, 'discharged': 0, 'failed': [], 'theorems': [], 'build_ok': False}
    rc, log = sh(['lake', 'build', 'PySpikeVerif', 'pyspike_model'], cwd=LEAN_DIR)
    out['build_ok'] = rc == 0
    if rc != 0:
        out['failed'].append('lake build failed: ' + log[-1500:])
        return out
    bad = []
    for root, _, files in os.walk(os.path.join(LEAN_DIR, 'PySpikeVerif')):
        for fn in files:
            if fn.endswith('.lean'):
                src = strip_comments(open(os.path.join(root, fn)).read())
                for k, l in enumerate(src.split('\n')):
                    if FORBIDDEN.search(l):
                        bad.append('%s:%d: %s' % (fn, k + 1, l.strip()[:80]))
    if bad:
        out['failed'].append('forbidden construct: ' + '; '.join(bad[:5]))
    ob = obligations().get(prop, {})
    thms = ob.get('theorems', [])
    mods = ob.get('modules', ['PySpikeVerif.Properties.' + prop])
    out['obligations'] = len(thms)
    out['modules'] = mods
    if not thms:
        return out
    os.makedirs(BUILD, exist_ok=True)
    af = os.path.join(BUILD, 'Audit_%s.lean' % prop)
    with open(af, 'w') as f:
        for m in mods:
            f.write('import %s\n' % m)
        for t in thms:
            f.write('#print axioms %s\n' % t)
    rc, log = sh(['lake', 'env', 'lean', af], cwd=LEAN_DIR)
    found = {}
    for m in re.finditer(r"'([^']+)' depends on axioms: \[([^\]]*)\]", log.replace('\n', ' ')):
        found[m.group(1)] = set(a.strip() for a in m.group(2).split(',') if a.strip())
    for m in re.finditer(r"'([^']+)' does not depend on any axioms", log):
        found[m.group(1)] = set()
    for t in thms:
        if t not in found:
            out['failed'].append('theorem %s not found / not checked' % t)
        elif not found[t] <= ALLOWED_AXIOMS:
            out['failed'].append('theorem %s depends on %s' % (t, sorted(found[t] - ALLOWED_AXIOMS)))
        else:
            out['discharged'] += 1
            out['theorems'].append(t)
    if tier == 'thorough' and not out['failed']:
        rc, log = sh(['lake', 'env', 'leanchecker'] + mods, cwd=LEAN_DIR, timeout=3000)
        out['leanchecker'] = 'ok' if rc == 0 else 'failed: ' + log[-500:]
        if rc != 0:
            out['failed'].append('leanchecker rejected ' + ' '.join(mods))
    return out


def write_replay(prop, seed, k, payload):
    d = os.path.join(os.environ.get('VERIF_EVIDENCE_DIR') or BUILD, 'replay')
    os.makedirs(d, exist_ok=True)
    path = os.path.join(d, '%s_seed%d_%d.json' % (prop, seed, k))
    with open(path, 'w') as f:
        json.dump(payload, f, indent=1)
    return os.path.relpath(path, VERIF)


def shrink(oracle, sc, msg, budget=150):
    """greedy minimisation of a failing scenario (keeps the failure, any message)"""
    from fractions import Fraction as Fr
    cur = copy.deepcopy(sc)
    def fails(s):
        try:
            return oracle(s) is not None
        except Exception:
            return False
    n = 0
    changed = True
    while changed and n < budget:
        changed = False
        if 'ops' in cur and len(cur['ops']) > 0:
            # operation histories: drop the last operation (earlier objects keep their numbers)
            c = copy.deepcopy(cur); c['ops'] = c['ops'][:-1]; n += 1
            if fails(c):
                cur = c; changed = True
                continue
        if 'trains' in cur and 'raw' not in cur:
            # drop a train
            if len(cur['trains']) > 2 and not cur.get('indices') and not cur.get('perm') and 'thr' not in cur:
                for i in range(len(cur['trains']) - 1, 1, -1):
                    c = copy.deepcopy(cur); del c['trains'][i]; n += 1
                    if fails(c):
                        cur = c; changed = True; break
            # drop a spike
            for i, (s, ts, te) in enumerate(cur['trains']):
                for j in range(len(s)):
                    c = copy.deepcopy(cur); c['trains'][i] = (s[:j] + s[j + 1:], ts, te); n += 1
                    if n > budget:
                        break
                    if fails(c):
                        cur = c; changed = True; break
                if changed or n > budget:
                    break
            # default keywords
            for k in list(cur.get('kw', {})):
                if cur['kw'][k]:
                    c = copy.deepcopy(cur); c['kw'][k] = 0; n += 1
                    if fails(c):
                        cur = c; changed = True
            if 'interval' in cur:
                c = copy.deepcopy(cur); del c['interval']; n += 1
                if fails(c):
                    cur = c; changed = True
    return cur


def check(prop, tier, seed):
    from . import corr, suites, scen, known, oracles
    t0 = time.time()
    rng = random.Random(seed * 1000003 + int(prop[1:]))
    findings = known.load()
    stats = Stats()
    violations = []       # (replay payload)
    notes = []
    known_hits = {}
    # ---- 1. proofs
    if os.environ.get('VERIF_SKIP_LEAN') == '1':
        # tooling only (tools/seed_matrix.py runs many checks in parallel against scratch copies of
        # the repository; the proofs do not depend on the repository). Never used by MANIFEST commands.
        lean = {'obligations': len(obligations().get(prop, {}).get('theorems', [])), 'discharged': 0, 'failed': [],
                'theorems': [], 'build_ok': True, 'skipped': True}
    else:
        lean = lean_check(prop, tier)
    # ---- 1b. the generated-model tie: regenerate Gen/Backend.lean from the current source, compare,
    #          re-check the refinement proofs when it changed, validate the translator against the code
    gen_res = None
    if os.environ.get('VERIF_SKIP_GEN') != '1':
        from . import gentie
        try:
            gen_res = gentie.gen_tie(prop, tier, random.Random(seed * 31 + 7))
        except Exception as ex:
            gen_res = {'status': 'error', 'reason': repr(ex)[:300]}
        if prop == 'C12':
            # the Cython sources have their own generated model (pyx → pyx2py → py2lean)
            try:
                gen_res['cython_sources'] = gentie.gen_tie_pyx(tier, random.Random(seed * 37 + 11))
            except Exception as ex:
                gen_res['cython_sources'] = {'status': 'error', 'reason': repr(ex)[:300]}
            gp = gen_res['cython_sources']
            if gp.get('status') != 'identical':
                notes.append('generated-model tie (.pyx): %s — %s' % (gp.get('status'), gp.get('reason') or gp.get('note')))
            if gp.get('status_validation'):
                notes.append('generated-model tie (.pyx): ' + gp['status_validation'])
        if prop in ('C05', 'C10', 'C11'):
            # the methods of the function classes have their own generated model
            try:
                gen_res['function_classes'] = gentie.gen_tie_classes(tier, random.Random(seed * 41 + 13))
            except Exception as ex:
                gen_res['function_classes'] = {'status': 'error', 'reason': repr(ex)[:300]}
            gc_ = gen_res['function_classes']
            if gc_.get('status') != 'identical':
                notes.append('generated-model tie (function classes): %s — %s' % (gc_.get('status'), gc_.get('reason') or gc_.get('note')))
            if gc_.get('status_validation'):
                notes.append('generated-model tie (function classes): ' + gc_['status_validation'])
        for key_, fn_, props_ in (('plottable_data', gentie.gen_tie_plottable, ('C11',)), ('isi_lengths', gentie.gen_tie_isi_lengths, ('C15',)),
                                  ('interval_lists', gentie.gen_tie_interval_lists, ('C05', 'C10', 'C11')),
                                  ('spikes_helpers', gentie.gen_tie_api, ('C13', 'C20')), ('default_thresh', gentie.gen_tie_thresh, ('C15',)),
                                  ('spiketrain_methods', gentie.gen_tie_train, ('C18', 'C19'))):
            if prop in props_:
                try:
                    gen_res[key_] = fn_(tier, random.Random(seed * 43 + 17))
                except Exception as ex:
                    gen_res[key_] = {'status': 'error', 'reason': repr(ex)[:300]}
                if gen_res[key_].get('status') != 'identical':
                    notes.append('generated-model tie (%s): %s — %s' % (key_, gen_res[key_].get('status'), gen_res[key_].get('reason') or gen_res[key_].get('note')))
                if gen_res[key_].get('status_validation'):
                    notes.append('generated-model tie (%s): %s' % (key_, gen_res[key_]['status_validation']))
        if gen_res.get('status') != 'identical':
            notes.append('generated-model tie: %s — %s' % (gen_res.get('status'), gen_res.get('reason') or gen_res.get('note')))
        if gen_res.get('status_validation'):
            notes.append('generated-model tie: ' + gen_res['status_validation'])
        for k_, v_ in [('', gen_res)] + [(k_, v_) for k_, v_ in gen_res.items() if isinstance(v_, dict)]:
            tv = v_.get('translator_validation') if isinstance(v_, dict) else None
            if isinstance(tv, dict) and tv.get('error'):
                notes.append('generated-model tie %s: translator validation could not run: %s' % (k_, tv['error']))
    # ---- 2. correspondence
    suite_res = []
    evaluated = 0
    nontrivial = 0
    disagreements = []
    if lean['build_ok']:
        for name in suites.PROP_SUITES.get(prop, []):
            try:
                r = corr.run_cases(name, suites.SUITES[name](tier, rng), stats)
            except Exception as ex:
                notes.append('suite %s could not run: %r' % (name, ex))
                disagreements.append({'suite': name, 'op': '-', 'request': '-', 'model': '-', 'implementation': '-', 'difference': 'suite crashed: %r' % ex})
                continue
            suite_res.append({'suite': name, 'evaluated': r['evaluated'], 'disagreements': len(r['disagreements']), 'skipped': r['skipped']})
            evaluated += r['evaluated']
            nontrivial += r['distinct_nontrivial']
            disagreements += [d.as_dict() for d in r['disagreements']]
        extra = EXTRA.get(prop)
        if extra:
            r = extra(tier, rng, stats)
            suite_res += r['suites']
            evaluated += r['evaluated']
            nontrivial += r['nontrivial']
            disagreements += r['disagreements']
            for v in r.get('violations', []):
                if v[0] == '__direct__':
                    path = write_replay(prop, seed, 100 + len(violations), {'property': prop, 'kind': 'correspondence',
                                        'correspondence_disagreements': [v[1]], 'broken_obligations': [], 'rerun': './check --replay <this file>'})
                    violations.append((path, v[1]['difference'] + ': ' + v[1]['request'], False))
                else:
                    violations.append(v)
            notes += r.get('notes', [])
    # ---- 3. failing-input search with the property oracle (implementation only)
    oracle = oracles.ORACLES.get(prop)
    oracle_runs = 0
    oracle_fail = []
    samples_sc = []
    if oracle is not None:
        from fractions import Fraction as Fr
        from itertools import chain
        # first the inputs on which model and implementation disagree (usually the failing input)
        dis_sc = []
        for d in disagreements:
            line = d.get('impl_request', d['request'])
            if line == '-':
                continue
            try:
                flds = [[Fr(t) for t in f.split()] for f in line.split('|')[1:]]
                sc0 = scen.scenario_of_case(prop, d['op'], flds)
            except Exception:
                sc0 = None
            if sc0 is not None:
                dis_sc.append(scen.fix(sc0) if isinstance(sc0, dict) else sc0)
        for sc in chain(dis_sc, scen.scenarios(prop, tier, rng)):
            oracle_runs += 1
            if len(samples_sc) < 2:
                samples_sc.append(scen.enc(sc))
            try:
                msg = oracle(sc)
            except Exception as ex:
                msg = '%s oracle could not evaluate the implementation: %r' % (prop, ex)
            if msg:
                kf = known.match(prop, sc, msg, findings)
                if kf:
                    known_hits[kf] = known_hits.get(kf, 0) + 1
                    continue
                oracle_fail.append((sc, msg))
                if len(oracle_fail) >= 3:
                    break
    # ---- 3b. the same oracle with the (transliterated) compiled kernels importable
    if oracle is not None and prop in PYX_PROPS and not oracle_fail:
        from . import pyxrun
        try:
            with pyxrun.pyx_backend():
                for k_, sc in enumerate(scen.scenarios(prop, tier, random.Random(seed * 7919 + 17))):
                    if k_ % PYX_STRIDE.get(prop, 2):
                        continue
                    sc = dict(sc); sc['_backend'] = 'pyx'
                    oracle_runs += 1
                    try:
                        msg = oracle(sc)
                    except Exception as ex:
                        msg = '%s oracle could not evaluate the implementation (compiled-kernel configuration): %r' % (prop, ex)
                    if msg:
                        kf = known.match(prop, sc, msg, findings)
                        if kf:
                            known_hits[kf + '/pyx'] = known_hits.get(kf + '/pyx', 0) + 1
                            continue
                        sc.pop('_backend', None)
                        oracle_fail.append((sc, '[compiled-kernel configuration] ' + msg))
                        if len(oracle_fail) >= 3:
                            break
        except Exception as ex:
            notes.append('compiled-kernel configuration could not be set up: %r' % ex)
    # ---- 4. known findings
    kf_lines = []
    extra_replays = KNOWN_EXTRA.get(prop)
    for f, still, obs in known.replay_known(prop, findings, extra_replays() if extra_replays else None):
        if still:
            kf_lines.append('KNOWN-FINDING: property=%s %s: %s' % (prop, f['id'], f['what']))
        else:
            notes.append('known finding %s no longer reproduces (observed %r)' % (f['id'], obs))
    # ---- 5. verdict
    k = 0
    for sc, msg in oracle_fail:
        small = shrink(oracle, sc, msg)
        try:
            smsg = oracle(small) or msg
        except Exception:
            small, smsg = sc, msg
        path = write_replay(prop, seed, k, {'property': prop, 'kind': 'oracle', 'message': smsg, 'scenario': scen.enc(small),
                                            'original_scenario': scen.enc(sc), 'rerun': './check --replay <this file>'})
        violations.append((path, smsg, False))
        k += 1
    if not oracle_fail and not violations and (disagreements or lean['failed']):
        # the tie to the code (or a proof obligation) is broken and the search found no failing input
        what = {'property': prop, 'kind': 'no-longer-shown',
                'broken_obligations': lean['failed'], 'correspondence_disagreements': disagreements[:10],
                'rerun': './check --replay <this file>'}
        if disagreements:
            what['kind'] = 'correspondence'
        path = write_replay(prop, seed, k, what)
        violations.append((path, (lean['failed'] + [d['difference'] for d in disagreements])[0], True))
    elif oracle_fail and disagreements:
        notes.append('%d model/implementation disagreements accompany the failing input' % len(disagreements))
    wall = time.time() - t0
    ev = {
        'property_id': prop, 'tier': tier, 'seed': seed, 'level': 'proof',
        'coverage': {
            'obligations': max(lean['obligations'], 1), 'discharged': lean['discharged'],
            'checker_cmd': 'cd lean && lake build PySpikeVerif pyspike_model && lake env lean ../build/Audit_%s.lean   (#print axioms of every listed theorem)%s' % (prop, '; lake env leanchecker <modules>' if tier == 'thorough' else ''),
            'trusted_base': TRUSTED_BASE + PROP_TRUST.get(prop, []),
            'theorems': lean['theorems'], 'proof_failures': lean['failed'],
            'leanchecker': lean.get('leanchecker', 'not run in this tier'),
            'evaluations': evaluated + oracle_runs,
            'distinct_nontrivial': nontrivial,
            'rule': 'correspondence cases: model (Lean driver) and implementation run on the same request line; distinct = distinct request lines, non-trivial = not (both trains identical) and not (only empty trains). Oracle scenarios are counted in evaluations only.',
            'samples': [s for v in list(stats.samples.values())[:4] for s in v[:1]] + samples_sc[:1],
            'suites': suite_res, 'ops': stats.counts, 'input_tags': stats.tags,
            'oracle_scenarios': oracle_runs, 'known_finding_hits': known_hits,
            'disagreements': disagreements[:5], 'exhaustive': False,
            'generated_model': gen_res,
        },
        'assumptions': TRUSTED_BASE + PROP_TRUST.get(prop, []) + notes,
        'wall_s': round(wall, 2),
        'violations': len(violations),
    }
    evdir = os.environ.get('VERIF_EVIDENCE_DIR') or os.path.join(VERIF, 'evidence')
    os.makedirs(evdir, exist_ok=True)
    with open(os.path.join(evdir, prop + '.json'), 'w') as f:
        json.dump(ev, f, indent=1, default=str)
    for l in kf_lines:
        print(l)
    print('%s tier=%s seed=%d: theorems %d/%d, correspondence cases %d (%d disagreements), oracle scenarios %d, %.1fs' % (
        prop, tier, seed, lean['discharged'], lean['obligations'], evaluated, len(disagreements), oracle_runs, wall))
    for n_ in notes:
        print('note:', n_)
    if violations:
        for path, msg, nofail in violations:
            print('  ' + str(msg)[:300])
            print('VIOLATION property=%s replay=%s%s' % (prop, path, ' no-failing-input-found' if nofail else ''))
        return 1
    return 0


PYX_PROPS = {'C05', 'C07', 'C13', 'C14', 'C18'}
PYX_STRIDE = {'C07': 3, 'C18': 2}

# hooks filled by other modules (pyx backend, op sequences, …)
EXTRA = {}
KNOWN_EXTRA = {}
_API_TRUST = ['Gen/Api.lean (reconcile_spike_trains, reconcile_spike_trains_bi, merge_spike_trains generated from pyspike/spikes.py by harness/py2lean_api.py): trusted there are that translator and Gen/PreludeApi.lean, which MODELS the SpikeTrain constructor and np.unique / np.sort / np.concatenate / min / max by their documented meaning; validated on every run against the real functions (coverage.generated_model.spikes_helpers)']
_TRAIN_TRUST = ['Gen/ApiTrain.lean (SpikeTrain.get_spikes_non_empty, copy, sort generated from pyspike/SpikeTrain.py by harness/py2lean_api.py; np.insert / np.unique / np.sort by their documented meaning in Gen/PreludeApi.lean; validated on every run, coverage.generated_model.spiketrain_methods)']
PROP_TRUST = {'C13': _API_TRUST, 'C20': _API_TRUST, 'C18': _TRAIN_TRUST, 'C19': _TRAIN_TRUST,
              'C15': ['Gen/ApiThresh.lean (default_thresh, default_thresh_ generated from pyspike/isi_lengths.py by harness/py2lean_api.py; the generated functions return the radicand of the final np.sqrt, which is outside the rationals): trusted there is that translator; validated on every run (coverage.generated_model.default_thresh)']}


def replay(path):
    from . import scen, oracles, corr
    from .core import run_model, parse_out, brief
    from . import adapters
    p = json.load(open(path))
    prop = p['property']
    if p['kind'] == 'oracle':
        sc = scen.fix(scen.dec(p['scenario']))
        msg = oracles.ORACLES[prop](sc)
        print('scenario:', json.dumps(p['scenario']))
        print('oracle:', msg)
        if msg:
            print('VIOLATION property=%s replay=%s' % (prop, path))
            return 1
        print('property holds on this input')
        return 0
    bad = 0
    for d in p.get('correspondence_disagreements', []):
        line = d['request']
        if line == '-':
            continue
        op = line.split('|')[0].strip()
        from fractions import Fraction as Fr
        iline = d.get('impl_request', line)
        fields = [[Fr(t) for t in f.split()] for f in iline.split('|')[1:]]
        m = parse_out(run_model([line])[0])
        r = adapters.run_real(op, fields)
        why = corr.compare(m, r, adapters.exact_fields(op, len(m) if not isinstance(m, str) else 0))
        print('request:', line)
        print('  model:', brief(m, 1000))
        print('  impl :', brief(r, 1000))
        print('  ->', why or 'agree')
        bad += why is not None
    for o in p.get('broken_obligations', []):
        print('broken obligation:', o)
        bad += 1
    if bad:
        print('VIOLATION property=%s replay=%s no-failing-input-found' % (prop, path))
        return 1
    return 0


def main():
    ap = argparse.ArgumentParser()
    ap.add_argument('prop', nargs='?')
    ap.add_argument('--tier', default=os.environ.get('VERIF_TIER', 'quick'))
    ap.add_argument('--replay')
    a = ap.parse_args()
    from . import extra  # registers EXTRA / KNOWN_EXTRA / PROP_TRUST
    if a.replay:
        sys.exit(replay(a.replay))
    seed = int(os.environ.get('VERIF_SEED', '0'))
    if a.tier == 'thorough' and os.environ.get('VERIF_WORKER') != '1' and os.environ.get('VERIF_SKIP_LEAN') != '1':
        sys.exit(thorough_fanout(a.prop, seed))
    sys.exit(check(a.prop, a.tier, seed))


def thorough_fanout(prop, seed):
    """thorough tier: the registered pass (proof audit + leanchecker + correspondence + oracle with `seed`)
    plus VERIF_WORKERS further correspondence/oracle passes with other seeds in parallel processes; every
    pass must come out clean. Worker evidence goes to build/workers/, their VIOLATION lines are forwarded."""
    import subprocess
    nw = int(os.environ.get('VERIF_WORKERS', '6'))
    wdir = os.path.join(BUILD, 'workers', prop)
    import shutil
    shutil.rmtree(wdir, ignore_errors=True)
    os.makedirs(wdir, exist_ok=True)
    # the Lean build must exist before workers start the driver
    rc0, _ = sh(['lake', 'build', 'PySpikeVerif', 'pyspike_model'], cwd=LEAN_DIR)
    procs = []
    for k in range(nw):
        sd = seed + 101 * (k + 1)
        env = dict(os.environ, VERIF_WORKER='1', VERIF_SKIP_LEAN='1', VERIF_SEED=str(sd),
                   VERIF_EVIDENCE_DIR=os.path.join(wdir, 'seed%d' % sd))
        procs.append((sd, subprocess.Popen([sys.executable, '-W', 'ignore', '-m', 'harness', prop, '--tier', 'thorough'],
                                           cwd=VERIF, env=env, stdout=subprocess.PIPE, stderr=subprocess.STDOUT)))
    rc = check(prop, 'thorough', seed)
    extra_runs = []
    for sd, pr in procs:
        out = pr.communicate()[0].decode(errors='replace')
        evp = os.path.join(wdir, 'seed%d' % sd, prop + '.json')
        cov = {}
        try:
            cov = json.load(open(evp))['coverage']
        except Exception:
            pass
        extra_runs.append({'seed': sd, 'exit': pr.returncode, 'evaluations': cov.get('evaluations'),
                           'oracle_scenarios': cov.get('oracle_scenarios'),
                           'correspondence_disagreements': len(cov.get('disagreements', []))})
        if pr.returncode != 0:
            rc = 1
            for l in out.split('\n'):
                if l.startswith('VIOLATION') or l.startswith('  '):
                    print(l)
            if not any(l.startswith('VIOLATION') for l in out.split('\n')):
                # a worker died without a verdict: the property is not shown on that pass
                path = write_replay(prop, sd, 900, {'property': prop, 'kind': 'no-longer-shown', 'broken_obligations':
                                                    ['worker pass with seed %d ended with exit %s: %s' % (sd, pr.returncode, out[-800:])],
                                                    'correspondence_disagreements': [], 'rerun': './check --replay <this file>'})
                print('VIOLATION property=%s replay=%s no-failing-input-found' % (prop, path))
    # fold the extra passes into the evidence file of this run
    evp = os.path.join(os.environ.get('VERIF_EVIDENCE_DIR') or os.path.join(VERIF, 'evidence'), prop + '.json')
    try:
        ev = json.load(open(evp))
        ev['coverage']['extra_seed_passes'] = extra_runs
        ev['coverage']['evaluations'] += sum(r['evaluations'] or 0 for r in extra_runs)
        ev['violations'] += sum(1 for r in extra_runs if r['exit'] != 0)
        json.dump(ev, open(evp, 'w'), indent=1, default=str)
    except Exception as ex:
        print('note: could not fold worker passes into the evidence file: %r' % ex)
    print('%s thorough: %d further seed passes %s' % (prop, nw, [(r['seed'], r['exit']) for r in extra_runs]))
    return rc


if __name__ == '__main__':
    main()
