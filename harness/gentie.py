"""harness/gentie.py — the generated-model tie (DESIGN.md §5b).

On every run:
 1. `py2lean` translates the pure-Python backend of the CURRENT tree into Lean text.
 2. The text is compared with the committed `lean/PySpikeVerif/Gen/Backend.lean`.
    identical → the refinement theorems of the normal `lake build` (Properties/GenRefine.lean, audited
                with the other obligations) are theorems about the current source.
    changed   → the new text is compiled in a scratch directory and every refinement proof module is
                re-checked against it (`lean -o`, LEAN_PATH = scratch first). Which ones still check is
                recorded. A broken refinement proof is NOT an alarm by itself: the hand-written model stays
                tied to the code by the correspondence check, which (with the oracles) decides.
 3. Translator validation: the generated functions (interpreted by `lean --run GenMain.lean`) and the
    real Python routines are run on the kernel cases of the property; a difference means the
    translation does not reproduce the implementation (the generated tie is then reported unusable).
"""
import os, sys, subprocess, hashlib, shutil, time
from .core import VERIF, BUILD, REPO, line_of, parse_out, compare
from . import py2lean
from . import py2lean_api

LEAN_DIR = os.path.join(VERIF, 'lean')
COMMITTED = os.path.join(LEAN_DIR, 'PySpikeVerif', 'Gen', 'Backend.lean')
# refinement proof modules in dependency order, with the generated functions each one covers
REFINE = [
    ('PySpikeVerif.Proofs.GenRefine.Defs', []),
    ('PySpikeVerif.Proofs.GenRefine.Tau', ['get_tau']),
    ('PySpikeVerif.Proofs.GenRefine.Isi', ['isi_distance_python']),
    ('PySpikeVerif.Proofs.GenRefine.Coinc', ['coincidence_python']),
    ('PySpikeVerif.Proofs.GenRefine.Single', ['coincidence_single_python']),
    ('PySpikeVerif.Proofs.GenRefine.OrderDir', ['spike_train_order_profile_python', 'spike_directionality_profile_python']),
    ('PySpikeVerif.Proofs.GenRefine.SpikeAux', ['get_min_dist', 'dist_at_t']),
    ('PySpikeVerif.Proofs.GenRefine.SpikeLoop', []),
    ('PySpikeVerif.Proofs.GenRefine.SpikeInit', []),
    ('PySpikeVerif.Proofs.GenRefine.Spike', ['spike_distance_python']),
    ('PySpikeVerif.Proofs.GenRefine.AddPwcDisc', ['add_piece_wise_const_python', 'add_discrete_function_python']),
    ('PySpikeVerif.Proofs.GenRefine.AddPwlLemmas', []),
    ('PySpikeVerif.Proofs.GenRefine.AddPwl', ['add_piece_wise_lin_python']),
]
COMMITTED_PYX = os.path.join(LEAN_DIR, 'PySpikeVerif', 'Gen', 'BackendPyx.lean')
REFINE_PYX = [
    ('PySpikeVerif.Proofs.GenRefine.PyxTau', ['cython_get_tau.get_tau']),
    ('PySpikeVerif.Proofs.GenRefine.PyxIsi', ['cython_profiles.isi_profile_cython', 'cython_distances.isi_distance_cython']),
    ('PySpikeVerif.Proofs.GenRefine.PyxSpike', ['cython_profiles.spike_profile_cython']),
    ('PySpikeVerif.Proofs.GenRefine.PyxSpikeDist', ['cython_distances.spike_distance_cython']),
    ('PySpikeVerif.Proofs.GenRefine.PyxCoinc', ['cython_profiles.coincidence_profile_cython', 'cython_profiles.coincidence_single_profile_cython']),
    ('PySpikeVerif.Proofs.GenRefine.PyxValues', ['cython_distances.coincidence_value_cython', 'cython_directionality.spike_train_order_cython', 'cython_directionality.spike_directionality_cython']),
    ('PySpikeVerif.Proofs.GenRefine.PyxOrderDir', ['cython_directionality.spike_train_order_profile_cython', 'cython_directionality.spike_directionality_profiles_cython']),
    ('PySpikeVerif.Proofs.GenRefine.PyxAdd', ['cython_add.*']),
]
GEN_OPS = {'isi_profile', 'spike_profile', 'get_tau', 'coinc_profile', 'order_profile', 'coinc_single', 'dir_profile',
           'add_pwc', 'add_pwl', 'add_disc'}
# property → correspondence suites whose kernel cases are replayed on the generated model
GEN_PROPS = {
    'C01': ['k-isi'], 'C02': ['k-spike'], 'C03': ['k-tau', 'k-coinc', 'k-single', 'k-half'],
    'C04': ['k-tau', 'k-order', 'k-dir', 'k-half'], 'C09': ['f-add'], 'C11': ['f-add'],
    'C16': ['k-tau', 'k-coinc', 'k-single', 'k-order', 'k-dir'],
    'C07': ['k-isi', 'k-spike'], 'C08': ['k-isi', 'k-coinc'], 'C15': ['k-tau'], 'C12': ['k-isi', 'k-spike', 'k-coinc', 'k-order', 'k-dir', 'k-single', 'f-add'],
}


def _mod_path(mod):
    return os.path.join(LEAN_DIR, *mod.split('.')) + '.lean'


def _std_lean_path():
    p = subprocess.run(['lake', 'env', 'printenv', 'LEAN_PATH'], cwd=LEAN_DIR, stdout=subprocess.PIPE, stderr=subprocess.PIPE)
    return p.stdout.decode().strip()


def translate(pyx=False):
    try:
        fn = {False: py2lean.generate, True: py2lean.generate_pyx, 'classes': py2lean.generate_classes,
              'classes2': py2lean.generate_classes2, 'classes3': py2lean.generate_classes3, 'isilen': py2lean.generate_isi_lengths,
              'api': py2lean_api.generate_api, 'apithresh': py2lean_api.generate_thresh, 'apitrain': py2lean_api.generate_train}[pyx]
        return fn(REPO), None
    except py2lean.Untranslatable as ex:
        return None, str(ex)
    except (SyntaxError, OSError) as ex:
        return None, 'source could not be read: %r' % ex


GEN_MODULE = {False: 'Backend', True: 'BackendPyx', 'classes': 'Classes', 'classes2': 'Classes2', 'classes3': 'Classes3', 'isilen': 'IsiLengths', 'api': 'Api', 'apithresh': 'ApiThresh', 'apitrain': 'ApiTrain'}


def _imports_of(path):
    return [l.split()[1] for l in open(path).read().split('\n') if l.startswith('import ') and len(l.split()) > 1]


def dependents(gen_mod):
    """every library module that (transitively) imports PySpikeVerif.Gen.<gen_mod>, in dependency order;
    the root file PySpikeVerif.lean is not a proof module and is left out"""
    root = os.path.join(LEAN_DIR, 'PySpikeVerif')
    mods = {}
    for d, _, files in os.walk(root):
        for f in files:
            if f.endswith('.lean'):
                m = 'PySpikeVerif.' + os.path.relpath(os.path.join(d, f), root)[:-5].replace(os.sep, '.')
                mods[m] = [i for i in _imports_of(os.path.join(d, f)) if i.startswith('PySpikeVerif.')]
    target = 'PySpikeVerif.Gen.' + gen_mod
    memo = {}
    def dep(m):
        if m == target:
            return True
        if m not in memo:
            memo[m] = False
            memo[m] = any(dep(i) for i in mods.get(m, []))
        return memo[m]
    order, seen = [], set()
    def visit(m):
        if m in seen or m not in mods:
            return
        seen.add(m)
        for q in mods[m]:
            visit(q)
        if m != target and dep(m):
            order.append(m)
    for m in sorted(mods):
        visit(m)
    return order


FULL_RECHECK = [False]     # set per run: the thorough tier re-checks every dependent proof module


def recheck(text, pyx=False):
    """compile the regenerated text and the refinement proofs in a scratch directory"""
    h = hashlib.sha256(text.encode()).hexdigest()[:16]
    scratch = os.path.join(BUILD, 'gen', h)
    gen_mod = GEN_MODULE[pyx]
    todo = dependents(gen_mod)
    stale_files = {os.path.join(*m.split('.')) + '.' for m in todo} | {os.path.join('PySpikeVerif', 'Gen', gen_mod) + '.'}
    src = os.path.join(scratch, 'PySpikeVerif', 'Gen', gen_mod + '.lean')
    # Lean resolves a module through the first search-path entry that contains its root package, so the
    # scratch directory has to offer the whole library: symlinks to the compiled files of the normal
    # build, with Gen/Backend and everything that depends on it replaced by files compiled here
    std_lib = os.path.join(LEAN_DIR, '.lake', 'build', 'lib', 'lean')
    if not os.path.isdir(os.path.join(scratch, 'PySpikeVerif')):
        os.makedirs(scratch, exist_ok=True)
        subprocess.run(['cp', '-rs', os.path.join(std_lib, 'PySpikeVerif'), scratch], check=True)
        for root, _, files in os.walk(os.path.join(scratch, 'PySpikeVerif')):
            for fn in files:
                rel = os.path.relpath(os.path.join(root, fn), scratch)
                stale = any(rel.startswith(p_) for p_ in stale_files)
                if stale:
                    os.remove(os.path.join(root, fn))
    os.makedirs(os.path.dirname(src), exist_ok=True)
    open(src, 'w').write(text)
    lp = ':'.join([scratch] + [e for e in _std_lean_path().split(':') if e and os.path.abspath(e) != os.path.abspath(std_lib)])
    env = dict(os.environ, LEAN_PATH=lp)
    out = {'scratch': os.path.relpath(scratch, VERIF), 'lean_path': lp, 'modules': {}}

    def compile_(path, mod):
        o = os.path.join(scratch, *mod.split('.')) + '.olean'
        os.makedirs(os.path.dirname(o), exist_ok=True)
        if os.path.exists(o):
            return True, 'cached'
        root = scratch if path.startswith(scratch) else LEAN_DIR
        p = subprocess.run(['lean', '--root=' + root, '-o', o, path], cwd=LEAN_DIR, env=env, stdout=subprocess.PIPE, stderr=subprocess.STDOUT)
        txt = p.stdout.decode(errors='replace')
        ok = p.returncode == 0 and 'error' not in txt and "declaration uses 'sorry'" not in txt
        if not ok and os.path.exists(o):
            os.remove(o)
        return ok, txt[-600:]
    ok, msg = compile_(src, 'PySpikeVerif.Gen.' + gen_mod)
    out['backend_compiles'] = ok
    if not ok:
        out['backend_error'] = msg
        return out
    failed = set()
    if not FULL_RECHECK[0] and os.environ.get('VERIF_GEN_RECHECK') != '1':
        out['deferred'] = ('quick tier: the %d proof modules depending on the regenerated file are re-checked in the thorough tier '
                           '(or with VERIF_GEN_RECHECK=1); here only the generated file is compiled and validated against the implementation' % len(todo))
        return out
    for mod in todo:
        path = _mod_path(mod)
        imports = [l.split()[1] for l in open(path).read().split('\n') if l.startswith('import ')]
        if any(i in failed for i in imports):
            out['modules'][mod] = 'skipped (an import no longer checks)'
            failed.add(mod)
            continue
        ok, msg = compile_(path, mod)
        out['modules'][mod] = 'checks' if ok else 'BROKEN: ' + msg[-300:]
        if not ok:
            failed.add(mod)
    return out


def run_gen(lines, lean_path=None, driver='GenMain.lean'):
    if not lines:
        return []
    data = '\n'.join(lines) + '\n'
    if lean_path is None:
        cmd, env = ['lake', 'env', 'lean', '--run', driver], None
    else:
        cmd, env = ['lean', '--run', driver], dict(os.environ, LEAN_PATH=lean_path)
    p = subprocess.run(cmd, cwd=LEAN_DIR, env=env, input=data.encode(), stdout=subprocess.PIPE, stderr=subprocess.PIPE)
    if p.returncode != 0:
        raise RuntimeError('generated-model driver failed: ' + p.stderr.decode()[:400])
    out = p.stdout.decode().split('\n')
    if out and out[-1] == '':
        out = out[:-1]
    if len(out) != len(lines):
        raise RuntimeError('generated-model driver returned %d answers for %d requests' % (len(out), len(lines)))
    return out


def validate(prop, tier, rng, lean_path=None, cap=None):
    """generated functions vs the real routines on the property's kernel cases"""
    from . import suites, adapters
    cap = cap or (2500 if tier == 'quick' else 20000)
    cases = []
    for name in GEN_PROPS.get(prop, []):
        k = 0
        for op, f, tags in suites.SUITES[name](tier, rng):
            if op in GEN_OPS:
                # the API never passes an empty array to the ISI / SPIKE kernels; the generated model
                # reports IndexError (`reject`) there exactly like the code, so such cases are kept
                cases.append((op, f))
                k += 1
                if k >= cap // max(1, len(GEN_PROPS[prop])):
                    break
    lines = [line_of(op, f) for op, f in cases]
    answers = run_gen(lines, lean_path)
    dis = []
    n = 0
    per_op = {}
    for (op, f), line, ans in zip(cases, lines, answers):
        g = parse_out(ans)
        try:
            r = adapters.run_real(op, f)
        except adapters.Missing as ex:
            return {'evaluated': n, 'skipped': 'internal symbol not found: %s' % ex, 'disagreements': dis, 'per_op': per_op}
        except adapters.Mutated as ex:
            dis.append({'request': line, 'generated': ans[:300], 'implementation': 'input-modified', 'difference': str(ex)})
            continue
        n += 1
        per_op[op] = per_op.get(op, 0) + 1
        if op == 'get_tau' and isinstance(g, list):
            pass
        why = compare(g, r, adapters.exact_fields(op, len(g) if not isinstance(g, str) else 0))
        if why is not None:
            dis.append({'request': line, 'generated': ans[:300], 'implementation': str(r)[:300], 'difference': why})
            if len(dis) >= 10:
                break
    return {'evaluated': n, 'skipped': None, 'disagreements': dis, 'per_op': per_op}


def gen_tie(prop, tier, rng):
    """returns the `generated_model` section of the evidence"""
    t0 = time.time()
    FULL_RECHECK[0] = (tier == 'thorough')
    res = {'translator': 'harness/py2lean.py', 'sources': ['pyspike/cython/python_backend.py', 'pyspike/cython/directionality_python_backend.py']}
    text, err = translate()
    if text is None:
        res['status'] = 'untranslatable'
        res['reason'] = err
        res['note'] = 'the current source leaves the translated subset; the generated tie is unavailable, the correspondence tie decides'
        return res
    committed = open(COMMITTED).read() if os.path.exists(COMMITTED) else None
    lean_path = None
    if text == committed:
        res['status'] = 'identical'
        res['note'] = 'regenerated text = committed Gen/Backend.lean (sha256 %s); the refinement theorems of this build are about the current source' % hashlib.sha256(text.encode()).hexdigest()[:16]
    else:
        res['status'] = 'changed'
        rc = recheck(text)
        res['recheck'] = {k: v for k, v in rc.items() if k != 'lean_path'}
        if not rc.get('backend_compiles'):
            res['status'] = 'untranslatable'
            res['reason'] = 'regenerated text does not compile'
            return res
        lean_path = rc['lean_path']
        broken = [m for m, s in rc['modules'].items() if not (s == 'checks' or s == 'absent')]
        res['refinement_broken'] = broken
        res['note'] = rc.get('deferred') or ('the source of the backend changed; refinement proofs re-checked against the regenerated model: %d of %d still check'
                       % (sum(1 for s in rc['modules'].values() if s == 'checks'), len(rc['modules'])))
    if prop in GEN_PROPS:
        try:
            v = validate(prop, tier, rng, lean_path)
            res['translator_validation'] = {'evaluated': v['evaluated'], 'per_op': v['per_op'], 'skipped': v['skipped'],
                                            'disagreements': v['disagreements'][:5]}
            if v['disagreements']:
                res['status_validation'] = 'generated model does NOT reproduce the implementation on %d of the cases (first: %s)' % (
                    len(v['disagreements']), v['disagreements'][0]['request'])
        except Exception as ex:
            res['translator_validation'] = {'error': repr(ex)[:300]}
    res['seconds'] = round(time.time() - t0, 1)
    return res


def validate_pyx(tier, rng, lean_path=None, cap=None):
    """model generated from the .pyx sources vs the transliterated .pyx routines executed in Python"""
    from . import extra, adapters
    cap = cap or (4000 if tier == 'quick' else 30000)
    cases = []
    for op, f, tags in extra.pyx_cases(tier, rng):
        if extra.is_f12(op, f):
            continue        # IEEE NaN·0 of the single-pass routines (finding F12): outside the Rat semantics
        cases.append((op, f))
    if len(cases) > cap:
        step = len(cases) / float(cap)
        cases = [cases[int(k * step)] for k in range(cap)]
    lines = [line_of(op, f) for op, f in cases]
    answers = run_gen(lines, lean_path, driver='GenPyxMain.lean')
    dis, n, per_op = [], 0, {}
    for (op, f), line, ans in zip(cases, lines, answers):
        g = parse_out(ans)
        try:
            r = extra.pyx_runner(op, f)
        except adapters.Missing as ex:
            return {'evaluated': n, 'skipped': 'routine not found: %s' % ex, 'disagreements': dis, 'per_op': per_op}
        n += 1
        per_op[op] = per_op.get(op, 0) + 1
        why = compare(g, r, adapters.exact_fields(extra.MODEL_OP.get(op, op), len(g) if not isinstance(g, str) else 0))
        if why is not None:
            dis.append({'request': line, 'generated': ans[:300], 'implementation': str(r)[:300], 'difference': why})
            if len(dis) >= 10:
                break
    return {'evaluated': n, 'skipped': None, 'disagreements': dis, 'per_op': per_op}


def gen_tie_pyx(tier, rng):
    """the same tie for the Cython sources (C12): pyx → pyx2py → py2lean → Gen/BackendPyx.lean"""
    t0 = time.time()
    res = {'translator': 'harness/pyx2py.py + harness/py2lean.py', 'sources': ['pyspike/cython/cython_%s.pyx' % n for n in ('get_tau', 'profiles', 'distances', 'add', 'directionality')]}
    text, err = translate(pyx=True)
    if text is None:
        res.update(status='untranslatable', reason=err,
                   note='the current .pyx sources leave the translated subset; the generated tie is unavailable')
        return res
    committed = open(COMMITTED_PYX).read() if os.path.exists(COMMITTED_PYX) else None
    lean_path = None
    if text == committed:
        res['status'] = 'identical'
        res['note'] = 'regenerated text = committed Gen/BackendPyx.lean (sha256 %s)' % hashlib.sha256(text.encode()).hexdigest()[:16]
    else:
        res['status'] = 'changed'
        rc = recheck(text, pyx=True)
        res['recheck'] = {k: v for k, v in rc.items() if k != 'lean_path'}
        if not rc.get('backend_compiles'):
            res.update(status='untranslatable', reason='regenerated text does not compile')
            return res
        lean_path = rc['lean_path']
        res['refinement_broken'] = [m for m, s_ in rc['modules'].items() if s_ != 'checks']
        res['note'] = rc.get('deferred') or 'the .pyx sources changed; refinement proofs re-checked against the regenerated model: %d of %d still check' % (
            sum(1 for s_ in rc['modules'].values() if s_ == 'checks'), len(rc['modules']))
    try:
        v = validate_pyx(tier, rng, lean_path)
        res['translator_validation'] = {'evaluated': v['evaluated'], 'per_op': v['per_op'], 'skipped': v['skipped'], 'disagreements': v['disagreements'][:5]}
        if v['disagreements']:
            res['status_validation'] = 'generated model does NOT reproduce the transliterated .pyx routines on %d of the cases (first: %s)' % (
                len(v['disagreements']), v['disagreements'][0]['request'])
    except Exception as ex:
        res['translator_validation'] = {'error': repr(ex)[:300]}
    res['seconds'] = round(time.time() - t0, 1)
    return res


COMMITTED_CLS = os.path.join(LEAN_DIR, 'PySpikeVerif', 'Gen', 'Classes.lean')
CLS_OPS = {'pwc_integral_all', 'pwc_integral', 'pwc_avrg_all', 'pwc_avrg', 'pwc_call', 'pwl_integral_all', 'pwl_integral',
           'pwl_avrg_all', 'pwl_avrg', 'pwl_call', 'disc_integral_all', 'disc_integral'}


def validate_classes(tier, rng, lean_path=None, cap=None):
    """methods generated from the function classes vs the real methods"""
    from . import suites, adapters
    cap = cap or (3000 if tier == 'quick' else 20000)
    cases = [(op, f) for op, f, _ in suites.SUITES['f-func'](tier, rng) if op in CLS_OPS]
    if len(cases) > cap:
        step = len(cases) / float(cap)
        cases = [cases[int(k * step)] for k in range(cap)]
    lines = [line_of(op, f) for op, f in cases]
    answers = run_gen(lines, lean_path, driver='GenClsMain.lean')
    dis, n, per_op = [], 0, {}
    for (op, f), line, ans in zip(cases, lines, answers):
        g = parse_out(ans)
        try:
            r = adapters.run_real(op, f)
        except adapters.Mutated as ex:
            dis.append({'request': line, 'generated': ans[:300], 'implementation': 'input-modified', 'difference': str(ex)})
            continue
        n += 1
        per_op[op] = per_op.get(op, 0) + 1
        why = compare(g, r, adapters.exact_fields(op, len(g) if not isinstance(g, str) else 0))
        if why is not None:
            dis.append({'request': line, 'generated': ans[:300], 'implementation': str(r)[:300], 'difference': why})
            if len(dis) >= 10:
                break
    return {'evaluated': n, 'skipped': None, 'disagreements': dis, 'per_op': per_op}


def gen_tie_classes(tier, rng):
    """the same tie for the methods of the three function classes (C05, C10, C11)"""
    t0 = time.time()
    res = {'translator': 'harness/py2lean.py (class mode: methods specialised by the kind of their argument)',
           'sources': ['pyspike/PieceWiseConstFunc.py', 'pyspike/PieceWiseLinFunc.py', 'pyspike/DiscreteFunc.py'],
           'methods': ['integral(None)', 'integral((a,b))', 'avrg(None)', 'avrg((a,b))', '__call__(t)']}
    text, err = translate(pyx='classes')
    if text is None:
        res.update(status='untranslatable', reason=err, note='the current class sources leave the translated subset; the generated tie is unavailable')
        return res
    committed = open(COMMITTED_CLS).read() if os.path.exists(COMMITTED_CLS) else None
    lean_path = None
    if text == committed:
        res['status'] = 'identical'
        res['note'] = 'regenerated text = committed Gen/Classes.lean (sha256 %s)' % hashlib.sha256(text.encode()).hexdigest()[:16]
    else:
        res['status'] = 'changed'
        rc = recheck(text, pyx='classes')
        res['recheck'] = {k: v for k, v in rc.items() if k != 'lean_path'}
        if not rc.get('backend_compiles'):
            res.update(status='untranslatable', reason='regenerated text does not compile')
            return res
        lean_path = rc['lean_path']
        res['refinement_broken'] = [m for m, s_ in rc['modules'].items() if s_ != 'checks']
        res['note'] = rc.get('deferred') or 'the class sources changed; refinement proofs re-checked against the regenerated model: %d of %d still check' % (
            sum(1 for s_ in rc['modules'].values() if s_ == 'checks'), len(rc['modules']))
    try:
        v = validate_classes(tier, rng, lean_path)
        res['translator_validation'] = {'evaluated': v['evaluated'], 'per_op': v['per_op'], 'skipped': v['skipped'], 'disagreements': v['disagreements'][:5]}
        if v['disagreements']:
            res['status_validation'] = 'generated model does NOT reproduce the implementation on %d of the cases (first: %s)' % (
                len(v['disagreements']), v['disagreements'][0]['request'])
    except Exception as ex:
        res['translator_validation'] = {'error': repr(ex)[:300]}
    res['seconds'] = round(time.time() - t0, 1)
    return res


def _family(key, committed_path, label, sources, validate):
    """generic: translate → compare → (changed: re-check dependents) → validate"""
    t0 = time.time()
    res = {'translator': 'harness/py2lean.py', 'sources': sources, 'generated_file': os.path.relpath(committed_path, VERIF)}
    text, err = translate(pyx=key)
    if text is None:
        res.update(status='untranslatable', reason=err, note='the current source leaves the translated subset; the generated tie (%s) is unavailable' % label)
        return res
    committed = open(committed_path).read() if os.path.exists(committed_path) else None
    lean_path = None
    if text == committed:
        res['status'] = 'identical'
        res['note'] = 'regenerated text = committed file (sha256 %s)' % hashlib.sha256(text.encode()).hexdigest()[:16]
    else:
        res['status'] = 'changed'
        rc = recheck(text, pyx=key)
        res['recheck'] = {k: v for k, v in rc.items() if k != 'lean_path'}
        if not rc.get('backend_compiles'):
            res.update(status='untranslatable', reason='regenerated text does not compile')
            return res
        lean_path = rc['lean_path']
        res['refinement_broken'] = [m for m, s_ in rc['modules'].items() if s_ != 'checks']
        res['note'] = rc.get('deferred') or 'the source changed; proofs depending on the generated file re-checked against the regenerated text: %d of %d still check' % (
            sum(1 for s_ in rc['modules'].values() if s_ == 'checks'), len(rc['modules']))
    if validate is not None:
        try:
            v = validate(lean_path)
            res['translator_validation'] = {'evaluated': v['evaluated'], 'per_op': v['per_op'], 'disagreements': v['disagreements'][:5]}
            if v['disagreements']:
                res['status_validation'] = 'generated model does NOT reproduce the implementation on %d of the cases (first: %s)' % (
                    len(v['disagreements']), v['disagreements'][0]['request'])
        except Exception as ex:
            res['translator_validation'] = {'error': repr(ex)[:300]}
    res['seconds'] = round(time.time() - t0, 1)
    return res


def _validate_ops(cases, lean_path, driver):
    from . import adapters
    lines = [line_of(op, f) for op, f in cases]
    answers = run_gen(lines, lean_path, driver=driver)
    dis, n, per_op = [], 0, {}
    for (op, f), line, ans in zip(cases, lines, answers):
        g = parse_out(ans)
        try:
            r = adapters.run_real(op, f)
        except adapters.Mutated as ex:
            dis.append({'request': line, 'generated': ans[:300], 'implementation': 'input-modified', 'difference': str(ex)})
            continue
        n += 1
        per_op[op] = per_op.get(op, 0) + 1
        why = compare(g, r, adapters.exact_fields(op, len(g) if not isinstance(g, str) else 0))
        if why is not None:
            dis.append({'request': line, 'generated': ans[:300], 'implementation': str(r)[:300], 'difference': why})
            if len(dis) >= 10:
                break
    return {'evaluated': n, 'disagreements': dis, 'per_op': per_op}


def gen_tie_plottable(tier, rng):
    """DiscreteFunc.get_plottable_data (Gen/Classes2.lean), C11"""
    from . import suites
    def val(lean_path):
        cases = [(op, f) for op, f, _ in suites.SUITES['f-func'](tier, rng) if op == 'disc_plot'][:(1500 if tier == 'quick' else 8000)]
        return _validate_ops(cases, lean_path, 'GenClsMain.lean')
    return _family('classes2', os.path.join(LEAN_DIR, 'PySpikeVerif', 'Gen', 'Classes2.lean'), 'get_plottable_data',
                   ['pyspike/DiscreteFunc.py (get_plottable_data)'], val)


def gen_tie_isi_lengths(tier, rng):
    """pyspike/isi_lengths.py: isi_lengths (Gen/IsiLengths.lean), C15"""
    from . import gens
    def val(lean_path):
        cases = [(op, f) for op, f, _ in gens.isi_lengths_grid(5 if tier == 'quick' else 7) if op == 'isi_lengths']
        return _validate_ops(cases, lean_path, 'GenClsMain.lean')
    return _family('isilen', os.path.join(LEAN_DIR, 'PySpikeVerif', 'Gen', 'IsiLengths.lean'), 'isi_lengths',
                   ['pyspike/isi_lengths.py (isi_lengths)'], val)


def gen_tie_api(tier, rng):
    """pyspike/spikes.py: reconcile_spike_trains, reconcile_spike_trains_bi, merge_spike_trains (Gen/Api.lean), C13 / C20"""
    from . import gens
    def val(lean_path):
        n = 150 if tier == 'quick' else 1200
        cases = [(op, f) for op, f, _ in gens.reconcile_cases(rng, n) if op == 'reconcile']
        # the pair form on the first two trains, merge on lists with DIFFERENT edges (the interval is the first train's),
        # and the empty list (both functions raise: `min([])`, `np.concatenate([])`)
        cases += [('reconcile_bi', f[:4]) for op, f in list(cases) if len(f) >= 4][:n // 2]
        cases += [('merge', f) for op, f in list(cases) if op == 'reconcile'][:n // 2]
        cases += [('reconcile', [gens.kw_field(), gens.idx_field(None)]), ('merge', [gens.kw_field(), gens.idx_field(None)])]
        cases += [(op, f) for op, f, _ in gens.misc_cases(rng, n) if op == 'merge']
        return _validate_ops(cases, lean_path, 'GenApiMain.lean')
    r = _family('api', os.path.join(LEAN_DIR, 'PySpikeVerif', 'Gen', 'Api.lean'), 'reconcile / merge',
                ['pyspike/spikes.py (reconcile_spike_trains, reconcile_spike_trains_bi, merge_spike_trains)', 'pyspike/SpikeTrain.py (the constructor is modelled by mkTrain; its __init__ is pinned by a digest of its normalised source)'], val)
    r['translator'] = 'harness/py2lean_api.py'
    return r


def gen_tie_thresh(tier, rng):
    """pyspike/isi_lengths.py: default_thresh / default_thresh_ (Gen/ApiThresh.lean; the square of the threshold), C15"""
    from . import gens
    def val(lean_path):
        n = 200 if tier == 'quick' else 1500
        cases = [(op, f) for op, f, _ in gens.misc_cases(rng, n) if op == 'default_thresh_sq']
        return _validate_ops(cases, lean_path, 'GenApiMain.lean')
    r = _family('apithresh', os.path.join(LEAN_DIR, 'PySpikeVerif', 'Gen', 'ApiThresh.lean'), 'default_thresh',
                ['pyspike/isi_lengths.py (default_thresh, default_thresh_; the generated functions return the radicand of the final np.sqrt)'], val)
    r['translator'] = 'harness/py2lean_api.py'
    return r


def gen_tie_train(tier, rng):
    """pyspike/SpikeTrain.py: get_spikes_non_empty, copy, sort (Gen/ApiTrain.lean), C18 / C19"""
    from . import gens
    from fractions import Fraction as Fr
    def val(lean_path):
        n = 120 if tier == 'quick' else 900
        cases = []
        for _ in range(n):
            k = rng.randint(1, 4)
            tfs = []
            for _ in range(k):
                a = Fr(rng.randint(-8, 8), 2); b = a + Fr(rng.randint(0, 12), 2) * rng.choice([1, 1, 1, -1])     # also t_end <= t_start
                sp = [] if rng.random() < 0.4 else [a + Fr(rng.randint(0, 24), 4) for _ in range(rng.randint(1, 5))]
                tfs.append(gens.train_field(sp, a, b))
            for op in ('train_nonempty', 'train_copy', 'train_sort'):
                cases.append((op, [gens.kw_field(), gens.idx_field(None)] + tfs))
        return _validate_ops(cases, lean_path, 'GenApiMain.lean')
    r = _family('apitrain', os.path.join(LEAN_DIR, 'PySpikeVerif', 'Gen', 'ApiTrain.lean'), 'SpikeTrain methods',
                ['pyspike/SpikeTrain.py (get_spikes_non_empty, copy, sort)'], val)
    r['translator'] = 'harness/py2lean_api.py'
    return r


def gen_tie_interval_lists(tier, rng):
    """avrg / integral with a LIST of intervals (Gen/Classes3.lean), C05 / C10 / C11"""
    from . import suites
    def val(lean_path):
        ops = ('pwc_avrg_list', 'pwl_avrg_list', 'disc_integral_list')
        cases = [(op, f) for op, f, _ in suites.SUITES['f-func'](tier, rng) if op in ops][:(1500 if tier == 'quick' else 8000)]
        return _validate_ops(cases, lean_path, 'GenClsMain.lean')
    return _family('classes3', os.path.join(LEAN_DIR, 'PySpikeVerif', 'Gen', 'Classes3.lean'), 'interval lists',
                   ['pyspike/PieceWiseConstFunc.py (avrg)', 'pyspike/PieceWiseLinFunc.py (avrg)', 'pyspike/DiscreteFunc.py (integral)'], val)
