from harness import run
run.main()
