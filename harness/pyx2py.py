"""harness/pyx2py.py — transliterate the Cython subset used by pyspike/cython/*.pyx into Python.

There is no Cython in this sandbox, so the `.pyx` sources can never be compiled here. To tie them
to their Lean models anyway they are translated (on every run, from /repo's current tree) into
plain Python that keeps the C semantics that matter:

  * typed `double[:]` arguments/locals  → `_mv(...)`: a checked view that raises on a negative or
    out-of-range index (with `boundscheck=False, wraparound=False` those would be undefined
    behaviour in C, not Python's wrap-around),
  * typed `double` / `int` arguments     → `float(...)` / `int(...)` coercion,
  * `/`                                  → `_cdiv` (IEEE: x/0 = ±inf, 0/0 = nan; never raises),
  * `fabs/fmax/fmin`                     → libc semantics (NaN handling of fmax/fmin),
  * `with nogil:` → plain block, `xrange` → `range`, `cdef` declarations dropped,
    `cdef [inline] T f(...) [nogil]:` → `def f(...):`, `cimport` of get_tau → import of the
    transliterated `cython_get_tau`.

Anything outside this subset raises `Untranslatable` (C12 then reports "no longer shown").
"""
import re, ast, os, sys, types, math
import numpy as np


class Untranslatable(Exception):
    pass


PRELUDE = '''
import numpy as np
import math as _math

class _MV(object):
    """checked 1-D double memoryview"""
    __slots__ = ('a',)
    def __init__(self, a):
        if isinstance(a, _MV):
            a = a.a
        a = np.asarray(a)
        if a.dtype != np.float64:
            a = a.astype(np.float64)
        if a.ndim != 1:
            raise TypeError('memoryview: 1-D expected')
        self.a = a
    def __len__(self):
        return len(self.a)
    def _chk(self, i):
        if isinstance(i, (int, np.integer)):
            if i < 0 or i >= len(self.a):
                raise IndexError('C index out of bounds: %d (len %d)' % (i, len(self.a)))
    def __getitem__(self, i):
        if isinstance(i, slice):
            for b in (i.start, i.stop):
                if b is not None and (b < 0 or b > len(self.a)):
                    raise IndexError('C slice out of bounds')
            return _MV(self.a[i])
        self._chk(i)
        return float(self.a[i])
    def __setitem__(self, i, v):
        if isinstance(i, slice):
            self.a[i] = v.a if isinstance(v, _MV) else v
            return
        self._chk(i)
        self.a[i] = v
    def __array__(self, dtype=None, copy=None):
        return self.a if dtype is None else self.a.astype(dtype)
    @property
    def shape(self):
        return self.a.shape

def _mv(x):
    return _MV(x)

def _cdiv(a, b):
    a = float(a); b = float(b)
    if b == 0.0:
        if a != a or a == 0.0:
            return float('nan')
        neg = (a < 0) != (_math.copysign(1.0, b) < 0)
        return float('-inf') if neg else float('inf')
    return a / b

def fabs(x):
    return abs(float(x))

def fmax(a, b):
    a = float(a); b = float(b)
    if a != a: return b
    if b != b: return a
    return a if a > b else b

def fmin(a, b):
    a = float(a); b = float(b)
    if a != a: return b
    if b != b: return a
    return a if a < b else b

_np_empty_like = np.empty_like
def _like(f):
    def g(x, *a, **k):
        return f(np.asarray(x), *a, **k)
    return g
class _NP(object):
    def __getattr__(self, n):
        if n in ('empty_like', 'zeros_like', 'ones_like'):
            return _like(getattr(np, n))
        return getattr(np, n)
np_ = _NP()
'''

TYPE = r'(?:double\s*\[\s*:\s*\]|double|int|long|bint|float)'


def _strip_sig(sig, coerce):
    """remove C types from a parameter list; record (name, kind)"""
    out = []
    depth = 0
    cur = ''
    parts = []
    for ch in sig:
        if ch in '([':
            depth += 1
        if ch in ')]':
            depth -= 1
        if ch == ',' and depth == 0:
            parts.append(cur); cur = ''
        else:
            cur += ch
    if cur.strip():
        parts.append(cur)
    for p in parts:
        p = p.strip()
        m = re.match(r'^(' + TYPE + r')\s+(\w+)(\s*=.*)?$', p, re.S)
        if m:
            t, name, dflt = m.group(1), m.group(2), m.group(3) or ''
            kind = 'mv' if '[' in t else ('int' if t in ('int', 'long', 'bint') else 'float')
            coerce.append((name, kind))
            out.append(name + dflt)
        else:
            if re.match(r'^\w+(\s*=.*)?$', p, re.S):
                out.append(p)
            else:
                raise Untranslatable('parameter not understood: %r' % p)
    return ', '.join(out)


def translate(src, modname_map=None):
    modname_map = modname_map or {}
    lines = src.replace('\r\n', '\n').split('\n')
    out = []
    i = 0
    mv_names = set()
    pending_coerce = None   # list to emit at the first body line of the current def
    pending_ret = None
    while i < len(lines):
        ln = lines[i]
        s = ln.strip()
        ind = ln[:len(ln) - len(ln.lstrip())]
        # imports
        if re.match(r'^cimport\s', s) or re.match(r'^from\s+libc\.math\s+cimport', s):
            i += 1; continue
        m = re.match(r'^from\s+([\w\.]+)\s+cimport\s+(.+)$', s)
        if m:
            mod = m.group(1).split('.')[-1]
            out.append(ind + 'from %s import %s' % (modname_map.get(mod, mod), m.group(2)))
            i += 1; continue
        if s.startswith('ctypedef'):
            i += 1; continue
        # function definitions (def / cdef … name(...) [nogil]:), possibly over several lines
        m = re.match(r'^(?:def|cdef\s+(?:inline\s+)?' + TYPE + r')\s+(\w+)\s*\(', s)
        if m and (s.startswith('def ') or s.startswith('cdef ')):
            name = m.group(1)
            nocomment = lambda t: t.split('#')[0].rstrip()
            text = nocomment(s)
            while not re.search(r'\)\s*(?:nogil\s*)?:\s*(#.*)?$', text):
                i += 1
                if i >= len(lines):
                    raise Untranslatable('unterminated signature of ' + name)
                text += ' ' + nocomment(lines[i].strip())
            sig = text[text.index('(') + 1: text.rindex(')')]
            coerce = []
            out.append(ind + 'def %s(%s):' % (name, _strip_sig(sig, coerce)))
            mret = re.match(r'^cdef\s+(?:inline\s+)?(' + TYPE + r')\s+\w+\s*\(', s)
            if mret:
                # the C return type, as a marker statement for the Lean translator (a string statement is a no-op)
                coerce = list(coerce)
                pending_ret = mret.group(1)
            else:
                pending_ret = None
            pending_coerce = coerce
            mv_names = set(n for n, k in coerce if k == 'mv')
            i += 1; continue
        if pending_coerce is not None and s and not s.startswith('#'):
            # first statement of the body (skip a docstring first)
            if s.startswith('"""') or s.startswith("'''"):
                q = s[:3]
                out.append(ln)
                if not (len(s) > 3 and s.endswith(q)):
                    i += 1
                    while i < len(lines) and q not in lines[i]:
                        out.append(lines[i]); i += 1
                    out.append(lines[i])
                i += 1
                continue
            for n, k in pending_coerce:
                out.append(ind + '%s = %s(%s)' % (n, {'mv': '_mv', 'int': 'int', 'float': 'float'}[k], n))
            if pending_ret:
                out.append(ind + repr('__cdef_ret__ ' + pending_ret))
            pending_coerce = None
        # cdef declarations
        m = re.match(r'^cdef\s+(' + TYPE + r')\s+(.+)$', s)
        if m:
            t, rest = m.group(1), m.group(2)
            rest_nc = rest.split('#')[0].strip()
            if '=' in rest_nc:
                name, expr = rest_nc.split('=', 1)
                name = name.strip()
                if not re.match(r'^\w+$', name):
                    raise Untranslatable('cdef with several initialised names: ' + s)
                out.append(ind + repr('__cdef__ %s : %s' % (t.replace(' ', ''), name)))
                if '[' in t:
                    mv_names.add(name)
                    out.append(ind + '%s = _mv(%s)' % (name, expr.strip()))
                else:
                    out.append(ind + '%s = %s' % (name, expr.strip()))
            else:
                names = [n.strip() for n in rest_nc.split(',')]
                if not all(re.match(r'^\w+$', n) for n in names):
                    raise Untranslatable('cdef declaration not understood: ' + s)
                if '[' in t:
                    mv_names.update(names)
                # the declared C types, as a marker statement for the Lean translator (harness/py2lean.py
                # compares them with the types it infers; a string statement is a no-op in Python)
                out.append(ind + repr('__cdef__ %s : %s' % (t.replace(' ', ''), ' '.join(names))))
            i += 1; continue
        if s.startswith('cdef'):
            raise Untranslatable('unsupported cdef: ' + s)
        if re.match(r'^with\s+nogil\s*:', s):
            out.append(ind + 'if True:' + (' ' + s[s.index('#'):] if '#' in s else ''))
            i += 1; continue
        # assignment to a declared memoryview name
        m = re.match(r'^(\w+)\s*=\s*(?!=)(.+)$', s)
        if m and m.group(1) in mv_names and not s.startswith('#'):
            expr = m.group(2)
            cm = ''
            out.append(ind + '%s = _mv(%s)' % (m.group(1), expr))
            i += 1; continue
        ln2 = re.sub(r'\bxrange\b', 'range', ln)
        ln2 = re.sub(r'\bnp\.(empty_like|zeros_like|ones_like)\b', r'np_.\1', ln2)
        out.append(ln2)
        i += 1
    text = '\n'.join(out)
    if re.search(r'^\s*cdef\b|\bcimport\b', text, re.M):
        raise Untranslatable('left-over Cython construct')
    try:
        tree = ast.parse(text)
    except SyntaxError as ex:
        raise Untranslatable('result does not parse: %s' % ex)

    class Div(ast.NodeTransformer):
        def visit_BinOp(self, node):
            self.generic_visit(node)
            if isinstance(node.op, ast.Div):
                return ast.copy_location(ast.Call(func=ast.Name(id='_cdiv', ctx=ast.Load()), args=[node.left, node.right], keywords=[]), node)
            if isinstance(node.op, (ast.FloorDiv, ast.Mod, ast.Pow, ast.LShift, ast.RShift, ast.BitAnd, ast.BitOr, ast.BitXor)):
                raise Untranslatable('operator outside the supported subset')
            return node

        def visit_AugAssign(self, node):
            self.generic_visit(node)
            if isinstance(node.op, ast.Div):
                load = ast.parse(ast.unparse(node.target), mode='eval').body
                return ast.copy_location(ast.Assign(targets=[node.target], value=ast.Call(
                    func=ast.Name(id='_cdiv', ctx=ast.Load()), args=[load, node.value], keywords=[])), node)
            return node
    tree = Div().visit(tree)
    ast.fix_missing_locations(tree)
    return PRELUDE + '\n' + ast.unparse(tree) + '\n'


PYX_FILES = ['cython_get_tau', 'cython_profiles', 'cython_distances', 'cython_add', 'cython_directionality']


def load_pyx_modules(repo, prefix='pyx_'):
    """translate and import the five kernel .pyx files; returns {name: module}"""
    mods = {}
    mapping = {n: prefix + n for n in PYX_FILES}
    for n in PYX_FILES:
        path = os.path.join(repo, 'pyspike', 'cython', n + '.pyx')
        with open(path) as f:
            src = f.read()
        code = translate(src, mapping)
        m = types.ModuleType(prefix + n)
        m.__dict__['__file__'] = path + ' (transliterated)'
        sys.modules[prefix + n] = m
        exec(compile(code, path + '.py', 'exec'), m.__dict__)
        mods[n] = m
    return mods


if __name__ == '__main__':
    repo = sys.argv[1] if len(sys.argv) > 1 else '/repo'
    for n in PYX_FILES:
        src = open(os.path.join(repo, 'pyspike', 'cython', n + '.pyx')).read()
        code = translate(src, {k: 'pyx_' + k for k in PYX_FILES})
        if len(sys.argv) > 2 and sys.argv[2] == n:
            print(code)
    ms = load_pyx_modules(repo)
    for n, m in ms.items():
        print(n, [k for k, v in m.__dict__.items() if callable(v) and not k.startswith('_') and getattr(v, '__module__', None) is None][:20])
