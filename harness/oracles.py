"""harness/oracles.py — the property statements re-stated as plain predicates on the
implementation's outputs. They share no code with the Lean model or with PySpike. They are used to
search for a concrete failing input (DESIGN.md §6); they never decide a property.

Each oracle takes a *scenario* dict  {'trains': [(spikes, ts, te)…], 'kw': {...}, …}  with
Fractions and returns None (holds) or a string describing the failed clause.
"""
import math, itertools, io, contextlib, os, tempfile
import numpy as np
from fractions import Fraction as Fr
from . import adapters
from .adapters import spk, SpikeTrain, PieceWiseConstFunc, PieceWiseLinFunc, DiscreteFunc

TOL = 1e-9


def quiet(fn, *a, **k):
    with contextlib.redirect_stdout(io.StringIO()), np.errstate(all='ignore'):
        return fn(*a, **k)


_CUR = None     # the scenario the running oracle was called with (see `_wrap` at the end of the file)


def mk(tr):
    s, ts, te = tr
    own = _CUR.get('own0') if isinstance(_CUR, dict) else None
    if own is not None and tr is _CUR['trains'][0] and all(own[0] <= x <= own[1] for x in s):
        # unequal-edges variant: the first train is passed with its own, narrower edges
        ts, te = own
    own01 = _CUR.get('own01') if isinstance(_CUR, dict) else None
    if own01 is not None:
        for k_ in (0, 1):
            if tr is _CUR['trains'][k_] and all(own01[k_][0] <= x <= own01[k_][1] for x in s):
                ts, te = own01[k_]
    dup = _CUR.get('dup') if isinstance(_CUR, dict) else None
    if dup is not None and dup[0] < len(_CUR['trains']) and tr is _CUR['trains'][int(dup[0])] and int(dup[1]) < len(s):
        # repeated-spike variant: one spike time of this train is listed twice (sorted, same edges); every
        # public function reconciles by default, so nothing may change (C13)
        j = int(dup[1])
        s = list(s[:j + 1]) + list(s[j:])
    if _forms(_CUR).get('edges') == 'npscalar' and float(ts) == 0.0:
        # the documented single-number form of `edges`, as a numpy scalar (e.g. `spikes.max() + 1`)
        return SpikeTrain(np.array([float(v) for v in s], dtype=float), np.float64(float(te)))
    if _forms(_CUR).get('edges') == 'nparray':
        return SpikeTrain(np.array([float(v) for v in s], dtype=float), np.array([float(ts), float(te)]))
    return SpikeTrain(np.array([float(v) for v in s], dtype=float), [float(ts), float(te)])


def mkl(sc):
    return [mk(t) for t in sc['trains']]


def _np_form(v, form):
    """the same number as a numpy scalar of another type, when it is exactly representable there"""
    v = float(v)
    if form == 'f32' and float(np.float32(v)) == v:
        return np.float32(v)
    if form == 'i64' and v == int(v):
        return np.int64(int(v))
    if form == 'f64':
        return np.float64(v)
    if form == 'f16' and float(np.float16(v)) == v:
        return np.float16(v)
    return v


def _forms(sc):
    f = sc.get('forms') if isinstance(sc, dict) else None
    return f if isinstance(f, dict) else {}


def kwargs_of(sc, measure=None):
    kw = {}
    k = sc.get('kw', {})
    if k.get('mrts') == 'auto' or k.get('mrts') == -1:
        kw['MRTS'] = 'auto'
    elif k.get('mrts'):
        kw['MRTS'] = _np_form(k['mrts'], _forms(sc).get('mrts'))
    if k.get('ri') and measure in (None, 'spike'):
        kw['RI'] = True
    return kw


def mt_of(sc):
    m = sc.get('kw', {}).get('max_tau')
    return {} if not m else {'max_tau': _np_form(m, _forms(sc).get('mt'))}


def iv_of(sc):
    iv = sc.get('interval')
    if iv is None:
        return {}
    a, b = float(iv[0]), float(iv[1])
    form = _forms(sc).get('iv')
    return {'interval': [a, b] if form == 'list' else np.array([a, b]) if form == 'array' else (np.float64(a), np.float64(b)) if form == 'np' else (a, b)}


def feq(a, b, tol=TOL):
    a, b = float(a), float(b)
    if math.isnan(a) or math.isnan(b):
        return False
    return abs(a - b) <= tol * max(1.0, abs(a), abs(b))


def aeq(a, b, tol=TOL):
    a, b = np.asarray(a, dtype=float), np.asarray(b, dtype=float)
    return a.shape == b.shape and bool(np.all(np.isfinite(a))) and bool(np.all(np.isfinite(b))) and \
        bool(np.all(np.abs(a - b) <= tol * np.maximum(1.0, np.maximum(np.abs(a), np.abs(b)))))


def prof_eq(p, q):
    if isinstance(p, PieceWiseConstFunc):
        return aeq(p.x, q.x, 0) and aeq(p.y, q.y)
    if isinstance(p, PieceWiseLinFunc):
        return aeq(p.x, q.x, 0) and aeq(p.y1, q.y1) and aeq(p.y2, q.y2)
    return aeq(p.x, q.x, 0) and aeq(p.y, q.y) and aeq(p.mp, q.mp)


# ------------------------------------------------------------------ definitions over Fractions

def nu_at(s, ts, te, t):
    """length of the ISI of train s (sorted Fractions, possibly empty) containing time t"""
    if not s:
        return te - ts
    prev = [x for x in s if x <= t]
    nxt = [x for x in s if x > t]
    if prev and nxt:
        return nxt[0] - prev[-1]
    if not prev:
        f = s[0]
        return max(f - ts, s[1] - f) if len(s) > 1 else f - ts
    p = s[-1]
    return max(te - p, p - s[-2]) if len(s) > 1 else te - p


def isi_def(s1, s2, ts, te, m):
    xs = sorted({ts, te} | {x for x in list(s1) + list(s2) if ts < x < te})
    ys = []
    for a, b in zip(xs, xs[1:]):
        t = (a + b) / 2
        n1, n2 = nu_at(s1, ts, te, t), nu_at(s2, ts, te, t)
        ys.append(abs(n1 - n2) / max(n1, n2, m))
    return xs, ys


def ext_train(s, ts, te):
    """train with the two auxiliary spikes of the SPIKE-distance definition"""
    if not s:
        s = [ts, te]
    if len(s) > 1:
        a0 = min(ts, s[0] - (s[1] - s[0]))
        a1 = max(te, s[-1] + (s[-1] - s[-2]))
    else:
        a0, a1 = ts, te
    return [a0] + list(s) + [a1]


def spike_def_at(s1, s2, ts, te, m, ri, t, side):
    """instantaneous SPIKE dissimilarity at t (side=+1: right limit, -1: left limit)"""
    e = [ext_train(s1, ts, te), ext_train(s2, ts, te)]
    r = [list(s1) if s1 else [ts, te], list(s2) if s2 else [ts, te]]
    S, ISI = [], []
    for n in (0, 1):
        en, other = e[n], e[1 - n]
        dt = lambda x: min(abs(x - y) for y in other)
        if side > 0:
            p = max(x for x in en if x <= t) if any(x <= t for x in en) else en[0]
            f = min(x for x in en if x > t)
        else:
            p = max(x for x in en if x < t)
            f = min(x for x in en if x >= t) if any(x >= t for x in en) else en[-1]
        isi = nu_at(r[n], ts, te, t if side > 0 else t - Fr(1, 10 ** 9)) if False else None
        first, last = r[n][0], r[n][-1]
        if (t < first) or (t == first and side < 0):
            # before the first real spike: constant dt of the first spike
            sval = dt(first)
            isi = max(first - ts, r[n][1] - first) if len(r[n]) > 1 else first - ts
        elif (t > last) or (t == last and side > 0):
            sval = dt(last)
            isi = max(te - last, last - r[n][-2]) if len(r[n]) > 1 else te - last
        else:
            isi = f - p
            sval = (dt(p) * (f - t) + dt(f) * (t - p)) / isi
        S.append(sval)
        ISI.append(isi)
    mean = (ISI[0] + ISI[1]) / 2
    lim = max(m, mean)
    if ri:
        return (S[0] + S[1]) / 2 / lim
    return (S[0] * ISI[1] + S[1] * ISI[0]) / 2 / (mean * lim)


def tau_def(s1, s2, i, j, ts, te, max_tau, m):
    """coincidence window for spike i of s1 and spike j of s2"""
    T = te - ts
    miss = min(T, 2 * max_tau) if max_tau > 0 else T
    def nb(s, k):
        past = s[k] - s[k - 1] if k > 0 else miss
        fut = s[k + 1] - s[k] if k < len(s) - 1 else miss
        return past / 2, fut / 2
    p1, f1 = nb(s1, i)
    p2, f2 = nb(s2, j)
    q = m / 4
    ip = lambda a, b, t: min(b, max(min(a, b), t))
    if s1[i] <= s2[j]:
        tau = min(ip(p1, f1, q), ip(f2, p2, q))
    else:
        tau = min(ip(f1, p1, q), ip(p2, f2, q))
    return min(tau, miss / 2)


def coinc_matrix(s1, s2, ts, te, max_tau, m):
    return [[abs(a - b) < tau_def(s1, s2, i, j, ts, te, max_tau, m) for j, b in enumerate(s2)]
            for i, a in enumerate(s1)]


# ------------------------------------------------------------------ per-property oracles

def _arrs(p):
    return [np.array(getattr(p, a), dtype=float).copy() for a in ('x', 'y', 'y1', 'y2', 'mp') if hasattr(p, a)]


_RECALL_N = [0]


def recall_check(prop, sc, fname, **kw):
    """the profile returned by one call is the caller's own object: scaling / adding to it in place must
    not influence what a later identical call returns (a result cache that hands out its own entry
    would). Pair form and list form. The trains are shifted by an amount unique to this call
    (k·2^-12, exact), so that the first call is the first one ever made with these arguments."""
    fn = getattr(spk, fname)
    for form in ('pair', 'list'):
        _RECALL_N[0] += 1
        off = Fr(_RECALL_N[0] % 4000 + 1, 4096)
        shifted = [([x + off for x in s_], a_ + off, b_ + off) for s_, a_, b_ in sc['trains']]
        mkargs = (lambda: [mk(shifted[0]), mk(shifted[1])]) if form == 'pair' else (lambda: [[mk(t) for t in shifted]])
        p1 = quiet(fn, *mkargs(), **kw)
        ref = _arrs(p1)
        quiet(p1.mul_scalar, 3.0)
        p2 = quiet(fn, *mkargs(), **kw)
        got = _arrs(p2)
        if len(ref) != len(got) or any(a.shape != b.shape or not np.array_equal(a, b, equal_nan=True) for a, b in zip(ref, got)):
            return '%s %s (%s form): a second identical call returns a different profile after the first result was scaled in place' % (prop, fname, form)
        quiet(p2.add, p1)
        p3 = quiet(fn, *mkargs(), **kw)
        got = _arrs(p3)
        if len(ref) != len(got) or any(a.shape != b.shape or not np.array_equal(a, b, equal_nan=True) for a, b in zip(ref, got)):
            return '%s %s (%s form): a third identical call returns a different profile after an earlier result was added to in place' % (prop, fname, form)
    return None


def _decimal_trains(sc):
    """trains on a DECIMAL grid with t_start != 0, derived deterministically from the scenario (same number of trains,
    similar lengths): spike k ↦ the double nearest to (s10 + k)/10 with distinct k strictly inside the edges (multiples of
    0.1, almost none exactly representable; many exact ties |dt| = window in the reals). Used only for clauses that
    compare two outputs of the implementation with each other, bit for bit — exact real arithmetic cannot be the
    reference there."""
    import random as _r
    rr = _r.Random(repr(sc['trains']))
    K = 8 + 2 * max([len(s_) for s_, _, _ in sc['trains']] + [1])
    s10 = rr.choice([-3, -20, 1, 7, -73, 1007])          # t_start in tenths; every time is the double NEAREST to a decimal
    g = lambda k: float(Fr(s10 + k, 10))
    out = []
    for s_, _, _ in sc['trains']:
        ks = sorted(rr.sample(range(1, K), min(len(s_), K - 1)))
        out.append(SpikeTrain(np.array([g(k) for k in ks], dtype=float), [g(0), g(K)]))
    return out


def decimal_axis_check(prop, sc):
    """the SPIKE profile lives on the breakpoints of the ISI profile: the two time axes are the same numbers, and they
    are the spike times / edges themselves (not recomputed from them)"""
    if 'own0' in sc or 'dup' in sc or 'forms' in sc or len(sc['trains']) < 2:
        return None
    D = _decimal_trains(sc)
    pi = quiet(spk.isi_profile, D[0], D[1])
    ps = quiet(spk.spike_profile, D[0], D[1], **kwargs_of(sc, 'spike'))
    if list(pi.x) != list(ps.x):
        return '%s on decimal times (t_start != 0): the SPIKE profile\'s time axis %s is not the ISI profile\'s %s' % (prop, list(ps.x), list(pi.x))
    inner = set(D[0].spikes) | set(D[1].spikes) | {D[0].t_start, D[0].t_end}
    if any(x not in inner for x in ps.x):
        return '%s on decimal times: a breakpoint of the SPIKE profile is not one of the spike times / edges' % prop
    return None


def o_C01(sc):
    (s1, ts, te), (s2, _, _) = sc['trains'][:2]
    m = Fr(sc['kw'].get('mrts') or 0)
    p = quiet(spk.isi_profile, mk(sc['trains'][0]), mk(sc['trains'][1]), **kwargs_of(sc))
    xs, ys = isi_def(s1, s2, ts, te, m)
    if not aeq(p.x, [float(v) for v in xs], 0):
        return 'C01 breakpoints: impl %s expected %s' % (list(p.x), [float(v) for v in xs])
    if not aeq(p.y, [float(v) for v in ys]):
        return 'C01 values: impl %s expected %s' % (list(p.y), [float(v) for v in ys])
    # the scalar form follows the same definition: time average of the profile of the definition
    e = sum((xs[k + 1] - xs[k]) * ys[k] for k in range(len(ys))) / (te - ts)
    d = quiet(spk.isi_distance, mk(sc['trains'][0]), mk(sc['trains'][1]), **kwargs_of(sc))
    if not feq(d, e):
        return 'C01 isi_distance %r, time average of the definition %s' % (d, float(e))
    return recall_check('C01', sc, 'isi_profile', **kwargs_of(sc))


def is_f9(tr):
    s, ts, te = tr
    return len(s) == 1 and (s[0] == ts)


def o_C02(sc):
    (s1, ts, te), (s2, _, _) = sc['trains'][:2]
    m = Fr(sc['kw'].get('mrts') or 0)
    ri = bool(sc['kw'].get('ri'))
    p = quiet(spk.spike_profile, mk(sc['trains'][0]), mk(sc['trains'][1]), **kwargs_of(sc, 'spike'))
    xs, _ = isi_def(s1, s2, ts, te, 0)
    if not aeq(p.x, [float(v) for v in xs], 0):
        return 'C02 breakpoints: impl %s expected %s' % (list(p.x), [float(v) for v in xs])
    for k in range(len(xs) - 1):
        a, b = xs[k], xs[k + 1]
        ea = spike_def_at(s1, s2, ts, te, m, ri, a, +1)
        eb = spike_def_at(s1, s2, ts, te, m, ri, b, -1)
        if not feq(p.y1[k], ea) or not feq(p.y2[k], eb):
            return 'C02 piece [%s,%s]: impl (%r,%r) expected (%s,%s)' % (a, b, p.y1[k], p.y2[k], float(ea), float(eb))
        mid = (a + b) / 2
        em = spike_def_at(s1, s2, ts, te, m, ri, mid, +1)
        if not feq(quiet(p, float(mid)), em):
            return 'C02 at t=%s: impl %r expected %s' % (mid, quiet(p, float(mid)), float(em))
    r_ = decimal_axis_check('C02', sc)
    if r_:
        return r_
    return recall_check('C02', sc, 'spike_profile', **kwargs_of(sc, 'spike'))


def o_C03(sc):
    (s1, ts, te), (s2, _, _) = sc['trains'][:2]
    if sc['kw'].get('mrts') == 'auto':
        # 'auto' stands for the pooled threshold of the two reconciled trains
        from pyspike.isi_lengths import default_thresh
        m = Fr(float(quiet(default_thresh, quiet(spk.spikes.reconcile_spike_trains, [mk(sc['trains'][0]), mk(sc['trains'][1])]))))
    else:
        m = Fr(sc['kw'].get('mrts') or 0)
    mt = Fr(sc['kw'].get('max_tau') or 0)
    p = quiet(spk.spike_sync_profile, mk(sc['trains'][0]), mk(sc['trains'][1]), **mt_of(sc), **kwargs_of(sc))
    C = coinc_matrix(s1, s2, ts, te, mt, m)
    c1 = [any(r) for r in C]
    c2 = [any(C[i][j] for i in range(len(s1))) for j in range(len(s2))]
    # one-to-one
    if any(sum(r) > 1 for r in C) or any(sum(C[i][j] for i in range(len(s1))) > 1 for j in range(len(s2))):
        return 'C03 coincidence not one-to-one by definition (oracle precondition)'
    times = sorted(set(s1) | set(s2))
    exp = []
    for t in times:
        if t in s1 and t in s2:
            exp.append((t, 2, 2))
        elif t in s1:
            exp.append((t, 1 if c1[s1.index(t)] else 0, 1))
        else:
            exp.append((t, 1 if c2[s2.index(t)] else 0, 1))
    if exp:
        exp = [(ts, exp[0][1], exp[0][2])] + exp + [(te, exp[-1][1], exp[-1][2])]
    else:
        exp = [(ts, 1, 1), (te, 1, 1)]
    got = list(zip(p.x, p.y, p.mp))
    if len(got) != len(exp) or any(float(a[0]) != g[0] or float(a[1]) != g[1] or float(a[2]) != g[2] for a, g in zip(exp, got)):
        return 'C03 profile: impl %s expected %s' % (got, [(float(a), b, c) for a, b, c in exp])
    if sum(c1) != sum(c2):
        return 'C03 unequal coincidence counts'
    # the scalar over the whole recording: coincident spikes / all spikes (spikes on the edges included), 1 without spikes
    v = quiet(spk.spike_sync, mk(sc['trains'][0]), mk(sc['trains'][1]), **mt_of(sc), **kwargs_of(sc))
    ev = Fr(sum(c1) + sum(c2), len(s1) + len(s2)) if (len(s1) + len(s2)) else Fr(1)
    if not feq(v, ev):
        return 'C03 spike_sync = %r, but %d of the %d spikes are coincident' % (v, sum(c1) + sum(c2), len(s1) + len(s2))
    f = quiet(spk.filter_by_spike_sync, [mk(sc['trains'][0]), mk(sc['trains'][1])], 0.5, **mt_of(sc), **kwargs_of(sc))
    kept = [float(a) for a, c in zip(s1, c1) if c]
    if list(f[0].spikes) != kept:
        return 'C03 per-spike indicator (filter) %s expected %s' % (list(f[0].spikes), kept)
    r_ = decimal_filter_check('C03', sc)
    if r_:
        return r_
    return recall_check('C03', sc, 'spike_sync_profile', **mt_of(sc), **kwargs_of(sc))


def matrix_vs_reconciled(prop, sc, which):
    """variant `own01`: the first TWO trains are handed over on narrower edges of their own. A matrix function
    reconciles the whole list first, so every entry is the pair value on the COMMON interval of all trains
    (a helper that lets each pair reconcile on its own sees a shorter recording for the pair (0,1))."""
    L = mkl(sc)
    R = quiet(spk.spikes.reconcile_spike_trains, L)
    kw = dict(kwargs_of(sc)); mt = mt_of(sc)
    if kw.get('MRTS') == 'auto':
        from pyspike.isi_lengths import default_thresh
        kw['MRTS'] = float(quiet(default_thresh, R))
    tab = {'dir': (spk.spike_directionality_matrix, lambda u, v, k: quiet(spk.spike_directionality, u, v, **k), dict(mt, normalize=False)),
           'isi': (spk.isi_distance_matrix, lambda u, v, k: quiet(spk.isi_distance, u, v, **k), {}),
           'spike': (spk.spike_distance_matrix, lambda u, v, k: quiet(spk.spike_distance, u, v, **k), ({'RI': True} if sc['kw'].get('ri') else {})),
           'sync': (spk.spike_sync_matrix, lambda u, v, k: quiet(spk.spike_sync, u, v, **k), dict(mt))}
    kw_ = {k: v for k, v in kw.items() if k != 'RI'}
    for name in which:
        f, pair, extra = tab[name]
        k = dict(kw_); k.update(extra)
        M = quiet(f, L, **k)
        for i in range(len(L)):
            for j in range(len(L)):
                if i != j:
                    e = pair(R[i], R[j], k)
                    if not feq(M[i, j], e):
                        return '%s %s matrix entry (%d,%d) = %r, the pair value on the common interval of all trains is %r' % (prop, name, i, j, M[i, j], e)
    return None


def o_C04(sc):
    if sc.get('own01'):
        return matrix_vs_reconciled('C04', sc, ['dir'])
    L = mkl(sc)
    kw = dict(kwargs_of(sc)); mt = mt_of(sc)
    (s1, ts, te), (s2, _, _) = sc['trains'][:2]
    auto = sc['kw'].get('mrts') == 'auto'
    if auto:
        # the pair threshold of the definition part is the pooled rms of the two trains
        from pyspike.isi_lengths import default_thresh
        m = Fr(float(quiet(default_thresh, quiet(spk.spikes.reconcile_spike_trains, [L[0], L[1]]))))
    else:
        m = Fr(sc['kw'].get('mrts') or 0)
    mtq = Fr(sc['kw'].get('max_tau') or 0)
    C = coinc_matrix(s1, s2, ts, te, mtq, m)
    d1 = [0] * len(s1); d2 = [0] * len(s2)
    for i, a in enumerate(s1):
        for j, b in enumerate(s2):
            if C[i][j]:
                sg = 1 if a < b else (-1 if a > b else 0)
                d1[i] += sg; d2[j] -= sg
    v = quiet(spk.spike_directionality_values, [L[0], L[1]], **mt, **kw)
    if list(v[0]) != [float(x) for x in d1] or list(v[1]) != [float(x) for x in d2]:
        return 'C04 directionality values %s expected %s' % ([list(v[0]), list(v[1])], [d1, d2])
    p = quiet(spk.spike_train_order_profile, L[0], L[1], **mt, **kw)
    q = quiet(spk.spike_train_order_profile, L[1], L[0], **mt, **kw)
    if not (aeq(p.x, q.x, 0) and aeq(p.y[1:-1], -np.asarray(q.y[1:-1])) and aeq(p.mp, q.mp, 0)):
        return 'C04 swapping the trains does not negate the order profile'
    # order profile values from the definition
    for t, y, mp in list(zip(p.x, p.y, p.mp))[1:-1]:
        tq = Fr(t)
        e = 0
        if tq in s1 and tq in s2:
            e = 0
        elif tq in s1:
            e = d1[s1.index(tq)]
        else:
            e = -d2[s2.index(tq)]
        if float(e) != y:
            return 'C04 order profile at %s: impl %s expected %s' % (t, y, e)
    a = quiet(spk.spike_directionality, L[0], L[1], normalize=False, **mt, **kw)
    b = quiet(spk.spike_directionality, L[1], L[0], normalize=False, **mt, **kw)
    if not feq(a, -b) or not feq(a, sum(d1)):
        return 'C04 un-normalised directionality %r / swapped %r, expected %s' % (a, b, sum(d1))
    if len(L) > 2:
        # pair calls that are compared with a multivariate 'auto' call get the pooled threshold
        # of the whole (reconciled) list explicitly — that is what 'auto' stands for there
        kwp = dict(kw)
        if auto:
            from pyspike.isi_lengths import default_thresh
            kwp['MRTS'] = float(quiet(default_thresh, quiet(spk.spikes.reconcile_spike_trains, L)))
        idx = sc.get('indices')
        ikw = {} if idx is None else {'indices': idx}
        n = len(L) if idx is None else len(idx)
        D = quiet(spk.spike_directionality_matrix, L, normalize=False, **ikw, **mt, **kw)
        if not aeq(D, -D.T) or not aeq(np.diag(D), np.zeros(n)):
            return 'C04 directionality matrix not antisymmetric / diagonal not zero'
        sel = L if idx is None else [L[i] for i in idx]
        nsp = sum(len(t.spikes) for t in sel)
        if nsp > 0:
            F = quiet(spk.spike_train_order, L, **ikw, **mt, **kw)
            e = 2 * np.sum(np.triu(D, 1)) / ((n - 1) * nsp)
            if not feq(F, e):
                return 'C04 synfire indicator %r expected %r' % (F, e)
        PM = quiet(spk.spike_train_order_profile, L, **ikw, **mt, **kw)
        acc = {}
        for a_ in range(n):
            for b_ in range(a_ + 1, n):
                pb = quiet(spk.spike_train_order_profile, sel[a_], sel[b_], **mt, **kwp)
                for x, y, mp in list(zip(pb.x, pb.y, pb.mp))[1:-1]:
                    e = acc.setdefault(float(x), [0.0, 0.0]); e[0] += y; e[1] += mp
        gotm = {float(x): [y, mp] for x, y, mp in list(zip(PM.x, PM.y, PM.mp))[1:-1]}
        if set(acc) != set(gotm) or any(acc[k_][0] != gotm[k_][0] or acc[k_][1] != gotm[k_][1] for k_ in acc):
            return 'C04 multivariate order profile (indices=%s) is not the sum of the pair profiles taken in selection order' % (idx,)
        V = quiet(spk.spike_directionality_values, L, **ikw, **mt, **kw)
        for k in range(n):
            tot = np.zeros(len(sel[k].spikes))
            for l in range(n):
                if l != k:
                    tot = tot + quiet(spk.spike_directionality_values, [sel[k], sel[l]], **mt, **kwp)[0]
            if not aeq(V[k], tot / (n - 1)):
                return 'C04 directionality values are not the average over the other N-1 trains'
    return recall_check('C04', sc, 'spike_train_order_profile', **mt, **kw)


MEASURES = ['isi', 'spike', 'sync', 'order']


def dist_and_profile(meas):
    return {'isi': (spk.isi_distance, spk.isi_profile), 'spike': (spk.spike_distance, spk.spike_profile),
            'sync': (spk.spike_sync, spk.spike_sync_profile), 'order': (spk.spike_train_order, spk.spike_train_order_profile)}[meas]


def o_C05(sc):
    L = mkl(sc)
    for meas in sc.get('measures', MEASURES):
        dist, prof = dist_and_profile(meas)
        kw = kwargs_of(sc, meas)
        mt = mt_of(sc) if meas in ('sync', 'order') else {}
        iv = iv_of(sc) if meas != 'order' else {}
        forms = [([L[0], L[1]], {}), ([L], {})]
        if sc.get('indices'):
            forms.append(([L], {'indices': sc['indices']}))
        for args, ik in forms:
            if args[0] is L and len(L) < 2:
                continue
            d = quiet(dist, *args, **ik, **iv, **mt, **kw)
            p = quiet(prof, *args, **ik, **mt, **kw)
            e = quiet(p.avrg, iv.get('interval'))
            if not feq(d, e):
                return 'C05 %s(%s%s)=%r but profile average=%r' % (meas, 'pair' if len(args) == 2 else 'list', ', indices=%s' % ik['indices'] if ik else '', d, e)
            # the same with a LIST of averaging intervals that leave a gap (for the functions that accept one)
            if meas != 'order' and 'own0' not in sc and 'own01' not in sc:
                ts_, te_ = float(sc['trains'][0][1]), float(sc['trains'][0][2])
                T_ = te_ - ts_
                ivl = [(ts_ + T_ / 8, ts_ + 3 * T_ / 8), (ts_ + 5 * T_ / 8, ts_ + 7 * T_ / 8)]
                d = quiet(dist, *args, **ik, interval=ivl, **mt, **kw)
                e = quiet(p.avrg, ivl)
                if not feq(d, e):
                    return 'C05 %s(%s%s, interval=%s)=%r but the profile average over these intervals=%r' % (
                        meas, 'pair' if len(args) == 2 else 'list', ', indices=%s' % ik['indices'] if ik else '', ivl, d, e)
    return None


def o_C06(sc):
    if sc.get('own01'):
        return matrix_vs_reconciled('C06', sc, ['isi', 'spike', 'sync'])
    return _o_C06(sc)


def _o_C06_interval_list(sc):
    """the mean-of-pairs clause with a LIST of averaging intervals that leave a gap"""
    L = mkl(sc)
    if len(L) < 2:
        return None
    ts_, te_ = float(sc['trains'][0][1]), float(sc['trains'][0][2])
    T_ = te_ - ts_
    ivl = [(ts_ + T_ / 8, ts_ + 3 * T_ / 8), (ts_ + 5 * T_ / 8, ts_ + 7 * T_ / 8)]
    for name, f, meas in (('isi_distance', spk.isi_distance, 'isi'), ('spike_distance', spk.spike_distance, 'spike')):
        k = kwargs_of(sc, meas)
        if k.get('MRTS') == 'auto':
            continue
        d = quiet(f, L, interval=ivl, **k)
        ps = [quiet(f, L[i], L[j], interval=ivl, **k) for i in range(len(L)) for j in range(i + 1, len(L))]
        if not feq(d, sum(ps) / len(ps)):
            return 'C06 %s(list, interval=%s) = %r, the mean of the pair distances over the same intervals is %r' % (name, ivl, d, sum(ps) / len(ps))
    return None


def _o_C06(sc):
    r_ = _o_C06_interval_list(sc) if 'own0' not in sc else None
    if r_:
        return r_
    return _o_C06_main(sc)


def _o_C06_main(sc):
    L = mkl(sc)
    N = len(L)
    pairs = [(i, j) for i in range(N) for j in range(i + 1, N)]
    perm = sc.get('perm') or list(reversed(range(N)))
    Lp = [L[i] for i in perm]
    iv = iv_of(sc)
    for meas in sc.get('measures', ['isi', 'spike', 'sync']):
        dist, prof = dist_and_profile(meas)
        kw = kwargs_of(sc, meas)
        mt = mt_of(sc) if meas in ('sync', 'order') else {}
        P = quiet(prof, L, **mt, **kw)
        Pp = quiet(prof, Lp, **mt, **kw)
        if not prof_eq(P, Pp):
            return 'C06 %s profile depends on the order of the trains' % meas
        d = quiet(dist, L, **iv, **mt, **kw)
        dp = quiet(dist, Lp, **iv, **mt, **kw)
        if not feq(d, dp):
            return 'C06 %s value depends on the order of the trains: %r vs %r' % (meas, d, dp)
        bis = [quiet(prof, L[i], L[j], **mt, **kw) for i, j in pairs]
        if meas in ('isi', 'spike'):
            ts_ = sorted(set(float(x) for b in bis for x in b.x))
            mids = [(a + b) / 2 for a, b in zip(ts_, ts_[1:])]
            for t in mids:
                e = sum(quiet(b, t) for b in bis) / len(pairs)
                if not feq(quiet(P, t), e):
                    return 'C06 %s multivariate profile at t=%r is %r, mean of pair profiles %r' % (meas, t, quiet(P, t), e)
            e = sum(quiet(dist, L[i], L[j], **iv, **mt, **kw) for i, j in pairs) / len(pairs)
            if not feq(d, e):
                return 'C06 %s multivariate distance %r, mean of pair distances %r' % (meas, d, e)
        else:
            acc = {}
            for b in bis:
                for x, y, mp in list(zip(b.x, b.y, b.mp))[1:-1]:
                    a = acc.setdefault(float(x), [0.0, 0.0]); a[0] += y; a[1] += mp
            got = {float(x): [y, mp] for x, y, mp in list(zip(P.x, P.y, P.mp))[1:-1]}
            if set(acc) != set(got) or any(not (feq(acc[k][0], got[k][0]) and feq(acc[k][1], got[k][1])) for k in acc):
                return 'C06 multivariate SPIKE-Sync profile is not the sum of the pair profiles'
            if 'interval' not in iv:
                tc = sum(v[0] for v in acc.values()); tm = sum(v[1] for v in acc.values())
            else:
                # over a sub-interval: the events strictly inside it (also when it is the whole recording)
                a_, b_ = iv['interval']
                tc = sum(v[0] for t_, v in acc.items() if a_ < t_ < b_); tm = sum(v[1] for t_, v in acc.items() if a_ < t_ < b_)
            e = 1.0 if tm == 0 else tc / tm
            if not feq(d, e):
                return 'C06 SPIKE-Sync value %r, total coincidences/multiplicity %r%s' % (d, e, '' if 'interval' not in iv else ' (events strictly inside %r)' % (iv['interval'],))
        matf = {'isi': spk.isi_distance_matrix, 'spike': spk.spike_distance_matrix, 'sync': spk.spike_sync_matrix}[meas]
        M = quiet(matf, L, **iv, **mt, **kw)
        diag = 1.0 if meas == 'sync' else 0.0
        if not aeq(M, M.T) or not aeq(np.diag(M), np.full(N, diag)):
            return 'C06 %s matrix not symmetric or wrong diagonal' % meas
        for i, j in pairs:
            if not feq(M[i, j], quiet(dist, L[i], L[j], **iv, **mt, **kw)):
                return 'C06 %s matrix entry (%d,%d) is not the bivariate value' % (meas, i, j)
    return None


def o_C07(sc):
    L = mkl(sc)
    a, b = L[0], L[1]
    iv = iv_of(sc)
    kw_s = kwargs_of(sc, 'spike'); kw = kwargs_of(sc, 'isi'); mt = mt_of(sc)
    fin = lambda arr_: bool(np.all(np.isfinite(np.asarray(arr_, dtype=float))))
    pi = quiet(spk.isi_profile, a, b, **kw); ps = quiet(spk.spike_profile, a, b, **kw_s)
    eps = 1e-12
    for name, vals in (('ISI', pi.y), ('SPIKE', np.concatenate([ps.y1, ps.y2]))):
        if not fin(vals) or np.min(vals) < -eps or np.max(vals) > 1 + eps:
            return 'C07 %s profile values outside [0,1] or not finite: min %r max %r' % (name, np.min(vals), np.max(vals))
    for name, f, k in (('isi_distance', spk.isi_distance, kw), ('spike_distance', spk.spike_distance, kw_s)):
        d = quiet(f, a, b, **iv, **k); d2 = quiet(f, b, a, **iv, **k)
        if not math.isfinite(d) or d < -eps or d > 1 + eps:
            return 'C07 %s = %r outside [0,1]' % (name, d)
        if not feq(d, d2):
            return 'C07 %s not symmetric: %r vs %r' % (name, d, d2)
        z = quiet(f, a, a.copy(), **iv, **k)
        if not feq(z, 0.0, 1e-12):
            return 'C07 %s of a train with an equal copy = %r' % (name, z)
    pq = quiet(spk.isi_profile, b, a, **kw); pt = quiet(spk.spike_profile, b, a, **kw_s)
    if not prof_eq(pi, pq) or not prof_eq(ps, pt):
        return 'C07 ISI/SPIKE profile changes when the arguments are swapped'
    sy = quiet(spk.spike_sync_profile, a, b, **mt, **kw); sy2 = quiet(spk.spike_sync_profile, b, a, **mt, **kw)
    if not prof_eq(sy, sy2):
        return 'C07 SPIKE-Sync profile changes when the arguments are swapped'
    if np.any(sy.y < 0) or np.any(sy.y > sy.mp):
        return 'C07 SPIKE-Sync entry outside [0, multiplicity]'
    s = quiet(spk.spike_sync, a, b, **iv, **mt, **kw)
    if not (0 <= s <= 1) or not feq(s, quiet(spk.spike_sync, b, a, **iv, **mt, **kw)):
        return 'C07 SPIKE-Sync value %r outside [0,1] or asymmetric' % s
    if not feq(quiet(spk.spike_sync, a, a.copy(), **iv, **mt, **kw), 1.0):
        return 'C07 SPIKE-Sync of a train with itself is not 1'
    o = quiet(spk.spike_train_order, a, b, **mt, **kw)
    dn = quiet(spk.spike_directionality, a, b, **mt, **kw)
    if not (-1 - eps <= o <= 1 + eps) or not (-1 - eps <= dn <= 1 + eps):
        return 'C07 order %r / normalised directionality %r outside [-1,1]' % (o, dn)
    if quiet(spk.spike_directionality, a, a.copy(), normalize=False, **mt, **kw) != 0:
        return 'C07 un-normalised directionality of a train with itself is not 0'
    return None


def transform(sc, alpha, beta, mirror=False):
    out = dict(sc)
    kw = dict(sc.get('kw', {}))
    tr = []
    for s, ts, te in sc['trains']:
        if mirror:
            tr.append((sorted(ts + te - x for x in s), ts, te))
        else:
            tr.append(([alpha * x + beta for x in s], alpha * ts + beta, alpha * te + beta))
    out['trains'] = tr
    if not mirror:
        if kw.get('mrts'):
            kw['mrts'] = kw['mrts'] * alpha
        if kw.get('max_tau'):
            kw['max_tau'] = kw['max_tau'] * alpha
    out['kw'] = kw
    return out


def o_C08(sc):
    alpha, beta = sc.get('alpha', Fr(2)), sc.get('beta', Fr(-3))
    (s0, ts, te) = sc['trains'][0]
    L = mkl(sc)
    scA = transform(sc, alpha, beta)
    scM = transform(sc, 1, 0, mirror=True)
    LA, LM = mkl(scA), mkl(scM)
    fa = lambda x: float(alpha) * np.asarray(x) + float(beta)
    f9 = any(is_f9(t) or (len(t[0]) == 1 and t[0][0] == t[2]) for t in sc['trains'])
    for meas in ['isi', 'spike', 'sync', 'order']:
        dist, prof = dist_and_profile(meas)
        mt = mt_of(sc) if meas in ('sync', 'order') else {}
        mtA = mt_of(scA) if meas in ('sync', 'order') else {}
        for sel in ([0, 1], None):
            args = (lambda LL: [LL[0], LL[1]]) if sel else (lambda LL: [LL])
            P = quiet(prof, *args(L), **mt, **kwargs_of(sc, meas))
            PA = quiet(prof, *args(LA), **mtA, **kwargs_of(scA, meas))
            PM = quiet(prof, *args(LM), **mt, **kwargs_of(sc, meas))
            d = quiet(dist, *args(L), **mt, **kwargs_of(sc, meas))
            dA = quiet(dist, *args(LA), **mtA, **kwargs_of(scA, meas))
            dM = quiet(dist, *args(LM), **mt, **kwargs_of(sc, meas))
            if not aeq(PA.x, fa(P.x), 0):
                return 'C08 %s: time axis of the shifted/scaled profile is not the transformed axis' % meas
            if meas == 'isi':
                okA = aeq(PA.y, P.y); okM = aeq(PM.y, P.y[::-1])
            elif meas == 'spike':
                okA = aeq(PA.y1, P.y1) and aeq(PA.y2, P.y2)
                okM = aeq(PM.y1, P.y2[::-1]) and aeq(PM.y2, P.y1[::-1])
            else:
                sg = -1.0 if meas == 'order' else 1.0
                okA = aeq(PA.y, P.y) and aeq(PA.mp, P.mp, 0)
                okM = aeq(PM.y[1:-1], sg * P.y[::-1][1:-1]) and aeq(PM.mp, P.mp[::-1], 0)
            if not okA or not feq(d, dA):
                return 'C08 %s: values change under shift/scale (alpha=%s beta=%s): %r vs %r' % (meas, alpha, beta, d, dA)
            if not aeq(PM.x, (float(ts) + float(te)) - np.asarray(P.x)[::-1], 0):
                return 'C08 %s: time axis of the mirrored profile is not the mirrored axis' % meas
            if meas == 'spike' and f9:
                continue   # KNOWN-FINDING F9 class is attributed by the caller
            sgd = -1.0 if meas == 'order' else 1.0
            if meas == 'order' and not any(len(t.spikes) for t in (L if sel is None else L[:2])):
                continue   # no spikes at all: the value is the empty-profile convention, no sign
            if not okM or not feq(dM, sgd * d):
                return 'C08 %s: mirrored profile/value mismatch: %r vs %r' % (meas, d, dM)
    return None


def o_C13_large(sc):
    """valid trains at large absolute times (edges 2^34 … 1.7e12, as for time stamps), spikes ON both edges: reconciling
    leaves them as they are and every measure is the same with the default and with Reconcile=False (finding F16, fixed:
    the absolute tolerance 1e-6 vanishes in the rounding of tEnd+1e-6 there). The shape of the trains comes from the
    scenario, the offsets are fixed."""
    tr = [t for t in sc['trains'][:3]]
    if len(tr) < 2 or 'own0' in sc or 'dup' in sc or 'forms' in sc:
        return None
    for T in (2.0 ** 34, 2.0 ** 36 + 1024.0, 1.7e12):
        L = []
        for s_, a_, b_ in tr:
            a_, b_ = Fr(a_), Fr(b_)
            f = lambda t: T + float(round(64 * (Fr(t) - a_) / (b_ - a_)))          # integer grid 0..64: exact in doubles
            inner = sorted({f(t) for t in s_} | {T, T + 64.0})                       # plus a spike on each edge
            L.append(SpikeTrain(np.array(inner), [T, T + 64.0]))
        R = quiet(spk.spikes.reconcile_spike_trains, L)
        for r, l in zip(R, L):
            if list(r.spikes) != list(l.spikes) or r.t_start != l.t_start or r.t_end != l.t_end:
                return 'C13 valid trains at t = %r: reconcile returns %s for %s' % (T, [x - T for x in r.spikes], [x - T for x in l.spikes])
        for name, fn in (('isi_distance', spk.isi_distance), ('spike_distance', spk.spike_distance), ('spike_sync', spk.spike_sync)):
            v1, v0 = quiet(fn, L), quiet(fn, L, Reconcile=False)
            w1, w0 = quiet(fn, L[0], L[1]), quiet(fn, L[0], L[1], Reconcile=False)
            if not feq(v1, v0) or not feq(w1, w0):
                return 'C13 valid trains at t = %r: %s = %r / %r by default but %r / %r with Reconcile=False' % (T, name, v1, w1, v0, w0)
    return None


def o_C13(sc):
    r_ = o_C13_large(sc)
    if r_:
        return r_
    """sc['raw'] = [(spikes, ts, te)…] disordered; sc['trains'] = the same reconciled by definition"""
    raw = [SpikeTrain(np.array([float(v) for v in s]), [float(a), float(b)], is_sorted=True) for s, a, b in sc['raw']]
    snap = [(np.array(t.spikes, dtype=float).copy(), t.t_start, t.t_end) for t in raw]
    def unchanged():
        return all(np.array_equal(np.asarray(t.spikes, dtype=float), s0) and t.t_start == a0 and t.t_end == b0
                   for t, (s0, a0, b0) in zip(raw, snap))
    R = quiet(spk.spikes.reconcile_spike_trains, raw)
    if not unchanged():
        return 'C13 reconcile_spike_trains modified the trains passed to it'
    tS = min(a for _, a, _ in sc['raw']); tE = max(b for _, _, b in sc['raw'])
    eps = Fr(1, 10 ** 6)
    for r, (s, _, _) in zip(R, sc['raw']):
        exp = sorted({x for x in s if tS - eps < x < tE + eps})
        if r.t_start != float(tS) or r.t_end != float(tE) or list(np.asarray(r.spikes, dtype=float)) != [float(x) for x in exp]:
            return 'C13 reconcile: got %s on [%r,%r], expected %s on [%s,%s]' % (list(r.spikes), r.t_start, r.t_end, [float(x) for x in exp], tS, tE)
    R2 = quiet(spk.spikes.reconcile_spike_trains, R)
    for r, r2 in zip(R, R2):
        if list(r.spikes) != list(r2.spikes) or r.t_start != r2.t_start or r.t_end != r2.t_end:
            return 'C13 reconcile is not idempotent'
    mt = mt_of(sc)
    quiet(spk.filter_by_spike_sync, raw, 0.5)
    if not unchanged():
        return 'C13 filter_by_spike_sync modified the trains passed to it'
    if any(any(tS - eps < x < tS or tE < x < tE + eps for x in s) for s, _, _ in sc['raw']):
        # spikes inside the tolerance band but outside the interval are kept by design; the measures
        # are then not defined on them (the trains are not valid) — only the reconcile clauses apply
        return None
    for name, f, extra in API_FUNCS:
        k = dict(kwargs_of(sc, 'spike' if 'spike_' in name and 'sync' not in name and 'order' not in name and 'direct' not in name else 'isi'))
        if 'max_tau' in extra:
            k.update(mt)
        a = quiet(f, raw, **k) if 'list' in extra else quiet(f, raw[0], raw[1], **k)
        if not unchanged():
            return 'C13 %s modified the spike times or edges of the trains passed to it' % name
        # a two-train call reconciles the PAIR (its common interval is that of the two trains, not of the list)
        Rp = quiet(spk.spikes.reconcile_spike_trains, [raw[0], raw[1]])
        b = quiet(f, R, **k) if 'list' in extra else quiet(f, Rp[0], Rp[1], **k)
        k2 = dict(k); k2['Reconcile'] = False
        c = quiet(f, R, **k2) if 'list' in extra else quiet(f, Rp[0], Rp[1], **k2)
        if not res_eq(a, b):
            return 'C13 %s differs between disordered input and its reconciled form' % name
        if not res_eq(b, c):
            return 'C13 %s with Reconcile=False on valid input differs from the default' % name
        if 'list' in extra and len(raw) >= 2 and 'matrix' not in name and 'values' not in name:
            # a list of exactly TWO trains and `indices` naming two (single-pair paths of the multivariate code)
            R2 = quiet(spk.spikes.reconcile_spike_trains, [raw[0], raw[1]])
            a2 = quiet(f, [raw[0], raw[1]], **k)
            b2 = quiet(f, R2, **k)
            if not res_eq(a2, b2):
                return 'C13 %s([st1, st2]) differs between disordered input and its reconciled form' % name
            if len(raw) >= 3 and k.get('MRTS') != 'auto':
                a3 = quiet(f, raw, indices=[0, 1], **k)
                b3 = quiet(f, R, indices=[0, 1], **k)
                if not res_eq(a3, b3):
                    return 'C13 %s(list, indices=[0, 1]) differs between disordered input and its reconciled form' % name
    return None


def res_eq(a, b):
    if isinstance(a, (PieceWiseConstFunc, PieceWiseLinFunc, DiscreteFunc)):
        return prof_eq(a, b)
    if isinstance(a, (list, tuple)):
        return len(a) == len(b) and all(res_eq(x, y) for x, y in zip(a, b))
    if isinstance(a, SpikeTrain):
        return list(a.spikes) == list(b.spikes) and a.t_start == b.t_start and a.t_end == b.t_end
    return aeq(a, b)


API_FUNCS = [
    ('isi_profile', spk.isi_profile, ('bi',)), ('isi_profile[list]', spk.isi_profile, ('list',)),
    ('isi_distance', spk.isi_distance, ('bi',)), ('isi_distance[list]', spk.isi_distance, ('list',)),
    ('isi_distance_matrix', spk.isi_distance_matrix, ('list',)),
    ('spike_profile', spk.spike_profile, ('bi',)), ('spike_profile[list]', spk.spike_profile, ('list',)),
    ('spike_distance', spk.spike_distance, ('bi',)), ('spike_distance[list]', spk.spike_distance, ('list',)),
    ('spike_distance_matrix', spk.spike_distance_matrix, ('list',)),
    ('spike_sync_profile', spk.spike_sync_profile, ('bi', 'max_tau')), ('spike_sync_profile[list]', spk.spike_sync_profile, ('list', 'max_tau')),
    ('spike_sync', spk.spike_sync, ('bi', 'max_tau')), ('spike_sync[list]', spk.spike_sync, ('list', 'max_tau')),
    ('spike_sync_matrix', spk.spike_sync_matrix, ('list', 'max_tau')),
    ('spike_train_order_profile', spk.spike_train_order_profile, ('bi', 'max_tau')),
    ('spike_train_order_profile[list]', spk.spike_train_order_profile, ('list', 'max_tau')),
    ('spike_train_order', spk.spike_train_order, ('bi', 'max_tau')), ('spike_train_order[list]', spk.spike_train_order, ('list', 'max_tau')),
    ('spike_directionality', spk.spike_directionality, ('bi', 'max_tau')),
    ('spike_directionality_values', spk.spike_directionality_values, ('list', 'max_tau')),
    ('spike_directionality_matrix', spk.spike_directionality_matrix, ('list', 'max_tau')),
]

IDX_FUNCS = [
    ('isi_profile', spk.isi_profile, 'isi', False), ('isi_distance', spk.isi_distance, 'isi', True),
    ('isi_distance_matrix', spk.isi_distance_matrix, 'isi', True),
    ('spike_profile', spk.spike_profile, 'spike', False), ('spike_distance', spk.spike_distance, 'spike', True),
    ('spike_distance_matrix', spk.spike_distance_matrix, 'spike', True),
    ('spike_sync_profile', spk.spike_sync_profile, 'sync', False), ('spike_sync', spk.spike_sync, 'sync', True),
    ('spike_sync_matrix', spk.spike_sync_matrix, 'sync', True),
    ('spike_train_order_profile', spk.spike_train_order_profile, 'order', False),
    ('spike_train_order', spk.spike_train_order, 'order', False),
    ('spike_directionality_values', spk.spike_directionality_values, 'order', False),
    ('spike_directionality_matrix', spk.spike_directionality_matrix, 'order', False),
]


def o_C14(sc):
    L = mkl(sc)
    idx = sc.get('indices') or list(range(len(L)))
    sub = [L[i] for i in idx]
    for name, f, meas, has_iv in IDX_FUNCS:
        k = dict(kwargs_of(sc, meas))
        if meas in ('sync', 'order'):
            k.update(mt_of(sc))
        if has_iv:
            k.update(iv_of(sc))
        a = quiet(f, L, indices=idx, **k)
        b = quiet(f, sub, **k)
        if not res_eq(a, b):
            return 'C14 %s(L, indices=%s) differs from %s(sub-list)' % (name, idx, name)
        if has_iv and len(idx) < len(L) and 'own0' not in sc and 'forms' not in sc and 'dup' not in sc:
            # an averaging interval that just encloses every spike of the SELECTED trains (an unselected train may well
            # spike outside it): what the unselected trains do must stay irrelevant
            sp = [float(x) for t in sub for x in t.spikes]
            ts_, te_ = sub[0].t_start, sub[0].t_end
            if sp and all(t.t_start == ts_ and t.t_end == te_ for t in L):
                lo, hi = (ts_ + min(sp)) / 2, (te_ + max(sp)) / 2
                if ts_ <= lo < hi <= te_:
                    k2 = dict(k); k2['interval'] = (lo, hi)
                    if not res_eq(quiet(f, L, indices=idx, **k2), quiet(f, sub, **k2)):
                        return 'C14 %s(L, indices=%s, interval=%s) differs from %s(sub-list, interval=…)' % (name, idx, (lo, hi), name)
        if 'matrix' not in name and len(sub) >= 3:
            c = quiet(f, *sub, **k)
            if not res_eq(b, c):
                return 'C14 %s(*trains) differs from %s(list)' % (name, name)
        if 'matrix' not in name and name != 'spike_directionality_values':
            i, j = idx[0], idx[1]
            p = quiet(f, L[i], L[j], **k)
            q = quiet(f, [L[i], L[j]], **k)
            r = quiet(f, L, indices=[i, j], **k)
            if not res_eq(p, q) or not res_eq(p, r):
                return 'C14 %s: two-train call, two-element list and indices=[%d,%d] disagree' % (name, i, j)
    return None


def o_C15(sc):
    L = mkl(sc)
    m1, m2 = sc['m1'], sc['m2']
    a, b = L[0], L[1]
    mt = mt_of(sc)
    ri = {'RI': True} if sc['kw'].get('ri') else {}
    def profs(m):
        k = {} if m is None else {'MRTS': _np_form(m, _forms(sc).get('mrts'))}
        return (quiet(spk.isi_profile, a, b, **k), quiet(spk.spike_profile, a, b, **ri, **k),
                quiet(spk.spike_sync_profile, a, b, **mt, **k),
                quiet(spk.isi_profile, L, **k), quiet(spk.spike_profile, L, **ri, **k), quiet(spk.spike_sync_profile, L, **mt, **k),
                quiet(spk.spike_train_order_profile, a, b, **mt, **k), quiet(spk.spike_train_order_profile, L, **mt, **k))
    def scal(m):
        # the order / directionality family takes the same keyword (its window is the SPIKE-Sync window)
        k = {} if m is None else {'MRTS': _np_form(m, _forms(sc).get('mrts'))}
        return [quiet(spk.spike_directionality, a, b, **mt, **k), quiet(spk.spike_train_order, a, b, **mt, **k),
                quiet(spk.spike_train_order, L, **mt, **k)] + [list(v) for v in quiet(spk.spike_directionality_values, L, **mt, **k)] + \
               [list(r) for r in quiet(spk.spike_directionality_matrix, L, **mt, **k)]
    P0, Pz, P1, P2 = profs(None), profs(0), profs(m1), profs(m2)
    S0 = scal(None)
    if not res_eq(S0, scal(0)):
        return 'C15 MRTS=0 differs from the non-adaptive order / directionality values'
    for p, q in zip(P0, Pz):
        if not prof_eq(p, q):
            return 'C15 MRTS=0 differs from the non-adaptive measure'
    eps = 1e-12
    for k in (0, 3):
        if not aeq(P1[k].x, P2[k].x, 0) or np.any(P2[k].y > P1[k].y + eps):
            return 'C15 raising MRTS from %s to %s increases an ISI-profile value' % (m1, m2)
    for k in (1, 4):
        if np.any(P2[k].y1 > P1[k].y1 + eps) or np.any(P2[k].y2 > P1[k].y2 + eps):
            return 'C15 raising MRTS from %s to %s increases a SPIKE-profile value' % (m1, m2)
    for k in (2, 5):
        if np.any(P2[k].y < P1[k].y):
            return 'C15 raising MRTS from %s to %s removes a coincidence' % (m1, m2)
    # MRTS below every ISI (edge-corrected ones included) changes nothing
    isis = []
    for s, ts, te in sc['trains']:
        xs = [ts] + list(s) + [te]
        isis += [q - p for p, q in zip(xs, xs[1:]) if q > p]
    small = min(isis) / 2
    Ps = profs(small)
    for p, q in zip(P0, Ps):
        if not prof_eq(p, q):
            return 'C15 MRTS=%s below every inter-spike interval changes a profile' % small
    for sm in (small, min(isis) * 15 / 16):
        if not res_eq(S0, scal(sm)):
            return 'C15 MRTS=%s below every inter-spike interval changes an order / directionality value' % sm
        if sm != small:
            for p, q in zip(P0, profs(sm)):
                if not prof_eq(p, q):
                    return 'C15 MRTS=%s below every inter-spike interval changes a profile' % sm
    # 'auto' = explicit threshold = rms of the pooled ISI lengths
    from pyspike.isi_lengths import default_thresh
    R = quiet(spk.spikes.reconcile_spike_trains, L)
    thr = quiet(default_thresh, R)
    pool = []
    for s, ts, te in sc['trains']:
        if not s:
            pool.append(te - ts)
            continue
        ins = [x for x in s]
        if f7_class(s, ts, te):
            continue_f7 = True
            pool = None
            break
        if ins[0] > ts:
            pool.append(max(ins[0] - ts, ins[1] - ins[0]) if len(ins) > 1 else ins[0] - ts)
        pool += [q - p for p, q in zip(ins, ins[1:])]
        if ins[-1] < te:
            pool.append(max(te - ins[-1], ins[-1] - ins[-2]) if len(ins) > 1 else te - ins[-1])
    if pool is not None and pool:
        e = math.sqrt(float(sum(x * x for x in pool) / len(pool)))
        if not feq(thr, e, 1e-12):
            return 'C15 automatic threshold %r, rms of pooled ISI lengths %r' % (thr, e)
    for f, k in ((spk.isi_profile, {}), (spk.spike_profile, ri), (spk.spike_sync_profile, mt), (spk.isi_distance, {}),
                 (spk.spike_distance, ri), (spk.spike_sync, mt), (spk.isi_distance_matrix, {}), (spk.spike_sync_matrix, mt)):
        x = quiet(f, L, MRTS='auto', **k)
        y = quiet(f, L, MRTS=thr, **k)
        if not res_eq(x, y):
            return "C15 MRTS='auto' differs from passing the automatic threshold explicitly (%s)" % f.__name__
    # the two-train call forms, also with one train without spikes (it contributes the recording length once)
    ts0, te0 = float(sc['trains'][0][1]), float(sc['trains'][0][2])
    empty = SpikeTrain(np.array([], dtype=float), [ts0, te0])
    if 'own0' not in sc:
        for u, v in ((a, b), (a, empty), (empty, b)):
            thr2 = quiet(default_thresh, quiet(spk.spikes.reconcile_spike_trains, [u, v]))
            combos = [(spk.isi_profile, {}), (spk.spike_profile, ri), (spk.spike_sync_profile, mt), (spk.isi_distance, {}),
                      (spk.spike_distance, ri), (spk.spike_sync, mt)]
            # 'auto' together with a max_tau well below the automatic threshold (each keyword alone is not enough)
            for frac in (0.125, 0.25, 0.4):
                combos += [(spk.spike_sync_profile, {'max_tau': float(thr2) * frac}), (spk.spike_sync, {'max_tau': float(thr2) * frac})]
            for f, k in combos:
                x = quiet(f, u, v, MRTS='auto', **k)
                y = quiet(f, u, v, MRTS=thr2, **k)
                if not res_eq(x, y):
                    return "C15 %s(st1, st2, MRTS='auto') differs from passing the pooled threshold of the two trains explicitly (spike counts %d / %d)" % (
                        f.__name__, len(u.spikes), len(v.spikes))
    return None


def f7_class(s, ts, te):
    """the two input classes of known finding F7"""
    return (len(s) == 1 and (s[0] == ts or s[0] == te)) or (len(s) == 2 and s[0] == ts and s[1] == te)


def o_C16(sc):
    L = mkl(sc)
    a, b = L[0], L[1]
    (s1, ts, te), (s2, _, _) = sc['trains'][:2]
    t1, t2 = sc['mt1'], sc['mt2']
    kw = kwargs_of(sc)
    def marks(mt):
        k = {} if mt is None else {'max_tau': float(mt)}
        p = quiet(spk.spike_sync_profile, a, b, **k, **kw)
        o = quiet(spk.spike_train_order_profile, a, b, **k, **kw)
        d = quiet(spk.spike_directionality_values, [a, b], **k, **kw)
        f = quiet(spk.filter_by_spike_sync, [a, b], 0.5, **k, **kw)
        return p, o, d, f
    pn, on, dn, fn = marks(None)
    pz, oz, dz, fz = marks(0)
    if not (prof_eq(pn, pz) and prof_eq(on, oz) and res_eq(dn, dz) and res_eq(fn, fz)):
        return 'C16 max_tau=None and max_tau=0 give different results'
    p1, o1, d1, f1 = marks(t1)
    p2, o2, d2, f2 = marks(t2)
    for mt, (p, o, d, f) in ((t1, (p1, o1, d1, f1)), (t2, (p2, o2, d2, f2))):
        # a marked spike must have a spike of the other train closer than max_tau
        for tr_, other, dv, kept in ((s1, s2, d[0], f[0]), (s2, s1, d[1], f[1])):
            for i, x in enumerate(tr_):
                near = any(abs(x - y) < mt for y in other)
                if (dv[i] != 0 or float(x) in list(kept.spikes)) and not near:
                    return 'C16 max_tau=%s: spike %s marked coincident although no spike of the other train is closer than max_tau' % (mt, x)
        for x, y, mp in list(zip(p.x, p.y, p.mp))[1:-1]:
            xq = Fr(x)
            if mp == 1 and y != 0:
                other = s2 if xq in s1 else s1
                if not any(abs(xq - z) < mt for z in other):
                    return 'C16 max_tau=%s: profile marks spike %s coincident beyond max_tau' % (mt, x)
        for x, y, mp in list(zip(o.x, o.y, o.mp))[1:-1]:
            xq = Fr(x)
            if y != 0:
                other = s2 if xq in s1 else s1
                if not any(abs(xq - z) < mt for z in other):
                    return 'C16 max_tau=%s: order profile marks spike %s beyond max_tau' % (mt, x)
    ivs_ = [None] + ([tuple(float(v) for v in sc['interval'])] if sc.get('interval') else [])
    for mt, p in ((t1, p1), (t2, p2)):
        for iv in ivs_:
            ent = [(x, y, mp) for x, y, mp in list(zip(p.x, p.y, p.mp))[1:-1] if iv is None or iv[0] < x < iv[1]]
            c = sum(e[1] for e in ent); m_ = sum(e[2] for e in ent)
            e_ = 1.0 if m_ == 0 else c / m_
            k = {'max_tau': float(mt)}
            if iv is not None:
                k['interval'] = iv
            v = quiet(spk.spike_sync, a, b, **k, **kw)
            v2 = quiet(spk.spike_sync, [a, b], **k, **kw)
            M = quiet(spk.spike_sync_matrix, [a, b], **k, **kw)
            if not (feq(v, e_) and feq(v2, e_) and feq(M[0, 1], e_)):
                return 'C16 max_tau=%s interval=%s: spike_sync %r / list form %r / matrix %r, but the coincidences within max_tau give %r' % (mt, iv, v, v2, M[0, 1], e_)
    if len(L) >= 3:
        # the multivariate value with an averaging interval: pooled counts of the PAIR profiles with the same
        # max_tau (a bound lost on one path of one call form shows up here)
        for mt in (t1, t2):
            pairs_ = [quiet(spk.spike_sync_profile, L[i_], L[j_], max_tau=float(mt), **kw) for i_ in range(len(L)) for j_ in range(i_ + 1, len(L))]
            for iv in ivs_:
                c = m_ = 0.0
                for pp in pairs_:
                    for x, y, mp in list(zip(pp.x, pp.y, pp.mp))[1:-1]:
                        if iv is None or iv[0] < x < iv[1]:
                            c += y; m_ += mp
                e_ = 1.0 if m_ == 0 else c / m_
                k = {'max_tau': float(mt)}
                if iv is not None:
                    k['interval'] = iv
                v = quiet(spk.spike_sync, L, **k, **kw)
                if not feq(v, e_):
                    return 'C16 max_tau=%s interval=%s: spike_sync of the %d trains is %r, the pair profiles with the same max_tau give %r' % (mt, iv, len(L), v, e_)
    if np.any(p2.y < p1.y) or np.any(np.abs(o2.y) < np.abs(o1.y)) or len(f2[0].spikes) < len(f1[0].spikes):
        return 'C16 enlarging max_tau from %s to %s removes a coincidence' % (t1, t2)
    if np.any(np.abs(pn.y) < np.abs(p2.y)):
        return 'C16 unbounded window has fewer coincidences than max_tau=%s' % t2
    r_ = decimal_filter_check('C16', sc)
    if r_:
        return r_
    # max_tau handed over as a numpy scalar object (0-d array), re-used for several calls: it is an
    # argument like any other — never modified, and every call sees the same bound
    mobj = np.array(float(t1))
    for fname, k_ in (('spike_directionality_values', {}), ('spike_directionality', {'normalize': False}),
                      ('spike_directionality_matrix', {'normalize': False}), ('spike_sync', {}), ('spike_train_order', {})):
        fn = getattr(spk, fname)
        args = (L,) if fname not in ('spike_directionality',) else (a, b)
        ref = quiet(fn, *args, max_tau=float(t1), **k_, **kw)
        for rep in range(2):
            got = quiet(fn, *args, max_tau=mobj, **k_, **kw)
            if float(mobj) != float(t1):
                return 'C16 %s modified the max_tau object passed to it (%r -> %r)' % (fname, float(t1), float(mobj))
            same = all(aeq(x_, y_) for x_, y_ in zip(ref, got)) if isinstance(ref, list) else aeq(ref, got)
            if not same:
                return 'C16 %s with max_tau given as a numpy scalar object differs from the float form (call %d)' % (fname, rep + 1)
    return None


def o_C17_alias(sc):
    """the same SpikeTrain object twice in the list (with Reconcile=False nothing is copied): the result must
    be the one for two equal but distinct objects"""
    L = mkl(sc)
    if len(L) < 2 or sc.get('own0') or sc['kw'].get('mrts') == 'auto':
        return None
    a, b = L[0], L[1]
    thr = float(sc['thr'])
    k = dict(mt_of(sc)); k.update(kwargs_of(sc))
    r1 = quiet(spk.filter_by_spike_sync, [a, a, b], thr, Reconcile=False, **k)
    r2 = quiet(spk.filter_by_spike_sync, [a, a.copy(), b], thr, Reconcile=False, **k)
    for u, v in zip(r1, r2):
        if list(u.spikes) != list(v.spikes):
            return 'C17 filter of [a, a, b] (same object twice, Reconcile=False) keeps %s, of [a, copy(a), b] keeps %s' % (list(u.spikes), list(v.spikes))
    return None


def decimal_filter_check(prop, sc):
    """two trains on a decimal grid with t_start != 0, threshold 0: the filter keeps exactly the spikes the bivariate
    profile marks (value 1 at multiplicity 1, or a shared time). Both routes evaluate the same comparisons on the same
    numbers, so they agree bit for bit — also at exact ties |dt| = window."""
    if 'own0' in sc or 'dup' in sc or 'forms' in sc or len(sc['trains']) < 2 or sc['kw'].get('mrts') == 'auto':
        return None
    D = _decimal_trains(sc)[:2]
    for mt in (None, 0.1, 0.2, 0.4):
        k = {} if mt is None else {'max_tau': mt}
        p = quiet(spk.spike_sync_profile, D[0], D[1], **k)
        marked = {float(x) for x, y, mp in list(zip(p.x, p.y, p.mp))[1:-1] if y > 0}
        f = quiet(spk.filter_by_spike_sync, [D[0], D[1]], 0.0, **k)
        for t_, kept in zip(D, f):
            exp_ = [float(x) for x in t_.spikes if float(x) in marked]
            if list(kept.spikes) != exp_:
                return '%s on decimal times (max_tau=%s): the filter keeps %s of train %s, the profile marks %s' % (prop, mt, list(kept.spikes), list(t_.spikes), exp_)
    return None


def o_C17(sc):
    r_ = o_C17_alias(sc) or decimal_filter_check('C17', sc)
    if r_:
        return r_
    L = mkl(sc)
    N = len(L)
    thr = sc['thr']
    kw = kwargs_of(sc); mt = mt_of(sc)
    kept, removed = quiet(spk.filter_by_spike_sync, L, float(thr), return_removed_spikes=True, **mt, **kw)
    P = quiet(spk.spike_sync_profile, L, **mt, **kw)
    prof = {float(x): (y, mp) for x, y, mp in list(zip(P.x, P.y, P.mp))[1:-1]}
    mtq = Fr(sc['kw'].get('max_tau') or 0)
    allcnt = []
    if sc['kw'].get('mrts') in ('auto', -1):
        # 'auto' stands for the threshold pooled over ALL trains of the list (as in the multivariate profile)
        from pyspike.isi_lengths import default_thresh
        m = Fr(float(quiet(default_thresh, quiet(spk.spikes.reconcile_spike_trains, L))))
    else:
        m = Fr(sc['kw'].get('mrts') or 0)
    for i, (s, ts, te) in enumerate(sc['trains']):
        cnt = [0] * len(s)
        for j, (o, _, _) in enumerate(sc['trains']):
            if j == i:
                continue
            C = coinc_matrix(s, o, ts, te, mtq, m) if s and o else [[False] * len(o) for _ in s]
            for k in range(len(s)):
                if any(C[k]):
                    cnt[k] += 1
        expk = [float(x) for x, c in zip(s, cnt) if Fr(c, N - 1) > thr]
        expr = [float(x) for x, c in zip(s, cnt) if not Fr(c, N - 1) > thr]
        if list(kept[i].spikes) != expk or list(removed[i].spikes) != expr:
            return 'C17 train %d: kept %s removed %s, expected kept %s removed %s (threshold %s)' % (i, list(kept[i].spikes), list(removed[i].spikes), expk, expr, thr)
        if kept[i].t_start != float(ts) or kept[i].t_end != float(te):
            return 'C17 filtered train not on the original interval'
        for x, c in zip(s, cnt):
            others = sum(1 for t in sc['trains'] if x in t[0])
            if others == 1:
                y, mp = prof[float(x)]
                if not feq(y / mp, c / (N - 1)):
                    return 'C17 profile value at %s is %r/%r, fraction of coincident trains is %d/%d' % (x, y, mp, c, N - 1)
        allcnt.append(dict(zip(s, cnt)))
    # at EVERY spike time (shared ones included) the profile carries the summed counts of the trains
    # spiking there over (number of those trains)*(N-1)  (theorem C17.multi_profile_at_time)
    for x in sorted(set(v for s_, _, _ in sc['trains'] for v in s_)):
        tot = sum(c[x] for c in allcnt if x in c); na = sum(1 for c in allcnt if x in c)
        y, mp = prof[float(x)]
        if not feq(y, tot) or not feq(mp, na * (N - 1)):
            return 'C17 profile at %s is (%r,%r), summed counts / multiplicity of the %d trains spiking there: (%d,%d)' % (x, y, mp, na, tot, na * (N - 1))
    thr2 = sc.get('thr2')
    if thr2 is not None and thr2 >= thr:
        k2 = quiet(spk.filter_by_spike_sync, L, float(thr2), **mt, **kw)
        for a, b in zip(kept, k2):
            if not set(b.spikes) <= set(a.spikes):
                return 'C17 higher threshold keeps a spike that the lower one removed'
    return None


def check_profile_shape(name, p, ts, te):
    fin = lambda a: bool(np.all(np.isfinite(np.asarray(a, dtype=float))))
    if p.x[0] != float(ts) or p.x[-1] != float(te):
        return 'C18 %s: time axis [%r,%r] is not [t_start,t_end]=[%s,%s]' % (name, p.x[0], p.x[-1], ts, te)
    if isinstance(p, PieceWiseConstFunc):
        if len(p.y) != len(p.x) - 1 or not fin(p.y) or np.any(np.diff(p.x) <= 0):
            return 'C18 %s: malformed piecewise-constant profile' % name
    elif isinstance(p, PieceWiseLinFunc):
        if len(p.y1) != len(p.x) - 1 or len(p.y2) != len(p.x) - 1 or not fin(p.y1) or not fin(p.y2) or np.any(np.diff(p.x) <= 0):
            return 'C18 %s: malformed piecewise-linear profile' % name
    else:
        if len(p.y) != len(p.x) or len(p.mp) != len(p.x) or not fin(p.y) or not fin(p.mp) or np.any(np.diff(p.x) < 0) or len(p.x) < 2:
            return 'C18 %s: malformed discrete profile' % name
    return None


def o_C18(sc):
    L = mkl(sc)
    _, ts, te = sc['trains'][0]
    mt = mt_of(sc); iv = iv_of(sc)
    for name, f, extra in API_FUNCS:
        meas = 'spike' if name.startswith('spike_profile') or name.startswith('spike_distance') else 'isi'
        k = dict(kwargs_of(sc, meas))
        if 'max_tau' in extra:
            k.update(mt)
        if iv and any(name.startswith(p) for p in ('isi_distance', 'spike_distance', 'spike_sync[', 'spike_sync_matrix')) or (iv and name == 'spike_sync'):
            k.update(iv)
        try:
            r = quiet(f, L, **k) if 'list' in extra else quiet(f, L[0], L[1], **k)
        except Exception as ex:
            return 'C18 %s raised %r' % (name, ex)
        if isinstance(r, (PieceWiseConstFunc, PieceWiseLinFunc, DiscreteFunc)):
            w = check_profile_shape(name, r, ts, te)
            if w:
                return w
        elif isinstance(r, list):
            if not all(np.all(np.isfinite(v)) for v in r):
                return 'C18 %s returned a non-finite value' % name
        elif not np.all(np.isfinite(np.asarray(r, dtype=float))):
            return 'C18 %s returned a non-finite value: %r' % (name, r)
    try:
        f = quiet(spk.filter_by_spike_sync, L, 0.5, **mt, **kwargs_of(sc))
    except Exception as ex:
        return 'C18 filter_by_spike_sync raised %r' % ex
    # the same (valid) objects used again, now with reconciliation switched off and MRTS='auto':
    # earlier calls must not have left them in a state that makes a later call fail
    for t in L:
        if not isinstance(t.spikes, np.ndarray):
            return 'C18 after earlier calls a spike train passed in no longer holds a numpy array (%s)' % type(t.spikes).__name__
    for name, f, extra in API_FUNCS:
        k = {'Reconcile': False, 'MRTS': 'auto'}
        if 'max_tau' in extra:
            k.update(mt)
        try:
            r = quiet(f, L, **k) if 'list' in extra else quiet(f, L[0], L[1], **k)
        except Exception as ex:
            return 'C18 %s(Reconcile=False, MRTS=\'auto\') on trains used before raised %r' % (name, ex)
    try:
        quiet(spk.filter_by_spike_sync, L, 0.5, Reconcile=False, **mt)
    except Exception as ex:
        return 'C18 filter_by_spike_sync(Reconcile=False) on trains used before raised %r' % ex
    return None


def o_C19(sc):
    os.makedirs(os.path.join(adapters.REPO if False else os.path.dirname(os.path.dirname(os.path.abspath(__file__))), 'build'), exist_ok=True)
    d = os.path.join(os.path.dirname(os.path.dirname(os.path.abspath(__file__))), 'build')
    path = os.path.join(d, 'c19_%d.txt' % os.getpid())
    sep, prec = sc['sep'], sc['prec']
    L = [SpikeTrain(np.array(sc['values'][k], dtype=float), [float(sc['ts']), float(sc['te'])]) for k in range(len(sc['values']))]
    try:
        spk.save_spike_trains_to_txt(L, path, separator=sep, precision=prec)
        if sc.get('comment_lines'):
            txt = open(path).read().split('\n')
            c = sc.get('comment', '#')
            txt = [c + ' header'] + txt[:1] + [c + 'x'] + txt[1:]
            open(path, 'w').write('\n'.join(txt))
        R = spk.load_spike_trains_from_txt(path, [float(sc['ts']), float(sc['te'])], separator=sep,
                                           comment=sc.get('comment', '#'), ignore_empty_lines=False)
        R2 = spk.load_spike_trains_from_txt(path, [float(sc['ts']), float(sc['te'])], separator=sep,
                                            comment=sc.get('comment', '#'), ignore_empty_lines=True)
    finally:
        if os.path.exists(path):
            os.remove(path)
    if len(R) != len(L):
        return 'C19 saved %d trains, loaded %d' % (len(L), len(R))
    ne = [t for t in L if len(t.spikes) > 0]
    if len(R2) != len(ne):
        return 'C19 ignore_empty_lines=True: loaded %d trains, %d non-empty were saved' % (len(R2), len(ne))
    for a, b in list(zip(L, R)) + list(zip(ne, R2)):
        if len(a.spikes) != len(b.spikes):
            return 'C19 a train of %d spikes was loaded with %d spikes' % (len(a.spikes), len(b.spikes))
        exp = sorted(a.spikes)
        for x, y in zip(exp, b.spikes):
            if prec >= 17:
                if x != y:
                    return 'C19 precision 17: %r loaded as %r' % (x, y)
            elif not (abs(x - y) <= 0.5000001 * 10.0 ** (-prec) * max(abs(x), 1e-300) * 10 or x == y):
                return 'C19 precision %d: %r loaded as %r' % (prec, x, y)
        if b.t_start != float(sc['ts']) or b.t_end != float(sc['te']):
            return 'C19 edges not preserved'
        if any(np.diff(b.spikes) < 0):
            return 'C19 loaded train is not sorted'
    # a scalar edge means [0, edge]: loading, constructing from a string, constructing directly
    try:
        spk.save_spike_trains_to_txt(L, path, separator=sep, precision=17)
        R3 = spk.load_spike_trains_from_txt(path, float(sc['te']), separator=sep, ignore_empty_lines=False)
    finally:
        if os.path.exists(path):
            os.remove(path)
    if len(R3) != len(L):
        return 'C19 scalar edge: saved %d trains, loaded %d' % (len(L), len(R3))
    for a, b in zip(L, R3):
        if b.t_start != 0.0 or b.t_end != float(sc['te']):
            return 'C19 scalar edge %s gives interval [%r,%r] when loading' % (sc['te'], b.t_start, b.t_end)
        if list(b.spikes) != sorted(a.spikes):
            return 'C19 scalar edge: precision 17 load differs'
    # a hand-written file: one-character data lines, an empty line, unsorted numbers
    try:
        open(path, 'w').write('5\n\n3 1 2\n7\n')      # every line newline-terminated, as `save` writes them
        R4 = spk.load_spike_trains_from_txt(path, float(sc['te']), ignore_empty_lines=False)
    finally:
        if os.path.exists(path):
            os.remove(path)
    got4 = [list(t.spikes) for t in R4]
    if got4 != [[5.0], [], [1.0, 2.0, 3.0], [7.0]]:
        return 'C19 hand-written file with lines "5", "", "3 1 2", "7" loads as %s' % got4
    return o_C19b(sc) or o_C19c(sc)


def o_C19c(sc):
    """further corners of the text round trip and of the constructors (third session, round 6)"""
    d = os.path.join(os.path.dirname(os.path.dirname(os.path.abspath(__file__))), 'build')
    path = os.path.join(d, 'c19c_%d.txt' % os.getpid())
    sep, prec = sc['sep'], int(sc['prec'])
    nv = sum(len(v) for v in sc['values'])
    # (a) a long train (more entries than any print threshold) next to a short one
    if nv % 4 == 0:
        n = 1500 + nv
        long_ = np.cumsum(np.full(n, 0.0078125)) + 0.5            # dyadic steps: exactly representable
        L = [SpikeTrain(long_, [0.0, float(long_[-1]) + 1.0]), SpikeTrain(np.array([1.0, 2.5]), [0.0, float(long_[-1]) + 1.0])]
        try:
            spk.save_spike_trains_to_txt(L, path, separator=sep, precision=max(prec, 6))
            R = spk.load_spike_trains_from_txt(path, [0.0, float(long_[-1]) + 1.0], separator=sep)
        finally:
            if os.path.exists(path):
                os.remove(path)
        if len(R) != 2 or len(R[0].spikes) != n or len(R[1].spikes) != 2:
            return 'C19 a train of %d spikes and one of 2 were saved, loaded %s' % (n, [len(t.spikes) for t in R])
        if not np.allclose(R[0].spikes, long_, rtol=10.0 ** (-max(prec, 6)) * 6, atol=0):
            return 'C19 long train: values differ beyond the printed precision'
    # (b) edges that no decimal of the printed precision represents, with spikes exactly on them
    ts_, te_ = 1.0 / 3.0, 200.0 / 3.0
    vals = [ts_, 7.25, 100.0 / 7.0, te_]
    for p_ in sorted({prec, 12, 3}):
        try:
            spk.save_spike_trains_to_txt([SpikeTrain(np.array(vals), [ts_, te_])], path, separator=sep, precision=p_)
            R = spk.load_spike_trains_from_txt(path, [ts_, te_], separator=sep)
        finally:
            if os.path.exists(path):
                os.remove(path)
        if len(R) != 1 or len(R[0].spikes) != len(vals):
            return 'C19 precision %d, edges [1/3, 200/3], spikes on both edges: saved %d spikes, loaded %s' % (p_, len(vals), [len(t.spikes) for t in R])
    # (c) a constructed train holds the times it was given: later changes of the source array do not reach it
    src = np.array(sorted(float(v) for v in (sc['values'][0] or [1.0, 2.0])), dtype=float)
    keep = list(src)
    st_ = SpikeTrain(src, [0.0, float(sc['te'])])
    src += 1.0
    if list(st_.spikes) != keep:
        return 'C19 SpikeTrain(array, edges): modifying the source array afterwards changes the train (%s -> %s)' % (keep, list(st_.spikes))
    # (d) 0/1 time series with a non-dyadic bin and a start time: spikes at start + (k+1)*bin, all inside the edges
    for ncol in (13, 15, 18, 25):
        rows = [[(c * 7 + r) % 5 == 0 or c == ncol - 1 for c in range(ncol)] for r in range(2)]
        start, binw = 0.3, 0.1
        try:
            open(path, 'w').write('\n'.join(' '.join('1' if b else '0' for b in row) for row in rows) + '\n')
            R = spk.import_spike_trains_from_time_series(path, start, binw)
        finally:
            if os.path.exists(path):
                os.remove(path)
        for row, t in zip(rows, R):
            if t.t_start != start:
                return 'C19 time series with start_time=%r imported with t_start=%r' % (start, t.t_start)
            if len(t.spikes) != sum(row) or any(abs(x - (start + (k + 1) * binw)) > 1e-12 for x, k in zip(t.spikes, [k for k, b in enumerate(row) if b])):
                return 'C19 time series (bin 0.1, %d samples): spikes %s' % (ncol, list(t.spikes))
            if len(t.spikes) and (t.spikes[-1] > t.t_end or t.spikes[0] < t.t_start):
                return 'C19 time series (bin 0.1, %d samples): spike %r outside the edges [%r, %r]' % (ncol, t.spikes[-1], t.t_start, t.t_end)
        pr = quiet(spk.isi_profile, R[0], R[1])
        if np.any(np.diff(pr.x) <= 0):
            return 'C19 trains imported from a time series (bin 0.1, %d samples) give a profile with a non-increasing time axis' % ncol
    return None


def o_C19b(sc):
    """string / scalar edge / direct construction"""
    for vals in sc['values'][:2]:
        if not vals:
            continue
        s = sc['sep'].join(repr(float(v)) for v in vals)
        t = spk.spike_train_from_string(s, float(sc['te']), sep=sc['sep'])
        if list(t.spikes) != sorted(float(v) for v in vals):
            return 'C19 spike_train_from_string(%r) gives %s' % (s, list(t.spikes))
        if t.t_start != 0.0 or t.t_end != float(sc['te']):
            return 'C19 scalar edge %s gives interval [%r,%r]' % (sc['te'], t.t_start, t.t_end)
        t2 = spk.spike_train_from_string(s, [float(sc['ts']), float(sc['te'])], sep=sc['sep'])
        if list(t2.spikes) != list(t.spikes) or t2.t_start != float(sc['ts']) or t2.t_end != float(sc['te']):
            return 'C19 spike_train_from_string with an edge pair differs from the scalar-edge form'
        u = SpikeTrain([float(v) for v in vals], float(sc['te']), is_sorted=False)
        if u.t_start != 0.0 or u.t_end != float(sc['te']) or list(u.spikes) != sorted(float(v) for v in vals):
            return 'C19 SpikeTrain(times, scalar edge) = %s on [%r,%r]' % (list(u.spikes), u.t_start, u.t_end)
        w = SpikeTrain([float(v) for v in vals], float(sc['te']), is_sorted=True)
        w.sort()
        if list(w.spikes) != sorted(float(v) for v in vals):
            return 'C19 SpikeTrain.sort() gives %s' % list(w.spikes)
    # 0/1 time series: one train per row (all-zero rows included), spikes at start + (k+1)*bin
    nrow = 1 + len(sc['values']) % 4
    ncol = 1 + sum(len(v) for v in sc["values"]) % 6          # 1 … 6 samples per row (a single column included)
    bits = [[(len(sc['values'][(r + c) % len(sc['values'])]) + r * c + c) % 3 == 0 for c in range(ncol)] for r in range(nrow)]
    if nrow > 1:
        bits[-1] = [False] * ncol                       # a silent last row
    if nrow > 2:
        bits[0] = [False] * ncol                        # and a silent first one
    d = os.path.join(os.path.dirname(os.path.dirname(os.path.abspath(__file__))), 'build')
    path = os.path.join(d, 'c19ts_%d.txt' % os.getpid())
    start, binw = 2.0, 0.25
    try:
        open(path, 'w').write('\n'.join(' '.join('1' if b else '0' for b in row) for row in bits) + '\n')
        R = spk.import_spike_trains_from_time_series(path, start, binw)
    finally:
        if os.path.exists(path):
            os.remove(path)
    if len(R) != nrow:
        return 'C19 time series with %d rows imported as %d trains' % (nrow, len(R))
    for row, t in zip(bits, R):
        exp = [start + (k + 1) * binw for k, b in enumerate(row) if b]
        if list(t.spikes) != exp or t.t_start != start or t.t_end != start + ncol * binw:
            return 'C19 time series row %s imported as %s on [%r,%r], expected %s on [%r,%r]' % (
                [int(b) for b in row], list(t.spikes), t.t_start, t.t_end, exp, start, start + ncol * binw)
    return None


def o_C20(sc):
    L = mkl(sc)
    _, ts, te = sc['trains'][0]
    m = quiet(spk.merge_spike_trains, L)
    exp = sorted(float(x) for s, _, _ in sc['trains'] for x in s)
    if list(m.spikes) != exp or m.t_start != float(ts) or m.t_end != float(te):
        return 'C20 merge: got %s on [%r,%r], expected %s' % (list(m.spikes), m.t_start, m.t_end, exp)
    # an empty first train with edges of its own: the result lies on THAT train's interval and
    # contains every spike of the others
    e0 = SpikeTrain(np.array([], dtype=float), [float(ts) - 1.0, float(te) + 2.0])
    m2 = quiet(spk.merge_spike_trains, [e0] + L)
    if list(m2.spikes) != exp or m2.t_start != float(ts) - 1.0 or m2.t_end != float(te) + 2.0:
        return 'C20 merge with an empty first train on [%r,%r]: got %s on [%r,%r], expected %s on the first train\'s interval' % (
            float(ts) - 1.0, float(te) + 2.0, list(m2.spikes), m2.t_start, m2.t_end, exp)
    n = sc.get('bins', 4)
    T = float(te - ts)
    bs = T / n

    def psth_ok(LL, a, b, tag, bs=bs, exp=exp):
        TT = b - a
        nb = int(TT / bs)
        h = quiet(spk.psth, LL, bs)
        w = np.diff(h.x)
        if len(h.y) != nb or h.x[0] != a or h.x[-1] != b or not aeq(w, np.full(nb, TT / nb), 1e-12):
            return 'C20 psth%s: bins are not %d equal bins over the recording [%r,%r] (axis %s)' % (tag, nb, a, b, list(h.x))
        inside = [x for x in exp if a <= x <= b]
        for k in range(nb):
            lo, hi = h.x[k], h.x[k + 1]
            c = sum(1 for x in inside if (lo <= x < hi) or (k == nb - 1 and x == hi))
            if h.y[k] != c:
                return 'C20 psth%s bin %d counts %r, %d spikes fall into it' % (tag, k, h.y[k], c)
        if sum(h.y) != len(inside):
            return 'C20 psth%s counts do not sum to the number of spikes' % tag
        return None
    if int(T / bs) == n:
        r = psth_ok(L, float(ts), float(te), '')
        if r:
            return r
        # a further train that also has spikes OUTSIDE the recording (= the first train's interval): they are
        # not inside, so they are not counted - with the scenario's bins and with ONE bin spanning the recording
        wide = SpikeTrain(np.array([float(ts) - 1.0, float(ts) + T / 2, float(te) + 0.5]), [float(ts) - 2.0, float(te) + 2.0])
        exp_w = sorted(exp + [float(ts) - 1.0, float(ts) + T / 2, float(te) + 0.5])
        r = psth_ok(L + [wide], float(ts), float(te), ' (a train with spikes outside the recording added)', exp=exp_w) \
            or psth_ok(L + [wide], float(ts), float(te), ' (one bin = the whole recording, spikes outside present)', bs=T, exp=exp_w)
        if r:
            return r
        # a second recording with the same start and bin size but a later end (same number of bins):
        # nothing may be carried over from the previous call
        te2 = float(te) + bs / 2
        if int((te2 - float(ts)) / bs) == n:
            L2 = [SpikeTrain(np.array(t.spikes, dtype=float), [float(ts), te2]) for t in L]
            r = psth_ok(L2, float(ts), te2, ' (second call, later t_end)') or psth_ok(L, float(ts), float(te), ' (third call, first recording again)')
            if r:
                return r
    # generated Poisson trains (real generator, seeded from the scenario): sorted, inside, edges carried;
    # low expected counts make the top-up loop of the generator run
    st = np.random.get_state()
    try:
        np.random.seed((len(exp) * 7919 + n * 104729 + int(T * 8)) % (2 ** 31))
        for rate in (0.3 / T, 2.0 / T, 12.0 / T):
            for iv, a, b in (([float(ts), float(te)], float(ts), float(te)), (T, 0.0, T)):
                for _ in range(3):
                    g = spk.generate_poisson_spikes(rate, iv)
                    sp = np.asarray(g.spikes, dtype=float)
                    if g.t_start != a or g.t_end != b:
                        return 'C20 generate_poisson_spikes(%r, %r) carries edges [%r,%r]' % (rate, iv, g.t_start, g.t_end)
                    if np.any(np.diff(sp) < 0):
                        return 'C20 generate_poisson_spikes(%r, %r) is not sorted: %s' % (rate, iv, list(sp))
                    if len(sp) and (sp[0] < a or sp[-1] > b or np.min(sp) < a or np.max(sp) > b):
                        return 'C20 generate_poisson_spikes(%r, %r) has spikes outside the interval: %s' % (rate, iv, list(sp))
    finally:
        np.random.set_state(st)
    return None


ORACLES = {'C01': o_C01, 'C02': o_C02, 'C03': o_C03, 'C04': o_C04, 'C05': o_C05, 'C06': o_C06, 'C07': o_C07,
           'C08': o_C08, 'C13': o_C13, 'C14': o_C14, 'C15': o_C15, 'C16': o_C16, 'C17': o_C17, 'C18': o_C18,
           'C19': o_C19, 'C20': o_C20}


# ------------------------------------------------------------------ function classes (C09, C10, C11)

def _F(v):
    return [Fr(x) for x in v]


def pwc_eval_exact(x, y, t, side):
    """one-sided limit of a piecewise constant function given by exact arrays"""
    for k in range(len(y)):
        if (side > 0 and x[k] <= t < x[k + 1]) or (side < 0 and x[k] < t <= x[k + 1]):
            return y[k]
    return y[-1] if side > 0 else y[0]


def pwl_eval_exact(x, y1, y2, t, side):
    for k in range(len(y1)):
        if (side > 0 and x[k] <= t < x[k + 1]) or (side < 0 and x[k] < t <= x[k + 1]):
            return y1[k] + (y2[k] - y1[k]) * (t - x[k]) / (x[k + 1] - x[k])
    return y2[-1] if side > 0 else y1[0]


def integral_exact(kind, f, a, b):
    x = f[0]
    tot = Fr(0)
    for k in range(len(x) - 1):
        lo, hi = max(a, x[k]), min(b, x[k + 1])
        if lo < hi:
            if kind == 'pwc':
                tot += (hi - lo) * f[1][k]
            else:
                va = pwl_eval_exact(f[0], f[1], f[2], lo, +1)
                vb = pwl_eval_exact(f[0], f[1], f[2], hi, -1)
                tot += (hi - lo) * (va + vb) / 2
    return tot


def mk_func(kind, f, ints=False):
    """ints: value arrays are created with an integer dtype when all values are integers (a function
    built from Python ints, or the PSTH) — adding a fractional function to it or scaling it must
    still give the exact result"""
    def A(v):
        if ints and all(Fr(z).denominator == 1 for z in v):
            return np.array([int(z) for z in v])
        return np.array([float(z) for z in v])
    X = lambda v: np.array([float(z) for z in v])
    if kind == 'pwc':
        return PieceWiseConstFunc(X(f[0]), A(f[1]))
    if kind == 'pwl':
        return PieceWiseLinFunc(X(f[0]), A(f[1]), A(f[2]))
    return DiscreteFunc(X(f[0]), A(f[1]), A(f[2]))


def func_state(g):
    if isinstance(g, PieceWiseConstFunc):
        return (list(g.x), list(g.y))
    if isinstance(g, PieceWiseLinFunc):
        return (list(g.x), list(g.y1), list(g.y2))
    return (list(g.x), list(g.y), list(g.mp))


def o_C09(sc):
    """sc: {'kind': 'pwc'|'pwl', 'funcs': [arrays…], 'ops': [('add', i, j) | ('mul', i, c) | ('copy', i)]}
    Every object is tracked as a formal linear combination of the initial functions; after every
    operation *all* live objects are compared with their expected denotation (aliasing shows up
    as an object changing that was not the receiver)."""
    kind = sc['kind']
    init = [tuple(_F(a) for a in f) for f in sc['funcs']]
    objs = [mk_func(kind, f, ints=bool(sc.get('ints')) and k == 0) for k, f in enumerate(init)]
    combo = [{k: Fr(1)} for k in range(len(init))]
    ev = (lambda f, t, s: pwc_eval_exact(f[0], f[1], t, s)) if kind == 'pwc' else (lambda f, t, s: pwl_eval_exact(f[0], f[1], f[2], t, s))

    def expected_breaks(c):
        pts = set()
        for k, w in c.items():
            pts |= set(init[k][0])
        return sorted(pts)

    def check_all(step):
        for n, (g, c) in enumerate(zip(objs, combo)):
            xs = expected_breaks(c)
            if not aeq(g.x, [float(v) for v in xs], 0):
                return 'C09 after %s: object %d has breakpoints %s, expected the union %s' % (step, n, list(g.x), [float(v) for v in xs])
            for k in range(len(xs) - 1):
                a, b = xs[k], xs[k + 1]
                er = sum(w * ev(init[i], a, +1) for i, w in c.items())
                el = sum(w * ev(init[i], b, -1) for i, w in c.items())
                gr = g.y[k] if kind == 'pwc' else g.y1[k]
                gl = g.y[k] if kind == 'pwc' else g.y2[k]
                if not feq(gr, er) or not feq(gl, el):
                    return 'C09 after %s: object %d on piece [%s,%s] has limits (%r,%r), expected (%s,%s)' % (step, n, a, b, gr, gl, float(er), float(el))
                mid = (a + b) / 2
                em = sum(w * ev(init[i], mid, +1) for i, w in c.items())
                if not feq(quiet(g, float(mid)), em):
                    return 'C09 after %s: object %d at t=%s is %r, expected %s' % (step, n, mid, quiet(g, float(mid)), float(em))
            ei = sum(w * integral_exact(kind, init[i], init[i][0][0], init[i][0][-1]) for i, w in c.items())
            if not feq(quiet(g.integral), ei):
                return 'C09 after %s: object %d has integral %r, expected %s' % (step, n, quiet(g.integral), float(ei))
        return None
    r = check_all('construction')
    if r:
        return r
    for op in sc['ops']:
        if op[0] == 'add':
            _, i, j = op
            quiet(objs[int(i)].add, objs[int(j)])
            if int(i) != int(j):
                for k, w in combo[int(j)].items():
                    combo[int(i)][k] = combo[int(i)].get(k, Fr(0)) + w
            else:
                combo[int(i)] = {k: 2 * w for k, w in combo[int(i)].items()}
        elif op[0] == 'mul':
            _, i, c = op
            quiet(objs[int(i)].mul_scalar, float(c))
            combo[int(i)] = {k: w * Fr(c) for k, w in combo[int(i)].items()}
        elif op[0] == 'avg':
            from pyspike.DiscreteFunc import average_profile
            ids = [int(i) for i in op[1:]]
            objs.append(quiet(average_profile, [objs[i] for i in ids]))
            c = {}
            for i in ids:
                for k, w in combo[i].items():
                    c[k] = c.get(k, Fr(0)) + w / len(ids)
            combo.append(c)
        else:
            _, i = op
            objs.append(quiet(objs[int(i)].copy))
            combo.append(dict(combo[int(i)]))
            # "copies are independent of their originals": no shared memory (a write into the arrays of one must
            # not reach the other; the library's own operations all re-bind fresh arrays, so only this shows it)
            o_, c_ = objs[int(i)], objs[-1]
            for nm in ('x', 'y', 'y1', 'y2', 'mp'):
                if hasattr(o_, nm) and np.shares_memory(getattr(o_, nm), getattr(c_, nm)):
                    return 'C09 after %s: the copy shares the memory of array `%s` with its original' % (op, nm)
        r = check_all('%s' % (op,))
        if r:
            return r
    return None


def o_C10(sc):
    """sc: {'kind', 'func': arrays, 'intervals': [(a,b)…], 'times': […]}"""
    kind = sc['kind']
    f = tuple(_F(a) for a in sc['func'])
    g = mk_func(kind, f)
    x = f[0]
    full = integral_exact(kind, f, x[0], x[-1])
    if not feq(quiet(g.integral), full):
        return 'C10 integral() = %r, exact %s' % (quiet(g.integral), float(full))
    if not feq(quiet(g.integral, (float(x[0]), float(x[-1]))), full):
        return 'C10 integral over the full support differs from integral()'
    if not feq(quiet(g.avrg), full / (x[-1] - x[0])):
        return 'C10 avrg() is not integral/length'
    tot, ln = Fr(0), Fr(0)
    for a, b in sc.get('intervals', []):
        a, b = Fr(a), Fr(b)
        e = integral_exact(kind, f, a, b)
        v = quiet(g.integral, (float(a), float(b)))
        if not feq(v, e):
            return 'C10 integral over [%s,%s] = %r, exact %s' % (a, b, v, float(e))
        if not feq(quiet(g.avrg, (float(a), float(b))), e / (b - a)):
            return 'C10 avrg over [%s,%s] is not integral/length' % (a, b)
        for c in sc.get('times', []):
            c = Fr(c)
            if a < c < b:
                v2 = quiet(g.integral, (float(a), float(c))) + quiet(g.integral, (float(c), float(b)))
                if not feq(v2, e):
                    return 'C10 integrals over [%s,%s] and [%s,%s] do not add up to [%s,%s]' % (a, c, c, b, a, b)
        tot += e; ln += b - a
    ivl = [(float(a), float(b)) for a, b in sc.get('intervals', [])]
    if len(ivl) >= 2:
        if not feq(quiet(g.avrg, ivl), tot / ln):
            return 'C10 avrg over a list of intervals is not summed integrals / summed lengths'
    ev = (lambda t, s: pwc_eval_exact(f[0], f[1], t, s)) if kind == 'pwc' else (lambda t, s: pwl_eval_exact(f[0], f[1], f[2], t, s))
    ts_ = [Fr(t) for t in sc.get('times', [])]
    exp = []
    for t in ts_:
        if t == x[0]:
            exp.append(ev(t, +1))
        elif t == x[-1]:
            exp.append(ev(t, -1))
        elif t in x:
            exp.append((ev(t, +1) + ev(t, -1)) / 2)
        else:
            exp.append(ev(t, +1))
    for t, e in zip(ts_, exp):
        if not feq(quiet(g, float(t)), e):
            return 'C10 value at t=%s is %r, expected %s' % (t, quiet(g, float(t)), float(e))
    if ts_:
        seq = quiet(g, [float(t) for t in ts_])
        if not aeq(seq, [float(e) for e in exp]):
            return 'C10 evaluation of a list of times %s differs from the single-time values %s' % (list(seq), [float(e) for e in exp])
    # a list of times with repeats and in arbitrary order, every interior breakpoint included twice:
    # "identically for a single time and for a list of times"
    bps = [Fr(v) for v in x[1:-1]]
    rep = bps + ts_[:3] + bps[::-1] + ts_[:3]
    if rep:
        def one(t):
            if t == x[0]:
                return ev(t, +1)
            if t == x[-1]:
                return ev(t, -1)
            if t in x:
                return (ev(t, +1) + ev(t, -1)) / 2
            return ev(t, +1)
        seq = quiet(g, [float(t) for t in rep])
        if not aeq(seq, [float(one(t)) for t in rep]):
            return 'C10 evaluation of a list with repeated times %s gives %s, single-time values %s' % (
                [float(t) for t in rep], list(seq), [float(one(t)) for t in rep])
    # the support cut into 3, 4, … consecutive intervals (each starts exactly where the previous ends):
    # summed integrals / summed lengths = the average over the whole support
    cuts = sorted({Fr(x[0]), Fr(x[-1])} | {Fr(t) for t in ts_ if x[0] < t < x[-1]} | set(bps[:2]))
    if len(cuts) >= 4:
        part = [(float(cuts[k]), float(cuts[k + 1])) for k in range(len(cuts) - 1)]
        full_ = integral_exact(kind, f, Fr(x[0]), Fr(x[-1]))
        if not feq(quiet(g.avrg, part), full_ / (x[-1] - x[0])):
            return 'C10 avrg over the support cut into %d consecutive intervals %s is %r, the average over the support is %s' % (
                len(part), part, quiet(g.avrg, part), float(full_ / (x[-1] - x[0])))
        sub = part[1:]
        e_ = integral_exact(kind, f, cuts[1], Fr(x[-1]))
        if len(sub) >= 3 and not feq(quiet(g.avrg, sub), e_ / (x[-1] - cuts[1])):
            return 'C10 avrg over %d consecutive intervals %s is not the average over their union' % (len(sub), sub)
    px, py = quiet(g.get_plottable_data)
    ex, ey = [], []
    for k in range(len(x) - 1):
        ex += [x[k], x[k + 1]]
        ey += [ev(x[k], +1), ev(x[k + 1], -1)]
    if not aeq(px, [float(v) for v in ex], 0) or not aeq(py, [float(v) for v in ey]):
        return 'C10 plottable arrays do not trace the pieces'
    # the same function built from INTEGER-typed breakpoints (Python ints / np.arange), values as before
    if all(Fr(v).denominator == 1 for v in x):
        xi = np.array([int(v) for v in x])
        gi = PieceWiseConstFunc(xi, np.array([float(v) for v in f[1]])) if kind == 'pwc' else \
            PieceWiseLinFunc(xi, np.array([float(v) for v in f[1]]), np.array([float(v) for v in f[2]]))
        qx, qy = quiet(gi.get_plottable_data)
        if not aeq(qx, [float(v) for v in ex], 0) or not aeq(qy, [float(v) for v in ey]):
            return 'C10 a function with integer-typed breakpoints: plottable arrays %s / %s do not trace the pieces %s' % (list(qx), list(qy), [float(v) for v in ey])
        if not feq(quiet(gi.integral), integral_exact(kind, f, Fr(x[0]), Fr(x[-1]))):
            return 'C10 a function with integer-typed breakpoints: integral() differs'
    # the plottable arrays belong to the caller: rescaling them in place (units!) must not touch the function
    before_ = (quiet(g.integral), list(g.x))
    px *= 1000.0; py += 1.0
    if not feq(quiet(g.integral), before_[0]) or list(g.x) != before_[1]:
        return 'C10 modifying the arrays returned by get_plottable_data changes the function itself'
    # the same questions after the object has been rescaled / added to / copied (exactness must
    # not depend on what was asked before)
    for step, c in (('mul_scalar(-2)', Fr(-2)), ('mul_scalar(1/2)', Fr(1, 2))):
        quiet(g.mul_scalar, float(c))
        full = full * c
        if not feq(quiet(g.integral), full) or not feq(quiet(g.avrg), full / (x[-1] - x[0])):
            return 'C10 after %s: integral() = %r, exact %s' % (step, quiet(g.integral), float(full))
        if not feq(quiet(g.integral, (float(x[0]), float(x[-1]))), full):
            return 'C10 after %s: integral over the full support differs from the exact value' % step
        h = quiet(g.copy)
        if not feq(quiet(h.integral), full):
            return 'C10 after %s: integral() of a copy = %r, exact %s' % (step, quiet(h.integral), float(full))
    g2 = mk_func(kind, f)
    quiet(g.add, g2)
    full = full + integral_exact(kind, f, x[0], x[-1])
    if not feq(quiet(g.integral), full) or not feq(quiet(g.avrg), full / (x[-1] - x[0])):
        return 'C10 after add: integral() = %r, exact %s' % (quiet(g.integral), float(full))
    return None


def o_C11(sc):
    """sc: {'funcs': [(x,y,mp)…] discrete profiles on a common interval, 'intervals', 'k'}"""
    init = [tuple(_F(a) for a in f) for f in sc['funcs']]
    objs = [mk_func('disc', f) for f in init]
    acc = quiet(objs[0].copy)
    for g in objs[1:]:
        snap = func_state(g)
        quiet(acc.add, g)
        if func_state(g) != snap:
            return 'C11 the added operand was modified'
    ev = {}
    for f in init:
        for x, y, mp in list(zip(*f))[1:-1]:
            e = ev.setdefault(x, [Fr(0), Fr(0)]); e[0] += y; e[1] += mp
    times = sorted(ev)
    got = list(zip(acc.x, acc.y, acc.mp))
    if [g[0] for g in got[1:-1]] != [float(t) for t in times] or got[0][0] != float(init[0][0][0]) or got[-1][0] != float(init[0][0][-1]):
        return 'C11 event times of the sum %s, expected edges + %s' % ([g[0] for g in got], [float(t) for t in times])
    for (x, y, mp), t in zip(got[1:-1], times):
        if not feq(y, ev[t][0]) or not feq(mp, ev[t][1]):
            return 'C11 entry at %s is (%r,%r), expected (%s,%s)' % (t, y, mp, ev[t][0], ev[t][1])
    v, m = quiet(acc.integral)
    if not feq(v, sum(e[0] for e in ev.values())) or not feq(m, sum(e[1] for e in ev.values())):
        return 'C11 integral() is not the sum over all events'
    tv, tm = Fr(0), Fr(0)
    for a, b in sc.get('intervals', []):
        a, b = Fr(a), Fr(b)
        ins = [t for t in times if a < t < b]
        e_v = sum(ev[t][0] for t in ins); e_m = sum(ev[t][1] for t in ins)
        v, m = quiet(acc.integral, (float(a), float(b)))
        if not feq(v, e_v) or not feq(m, e_m):
            return 'C11 integral over (%s,%s) = (%r,%r), events strictly inside give (%s,%s)' % (a, b, v, m, e_v, e_m)
        av = quiet(acc.avrg, (float(a), float(b)))
        if not feq(av, (e_v / e_m) if e_m > 0 else 1):
            return 'C11 avrg over (%s,%s) = %r' % (a, b, av)
        raw = quiet(acc.avrg, (float(a), float(b)), normalize=False)
        if not feq(raw, e_v):
            return 'C11 avrg(normalize=False) over (%s,%s) = %r, summed values %s' % (a, b, raw, e_v)
        tv += e_v; tm += e_m
    # mul_scalar scales the values of a copy in place (multiplicities, times and the original stay)
    snap = func_state(acc)
    sc_ = quiet(acc.copy)
    quiet(sc_.mul_scalar, 3.0)
    if func_state(acc) != snap:
        return 'C11 scaling a copy changed the original'
    if list(sc_.x) != list(acc.x) or list(sc_.mp) != list(acc.mp) or not aeq(sc_.y, [3.0 * v for v in acc.y]):
        return 'C11 mul_scalar(3) of a copy gives values %s from %s' % (list(sc_.y), list(acc.y))
    v3, m3 = quiet(sc_.integral)
    if not feq(v3, 3 * sum(e[0] for e in ev.values())) or not feq(m3, sum(e[1] for e in ev.values())):
        return 'C11 integral of the scaled copy is not (3*values, multiplicity)'
    ivl = [(float(a), float(b)) for a, b in sc.get('intervals', [])]
    if len(ivl) >= 2:
        v, m = quiet(acc.integral, ivl)
        if not feq(v, tv) or not feq(m, tm):
            return 'C11 integral over a list of intervals does not add up'
    px, py = quiet(acc.get_plottable_data)
    if not aeq(py[1:-1], [float(ev[t][0] / ev[t][1]) for t in times]):
        return 'C11 plottable data are not value/multiplicity'
    for kk in (0, 1):
        qx, qy = quiet(acc.get_plottable_data, kk)
        if any(np.shares_memory(a_, getattr(acc, nm)) for a_ in (qx, qy) for nm in ('x', 'y', 'mp')):
            return 'C11 get_plottable_data(%d) hands out the profile\'s own arrays (rescaling the plot data in place would change the profile)' % kk
    k = int(sc.get('k', 0))
    if k > 0 and all(e[1].denominator == 1 for e in ev.values()) and len(got) > 2:
        # unit expansion: each entry contributes mp unit items of value y/mp
        ents = [(Fr(y), Fr(mp)) for _, y, mp in got]
        if all(mp.denominator == 1 and mp > 0 for _, mp in ents):
            E = (k + 1) * int(ents[0][1])
            px, py = quiet(acc.get_plottable_data, k)
            for i, (y, mp) in enumerate(ents):
                if mp >= E:
                    e = y / mp
                else:
                    need = E - mp
                    def side(seq):
                        tot, cnt = Fr(0), Fr(0)
                        for yy, mm in seq:
                            take = min(mm, need - cnt)
                            tot += yy / mm * take; cnt += take
                            if cnt >= need:
                                break
                        return tot, cnt
                    r, rc = side(ents[i + 1:])
                    l, lc = side(ents[:i][::-1])
                    e = (y + r + l) / (mp + rc + lc)
                if not feq(py[i], e):
                    return 'C11 smoothed value %d with window %d is %r, unit-expansion mean %s' % (i, k, py[i], float(e))
    return None


ORACLES.update({'C09': o_C09, 'C10': o_C10, 'C11': o_C11})


def _wrap(f):
    def g(sc):
        global _CUR
        fi = _forms(sc).get('idx')
        if fi and sc.get('indices') is not None:
            sc = dict(sc)
            sc['indices'] = tuple(sc['indices']) if fi == 'tuple' else np.array(sc['indices']) if fi == 'array' else list(sc['indices'])
        _CUR = sc
        try:
            return f(sc)
        finally:
            _CUR = None
    g.__name__ = f.__name__
    return g


ORACLES = {k_: _wrap(v_) for k_, v_ in ORACLES.items()}
