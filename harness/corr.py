"""harness/corr.py — the correspondence check: run the Lean model and the implementation on the
same cases and report where they differ."""
import time, hashlib, math
from fractions import Fraction as Fr
from .core import line_of, run_model, parse_out, compare, brief, Stats
from . import adapters


BI_AUTO = {'isi_profile_bi', 'isi_distance_bi', 'spike_profile_bi', 'spike_distance_bi', 'sync_profile_bi',
           'spike_sync_bi', 'order_profile_bi', 'order_bi', 'dir_bi'}
API_AUTO = BI_AUTO | {'isi_profile_multi', 'isi_distance_multi', 'isi_distance_matrix', 'spike_profile_multi',
                      'spike_distance_multi', 'spike_distance_matrix', 'sync_profile_multi', 'spike_sync_multi',
                      'spike_sync_matrix', 'order_profile_multi', 'order_multi', 'dir_values', 'dir_matrix',
                      'filter_by_sync'}


def is_auto(op, f):
    return op in API_AUTO and len(f) > 2 and len(f[0]) >= 7 and f[0][0] == -1


def auto_kw(p):
    return [Fr(0)] + list(p[1:7])


class Disagreement:
    def __init__(self, suite, op, fields, line, model, real, why):
        self.suite, self.op, self.fields, self.line = suite, op, fields, line
        self.model, self.real, self.why = model, real, why

    def as_dict(self):
        return {'suite': self.suite, 'op': self.op, 'request': self.line, 'impl_request': line_of(self.op, self.fields),
                'model': brief(self.model, 2000), 'implementation': brief(self.real, 2000), 'difference': self.why}


def run_cases(suite, cases, stats=None, max_dis=25, runner=None):
    """cases: iterable of (op, fields, tags). Returns dict(evaluated, distinct, disagreements, skipped)"""
    runner = runner or adapters.run_real
    cases = list(cases)
    # MRTS='auto' (encoded as mrts = -1 in the keyword field of API ops): the model states which
    # trains are pooled (`auto_thresh_sq`), the square root is taken here, and the model op is run
    # with that threshold passed explicitly; the implementation is called with MRTS='auto'.
    auto_ix = [k for k, (op, f, _) in enumerate(cases) if is_auto(op, f)]
    model_fields = {}
    if auto_ix:
        qs = []
        for k in auto_ix:
            op, f, _ = cases[k]
            qs.append(line_of('auto_thresh_sq', [auto_kw(f[0])] + [[0] if op in BI_AUTO else f[1]] + list(f[2:])))
        for k, a in zip(auto_ix, run_model(qs)):
            sq = parse_out(a)
            thr = Fr(math.sqrt(float(sq[0][0]))) if not isinstance(sq, str) else Fr(0)
            op, f, _ = cases[k]
            model_fields[k] = [[thr] + list(f[0][1:])] + list(f[1:])
    lines = [line_of(op, model_fields.get(k, f)) for k, (op, f, _) in enumerate(cases)]
    answers = run_model(lines)
    dis = []
    seen = set()
    nontrivial = 0
    skipped = None
    n = 0
    for (op, f, tags), line, ans in zip(cases, lines, answers):
        h = hashlib.blake2b(line.encode(), digest_size=8).digest()
        fresh = h not in seen
        seen.add(h)
        m = parse_out(ans)
        try:
            r = runner(op, f)
        except adapters.Missing as ex:
            skipped = 'internal symbol not found: %s' % ex
            break
        except adapters.Mutated as ex:
            dis.append(Disagreement(suite, op, f, line, m, 'input-modified', str(ex)))
            continue
        n += 1
        if stats is not None:
            stats.add(op, tags)
            stats.sample(op, line, ans)
        if fresh and 'identical' not in tags and not ('empty-train' in tags and 'one-spike' not in tags and len(tags) == 1):
            nontrivial += 1
        if m == 'bad-op':
            dis.append(Disagreement(suite, op, f, line, m, r, 'model driver rejected the request'))
            continue
        why = compare(m, r, adapters.exact_fields(op, len(m) if not isinstance(m, str) else 0))
        if why is not None:
            dis.append(Disagreement(suite, op, f, line, m, r, why))
            if len(dis) >= max_dis:
                break
    return {'suite': suite, 'evaluated': n, 'distinct_nontrivial': nontrivial, 'disagreements': dis, 'skipped': skipped}
