"""harness/corr.py — the correspondence check: run the Lean model and the implementation on the
same cases and report where they differ."""
import time, hashlib
from .core import line_of, run_model, parse_out, compare, brief, Stats
from . import adapters


class Disagreement:
    def __init__(self, suite, op, fields, line, model, real, why):
        self.suite, self.op, self.fields, self.line = suite, op, fields, line
        self.model, self.real, self.why = model, real, why

    def as_dict(self):
        return {'suite': self.suite, 'op': self.op, 'request': self.line,
                'model': brief(self.model, 2000), 'implementation': brief(self.real, 2000), 'difference': self.why}


def run_cases(suite, cases, stats=None, max_dis=25, runner=None):
    """cases: iterable of (op, fields, tags). Returns dict(evaluated, distinct, disagreements, skipped)"""
    runner = runner or adapters.run_real
    cases = list(cases)
    lines = [line_of(op, f) for op, f, _ in cases]
    answers = run_model(lines)
    dis = []
    seen = set()
    nontrivial = 0
    skipped = None
    n = 0
    for (op, f, tags), line, ans in zip(cases, lines, answers):
        h = hashlib.blake2b(line.encode(), digest_size=8).digest()
        fresh = h not in seen
        seen.add(h)
        m = parse_out(ans)
        try:
            r = runner(op, f)
        except adapters.Missing as ex:
            skipped = 'internal symbol not found: %s' % ex
            break
        except adapters.Mutated as ex:
            dis.append(Disagreement(suite, op, f, line, m, 'input-modified', str(ex)))
            continue
        n += 1
        if stats is not None:
            stats.add(op, tags)
            stats.sample(op, line, ans)
        if fresh and 'identical' not in tags and not ('empty-train' in tags and 'one-spike' not in tags and len(tags) == 1):
            nontrivial += 1
        if m == 'bad-op':
            dis.append(Disagreement(suite, op, f, line, m, r, 'model driver rejected the request'))
            continue
        why = compare(m, r, adapters.exact_fields(op, len(m) if not isinstance(m, str) else 0))
        if why is not None:
            dis.append(Disagreement(suite, op, f, line, m, r, why))
            if len(dis) >= max_dis:
                break
    return {'suite': suite, 'evaluated': n, 'distinct_nontrivial': nontrivial, 'disagreements': dis, 'skipped': skipped}
