"""harness/extra.py — property-specific additions registered into run.EXTRA / KNOWN_EXTRA / PROP_TRUST."""
import sys, math
import numpy as np
from fractions import Fraction as Fr
from . import run, gens, corr, adapters, pyxrun, pyx2py
from .suites import S

PYX_TRUST = [
    'the .pyx sources are never compiled here (no Cython in the sandbox): they are transliterated on every run by harness/pyx2py.py (typed memoryviews → bounds-checked views, `/` → IEEE division, libc fabs/fmax/fmin, nogil/cdef stripped); trusted: that this preserves the meaning of the Cython subset used',
]

MODEL_OP = {'pyx_isi_profile': 'isi_profile', 'pyx_isi_dist': 'isi_dist_k', 'pyx_spike_profile': 'spike_profile',
            'pyx_spike_dist': 'spike_dist_k', 'pyx_coinc_value': 'coinc_value_k', 'pyx_order_value': 'order_value_k',
            'pyx_dir_value': 'dir_value_k'}
TO_PYX = {'isi_profile': ['pyx_isi_profile', 'pyx_isi_dist'], 'spike_profile': ['pyx_spike_profile', 'pyx_spike_dist'],
          'coinc_profile': ['coinc_profile', 'pyx_coinc_value'], 'order_profile': ['order_profile', 'pyx_order_value'],
          'coinc_single': ['coinc_single'], 'dir_profile': ['dir_profile', 'pyx_dir_value'],
          'get_tau': ['get_tau'], 'add_pwc': ['add_pwc'], 'add_pwl': ['add_pwl'], 'add_disc': ['add_disc']}


def pyx_runner(op, f):
    return pyxrun.kernel(MODEL_OP.get(op, op), f)


def is_f12(op, f):
    """both trains consist of a single spike located on t_end (single-pass distance routines)"""
    if op not in ('pyx_isi_dist', 'pyx_spike_dist', 'isi_dist_k', 'spike_dist_k'):
        return False
    s1, s2, p = f
    return len(s1) == 1 and len(s2) == 1 and s1[0] == p[1] and s2[0] == p[1]


def is_f10(op, f):
    """two empty trains (spike_train_order_cython returns (1,1), the profile integral is (0,0))"""
    return op in ('order_value_k',) and len(f[0]) == 0 and len(f[1]) == 0


def pyx_cases(tier, rng):
    for op in ('isi_profile', 'spike_profile', 'coinc_profile', 'order_profile', 'coinc_single', 'dir_profile'):
        base = list(gens.kernel_grid(op, S(tier, 3, 4))) + list(gens.kernel_random(op, rng, S(tier, 600, 6000)))
        if op in ('coinc_profile', 'order_profile', 'coinc_single', 'dir_profile'):
            base += [c for c in gens.tau_tie_cases(rng, S(tier, 40, 400)) if c[0] == op]
        for o, f, tg in base:
            for po in TO_PYX[op]:
                yield po, f, tg
    for o, f, tg in gens.get_tau_cases(rng, S(tier, 1500, 15000)):
        yield o, f, tg
    for o, f, tg in gens.add_cases(rng, S(tier, 4, 6)):
        yield o, f, tg


def twin_equal(a, b):
    if isinstance(a, str) or isinstance(b, str):
        return a == b
    if len(a) != len(b):
        return False
    for x, y in zip(a, b):
        if len(x) != len(y):
            return False
        if not np.allclose(np.asarray(x, dtype=float), np.asarray(y, dtype=float), rtol=1e-12, atol=1e-12):
            return False
    return True


def c12_extra(tier, rng, stats):
    """(1) every transliterated .pyx routine against its Lean model, (2) against its .py twin"""
    out = {'suites': [], 'evaluated': 0, 'nontrivial': 0, 'disagreements': [], 'violations': [], 'notes': []}
    try:
        pyxrun.mods()
    except pyx2py.Untranslatable as ex:
        out['disagreements'].append({'suite': 'pyx-translate', 'op': '-', 'request': '-', 'model': '-', 'implementation': '-',
                                     'difference': 'a .pyx source uses a construct outside the transliterated subset: %s' % ex})
        return out
    cases = list(pyx_cases(tier, rng))
    r = corr.run_cases('pyx-vs-model', cases, stats, runner=pyx_runner, max_dis=200)
    known = {'F12': 0, 'F10': 0}
    dis = []
    for d in r['disagreements']:
        if is_f12(d.op, d.fields) and 'nan' in str(d.real).lower():
            known['F12'] += 1
        else:
            dis.append(d.as_dict())
    out['suites'].append({'suite': 'pyx-vs-model', 'evaluated': r['evaluated'], 'disagreements': len(dis), 'skipped': r['skipped'], 'known_class_hits': dict(known)})
    out['evaluated'] += r['evaluated']; out['nontrivial'] += r['distinct_nontrivial']
    out['disagreements'] += dis
    # twins, directly
    n = 0; bad = []
    for op, f, tg in cases:
        kop = MODEL_OP.get(op, op)
        a = pyxrun.kernel(kop, f)
        b = pyxrun.py_twin(kop, f)
        n += 1
        if not twin_equal(a, b):
            if is_f12(kop, f):
                known['F12'] += 1
            elif is_f10(kop, f):
                known['F10'] += 1
            else:
                bad.append({'suite': 'pyx-vs-py', 'op': kop, 'request': corr.line_of(kop, f), 'model': 'py twin: %r' % (b,), 'implementation': 'pyx: %r' % (a,),
                            'difference': 'the Cython routine and its pure-Python twin differ'})
                if len(bad) >= 10:
                    break
    out['suites'].append({'suite': 'pyx-vs-py', 'evaluated': n, 'disagreements': len(bad), 'skipped': None, 'known_class_hits': dict(known)})
    out['evaluated'] += n
    for b in bad:
        # a concrete input on which the two backends differ IS a failing input for C12
        out['violations'].append(('__direct__', b))
    out['disagreements'] += bad
    # (3) the public API with the transliterated modules importable (compiled branches of the API
    #     layer: single-pass distances, coincidence_value, spike_train_order_cython, …) against the model
    api_cases = list(gens.api_cases(rng, S(tier, 120, 1500), with_idx=True, with_iv=True)) + \
        list(gens.filter_cases(rng, S(tier, 60, 600)))
    with pyxrun.pyx_backend():
        r3 = corr.run_cases('api-compiled-config', api_cases, stats, max_dis=200)
    dis3 = []
    for d in r3['disagreements']:
        tf = d.fields[2:]
        on_end = sum(1 for t in tf if len(t) == 3 and t[2] == t[1])
        empties = sum(1 for t in tf if len(t) == 2)
        if on_end >= 2 and 'nan' in str(d.real).lower():
            known['F12'] += 1
        elif empties >= 2 and d.op in ('order_multi', 'order_bi'):
            known['F10'] += 1
        else:
            dis3.append(d.as_dict())
    out['suites'].append({'suite': 'api-compiled-config', 'evaluated': r3['evaluated'], 'disagreements': len(dis3), 'skipped': r3['skipped']})
    out['evaluated'] += r3['evaluated']; out['nontrivial'] += r3['distinct_nontrivial']
    out['disagreements'] += dis3
    out['notes'].append('known-class hits (excluded from the comparison): %r' % known)
    return out


run.EXTRA['C12'] = c12_extra
for p in ('C12', 'C05', 'C07', 'C13', 'C14', 'C18'):
    run.PROP_TRUST[p] = PYX_TRUST


def r_F10():
    a = pyxrun.kernel('order_value_k', [[], [], [Fr(0), Fr(4), Fr(0), Fr(0)]])
    b = pyxrun.py_twin('order_value_k', [[], [], [Fr(0), Fr(4), Fr(0), Fr(0)]])
    return a != b, {'spike_train_order_cython(∅,∅)': a, 'integral of the Python order profile': b}


def r_F12():
    f = [[Fr(4)], [Fr(4)], [Fr(0), Fr(4), Fr(0)]]
    a = pyxrun.kernel('isi_dist_k', f)
    return (not isinstance(a, str)) and math.isnan(a[0][0]), {'isi_distance_cython([4],[4]) on [0,4]': a}


run.KNOWN_EXTRA['C12'] = lambda: {('F10', 'C12'): r_F10, ('F12', 'C12'): r_F12}


def r_F12_api():
    from .adapters import spk, SpikeTrain
    with pyxrun.pyx_backend():
        import numpy as _np
        with _np.errstate(all='ignore'):
            v = spk.isi_distance(SpikeTrain([4.0], [0, 4.0]), SpikeTrain([4.0], [0, 4.0]))
    return math.isnan(v), {'isi_distance([4],[4]) compiled-kernel configuration': v}


def r_F10_api():
    from .adapters import spk, SpikeTrain
    from . import oracles as O
    A = SpikeTrain([1.0, 2.0, 3.0], [0, 4.0]); B = SpikeTrain([1.1, 2.1, 3.1], [0, 4.0])
    E1 = SpikeTrain([], [0, 4.0]); E2 = SpikeTrain([], [0, 4.0])
    with pyxrun.pyx_backend():
        v = O.quiet(spk.spike_train_order, [A, B, E1, E2])
        e = O.quiet(spk.spike_train_order_profile, [A, B, E1, E2]).avrg()
    return not O.feq(v, e), {'spike_train_order': v, 'profile average': e}


for _p in ('C05', 'C07', 'C18', 'C13', 'C14'):
    run.KNOWN_EXTRA[_p] = (lambda p=_p: dict([(('F12', p), r_F12_api)] + ([(('F10', 'C05'), r_F10_api)] if p == 'C05' else [])))
