"""harness/extra.py — property-specific additions registered into run.EXTRA / KNOWN_EXTRA / PROP_TRUST."""
from . import run
