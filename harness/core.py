"""harness/core.py — shared plumbing: rational formatting, the Lean model driver, comparison.

A *case* is (op, fields) with fields = list of lists of Fractions. The same line is sent to the
Lean driver (`lean/.lake/build/bin/pyspike_model`) and to the adapter that calls the real code.
"""
import os, subprocess, sys, math, time, json, random
from fractions import Fraction as Fr

VERIF = os.path.dirname(os.path.dirname(os.path.abspath(__file__)))
REPO = os.environ.get('PYSPIKE_REPO', '/repo')
MODEL_EXE = os.path.join(VERIF, 'lean', '.lake', 'build', 'bin', 'pyspike_model')
BUILD = os.path.join(VERIF, 'build')


def fq(x):
    """exact rational of a python number (floats are dyadic rationals)"""
    if isinstance(x, Fr):
        return x
    if isinstance(x, bool):
        return Fr(int(x))
    if isinstance(x, int):
        return Fr(x)
    return Fr(float(x))


def show_q(q):
    q = fq(q)
    return str(q.numerator) if q.denominator == 1 else '%d/%d' % (q.numerator, q.denominator)


def line_of(op, fields):
    return op + ' | ' + ' | '.join(' '.join(show_q(v) for v in f) for f in fields)


def parse_out(s):
    """model answer → 'reject' | 'bad-op' | list of fields (lists of Fractions);
    answers with '||' (two groups) are returned as a flat list with a None separator"""
    s = s.strip()
    if s in ('reject', 'bad-op'):
        return s
    out = []
    groups = s.split('||')
    for gi, g in enumerate(groups):
        if gi > 0:
            out.append(None)
        for f in g.split('|'):
            toks = f.split()
            out.append([Fr(t) for t in toks])
    return out


def run_model(lines):
    """send all lines to the Lean driver, return the list of raw answers"""
    if not lines:
        return []
    data = '\n'.join(lines) + '\n'
    p = subprocess.run([MODEL_EXE], input=data.encode(), stdout=subprocess.PIPE, stderr=subprocess.PIPE)
    if p.returncode != 0:
        raise RuntimeError('model driver failed: ' + p.stderr.decode()[:500])
    out = p.stdout.decode().split('\n')
    if out and out[-1] == '':
        out = out[:-1]
    if len(out) != len(lines):
        raise RuntimeError('model driver returned %d answers for %d requests' % (len(out), len(lines)))
    return out


REL_TOL = 1e-11


def close(model_v, real_v, tol=REL_TOL):
    """model rational vs implementation float"""
    try:
        r = float(real_v)
    except Exception:
        return False
    if math.isnan(r) or math.isinf(r):
        return False
    m = float(model_v)
    return abs(m - r) <= tol * max(1.0, abs(m), abs(r))


def compare(model_out, real_out, exact_fields=()):
    """model_out from parse_out; real_out: 'reject' or list of fields of floats (None separator kept).
    Returns None when they agree, else a short description."""
    if isinstance(model_out, str) or isinstance(real_out, str):
        if model_out == real_out:
            return None
        return 'model=%s impl=%s' % (brief(model_out), brief(real_out))
    if len(model_out) != len(real_out):
        return 'field count model=%d impl=%d' % (len(model_out), len(real_out))
    for k, (mf, rf) in enumerate(zip(model_out, real_out)):
        if mf is None or rf is None:
            if mf is not rf:
                return 'group separator mismatch'
            continue
        if len(mf) != len(rf):
            return 'field %d length model=%d impl=%d' % (k, len(mf), len(rf))
        for i, (a, b) in enumerate(zip(mf, rf)):
            if exact_fields == 'float-exact':
                # decimal text round trip: the loaded double must be the double nearest to the
                # model's decimal value
                ok = float(a) == float(b)
            elif k in exact_fields:
                ok = (isinstance(b, Fr) and a == b) or (not isinstance(b, Fr) and math.isfinite(float(b)) and Fr(float(b)) == a)
            else:
                ok = (a == b) if isinstance(b, Fr) else close(a, b)
            if not ok:
                return 'field %d[%d] model=%s impl=%r' % (k, i, show_q(a), b)
    return None


def brief(o, n=400):
    if isinstance(o, str):
        return o
    s = ' | '.join('||' if f is None else ' '.join(show_q(v) if isinstance(v, Fr) else repr(float(v)) for v in f) for f in o)
    return s if len(s) <= n else s[:n] + '…'


class Stats:
    def __init__(self):
        self.counts = {}
        self.tags = {}
        self.samples = {}

    def add(self, op, tags=()):
        self.counts[op] = self.counts.get(op, 0) + 1
        for t in tags:
            self.tags[t] = self.tags.get(t, 0) + 1

    def sample(self, op, line, ans):
        l = self.samples.setdefault(op, [])
        if len(l) < 2:
            l.append({'request': line if len(line) < 300 else line[:300] + '…',
                      'model_answer': ans if len(ans) < 300 else ans[:300] + '…'})
