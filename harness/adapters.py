"""harness/adapters.py — call the real PySpike code for one case and canonicalise the answer.

Float regime: inputs are dyadic rationals converted exactly to doubles; outputs are lists of
floats. Every argument object is snapshotted before the call and compared afterwards
(non-mutation monitor); an exception on a case the model accepts is a disagreement.
"""
import sys, io, contextlib, warnings, math, copy
import numpy as np
from fractions import Fraction as Fr
from .core import REPO

if REPO not in sys.path:
    sys.path.insert(0, REPO)
warnings.simplefilter('ignore')
import pyspike as spk
from pyspike import SpikeTrain, PieceWiseConstFunc, PieceWiseLinFunc, DiscreteFunc
spk.disable_backend_warning = True

REJECT = (AssertionError, ValueError, IndexError, NotImplementedError, ZeroDivisionError, TypeError)


class Mutated(Exception):
    pass


def fl(f):
    return [float(v) for v in f]


def arr(f):
    return np.array([float(v) for v in f], dtype=float)


def backend(name, mod='python_backend'):
    """internal kernel by name; None when the symbol does not exist (refactored away)"""
    try:
        m = __import__('pyspike.cython.' + mod, fromlist=[name])
        return getattr(m, name, None)
    except Exception:
        return None


def _snap(objs):
    out = []
    for o in objs:
        if isinstance(o, np.ndarray):
            out.append(o.copy())
        elif isinstance(o, SpikeTrain):
            out.append((np.array(o.spikes, dtype=float).copy(), o.t_start, o.t_end, type(o.spikes).__name__))
        elif isinstance(o, (PieceWiseConstFunc,)):
            out.append((o.x.copy(), o.y.copy()))
        elif isinstance(o, PieceWiseLinFunc):
            out.append((o.x.copy(), o.y1.copy(), o.y2.copy()))
        elif isinstance(o, DiscreteFunc):
            out.append((o.x.copy(), o.y.copy(), o.mp.copy()))
        else:
            out.append(copy.deepcopy(o))
    return out


def _same(a, b):
    if isinstance(a, np.ndarray):
        return isinstance(b, np.ndarray) and a.shape == b.shape and np.array_equal(a, b, equal_nan=True)
    if isinstance(a, tuple):
        return len(a) == len(b) and all(_same(x, y) for x, y in zip(a, b))
    return a == b


def guarded(fn, inputs):
    """run fn() with stdout silenced; check that `inputs` are unchanged afterwards"""
    before = _snap(inputs)
    with contextlib.redirect_stdout(io.StringIO()), np.errstate(all='ignore'):
        res = fn()
    after = _snap(inputs)
    for x, y in zip(before, after):
        if not _same(x, y):
            raise Mutated('an input object was modified by the call')
    return res


def mk_trains(fields):
    return [SpikeTrain(arr(f[2:]), [float(f[0]), float(f[1])]) for f in fields]


def kw_of(p):
    mrts, ri, mt, rc, ivf, a, b = p[:7]
    kw = {}
    if mrts == -1:
        kw['MRTS'] = 'auto'
    elif mrts != 0:
        kw['MRTS'] = float(mrts)
    if ri != 0:
        kw['RI'] = True
    if rc == 0:
        kw['Reconcile'] = False
    interval = (float(a), float(b)) if ivf != 0 else None
    max_tau = float(mt) if mt != 0 else None
    return kw, interval, max_tau


def idx_of(ix):
    if not ix or ix[0] == 0:
        return None
    return [int(v) for v in ix[1:]]


def trains_out(L):
    return [[t.t_start, t.t_end] + list(np.asarray(t.spikes, dtype=float)) for t in L]


def pw_out(f):
    if isinstance(f, PieceWiseConstFunc):
        return [list(f.x), list(f.y)]
    if isinstance(f, PieceWiseLinFunc):
        return [list(f.x), list(f.y1), list(f.y2)]
    return [list(f.x), list(f.y), list(f.mp)]


def ivs(f):
    return [(float(f[i]), float(f[i + 1])) for i in range(0, len(f) - 1, 2)]


class Missing(Exception):
    """an internal symbol the adapter needs is not there (suite is skipped, not alarmed)"""


def need(name, mod='python_backend'):
    f = backend(name, mod)
    if f is None:
        raise Missing(mod + '.' + name)
    return f


def run_real(op, f):
    """returns 'reject' or a list of fields (lists of floats); raises Missing / Mutated"""
    try:
        return _run(op, f)
    except Missing:
        raise
    except Mutated:
        raise
    except REJECT as ex:
        return 'reject'


def _run(op, f):
    # ---------------- kernels (internal names; float arrays) ----------------
    if op == 'isi_profile':
        s1, s2 = arr(f[0]), arr(f[1]); ts, te, m = fl(f[2])
        k = need('isi_distance_python')
        x, y = guarded(lambda: k(s1, s2, ts, te, m), [s1, s2])
        return [list(x), list(y)]
    if op == 'spike_profile':
        s1, s2 = arr(f[0]), arr(f[1]); ts, te, m, ri = fl(f[2])
        k = need('spike_distance_python')
        x, y1, y2 = guarded(lambda: k(s1, s2, ts, te, m, bool(ri)), [s1, s2])
        return [list(x), list(y1), list(y2)]
    if op == 'get_tau':
        s1, s2 = arr(f[0]), arr(f[1]); i, j, mt, m = f[2]
        k = need('get_tau')
        return [[guarded(lambda: k(s1, s2, int(i), int(j), float(mt), float(m)), [s1, s2])]]
    if op in ('coinc_profile', 'order_profile', 'coinc_single', 'dir_profile'):
        s1, s2 = arr(f[0]), arr(f[1]); ts, te, mt, m = fl(f[2])
        if op == 'coinc_profile':
            k = need('coincidence_python')
        elif op == 'coinc_single':
            k = need('coincidence_single_python')
        elif op == 'order_profile':
            k = need('spike_train_order_profile_python', 'directionality_python_backend')
        else:
            k = need('spike_directionality_profile_python', 'directionality_python_backend')
        r = guarded(lambda: k(s1, s2, ts, te, mt, m), [s1, s2])
        if op == 'coinc_single':
            return [list(r)]
        return [list(a) for a in r]
    if op == 'add_pwc':
        a = [arr(v) for v in f]
        k = need('add_piece_wise_const_python')
        return [list(v) for v in guarded(lambda: k(*a), a)]
    if op == 'add_pwl':
        a = [arr(v) for v in f]
        k = need('add_piece_wise_lin_python')
        return [list(v) for v in guarded(lambda: k(*a), a)]
    if op == 'add_disc':
        a = [arr(v) for v in f]
        k = need('add_discrete_function_python')
        return [list(v) for v in guarded(lambda: k(*a), a)]
    # ---------------- function classes (public) ----------------
    if op in ('avg_pwc', 'avg_pwl'):
        from pyspike.DiscreteFunc import average_profile
        if op == 'avg_pwc':
            fs = [PieceWiseConstFunc(arr(f[k]), arr(f[k + 1])) for k in range(0, len(f) - 1, 2)]
        else:
            fs = [PieceWiseLinFunc(arr(f[k]), arr(f[k + 1]), arr(f[k + 2])) for k in range(0, len(f) - 2, 3)]
        try:
            r = guarded(lambda: average_profile(fs), fs)
        except AssertionError:
            return 'reject'
        return [list(r.x), list(r.y)] if op == 'avg_pwc' else [list(r.x), list(r.y1), list(r.y2)]
    if op in ('mul_pwc', 'mul_pwl', 'mul_disc'):
        c = float(f[-1][0])
        if op == 'mul_pwc':
            g = PieceWiseConstFunc(arr(f[0]), arr(f[1]))
        elif op == 'mul_pwl':
            g = PieceWiseLinFunc(arr(f[0]), arr(f[1]), arr(f[2]))
        else:
            g = DiscreteFunc(arr(f[0]), arr(f[1]), arr(f[2]))
        h = g.copy()
        with contextlib.redirect_stdout(io.StringIO()):
            ret = h.mul_scalar(c)
        if ret is not None:
            raise Mutated('mul_scalar returned %r instead of None' % (ret,))
        if not _same(_snap([g])[0], _snap([g.copy()])[0]):
            raise Mutated('copy() is not equal to its original')
        # the copy was scaled, the original must be untouched (copy() is deep)
        ref = (PieceWiseConstFunc(arr(f[0]), arr(f[1])) if op == 'mul_pwc' else
               PieceWiseLinFunc(arr(f[0]), arr(f[1]), arr(f[2])) if op == 'mul_pwl' else DiscreteFunc(arr(f[0]), arr(f[1]), arr(f[2])))
        if not _same(_snap([g])[0], _snap([ref])[0]):
            raise Mutated('scaling a copy changed the original')
        if op == 'mul_pwc':
            return [list(h.x), list(h.y)]
        if op == 'mul_pwl':
            return [list(h.x), list(h.y1), list(h.y2)]
        return [list(h.x), list(h.y), list(h.mp)]
    if op.startswith('pwc_'):
        g = PieceWiseConstFunc(arr(f[0]), arr(f[1])); rest = f[2:]
        return _func_op(op[4:], g, rest)
    if op.startswith('pwl_'):
        g = PieceWiseLinFunc(arr(f[0]), arr(f[1]), arr(f[2])); rest = f[3:]
        return _func_op(op[4:], g, rest)
    if op.startswith('disc_'):
        g = DiscreteFunc(arr(f[0]), arr(f[1]), arr(f[2])); rest = f[3:]
        return _disc_op(op[5:], g, rest)
    if op == 'round_sci':
        p = int(f[0][0])
        return [[float(('{0:.%de}' % p).format(float(v))) for v in f[1]]]
    if op == 'save_load':
        import os
        from .core import BUILD
        os.makedirs(BUILD, exist_ok=True)
        path = os.path.join(BUILD, 'sl_%d.txt' % os.getpid())
        p, ign, ncom = int(f[0][0]), bool(f[0][1]), int(f[0][2])
        trains = [SpikeTrain(arr(t), [0.0, 1e9]) for t in f[1:]]
        seps = [' ', ',', ';', '\t', ', ']
        sep = seps[(p + len(trains)) % len(seps)]
        com = ['#', '%', '//'][(p + ncom) % 3]
        try:
            spk.save_spike_trains_to_txt(trains, path, separator=sep, precision=p)
            if ncom:
                lines = open(path).read().split('\n')[:-1]
                out = [com + ' c']
                for l in lines:
                    out += [l, com + 'x']
                open(path, 'w').write('\n'.join(out) + '\n')
            r = spk.load_spike_trains_from_txt(path, [0.0, 1e9], separator=sep, comment=com, ignore_empty_lines=ign)
        finally:
            if os.path.exists(path):
                os.remove(path)
        return [[float(len(r))]] + [list(t.spikes) for t in r]
    return _run_api(op, f)


def _func_op(name, g, rest):
    if name == 'integral_all':
        return [[guarded(lambda: g.integral(), [g])]]
    if name == 'integral':
        a, b = fl(rest[0])
        return [[guarded(lambda: g.integral((a, b)), [g])]]
    if name == 'avrg_all':
        return [[guarded(lambda: g.avrg(), [g])]]
    if name == 'avrg':
        a, b = fl(rest[0])
        return [[guarded(lambda: g.avrg((a, b)), [g])]]
    if name == 'avrg_list':
        iv = ivs(rest[0])
        return [[guarded(lambda: g.avrg(iv), [g])]]
    if name == 'call':
        return [[guarded(lambda t=t: g(t), [g]) for t in fl(rest[0])]]
    if name == 'call_seq':
        ts = fl(rest[0])
        return [list(guarded(lambda: g(ts), [g]))]
    if name == 'plot':
        x, y = guarded(lambda: g.get_plottable_data(), [g])
        return [list(x), list(y)]
    raise KeyError(name)


def _disc_op(name, g, rest):
    if name == 'integral_all':
        return [list(guarded(lambda: g.integral(), [g]))]
    if name == 'integral':
        a, b = fl(rest[0])
        return [list(guarded(lambda: g.integral((a, b)), [g]))]
    if name == 'integral_list':
        iv = ivs(rest[0])
        return [list(guarded(lambda: g.integral(iv), [g]))]
    if name == 'avrg_all':
        return [[guarded(lambda: g.avrg(), [g])]]
    if name == 'avrg':
        a, b = fl(rest[0])
        return [[guarded(lambda: g.avrg((a, b)), [g])]]
    if name == 'plot':
        k = int(rest[0][0])
        x, y = guarded(lambda: g.get_plottable_data(k), [g])
        return [list(x), list(y)]
    raise KeyError(name)


def _run_api(op, f):
    p, ix, tf = f[0], f[1], f[2:]
    kw, interval, max_tau = kw_of(p)
    idx = idx_of(ix)
    extra = p[7:]
    L = mk_trains(tf)
    G = lambda fn: guarded(fn, L)
    ikw = dict(kw)
    if idx is not None:
        ikw['indices'] = idx
    mt = {} if max_tau is None else {'max_tau': max_tau}
    iv = {} if interval is None else {'interval': interval}
    if op == 'reconcile':
        return trains_out(G(lambda: spk.spikes.reconcile_spike_trains(L)))
    if op == 'reconcile_bi':            # generated-model validation only
        return trains_out(list(G(lambda: spk.spikes.reconcile_spike_trains_bi(L[0], L[1]))))
    if op == 'train_nonempty':          # SpikeTrain methods (generated-model validation only)
        return [list(G(lambda: t.get_spikes_non_empty())) for t in L]
    if op == 'train_copy':
        return trains_out([G(lambda t=t: t.copy()) for t in L])
    if op == 'train_sort':
        C = [SpikeTrain(np.array(t.spikes), [t.t_start, t.t_end]) for t in L]
        for c in C:
            c.sort()
        return trains_out(C)
    if op == 'isi_profile_bi':
        return pw_out(G(lambda: spk.isi_profile(L[0], L[1], **kw)))
    if op == 'isi_profile_multi':
        return pw_out(G(lambda: spk.isi_profile(L, **ikw)))
    if op == 'isi_distance_bi':
        return [[G(lambda: spk.isi_distance(L[0], L[1], **iv, **kw))]]
    if op == 'isi_distance_multi':
        return [[G(lambda: spk.isi_distance(L, **iv, **ikw))]]
    if op == 'isi_distance_matrix':
        return [list(r) for r in G(lambda: spk.isi_distance_matrix(L, **iv, **ikw))]
    if op == 'spike_profile_bi':
        return pw_out(G(lambda: spk.spike_profile(L[0], L[1], **kw)))
    if op == 'spike_profile_multi':
        return pw_out(G(lambda: spk.spike_profile(L, **ikw)))
    if op == 'spike_distance_bi':
        return [[G(lambda: spk.spike_distance(L[0], L[1], **iv, **kw))]]
    if op == 'spike_distance_multi':
        return [[G(lambda: spk.spike_distance(L, **iv, **ikw))]]
    if op == 'spike_distance_matrix':
        return [list(r) for r in G(lambda: spk.spike_distance_matrix(L, **iv, **ikw))]
    if op == 'sync_profile_bi':
        return pw_out(G(lambda: spk.spike_sync_profile(L[0], L[1], **mt, **kw)))
    if op == 'sync_profile_multi':
        return pw_out(G(lambda: spk.spike_sync_profile(L, **mt, **ikw)))
    if op == 'spike_sync_bi':
        return [[G(lambda: spk.spike_sync(L[0], L[1], **iv, **mt, **kw))]]
    if op == 'spike_sync_multi':
        return [[G(lambda: spk.spike_sync(L, **iv, **mt, **ikw))]]
    if op == 'spike_sync_matrix':
        return [list(r) for r in G(lambda: spk.spike_sync_matrix(L, **iv, **mt, **ikw))]
    if op == 'filter_by_sync':
        thr = float(extra[0])
        r = G(lambda: spk.filter_by_spike_sync(L, thr, return_removed_spikes=True, **mt, **kw))
        return trains_out(r[0]) + [None] + trains_out(r[1])
    if op == 'order_profile_bi':
        return pw_out(G(lambda: spk.spike_train_order_profile(L[0], L[1], **mt, **kw)))
    if op == 'order_profile_multi':
        return pw_out(G(lambda: spk.spike_train_order_profile(L, **mt, **ikw)))
    # `interval` is accepted as a parameter by the order / directionality scalars but documented as
    # unsupported (NotImplementedError -> 'reject'); it is passed only when the request carries one
    if op == 'order_bi':
        nz = bool(extra[0]) if extra else True
        return [[G(lambda: spk.spike_train_order(L[0], L[1], normalize=nz, **iv, **mt, **kw))]]
    if op == 'order_multi':
        return [[G(lambda: spk.spike_train_order(L, **iv, **mt, **ikw))]]
    if op == 'dir_values':
        return [list(v) for v in G(lambda: spk.spike_directionality_values(L, **iv, **mt, **ikw))]
    if op == 'dir_bi':
        nz = bool(extra[0]) if extra else True
        return [[G(lambda: spk.spike_directionality(L[0], L[1], normalize=nz, **iv, **mt, **kw))]]
    if op == 'dir_matrix':
        nz = bool(extra[0]) if extra else True
        return [list(r) for r in G(lambda: spk.spike_directionality_matrix(L, normalize=nz, **iv, **mt, **ikw))]
    if op == 'isi_lengths':
        from pyspike.isi_lengths import isi_lengths
        t = L[0]
        return [list(isi_lengths(list(t.spikes), t.t_start, t.t_end))]
    if op == 'default_thresh_sq':
        from pyspike.isi_lengths import default_thresh
        v = G(lambda: default_thresh(L))
        return [[float(v) ** 2]]
    if op == 'merge':
        return trains_out([G(lambda: spk.merge_spike_trains(L))])
    if op == 'psth':
        n = int(extra[0])
        T = L[0].t_end - L[0].t_start
        bs = T / n
        assert int(T / bs) == n
        r = G(lambda: spk.psth(L, bs))
        return [list(r.x), list(r.y)]
    if op == 'time_series':
        import os
        from .core import BUILD
        os.makedirs(BUILD, exist_ok=True)
        path = os.path.join(BUILD, 'ts_%d.txt' % os.getpid())
        start, binw = float(tf[0][0]), float(tf[0][1])
        with open(path, 'w') as fh:
            fh.write('# time series\n')
            for row in tf:
                fh.write(' '.join(str(int(v)) for v in row[2:]) + '\n')
        try:
            r = spk.import_spike_trains_from_time_series(path, start, binw)
        finally:
            os.remove(path)
        return trains_out(r)
    if op == 'poisson':
        t = L[0]
        stream = list(t.spikes)
        orig = np.random.exponential
        calls = {'n': 0}

        def fake(scale, size):
            k = calls['n']; calls['n'] += size
            out = stream[k:k + size]
            # beyond the recorded stream: large steps so the loop terminates
            return np.array(out + [t.t_end - t.t_start + 1.0] * (size - len(out)))
        np.random.exponential = fake
        try:
            # rate chosen so that N = max(1, int(1.2*rate*T)) == len(stream)
            rate = (len(stream) + 0.5) / (1.2 * (t.t_end - t.t_start)) if len(stream) > 0 else 0.1 / (t.t_end - t.t_start)
            r = spk.generate_poisson_spikes(rate, [t.t_start, t.t_end])
        finally:
            np.random.exponential = orig
        return [list(r.spikes)]
    raise KeyError(op)


EXACT = {
    # fields compared exactly (times, multiplicities, counts, marks); others to REL_TOL
    'isi_profile': (0,), 'spike_profile': (0,), 'coinc_profile': (0, 1, 2), 'order_profile': (0, 1, 2),
    'coinc_single': (0,), 'dir_profile': (0, 1), 'add_pwc': (0,), 'add_pwl': (0,), 'add_disc': (0, 2),
    'avg_pwc': (0,), 'avg_pwl': (0,), 'mul_pwc': (0,), 'mul_pwl': (0,), 'mul_disc': (0, 2),
    'isi_profile_bi': (0,), 'isi_profile_multi': (0,), 'spike_profile_bi': (0,), 'spike_profile_multi': (0,),
    'sync_profile_bi': (0, 1, 2), 'sync_profile_multi': (0, 1, 2), 'order_profile_bi': (0, 1, 2),
    'order_profile_multi': (0, 1, 2), 'pwc_plot': (0,), 'pwl_plot': (0,), 'disc_plot': (0,),
    'pyx_isi_profile': (0,), 'pyx_spike_profile': (0,), 'pyx_coinc_value': (0,), 'pyx_order_value': (0,), 'pyx_dir_value': (0,),
    'coinc_value_k': (0,), 'order_value_k': (0,), 'dir_value_k': (0,),
}


def exact_fields(op, nfields):
    if op in ('round_sci', 'save_load'):
        return 'float-exact'
    if op in ('reconcile', 'filter_by_sync', 'merge', 'psth', 'time_series', 'poisson', 'train_nonempty', 'train_copy', 'train_sort', 'reconcile_bi'):
        return tuple(range(nfields))
    return EXACT.get(op, ())
