#!/usr/bin/env python3
"""harness/py2lean.py — translate the pure-Python backend of PySpike into a Lean 4 model.

    py2lean.py [repo] > Backend.lean

Input: `pyspike/cython/python_backend.py` and `directionality_python_backend.py` of the given tree
(read with `ast`; nothing is imported or executed).  Output: one Lean file, namespace
`PySpike.Gen`, a *shallow embedding* of the Python subset those files use (see Gen/Prelude.lean):

  function  f(params)      ↦  structure f.St (params + locals), f.main, f (F : Nat) params : Option Ret
  while / for-range loop   ↦  f.loopK_cond, f.loopK_body, f.loopK : Nat → Nat → St → Flow   (fuel F)
  x = e, a[i] = e, x op= e ↦  record update (a failing index makes the block `Flow.err`)
  if / elif / else, return, conditional expression, and / or (short-circuit), tuple assignment
  int ↦ Int, float ↦ Rat, 1-d numpy array ↦ List Rat, bool ↦ Bool; array slices and the
  element-wise array arithmetic of the `add_*` routines

Anything outside the subset raises `Untranslatable` — the caller then reports the generated tie as
unavailable; it never guesses.  The translation is deterministic: the same source text gives the
same Lean text, so on an unchanged tree the committed `Gen/Backend.lean` is reproduced byte for
byte and the refinement theorems (`Proofs/GenRefine*.lean`) are the ones already checked."""
import ast, sys, os
from fractions import Fraction


class Untranslatable(Exception):
    pass


# Parameter types of the translated functions (the only type annotations the translator is given;
# locals are inferred).  'arr' = 1-d float array, 'rat' = float, 'int', 'bool'.
SIGS = {
    'python_backend.py': {
        'isi_distance_python': [('s1', 'arr'), ('s2', 'arr'), ('t_start', 'rat'), ('t_end', 'rat'), ('MRTS', 'rat')],
        'get_min_dist': [('spike_time', 'rat'), ('spike_train', 'arr'), ('start_index', 'int'), ('t_start', 'rat'), ('t_end', 'rat')],
        'dist_at_t': [('isi1', 'rat'), ('isi2', 'rat'), ('s1', 'rat'), ('s2', 'rat'), ('MRTS', 'rat'), ('RI', 'bool')],
        'spike_distance_python': [('spikes1', 'arr'), ('spikes2', 'arr'), ('t_start', 'rat'), ('t_end', 'rat'), ('MRTS', 'rat'), ('RI', 'bool')],
        'get_tau': [('spikes1', 'arr'), ('spikes2', 'arr'), ('i', 'int'), ('j', 'int'), ('max_tau', 'rat'), ('MRTS', 'rat')],
        'get_tau.Interpolate': [('a', 'rat'), ('b', 'rat'), ('t', 'rat')],
        'coincidence_python': [('spikes1', 'arr'), ('spikes2', 'arr'), ('t_start', 'rat'), ('t_end', 'rat'), ('max_tau', 'rat'), ('MRTS', 'rat')],
        'coincidence_single_python': [('spikes1', 'arr'), ('spikes2', 'arr'), ('t_start', 'rat'), ('t_end', 'rat'), ('max_tau', 'rat'), ('MRTS', 'rat')],
        'add_piece_wise_const_python': [('x1', 'arr'), ('y1', 'arr'), ('x2', 'arr'), ('y2', 'arr')],
        'add_piece_wise_lin_python': [('x1', 'arr'), ('y11', 'arr'), ('y12', 'arr'), ('x2', 'arr'), ('y21', 'arr'), ('y22', 'arr')],
        'add_discrete_function_python': [('x1', 'arr'), ('y1', 'arr'), ('mp1', 'arr'), ('x2', 'arr'), ('y2', 'arr'), ('mp2', 'arr')],
    },
    'directionality_python_backend.py': {
        'spike_directionality_profile_python': [('spikes1', 'arr'), ('spikes2', 'arr'), ('t_start', 'rat'), ('t_end', 'rat'), ('max_tau', 'rat'), ('MRTS', 'rat')],
        'spike_train_order_profile_python': [('spikes1', 'arr'), ('spikes2', 'arr'), ('t_start', 'rat'), ('t_end', 'rat'), ('max_tau', 'rat'), ('MRTS', 'rat')],
    },
}
LEAN_TY = {'int': 'Int', 'rat': 'Rat', 'bool': 'Bool', 'arr': 'List Rat', 'list': 'List Rat'}
DEFAULT = {'int': '0', 'rat': '0', 'bool': 'false', 'arr': '[]', 'list': '[]'}
RESERVED = {'st', 'F', 'fun', 'let', 'if', 'then', 'else', 'match', 'with', 'end', 'at', 'from', 'open', 'in', 'do',
            'by', 'have', 'show', 'Type', 'Prop', 'where', 'structure', 'def', 'theorem', 'instance', 'class'}


def lname(n):
    """Lean field name for a Python local."""
    return n + '_' if n in RESERVED else n


def ratlit(v):
    fr = Fraction(v)   # exact value of the Python float literal
    if fr.denominator == 1:
        return '(%d : Rat)' % fr.numerator
    return '((%d : Rat) / %d)' % (fr.numerator, fr.denominator)


def _contains_bc(node):
    """does the statement contain a break/continue that belongs to the enclosing loop?"""
    if isinstance(node, (ast.Break, ast.Continue)):
        return True
    if isinstance(node, (ast.While, ast.For, ast.FunctionDef)):
        return False
    return any(_contains_bc(ch) for ch in ast.iter_child_nodes(node) if isinstance(ch, ast.stmt))


def _assign(name, value):
    return ast.Assign(targets=[ast.Name(id=name, ctx=ast.Store())], value=ast.Constant(value=value), lineno=0)


def desugar_break_continue(stmts, counter):
    """`break` / `continue` → boolean flags: the rest of the iteration is guarded by `not _skipK`, the loop
    condition by `not _brkK`. Standard structured-programming transformation; the flags become ordinary
    (boolean) locals of the generated state."""
    def guard_seq(seq, k):
        out = []
        for idx, st_ in enumerate(seq):
            if isinstance(st_, ast.Continue):
                out.append(_assign('_skip%d' % k, True)); return out
            if isinstance(st_, ast.Break):
                out += [_assign('_brk%d' % k, True), _assign('_skip%d' % k, True)]; return out
            if isinstance(st_, ast.If) and _contains_bc(st_):
                out.append(ast.If(test=st_.test, body=guard_seq(st_.body, k) or [ast.Pass()], orelse=guard_seq(st_.orelse, k), lineno=st_.lineno))
                rest = guard_seq(seq[idx + 1:], k)
                if rest:
                    out.append(ast.If(test=ast.UnaryOp(op=ast.Not(), operand=ast.Name(id='_skip%d' % k, ctx=ast.Load())),
                                      body=rest, orelse=[], lineno=st_.lineno))
                return out
            out.append(rec(st_))
        return out

    def rec(st_):
        if isinstance(st_, (ast.While, ast.For)):
            body = [rec(x) for x in st_.body]
            if any(_contains_bc(x) for x in st_.body):
                counter[0] += 1
                k = counter[0]
                has_brk = any(isinstance(n, ast.Break) for x in st_.body for n in _own_nodes(x))
                body = [_assign('_skip%d' % k, False)] + guard_seq(body, k)
                if isinstance(st_, ast.While):
                    test = st_.test
                    if has_brk:
                        test = ast.BoolOp(op=ast.And(), values=[ast.UnaryOp(op=ast.Not(), operand=ast.Name(id='_brk%d' % k, ctx=ast.Load())), st_.test])
                    new = ast.While(test=test, body=body, orelse=st_.orelse, lineno=st_.lineno)
                    return ast.If(test=ast.Constant(value=True), body=([_assign('_brk%d' % k, False)] if has_brk else []) + [new], orelse=[], lineno=st_.lineno)
                new = ast.For(target=st_.target, iter=st_.iter, body=body, orelse=st_.orelse, lineno=st_.lineno)
                new.brk_name = ('_brk%d' % k) if has_brk else None
                return new
            if isinstance(st_, ast.While):
                return ast.While(test=st_.test, body=body, orelse=st_.orelse, lineno=st_.lineno)
            new = ast.For(target=st_.target, iter=st_.iter, body=body, orelse=st_.orelse, lineno=st_.lineno)
            return new
        if isinstance(st_, ast.If):
            return ast.If(test=st_.test, body=[rec(x) for x in st_.body], orelse=[rec(x) for x in st_.orelse], lineno=st_.lineno)
        return st_

    def _own_nodes(node):
        yield node
        if isinstance(node, (ast.While, ast.For, ast.FunctionDef)):
            return
        for ch in ast.iter_child_nodes(node):
            if isinstance(ch, ast.stmt):
                yield from _own_nodes(ch)
    return [rec(x) for x in stmts]


class Fn:
    """translation of one function definition"""

    def __init__(self, tr, qual, node, params):
        self.tr, self.qual, self.node, self.params = tr, qual, node, params
        self.types = dict(params or [])
        self.order = [p for p, _ in (params or [])]     # field order: params, then locals in order of first assignment
        self.ret = None
        self.loops = []                          # generated loop definitions (text)
        self.nfresh = 0
        self.nloop = 0
        self.nested = {}
        self.alias = {}      # Python name -> record field, where a name is re-used with another type
        self.poison = set()  # names whose field is ambiguous after a branch

    # ---------- helpers
    def fresh(self):
        self.nfresh += 1
        return 'v%d' % self.nfresh

    def fail(self, node, msg):
        raise Untranslatable('%s line %d: %s' % (self.qual, getattr(node, 'lineno', 0), msg))

    def to_rat(self, code, typ, node=None):
        if typ == 'rat':
            return code
        if typ == 'int':
            return '((%s : Int) : Rat)' % code
        self.fail(node, 'cannot use %s as a float' % typ)

    def lift(self, parts, build):
        """parts: [(code, opt)], build(list of pure codes) -> pure code. Left-to-right evaluation."""
        names, binds = [], []
        for c, o in parts:
            if o:
                v = self.fresh(); binds.append((v, c)); names.append(v)
            else:
                names.append(c)
        body = build(names)
        if not binds:
            return body, False
        s = 'some (%s)' % body
        for v, c in reversed(binds):
            s = 'Option.bind (%s) fun %s => %s' % (c, v, s)
        return s, True

    # ---------- type inference for locals (fixpoint over assignments)
    def infer_locals(self):
        body = [s for s in self.node.body if not isinstance(s, ast.FunctionDef)]
        for _ in range(6):
            before = dict(self.types)
            self.nfresh = 0
            for s in ast.walk(ast.Module(body=body, type_ignores=[])):
                if isinstance(s, ast.Assign):
                    if len(s.targets) != 1:
                        self.fail(s, 'chained assignment')
                    t = s.targets[0]
                    if isinstance(t, ast.Tuple) and isinstance(s.value, ast.Call):
                        f_ = s.value.func
                        tgt_ = self.nested.get(f_.id) if isinstance(f_, ast.Name) else None
                        if tgt_ is not None and len(getattr(tgt_, 'ret_types', ())) == len(t.elts):
                            for a, rt in zip(t.elts, tgt_.ret_types):
                                if isinstance(a, ast.Name):
                                    self.note_type(a.id, rt)
                        continue
                    if isinstance(t, ast.Tuple):
                        if not isinstance(s.value, ast.Tuple) or len(t.elts) != len(s.value.elts):
                            if getattr(self, 'kinds', None) is not None:
                                continue          # possibly in a branch the specialisation removes
                            self.fail(s, 'tuple assignment shape')
                        for a, b in zip(t.elts, s.value.elts):
                            if isinstance(a, ast.Name):
                                self.note_type(a.id, self.try_type(b))
                    elif isinstance(t, ast.Name):
                        self.note_type(t.id, self.try_type(s.value))
                elif isinstance(s, ast.AugAssign) and isinstance(s.target, ast.Name):
                    bt = self.try_type(ast.BinOp(left=s.target, op=s.op, right=s.value))
                    self.note_type(s.target.id, bt)
                elif isinstance(s, ast.For):
                    if isinstance(s.target, ast.Name) and getattr(self, 'kinds', {}).get(s.target.id) != 'pair':
                        self.note_type(s.target.id, 'int')
            if before == self.types:
                break

    def note_type(self, name, typ):
        if typ is None:
            return
        if name not in self.types:
            self.types[name] = typ
            self.order.append(name)
        elif self.types[name] != typ:
            if {self.types[name], typ} == {'int', 'rat'}:
                self.types[name] = 'rat'
            elif typ == 'arr' and self.types[name] in ('int', 'rat'):
                # a scalar name re-used for an array (numpy idiom): second field `<name>_arr`
                if name + '_arr' not in self.types:
                    self.types[name + '_arr'] = 'arr'
                    self.order.append(name + '_arr')
            elif self.types[name] == 'arr' and typ in ('int', 'rat') and name not in dict(self.params):
                self.types[name] = typ
                if name + '_arr' not in self.types:
                    self.types[name + '_arr'] = 'arr'
                    self.order.append(name + '_arr')
            else:
                raise Untranslatable('%s: variable %s is used as %s and %s' % (self.qual, name, self.types[name], typ))

    def try_type(self, e):
        try:
            return self.cx(e)[1]
        except Untranslatable:
            return None

    # ---------- specialisation (class mode): tests whose value is fixed by the declared kind of a parameter
    def kind_of(self, e):
        """'none' / 'pair' / 'scalar' for an expression whose kind is fixed by the specialisation"""
        kinds = getattr(self, 'kinds', {})
        if isinstance(e, ast.Name) and e.id in kinds:
            return kinds[e.id]
        if isinstance(e, ast.Subscript) and isinstance(e.value, ast.Name) and kinds.get(e.value.id) == 'pair':
            return 'scalar'
        if isinstance(e, ast.Subscript) and isinstance(e.value, ast.Name) and kinds.get(e.value.id) == 'pairs':
            return 'pair'
        return None

    def const_of(self, e):
        """True / False when the test is decided by the specialisation, else None"""
        if isinstance(e, ast.Compare) and len(e.ops) == 1 and isinstance(e.comparators[0], ast.Constant) \
                and e.comparators[0].value is None and isinstance(e.ops[0], (ast.Is, ast.IsNot)):
            k = self.kind_of(e.left)
            if k is None:
                return None
            r = (k == 'none')
            return r if isinstance(e.ops[0], ast.Is) else not r
        if isinstance(e, ast.Call) and isinstance(e.func, ast.Name) and e.func.id == 'isinstance' and len(e.args) == 2:
            k = self.kind_of(e.args[0])
            tgt = ast.unparse(e.args[1])
            if k is not None and tgt.endswith('Sequence'):
                return k in ('pair', 'pairs')
            return None
        if isinstance(e, ast.UnaryOp) and isinstance(e.op, ast.Not):
            c = self.const_of(e.operand)
            return None if c is None else not c
        return None

    # ---------- expressions: returns (code, type, may_fail)
    def cx(self, e):
        c0 = self.const_of(e) if getattr(self, 'kinds', None) else None
        if c0 is not None:
            return ('true' if c0 else 'false'), 'bool', False
        if isinstance(e, ast.Attribute) and isinstance(e.value, ast.Name) and e.value.id == 'self' \
                and ('self_' + e.attr) in self.types:
            return 'st.self_%s' % e.attr, self.types['self_' + e.attr], False
        if isinstance(e, ast.Subscript) and isinstance(e.value, ast.Name) and getattr(self, 'kinds', {}).get(e.value.id) == 'pair' \
                and isinstance(e.slice, ast.Constant) and e.slice.value in (0, 1):
            return 'st.%s_%d' % (e.value.id, e.slice.value), 'rat', False
        if isinstance(e, ast.Constant):
            if isinstance(e.value, bool):
                return ('true' if e.value else 'false'), 'bool', False
            if isinstance(e.value, int):
                return '(%d : Int)' % e.value, 'int', False
            if isinstance(e.value, float):
                return ratlit(e.value), 'rat', False
            self.fail(e, 'constant %r' % (e.value,))
        if isinstance(e, ast.Name) and e.id in getattr(self, 'lamvars', {}):
            return e.id + '_', self.lamvars[e.id], False
        if isinstance(e, ast.List):
            # a Python list of floats (NOT a numpy array: `+` concatenates)
            vals = [self.cx(v) for v in e.elts]
            if not all(t in ('int', 'rat') for _, t, _ in vals):
                self.fail(e, 'list of non-numbers')
            code, o = self.lift([(c, oo) for c, _, oo in vals],
                                lambda n: '[' + ', '.join(self.to_rat(x, vals[k][1]) for k, x in enumerate(n)) + ']')
            return code, 'list', o
        if isinstance(e, ast.ListComp):
            if len(e.generators) != 1 or e.generators[0].ifs or e.generators[0].is_async:
                self.fail(e, 'list comprehension form')
            g = e.generators[0]
            it = g.iter
            if not (isinstance(g.target, ast.Name) and isinstance(it, ast.Call) and isinstance(it.func, ast.Name)
                    and it.func.id == 'range' and len(it.args) in (1, 2)):
                self.fail(e, 'list comprehension other than over range(a, b)')
            lo = self.cx(it.args[0]) if len(it.args) == 2 else ('(0 : Int)', 'int', False)
            hi = self.cx(it.args[-1])
            if lo[1] != 'int' or hi[1] != 'int':
                self.fail(e, 'range bounds')
            v = g.target.id
            old = dict(getattr(self, 'lamvars', {}))
            self.lamvars = dict(old); self.lamvars[v] = 'int'
            try:
                bc, bt, bo = self.cx(e.elt)
            finally:
                self.lamvars = old
            if bt not in ('int', 'rat'):
                self.fail(e, 'list comprehension element type')
            body = bc if bo else 'some (%s)' % bc
            if bt == 'int':
                body = 'Option.map (fun (z : Int) => (z : Rat)) (%s)' % body
            code, o = self.lift([(lo[0], lo[2]), (hi[0], hi[2])],
                                lambda n: 'MAPM %s %s' % (n[0], n[1]))
            # mapM itself is Option-valued
            def build(n):
                return 'List.mapM (fun (%s_ : Int) => %s) (rangeInt %s %s)' % (v, body, n[0], n[1])
            names, binds = [], []
            for c_, o_ in ((lo[0], lo[2]), (hi[0], hi[2])):
                if o_:
                    w = self.fresh(); binds.append((w, c_)); names.append(w)
                else:
                    names.append(c_)
            s_ = build(names)
            for w, c_ in reversed(binds):
                s_ = 'Option.bind (%s) fun %s => %s' % (c_, w, s_)
            return '(%s)' % s_, 'list', True
        if isinstance(e, ast.Name):
            if e.id not in self.types:
                self.fail(e, 'unknown name %s' % e.id)
            if e.id in self.poison:
                self.fail(e, 'variable %s has different types on different paths' % e.id)
            fid = self.alias.get(e.id, e.id)
            return 'st.%s' % lname(fid), self.types[fid], False
        if isinstance(e, ast.UnaryOp):
            c, t, o = self.cx(e.operand)
            if isinstance(e.op, ast.USub):
                if t == 'arr':
                    self.fail(e, 'negated array')
                code, oo = self.lift([(c, o)], lambda n: '(-%s)' % n[0]); return code, t, oo
            if isinstance(e.op, ast.UAdd):
                return c, t, o
            if isinstance(e.op, ast.Not) and t == 'bool':
                code, oo = self.lift([(c, o)], lambda n: '(!%s)' % n[0]); return code, 'bool', oo
            self.fail(e, 'unary operator')
        if isinstance(e, ast.BinOp):
            return self.cx_binop(e)
        if isinstance(e, ast.Compare):
            if len(e.ops) != 1:
                self.fail(e, 'chained comparison')
            a, ta, oa = self.cx(e.left); b, tb, ob = self.cx(e.comparators[0])
            if ta == 'int' and tb == 'int':
                pass
            elif ta in ('int', 'rat') and tb in ('int', 'rat'):
                if not oa: a = self.to_rat(a, ta)
                if not ob: b = self.to_rat(b, tb)
            else:
                self.fail(e, 'comparison of %s and %s' % (ta, tb))
            sym = {ast.Lt: '<', ast.Gt: '>', ast.LtE: '≤', ast.GtE: '≥', ast.Eq: '=', ast.NotEq: '≠'}.get(type(e.ops[0]))
            if sym is None:
                self.fail(e, 'comparison operator')
            mixed = not (ta == 'int' and tb == 'int')

            def build(n, ta=ta, tb=tb):
                x = self.to_rat(n[0], ta) if (mixed and oa) else n[0]
                y = self.to_rat(n[1], tb) if (mixed and ob) else n[1]
                return 'decide (%s %s %s)' % (x, sym, y)
            code, o = self.lift([(a, oa), (b, ob)], build)
            return code, 'bool', o
        if isinstance(e, ast.BoolOp):
            vals = [self.cx(v) for v in e.values]
            if any(t != 'bool' for _, t, _ in vals):
                self.fail(e, 'and/or on non-booleans')
            isand = isinstance(e.op, ast.And)
            if not any(o for _, _, o in vals):
                return '(%s)' % ((' && ' if isand else ' || ').join(c for c, _, _ in vals)), 'bool', False
            # short-circuit evaluation in Option
            code = None
            for c, _, o in reversed(vals):
                cc = c if o else 'some (%s)' % c
                if code is None:
                    code = cc
                elif not o:
                    if isand:
                        code = 'if %s then %s else some false' % (c, code)
                    else:
                        code = 'if %s then some true else %s' % (c, code)
                else:
                    v = self.fresh()
                    if isand:
                        code = 'Option.bind (%s) fun %s => if %s then %s else some false' % (cc, v, v, code)
                    else:
                        code = 'Option.bind (%s) fun %s => if %s then some true else %s' % (cc, v, v, code)
                code = '(%s)' % code
            return '(%s)' % code, 'bool', True
        if isinstance(e, ast.IfExp):
            c, tc, oc = self.cx(e.test); a, ta, oa = self.cx(e.body); b, tb, ob = self.cx(e.orelse)
            if tc != 'bool':
                self.fail(e, 'condition is not boolean')
            t = ta
            if ta != tb:
                if {ta, tb} == {'int', 'rat'}:
                    t = 'rat'
                    if not oa: a = self.to_rat(a, ta)
                    if not ob: b = self.to_rat(b, tb)
                    if oa and ta == 'int': a = 'Option.map (fun (z : Int) => (z : Rat)) (%s)' % a
                    if ob and tb == 'int': b = 'Option.map (fun (z : Int) => (z : Rat)) (%s)' % b
                else:
                    self.fail(e, 'branches of different type')
            if not (oa or ob):
                code, o = self.lift([(c, oc)], lambda n: '(if %s then %s else %s)' % (n[0], a, b))
                return code, t, o
            # only the chosen branch is evaluated
            aa = a if oa else 'some (%s)' % a
            bb = b if ob else 'some (%s)' % b
            if oc:
                v = self.fresh()
                return '(Option.bind (%s) fun %s => if %s then %s else %s)' % (c, v, v, aa, bb), t, True
            return '(if %s then %s else %s)' % (c, aa, bb), t, True
        if isinstance(e, ast.Subscript):
            a, ta, oa = self.cx(e.value)
            if ta not in ('arr', 'list'):
                self.fail(e, 'subscript of non-array')
            if isinstance(e.slice, ast.Slice):
                sl = e.slice
                if sl.step is not None:
                    self.fail(e, 'slice step')
                parts = [(a, oa)]
                lo = hi = None
                if sl.lower is not None:
                    lo = self.cx(sl.lower)
                    if lo[1] != 'int': self.fail(e, 'slice bound')
                    parts.append((lo[0], lo[2]))
                if sl.upper is not None:
                    hi = self.cx(sl.upper)
                    if hi[1] != 'int': self.fail(e, 'slice bound')
                    parts.append((hi[0], hi[2]))

                def build(n):
                    if lo is not None and hi is not None:
                        return '(pySlice %s %s %s)' % (n[0], n[1], n[2])
                    if lo is not None:
                        return '(pyFrom %s %s)' % (n[0], n[1])
                    if hi is not None:
                        return '(pyTo %s %s)' % (n[0], n[1])
                    return n[0]
                code, o = self.lift(parts, build)
                return code, ta, o
            i, ti, oi = self.cx(e.slice)
            if ti != 'int':
                self.fail(e, 'index is not an integer')
            if not (oa or oi):
                return '(%s %s %s)' % (self.tr.IDX, a, i), 'rat', True
            va, vi = self.fresh(), self.fresh()
            aa = a if oa else 'some (%s)' % a
            ii = i if oi else 'some (%s)' % i
            return '(Option.bind (%s) fun %s => Option.bind (%s) fun %s => %s %s %s)' % (aa, va, ii, vi, self.tr.IDX, va, vi), 'rat', True
        if isinstance(e, ast.Call):
            return self.cx_call(e)
        self.fail(e, 'expression %s' % type(e).__name__)

    def cx_binop(self, e):
        a, ta, oa = self.cx(e.left); b, tb, ob = self.cx(e.right)
        sym = {ast.Add: '+', ast.Sub: '-', ast.Mult: '*', ast.Div: '/'}.get(type(e.op))
        if sym is None:
            self.fail(e, 'operator %s' % type(e.op).__name__)
        if ta == 'list' and tb == 'list' and isinstance(e.op, ast.Add):
            code, o = self.lift([(a, oa), (b, ob)], lambda n: '(%s ++ %s)' % (n[0], n[1]))
            return code, 'list', o
        if 'list' in (ta, tb):
            self.fail(e, 'arithmetic on a Python list')
        if 'arr' in (ta, tb):
            # numpy element-wise arithmetic
            if ta == 'arr' and tb == 'arr':
                va, vb = self.fresh(), self.fresh()
                aa = a if oa else 'some (%s)' % a
                bb = b if ob else 'some (%s)' % b
                return ('(Option.bind (%s) fun %s => Option.bind (%s) fun %s => vZip (fun p q => p %s q) %s %s)'
                        % (aa, va, bb, vb, sym, va, vb)), 'arr', True
            if ta == 'arr' and tb in ('int', 'rat'):
                def build(n):
                    return '(List.map (fun p => p %s %s) %s)' % (sym, self.to_rat(n[1], tb), n[0])
                code, o = self.lift([(a, oa), (b, ob)], build); return code, 'arr', o
            if tb == 'arr' and ta in ('int', 'rat'):
                def build(n):
                    return '(List.map (fun q => %s %s q) %s)' % (self.to_rat(n[0], ta), sym, n[1])
                code, o = self.lift([(a, oa), (b, ob)], build); return code, 'arr', o
            self.fail(e, 'array arithmetic with %s/%s' % (ta, tb))
        if ta not in ('int', 'rat') or tb not in ('int', 'rat'):
            self.fail(e, 'arithmetic on %s and %s' % (ta, tb))
        if ta == 'int' and tb == 'int' and sym != '/':
            code, o = self.lift([(a, oa), (b, ob)], lambda n: '(%s %s %s)' % (n[0], sym, n[1]))
            return code, 'int', o
        code, o = self.lift([(a, oa), (b, ob)], lambda n: '(%s %s %s)' % (self.to_rat(n[0], ta), sym, self.to_rat(n[1], tb)))
        return code, 'rat', o

    def cx_call(self, e):
        f = e.func
        if getattr(self, 'kinds', None) is not None:
            r = self.cx_call_class(e)
            if r is not None:
                return r
        if e.keywords:
            self.fail(e, 'keyword arguments')
        name = None
        if isinstance(f, ast.Name):
            name = f.id
        elif isinstance(f, ast.Attribute) and isinstance(f.value, ast.Name) and f.value.id == 'np':
            name = 'np.' + f.attr
        else:
            self.fail(e, 'call target')
        args = e.args
        if self.tr.pyx:
            if name in ('_mv', 'np.asarray') and len(args) == 1:
                c, t, o = self.cx(args[0])
                if t != 'arr': self.fail(e, '%s of non-array' % name)
                return c, t, o
            if name == 'float' and len(args) == 1:
                c, t, o = self.cx(args[0])
                if t not in ('int', 'rat'): self.fail(e, 'float() of %s' % t)
                if t == 'rat': return c, t, o
                code, oo = self.lift([(c, o)], lambda n: self.to_rat(n[0], 'int')); return code, 'rat', oo
            if name == 'int' and len(args) == 1:
                c, t, o = self.cx(args[0])
                if t == 'bool':
                    code, oo = self.lift([(c, o)], lambda n: '(if %s then (1 : Int) else 0)' % n[0]); return code, 'int', oo
                if t != 'int': self.fail(e, 'int() of %s' % t)
                return c, t, o
            if name in ('fmax', 'fmin') and len(args) == 2:
                vals = [self.cx(a) for a in args]
                if not {t for _, t, _ in vals} <= {'int', 'rat'}: self.fail(e, '%s of non-numbers' % name)
                fn = name[1:]
                code, o = self.lift([(c, oo) for c, _, oo in vals],
                                    lambda n: '(%s %s %s)' % (fn, self.to_rat(n[0], vals[0][1]), self.to_rat(n[1], vals[1][1])))
                return code, 'rat', o
            if name == 'fabs' and len(args) == 1:
                c, t, o = self.cx(args[0])
                if t not in ('int', 'rat'): self.fail(e, 'fabs of %s' % t)
                code, oo = self.lift([(c, o)], lambda n: '(pyAbs %s)' % self.to_rat(n[0], t)); return code, 'rat', oo
            if name == '_cdiv' and len(args) == 2:
                vals = [self.cx(a) for a in args]
                if not {t for _, t, _ in vals} <= {'int', 'rat'}: self.fail(e, 'division of non-numbers')
                if all(t == 'int' for _, t, _ in vals): self.fail(e, 'C integer division')
                code, o = self.lift([(c, oo) for c, _, oo in vals],
                                    lambda n: '(%s / %s)' % (self.to_rat(n[0], vals[0][1]), self.to_rat(n[1], vals[1][1])))
                return code, 'rat', o
        if name == 'len' and len(args) == 1:
            a, ta, oa = self.cx(args[0])
            if ta not in ('arr', 'list'): self.fail(e, 'len of non-array')
            code, o = self.lift([(a, oa)], lambda n: '((%s).length : Int)' % n[0]); return code, 'int', o
        if name == 'abs' and len(args) == 1:
            a, ta, oa = self.cx(args[0])
            if ta == 'int':
                code, o = self.lift([(a, oa)], lambda n: '((%s).natAbs : Int)' % n[0]); return code, 'int', o
            if ta != 'rat': self.fail(e, 'abs of %s' % ta)
            code, o = self.lift([(a, oa)], lambda n: '(pyAbs %s)' % n[0]); return code, 'rat', o
        if name in ('max', 'min'):
            if len(args) == 1 and isinstance(args[0], ast.List):
                args = args[0].elts
            if len(args) < 2:
                self.fail(e, '%s of one argument' % name)
            vals = [self.cx(a) for a in args]
            ts = {t for _, t, _ in vals}
            if not ts <= {'int', 'rat'}:
                self.fail(e, '%s of non-numbers' % name)
            t = 'int' if ts == {'int'} else 'rat'

            def build(n):
                xs = [x if t == 'int' else self.to_rat(x, vals[k][1]) for k, x in enumerate(n)]
                s = xs[0]
                for x in xs[1:]:
                    s = '(%s %s %s)' % (name, s, x)
                return s
            code, o = self.lift([(c, oo) for c, _, oo in vals], build); return code, t, o
        if name == 'int' and len(args) == 1 and not self.tr.pyx:
            c, t, o = self.cx(args[0])
            if t == 'int':
                return c, t, o
            if t != 'rat': self.fail(e, 'int() of %s' % t)
            code, oo = self.lift([(c, o)], lambda n: '(pyTrunc %s)' % n[0]); return code, 'int', oo
        if name == 'np.zeros_like' and len(args) == 1:
            a, ta, oa = self.cx(args[0])
            if ta != 'arr': self.fail(e, 'zeros_like of non-array')
            code, o = self.lift([(a, oa)], lambda n: '(npZeros ((%s).length : Int))' % n[0]); return code, 'arr', o
        if name in ('np.empty', 'np.zeros', 'np.ones') and len(args) == 1:
            a, ta, oa = self.cx(args[0])
            if ta != 'int': self.fail(e, 'array size')
            fn = 'npOnes' if name == 'np.ones' else 'npZeros'
            code, o = self.lift([(a, oa)], lambda n: '(%s %s)' % (fn, n[0])); return code, 'arr', o
        if name == 'np.empty_like' and len(args) == 1:
            a, ta, oa = self.cx(args[0])
            if ta != 'arr': self.fail(e, 'empty_like of non-array')
            code, o = self.lift([(a, oa)], lambda n: '(npZeros ((%s).length : Int))' % n[0]); return code, 'arr', o
        # a translated function of the same file / an imported one / a nested one
        target = None
        if name in self.nested:
            target = self.nested[name]
        elif name in self.tr.fns:
            target = self.tr.fns[name]
        if target is None:
            self.fail(e, 'call of unknown function %s' % name)
        if len(args) != len(target.params):
            self.fail(e, 'call of %s with %d arguments (defaults are not supported)' % (name, len(args)))
        vals = []
        for a, (pn, pt) in zip(args, target.params):
            c, t, o = self.cx(a)
            if t != pt:
                if t == 'int' and pt == 'rat':
                    if o: c = 'Option.map (fun (z : Int) => (z : Rat)) (%s)' % c
                    else: c = self.to_rat(c, t)
                else:
                    self.fail(e, 'argument %s of %s: %s given, %s expected' % (pn, name, t, pt))
            vals.append((c, o))
        if target.ret is None:
            self.fail(e, 'call of %s before its return type is known' % name)
        names, binds = [], []
        for c, o in vals:
            if o:
                v = self.fresh(); binds.append((v, c)); names.append(v)
            else:
                names.append('(%s)' % c)
        s = '%s F %s' % (target.lean_name(), ' '.join(names))
        for v, c in reversed(binds):
            s = 'Option.bind (%s) fun %s => %s' % (c, v, s)
        return '(%s)' % s, target.ret, True

    def lean_name(self):
        return self.qual

    def cx_call_class(self, e):
        f = e.func
        name = None
        if isinstance(f, ast.Attribute) and isinstance(f.value, ast.Name) and f.value.id == 'np':
            name = 'np.' + f.attr
        elif isinstance(f, ast.Name):
            name = f.id
        if name == 'np.searchsorted' and len(e.args) == 2 and len(e.keywords) == 1 and e.keywords[0].arg == 'side' \
                and isinstance(e.keywords[0].value, ast.Constant) and e.keywords[0].value.value in ('left', 'right'):
            a, ta, oa = self.cx(e.args[0]); v, tv, ov = self.cx(e.args[1])
            if ta != 'arr' or tv not in ('int', 'rat'):
                self.fail(e, 'searchsorted argument types')
            fn = 'npSearchRight' if e.keywords[0].value.value == 'right' else 'npSearchLeft'
            code, o = self.lift([(a, oa), (v, ov)], lambda n: '(%s %s %s)' % (fn, n[0], self.to_rat(n[1], tv)))
            return code, 'int', o
        if e.keywords:
            return None
        if name == 'np.sum' and len(e.args) == 1:
            a, ta, oa = self.cx(e.args[0])
            if ta != 'arr': self.fail(e, 'np.sum of non-array')
            code, o = self.lift([(a, oa)], lambda n: '(vSum %s)' % n[0]); return code, 'rat', o
        if name == 'sum' and len(e.args) == 1 and isinstance(e.args[0], ast.Compare) and len(e.args[0].ops) == 1 \
                and isinstance(e.args[0].ops[0], ast.Eq):
            # `sum(self.x == t)`: number of array entries equal to the scalar
            a, ta, oa = self.cx(e.args[0].left); v, tv, ov = self.cx(e.args[0].comparators[0])
            if ta != 'arr' or tv not in ('int', 'rat'): self.fail(e, 'sum(array == scalar) expected')
            code, o = self.lift([(a, oa), (v, ov)], lambda n: '(vCountEq %s %s)' % (n[0], self.to_rat(n[1], tv)))
            return code, 'int', o
        if name == 'np.all' and len(e.args) == 1:
            c, tc, oc = self.cx(e.args[0])
            if tc != 'bool': self.fail(e, 'np.all of a non-scalar')
            return c, tc, oc
        if isinstance(f, ast.Name) and f.id in self.nested and hasattr(self.nested[f.id], 'pair_params'):
            # helper closure of a method: `self` fields first, a pair argument as its two components
            target = self.nested[f.id]
            parts = [('st.%s' % fld, False) for fld in (target.self_fields if getattr(target, 'closure_self', False) else [])]
            orig = [a_.arg for a_ in target.orig_args]
            if len(e.args) != len(orig):
                self.fail(e, 'call of %s with %d arguments' % (f.id, len(e.args)))
            for a, pn in zip(e.args, orig):
                if target.pair_params.get(pn) == 'pair':
                    if self.kind_of(a) != 'pair' or not isinstance(a, ast.Name):
                        self.fail(e, 'argument %s of %s must be a pair' % (pn, f.id))
                    parts.append(('st.%s_0' % a.id, False)); parts.append(('st.%s_1' % a.id, False))
                else:
                    c, t, o = self.cx(a)
                    if t not in ('int', 'rat'): self.fail(e, 'argument %s of %s' % (pn, f.id))
                    parts.append((c if (o or t == 'rat') else self.to_rat(c, t), o))
                    if o and t == 'int': self.fail(e, 'int-valued failing argument')
            names, binds = [], []
            for c, o in parts:
                if o:
                    v = self.fresh(); binds.append((v, c)); names.append(v)
                else:
                    names.append('(%s)' % c)
            s_ = '%s F %s' % (target.lean_name(), ' '.join(names))
            for v, c in reversed(binds):
                s_ = 'Option.bind (%s) fun %s => %s' % (c, v, s_)
            if target.ret is None:
                self.fail(e, 'helper returning a tuple used as a value')
            return '(%s)' % s_, (target.ret if target.ret != 'tuple' else 'tuple'), True
        if isinstance(f, ast.Attribute) and isinstance(f.value, ast.Name) and f.value.id == 'self':
            # a method of the same object: the specialisation is chosen by the kinds of the arguments
            kinds = tuple(self.kind_of(a) or ('none' if (isinstance(a, ast.Constant) and a.value is None) else 'scalar') for a in e.args)
            cls_ = getattr(self, 'cls', None)
            target = self.tr.methods.get((cls_, f.attr, kinds)) or (self.tr.methods.get((cls_, f.attr, ('none',))) if not e.args else None)
            if target is None:
                self.fail(e, 'call of self.%s%s: no translated specialisation' % (f.attr, kinds))
            parts = []
            for fld in target.self_fields:
                parts.append(('st.%s' % fld, False))
            for a, k in zip(e.args, kinds):
                if k == 'pair':
                    if not isinstance(a, ast.Name): self.fail(e, 'pair argument must be a name')
                    parts.append(('st.%s_0' % a.id, False)); parts.append(('st.%s_1' % a.id, False))
                elif k == 'scalar':
                    c, t, o = self.cx(a); parts.append((self.to_rat(c, t) if not o else c, o))
            names, binds = [], []
            for c, o in parts:
                if o:
                    v = self.fresh(); binds.append((v, c)); names.append(v)
                else:
                    names.append('(%s)' % c)
            s_ = '%s F %s' % (target.lean_name(), ' '.join(names))
            for v, c in reversed(binds):
                s_ = 'Option.bind (%s) fun %s => %s' % (c, v, s_)
            if target.ret is None:
                self.fail(e, 'method returning a tuple used as a value')
            return '(%s)' % s_, target.ret, True
        return None

    # ---------- statements
    def set_field(self, name, code):
        return '{ st with %s := %s }' % (lname(name), code)

    def coerce(self, code, t, o, want, node):
        if t == want:
            return code, o
        if t == 'int' and want == 'rat':
            if o:
                return 'Option.map (fun (z : Int) => (z : Rat)) (%s)' % code, o
            return self.to_rat(code, t), o
        self.fail(node, 'value of type %s assigned to %s variable' % (t, want))

    def block(self, stmts, ind, assigned):
        """code of type Flow St Ret with `st` free; `assigned` = set of names definitely assigned"""
        pad = '  ' * ind
        if not stmts:
            return pad + 'Flow.next st'
        s, rest = stmts[0], stmts[1:]
        if isinstance(s, ast.Expr) and isinstance(s.value, ast.Constant):
            return self.block(rest, ind, assigned)          # docstring
        if isinstance(s, ast.Pass):
            return self.block(rest, ind, assigned)
        if isinstance(s, ast.FunctionDef):
            return self.block(rest, ind, assigned)          # hoisted
        if isinstance(s, ast.Assert):
            c, tc, oc = self.cxr(s.test, assigned)
            if tc != 'bool':
                self.fail(s, 'assert of a non-boolean')
            restc = self.block(rest, ind, assigned)
            if oc:
                v = self.fresh()
                return pad + 'Flow.ofOpt (%s) fun %s =>\n%sif %s then\n%s\n%selse Flow.err' % (c, v, pad, v, restc, pad)
            return pad + 'if %s then\n%s\n%selse Flow.err' % (c, restc, pad)
        if isinstance(s, ast.Return):
            if s.value is None:
                self.fail(s, 'return without value')
            elts = s.value.elts if isinstance(s.value, ast.Tuple) else [s.value]
            vals = [self.cxr(x, assigned) for x in elts]
            rt = tuple(t for _, t, _ in vals)
            if self.ret_tuple is None:
                self.ret_tuple = rt
            elif self.ret_tuple != rt:
                if len(rt) == 1 and len(self.ret_tuple) == 1 and {rt[0], self.ret_tuple[0]} == {'int', 'rat'}:
                    self.ret_tuple = ('rat',)
                else:
                    self.fail(s, 'return types differ: %s / %s' % (self.ret_tuple, rt))
            want = self.ret_tuple
            code, o = self.lift([self.coerce(c, t, oo, w, s) for (c, t, oo), w in zip(vals, want)],
                                lambda n: '(%s)' % ', '.join(n))
            if o:
                v = self.fresh()
                return pad + 'Flow.ofOpt (%s) fun %s => Flow.ret %s' % (code, v, v)
            return pad + 'Flow.ret %s' % code
        if isinstance(s, (ast.Assign, ast.AugAssign)):
            return self.assign(s, rest, ind, assigned)
        if isinstance(s, ast.If) and isinstance(s.test, ast.Constant) and s.test.value is True and not s.orelse:
            return self.block(list(s.body) + rest, ind, assigned)          # `with nogil:` block
        if isinstance(s, ast.If) and getattr(self, 'kinds', None) and self.const_of(s.test) is not None:
            # decided by the specialisation: only the live branch is translated
            live = s.body if self.const_of(s.test) else s.orelse
            ends = bool(live) and isinstance(live[-1], (ast.Return, ast.Raise))
            return self.block(list(live) + ([] if ends else rest), ind, assigned)
        if isinstance(s, ast.Assert) and getattr(self, 'kinds', None) and self.const_of(s.test) is True:
            return self.block(rest, ind, assigned)
        if isinstance(s, ast.Raise):
            return pad + 'Flow.err'
        if isinstance(s, ast.Expr) and isinstance(s.value, ast.Call) and isinstance(s.value.func, ast.Name) and s.value.func.id == 'print':
            # debug output: nothing is printed in the model, but the arguments are evaluated (they can raise)
            lines_ = []
            for a_ in s.value.args:
                c_, t_, o_ = self.cxr(a_, assigned)
                if o_:
                    lines_.append(pad + 'Flow.ofOpt (%s) fun _ =>' % c_)
            return ''.join(l + '\n' for l in lines_) + self.block(rest, ind, assigned)
        if isinstance(s, ast.If):
            c, tc, oc = self.cxr(s.test, assigned)
            if tc == 'int' and self.tr.pyx:
                c, oc2 = self.lift([(c, oc)], lambda n: 'decide (%s ≠ 0)' % n[0]); tc, oc = 'bool', oc2
            if tc != 'bool':
                self.fail(s, 'condition is not boolean')
            a1, a2 = set(assigned), set(assigned)
            saved = dict(self.alias)
            tb = self.block(s.body, ind + 2, a1)
            al1 = self.alias; self.alias = dict(saved)
            eb = self.block(s.orelse, ind + 2, a2)
            al2 = self.alias; self.alias = dict(saved)
            for nm in set(al1) | set(al2):
                if not (al1.get(nm, nm) == al2.get(nm, nm) == saved.get(nm, nm)):
                    self.poison.add(nm)
            both = a1 & a2
            if oc:
                v = self.fresh()
                code = pad + 'Flow.ofOpt (%s) fun %s =>\n%s  if %s then\n%s\n%s  else\n%s' % (c, v, pad, v, tb, pad, eb)
            else:
                code = pad + 'if %s then\n%s\n%selse\n%s' % (c, tb, pad, eb)
            if not rest:
                assigned |= both
                return code
            assigned |= both
            return pad + 'Flow.bind (\n%s) fun st =>\n%s' % (code, self.block(rest, ind, assigned))
        if isinstance(s, ast.While):
            if s.orelse:
                self.fail(s, 'while-else')
            k = self.new_loop(s.test, s.body, assigned)
            restc = self.block(rest, ind, assigned)
            return pad + 'Flow.bind (%s.loop%d F F st) fun st =>\n%s' % (self.qual, k, restc)
        if isinstance(s, ast.For):
            if s.orelse:
                self.fail(s, 'for-else')
            it = s.iter
            if isinstance(it, ast.Name) and getattr(self, 'kinds', {}).get(it.id) == 'pairs' and isinstance(s.target, ast.Name):
                # `for ival in interval:` over a list of (a, b) pairs, given as the two parallel lists
                # `interval_lo`, `interval_hi`: an index loop that binds the pair's two components
                v, L = s.target.id, it.id
                self.nloop_pairs = getattr(self, 'nloop_pairs', 0) + 1
                kname = '_k%d' % self.nloop_pairs
                self.kinds[v] = 'pair'
                for fld, src_ in ((v + '_0', L + '_lo'), (v + '_1', L + '_hi')):
                    if fld not in self.types:
                        self.types[fld] = 'rat'; self.order.append(fld)
                if kname not in self.types:
                    self.types[kname] = 'int'; self.order.append(kname)
                head = [ast.Assign(targets=[ast.Name(id=v + '_0', ctx=ast.Store())],
                                   value=ast.Subscript(value=ast.Name(id=L + '_lo', ctx=ast.Load()), slice=ast.Name(id=kname, ctx=ast.Load()), ctx=ast.Load()), lineno=s.lineno),
                        ast.Assign(targets=[ast.Name(id=v + '_1', ctx=ast.Store())],
                                   value=ast.Subscript(value=ast.Name(id=L + '_hi', ctx=ast.Load()), slice=ast.Name(id=kname, ctx=ast.Load()), ctx=ast.Load()), lineno=s.lineno)]
                rng_ = ast.Call(func=ast.Name(id='range', ctx=ast.Load()), args=[ast.Call(func=ast.Name(id='len', ctx=ast.Load()), args=[ast.Name(id=L + '_lo', ctx=ast.Load())], keywords=[])], keywords=[])
                new_for = ast.For(target=ast.Name(id=kname, ctx=ast.Store()), iter=rng_, body=head + list(s.body), orelse=[], lineno=s.lineno)
                return self.block([new_for] + rest, ind, assigned)
            if not (isinstance(it, ast.Call) and isinstance(it.func, ast.Name) and it.func.id in ('range', 'xrange')
                    and len(it.args) == 1 and isinstance(s.target, ast.Name)):
                self.fail(s, 'for loop other than `for i in range(n)`')
            i = s.target.id
            bound = it.args[0]
            written = {n.id for st_ in s.body for n in ast.walk(st_) if isinstance(n, ast.Name) and isinstance(n.ctx, ast.Store)}
            bound_names = {n.id for n in ast.walk(bound) if isinstance(n, ast.Name)}
            if i in written or (bound_names & written):
                self.fail(s, 'loop variable or bound assigned in the loop body')
            def uses(node):
                if isinstance(node, ast.For) and isinstance(node.target, ast.Name) and node.target.id == i:
                    return any(isinstance(n, ast.Name) and n.id == i for n in ast.walk(node.iter))
                if isinstance(node, ast.Name) and node.id == i:
                    return True
                return any(uses(ch) for ch in ast.iter_child_nodes(node))
            for later in rest:
                if uses(later):
                    self.fail(s, 'loop variable used after the loop')
            init = ast.Assign(targets=[ast.Name(id=i, ctx=ast.Store())], value=ast.Constant(value=0), lineno=s.lineno)
            test = ast.Compare(left=ast.Name(id=i, ctx=ast.Load()), ops=[ast.Lt()], comparators=[bound])
            pre = []
            if getattr(s, 'brk_name', None):
                pre = [_assign(s.brk_name, False)]
                test = ast.BoolOp(op=ast.And(), values=[ast.UnaryOp(op=ast.Not(), operand=ast.Name(id=s.brk_name, ctx=ast.Load())), test])
            inc = ast.AugAssign(target=ast.Name(id=i, ctx=ast.Store()), op=ast.Add(), value=ast.Constant(value=1), lineno=s.lineno)
            wh = ast.While(test=test, body=list(s.body) + [inc], orelse=[], lineno=s.lineno)
            return self.block(pre + [init, wh] + rest, ind, assigned)
        self.fail(s, 'statement %s' % type(s).__name__)

    def cxr(self, e, assigned):
        """expression in a position where all read locals must be definitely assigned"""
        for n in ast.walk(e):
            if isinstance(n, ast.Name) and isinstance(n.ctx, ast.Load) and n.id in self.types \
                    and self.alias.get(n.id, n.id) not in assigned:
                self.fail(e, 'variable %s may be read before assignment' % n.id)
        return self.cx(e)

    def assign(self, s, rest, ind, assigned):
        pad = '  ' * ind
        if isinstance(s, ast.AugAssign):
            tgt = s.target
            load = ast.Name(id=tgt.id, ctx=ast.Load()) if isinstance(tgt, ast.Name) else \
                ast.Subscript(value=tgt.value, slice=tgt.slice, ctx=ast.Load())
            value = ast.BinOp(left=load, op=s.op, right=s.value)
            targets = [tgt]; values = [value]
        else:
            t = s.targets[0]
            if isinstance(t, ast.Tuple) and isinstance(s.value, ast.Call):
                return self.assign_from_call(s, t, rest, ind, assigned)
            if isinstance(t, ast.Tuple):
                targets = list(t.elts); values = list(s.value.elts)
            else:
                targets = [t]; values = [s.value]
        # evaluate all right-hand sides first (tuple assignment), then store
        lines = []
        evald = []
        for v in values:
            c, tv, o = self.cxr(v, assigned)
            evald.append((c, tv, o))
        stores = []
        for tgt, (c, tv, o) in zip(targets, evald):
            if isinstance(tgt, ast.Name):
                fid = tgt.id
                if tv == 'arr' and self.types[tgt.id] != 'arr':
                    fid = tgt.id + '_arr'
                    if fid not in self.types:
                        self.fail(s, 'array assigned to scalar variable %s' % tgt.id)
                    self.alias[tgt.id] = fid
                elif tgt.id in self.alias:
                    del self.alias[tgt.id]
                self.poison.discard(tgt.id)
                want = self.types[fid]
                c, o = self.coerce(c, tv, o, want, s)
                if o:
                    v = self.fresh(); lines.append(pad + 'Flow.ofOpt (%s) fun %s =>' % (c, v)); c = v
                elif len(targets) > 1:
                    v = self.fresh(); lines.append(pad + 'let %s : %s := %s' % (v, LEAN_TY[want], c)); c = v
                stores.append(('name', fid, c))
            elif isinstance(tgt, ast.Subscript) and isinstance(tgt.value, ast.Name) and self.types.get(tgt.value.id) == 'arr':
                arr = tgt.value.id
                if arr not in assigned:
                    self.fail(s, 'array %s written before assignment' % arr)
                if isinstance(tgt.slice, ast.Slice):
                    sl = tgt.slice
                    if sl.step is not None or sl.lower is None or sl.upper is None:
                        self.fail(s, 'slice assignment needs both bounds')
                    lo = self.cxr(sl.lower, assigned); hi = self.cxr(sl.upper, assigned)
                    if lo[1] != 'int' or hi[1] != 'int' or tv != 'arr':
                        self.fail(s, 'slice assignment types')
                    # pySetSlice itself may fail, so always go through Option
                    parts = [(lo[0], lo[2]), (hi[0], hi[2]), (c, o)]
                    names = []
                    for pc, po in parts:
                        if po:
                            v = self.fresh(); lines.append(pad + 'Flow.ofOpt (%s) fun %s =>' % (pc, v)); names.append(v)
                        else:
                            names.append(pc)
                    v = self.fresh()
                    lines.append(pad + 'Flow.ofOpt (pySetSlice st.%s %s %s %s) fun %s =>' % (lname(arr), names[0], names[1], names[2], v))
                    stores.append(('name', arr, v))
                else:
                    i, ti, oi = self.cxr(tgt.slice, assigned)
                    if ti != 'int':
                        self.fail(s, 'index is not an integer')
                    c, o = self.coerce(c, tv, o, 'rat', s)
                    if o:
                        v = self.fresh(); lines.append(pad + 'Flow.ofOpt (%s) fun %s =>' % (c, v)); c = v
                    if oi:
                        v = self.fresh(); lines.append(pad + 'Flow.ofOpt (%s) fun %s =>' % (i, v)); i = v
                    v = self.fresh()
                    lines.append(pad + 'Flow.ofOpt (%s st.%s %s %s) fun %s =>' % (self.tr.SET, lname(arr), i, c, v))
                    stores.append(('name', arr, v))
            else:
                self.fail(s, 'assignment target')
        for _, name, c in stores:
            lines.append(pad + 'let st : %s.St := %s' % (self.qual, self.set_field(name, c)))
            assigned.add(name)
        return '\n'.join(lines) + '\n' + self.block(rest, ind, assigned)

    def assign_from_call(self, s, t, rest, ind, assigned):
        pad = '  ' * ind
        f = s.value.func
        target = self.nested.get(f.id) if isinstance(f, ast.Name) else None
        if target is None or len(t.elts) != len(target.ret_types) or not all(isinstance(x, ast.Name) for x in t.elts):
            self.fail(s, 'tuple assignment from this call')
        saved_ret = target.ret
        target.ret = 'tuple'
        try:
            c, _, o = self.cx_call(s.value)
        finally:
            target.ret = saved_ret
        v = self.fresh()
        lines = [pad + 'Flow.ofOpt (%s) fun %s =>' % (c, v)]
        n = len(t.elts)
        for k, (x, rt) in enumerate(zip(t.elts, target.ret_types)):
            proj = v + ''.join(['.2'] * k) + ('.1' if k < n - 1 else '')
            want = self.types[x.id]
            code = proj if rt == want else self.to_rat(proj, rt)
            lines.append(pad + 'let st : %s.St := %s' % (self.qual, self.set_field(x.id, code)))
            assigned.add(x.id)
        return '\n'.join(lines) + '\n' + self.block(rest, ind, assigned)

    def new_loop(self, test, body, assigned):
        self.nloop += 1
        k = self.nloop
        c, tc, oc = self.cxr(test, assigned)
        if tc != 'bool':
            self.fail(test, 'loop condition is not boolean')
        cond = c if oc else 'some (%s)' % c
        inner = set(assigned)
        saved = dict(self.alias)
        bodyc = self.block(body, 1, inner)
        if self.alias != saved:
            self.fail(test, 'a variable changes its type inside a loop')       # names first assigned inside the body are not assigned after the loop
        q = self.qual
        self.loops.append(
            'def %s.loop%d_cond (st : %s.St) : Option Bool :=\n  %s\n\n' % (q, k, q, cond) +
            'def %s.loop%d_body (F : Nat) (st : %s.St) : Flow %s.St %s.Ret :=\n%s\n\n' % (q, k, q, q, q, bodyc) +
            '/-- `while` loop %d of `%s`; the first argument is the fuel handed to callees, the second the\n'
            '    remaining iterations (exhausted fuel is an error, never a silent stop). -/\n' % (k, q) +
            'def %s.loop%d (F : Nat) : Nat → %s.St → Flow %s.St %s.Ret\n' % (q, k, q, q, q) +
            '  | 0, _ => Flow.err\n'
            '  | n + 1, st =>\n'
            '    Flow.ofOpt (%s.loop%d_cond st) fun c =>\n' % (q, k) +
            '      if c then Flow.bind (%s.loop%d_body F st) (%s.loop%d F n) else Flow.next st\n' % (q, k, q, k))
        return k

    # ---------- whole function
    def safety_checks(self):
        """reject the patterns whose Python meaning the value-semantics translation would not reproduce
        (reference semantics of arrays, loop-variable leakage, bounds re-evaluated); found by the fourth audit"""
        node = self.node

        def own_walk(root):
            """the nodes of this function, not those of nested function definitions"""
            stack = [root]
            while stack:
                x = stack.pop()
                yield x
                for ch in ast.iter_child_nodes(x):
                    if isinstance(ch, ast.FunctionDef) and ch is not root:
                        continue
                    stack.append(ch)
        # names that are mutated in place: a[i] = …, a[i:j] = …, a[i] += …
        mutated = set()
        for n in own_walk(node):
            tg = []
            if isinstance(n, ast.Assign):
                for t in n.targets:
                    tg += list(t.elts) if isinstance(t, ast.Tuple) else [t]
            elif isinstance(n, ast.AugAssign):
                tg = [n.target]
            for t in tg:
                if isinstance(t, ast.Subscript) and isinstance(t.value, ast.Name):
                    mutated.add(t.value.id)
        self.mutated = mutated
        for n in own_walk(node):
            if isinstance(n, ast.Assign) and len(n.targets) == 1:
                t, v = n.targets[0], n.value
                # tuple assignment with element targets: the stores would be made against the same old array
                if isinstance(t, ast.Tuple) and sum(isinstance(x, ast.Subscript) for x in t.elts) > 1:
                    self.fail(n, 'tuple assignment to several array elements')
                # aliases and views: `b = a`, `b = a[i:j]` share memory in numpy; sound only if neither is mutated
                if isinstance(t, ast.Name):
                    base = None
                    if isinstance(v, ast.Name):
                        base = v.id
                    elif isinstance(v, ast.Subscript) and isinstance(v.slice, ast.Slice) and isinstance(v.value, ast.Name):
                        base = v.value.id
                    if base is not None and base != t.id and (base in mutated or t.id in mutated) \
                            and (base in getattr(self, 'types', {}) or True):
                        # only arrays matter; scalars are immutable. The type is not known yet, so decide by use:
                        arrayish = base in mutated or t.id in mutated
                        if arrayish:
                            self.fail(n, 'array alias / view `%s = %s…` while one of them is modified in place' % (t.id, base))
        # for-loops: the variable must not be read outside loops that (re)bind it; the bound must not depend on
        # anything the body modifies (it is evaluated once in Python)
        fors = [n for n in own_walk(node) if isinstance(n, ast.For) and isinstance(n.target, ast.Name)]
        for f in fors:
            i = f.target.id
            inside = set()
            for g in fors:
                if g.target.id == i:
                    for b in g.body:
                        inside |= {id(x) for x in ast.walk(b)}
            for x in own_walk(node):
                if isinstance(x, ast.Name) and x.id == i and isinstance(x.ctx, ast.Load) and id(x) not in inside:
                    self.fail(f, 'loop variable %s is read outside its loop' % i)
            bound_names = {x.id for x in ast.walk(f.iter) if isinstance(x, ast.Name)}
            # a name that occurs in the bound only as `len(name)` is used for its length, which element stores keep
            len_only = set(bound_names)
            for x in ast.walk(f.iter):
                if isinstance(x, ast.Name):
                    par_ok = any(isinstance(c, ast.Call) and isinstance(c.func, ast.Name) and c.func.id == 'len'
                                 and len(c.args) == 1 and c.args[0] is x for c in ast.walk(f.iter))
                    if not par_ok:
                        len_only.discard(x.id)
            rebound, elem_mut = set(), set()
            for b in f.body:
                for x in ast.walk(b):
                    if isinstance(x, ast.Name) and isinstance(x.ctx, ast.Store):
                        rebound.add(x.id)
                    if isinstance(x, ast.Subscript) and isinstance(x.ctx, ast.Store) and isinstance(x.value, ast.Name):
                        elem_mut.add(x.value.id)
            bad = (bound_names & rebound) | ((bound_names - len_only) & elem_mut)
            if bad:
                self.fail(f, 'the bound of the for loop depends on %s, which the body modifies' % sorted(bad))

    def check_cdef_types(self):
        """pyx mode: the `cdef T names` declarations (marker statements left by pyx2py) against the inferred types:
        a `cdef int` local that receives a double truncates in C, an inferred Int declared `double` divides as a double"""
        cmap = {'int': 'int', 'long': 'int', 'bint': 'int', 'double': 'rat', 'float': 'rat', 'double[:]': 'arr'}
        for n in ast.walk(self.node):
            if isinstance(n, ast.Expr) and isinstance(n.value, ast.Constant) and isinstance(n.value.value, str):
                txt = n.value.value
                if txt.startswith('__cdef__ '):
                    ctype, names = txt[len('__cdef__ '):].split(' : ')
                    want = cmap.get(ctype)
                    if want is None:
                        self.fail(n, 'cdef type %s' % ctype)
                    for nm in names.split():
                        have = self.types.get(nm)
                        if have is None:
                            continue            # declared but never assigned
                        if have != want and not (have == 'int' and want == 'rat' and False):
                            self.fail(n, 'cdef %s %s: the translation infers %s for it' % (ctype, nm, have))
                elif txt.startswith('__cdef_ret__ '):
                    self.cdef_ret = cmap.get(txt[len('__cdef_ret__ '):].strip())

    def strip_coercions(self):
        """pyx mode: the transliterator turns the C parameter types into leading statements
        `x = _mv(x)` / `x = float(x)` / `x = int(x)`; they ARE the signature"""
        names = [x.arg for x in self.node.args.args]
        types = {}
        body = list(self.node.body)
        k = 0
        while k < len(body):
            st_ = body[k]
            if isinstance(st_, ast.Expr) and isinstance(st_.value, ast.Constant):
                k += 1; continue
            if (isinstance(st_, ast.Assign) and len(st_.targets) == 1 and isinstance(st_.targets[0], ast.Name)
                    and isinstance(st_.value, ast.Call) and isinstance(st_.value.func, ast.Name)
                    and st_.value.func.id in ('_mv', 'float', 'int') and len(st_.value.args) == 1
                    and isinstance(st_.value.args[0], ast.Name) and st_.value.args[0].id == st_.targets[0].id
                    and st_.targets[0].id in names and st_.targets[0].id not in types):
                types[st_.targets[0].id] = {'_mv': 'arr', 'float': 'rat', 'int': 'int'}[st_.value.func.id]
                del body[k]
                continue
            break
        missing = [n for n in names if n not in types]
        for n in missing:
            # an untyped parameter is a Python object; every call site is type-checked against this
            # choice (`cx_call`), so a caller passing anything but a double is rejected
            types[n] = 'rat'
        self.untyped = missing
        self.node.body = body
        self.params = [(n, types[n]) for n in names]
        self.types = dict(self.params)
        self.order = list(names)

    def translate(self):
        node = self.node
        a = node.args
        # defaults and decorators do not enter the translation (every call site passes all arguments), but
        # they are recorded in the generated text, so that a change of either shows up in the comparison
        dflt = [ast.unparse(d) for d in a.defaults]
        note = ''
        if dflt:
            note += '; Python defaults of the last %d parameters: %s' % (len(dflt), ', '.join(dflt))
        if node.decorator_list:
            note += '; decorators: %s' % ', '.join(ast.unparse(d) for d in node.decorator_list)
        self.sig_note = (getattr(self, 'sig_note', '') or '') + (note if not getattr(self, 'sig_note', '') else
                                                                  ('; decorators: %s' % ', '.join(ast.unparse(d) for d in node.decorator_list) if node.decorator_list else ''))
        if a.vararg or a.kwarg or a.kwonlyargs or a.posonlyargs:
            self.fail(node, 'argument kinds')
        names = [x.arg for x in a.args]
        if self.params is None:
            self.strip_coercions()
        if names != [p for p, _ in self.params]:
            self.fail(node, 'parameter list %s differs from the signature table %s' % (names, [p for p, _ in self.params]))
        out = []
        self.safety_checks()
        if any(isinstance(n, (ast.Break, ast.Continue)) for n in ast.walk(node)):
            node.body = desugar_break_continue(node.body, [0])
        # nested function definitions are hoisted (they must not use variables of the enclosing function)
        for s in node.body:
            if isinstance(s, ast.FunctionDef):
                q = self.qual + '.' + s.name
                sig = self.tr.sigs.get(q)
                if sig is None and getattr(self, 'kinds', None) is not None:
                    # class mode: helper closures; a parameter that is indexed is a pair, the others floats
                    sub_kinds, sig = {}, []
                    for a_ in s.args.args:
                        idx = any(isinstance(n, ast.Subscript) and isinstance(n.value, ast.Name) and n.value.id == a_.arg for n in ast.walk(s))
                        if idx:
                            sub_kinds[a_.arg] = 'pair'; sig += [(a_.arg + '_0', 'rat'), (a_.arg + '_1', 'rat')]
                        else:
                            sig.append((a_.arg, 'rat'))
                    uses_self = any(isinstance(n, ast.Name) and n.id == 'self' for n in ast.walk(s))
                    if uses_self:
                        sig = [(f_, 'arr') for f_ in self.self_fields] + sig
                    import copy as _copy
                    orig_args = list(s.args.args)
                    s = _copy.deepcopy(s)
                    s.args.args = [ast.arg(arg=n_) for n_, _ in sig]
                    sub = Fn(self.tr, q, s, sig)
                    sub.orig_args = orig_args
                    sub.kinds = sub_kinds
                    sub.self_fields = self.self_fields if uses_self else []
                    sub.closure_self = uses_self
                    sub.pair_params = sub_kinds
                    sub.infer_locals()
                    out.append(sub.translate())
                    self.nested[s.name] = sub
                    continue
                if sig is None:
                    self.fail(s, 'nested function without signature')
                sub = Fn(self.tr, q, s, sig)
                free = {n.id for n in ast.walk(s) if isinstance(n, ast.Name)} - {p for p, _ in sig}
                sub.infer_locals()
                free -= set(sub.types)
                free -= {'min', 'max', 'abs', 'len'}
                if free:
                    self.fail(s, 'nested function uses outer names %s' % sorted(free))
                out.append(sub.translate())
                self.nested[s.name] = sub
        if getattr(self, 'kinds', None):
            # loops over a list of pairs bind a pair: known before the types of the locals are inferred
            for n in ast.walk(node):
                if isinstance(n, ast.For) and isinstance(n.iter, ast.Name) and self.kinds.get(n.iter.id) == 'pairs' \
                        and isinstance(n.target, ast.Name):
                    self.kinds[n.target.id] = 'pair'
                    for fld in (n.target.id + '_0', n.target.id + '_1'):
                        if fld not in self.types:
                            self.types[fld] = 'rat'; self.order.append(fld)
        self.infer_locals()
        if self.tr.pyx:
            self.check_cdef_types()
        self.ret_tuple = None
        self.nfresh = 0
        assigned = {p for p, _ in self.params}
        # the return type must be known while the body is generated (self-calls do not occur)
        self.ret_tuple = self.find_ret()
        main = self.block(node.body, 1, assigned)
        rt = self.ret_tuple
        cr = getattr(self, 'cdef_ret', None)
        if cr is not None and len(rt) == 1 and rt[0] != cr and not (rt[0] == 'int' and cr == 'rat'):
            self.fail(node, 'C return type %s, but the routine returns %s' % (cr, rt[0]))
        self.ret = rt[0] if len(rt) == 1 else None
        self.ret_types = rt
        q = self.qual
        ret_ty = ' × '.join(LEAN_TY[t] for t in rt)
        fields = '\n'.join('  %s : %s%s' % (lname(n), LEAN_TY[self.types[n]],
                                           '' if n in dict(self.params) else ' := ' + DEFAULT[self.types[n]])
                           for n in self.order)
        out.append('/-- state of `%s` (line %d): parameters, then locals in order of first assignment -/\n' % (q, node.lineno) +
                   'structure %s.St where\n%s\n\n' % (q, fields) +
                   'abbrev %s.Ret := %s\n\n' % (q, ret_ty) +
                   ''.join(l + '\n' for l in self.loops) +
                   'def %s.main (F : Nat) (st : %s.St) : Flow %s.St %s.Ret :=\n%s\n\n' % (q, q, q, q, main) +
                   '/-- `%s(%s)`; `F` bounds the iterations of every loop%s -/\n' % (q, ', '.join(n for n, _ in self.params), self.sig_note) +
                   'def %s (F : Nat) %s : Option %s.Ret :=\n' % (q, ' '.join('(%s : %s)' % (lname(n), LEAN_TY[t]) for n, t in self.params), q) +
                   '  Flow.run (%s.main F { %s })\n' % (q, ', '.join('%s := %s' % (lname(n), lname(n)) for n, _ in self.params)))
        return '\n'.join(out)

    def find_ret(self):
        for n in ast.walk(self.node):
            if isinstance(n, ast.Return) and n.value is not None:
                # returns inside nested defs belong to them
                elts = n.value.elts if isinstance(n.value, ast.Tuple) else [n.value]
                try:
                    ts = tuple(self.cx(x)[1] for x in elts)
                except Untranslatable:
                    continue
                if self.owner_of(n) is self.node:
                    return tuple('rat' if t == 'int' and self.any_rat_return(len(ts)) else t for t in ts)
        self.fail(self.node, 'no return statement')

    def any_rat_return(self, n):
        return False

    def owner_of(self, ret):
        for n in ast.walk(self.node):
            if isinstance(n, ast.FunctionDef) and n is not self.node:
                if any(r is ret for r in ast.walk(n)):
                    return n
        return self.node



def source_digest(repo, relpaths):
    """one comment line per source file with the sha256 of its text (line endings normalised). The translation
    looks only at the translated definitions; everything else in those files (imports, module- and class-level
    statements, other methods, `__init__`, later re-bindings, C directives) can change what the translated
    names MEAN without changing the generated definitions. With the digest in the generated text every edit of a
    source file makes the comparison report `changed` (the proofs are then re-checked and, for an edit outside
    the translated definitions, still check — which is reported as such and calls for a look at the diff)."""
    import hashlib
    out = []
    for rp in relpaths:
        pth = os.path.join(repo, rp)
        if os.path.exists(pth):
            data = open(pth, 'rb').read().replace(b'\r\n', b'\n')
            out.append('-- source %s sha256 %s' % (rp, hashlib.sha256(data).hexdigest()[:24]))
        else:
            out.append('-- source %s absent' % rp)
    return '\n'.join(out) + '\n'


def check_no_rebinding(tree, names, where, cls=None):
    """the translated names must be bound exactly once, by a plain `def`, in their module / class"""
    body = tree.body
    if cls is not None:
        cs = [n for n in body if isinstance(n, ast.ClassDef) and n.name == cls]
        if len(cs) != 1:
            raise Untranslatable('%s: class %s is defined %d times' % (where, cls, len(cs)))
        for n in body:
            for t in (n.targets if isinstance(n, ast.Assign) else [n.target] if isinstance(n, (ast.AugAssign, ast.AnnAssign)) else []):
                if isinstance(t, ast.Attribute) and isinstance(t.value, ast.Name) and t.value.id == cls:
                    raise Untranslatable('%s: %s.%s is re-bound at module level' % (where, cls, t.attr))
                if isinstance(t, ast.Name) and t.id == cls:
                    raise Untranslatable('%s: %s is re-bound at module level' % (where, cls))
        body = cs[0].body
    for nm in names:
        defs = [n for n in body if isinstance(n, (ast.FunctionDef, ast.AsyncFunctionDef, ast.ClassDef)) and n.name == nm]
        assigns = [n for n in body if isinstance(n, (ast.Assign, ast.AugAssign, ast.AnnAssign))
                   and any(isinstance(x, ast.Name) and x.id == nm and isinstance(x.ctx, ast.Store) for x in ast.walk(n))]
        if len(defs) != 1 or assigns:
            raise Untranslatable('%s: %s is bound %d times by def and %d times by assignment' % (where, nm, len(defs), len(assigns)))


class Translator:
    pyx = False
    IDX, SET = 'pyIdx', 'pySet'
    methods = {}

    def __init__(self, repo):
        self.repo = repo
        self.fns = {}
        self.sigs = {}

    def run(self):
        out = ['/-\n  Gen/Backend.lean — GENERATED by harness/py2lean.py from the pure-Python backend of /repo.\n'
               '  Do not edit: the check regenerates this text from the current tree on every run and compares.\n-/\n'
               'import PySpikeVerif.Gen.Prelude\n'
               'set_option linter.unusedVariables false\n' +
               source_digest(self.repo, ['pyspike/cython/python_backend.py', 'pyspike/cython/directionality_python_backend.py']) +
               'namespace PySpike.Gen\n']
        for fname in ('python_backend.py', 'directionality_python_backend.py'):
            path = os.path.join(self.repo, 'pyspike', 'cython', fname)
            src = open(path, 'rb').read().decode('utf-8')
            tree = ast.parse(src)
            sigs = SIGS[fname]
            check_no_rebinding(tree, [k for k in sigs if '.' not in k], fname)
            self.sigs.update(sigs)
            out.append('-- ' + '=' * 70 + '\n-- pyspike/cython/%s\n' % fname)
            seen = set()
            for node in tree.body:
                if isinstance(node, ast.FunctionDef):
                    if node.name not in sigs:
                        raise Untranslatable('%s: function %s has no entry in the signature table' % (fname, node.name))
                    fn = Fn(self, node.name, node, sigs[node.name])
                    out.append(fn.translate())
                    self.fns[node.name] = fn
                    seen.add(node.name)
                elif isinstance(node, (ast.Import, ast.ImportFrom)):
                    continue
                elif isinstance(node, ast.Expr) and isinstance(node.value, ast.Constant):
                    continue
                else:
                    raise Untranslatable('%s line %d: module-level statement %s' % (fname, node.lineno, type(node).__name__))
            missing = {k for k in sigs if '.' not in k} - seen
            if missing:
                raise Untranslatable('%s: functions %s not found' % (fname, sorted(missing)))
        out.append('end PySpike.Gen\n')
        return '\n'.join(out)


class PyxTranslator(Translator):
    """the Cython sources, through harness/pyx2py.py (C types → coercions, `/` → `_cdiv`, libc fmax/fmin/fabs,
    `with nogil` → block) and then the same statement/expression translation, with C indexing: a negative or
    out-of-range index is an error (undefined behaviour under boundscheck=False, wraparound=False)"""
    pyx = True
    IDX, SET = 'cIdx', 'cSet'
    SKIP = {'spike_distance_rf_cython': 'dead code: never called by the API',
            'isi_avrg_rf_cython': 'dead code: helper of spike_distance_rf_cython'}

    def run(self):
        from . import pyx2py
        out = ['/-\n  Gen/BackendPyx.lean — GENERATED by harness/py2lean.py from the Cython sources of /repo\n'
               '  (pyspike/cython/*.pyx, transliterated by harness/pyx2py.py). Do not edit.\n-/\n'
               'import PySpikeVerif.Gen.Prelude\n'
               'set_option linter.unusedVariables false\n' +
               source_digest(self.repo, ['pyspike/cython/%s.pyx' % m_ for m_ in pyx2py.PYX_FILES] +
                             ['pyspike/cython/%s.pxd' % m_ for m_ in pyx2py.PYX_FILES if os.path.exists(os.path.join(self.repo, 'pyspike', 'cython', m_ + '.pxd'))]) +
               'namespace PySpike.GenPyx\nopen PySpike.Gen\n']
        mapping = {n: 'pyx_' + n for n in pyx2py.PYX_FILES}
        exported = {}
        for mod in pyx2py.PYX_FILES:
            path = os.path.join(self.repo, 'pyspike', 'cython', mod + '.pyx')
            try:
                code = pyx2py.translate(open(path).read(), mapping)
            except pyx2py.Untranslatable as ex:
                raise Untranslatable('%s.pyx: %s' % (mod, ex))
            tree = ast.parse(code)
            names_ = [n.name for n in tree.body if isinstance(n, ast.FunctionDef) and not n.name.startswith('_') and n.name not in ('fabs', 'fmax', 'fmin')]
            check_no_rebinding(tree, sorted(set(names_)), mod + '.pyx')
            out.append('-- ' + '=' * 70 + '\n-- pyspike/cython/%s.pyx\n' % mod)
            self.fns = {}
            for node in tree.body:
                if isinstance(node, ast.ImportFrom) and node.module and node.module.startswith('pyx_'):
                    for al in node.names:
                        src_mod = node.module[4:]
                        if (src_mod, al.name) not in exported:
                            raise Untranslatable('%s.pyx imports unknown %s.%s' % (mod, src_mod, al.name))
                        self.fns[al.asname or al.name] = exported[(src_mod, al.name)]
            seen_prelude_end = False
            for node in tree.body:
                if not isinstance(node, ast.FunctionDef):
                    continue
                if node.name.startswith('_') or node.name in ('fabs', 'fmax', 'fmin'):
                    continue
                if node.name in self.SKIP:
                    out.append('-- %s: not translated (%s)\n' % (node.name, self.SKIP[node.name]))
                    continue
                fn = Fn(self, mod + '.' + node.name, node, None)
                out.append(fn.translate())
                self.fns[node.name] = fn
                exported[(mod, node.name)] = fn
        out.append('end PySpike.GenPyx\n')
        return '\n'.join(out)


class ClassTranslator(Translator):
    """methods of the three function classes, specialised by the kind of their optional / polymorphic
    argument (`interval` = None | a pair; `t` = a scalar): tests such as `interval is None`,
    `isinstance(t, Sequence)` are decided by the specialisation and only the live branch is translated.
    `self.x` etc. become record fields; `np.searchsorted`, `np.sum` are the Prelude functions."""
    SPECS = [
        # (file, class, method, Lean name, fields of self, [(param, kind)])
        ('PieceWiseConstFunc.py', 'PieceWiseConstFunc', 'integral', 'pwc_integral_all', ['x', 'y'], [('interval', 'none')]),
        ('PieceWiseConstFunc.py', 'PieceWiseConstFunc', 'integral', 'pwc_integral', ['x', 'y'], [('interval', 'pair')]),
        ('PieceWiseConstFunc.py', 'PieceWiseConstFunc', 'avrg', 'pwc_avrg_all', ['x', 'y'], [('interval', 'none')]),
        ('PieceWiseConstFunc.py', 'PieceWiseConstFunc', 'avrg', 'pwc_avrg', ['x', 'y'], [('interval', 'pair')]),
        ('PieceWiseConstFunc.py', 'PieceWiseConstFunc', '__call__', 'pwc_call', ['x', 'y'], [('t', 'scalar')]),
        ('PieceWiseLinFunc.py', 'PieceWiseLinFunc', 'integral', 'pwl_integral_all', ['x', 'y1', 'y2'], [('interval', 'none')]),
        ('PieceWiseLinFunc.py', 'PieceWiseLinFunc', 'integral', 'pwl_integral', ['x', 'y1', 'y2'], [('interval', 'pair')]),
        ('PieceWiseLinFunc.py', 'PieceWiseLinFunc', 'avrg', 'pwl_avrg_all', ['x', 'y1', 'y2'], [('interval', 'none')]),
        ('PieceWiseLinFunc.py', 'PieceWiseLinFunc', 'avrg', 'pwl_avrg', ['x', 'y1', 'y2'], [('interval', 'pair')]),
        ('PieceWiseLinFunc.py', 'PieceWiseLinFunc', '__call__', 'pwl_call', ['x', 'y1', 'y2'], [('t', 'scalar')]),
        ('DiscreteFunc.py', 'DiscreteFunc', 'integral', 'disc_integral_all', ['x', 'y', 'mp'], [('interval', 'none')]),
        ('DiscreteFunc.py', 'DiscreteFunc', 'integral', 'disc_integral', ['x', 'y', 'mp'], [('interval', 'pair')]),
    ]
    # list-of-intervals forms (third file, imports Gen/Classes.lean for the single-interval `integral` they call)
    SPECS3 = [
        ('PieceWiseConstFunc.py', 'PieceWiseConstFunc', 'avrg', 'pwc_avrg_list', ['x', 'y'], [('interval', 'pairs')]),
        ('PieceWiseLinFunc.py', 'PieceWiseLinFunc', 'avrg', 'pwl_avrg_list', ['x', 'y1', 'y2'], [('interval', 'pairs')]),
        ('DiscreteFunc.py', 'DiscreteFunc', 'integral', 'disc_integral_list', ['x', 'y', 'mp'], [('interval', 'pairs')]),
    ]
    # a second generated file, so that the text of Gen/Classes.lean (and the proofs about it) stays as it is
    SPECS2 = [
        ('DiscreteFunc.py', 'DiscreteFunc', 'get_plottable_data', 'disc_plottable', ['x', 'y', 'mp'], [('averaging_window_size', 'int')]),
    ]

    def run(self, second=False):
        specs = {False: self.SPECS, True: self.SPECS2, 3: self.SPECS3}[second]
        fname_out = {False: 'Classes', True: 'Classes2', 3: 'Classes3'}[second]
        out = ['/-\n  Gen/%s.lean — GENERATED by harness/py2lean.py from the function classes of /repo\n'
               '  (pyspike/PieceWiseConstFunc.py, PieceWiseLinFunc.py, DiscreteFunc.py). Do not edit.\n-/\n'
               'import PySpikeVerif.Gen.Prelude\n'
               'set_option linter.unusedVariables false\n' % fname_out +
               source_digest(self.repo, sorted({'pyspike/' + sp[0] for sp in specs})) +
               'namespace PySpike.GenCls\nopen PySpike.Gen\n']
        self.methods = {}
        trees = {}
        if second == 3:
            # the methods of the first file are callable from here: translate them silently to fill the table
            first = ClassTranslator(self.repo)
            first.run(second=False)
            self.methods = dict(first.methods)
            out[0] = out[0].replace('import PySpikeVerif.Gen.Prelude\n', 'import PySpikeVerif.Gen.Prelude\nimport PySpikeVerif.Gen.Classes\n')
        for fname, cls, meth, lname_, fields, pk in specs:
            if fname not in trees:
                trees[fname] = ast.parse(open(os.path.join(self.repo, 'pyspike', fname), 'rb').read().decode('utf-8'))
            check_no_rebinding(trees[fname], [meth], fname, cls=cls)
            cnode = [n for n in trees[fname].body if isinstance(n, ast.ClassDef) and n.name == cls]
            if not cnode:
                raise Untranslatable('%s: class %s not found' % (fname, cls))
            mnode = [n for n in cnode[0].body if isinstance(n, ast.FunctionDef) and n.name == meth]
            if not mnode:
                raise Untranslatable('%s: method %s.%s not found' % (fname, cls, meth))
            import copy as _copy
            node = _copy.deepcopy(mnode[0])
            argn = [a.arg for a in node.args.args]
            if argn[0] != 'self' or argn[1:] != [p_ for p_, _ in pk]:
                # further parameters must have defaults and are specialised to them
                extra = argn[1 + len(pk):]
                if argn[0] != 'self' or argn[1:1 + len(pk)] != [p_ for p_, _ in pk] or len(node.args.defaults) < len(extra):
                    raise Untranslatable('%s.%s: parameter list %s' % (cls, meth, argn))
            params = [('self_' + f_, 'arr') for f_ in fields]
            kinds = {}
            for p_, k in pk:
                kinds[p_] = k
                if k == 'pair':
                    params += [(p_ + '_0', 'rat'), (p_ + '_1', 'rat')]
                elif k == 'scalar':
                    params.append((p_, 'rat'))
                elif k == 'int':
                    params.append((p_, 'int'))
                elif k == 'pairs':
                    params += [(p_ + '_lo', 'list'), (p_ + '_hi', 'list')]
            dfl = [ast.unparse(d) for d in node.args.defaults]
            node.args.args = [ast.arg(arg=n_) for n_, _ in params]
            node.args.defaults = []
            fn = Fn(self, lname_, node, params)
            fn.sig_note = ('; Python signature %s.%s(%s), defaults: %s' % (cls, meth, ', '.join(argn), ', '.join(dfl))) if dfl else ''
            fn.kinds = kinds
            fn.cls = cls
            fn.self_fields = ['self_' + f_ for f_ in fields]
            self.sigs = {}
            out.append('-- %s.%s  (%s)\n' % (cls, meth, ', '.join('%s: %s' % (a_, b_) for a_, b_ in pk)))
            out.append(fn.translate())
            self.methods[(cls, meth, tuple(k for _, k in pk))] = fn
        out.append('end PySpike.GenCls\n')
        return '\n'.join(out)


def generate(repo='/repo'):
    return Translator(repo).run()


def generate_classes(repo='/repo'):
    return ClassTranslator(repo).run()


def generate_classes2(repo='/repo'):
    return ClassTranslator(repo).run(second=True)


def generate_classes3(repo='/repo'):
    return ClassTranslator(repo).run(second=3)


class IsiLengthsTranslator(Translator):
    """pyspike/isi_lengths.py: `isi_lengths(spike_times, t_start, t_end)` on a Python list of floats"""

    def run(self):
        out = ['/-\n  Gen/IsiLengths.lean — GENERATED by harness/py2lean.py from pyspike/isi_lengths.py of /repo. Do not edit.\n-/\n'
               'import PySpikeVerif.Gen.Prelude\n'
               'set_option linter.unusedVariables false\n' +
               source_digest(self.repo, ['pyspike/isi_lengths.py']) +
               'namespace PySpike.GenIsiLen\nopen PySpike.Gen\n']
        path = os.path.join(self.repo, 'pyspike', 'isi_lengths.py')
        tree = ast.parse(open(path, 'rb').read().decode('utf-8'))
        check_no_rebinding(tree, ['isi_lengths'], 'isi_lengths.py')
        node = [n for n in tree.body if isinstance(n, ast.FunctionDef) and n.name == 'isi_lengths']
        if not node:
            raise Untranslatable('isi_lengths.py: function isi_lengths not found')
        fn = Fn(self, 'isi_lengths', node[0], [('spike_times', 'list'), ('t_start', 'rat'), ('t_end', 'rat')])
        out.append(fn.translate())
        out.append('end PySpike.GenIsiLen\n')
        return '\n'.join(out)


def generate_isi_lengths(repo='/repo'):
    return IsiLengthsTranslator(repo).run()


def generate_pyx(repo='/repo'):
    return PyxTranslator(repo).run()


if __name__ == '__main__':
    repo = sys.argv[1] if len(sys.argv) > 1 else '/repo'
    try:
        sys.stdout.write(generate_pyx(repo) if (len(sys.argv) > 2 and sys.argv[2] == 'pyx') else generate_classes(repo) if (len(sys.argv) > 2 and sys.argv[2] == 'classes') else generate_isi_lengths(repo) if (len(sys.argv) > 2 and sys.argv[2] == 'isi_lengths') else generate_classes2(repo) if (len(sys.argv) > 2 and sys.argv[2] == 'classes2') else generate_classes3(repo) if (len(sys.argv) > 2 and sys.argv[2] == 'classes3') else generate(repo))
    except Untranslatable as ex:
        sys.stderr.write('Untranslatable: %s\n' % ex)
        sys.exit(3)
