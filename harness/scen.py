"""harness/scen.py — scenario generators for the property oracles (inputs for the failing-input
search). A scenario is a JSON-serialisable dict; Fractions are written as 'p/q' strings."""
import itertools
from fractions import Fraction as Fr
from . import gens


def enc(o):
    if isinstance(o, Fr):
        return str(o)
    if isinstance(o, (list, tuple)):
        return [enc(x) for x in o]
    if isinstance(o, dict):
        return {k: enc(v) for k, v in o.items()}
    return o


def dec(o, key=None):
    if isinstance(o, str) and key not in ('sep', 'comment', 'property', 'kind', 'oracle'):
        try:
            return Fr(o)
        except Exception:
            return o
    if isinstance(o, list):
        return [dec(x, key) for x in o]
    if isinstance(o, dict):
        return {k: dec(v, k) for k, v in o.items()}
    return o


def fix(sc):
    """after decoding: trains as tuples"""
    if 'trains' in sc:
        sc['trains'] = [(list(s), ts, te) for s, ts, te in sc['trains']]
    if 'raw' in sc:
        sc['raw'] = [(list(s), ts, te) for s, ts, te in sc['raw']]
    if 'indices' in sc and sc['indices'] is not None:
        sc['indices'] = [int(i) for i in sc['indices']]
    if 'perm' in sc and sc['perm'] is not None:
        sc['perm'] = [int(i) for i in sc['perm']]
    for k in ('prec', 'bins'):
        if k in sc:
            sc[k] = int(sc[k])
    if 'values' in sc:
        sc['values'] = [[float(v) for v in r] for r in sc['values']]
    return sc


def base(rng, nmin=2, nmax=4, iv=0.5):
    L, ts, te = gens.random_list(rng, nmin=nmin, nmax=nmax)
    kw = {'mrts': rng.choice([0, 0, Fr(1, 4), 1, 2, 40]), 'ri': rng.choice([0, 1]),
          'max_tau': rng.choice([0, 0, Fr(1, 2), 1, 2])}
    sc = {'trains': [(s, ts, te) for s in L], 'kw': kw}
    if rng.random() < iv:
        sc['interval'] = list(gens.random_interval(rng, ts, te))
    return sc


def pair_grid(T, params):
    for s1, s2, ts, te in gens.grid_pairs(T):
        for kw in params:
            yield {'trains': [(s1, ts, te), (s2, ts, te)], 'kw': dict(kw)}


def half_grid_pairs(T):
    """pairs of subsets of a half-integer grid (finer than the spike spacing of the integer grid,
    so coincidence windows and max_tau actually bind)"""
    pts = [Fr(k, 2) for k in range(2 * T + 1)]
    subs = list(gens.subsets(pts))
    for s1 in subs:
        for s2 in subs:
            yield s1, s2, Fr(0), Fr(T)


def scenarios(prop, tier, rng):
    """yield scenarios for property `prop`"""
    q = tier == 'quick'
    n = {'C01': 400, 'C02': 400, 'C03': 600, 'C04': 250, 'C05': 200, 'C06': 100, 'C07': 300, 'C08': 80,
         'C13': 80, 'C14': 80, 'C15': 80, 'C16': 400, 'C17': 400, 'C18': 120, 'C19': 300, 'C20': 400}.get(prop, 100)
    if not q:
        n *= 12
    if prop in ('C01', 'C02', 'C03', 'C07'):
        # bounded-exhaustive part: all pairs of subsets of a small grid
        T = 3 if q else 4
        params = [{'mrts': m, 'ri': ri, 'max_tau': mt} for m in (0, 1) for ri in ((0, 1) if prop in ('C02', 'C07') else (0,))
                  for mt in ((0, Fr(3, 4)) if prop in ('C03', 'C07') else (0,))]
        for sc in pair_grid(T, params):
            yield sc
        if prop == 'C03':
            for s1, s2, ts, te in half_grid_pairs(2 if q else 3):
                for mt in (0, Fr(3, 4)):
                    yield {'trains': [(s1, ts, te), (s2, ts, te)], 'kw': {'mrts': 0, 'ri': 0, 'max_tau': mt}}
    for _ in range(n):
        if prop == 'C13':
            sc = base(rng)
            raw, ts, te = gens.disordered_list(rng)
            sc['raw'] = raw
            sc.pop('interval', None)
        elif prop == 'C19':
            sc = {'sep': rng.choice([' ', ',', ';', '\t', ', ']), 'prec': rng.randint(1, 17),
                  'values': [[rng.choice([rng.random() * 10, rng.random() * 1e-3, rng.random() * 1e6, float(rng.randint(0, 9))])
                              for _ in range(rng.randint(0, 6))] for _ in range(rng.randint(1, 6))],
                  'ts': 0, 'te': 10 ** 7, 'comment_lines': rng.random() < 0.3, 'comment': rng.choice(['#', '#', '%', '//'])}
            if all(len(v) == 0 for v in sc['values']):
                continue
        else:
            sc = base(rng, nmin=2, nmax=(5 if prop in ('C06', 'C14', 'C17', 'C04') else 4))
            N = len(sc['trains'])
            if prop == 'C15':
                ms = sorted(rng.choice([0, Fr(1, 4), Fr(1, 2), 1, 2, 4, 16]) for _ in range(2))
                sc['m1'], sc['m2'] = ms
                sc['kw']['mrts'] = 0
            if prop == 'C16':
                ms = sorted(rng.choice([Fr(1, 4), Fr(1, 2), Fr(3, 4), 1, 2, 4]) for _ in range(2))
                sc['mt1'], sc['mt2'] = ms
                sc['kw']['max_tau'] = 0
            if prop == 'C17':
                sc['thr'] = rng.choice([Fr(k, N - 1) for k in range(N)] + [Fr(1, 4), Fr(1, 2), Fr(3, 4)])
                sc['thr2'] = min(Fr(1), sc['thr'] + rng.choice([0, Fr(1, 4), Fr(1, 2)]))
            if prop == 'C14' or (prop == 'C04' and N > 2 and rng.random() < 0.5):
                k = rng.randint(2, N)
                sc['indices'] = rng.sample(range(N), k)
            if prop == 'C06':
                perm = list(range(N))
                rng.shuffle(perm)
                sc['perm'] = perm
            if prop == 'C08':
                sc['alpha'] = rng.choice([Fr(2), Fr(1, 2), Fr(3), Fr(3, 4), Fr(1)])
                sc['beta'] = rng.choice([Fr(0), Fr(-3), Fr(8), Fr(1, 4)])
                sc.pop('interval', None)
            if prop == 'C20':
                sc['bins'] = rng.choice([1, 2, 4, 8])
            if prop in ('C01', 'C02', 'C03', 'C04', 'C16', 'C17', 'C20', 'C15'):
                sc.pop('interval', None)
        yield sc
