"""harness/scen.py — scenario generators for the property oracles (inputs for the failing-input
search). A scenario is a JSON-serialisable dict; Fractions are written as 'p/q' strings."""
import itertools
from fractions import Fraction as Fr
from . import gens


def enc(o):
    if isinstance(o, Fr):
        return str(o)
    if isinstance(o, (list, tuple)):
        return [enc(x) for x in o]
    if isinstance(o, dict):
        return {k: enc(v) for k, v in o.items()}
    return o


def dec(o, key=None):
    if isinstance(o, str) and key not in ('sep', 'comment', 'property', 'kind', 'oracle', 'ops_names') and o not in ('add', 'mul', 'copy', 'pwc', 'pwl'):
        try:
            return Fr(o)
        except Exception:
            return o
    if isinstance(o, list):
        return [dec(x, key) for x in o]
    if isinstance(o, dict):
        return {k: dec(v, k) for k, v in o.items()}
    return o


def fix(sc):
    """after decoding: trains as tuples"""
    if 'ops' in sc:
        sc['ops'] = [tuple([o[0]] + [int(v) if k == 0 or o[0] != 'mul' else v for k, v in enumerate(o[1:])]) for o in sc['ops']]
    if 'k' in sc:
        sc['k'] = int(sc['k'])
    if 'trains' in sc:
        sc['trains'] = [(list(s), ts, te) for s, ts, te in sc['trains']]
    if 'raw' in sc:
        sc['raw'] = [(list(s), ts, te) for s, ts, te in sc['raw']]
    if 'indices' in sc and sc['indices'] is not None:
        sc['indices'] = [int(i) for i in sc['indices']]
    if 'perm' in sc and sc['perm'] is not None:
        sc['perm'] = [int(i) for i in sc['perm']]
    if 'dup' in sc and sc['dup'] is not None:
        sc['dup'] = [int(v) for v in sc['dup']]
    for k in ('prec', 'bins'):
        if k in sc:
            sc[k] = int(sc[k])
    if 'values' in sc:
        sc['values'] = [[float(v) for v in r] for r in sc['values']]
    return sc


def base(rng, nmin=2, nmax=4, iv=0.5):
    L, ts, te = gens.random_list(rng, nmin=nmin, nmax=nmax)
    kw = {'mrts': rng.choice([0, 0, Fr(1, 4), 1, 2, 40]), 'ri': rng.choice([0, 1]),
          'max_tau': rng.choice([0, 0, Fr(1, 2), 1, 2])}
    sc = {'trains': [(s, ts, te) for s in L], 'kw': kw}
    if rng.random() < iv:
        sc['interval'] = list(gens.random_interval(rng, ts, te))
    return sc


def pair_grid(T, params):
    for s1, s2, ts, te in gens.grid_pairs(T):
        for kw in params:
            yield {'trains': [(s1, ts, te), (s2, ts, te)], 'kw': dict(kw)}


def half_grid_pairs(T):
    """pairs of subsets of a half-integer grid (finer than the spike spacing of the integer grid,
    so coincidence windows and max_tau actually bind)"""
    pts = [Fr(k, 2) for k in range(2 * T + 1)]
    subs = list(gens.subsets(pts))
    for s1 in subs:
        for s2 in subs:
            yield s1, s2, Fr(0), Fr(T)


def func_scen(prop, tier, rng):
    q = tier == 'quick'
    T = 6
    def rfunc(kind):
        inner = sorted(rng.sample(range(1, T), rng.randint(0, T - 1)))
        if kind == 'pwc':
            return [enc(a) for a in gens.pwc_on(rng, T, inner)]
        if kind == 'pwl':
            return [enc(a) for a in gens.pwl_on(rng, T, inner)]
        return [enc(a) for a in gens.disc_on(rng, T, inner)]
    n = (150 if q else 2500)
    hp = gens.half_points(T)
    if prop == 'C09':
        # deterministic part: every ordered pair of a catalogue of special functions (constant zero,
        # constant, all-zero pieces, same breakpoints, breakpoints that differ by 2^-20 only), added
        # and then scaled on either side / copied and added back
        e = Fr(1, 2 ** 20)
        for kind in ('pwc', 'pwl'):
            shapes = [([0, T], [0]), ([0, T], [2]), ([0, 2, 4, T], [0, 0, 0]), ([0, 1, 3, T], [1, 2, -1]),
                      ([0, 1, 3, T], [3, 0, 5]), ([0, 1 + e, 3 + e, T], [2, 1, 4]), ([0, 1 - e, 3, T], [1, 1, 2]),
                      ([0, 2, 5, T], [-1, 4, 2])]
            cat = []
            for x, y in shapes:
                x = [Fr(v) for v in x]; y = [Fr(v) for v in y]
                cat.append([x, y] if kind == 'pwc' else [x, y, [v + (k % 2) for k, v in enumerate(y)] if any(y) else list(y)])
            tails = ([('mul', 0, Fr(2))], [('mul', 1, Fr(2))], [('copy', 0), ('mul', 2, Fr(3)), ('add', 1, 0)],
                     [('add', 1, 0), ('mul', 1, Fr(-1))])
            for a in range(len(cat)):
                for b in range(len(cat)):
                    if a != b:
                        tl = tails if not q else [tails[(a + b) % len(tails)], tails[(a + b + 1) % len(tails)]]
                        for tail in tl:
                            yield {'kind': kind, 'funcs': [enc(cat[a]), enc(cat[b])], 'ops': [['add', 0, 1]] + [list(o) for o in tail]}
            # average_profile of three functions one of which has a huge excursion on one piece (values that are not
            # dyadic): the average is taken piece by piece ("up to rounding" = relative to the local operands), so the
            # excursion must not leak rounding error into the other pieces
            big = [Fr(0.3), Fr(7e15), Fr(0.7), Fr(-0.45)]
            fa = [[Fr(0), Fr(1), Fr(3), Fr(5), Fr(T)], big] + ([[v + Fr(0.1) for v in big]] if kind == 'pwl' else [])
            fb = [[Fr(0), Fr(2), Fr(T)], [Fr(0.2), Fr(1.1)]] + ([[Fr(0.4), Fr(0.9)]] if kind == 'pwl' else [])
            fc = [[Fr(0), Fr(1), Fr(4), Fr(T)], [Fr(-0.6), Fr(0.05), Fr(2.3)]] + ([[Fr(0.6), Fr(0.15), Fr(1.3)]] if kind == 'pwl' else [])
            for order in ([0, 1, 2], [1, 0, 2], [2, 1, 0]):
                yield {'kind': kind, 'funcs': [enc(fa), enc(fb), enc(fc)], 'ops': [['avg'] + order]}
            # integer-typed receiver (as the PSTH returns) + an operand with fractional values
            half = [[Fr(0), Fr(2), Fr(T)], [Fr(1, 2), Fr(1, 4)]] + ([[Fr(3, 4), Fr(5, 4)]] if kind == 'pwl' else [])
            for a in range(len(cat)):
                for tail in ([], [('mul', 0, Fr(1, 2))], [('copy', 0), ('add', 2, 1), ('mul', 2, Fr(3, 2))]):
                    yield {'kind': kind, 'funcs': [enc(cat[a]), enc(half)], 'ints': 1, 'ops': [['add', 0, 1]] + [list(o) for o in tail]}
                    yield {'kind': kind, 'funcs': [enc(cat[a]), enc(half)], 'ints': 1, 'ops': [list(o) for o in tail] + [['add', 0, 1]]}
    for _ in range(n):
        if prop == 'C09':
            kind = rng.choice(['pwc', 'pwl'])
            k = rng.randint(2, 3)
            funcs = [rfunc(kind) for _ in range(k)]
            ops = []
            nobj = k
            for _ in range(rng.randint(1, 6 if q else 8)):
                r = rng.random()
                if r < 0.5:
                    i, j = rng.randrange(nobj), rng.randrange(nobj)
                    if i == j:
                        continue     # f.add(f): numpy views make this ill-defined; not in the property
                    ops.append(('add', i, j))
                elif r < 0.7:
                    ops.append(('mul', rng.randrange(nobj), rng.choice([Fr(2), Fr(1, 2), Fr(-1), Fr(3)])))
                elif r < 0.8:
                    ops.append(tuple(['avg'] + [rng.randrange(nobj) for _ in range(rng.randint(2, 3))]))
                    nobj += 1
                else:
                    ops.append(('copy', rng.randrange(nobj)))
                    nobj += 1
            yield {'kind': kind, 'funcs': funcs, 'ops': [list(o) for o in ops]}
        elif prop == 'C10':
            kind = rng.choice(['pwc', 'pwl'])
            ivs_ = []
            for _ in range(rng.randint(1, 3)):
                a = rng.choice(hp[:-1]); b = rng.choice([h for h in hp if h > a])
                ivs_.append([a, b])
            near = [Fr(rng.randint(1, T - 1)) + sg * Fr(1, 2 ** 20) for sg in (1, -1)] + [Fr(T) - Fr(1, 2 ** 20), Fr(1, 2 ** 20)]
            yield {'kind': kind, 'func': rfunc(kind), 'intervals': ivs_, 'times': rng.sample(hp, 5) + [Fr(0), Fr(T)] + near}
        else:
            k = rng.randint(1, 4)
            ivs_ = []
            for _ in range(rng.randint(1, 3)):
                a = rng.choice(hp[:-1]); b = rng.choice([h for h in hp if h > a])
                ivs_.append([a, b])
            fs_ = [rfunc('disc') for _ in range(k)]
            if rng.random() < 0.35:
                # events sitting exactly on the edges (a spike on t_start / t_end): they count when no interval is
                # given and are outside every open interval that ends there
                def edge_ev(f):
                    x, y, mp = [list(c) for c in f]
                    if rng.random() < 0.7:
                        x = x[:-1] + [x[-1], x[-1]]; y = y[:-1] + ['1', y[-1]]; mp = mp[:-1] + ['1', mp[-1]]
                    if rng.random() < 0.5:
                        x = [x[0], x[0]] + x[1:]; y = [y[0], '1'] + y[1:]; mp = [mp[0], '1'] + mp[1:]
                    return [x, y, mp]
                fs_ = [edge_ev(f) for f in fs_]
                ivs_ = ivs_ + [[Fr(0), Fr(T)]]
            yield {'funcs': fs_, 'intervals': ivs_, 'k': rng.randint(0, 3)}


def scenario_of_case(prop, op, fields):
    """turn a disagreeing correspondence case into an oracle scenario (the disagreement usually is
    the failing input); None when the op has no direct scenario form"""
    try:
        if op in ('isi_profile', 'spike_profile', 'coinc_profile', 'order_profile', 'coinc_single', 'dir_profile'):
            s1, s2, p = fields
            ts, te = p[0], p[1]
            strip = (lambda s: [] if (op in ('isi_profile', 'spike_profile') and list(s) == [ts, te]) else list(s))
            kw = {'mrts': 0, 'ri': 0, 'max_tau': 0}
            if op == 'isi_profile':
                kw['mrts'] = p[2]
            elif op == 'spike_profile':
                kw['mrts'], kw['ri'] = p[2], int(p[3])
            else:
                kw['max_tau'], kw['mrts'] = p[2], p[3]
            sc = {'trains': [(strip(s1), ts, te), (strip(s2), ts, te)], 'kw': kw}
        elif op in ('add_pwc', 'add_pwl'):
            kind = op[4:]
            k = 2 if kind == 'pwc' else 3
            sc = {'kind': kind, 'funcs': [enc(fields[:k]), enc(fields[k:])], 'ops': [['add', 0, 1]]}
            return dec(sc) if prop == 'C09' else None
        elif op == 'add_disc':
            return dec({'funcs': [enc(fields[:3]), enc(fields[3:])], 'intervals': [], 'k': 0}) if prop == 'C11' else None
        elif op.startswith('pwc_') or op.startswith('pwl_'):
            kind = op[:3]
            k = 2 if kind == 'pwc' else 3
            rest = fields[k:]
            sc = {'kind': kind, 'func': enc(fields[:k]), 'intervals': [], 'times': []}
            name = op[4:]
            if name in ('integral', 'avrg') and rest:
                sc['intervals'] = [enc(rest[0])]
            elif name == 'avrg_list' and rest:
                sc['intervals'] = [enc(rest[0][i:i + 2]) for i in range(0, len(rest[0]) - 1, 2)]
            elif name in ('call', 'call_seq') and rest:
                sc['times'] = enc(rest[0])
            return dec(sc) if prop == 'C10' else None
        elif op.startswith('disc_'):
            rest = fields[3:]
            sc = {'funcs': [enc(fields[:3])], 'intervals': [], 'k': 0}
            name = op[5:]
            if name in ('integral', 'avrg') and rest:
                sc['intervals'] = [enc(rest[0])]
            elif name == 'integral_list' and rest:
                sc['intervals'] = [enc(rest[0][i:i + 2]) for i in range(0, len(rest[0]) - 1, 2)]
            elif name == 'plot' and rest:
                sc['k'] = int(rest[0][0])
            return dec(sc) if prop == 'C11' else None
        else:
            if prop in ('C09', 'C10', 'C11'):
                return None
            p, ix, tfs = fields[0], fields[1], fields[2:]
            if op in ('merge', 'psth', 'poisson', 'time_series', 'isi_lengths', 'default_thresh_sq') and prop != 'C20':
                return None
            kw = {'mrts': p[0], 'ri': int(p[1]), 'max_tau': p[2]}
            sc = {'trains': [(list(t[2:]), t[0], t[1]) for t in tfs], 'kw': kw}
            if p[4] != 0:
                sc['interval'] = [p[5], p[6]]
            if ix and ix[0] != 0:
                sc['indices'] = [int(v) for v in ix[1:]]
            if op == 'filter_by_sync':
                sc['thr'] = p[7]
            if op == 'psth':
                sc['bins'] = int(p[7])
            if op == 'reconcile' or len({(t[0], t[1]) for t in tfs}) > 1 or any(list(t[2:]) != sorted(set(t[2:])) for t in tfs):
                sc['raw'] = sc['trains']
        return complete(prop, sc)
    except Exception:
        return None


def complete(prop, sc):
    """fill the extra keys an oracle expects"""
    if len(sc.get('trains', [])) < 2 and prop not in ('C20',):
        return None
    if prop == 'C13' and 'raw' not in sc:
        sc['raw'] = sc['trains']
    if prop != 'C13' and 'raw' in sc:
        return None
    N = len(sc['trains'])
    if prop == 'C15':
        m = sc['kw'].get('mrts') or 0
        sc['m1'], sc['m2'] = (Fr(0), Fr(m)) if m else (Fr(1, 4), Fr(1))
        sc['kw']['mrts'] = 0
    if prop == 'C16':
        mt = sc['kw'].get('max_tau') or 0
        sc['mt1'], sc['mt2'] = (Fr(mt), Fr(mt) * 2) if mt else (Fr(1, 2), Fr(1))
        sc['kw']['max_tau'] = 0
    if prop == 'C17' and 'thr' not in sc:
        sc['thr'] = Fr(1, 2)
    return sc


X_SCALE = (Fr(1, 2 ** 40), Fr(0), 'times scaled by 2^-40')
X_SHIFT = (Fr(1), Fr(2 ** 30), 'times shifted by 2^30')
X_NEG = (Fr(1), Fr(-3), 'times shifted by -3 (support straddles 0, a bound or spike can be exactly 0)')


def affine_variant(sc, a, b, label):
    """the same scenario on a tiny time scale / far from the origin (exact in doubles: all generated
    times are dyadic with < 22 fractional bits). A comparison with an absolute or relative tolerance
    that is invisible at the usual scale merges distinct spike times / breakpoints there."""
    if 'raw' in sc or 'values' in sc or 'variant' in sc:
        return None
    T = lambda x: a * x + b
    out = dict(sc)
    if 'trains' in sc:
        out['trains'] = [([T(x) for x in s_], T(ts), T(te)) for s_, ts, te in sc['trains']]
        kw = dict(sc.get('kw', {}))
        for k in ('mrts', 'max_tau'):
            if kw.get(k) not in (None, 0, 'auto'):
                kw[k] = kw[k] * a
        out['kw'] = kw
        if 'interval' in sc:
            out['interval'] = [T(v) for v in sc['interval']]
        for k in ('m1', 'm2', 'mt1', 'mt2'):
            if k in sc:
                out[k] = sc[k] * a
    if 'funcs' in sc:
        out['funcs'] = [[[T(v) for v in f[0]]] + [list(c) for c in f[1:]] for f in sc['funcs']]
    if 'func' in sc:
        f = sc['func']
        out['func'] = [[T(v) for v in f[0]]] + [list(c) for c in f[1:]]
    if 'intervals' in sc:
        out['intervals'] = [[T(u), T(v)] for u, v in sc['intervals']]
    if 'times' in sc:
        out['times'] = [T(v) for v in sc['times']]
    out['variant'] = label
    return out


AFFINE_EVERY = {'C01': 9, 'C02': 9, 'C03': 9, 'C04': 6, 'C05': 5, 'C06': 4, 'C07': 9, 'C09': 6, 'C10': 6, 'C11': 6,
                'C14': 5, 'C15': 5, 'C16': 9, 'C17': 9, 'C18': 2, 'C20': 9}


OWN0_EVERY = {'C01': 8, 'C02': 8, 'C03': 4, 'C04': 6, 'C05': 6, 'C06': 5, 'C14': 5, 'C15': 4, 'C16': 8, 'C17': 5}
# (C07 is not in the table: its identity clauses compare the first train with a copy of itself, a pair whose
#  common interval is the narrower one.)
FORMS_PROPS = {'C01', 'C02', 'C03', 'C04', 'C05', 'C06', 'C07', 'C08', 'C13', 'C14', 'C15', 'C16', 'C17', 'C18'}
OWN0_AUTO = {'C03', 'C04', 'C05', 'C17'}


def own0_variant(prop, sc, n):
    """the same trains, but the FIRST train is handed to the implementation with its own, narrower
    edges (the others keep the common interval, so every pair / sub-list containing another train
    still reconciles to the common interval). By C13 nothing may change. Exposes code that uses the
    un-reconciled first train (its edges, its threshold) somewhere."""
    if 'raw' in sc or 'variant' in sc or 'own0' in sc or len(sc.get('trains', [])) < 2:
        return None
    s0, TS, TE = sc['trains'][0]
    if any((a, b) != (TS, TE) for _, a, b in sc['trains']):
        return None
    out = dict(sc)
    if n % 4 in (1, 2) and 'interval' not in sc:
        # wide flavour: the other trains' recording is five times longer (no spikes there), the first
        # train keeps the original edges - pooled ISI statistics of raw and reconciled trains differ a lot
        TEw = TE + 4 * (TE - TS)
        out['trains'] = [(list(s_), TS, TEw) for s_, _, _ in sc['trains']]
        ts0, te0 = TS, TE
    else:
        lo, hi = (min(s0), max(s0)) if s0 else (TS + (TE - TS) / 4, TE - (TE - TS) / 4)
        ts0 = TS + (lo - TS) / 2 if n % 3 else lo
        te0 = hi + (TE - hi) / 2 if n % 2 else TE
        if (ts0, te0) == (TS, TE):
            te0 = hi
        if (ts0, te0) == (TS, TE) or not ts0 < te0:
            return None
    out['own0'] = [ts0, te0]
    out['variant'] = 'first train on its own edges'
    if prop in OWN0_AUTO and n % 4 in (0, 1):
        out['kw'] = dict(sc.get('kw', {}), mrts='auto')
    return out


def scenarios(prop, tier, rng):
    """the property's scenario stream, plus an extreme-scale variant of every k-th scenario and an
    unequal-edges variant of every m-th one"""
    every = AFFINE_EVERY.get(prop)
    own = OWN0_EVERY.get(prop)
    n = 0
    for sc in _scenarios(prop, tier, rng):
        yield sc
        n += 1
        if every and n % every == 0:
            v = affine_variant(sc, *(X_SCALE, X_SHIFT, X_NEG)[(n // every) % 3])
            if v is not None:
                yield v
        if own and n % own == 0:
            v = own0_variant(prop, sc, n // own)
            if v is not None:
                yield v
        if prop in FORMS_PROPS and n % 6 == 0 and 'variant' not in sc and 'values' not in sc:
            # the same call with the keywords given in other documented FORMS: numbers as numpy scalars of another
            # type (np.float32 / np.int64 / np.float64 - only where the value is exactly representable), `interval` as
            # list / pair of numpy floats (a numpy ARRAY is not a Sequence and is rejected by the code), `indices` as tuple, `edges` as numpy array or numpy scalar
            k_ = n // 6
            v = dict(sc)
            v['forms'] = {'mrts': ('f32', 'i64', 'f64', 'f16')[k_ % 4], 'mt': ('f64', 'f32', 'i64')[k_ % 3],
                          'iv': ('list', 'np')[k_ % 2], 'idx': 'tuple',
                          'edges': ('nparray', 'npscalar', 'list')[k_ % 3]}
            v['variant'] = 'keyword forms %s' % sorted(v['forms'].items())
            yield v
        if prop in ('C04', 'C05', 'C06') and n % 5 == 0 and 'raw' not in sc and 'variant' not in sc and len(sc['trains']) >= 3 \
                and 'indices' not in sc and 'perm' not in sc or (prop in ('C04', 'C05', 'C06') and n == 1):
            # the first TWO trains on narrower edges of their own, the others on a recording ten times longer;
            # every second time two one-spike trains, whose window is limited by the recording length only
            v = dict(sc)
            v.pop('indices', None); v.pop('perm', None); v.pop('interval', None)
            tr_ = [(list(s_), a_, b_) for s_, a_, b_ in sc['trains']]
            TS, TE = tr_[0][1], tr_[0][2]
            if (n // 5) % 2 == 0 or len(tr_) < 3:
                third = tr_[2:] if len(tr_) >= 3 else [([TS + (TE - TS) / 2], TS, TE)]
                tr_ = [([TS + (TE - TS) / 5], TS, TE), ([TS + 4 * (TE - TS) / 5], TS, TE)] + third
                v['kw'] = dict(sc.get('kw', {}), mrts=0, max_tau=0)
            TEw = TE + 9 * (TE - TS)
            v['trains'] = [(s_, TS, TEw) for s_, _, _ in tr_]
            v['own01'] = [[TS, TE], [TS, TE]]
            v['variant'] = 'first two trains on their own (ten times shorter) edges'
            yield v
        if prop in ('C01', 'C02', 'C03', 'C05', 'C07') and n % 7 == 0 and 'raw' not in sc and 'variant' not in sc:
            # one spike time listed twice in one of the first two trains (the implementation gets the repeated
            # time, the oracle's definitions the clean train): reconciliation is on by default in every call form
            ks = [k for k in (0, 1) if k < len(sc['trains']) and sc['trains'][k][0]]
            if ks:
                k = ks[(n // 7) % len(ks)]
                v = dict(sc)
                v['dup'] = [k, (n // 7) % len(sc['trains'][k][0])]
                v['variant'] = 'spike %d of train %d listed twice' % (v['dup'][1], k)
                yield v
        if prop == 'C14' and n % 3 == 0 and 'raw' not in sc and 'variant' not in sc:
            # a train that is NOT selected carries a spike inside reconcile's tolerance band just outside the common
            # edges (t_end + 2^-21, t_start - 2^-21): the selected trains' results must not depend on it
            v = dict(sc)
            _, TS, TE = sc['trains'][0]
            e_ = Fr(1, 2 ** 21)
            extra = ([TS - e_, TS + (TE - TS) / 2, TE + e_], TS, TE)
            v['trains'] = list(sc['trains']) + [extra]
            v['indices'] = list(sc.get('indices') or range(len(sc['trains'])))
            v['variant'] = 'an unselected train with spikes in the tolerance band outside the edges'
            yield v
        if prop == 'C14' and n % 4 == 0 and 'raw' not in sc:
            # a repeated spike time inside one train (sorted, same edges): every call form
            # reconciles, so all forms still have to agree (C13 + C14)
            ks = [k for k, t in enumerate(sc['trains']) if t[0]]
            if ks:
                k = ks[(n // 4) % len(ks)]
                s_, a_, b_ = sc['trains'][k]
                j = (n // 4) % len(s_)
                v = dict(sc)
                v['trains'] = list(sc['trains'])
                v['trains'][k] = (list(s_[:j + 1]) + list(s_[j:]), a_, b_)
                v['variant'] = 'repeated spike time in train %d' % k
                yield v


def _scenarios(prop, tier, rng):
    """yield scenarios for property `prop`"""
    q = tier == 'quick'
    if prop in ('C09', 'C10', 'C11'):
        for sc in func_scen(prop, tier, rng):
            yield fix(dec(sc))
        return
    n = {'C01': 400, 'C02': 400, 'C03': 600, 'C04': 250, 'C05': 200, 'C06': 100, 'C07': 300, 'C08': 80,
         'C13': 80, 'C14': 80, 'C15': 80, 'C16': 400, 'C17': 400, 'C18': 120, 'C19': 300, 'C20': 400}.get(prop, 100)
    if not q:
        n *= 12
    if prop in ('C01', 'C02', 'C03', 'C07'):
        # bounded-exhaustive part: all pairs of subsets of a small grid
        T = 3 if q else 4
        params = [{'mrts': m, 'ri': ri, 'max_tau': mt} for m in (0, 1) for ri in ((0, 1) if prop in ('C02', 'C07') else (0,))
                  for mt in ((0, Fr(3, 4)) if prop in ('C03', 'C07') else (0,))]
        for sc in pair_grid(T, params):
            yield sc
        if prop == 'C03':
            for s1, s2, ts, te in half_grid_pairs(2 if q else 3):
                for mt in (0, Fr(3, 4)):
                    yield {'trains': [(s1, ts, te), (s2, ts, te)], 'kw': {'mrts': 0, 'ri': 0, 'max_tau': mt}}
    if prop in ('C05', 'C06', 'C11'):
        # long trains (the profiles have far more than 1000 entries) with spikes exactly on both edges
        TL = Fr(400)
        t0 = [Fr(k) for k in range(0, 400)]
        t1 = [Fr(2 * k + 1, 2) for k in range(0, 400)] + [TL]
        t2 = [Fr(3, 4) + Fr(3 * k, 2) for k in range(0, 266)]
        if prop != 'C11':
            sc_ = {'trains': [(t0, Fr(0), TL), (t1, Fr(0), TL), (t2, Fr(0), TL)], 'kw': {'mrts': 0, 'ri': 0, 'max_tau': 0}}
            if prop == 'C06':
                sc_['perm'] = [2, 0, 1]
            yield sc_
    if prop == 'C16':
        # coincidences ACROSS the boundary of the averaging interval: a spike s just inside the interval, its only
        # partner p outside but closer than max_tau, and the spike q that limits p's window further out (beyond
        # 2*max_tau from the boundary); at the end and, mirrored, at the start of the interval
        for lam in (Fr(1), Fr(1, 2), Fr(2)):
            for d1, d2, g in ((lam / 8, 3 * lam / 4, 3 * lam / 2), (lam / 4, 5 * lam / 8, 3 * lam / 2), (lam / 8, lam / 2, lam)):
                for mirror in (False, True):
                    E = Fr(20)
                    A = [E - 6 * lam, E - d1, E + 8 * lam]
                    B = [E - 9 * lam / 2, E + d2, E + d2 + g]
                    ts_, te_ = Fr(0), Fr(40)
                    iv = [E - 3 * lam, E]
                    if mirror:
                        A = sorted(ts_ + te_ - x for x in A); B = sorted(ts_ + te_ - x for x in B)
                        iv = [ts_ + te_ - iv[1], ts_ + te_ - iv[0]]
                    yield {'trains': [(A, ts_, te_), (B, ts_, te_)], 'kw': {'mrts': 0, 'ri': 0, 'max_tau': 0},
                           'interval': iv, 'mt1': lam, 'mt2': 2 * lam}
    if prop in ('C18', 'C07', 'C05'):
        # every combination of degenerate trains
        ts, te = Fr(0), Fr(4)
        cat = [[], [ts], [te], [ts, te], [Fr(2)], [Fr(1), Fr(3)], [ts, Fr(2)], [Fr(2), te]]
        combos = [(a, b) for a in cat for b in cat]
        if prop == 'C18':
            tri = [(a, b, c) for a in cat for b in cat for c in cat]
            combos += tri if not q else rng.sample(tri, 60)
        for combo in combos:
            for kw in ({'mrts': 0, 'ri': 0, 'max_tau': 0}, {'mrts': 'auto' if prop != 'C07' else 1, 'ri': 1, 'max_tau': 1}):
                if q and kw['ri'] and rng.random() < 0.5:
                    continue
                sc = {'trains': [(list(s_), ts, te) for s_ in combo], 'kw': dict(kw)}
                if kw['ri'] and prop != 'C05':
                    sc['interval'] = [Fr(1), Fr(3)]
                yield sc
    for _ in range(n):
        if prop == 'C13':
            sc = base(rng)
            raw, ts, te = gens.disordered_list(rng)
            sc['raw'] = raw
            sc.pop('interval', None)
        elif prop == 'C19':
            sc = {'sep': rng.choice([' ', ',', ';', '\t', ', ']), 'prec': rng.randint(1, 17),
                  'values': [[rng.choice([rng.random() * 10, rng.random() * 1e-3, rng.random() * 1e6, float(rng.randint(0, 9))])
                              for _ in range(rng.randint(0, 6))] for _ in range(rng.randint(1, 6))],
                  'ts': 0, 'te': 10 ** 7, 'comment_lines': rng.random() < 0.3, 'comment': rng.choice(['#', '#', '%', '//'])}
            if all(len(v) == 0 for v in sc['values']):
                continue
        else:
            sc = base(rng, nmin=2, nmax=(5 if prop in ('C06', 'C14', 'C17', 'C04') else 4))
            N = len(sc['trains'])
            if prop == 'C15':
                ms = sorted(rng.choice([0, Fr(1, 4), Fr(1, 2), 1, 2, 4, 16]) for _ in range(2))
                sc['m1'], sc['m2'] = ms
                sc['kw']['mrts'] = 0
            if prop == 'C16':
                ms = sorted(rng.choice([Fr(1, 4), Fr(1, 2), Fr(3, 4), 1, 2, 4]) for _ in range(2))
                sc['mt1'], sc['mt2'] = ms
                sc['kw']['max_tau'] = 0
            if prop == 'C17':
                if rng.random() < 0.35:
                    # one dense train among sparse ones + MRTS='auto': the pooled threshold differs
                    # strongly from any pairwise one
                    _, ts_, te_ = sc['trains'][0]
                    step = rng.choice([Fr(1, 2), Fr(1, 4), Fr(3, 4)])
                    k0 = rng.randrange(N)
                    dense, x = [], ts_ + step * rng.choice([Fr(1, 2), 1])
                    while x < te_:
                        dense.append(x); x += step
                    sc['trains'][k0] = (dense, ts_, te_)
                    sc['kw']['mrts'] = 'auto'
                elif rng.random() < 0.15:
                    sc['kw']['mrts'] = 'auto'
                sc['thr'] = rng.choice([Fr(k, N - 1) for k in range(N)] + [Fr(1, 4), Fr(1, 2), Fr(3, 4)])
                sc['thr2'] = min(Fr(1), sc['thr'] + rng.choice([0, Fr(1, 4), Fr(1, 2)]))
            if prop == 'C04' and rng.random() < 0.3:
                sc['kw']['mrts'] = 'auto'
            if prop == 'C04' and rng.random() < 0.25:
                # 'auto' + a proper index subset + a pair whose coincidence depends on the threshold:
                # a lone spike next to a doublet, plus a third train (dense or empty) that moves the
                # pooled threshold away from the one of the selected pair
                _, ts_, te_ = sc['trains'][0]
                x0 = ts_ + rng.choice([1, Fr(3, 2), 2])
                gap = rng.choice([Fr(1, 2), 1, Fr(3, 2)])
                lone = [x0]
                doublet = [x0 + gap, x0 + gap + rng.choice([Fr(1, 4), Fr(1, 2)])]
                step = rng.choice([Fr(1, 4), Fr(1, 2)])
                dense, x = [], ts_ + step
                while x < te_:
                    dense.append(x); x += step
                third = rng.choice([dense, dense, []])
                trio = [(lone, ts_, te_), ([v for v in doublet if v <= te_], ts_, te_), (third, ts_, te_)]
                order = rng.sample(range(3), 3)
                sc['trains'] = [trio[k] for k in order] + list(sc['trains'][3:])
                N = len(sc['trains'])
                sc['kw']['mrts'] = 'auto'
                sc['kw']['max_tau'] = 0
                sc['indices'] = [order.index(0), order.index(1)] if rng.random() < 0.5 else [order.index(1), order.index(0)]
            if prop == 'C14' or (prop in ('C04', 'C05') and N > 2 and 'indices' not in sc and rng.random() < 0.5):
                k = rng.randint(2, N)
                sc['indices'] = rng.sample(range(N), k)
            if prop == 'C06':
                perm = list(range(N))
                rng.shuffle(perm)
                sc['perm'] = perm
            if prop == 'C08':
                sc['alpha'] = rng.choice([Fr(2), Fr(1, 2), Fr(3), Fr(3, 4), Fr(1)])
                sc['beta'] = rng.choice([Fr(0), Fr(-3), Fr(8), Fr(1, 4)])
                if rng.random() < 0.25:
                    # extreme but exact: tiny time unit / far from the origin
                    sc['alpha'], sc['beta'] = rng.choice([(X_SCALE[0], Fr(0)), (Fr(1), X_SHIFT[1])])
                sc.pop('interval', None)
            if prop == 'C20':
                sc['bins'] = rng.choice([1, 2, 4, 8])
            if prop in ('C01', 'C02', 'C03', 'C04', 'C17', 'C20', 'C15'):
                sc.pop('interval', None)
            if prop in ('C05', 'C18') and rng.random() < 0.25:
                sc['kw']['mrts'] = 'auto'
        if prop == 'C13' and rng.random() < 0.3:
            sc['kw']['mrts'] = 'auto'
        yield sc
