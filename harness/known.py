"""harness/known.py — known findings: narrow match predicates (so that any *other* violation of the
same property still alarms) and replays of the recorded witnesses on the real code.
The list itself lives in /verif/known_findings.json and is never written at run time."""
import json, os, math
import numpy as np
from fractions import Fraction as Fr
from .core import VERIF
from . import oracles as O
from .adapters import spk, SpikeTrain


def load():
    with open(os.path.join(VERIF, 'known_findings.json')) as f:
        return json.load(f)['findings']


# ---------------------------------------------------------------- match predicates

def one_spike_on_start(tr):
    s, ts, te = tr
    return len(s) == 1 and s[0] == ts


def one_spike_on_edge(tr):
    s, ts, te = tr
    return len(s) == 1 and (s[0] == ts or s[0] == te)


def m_F9_C02(sc, msg):
    """C02 values differ from the definition and one of the two trains is a single spike on t_start"""
    return msg.startswith('C02 piece') or msg.startswith('C02 at t=') and any(one_spike_on_start(t) for t in sc['trains'][:2]) \
        if any(one_spike_on_start(t) for t in sc['trains'][:2]) else False


def m_F9_C08(sc, msg):
    """SPIKE mirror clause fails and some train is a single spike on an edge"""
    return 'C08 spike' in msg and 'mirror' in msg and any(one_spike_on_edge(t) for t in sc['trains'])


def m_F12(sc, msg):
    """compiled-kernel configuration only: two trains that are each a single spike on t_end"""
    if sc.get('_backend') != 'pyx':
        return False
    on_end = [t for t in sc['trains'] if len(t[0]) == 1 and t[0][0] == t[2]]
    raw_on_end = []
    if sc.get('raw'):
        # what the measures see is the RECONCILED form of the raw list: common edges, spikes inside the
        # 1e-6 tolerance band, duplicates removed
        eps = Fr(1, 10 ** 6)
        tS = min(t[1] for t in sc['raw']); tE = max(t[2] for t in sc['raw'])
        for t in sc['raw']:
            kept = sorted(set(x for x in t[0] if tS - eps < x < tE + eps))
            if len(kept) == 1 and kept[0] == tE:
                raw_on_end.append(t)
    # a train is also compared with its own copy (identity clauses), so one such train suffices
    return len(on_end) + len(raw_on_end) >= 1 and ('nan' in msg.lower() or 'differs' in msg or 'non-finite' in msg or 'equal copy' in msg or 'outside' in msg or 'symmetric' in msg)


def m_F10(sc, msg):
    """compiled-kernel configuration only: at least two trains without spikes and a spike-train-order value"""
    if sc.get('_backend') != 'pyx':
        return False
    return sum(1 for t in sc['trains'] if len(t[0]) == 0) >= 2 and 'order' in msg


MATCH = {('F9', 'C02'): m_F9_C02, ('F9', 'C08'): m_F9_C08,
         ('F12', 'C05'): m_F12, ('F12', 'C07'): m_F12, ('F12', 'C18'): m_F12, ('F12', 'C14'): m_F12, ('F12', 'C13'): m_F12,
         ('F10', 'C05'): m_F10}


def match(prop, sc, msg, findings):
    for f in findings:
        if f.get('kind') != 'known' or f['property'] != prop:
            continue
        fn = MATCH.get((f['id'], prop))
        if fn and fn(sc, msg):
            return f['id']
    return None


# ---------------------------------------------------------------- witness replays
# each returns (still_fails: bool, observed)

def tr(s, ts, te):
    return SpikeTrain(np.array([float(x) for x in s], dtype=float), [float(ts), float(te)])


def r_F7():
    from pyspike.isi_lengths import isi_lengths
    a = isi_lengths([0.0], 0.0, 4.0)           # one spike on t_start: true ISI list is [4]
    b = isi_lengths([0.0, 4.0], 0.0, 4.0)      # spikes on both edges: true ISI list is [4]
    return (list(a) != [4.0]) or (list(b) != [4.0]), {'isi_lengths([0],0,4)': list(a), 'isi_lengths([0,4],0,4)': list(b)}


def r_F8():
    from pyspike.isi_lengths import default_thresh
    L = [tr([1, 2, 3], 0, 10), tr([1.5, 4, 9], 0, 10), tr([0.1, 0.2, 0.3, 0.4], 0, 10)]
    a = O.quiet(spk.isi_distance, L, indices=[0, 1], MRTS='auto')
    b = O.quiet(spk.isi_distance, [L[0], L[1]], MRTS='auto')
    return not O.feq(a, b), {'indices=[0,1]': a, 'sub-list': b}


def r_F9():
    sc = {'trains': [([Fr(0)], Fr(0), Fr(6)), ([Fr(0), Fr(4)], Fr(0), Fr(6))], 'kw': {}}
    msg = O.o_C02(sc)
    return msg is not None, msg


def r_F9_C08():
    sc = {'trains': [([Fr(0)], Fr(0), Fr(6)), ([Fr(0), Fr(4)], Fr(0), Fr(6))], 'kw': {}}
    a = O.quiet(spk.spike_distance, *O.mkl(sc))
    m = O.transform(sc, 1, 0, mirror=True)
    b = O.quiet(spk.spike_distance, *O.mkl(m))
    return not O.feq(a, b), {'distance': a, 'mirrored': b}


def r_F11():
    # 23 trains; one spike of train 0 coincident with exactly 15 of the 22 others; threshold 15/22
    N = 23
    L = [tr([5.0], 0, 10)] + [tr([5.0 + 0.01], 0, 10) for _ in range(15)] + [tr([9.0], 0, 10) for _ in range(7)]
    thr = 15.0 / 22.0
    kept = O.quiet(spk.filter_by_spike_sync, L, thr)
    # the spike's fraction is exactly 15/22 = threshold, "strictly greater" must remove it
    return len(kept[0].spikes) == 1, {'kept': list(kept[0].spikes), 'threshold': thr, 'thr*(N-1)': thr * 22}


def r_F14():
    L = [tr([5.0], 0, 10), tr([4.0, 5.0], 0, 10), tr([5.8], 0, 10)]
    kept, rem = O.quiet(spk.filter_by_spike_sync, L, 0.6, return_removed_spikes=True)
    P = O.quiet(spk.spike_sync_profile, L)
    at5 = [(y, mp) for x, y, mp in zip(P.x, P.y, P.mp) if x == 5.0]
    frac = at5[0][0] / at5[0][1] if at5 else None
    still = frac is not None and frac > 0.6 and 5.0 in list(rem[1].spikes)
    return still, {'profile at t=5': at5, 'removed from train 1': list(rem[1].spikes), 'kept': [list(k.spikes) for k in kept]}


REPLAY = {('F14', 'C17'): r_F14, ('F7', 'C15'): r_F7, ('F8', 'C14'): r_F8, ('F9', 'C02'): r_F9, ('F9', 'C08'): r_F9_C08,
          ('F11', 'C17'): r_F11}


def replay_known(prop, findings, extra=None):
    """returns list of (finding, still_fails, observed) for the known findings of `prop`"""
    out = []
    table = dict(REPLAY)
    if extra:
        table.update(extra)
    for f in findings:
        if f.get('kind') != 'known' or f['property'] != prop:
            continue
        fn = table.get((f['id'], prop))
        if fn is None:
            continue
        try:
            still, obs = fn()
        except Exception as ex:
            still, obs = True, 'replay raised %r' % ex
        out.append((f, still, obs))
    return out
