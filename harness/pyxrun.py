"""harness/pyxrun.py — run the transliterated `.pyx` kernels (C12) for one case.

`kernel(op, f)` calls the Cython twin of the routine behind a kernel-level op; the single-pass
routines get their own ops (`isi_dist_k`, `spike_dist_k`, `coinc_value_k`, `order_value_k`,
`dir_value_k`), whose model answer is the average / integral of the corresponding model profile.
"""
import numpy as np
from . import adapters, pyx2py
from .adapters import arr, fl, guarded, Missing, REJECT
from .core import REPO

_mods = None


def mods():
    global _mods
    if _mods is None:
        _mods = pyx2py.load_pyx_modules(REPO)
    return _mods


def fn(mod, name):
    f = getattr(mods()[mod], name, None)
    if f is None:
        raise Missing('%s.pyx: %s' % (mod, name))
    return f


def A(x):
    return list(np.asarray(x, dtype=float))


def kernel(op, f):
    try:
        return _kernel(op, f)
    except Missing:
        raise
    except adapters.Mutated:
        raise
    except REJECT:
        return 'reject'


def _kernel(op, f):
    if op in ('isi_profile', 'isi_dist_k'):
        s1, s2 = arr(f[0]), arr(f[1]); ts, te, m = fl(f[2])
        if op == 'isi_profile':
            x, y = guarded(lambda: fn('cython_profiles', 'isi_profile_cython')(s1, s2, ts, te, m), [s1, s2])
            return [A(x), A(y)]
        return [[guarded(lambda: fn('cython_distances', 'isi_distance_cython')(s1, s2, ts, te, m), [s1, s2])]]
    if op in ('spike_profile', 'spike_dist_k'):
        s1, s2 = arr(f[0]), arr(f[1]); ts, te, m, ri = fl(f[2])
        if op == 'spike_profile':
            x, y1, y2 = guarded(lambda: fn('cython_profiles', 'spike_profile_cython')(s1, s2, ts, te, m, int(ri)), [s1, s2])
            return [A(x), A(y1), A(y2)]
        return [[guarded(lambda: fn('cython_distances', 'spike_distance_cython')(s1, s2, ts, te, m, int(ri)), [s1, s2])]]
    if op == 'get_tau':
        s1, s2 = arr(f[0]), arr(f[1]); i, j, mt, m = f[2]
        return [[guarded(lambda: fn('cython_get_tau', 'get_tau')(s1, s2, int(i), int(j), float(mt), float(m)), [s1, s2])]]
    if op in ('coinc_profile', 'coinc_single', 'coinc_value_k', 'order_profile', 'order_value_k', 'dir_profile', 'dir_value_k'):
        s1, s2 = arr(f[0]), arr(f[1]); ts, te, mt, m = fl(f[2])
        tab = {'coinc_profile': ('cython_profiles', 'coincidence_profile_cython'),
               'coinc_single': ('cython_profiles', 'coincidence_single_profile_cython'),
               'coinc_value_k': ('cython_distances', 'coincidence_value_cython'),
               'order_profile': ('cython_directionality', 'spike_train_order_profile_cython'),
               'order_value_k': ('cython_directionality', 'spike_train_order_cython'),
               'dir_profile': ('cython_directionality', 'spike_directionality_profiles_cython'),
               'dir_value_k': ('cython_directionality', 'spike_directionality_cython')}
        k = fn(*tab[op])
        r = guarded(lambda: k(s1, s2, ts, te, mt, m), [s1, s2])
        if op == 'coinc_single':
            return [A(r)]
        if op == 'dir_value_k':
            return [[float(r)]]
        if op in ('coinc_value_k', 'order_value_k'):
            return [[float(r[0]), float(r[1])]]
        return [A(a) for a in r]
    if op in ('add_pwc', 'add_pwl', 'add_disc'):
        a = [arr(v) for v in f]
        name = {'add_pwc': 'add_piece_wise_const_cython', 'add_pwl': 'add_piece_wise_lin_cython', 'add_disc': 'add_discrete_function_cython'}[op]
        k = fn('cython_add', name)
        return [A(v) for v in guarded(lambda: k(*a), a)]
    raise KeyError(op)


def py_twin(op, f):
    """the pure-Python routine for the single-pass ops: average / integral of the profile"""
    if op == 'isi_dist_k':
        x, y = adapters.run_real('isi_profile', f)
        x, y = np.array(x), np.array(y)
        return [[float(np.sum((x[1:] - x[:-1]) * y) / (x[-1] - x[0]))]]
    if op == 'spike_dist_k':
        x, y1, y2 = [np.array(v) for v in adapters.run_real('spike_profile', f)]
        return [[float(np.sum((x[1:] - x[:-1]) * 0.5 * (y1 + y2)) / (x[-1] - x[0]))]]
    if op in ('coinc_value_k', 'order_value_k'):
        x, y, mp = [np.array(v) for v in adapters.run_real('coinc_profile' if op == 'coinc_value_k' else 'order_profile', f)]
        return [[float(np.sum(y[1:-1])), float(np.sum(mp[1:-1]))]]
    if op == 'dir_value_k':
        d1, d2 = adapters.run_real('dir_profile', f)
        return [[float(np.sum(d1))]]
    return adapters.run_real(op, f)


import contextlib, sys as _sys

API_MODS = ['cython_profiles', 'cython_distances', 'cython_add', 'cython_directionality', 'cython_get_tau']


@contextlib.contextmanager
def pyx_backend():
    """make the transliterated .pyx modules importable as `pyspike.cython.cython_*`, so that the
    API layer takes its "compiled" branches; removed again on exit (the API imports lazily)"""
    m = mods()
    names = []
    try:
        for n in API_MODS:
            full = 'pyspike.cython.' + n
            _sys.modules[full] = m[n]
            names.append(full)
        yield
    finally:
        for full in names:
            _sys.modules.pop(full, None)
