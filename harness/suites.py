"""harness/suites.py — correspondence suites (name → case generator) and the map
property → suites its theorems rest on (DESIGN.md §6 step 2)."""
import itertools
from fractions import Fraction as Fr
from . import gens


def S(tier, quick, thorough):
    return quick if tier == 'quick' else thorough


def k_suite(op):
    def gen(tier, rng):
        T = S(tier, 4, 5)
        yield from gens.kernel_grid(op, T)
        if tier != 'quick':
            yield from gens.kernel_grid(op, 4, ts=-2)
        yield from gens.kernel_random(op, rng, S(tier, 1500, 15000))
    return gen


def k_tau(tier, rng):
    yield from gens.get_tau_cases(rng, S(tier, 3000, 30000))
    yield from gens.tau_tie_cases(rng, S(tier, 150, 1500))


def k_half(ops):
    """coincidence kernels on a half-integer grid, where windows and max_tau bind"""
    def gen(tier, rng):
        T = S(tier, 2, 3)
        pts = [Fr(k, 2) for k in range(2 * T + 1)]
        subs = list(gens.subsets(pts))
        for s1 in subs:
            for s2 in subs:
                tg = gens.tags_of(s1, s2, Fr(0), Fr(T))
                for mt in (0, Fr(3, 4), Fr(1, 2)):
                    for m in (0, 2):
                        for op in ops:
                            yield op, [s1, s2, [Fr(0), Fr(T), mt, m]], tg
    return gen


def f_add(tier, rng):
    yield from gens.add_cases(rng, S(tier, 5, 7))
    yield from gens.avg_mul_cases(rng, 6, S(tier, 150, 2000))


def f_func(tier, rng):
    yield from gens.func_cases(rng, S(tier, 4, 6), per_func_intervals=S(tier, None, 40))


def a_meas(meas):
    def gen(tier, rng):
        yield from gens.api_cases(rng, S(tier, 250, 3000), measures=(meas,))
        yield from gens.api_grid(S(tier, 3, 4), (meas,), max_tau=(0, Fr(3, 4)), mrts=(0, 2))
    return gen


def a_multi3(meas):
    def gen(tier, rng):
        if tier != 'quick':
            yield from gens.api_grid(2, (meas,), max_tau=(0, Fr(3, 4)), mrts=(0,), n_trains=3)
    return gen


def a_filter(tier, rng):
    yield from gens.filter_cases(rng, S(tier, 400, 5000))


def a_reconcile(tier, rng):
    yield from gens.reconcile_cases(rng, S(tier, 150, 2000))
    yield from gens.norecon_cases(rng, S(tier, 60, 800))


def a_misc(tier, rng):
    yield from gens.misc_cases(rng, S(tier, 300, 4000))
    yield from gens.isi_lengths_grid(S(tier, 5, 7))


def a_text(tier, rng):
    yield from gens.text_cases(rng, S(tier, 400, 6000))


SUITES = {
    'a-text': a_text,
    'k-isi': k_suite('isi_profile'), 'k-spike': k_suite('spike_profile'), 'k-coinc': k_suite('coinc_profile'),
    'k-order': k_suite('order_profile'), 'k-single': k_suite('coinc_single'), 'k-dir': k_suite('dir_profile'),
    'k-tau': k_tau, 'k-half': k_half(('coinc_profile', 'coinc_single', 'order_profile', 'dir_profile')),
    'f-add': f_add, 'f-func': f_func,
    'a-isi': a_meas('isi'), 'a-spike': a_meas('spike'), 'a-sync': a_meas('sync'), 'a-order': a_meas('order'),
    'a-dir': a_meas('dir'), 'a-filter': a_filter, 'a-reconcile': a_reconcile, 'a-misc': a_misc,
    'a3-isi': a_multi3('isi'), 'a3-spike': a_multi3('spike'), 'a3-sync': a_multi3('sync'),
}

A_ALL = ['a-isi', 'a-spike', 'a-sync', 'a-order', 'a-dir']

PROP_SUITES = {
    'C01': ['k-isi', 'a-isi'],
    'C02': ['k-spike', 'a-spike'],
    'C03': ['k-tau', 'k-coinc', 'k-single', 'k-half', 'a-sync', 'a-filter'],
    'C04': ['k-tau', 'k-order', 'k-dir', 'k-half', 'a-order', 'a-dir'],
    'C05': ['f-func'] + A_ALL,
    'C06': ['f-add'] + A_ALL + ['a3-isi', 'a3-spike', 'a3-sync'],
    'C07': ['k-isi', 'k-spike', 'k-coinc', 'k-order', 'k-dir'] + A_ALL,
    'C08': ['k-isi', 'k-spike', 'k-coinc', 'k-order', 'k-half', 'a-isi', 'a-spike', 'a-sync', 'a-order'],
    'C09': ['f-add'],
    'C10': ['f-func'],
    'C11': ['f-add', 'f-func', 'a-sync'],
    'C12': [],
    'C13': ['a-reconcile'],
    'C14': A_ALL,
    'C15': ['k-isi', 'k-spike', 'k-tau', 'k-half', 'a-misc', 'a-isi', 'a-spike', 'a-sync'],
    'C16': ['k-tau', 'k-coinc', 'k-single', 'k-order', 'k-dir', 'k-half', 'a-filter'],
    'C17': ['k-single', 'k-half', 'a-filter', 'a-sync'],
    'C18': A_ALL + ['a-filter'],
    'C19': ['a-text', 'a-misc'],
    'C20': ['a-misc'],
}
