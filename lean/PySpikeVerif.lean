import PySpikeVerif.Model.Basic
import PySpikeVerif.Model.Isi
import PySpikeVerif.Model.Spike
import PySpikeVerif.Model.Sync
import PySpikeVerif.Model.Funcs
import PySpikeVerif.Model.Api
