/-
  Properties/C15.lean — MRTS only de-emphasises small time scales.

  The three places where MRTS enters the kernels are `isiVal` (ISI ratio), `distAtT`
  (`dist_at_t`, SPIKE) and `getTau` (`get_tau`, coincidence window). Each theorem is stated for
  positive interval lengths / non-negative spike distances, which is what the scans feed them
  (`nuAt_pos`, `minDist_nonneg`).
-/
import PySpikeVerif.Proofs.IsiLaws
import PySpikeVerif.Proofs.SpikeLaws
import PySpikeVerif.Proofs.TauLaws
import PySpikeVerif.Model.Api

namespace PySpike.C15
open PySpike

/-- raising MRTS never increases an ISI-profile value -/
theorem isi_value_antitone (nu1 nu2 m1 m2 : Q) (h1 : 0 < nu1) (hm : m1 ≤ m2) :
    isiVal nu1 nu2 m2 ≤ isiVal nu1 nu2 m1 := isiVal_antitone_m nu1 nu2 m1 m2 h1 hm

/-- raising MRTS never increases a SPIKE-profile value (plain and rate-independent) -/
theorem spike_value_antitone (isi1 isi2 s1 s2 m1 m2 : Q) (ri : Bool) (h1 : 0 < isi1) (h2 : 0 < isi2)
    (hs1 : 0 ≤ s1) (hs2 : 0 ≤ s2) (hm : m1 ≤ m2) :
    distAtT isi1 isi2 s1 s2 m2 ri ≤ distAtT isi1 isi2 s1 s2 m1 ri :=
  distAtT_antitone_m isi1 isi2 s1 s2 m1 m2 ri h1 h2 hs1 hs2 hm

/-- raising MRTS never shrinks a coincidence window, so never removes a coincidence: whatever
    passes the test `d < tau` at MRTS₁ passes it at MRTS₂ ≥ MRTS₁ -/
theorem coincidence_preserved (k1 r1 k2 r2 : List Q) (tm m1 m2 d : Q) (hm : m1 ≤ m2)
    (h : d < tauAt k1 r1 k2 r2 tm m1) : d < tauAt k1 r1 k2 r2 tm m2 :=
  lt_of_lt_of_le h (tauAt_mono_mrts k1 r1 k2 r2 tm m1 m2 hm)

/-- MRTS = 0 is the non-adaptive ISI ratio `|ν₁-ν₂| / max(ν₁,ν₂)` -/
theorem isi_mrts_zero (nu1 nu2 : Q) (h1 : 0 < nu1) :
    isiVal nu1 nu2 0 = |nu1 - nu2| / max nu1 nu2 := by
  rw [isiVal_zero_m nu1 nu2 (le_trans (le_of_lt h1) (le_max_left _ _)), qabs_eq_abs]

/-- MRTS = 0 is the non-adaptive SPIKE dissimilarity `(s₁·isi₂ + s₂·isi₁)/2 / mean²`
    (rate independent: `(s₁+s₂)/2 / mean`) -/
theorem spike_mrts_zero (isi1 isi2 s1 s2 : Q) (h1 : 0 < isi1) (h2 : 0 < isi2) :
    distAtT isi1 isi2 s1 s2 0 false
      = ((s1 * isi2 + s2 * isi1) / 2) / (((isi1 + isi2) / 2) * ((isi1 + isi2) / 2)) ∧
    distAtT isi1 isi2 s1 s2 0 true = ((s1 + s2) / 2) / ((isi1 + isi2) / 2) := by
  have hmean : 0 ≤ (isi1 + isi2) / 2 := by positivity
  unfold distAtT
  simp [max_eq_right hmean]

/-- MRTS = 0: the interpolation of two non-negative half-intervals is their minimum (the
    non-adaptive window) -/
theorem window_mrts_zero (a b : Q) (ha : 0 ≤ a) (hb : 0 ≤ b) : interp a b (0 / 4) = min a b := by
  rw [zero_div]; exact interp_zero a b ha hb

/-- an MRTS below the interval lengths involved changes nothing: ISI ratio … -/
theorem isi_small_mrts (nu1 nu2 m : Q) (h1 : 0 < nu1) (hm : m ≤ max nu1 nu2) :
    isiVal nu1 nu2 m = isiVal nu1 nu2 0 := by
  rcases isiVal_small_m nu1 nu2 m hm with h | h
  · exact h
  · exact absurd (lt_of_lt_of_le h1 (le_max_left nu1 nu2)) (not_lt.mpr (le_of_lt h))

/-- … SPIKE dissimilarity … -/
theorem spike_small_mrts (isi1 isi2 s1 s2 m : Q) (ri : Bool) (h1 : 0 < isi1) (h2 : 0 < isi2)
    (hm : m ≤ (isi1 + isi2) / 2) :
    distAtT isi1 isi2 s1 s2 m ri = distAtT isi1 isi2 s1 s2 0 ri :=
  distAtT_small_m isi1 isi2 s1 s2 m ri h1 h2 hm

/-- … and coincidence window (`MRTS/4` below both half-intervals) -/
theorem window_small_mrts (a b m : Q) (ha : 0 ≤ a) (hb : 0 ≤ b) (hm : m / 4 ≤ min a b) :
    interp a b (m / 4) = interp a b (0 / 4) := by
  rw [interp_small_t a b _ hm, window_mrts_zero a b ha hb]

/-- `MRTS='auto'`: the threshold every API function substitutes is `sqrt` of the mean of the squared
    pooled ISI lengths of the (reconciled) trains, edges of the first train -/
theorem auto_threshold_def (t : Train) (L : List Train) :
    defaultThreshSq (t :: L) =
      qsum (((t :: L).flatMap fun u => isiLengths u.spikes t.ts t.te).map fun x => x * x)
        / (((t :: L).flatMap fun u => isiLengths u.spikes t.ts t.te).length : Q) := rfl

/-- an empty train contributes the recording length to the pool -/
theorem isiLengths_empty (ts te : Q) : isiLengths [] ts te = [te - ts] := rfl

/-! The pooled list is *not* the list of inter-spike intervals for two input classes
    (known finding F7); witnesses, decided by the kernel: -/
theorem F7_one_spike_on_edge : isiLengths [0] 0 4 = [0, 4] := by decide +kernel
theorem F7_two_spikes_on_both_edges : isiLengths [0, 4] 0 4 = [4, 4] := by decide +kernel
/-- generic case for comparison: edge intervals are the larger of edge distance and neighbour -/
example : isiLengths [1, 2, 5] 0 6 = [1, 1, 3, 3] := by decide +kernel
example : isiLengths [0, 2, 5] 0 6 = [2, 3, 3] := by decide +kernel

end PySpike.C15
