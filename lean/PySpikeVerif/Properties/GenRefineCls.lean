/-
  Properties/GenRefineCls.lean — the function classes and `isi_lengths` at source level.

  `Gen/Classes.lean`, `Gen/Classes2.lean` and `Gen/IsiLengths.lean` are produced mechanically from
  `pyspike/PieceWiseConstFunc.py`, `PieceWiseLinFunc.py`, `DiscreteFunc.py` and `isi_lengths.py`
  (harness/py2lean.py, regenerated and compared on every run of C05/C10/C11 resp. C15). The theorems say
  that every translated method returns exactly what the hand-written model returns — for EVERY interval and
  time, the inputs the code rejects included (`none` = ValueError / failed assertion / IndexError).
-/
import PySpikeVerif.Proofs.GenRefine.ClsPwc
import PySpikeVerif.Proofs.GenRefine.ClsPwl
import PySpikeVerif.Proofs.GenRefine.ClsDisc
import PySpikeVerif.Proofs.GenRefine.ClsPlot
import PySpikeVerif.Proofs.GenRefine.ClsList
import PySpikeVerif.Proofs.GenRefine.IsiLen
import PySpikeVerif.Properties.C15
import PySpikeVerif.Properties.C15Mrts
open PySpike PySpike.Gen PySpike.GenCls PySpike.GenRefine

namespace PySpike.C10

/-- `PieceWiseConstFunc.integral()` -/
theorem source_pwc_integral_all (F : Nat) (x y : List Rat) (h : x.length = y.length + 1) :
    pwc_integral_all F x y = some (Pwc.integralAll ⟨x, y⟩) := pwc_integral_all_refines F x y h

/-- `PieceWiseConstFunc.integral((a, b))` for EVERY pair `(a, b)`: the three `ValueError`s, the
    IndexError at `a = b = x[-1]`, the same-piece branch and the general branch -/
theorem source_pwc_integral (F : Nat) (x y : List Rat) (a b : Rat) (h : PwcOk x y) :
    pwc_integral F x y a b = Pwc.integralCode ⟨x, y⟩ a b := pwc_integral_refines F x y a b h

/-- … and on every interval inside the support with `a < b` (what C10 quantifies over) the
    code-faithful model IS the model the C10 theorems are about -/
theorem integralCode_is_integral_inside (f : Pwc) (a b : Q) (hab : a < b) :
    Pwc.integralCode f a b = Pwc.integral f a b := by
  unfold Pwc.integralCode
  rw [if_neg]
  rintro ⟨h1, h2⟩
  rw [h1, h2] at hab
  exact absurd hab (lt_irrefl _)

theorem source_pwc_avrg_all (F : Nat) (x y : List Rat) (h : PwcOk x y) :
    pwc_avrg_all F x y = some (Pwc.avrgAll ⟨x, y⟩) := pwc_avrg_all_refines F x y h

theorem source_pwc_avrg (F : Nat) (x y : List Rat) (a b : Rat) (h : PwcOk x y) :
    pwc_avrg F x y a b = (Pwc.integralCode ⟨x, y⟩ a b).map (· / (b - a)) := pwc_avrg_refines F x y a b h

/-- `f(t)` for a single time: piece value, mean of the two neighbouring pieces at an interior
    breakpoint, one-sided value at the two end points; assertion failure outside the support -/
theorem source_pwc_call (F : Nat) (x y : List Rat) (t : Rat) (h : PwcOk x y) :
    pwc_call F x y t = if x.headD 0 ≤ t ∧ t ≤ lastD x 0 then some (Pwc.call ⟨x, y⟩ t) else none :=
  pwc_call_refines F x y t h

theorem source_pwl_integral_all (F : Nat) (x y1 y2 : List Rat)
    (h : x.length = y1.length + 1 ∧ y1.length = y2.length) :
    pwl_integral_all F x y1 y2 = some (Pwl.integralAll ⟨x, y1, y2⟩) := pwl_integral_all_refines F x y1 y2 h

/-- `PieceWiseLinFunc.integral((a, b))` for EVERY pair: assertion `a ≥ x[0]`; IndexError for `a ≥ x[-1]`
    or `b > x[-1]` (the code has no range check for the upper bound); same-piece and general branch -/
theorem source_pwl_integral (F : Nat) (x y1 y2 : List Rat) (a b : Rat) (h : PwlOk x y1 y2) :
    pwl_integral F x y1 y2 a b = Pwl.integralCode ⟨x, y1, y2⟩ a b := pwl_integral_refines F x y1 y2 a b h

/-- inside the support the code-faithful model is the model of the C10 theorems -/
theorem pwl_integralCode_is_integral_inside (f : Pwl) (a b : Q)
    (h : f.x.headD 0 ≤ a ∧ a < lastD f.x 0 ∧ b ≤ lastD f.x 0) :
    Pwl.integralCode f a b = Pwl.integral f a b := by
  unfold Pwl.integralCode
  rw [if_pos h]

theorem source_pwl_avrg_all (F : Nat) (x y1 y2 : List Rat) (h : PwlOk x y1 y2) :
    pwl_avrg_all F x y1 y2 = some (Pwl.avrgAll ⟨x, y1, y2⟩) := pwl_avrg_all_refines F x y1 y2 h

theorem source_pwl_avrg (F : Nat) (x y1 y2 : List Rat) (a b : Rat) (h : PwlOk x y1 y2) :
    pwl_avrg F x y1 y2 a b = (Pwl.integralCode ⟨x, y1, y2⟩ a b).map (· / (b - a)) :=
  pwl_avrg_refines F x y1 y2 a b h

/-- `avrg([(a₁,b₁), …])`: summed integrals / summed lengths, for EVERY list of intervals (an interval the
    single-interval integral rejects makes the whole call fail) -/
theorem source_pwc_avrg_list (F : Nat) (x y : List Rat) (ivs : List (Rat × Rat)) (h : PwcOk x y)
    (hF : ivs.length + 2 ≤ F) :
    pwc_avrg_list F x y (ivs.map (·.1)) (ivs.map (·.2)) = Pwc.avrgListCode ⟨x, y⟩ ivs :=
  pwc_avrg_list_refines F x y ivs h hF

theorem source_pwl_avrg_list (F : Nat) (x y1 y2 : List Rat) (ivs : List (Rat × Rat)) (h : PwlOk x y1 y2)
    (hF : ivs.length + 2 ≤ F) :
    pwl_avrg_list F x y1 y2 (ivs.map (·.1)) (ivs.map (·.2)) = Pwl.avrgListCode ⟨x, y1, y2⟩ ivs :=
  pwl_avrg_list_refines F x y1 y2 ivs h hF

theorem source_pwl_call (F : Nat) (x y1 y2 : List Rat) (t : Rat) (h : PwlOk x y1 y2) :
    pwl_call F x y1 y2 t = if x.headD 0 ≤ t ∧ t ≤ lastD x 0 then some (Pwl.call ⟨x, y1, y2⟩ t) else none :=
  pwl_call_refines F x y1 y2 t h

end PySpike.C10

namespace PySpike.C11

/-- `DiscreteFunc.integral()`: the edge entries never count -/
theorem source_disc_integral_all (F : Nat) (x y mp : List Rat) (h : x.length = y.length ∧ x.length = mp.length) :
    disc_integral_all F x y mp = some (Disc.integralAll (mkDisc3 x y mp)) := disc_integral_all_refines F x y mp h

/-- `DiscreteFunc.integral((a, b))` for EVERY pair: the events strictly inside the open interval;
    assertion failure when the interval is not inside the support -/
theorem source_disc_integral (F : Nat) (x y mp : List Rat) (a b : Rat) (h : DiscOk x y mp) :
    disc_integral F x y mp a b = Disc.integral (mkDisc3 x y mp) a b := disc_integral_refines F x y mp a b h

/-- `DiscreteFunc.integral([(a₁,b₁), …])`: several intervals add up -/
theorem source_disc_integral_list (F : Nat) (x y mp : List Rat) (ivs : List (Rat × Rat)) (h : DiscOk x y mp)
    (hF : ivs.length + 2 ≤ F) :
    disc_integral_list F x y mp (ivs.map (·.1)) (ivs.map (·.2)) = Disc.integralList (mkDisc3 x y mp) ivs :=
  disc_integral_list_refines F x y mp ivs h hF

/-- `DiscreteFunc.get_plottable_data(averaging_window_size=k)` — the two nested smoothing loops with their
    `break` / `continue` — returns the times unchanged and the model's smoothed values, for every `k ≥ 0`
    (float64 arrays: with an integer-typed `y`, `np.zeros_like(self.y)` would truncate the stored values) -/
theorem source_disc_plottable (F : Nat) (x y mp : List Rat) (k : Nat)
    (h : x.length = y.length ∧ x.length = mp.length ∧ 1 ≤ x.length) (h0 : 0 ≤ mp.headD 0)
    (hF : x.length + 2 ≤ F) :
    disc_plottable F x y mp (k : Int) = some (x, (mkDisc3' x y mp).plottable k) :=
  disc_plottable_refines F x y mp k h h0 hF

end PySpike.C11

namespace PySpike.C15

/-- `isi_lengths(spike_times, t_start, t_end)` as translated from the source IS `isiLengths`, for ALL lists -/
theorem source_isi_lengths_is_model (F : Nat) (s : List Rat) (ts te : Rat) :
    GenIsiLen.isi_lengths F s ts te = some (isiLengths s ts te) := isi_lengths_refines F s ts te

/-- … hence, for spikes inside `[ts, te]` and outside the class of known finding F7, the routine of the
    source returns the inter-spike intervals with the edge rule of the profiles -/
theorem source_isi_lengths_is_isi_list_partial (F : Nat) (s : List Q) (ts te : Q)
    (hb : ∀ x ∈ s, ts ≤ x ∧ x ≤ te) (hF : ¬ F7class s ts te) :
    GenIsiLen.isi_lengths F s ts te = some (isiListSpec s ts te) := by
  rw [isi_lengths_refines F s ts te, isi_lengths_is_isi_list_partial s ts te hb hF]

/-- … and F7 is in the source: the routine translated from it returns the phantom interval -/
theorem source_F7_one_spike_on_edge (F : Nat) : GenIsiLen.isi_lengths F [0] 0 4 = some [0, 4] := by
  rw [isi_lengths_refines]; exact congrArg some F7_one_spike_on_edge

end PySpike.C15
