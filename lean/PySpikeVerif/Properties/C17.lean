/-
  Properties/C17.lean — the SPIKE-Sync filter keeps exactly the spikes above threshold.
  Model: `filterBySync`, `coincCounts` (Model/Api.lean). Proved so far: the decision rule, the
  partition of every train into kept and removed spikes and the preserved interval; threshold
  monotonicity and the relation to the pairwise definition come with work packages B6 / B1.
-/
import PySpikeVerif.Model.Api
import PySpikeVerif.Proofs.Basic
import Mathlib.Data.List.Basic
import PySpikeVerif.Proofs.FilterLaws
import PySpikeVerif.Proofs.SyncScan
import PySpikeVerif.Proofs.ProfileAtTime

namespace PySpike.C17
open PySpike

/-- kept / removed trains of input train `i` -/
def keptOf (kw : Kw) (thr : Q) (L : List Train) (i : Nat) : List Q :=
  (((tr L i).spikes.zip (coincCounts kw L i)).filter fun p => p.2 > thr * ((L.length : Q) - 1)).map (·.1)
def removedOf (kw : Kw) (thr : Q) (L : List Train) (i : Nat) : List Q :=
  (((tr L i).spikes.zip (coincCounts kw L i)).filter fun p => p.2 ≤ thr * ((L.length : Q) - 1)).map (·.1)

/-- the decision rule: a spike is kept iff its coincidence count is STRICTLY greater than
    `threshold·(N-1)`, i.e. the fraction of the other N-1 trains it is coincident with exceeds the
    threshold; otherwise it is in the removed train; same interval, one output train per input -/
theorem filter_rule (kw : Kw) (thr : Q) (L : List Train) (hr : kw.recon = false) :
    filterBySync kw thr L =
      ((List.range L.length).map (fun i => ⟨keptOf kw thr L i, (tr L i).ts, (tr L i).te⟩),
       (List.range L.length).map (fun i => ⟨removedOf kw thr L i, (tr L i).ts, (tr L i).te⟩)) := by
  simp [filterBySync, prep, hr, keptOf, removedOf, List.map_map, Function.comp_def]

theorem filter_counts (kw : Kw) (thr : Q) (L : List Train) (hr : kw.recon = false) :
    (filterBySync kw thr L).1.length = L.length ∧ (filterBySync kw thr L).2.length = L.length := by
  rw [filter_rule kw thr L hr]; simp

theorem partition_aux (z : List (Q × Q)) (c : Q) :
    ((z.filter fun p => p.2 > c).map (·.1)).length + ((z.filter fun p => p.2 ≤ c).map (·.1)).length = z.length := by
  induction z with
  | nil => rfl
  | cons p r ih =>
    by_cases h : p.2 > c
    · have h' : ¬ p.2 ≤ c := not_le.mpr h
      simp only [List.filter_cons, h, h', decide_true, decide_false, if_true, List.map_cons,
        List.length_cons, Bool.false_eq_true, if_false] at ih ⊢
      omega
    · have h' : p.2 ≤ c := not_lt.mp h
      simp only [List.filter_cons, h, h', decide_true, decide_false, if_true, List.map_cons,
        List.length_cons, Bool.false_eq_true, if_false] at ih ⊢
      omega

/-- kept and removed spikes are sub-sequences of the input train (original order) and together
    account for every (spike, count) pair exactly once -/
theorem partition (kw : Kw) (thr : Q) (L : List Train) (i : Nat) :
    (keptOf kw thr L i).Sublist (((tr L i).spikes.zip (coincCounts kw L i)).map (·.1)) ∧
    (removedOf kw thr L i).Sublist (((tr L i).spikes.zip (coincCounts kw L i)).map (·.1)) ∧
    (keptOf kw thr L i).length + (removedOf kw thr L i).length
      = ((tr L i).spikes.zip (coincCounts kw L i)).length :=
  ⟨(List.filter_sublist).map _, (List.filter_sublist).map _, partition_aux _ _⟩

/-- a spike is never both kept and removed (the two tests are complementary) -/
theorem exclusive (c t : Q) : ¬ (c > t ∧ c ≤ t) := fun h => absurd h.1 (not_lt.mpr h.2)

/-- a higher threshold never keeps more: the test is antitone in the threshold (N ≥ 1) -/
theorem test_antitone (c thr1 thr2 n : Q) (hn : 0 ≤ n) (h : thr1 ≤ thr2) (hk : c > thr2 * n) : c > thr1 * n :=
  lt_of_le_of_lt (mul_le_mul_of_nonneg_right h hn) hk

example : (filterBySync { recon := false } (1/2) [⟨[1, 5], 0, 10⟩, ⟨[2, 8], 0, 10⟩]).1 =
    [⟨[1], 0, 10⟩, ⟨[2], 0, 10⟩] := by decide +kernel

/-! ### from Proofs/FilterLaws.lean (work package B6) -/

/-- the coincidence count of spike `k` of train `i` = number of OTHER trains with which it is
    coincident (sum of the per-pair indicators `coincSingle`), hence between 0 and N-1 -/
theorem count_is_number_of_coincident_trains (kw : Kw) (L : List Train) (i k : Nat) :
    (coincCounts kw L i).getD k 0
      = (((List.range L.length).filter (· ≠ i)).map fun j =>
          (coincSingle (tr L i).spikes (tr L j).spikes (tr L i).ts (tr L i).te
            kw.maxTau kw.mrts).getD k 0).sum := coincCounts_eq_sum kw L i k
theorem count_bounds (kw : Kw) (L : List Train) (i : Nat) :
    ∀ c ∈ coincCounts kw L i, 0 ≤ c ∧ c ≤ (L.length : Q) - 1 := B6_coincCounts_bounds kw L i

/-- **keep rule**: spike `k` of (strictly sorted) train `i` is in the kept train iff its count is
    strictly greater than `threshold·(N-1)` -/
theorem keep_iff (kw : Kw) (thr : Q) (L : List Train) (hr : kw.recon = false)
    (i : Nat) (hi : i < L.length) (hs : StrictSorted (tr L i).spikes) (k : Nat)
    (hk : k < (tr L i).spikes.length) :
    (tr L i).spikes[k] ∈ (tr (filterBySync kw thr L).1 i).spikes ↔
      (coincCounts kw L i).getD k 0 > thr * ((L.length : Q) - 1) :=
  filter_keep_iff kw thr L hr i hi hs k hk

/-- **partition**: kept and removed spikes are sub-sequences of the input train in the original
    order, together a permutation of it, on the original interval; one output train per input -/
theorem kept_removed_partition (kw : Kw) (thr : Q) (L : List Train) (hr : kw.recon = false)
    (i : Nat) (hi : i < L.length) :
    (tr (filterBySync kw thr L).1 i).spikes.Sublist (tr L i).spikes ∧
    (tr (filterBySync kw thr L).2 i).spikes.Sublist (tr L i).spikes ∧
    (tr (filterBySync kw thr L).1 i).spikes.length + (tr (filterBySync kw thr L).2 i).spikes.length
      = (tr L i).spikes.length ∧
    ((tr (filterBySync kw thr L).1 i).spikes ++ (tr (filterBySync kw thr L).2 i).spikes).Perm
      (tr L i).spikes ∧
    (tr (filterBySync kw thr L).1 i).ts = (tr L i).ts ∧
    (tr (filterBySync kw thr L).1 i).te = (tr L i).te ∧
    (tr (filterBySync kw thr L).2 i).ts = (tr L i).ts ∧
    (tr (filterBySync kw thr L).2 i).te = (tr L i).te ∧
    (filterBySync kw thr L).1.length = L.length ∧ (filterBySync kw thr L).2.length = L.length :=
  filter_partition kw thr L hr i hi

/-- **monotone**: a higher threshold never keeps more spikes -/
theorem higher_threshold_keeps_less (kw : Kw) (thr1 thr2 : Q) (L : List Train) (hr : kw.recon = false)
    (h12 : thr1 ≤ thr2) (i : Nat) (hi : i < L.length) :
    (tr (filterBySync kw thr2 L).1 i).spikes.Sublist (tr (filterBySync kw thr1 L).1 i).spikes :=
  filter_antitone_thr kw thr1 thr2 L hr h12 i hi

/-- threshold 1 (or more) keeps nothing: the fraction can never be strictly greater than 1 -/
theorem threshold_one_keeps_nothing (kw : Kw) (thr : Q) (L : List Train) (hr : kw.recon = false)
    (h1 : 1 ≤ thr) (i : Nat) (hi : i < L.length) :
    (tr (filterBySync kw thr L).1 i).spikes = [] ∧
    (tr (filterBySync kw thr L).2 i).spikes = (tr L i).spikes := filter_thr_one_none kw thr L hr h1 i hi

/-- the per-pair indicator summed by the filter is the pairwise coincidence definition — the same
    relation `Coinc` that defines the SPIKE-Sync profile (Properties/C03): the k-th spike of train i
    counts train j iff some spike of train j is closer than the coincidence window -/
theorem indicator_is_profile_definition (s1 s2 : List Q) (ts te mt m : Q)
    (h1 : StrictSorted s1) (h2 : StrictSorted s2) :
    coincSingle s1 s2 ts te mt m
      = s1.map fun a => if s2.any (fun b => decide (Coinc s1 s2 (trueMax ts te mt) m a b)) then 1 else 0 :=
  coincSingle_eq_spec s1 s2 ts te mt m h1 h2

/-! ## the filter's per-spike fraction is the multivariate SPIKE-Sync profile at that spike's time
    (work package C4) -/

/-- the bivariate SPIKE-Sync profile at any time `t`: (2,2) where both trains spike, (indicator, 1)
    where one does, (0,0) elsewhere — `C4_ind` is the filter's per-spike indicator -/
theorem pair_profile_at_time (kw : Kw) (a b : Train) (hr : kw.recon = false)
    (ha : StrictSorted a.spikes) (hb : StrictSorted b.spikes) (t : Q) :
    (syncProfileBi kw a b).at t =
      if t ∈ a.spikes ∧ t ∈ b.spikes then (2, 2)
      else if t ∈ a.spikes then
        (C4_ind a.spikes b.spikes (trueMax a.ts a.te kw.maxTau) kw.mrts t, 1)
      else if t ∈ b.spikes then
        (C4_ind b.spikes a.spikes (trueMax a.ts a.te kw.maxTau) kw.mrts t, 1)
      else (0, 0) := C4_pair_profile_at kw a b hr ha hb t

/-- the multivariate profile at any time `t`: value = sum of the filter's coincidence counts of the
    trains spiking at `t`, multiplicity = (number of trains spiking at `t`) · (N − 1) -/
theorem multi_profile_at_time (kw : Kw) (L : List Train) (ts te : Q) (hr : kw.recon = false)
    (h2 : 2 ≤ L.length) (hlt : ts < te)
    (hL : ∀ s ∈ L, s.ts = ts ∧ s.te = te ∧ StrictSorted s.spikes) (t : Q) :
    (syncProfileMulti kw none L).at t =
      (((C4_trainsAt L t).map fun i => C4_countAt kw L i t).sum,
       ((C4_trainsAt L t).length : Q) * ((L.length : Q) - 1)) :=
  profile_at_time kw L ts te hr h2 hlt hL t

/-- the filter keeps a spike (that no other train shares) exactly when the multivariate profile
    at its time exceeds the threshold: value > threshold · multiplicity -/
theorem kept_iff_profile_above_threshold (kw : Kw) (thr : Q) (L : List Train) (ts te : Q)
    (hr : kw.recon = false) (h2 : 2 ≤ L.length) (hlt : ts < te)
    (hL : ∀ s ∈ L, s.ts = ts ∧ s.te = te ∧ StrictSorted s.spikes)
    (i : Nat) (hi : i < L.length) (k : Nat) (hk : k < (tr L i).spikes.length)
    (hother : ∀ j, j < L.length → j ≠ i → (tr L i).spikes[k] ∉ (tr L j).spikes) :
    (tr L i).spikes[k] ∈ (tr (filterBySync kw thr L).1 i).spikes ↔
      ((syncProfileMulti kw none L).at ((tr L i).spikes[k])).1
        > thr * ((syncProfileMulti kw none L).at ((tr L i).spikes[k])).2 :=
  C4_filter_keeps_iff_profile_fraction kw thr L ts te hr h2 hlt hL i hi k hk hother

example : ({ recon := false } : Kw).recon = false ∧ 2 ≤ C4_exL.length ∧ (0 : Q) < 6 ∧
    ∀ s ∈ C4_exL, s.ts = 0 ∧ s.te = 6 ∧ StrictSorted s.spikes :=
  ⟨rfl, by decide, by norm_num, C4_exL_ok⟩


/-- FINDING F14 (kernel-decided witness): when several trains spike at the same instant with
    DIFFERENT coincidence counts, the multivariate profile shows the pooled fraction of all of
    them, not the fraction of each spike. Here the profile at t = 5 shows 3/4 > 3/5, spike 5 of
    train 0 (fraction 2/2) is kept, spike 5 of train 1 (fraction 1/2) is removed — the filter
    follows the per-spike fraction (`keep_iff`), the gloss "the value the profile shows for that
    spike" of the property does not hold at this shared time. (`hother` above excludes exactly
    this situation; `WaveF.kept_iff_profile_above_equal_counts` is the general true statement.) -/
theorem F14_profile_shows_pooled_fraction_at_shared_times :
    let L : List Train := [⟨[5], 0, 10⟩, ⟨[4, 5], 0, 10⟩, ⟨[29 / 5], 0, 10⟩]
    let kw : Kw := { recon := false }
    (syncProfileMulti kw none L).at 5 = (3, 4) ∧
    (filterBySync kw (3 / 5) L).1.map (·.spikes) = [[5], [], []] ∧
    (filterBySync kw (3 / 5) L).2.map (·.spikes) = [[], [4, 5], [29 / 5]] := by
  decide +kernel

end PySpike.C17
