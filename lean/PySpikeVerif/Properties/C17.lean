/-
  Properties/C17.lean — the SPIKE-Sync filter keeps exactly the spikes above threshold.
  Model: `filterBySync`, `coincCounts` (Model/Api.lean). Proved so far: the decision rule, the
  partition of every train into kept and removed spikes and the preserved interval; threshold
  monotonicity and the relation to the pairwise definition come with work packages B6 / B1.
-/
import PySpikeVerif.Model.Api
import PySpikeVerif.Proofs.Basic
import Mathlib.Data.List.Basic

namespace PySpike.C17
open PySpike

/-- kept / removed trains of input train `i` -/
def keptOf (kw : Kw) (thr : Q) (L : List Train) (i : Nat) : List Q :=
  (((tr L i).spikes.zip (coincCounts kw L i)).filter fun p => p.2 > thr * ((L.length : Q) - 1)).map (·.1)
def removedOf (kw : Kw) (thr : Q) (L : List Train) (i : Nat) : List Q :=
  (((tr L i).spikes.zip (coincCounts kw L i)).filter fun p => p.2 ≤ thr * ((L.length : Q) - 1)).map (·.1)

/-- the decision rule: a spike is kept iff its coincidence count is STRICTLY greater than
    `threshold·(N-1)`, i.e. the fraction of the other N-1 trains it is coincident with exceeds the
    threshold; otherwise it is in the removed train; same interval, one output train per input -/
theorem filter_rule (kw : Kw) (thr : Q) (L : List Train) (hr : kw.recon = false) :
    filterBySync kw thr L =
      ((List.range L.length).map (fun i => ⟨keptOf kw thr L i, (tr L i).ts, (tr L i).te⟩),
       (List.range L.length).map (fun i => ⟨removedOf kw thr L i, (tr L i).ts, (tr L i).te⟩)) := by
  simp [filterBySync, prep, hr, keptOf, removedOf, List.map_map, Function.comp_def]

theorem filter_counts (kw : Kw) (thr : Q) (L : List Train) (hr : kw.recon = false) :
    (filterBySync kw thr L).1.length = L.length ∧ (filterBySync kw thr L).2.length = L.length := by
  rw [filter_rule kw thr L hr]; simp

theorem partition_aux (z : List (Q × Q)) (c : Q) :
    ((z.filter fun p => p.2 > c).map (·.1)).length + ((z.filter fun p => p.2 ≤ c).map (·.1)).length = z.length := by
  induction z with
  | nil => rfl
  | cons p r ih =>
    by_cases h : p.2 > c
    · have h' : ¬ p.2 ≤ c := not_le.mpr h
      simp only [List.filter_cons, h, h', decide_true, decide_false, if_true, List.map_cons,
        List.length_cons, Bool.false_eq_true, if_false] at ih ⊢
      omega
    · have h' : p.2 ≤ c := not_lt.mp h
      simp only [List.filter_cons, h, h', decide_true, decide_false, if_true, List.map_cons,
        List.length_cons, Bool.false_eq_true, if_false] at ih ⊢
      omega

/-- kept and removed spikes are sub-sequences of the input train (original order) and together
    account for every (spike, count) pair exactly once -/
theorem partition (kw : Kw) (thr : Q) (L : List Train) (i : Nat) :
    (keptOf kw thr L i).Sublist (((tr L i).spikes.zip (coincCounts kw L i)).map (·.1)) ∧
    (removedOf kw thr L i).Sublist (((tr L i).spikes.zip (coincCounts kw L i)).map (·.1)) ∧
    (keptOf kw thr L i).length + (removedOf kw thr L i).length
      = ((tr L i).spikes.zip (coincCounts kw L i)).length :=
  ⟨(List.filter_sublist).map _, (List.filter_sublist).map _, partition_aux _ _⟩

/-- a spike is never both kept and removed (the two tests are complementary) -/
theorem exclusive (c t : Q) : ¬ (c > t ∧ c ≤ t) := fun h => absurd h.1 (not_lt.mpr h.2)

/-- a higher threshold never keeps more: the test is antitone in the threshold (N ≥ 1) -/
theorem test_antitone (c thr1 thr2 n : Q) (hn : 0 ≤ n) (h : thr1 ≤ thr2) (hk : c > thr2 * n) : c > thr1 * n :=
  lt_of_le_of_lt (mul_le_mul_of_nonneg_right h hn) hk

example : (filterBySync { recon := false } (1/2) [⟨[1, 5], 0, 10⟩, ⟨[2, 8], 0, 10⟩]).1 =
    [⟨[1], 0, 10⟩, ⟨[2], 0, 10⟩] := by decide +kernel

end PySpike.C17
