/-
  Properties/C07Spike.lean — C07 for the SPIKE distance: range, symmetry, identity
  (Proofs/SpikeBound.lean = work package C1, Proofs/SpikeSymm.lean = work package C2).
  Kept apart from C07.lean only because SpikeSymm imports C07's ISI theorems.
-/
import PySpikeVerif.Proofs.SpikeBound
import PySpikeVerif.Proofs.SpikeSymm

namespace PySpike.C07
open PySpike PySpike.C01

/-- range of the SPIKE profile: every value lies in [0, 1] (valid trains outside the F9 class) -/
theorem spike_profile_range_partial (t1 t2 : List Q) (ts te m : Q) (ri : Bool)
    (h1 : ValidNE t1 ts te) (h2 : ValidNE t2 ts te) (hlt : ts < te)
    (hn1 : ¬ OneSpikeOnStart t1 ts) (hn2 : ¬ OneSpikeOnStart t2 ts) :
    ∀ v ∈ (spikeProfile t1 t2 ts te m ri).2.1 ++ (spikeProfile t1 t2 ts te m ri).2.2,
      0 ≤ v ∧ v ≤ 1 := by
  intro v hv
  refine ⟨?_, spikeProfile_le_one t1 t2 ts te m ri h1 h2 hlt hn1 hn2 v hv⟩
  obtain ⟨a, b⟩ := B4_spikeProfile_nonneg t1 t2 ts te m ri h1 h2 hlt hn1 hn2
  rcases List.mem_append.mp hv with h | h
  · exact a v h
  · exact b v h

/-- range of the SPIKE-distance definition itself, no exclusion -/
theorem spike_definition_le_one (t1 t2 : List Q) (ts te m : Q) (ri : Bool) (h1 : ValidNE t1 ts te)
    (h2 : ValidNE t2 ts te) (t : Q) (right : Bool)
    (hl : if right then ts ≤ t else ts < t) (hu : if right then t < te else t ≤ te) :
    spikeSpec t1 t2 ts te m ri t right ≤ 1 := spikeSpec_le_one t1 t2 ts te m ri h1 h2 t right hl hu

/-- symmetry of the SPIKE scan: swapping the two trains gives the identical profile, for ALL
    inputs (no validity hypothesis) -/
theorem spike_profile_symm (t1 t2 : List Q) (ts te m : Q) (ri : Bool) :
    spikeProfile t1 t2 ts te m ri = spikeProfile t2 t1 ts te m ri :=
  spikeProfile_symm t1 t2 ts te m ri

/-- symmetry at the API: with reconciliation (default) for all trains; without, for trains on the
    same edges -/
theorem spike_distance_symm (a b : Train) (kw : Kw)
    (h : kw.recon = true ∨ (b.ts = a.ts ∧ b.te = a.te)) :
    spikeDistanceBi kw a b = spikeDistanceBi kw b a := by
  cases hr : kw.recon with
  | true => exact C2_spikeDistanceBi_symm_recon a b kw hr
  | false =>
    rcases h with h | h
    · rw [hr] at h; exact absurd h (by simp)
    · exact spikeDistanceBi_symm a b kw hr h.1 h.2

theorem spike_profile_api_symm (a b : Train) (kw : Kw)
    (h : kw.recon = true ∨ (b.ts = a.ts ∧ b.te = a.te)) :
    spikeProfileBi kw a b = spikeProfileBi kw b a := by
  cases hr : kw.recon with
  | true => exact C2_spikeProfileBi_symm_recon a b kw hr
  | false =>
    rcases h with h | h
    · rw [hr] at h; exact absurd h (by simp)
    · exact spikeProfileBi_symm a b kw hr h.1 h.2

/-- identity: the SPIKE profile of a valid train with itself is identically 0 (every keyword
    combination, the F9 class included), and so is the distance over the whole recording and over
    every sub-interval the code accepts -/
theorem spike_profile_identity (kw : Kw) (a : Train) (ha : ValidTrain a) :
    (∀ v ∈ (spikeProfileBi kw a a).y1, v = 0) ∧ (∀ v ∈ (spikeProfileBi kw a a).y2, v = 0) :=
  C2_spikeProfileBi_self kw a ha

theorem spike_distance_identity (kw : Kw) (a : Train) (ha : ValidTrain a) :
    (kw.interval = none → spikeDistanceBi kw a a = some 0) ∧
    ∀ d, spikeDistanceBi kw a a = some d → d = 0 :=
  ⟨C2_spikeDistanceBi_self kw a ha, C2_spikeDistanceBi_self_interval kw a ha⟩

/-- the hypothesis "first spike not before t_start" of the identity is needed: an invalid train
    has a non-zero self-distance profile in the code -/
theorem spike_identity_needs_validity :
    spikeProfile [-1] [-1] 0 6 0 true = ([0, 6], [0], [6 / 7]) := by decide +kernel

example : ValidTrain ⟨[0], 0, 6⟩ := ⟨by decide, by decide, by decide⟩

end PySpike.C07
