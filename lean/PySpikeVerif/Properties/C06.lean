/-
  Properties/C06.lean — multivariate results are the all-pairs aggregate and ignore list order.
  Proved here (from Proofs/ApiLaws.lean): number of pairs, the recursive halving equals the fold of
  the pair profiles for an associative `add` (and `Pwc.add`, `Pwl.add` are associative and
  commutative on well-formed profiles, Properties/C09), distance matrices contain exactly the
  bivariate values, are symmetric and have the stated diagonal.
-/
import PySpikeVerif.Proofs.ApiLaws
import PySpikeVerif.Proofs.AddPwc
import PySpikeVerif.Proofs.AddPwl
import PySpikeVerif.Proofs.MultiLaws

namespace PySpike.C06
open PySpike

/-- N trains give N(N-1)/2 pairs -/
theorem number_of_pairs (l : List Nat) : (pairsOf l).length = l.length * (l.length - 1) / 2 := pairsOf_length l

/-- the multivariate profile routine returns the number of pairs as normalisation -/
theorem pair_count {P} (add : P → P → P) (leaf : Nat × Nat → P) (idx : List Nat) :
    (genericProfileMulti add leaf idx).2 = (pairsOf idx).length := genericProfileMulti_snd add leaf idx

/-- divide-and-conquer = plain left fold over all pairs, for any `add` that is associative on a
    class `S` of profiles closed under `add` (well-formed profiles on the common interval) -/
theorem halving_is_fold {P} (add : P → P → P) (leaf : Nat × Nat → P)
    (S : P → Prop) (hclosed : ∀ a b, S a → S b → S (add a b))
    (hassoc : ∀ a b c, S a → S b → S c → add (add a b) c = add a (add b c)) (idx : List Nat)
    (hleaf : ∀ q ∈ pairsOf idx, S (leaf q))
    (p : Nat × Nat) (ps : List (Nat × Nat)) (hp : pairsOf idx = p :: ps) :
    (genericProfileMulti add leaf idx).1 = (ps.map leaf).foldl add (leaf p) ∧
      S (genericProfileMulti add leaf idx).1 :=
  divideAndConquer_eq_fold_on add leaf S hclosed hassoc idx hleaf p ps hp

/-- the class of well-formed piecewise-constant profiles on `[a,b]` is closed under `add`, and
    `add` is associative and commutative on it -/
theorem pwc_class (a b : Q) :
    (∀ f g : Pwc, (f.WF ∧ f.first = a ∧ f.last = b) → (g.WF ∧ g.first = a ∧ g.last = b) →
      ((f.add g).WF ∧ (f.add g).first = a ∧ (f.add g).last = b)) ∧
    (∀ f g h : Pwc, (f.WF ∧ f.first = a ∧ f.last = b) → (g.WF ∧ g.first = a ∧ g.last = b) →
      (h.WF ∧ h.first = a ∧ h.last = b) → (f.add g).add h = f.add (g.add h)) ∧
    (∀ f g : Pwc, (f.WF ∧ f.first = a ∧ f.last = b) → (g.WF ∧ g.first = a ∧ g.last = b) →
      f.add g = g.add f) := by
  refine ⟨?_, ?_, ?_⟩
  · intro f g hf hg
    exact ⟨Pwc.add_wf hf.1 hg.1 (hf.2.1.trans hg.2.1.symm) (hf.2.2.trans hg.2.2.symm),
      by rw [Pwc.add_first]; exact hf.2.1, by rw [Pwc.add_last]; exact hf.2.2⟩
  · intro f g h hf hg hh
    exact Pwc.add_assoc hf.1 hg.1 hh.1 (hf.2.1.trans hg.2.1.symm) (hf.2.2.trans hg.2.2.symm)
      (hg.2.1.trans hh.2.1.symm) (hg.2.2.trans hh.2.2.symm)
  · intro f g hf hg
    exact Pwc.add_comm (hf.2.1.trans hg.2.1.symm) (hf.2.2.trans hg.2.2.symm)

/-- the multivariate distance is the mean of the pair distances (by construction) -/
theorem distance_is_mean_of_pairs (dist : Train → Train → Option Q) (idx : List Nat) (L : List Train) :
    genericDistanceMulti dist idx L =
      (sumOpt ((pairsOf idx).map fun p => dist (tr L p.1) (tr L p.2))).map (· / ((pairsOf idx).length : Q)) := rfl

/-- distance matrices: symmetric, 0 on the diagonal (ISI, SPIKE), 1 for SPIKE-Sync, and the entries
    above the diagonal are exactly the bivariate values -/
theorem isi_matrix (kw : Kw) (idx : Option (List Nat)) (L : List Train)
    (M : List (List Q)) (h : isiDistanceMatrix kw idx L = some M) (i j : Nat)
    (hi : i < (resolveIdx idx (prep kw L).length).length)
    (hj : j < (resolveIdx idx (prep kw L).length).length) :
    (M.getD i []).getD j 0 = (M.getD j []).getD i 0 ∧ (M.getD i []).getD i 0 = 0 :=
  isiDistanceMatrix_symm kw idx L M h i j hi hj
theorem spike_matrix (kw : Kw) (idx : Option (List Nat)) (L : List Train)
    (M : List (List Q)) (h : spikeDistanceMatrix kw idx L = some M) (i j : Nat)
    (hi : i < (resolveIdx idx (prep kw L).length).length)
    (hj : j < (resolveIdx idx (prep kw L).length).length) :
    (M.getD i []).getD j 0 = (M.getD j []).getD i 0 ∧ (M.getD i []).getD i 0 = 0 :=
  spikeDistanceMatrix_symm kw idx L M h i j hi hj
theorem sync_matrix (kw : Kw) (idx : Option (List Nat)) (L : List Train)
    (M : List (List Q)) (h : spikeSyncMatrix kw idx L = some M) (i j : Nat)
    (hi : i < (resolveIdx idx (prep kw L).length).length)
    (hj : j < (resolveIdx idx (prep kw L).length).length) :
    (M.getD i []).getD j 0 = (M.getD j []).getD i 0 ∧ (M.getD i []).getD i 0 = 1 :=
  spikeSyncMatrix_symm kw idx L M h i j hi hj
theorem matrix_entries_are_bivariate (dist : Train → Train → Option Q) (diag sign : Q)
    (idx : List Nat) (L : List Train) (M : List (List Q))
    (h : genericDistanceMatrix dist diag sign idx L = some M) (i j : Nat)
    (hij : i < j) (hj : j < idx.length) :
    dist (tr L (idx.getD i 0)) (tr L (idx.getD j 0)) = some ((M.getD i []).getD j 0) :=
  genericDistanceMatrix_upper dist diag sign idx L M h i j hij hj

/-! ### Proofs/MultiLaws.lean (work package B5) -/

/-- the multivariate ISI profile is at every time the arithmetic mean of the N(N-1)/2 bivariate
    profiles (right limits; valid trains on a common interval, any keyword record) -/
theorem isi_multi_profile_is_mean (kw : Kw) (L : List Train) (ts te t : Q)
    (hv : B5_ValidList ts te L) (h2 : 2 ≤ L.length) (ht0 : ts ≤ t) (ht1 : t < te) :
    (isiProfileMulti kw none L).evalR t =
      some (qsum ((pairsOf (List.range L.length)).map fun p =>
          ((isiProfileBi kw (tr L p.1) (tr L p.2)).evalR t).getD 0)
        / ((pairsOf (List.range L.length)).length : Q)) :=
  isiProfileMulti_evalR_eq_mean_anyRecon kw L ts te t hv h2 ht0 ht1

/-- the multivariate distance does not depend on the order of the trains in the list: for any
    symmetric bivariate distance … -/
theorem distance_order_independent (d : Train → Train → Option Q) {L' L : List Train}
    (hp : L'.Perm L) (hs : ∀ a ∈ L, ∀ b ∈ L, d a b = d b a) :
    genericDistanceMulti d (List.range L'.length) L' = genericDistanceMulti d (List.range L.length) L :=
  genericDistanceMulti_perm d hp hs

/-- … in particular the ISI distance, with the default reconciliation and no assumption on the
    trains at all … -/
theorem isi_distance_order_independent (kw : Kw) {L' L : List Train} (hr : kw.recon = true)
    (hp : L'.Perm L) : isiDistanceMulti kw none L' = isiDistanceMulti kw none L :=
  isiDistanceMulti_perm_recon kw hr hp

/-- … and SPIKE-Sync, given symmetry of the pair values (Properties/C04-B2: `coincProfile_swap`) -/
theorem sync_order_independent_partial (kw : Kw) {L' L : List Train} (hr : kw.recon = false)
    (hs : ∀ a ∈ L, ∀ b ∈ L, syncValues kw a b = syncValues kw b a) (hp : L'.Perm L) :
    spikeSyncMulti kw none L' = spikeSyncMulti kw none L := spikeSyncMulti_perm kw hr hs hp

end PySpike.C06
