/-
  Properties/WaveF6.lean — property theorems of work package F6 (generated with tools/restate.py from
  lean/restate/F6.spec; statements are verbatim copies of Proofs/Completions.lean).
-/
import PySpikeVerif.Proofs.Completions

namespace PySpike.C09
open PySpike PySpike.C01
open PySpike.C09 (Op unitVec)
open PySpike.B7

/-- after any history of add / mul_scalar / copy the breakpoints of every object are exactly the union of the breakpoints of the initial functions it was built from (piecewise constant) -/
theorem pwc_history_breakpoints (a b : Q) (init : List Pwc) (ops : List Op)
    (hok : ∀ f ∈ init, f.WF ∧ f.first = a ∧ f.last = b) :
    (C09.run init ops).length = (F6_operands init.length ops).length ∧
    ∀ k (hk : k < (C09.run init ops).length),
      (∀ j ∈ (F6_operands init.length ops).getD k [], j < init.length) ∧
      ∀ x, x ∈ ((C09.run init ops)[k]).x ↔
        ∃ j ∈ (F6_operands init.length ops).getD k [], ∃ hj : j < init.length, x ∈ (init[j]).x :=
  F6_pwc_history_breakpoints a b init ops hok

/-- … (piecewise linear) -/
theorem pwl_history_breakpoints (a b : Q) (init : List Pwl) (ops : List Op)
    (hok : ∀ f ∈ init, f.WF ∧ f.first = a ∧ f.last = b) :
    (B7.run pwlAlg init ops).length = (F6_operands init.length ops).length ∧
    ∀ k (hk : k < (B7.run pwlAlg init ops).length),
      (∀ j ∈ (F6_operands init.length ops).getD k [], j < init.length) ∧
      ∀ x, x ∈ ((B7.run pwlAlg init ops)[k]).x ↔
        ∃ j ∈ (F6_operands init.length ops).getD k [], ∃ hj : j < init.length, x ∈ (init[j]).x :=
  F6_pwl_history_breakpoints a b init ops hok

end PySpike.C09

namespace PySpike.C10
open PySpike PySpike.C01

/-- `get_plottable_data` of a piecewise linear function: two points per piece, (x_k, y1_k) and (x_{k+1}, y2_k) -/
theorem pwl_plottable {f : Pwl} (hf : f.WF) :
    f.plottable.1.length = 2 * f.y1.length ∧ f.plottable.2.length = 2 * f.y1.length ∧
    ∀ k, k < f.y1.length →
      f.plottable.1[2 * k]? = some (nth f.x k) ∧ f.plottable.1[2 * k + 1]? = some (nth f.x (k + 1)) ∧
      f.plottable.2[2 * k]? = some (nth f.y1 k) ∧ f.plottable.2[2 * k + 1]? = some (nth f.y2 k) :=
  F6_pwl_plottable hf

/-- … consecutive pieces share their x-entry -/
theorem pwl_plottable_joint {f : Pwl} (hf : f.WF) (k : Nat) (hk : k + 1 < f.y1.length) :
    f.plottable.1[2 * k + 1]? = f.plottable.1[2 * (k + 1)]? :=
  F6_pwl_plottable_joint hf k hk

end PySpike.C10

namespace PySpike.C14
open PySpike PySpike.C01

/-- indices=[i,j] of the multivariate SPIKE distance is the bivariate distance of trains i and j -/
theorem spike_distance_two_indices (kw : Kw) (L : List Train) (i j : Nat) (hr : kw.recon = false) :
    spikeDistanceMulti kw (some [i, j]) L = spikeDistanceBi kw (tr L i) (tr L j) :=
  F6_spike_distance_two_indices kw L i j hr

/-- indices=[i,j] of the multivariate SPIKE-Sync profile is the bivariate profile -/
theorem sync_profile_two_indices (kw : Kw) (L : List Train) (i j : Nat) (hr : kw.recon = false) :
    syncProfileMulti kw (some [i, j]) L = syncProfileBi kw (tr L i) (tr L j) :=
  F6_sync_profile_two_indices kw L i j hr

/-- indices=[i,j] of the multivariate order profile is the bivariate profile -/
theorem order_profile_two_indices (kw : Kw) (L : List Train) (i j : Nat) (hr : kw.recon = false) :
    orderProfileMulti kw (some [i, j]) L = orderProfileBi kw (tr L i) (tr L j) :=
  F6_order_profile_two_indices kw L i j hr

/-- indices=[i,j] of the directionality values are the values of the pair -/
theorem directionality_values_two_indices (kw : Kw) (L : List Train) (i j : Nat) (hr : kw.recon = false) :
    dirValues kw (some [i, j]) L = dirValues kw none [tr L i, tr L j] ∧
    dirValues kw (some [i, j]) L
      = [(dirProfile (tr L i).spikes (tr L j).spikes (tr L i).ts (tr L i).te kw.maxTau kw.mrts).1,
         (dirProfile (tr L i).spikes (tr L j).spikes (tr L i).ts (tr L i).te kw.maxTau kw.mrts).2] :=
  F6_directionality_values_two_indices kw L i j hr

/-- indices=[i,j] of the multivariate spike-train order, every keyword combination -/
theorem order_multi_two_indices_any_kw (kw : Kw) (L : List Train) (i j : Nat) :
    spikeTrainOrderMulti kw (some [i, j]) L
      = spikeTrainOrderBi kw true (tr (prep kw L) i) (tr (prep kw L) j) :=
  F6_spikeTrainOrderMulti_two kw L i j

/-- indices=[i,j] of the directionality values, every keyword combination -/
theorem directionality_values_two_any_kw (kw : Kw) (L : List Train) (i j : Nat) :
    dirValues kw (some [i, j]) L
      = [(dirProfile (tr (prep kw L) i).spikes (tr (prep kw L) j).spikes (tr (prep kw L) i).ts
            (tr (prep kw L) i).te kw.maxTau kw.mrts).1,
         (dirProfile (tr (prep kw L) i).spikes (tr (prep kw L) j).spikes (tr (prep kw L) i).ts
            (tr (prep kw L) i).te kw.maxTau kw.mrts).2] :=
  F6_dirValues_two kw L i j

end PySpike.C14

namespace PySpike.C15
open PySpike PySpike.C01

/-- raising MRTS never raises any value of the MULTIVARIATE ISI profile (same breakpoints), every keyword combination -/
theorem isi_multi_profile_antitone (kw : Kw) (m1 m2 : Q) (L : List Train) (ts te : Q)
    (hv : B5_ValidList ts te L) (h2 : 2 ≤ L.length) (hm : m1 ≤ m2) :
    (isiProfileMulti { kw with mrts := m1 } none L).x = (isiProfileMulti { kw with mrts := m2 } none L).x ∧
    List.Forall₂ (· ≥ ·) (isiProfileMulti { kw with mrts := m1 } none L).y
      (isiProfileMulti { kw with mrts := m2 } none L).y ∧
    ∀ t, ts ≤ t → t < te → ∃ v1 v2,
      (isiProfileMulti { kw with mrts := m1 } none L).evalR t = some v1 ∧
      (isiProfileMulti { kw with mrts := m2 } none L).evalR t = some v2 ∧ v2 ≤ v1 :=
  F6_isi_multi_profile_antitone kw m1 m2 L ts te hv h2 hm

/-- … nor the multivariate ISI distance (any interval) -/
theorem isi_distance_multi_antitone (kw : Kw) (m1 m2 : Q) (L : List Train) (ts te : Q)
    (hv : B5_ValidList ts te L) (hne : L ≠ []) (hm : m1 ≤ m2) :
    F6_OptGe (isiDistanceMulti { kw with mrts := m1 } none L)
      (isiDistanceMulti { kw with mrts := m2 } none L) :=
  F6_isi_distance_multi_antitone kw m1 m2 L ts te hv hne hm

/-- … nor any entry of the ISI distance matrix -/
theorem isi_distance_matrix_antitone (kw : Kw) (m1 m2 : Q) (L : List Train) (ts te : Q)
    (hv : B5_ValidList ts te L) (hne : L ≠ []) (hm : m1 ≤ m2) (M1 M2 : List (List Q))
    (h1 : isiDistanceMatrix { kw with mrts := m1 } none L = some M1)
    (h2 : isiDistanceMatrix { kw with mrts := m2 } none L = some M2)
    (i j : Nat) (hi : i < L.length) (hj : j < L.length) :
    (M2.getD i []).getD j 0 ≤ (M1.getD i []).getD j 0 :=
  F6_isi_distance_matrix_antitone kw m1 m2 L ts te hv hne hm M1 M2 h1 h2 i j hi hj

/-- the same for the multivariate SPIKE profile (outside the F9 class) -/
theorem spike_multi_profile_antitone_partial (kw : Kw) (m1 m2 : Q) (L : List Train) (ts te : Q)
    (hv : B5_ValidList ts te L) (h2 : 2 ≤ L.length) (hF9 : ∀ a ∈ L, a.spikes ≠ [ts])
    (hm : m1 ≤ m2) :
    (spikeProfileMulti { kw with mrts := m1 } none L).x
      = (spikeProfileMulti { kw with mrts := m2 } none L).x ∧
    List.Forall₂ (· ≥ ·) (spikeProfileMulti { kw with mrts := m1 } none L).y1
      (spikeProfileMulti { kw with mrts := m2 } none L).y1 ∧
    List.Forall₂ (· ≥ ·) (spikeProfileMulti { kw with mrts := m1 } none L).y2
      (spikeProfileMulti { kw with mrts := m2 } none L).y2 ∧
    (∀ t, ts ≤ t → t < te → ∃ v1 v2,
      (spikeProfileMulti { kw with mrts := m1 } none L).evalR t = some v1 ∧
      (spikeProfileMulti { kw with mrts := m2 } none L).evalR t = some v2 ∧ v2 ≤ v1) ∧
    (∀ t, ts < t → t ≤ te → ∃ v1 v2,
      (spikeProfileMulti { kw with mrts := m1 } none L).evalL t = some v1 ∧
      (spikeProfileMulti { kw with mrts := m2 } none L).evalL t = some v2 ∧ v2 ≤ v1) :=
  F6_spike_multi_profile_antitone kw m1 m2 L ts te hv h2 hF9 hm

/-- … the multivariate SPIKE distance -/
theorem spike_distance_multi_antitone_partial (kw : Kw) (m1 m2 : Q) (L : List Train) (ts te : Q)
    (hv : B5_ValidList ts te L) (hne : L ≠ []) (hF9 : ∀ a ∈ L, a.spikes ≠ [ts])
    (hiv : F6_IvOK te kw.interval) (hm : m1 ≤ m2) :
    F6_OptGe (spikeDistanceMulti { kw with mrts := m1 } none L)
      (spikeDistanceMulti { kw with mrts := m2 } none L) :=
  F6_spike_distance_multi_antitone kw m1 m2 L ts te hv hne hF9 hiv hm

/-- … and the SPIKE distance matrix -/
theorem spike_distance_matrix_antitone_partial (kw : Kw) (m1 m2 : Q) (L : List Train) (ts te : Q)
    (hv : B5_ValidList ts te L) (hne : L ≠ []) (hF9 : ∀ a ∈ L, a.spikes ≠ [ts])
    (hiv : F6_IvOK te kw.interval) (hm : m1 ≤ m2) (M1 M2 : List (List Q))
    (h1 : spikeDistanceMatrix { kw with mrts := m1 } none L = some M1)
    (h2 : spikeDistanceMatrix { kw with mrts := m2 } none L = some M2)
    (i j : Nat) (hi : i < L.length) (hj : j < L.length) :
    (M2.getD i []).getD j 0 ≤ (M1.getD i []).getD j 0 :=
  F6_spike_distance_matrix_antitone kw m1 m2 L ts te hv hne hF9 hiv hm M1 M2 h1 h2 i j hi hj

/-- the automatic threshold squared = mean of the squares of the pooled inter-spike-interval list (the ISI-list definition, not the code's own helper), outside the F7 class -/
theorem auto_threshold_is_rms_of_isi_list_partial (st : Train) (L : List Train)
    (h : ∀ t ∈ st :: L, (∀ x ∈ t.spikes, st.ts ≤ x ∧ x ≤ st.te) ∧ ¬ F7class t.spikes st.ts st.te) :
    defaultThreshSq (st :: L)
      = qsum (((st :: L).flatMap fun t => isiListSpec t.spikes st.ts st.te).map (· ^ 2))
        / ((((st :: L).flatMap fun t => isiListSpec t.spikes st.ts st.te).length : Nat) : Q) :=
  F6_auto_threshold_spec st L h

/-- … for a valid list on common edges -/
theorem auto_threshold_is_rms_valid_partial (ts te : Q) (L : List Train) (hv : B5_ValidList ts te L)
    (hF7 : ∀ t ∈ L, ¬ F7class t.spikes ts te) (hne : L ≠ []) :
    defaultThreshSq L
      = qsum ((L.flatMap fun t => isiListSpec t.spikes ts te).map (· ^ 2))
        / (((L.flatMap fun t => isiListSpec t.spikes ts te).length : Nat) : Q) :=
  F6_auto_threshold_spec_valid ts te L hv hF7 hne

end PySpike.C15

