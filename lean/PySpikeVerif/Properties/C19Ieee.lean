/-
  Properties/C19Ieee.lean — "bit-identical at precision 17" without the former assumption.

  Until the third session the evidence of C19 listed "17 significant digits identify a double" as
  an assumed fact about IEEE-754. It is now a theorem over the rationals: doubles are the numbers
  `m·2^e`, `|m| < 2^53`, `-1074 ≤ e ≤ 971`; the value `"{:.pe}"` prints (`roundSci p`, Model/TextIO.lean) is,
  for every `p ≥ 16` (PySpike's `precision=17` is `p = 17`), STRICTLY closer to the double it was printed
  from than to any other double. Hence every correctly rounding parser returns the original bit for bit.
  Still assumed: that Python's `float(str)` is correctly rounded (it is: David Gay's algorithm) and that
  `format` rounds correctly (`roundSci` is compared bit-exactly with the implementation on every run).
-/
import PySpikeVerif.Proofs.Ieee17
open PySpike PySpike.Ieee

namespace PySpike.C19

/-- 17 significant digits (`"{:.16e}"`) identify a double: zero, subnormals, powers of two and the
    largest double included -/
theorem seventeen_digits_round_trip (x : Q) (hx : IsDouble x) : UniquelyNearest (roundSci 16 x) x :=
  seventeen_digits_identify_a_double x hx

/-- every larger precision as well — in particular `precision=17` of `save_spike_trains_to_txt` -/
theorem precision_17_round_trip (x : Q) (hx : IsDouble x) : UniquelyNearest (roundSci 17 x) x :=
  digits_ge_17_identify_a_double 17 (by decide) x hx

theorem precision_ge_16_round_trip (p : Nat) (hp : 16 ≤ p) (x : Q) (hx : IsDouble x) :
    UniquelyNearest (roundSci p x) x :=
  digits_ge_17_identify_a_double p hp x hx

/-- a whole saved line: every value of the train is recovered -/
theorem saved_line_round_trip (p : Nat) (hp : 16 ≤ p) (s : List Q) (hs : ∀ x ∈ s, IsDouble x) :
    ∀ x ∈ s, UniquelyNearest (roundSci p x) x :=
  reload_precision_ge_16 p hp s hs

/-- … and the overflow threshold is no competitor either: the printed value of any double is strictly
    closer to it than to `±2^1024` (a correctly rounding parser rounds against that value at the top of the
    range), so the largest double round-trips too -/
theorem printed_value_farther_from_overflow (p : Nat) (hp : 16 ≤ p) (x : Q) (hx : IsDouble x) :
    |roundSci p x - x| < |roundSci p x - (2 : Q) ^ (1024 : Int)| ∧
    |roundSci p x - x| < |roundSci p x - (-(2 : Q) ^ (1024 : Int))| :=
  print_farther_from_overflow p hp x hx

/-- the bound is sharp: 16 significant digits do not suffice (`x = 10000000000000002`, printed as `1e16`) -/
theorem sixteen_digits_are_not_enough :
    ∃ x y : Q, IsDouble x ∧ IsDouble y ∧ y ≠ x ∧ |roundSci 15 x - y| ≤ |roundSci 15 x - x| :=
  sixteen_digits_do_not

/-- the hypotheses are met by ordinary spike times: 0.1 as a double -/
example : IsDouble (3602879701896397 / 36028797018963968) :=
  ⟨3602879701896397, -55, by decide, by decide, by decide, by norm_num⟩

end PySpike.C19
