/-
  Properties/C07.lean — range, symmetry and identity axioms.
-/
import PySpikeVerif.Properties.C01
import PySpikeVerif.Proofs.IsiLaws
import PySpikeVerif.Proofs.SpikeLaws
import PySpikeVerif.Proofs.FuncLaws
import PySpikeVerif.Model.Api
import PySpikeVerif.Proofs.OrderLaws

namespace PySpike.C07
open PySpike PySpike.C01

/-- every value of the ISI-profile of two valid trains is finite (positive denominators:
    `nuAt_pos`) and lies in `[0,1]`, for every MRTS -/
theorem isi_profile_range (a b : Train) (m : Q) (ha : ValidTrain a) (hb : ValidTrain b)
    (hts : b.ts = a.ts) (hte : b.te = a.te) :
    ∀ y ∈ (isiProfileBi { mrts := m, recon := false } a b).y, 0 ≤ y ∧ y ≤ 1 := by
  intro y hy
  obtain ⟨k, hk, rfl⟩ := List.getElem_of_mem hy
  obtain ⟨hlen, hval⟩ := isi_profile_values a b m ha hb hts hte
  obtain ⟨hsort, hmem⟩ := isi_profile_breakpoints a b m ha hb hts hte
  have hk1 : k + 1 < (isiProfileBi { mrts := m, recon := false } a b).x.length := by omega
  have hlt : (isiProfileBi { mrts := m, recon := false } a b).x[k]'(by omega)
      < (isiProfileBi { mrts := m, recon := false } a b).x[k+1] :=
    List.pairwise_iff_getElem.mp hsort k (k+1) (by omega) hk1 (by omega)
  have hin : ∀ x ∈ (isiProfileBi { mrts := m, recon := false } a b).x, a.ts ≤ x ∧ x ≤ a.te := by
    intro x hx
    rcases (hmem x).mp hx with hx | hx | ⟨hx1, hx2, _⟩
    · rw [hx]; exact ⟨le_refl _, le_of_lt ha.1⟩
    · rw [hx]; exact ⟨le_of_lt ha.1, le_refl _⟩
    · exact ⟨le_of_lt hx1, le_of_lt hx2⟩
  have hk0 : k < (isiProfileBi { mrts := m, recon := false } a b).x.length := by omega
  have ht1 := (hin _ (List.getElem_mem hk0)).1
  have ht2 := lt_of_lt_of_le hlt (hin _ (List.getElem_mem hk1)).2
  rw [hval k hk hk1 _ (le_refl _) hlt]
  have hp1 := nuAt_pos a.spikes a.ts a.te _ ha.1 ha.2.2 ht1 ht2
  have hp2 := nuAt_pos b.spikes a.ts a.te _ ha.1 (by rw [← hts, ← hte]; exact hb.2.2) ht1 ht2
  exact ⟨isiVal_nonneg _ _ m hp1, isiVal_le_one _ _ m hp1 hp2⟩

/-- the ISI-distance (average of the profile over the whole recording) lies in `[0,1]` -/
theorem isi_distance_range (a b : Train) (m : Q) (ha : ValidTrain a) (hb : ValidTrain b)
    (hts : b.ts = a.ts) (hte : b.te = a.te) :
    ∀ d, isiDistanceBi { mrts := m, recon := false } a b = some d → 0 ≤ d ∧ d ≤ 1 := by
  intro d hd
  simp only [isiDistanceBi, pwcAvrgKw] at hd
  cases hd
  obtain ⟨hlen, _⟩ := isi_profile_values a b m ha hb hts hte
  obtain ⟨hsort, _⟩ := isi_profile_breakpoints a b m ha hb hts hte
  have hr := isi_profile_range a b m ha hb hts hte
  have h2 : 2 ≤ (isiProfileBi { mrts := m, recon := false } a b).x.length := by
    -- ts and te are two distinct members
    obtain ⟨_, hmem⟩ := isi_profile_breakpoints a b m ha hb hts hte
    have h1 := (hmem a.ts).mpr (Or.inl rfl)
    have h2' := (hmem a.te).mpr (Or.inr (Or.inl rfl))
    have h0 : 0 < (isiProfileBi { mrts := m, recon := false } a b).x.length :=
      List.length_pos_iff.mpr (List.ne_nil_of_mem h1)
    by_contra hc
    have hl1 : (isiProfileBi { mrts := m, recon := false } a b).x.length = 1 := by omega
    obtain ⟨z, hz⟩ := List.length_eq_one_iff.mp hl1
    rw [hz] at h1 h2'
    simp at h1 h2'
    exact absurd (h1.trans h2'.symm) (ne_of_lt ha.1)
  exact Pwc.avrgAll_bounds 0 1 _ _ hsort hr hlen h2

/-- swapping the two arguments does not change the ISI-profile (hence not the distance) -/
theorem isi_profile_symm (a b : Train) (kw : Kw) (hr : kw.recon = false)
    (hts : b.ts = a.ts) (hte : b.te = a.te) :
    isiProfileBi kw a b = isiProfileBi kw b a := by
  simp only [isiProfileBi, prepBi, hr, Bool.false_eq_true, if_false]
  rw [isiProfile_symm, hts, hte]

theorem isi_distance_symm (a b : Train) (kw : Kw) (hr : kw.recon = false)
    (hts : b.ts = a.ts) (hte : b.te = a.te) :
    isiDistanceBi kw a b = isiDistanceBi kw b a := by
  unfold isiDistanceBi; rw [isi_profile_symm a b kw hr hts hte]

/-- a train compared with itself (or an equal copy) has ISI-profile 0 everywhere -/
theorem isi_profile_identity (a : Train) (m : Q) (ha : ValidTrain a) :
    ∀ y ∈ (isiProfileBi { mrts := m, recon := false } a a).y, y = 0 := by
  intro y hy
  obtain ⟨k, hk, rfl⟩ := List.getElem_of_mem hy
  obtain ⟨hlen, hval⟩ := isi_profile_values a a m ha ha rfl rfl
  obtain ⟨hsort, _⟩ := isi_profile_breakpoints a a m ha ha rfl rfl
  have hk1 : k + 1 < (isiProfileBi { mrts := m, recon := false } a a).x.length := by omega
  have hlt := List.pairwise_iff_getElem.mp hsort k (k+1) (by omega) hk1 (by omega)
  rw [hval k hk hk1 _ (le_refl _) hlt]
  exact isiVal_self _ _

/-- the instantaneous SPIKE dissimilarity is symmetric in the two trains and non-negative, with
    positive denominators, whenever the interval lengths are positive and the spike distances
    non-negative (`minDist_nonneg`) -/
theorem spike_value_symm (isi1 isi2 s1 s2 m : Q) (ri : Bool) :
    distAtT isi1 isi2 s1 s2 m ri = distAtT isi2 isi1 s2 s1 m ri := distAtT_symm _ _ _ _ _ _

theorem spike_value_nonneg (isi1 isi2 s1 s2 m : Q) (ri : Bool) (h1 : 0 < isi1) (h2 : 0 < isi2)
    (hs1 : 0 ≤ s1) (hs2 : 0 ≤ s2) : 0 ≤ distAtT isi1 isi2 s1 s2 m ri :=
  distAtT_nonneg _ _ _ _ _ _ h1 h2 hs1 hs2

/-- `spike_sync_bi`, `spike_train_order_bi`: a ratio `c/mp` with `|c| ≤ mp` lies in `[-1,1]`
    (and in `[0,1]` for `0 ≤ c`); the empty-profile convention gives 1 -/
theorem ratio_range (c mp : Q) (hc : |c| ≤ mp) : -1 ≤ syncRatio (c, mp) ∧ syncRatio (c, mp) ≤ 1 := by
  unfold syncRatio
  simp only
  split
  · constructor <;> norm_num
  · rename_i h
    have hpos : 0 < mp := lt_of_le_of_ne (le_trans (abs_nonneg c) hc) (Ne.symm h)
    have := abs_le.mp hc
    constructor
    · rw [le_div_iff₀ hpos]; linarith
    · rw [div_le_iff₀ hpos]; linarith

theorem ratio_nonneg (c mp : Q) (hc : 0 ≤ c) (hmp : 0 ≤ mp) : 0 ≤ syncRatio (c, mp) := by
  unfold syncRatio
  simp only
  split
  · norm_num
  · exact div_nonneg hc hmp

/-! ### SPIKE-Sync, spike-train order, directionality (Proofs/OrderLaws.lean, work package B2) -/

/-- every SPIKE-Sync profile entry lies between 0 and its multiplicity (1 or 2) -/
theorem sync_entry_range (s1 s2 : List Q) (ts te mt m : Q) (e : Q × Q × Q)
    (he : e ∈ coincProfile s1 s2 ts te mt m) :
    0 ≤ e.2.1 ∧ e.2.1 ≤ e.2.2 ∧ (e.2.2 = 1 ∨ e.2.2 = 2) := B2_coincProfile_range s1 s2 ts te mt m e he

/-- SPIKE-Sync values lie in [0,1], whole recording and sub-intervals, two trains and lists -/
theorem sync_value_range (kw : Kw) (a b : Train) (r : Q) (h : spikeSyncBi kw a b = some r) :
    0 ≤ r ∧ r ≤ 1 := B2_spikeSyncBi_range kw a b r h
theorem sync_multi_value_range (kw : Kw) (idx : Option (List Nat)) (L : List Train) (r : Q)
    (h : spikeSyncMulti kw idx L = some r) : 0 ≤ r ∧ r ≤ 1 := B2_spikeSyncMulti_range kw idx L r h

/-- spike-train order lies in [-1,1] -/
theorem order_value_range (kw : Kw) (a b : Train) :
    -1 ≤ spikeTrainOrderBi kw true a b ∧ spikeTrainOrderBi kw true a b ≤ 1 :=
  B2_spikeTrainOrderBi_range kw a b
theorem order_multi_value_range (kw : Kw) (idx : Option (List Nat)) (L : List Train) :
    -1 ≤ spikeTrainOrderMulti kw idx L ∧ spikeTrainOrderMulti kw idx L ≤ 1 :=
  B2_spikeTrainOrderMulti_range kw idx L

/-- SPIKE-Sync gives the same profile when its two arguments are swapped -/
theorem sync_profile_symm (s1 s2 : List Q) (ts te mt m : Q)
    (h1 : s1.Pairwise (· < ·)) (h2 : s2.Pairwise (· < ·)) :
    coincProfile s2 s1 ts te mt m = coincProfile s1 s2 ts te mt m := coincProfile_swap s1 s2 ts te mt m h1 h2

/-- un-normalised directionality of a train with itself is 0 -/
theorem directionality_self_zero (kw : Kw) (a : Train) : spikeDirectionality kw false a a = 0 := by
  have h := B2_spikeDirectionality_swap kw a a rfl rfl
  linarith

/-! non-vacuity -/
example : ValidTrain exA ∧ ValidTrain exB := ⟨⟨by decide, by decide, by decide⟩, ⟨by decide, by decide, by decide⟩⟩
example : isiDistanceBi { mrts := 0, recon := false } exA exB = some (11/36) := by decide +kernel

end PySpike.C07
