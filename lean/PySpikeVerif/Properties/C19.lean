/-
  Properties/C19.lean — spike trains survive text round-trips and imports unchanged (partial).

  Proved: the structural round trip (number of trains, order, empty trains, comment lines,
  sorting) and the accuracy of the printed decimal (`roundSci`: half a unit of the last printed
  digit). Assumed (IEEE-754 / correctly rounded decimal conversion, not modelled): parsing the
  printed decimal returns the nearest double, and 17 significant digits identify a double
  uniquely ("bit-identical at precision 17"). The correspondence check compares the loaded doubles
  with `float(roundSci p x)` exactly on every run.
-/
import PySpikeVerif.Model.TextIO
import PySpikeVerif.Proofs.Merge
import Mathlib.Data.Rat.Floor
import Mathlib.Algebra.Order.Field.Rat
import Mathlib.Tactic.Linarith

namespace PySpike.C19
open PySpike

theorem sortQ_nil : sortQ [] = [] := by simp [sortQ]

/-- what one saved train is loaded as: its printed values, sorted -/
def reload (p : Nat) (s : List Q) : List Q := sortQ (s.map (roundSci p))

theorem load_save_line (p : Nat) (ign : Bool) (s : List Q) (rest : List Line) :
    loadLines ign (Line.data (s.map (roundSci p)) :: rest) =
      (if s = [] ∧ ign then [] else [reload p s]) ++ loadLines ign rest := by
  cases s with
  | nil => cases ign <;> simp [loadLines, reload, sortQ_nil]
  | cons a r => simp [loadLines, reload]

/-- saving and loading with empty lines kept returns the same number of trains in the same
    order, each with its printed values sorted; empty trains are preserved -/
theorem load_save (p : Nat) (trains : List (List Q)) :
    loadLines false (saveLines p trains) = trains.map (reload p) := by
  induction trains with
  | nil => rfl
  | cons s r ih =>
    have := load_save_line p false s (saveLines p r)
    simp only [saveLines, List.map_cons] at this ⊢
    rw [this]
    simp only [Bool.false_eq_true, and_false, if_false, List.singleton_append, List.cons.injEq, true_and]
    exact ih

theorem load_save_count (p : Nat) (trains : List (List Q)) :
    (loadLines false (saveLines p trains)).length = trains.length := by
  rw [load_save, List.length_map]

/-- with `ignore_empty_lines=True` exactly the empty trains are dropped -/
theorem load_save_ignore_empty (p : Nat) (trains : List (List Q)) :
    loadLines true (saveLines p trains) = (trains.filter (· ≠ [])).map (reload p) := by
  induction trains with
  | nil => rfl
  | cons s r ih =>
    have := load_save_line p true s (saveLines p r)
    simp only [saveLines, List.map_cons] at this ⊢
    rw [this]
    by_cases hs : s = []
    · subst hs
      simp only [true_and, if_true, List.nil_append]
      rw [List.filter_cons_of_neg (by simp)]
      exact ih
    · simp only [hs, false_and, if_false, List.singleton_append]
      rw [List.filter_cons_of_pos (by simpa using hs), List.map_cons]
      congr 1

/-- comment lines are skipped wherever they stand -/
theorem comments_skipped (ign : Bool) (l1 l2 : List Line) :
    loadLines ign (l1 ++ Line.comment :: l2) = loadLines ign (l1 ++ l2) := by
  simp [loadLines, List.filterMap_append]

/-- an unsorted line is sorted on loading (same multiset of values) -/
theorem line_sorted (ign : Bool) (t : Q) (r : List Q) :
    loadLines ign [Line.data (t :: r)] = [sortQ (t :: r)] ∧
    (sortQ (t :: r)).Pairwise (· ≤ ·) ∧ (sortQ (t :: r)).Perm (t :: r) :=
  ⟨by simp [loadLines], sortQ_sorted _, sortQ_perm _⟩

/-- rounding to the nearest integer is within one half -/
theorem roundHalfEven_close (r : Q) : |((roundHalfEven r : Int) : Q) - r| ≤ 1 / 2 := by
  unfold roundHalfEven
  have h1 : ((Rat.floor r : Int) : Q) ≤ r := Rat.floor_le r
  have h2 : r < ((Rat.floor r : Int) : Q) + 1 := by
    have := Rat.lt_floor_add_one r
    push_cast at this
    exact this
  simp only
  split
  · rename_i h; rw [abs_le]; constructor <;> linarith
  · split
    · rename_i h h'; push_cast; rw [abs_le]; constructor <;> linarith
    · rename_i h h'
      have he : r - (r.floor : Q) = 1 / 2 := le_antisymm (not_lt.mp h') (not_lt.mp h)
      split
      · rw [abs_le]; constructor <;> linarith
      · push_cast; rw [abs_le]; constructor <;> linarith

theorem pow10_pos (e : Int) : 0 < pow10 e := by
  unfold pow10; split <;> positivity

/-- the printed value differs from the original by at most half a unit of the last printed
    digit (`10^(e-p)`, `e` the decimal exponent of `x`): equal to `p+1` significant digits -/
theorem printed_value_accuracy (p : Nat) (x : Q) :
    |roundSci p x - x| ≤ 1 / (2 * pow10 ((p : Int) - exponent10 (qabs x))) := by
  unfold roundSci
  by_cases h0 : x = 0
  · simp [h0]; exact le_of_lt (pow10_pos _)
  · simp only [h0, if_false]
    set sc := pow10 ((p : Int) - exponent10 (qabs x)) with hsc
    have hpos : 0 < sc := pow10_pos _
    have hc := roundHalfEven_close (qabs x * sc)
    have key : |((roundHalfEven (qabs x * sc) : Int) : Q) / sc - qabs x| ≤ 1 / (2 * sc) := by
      have : ((roundHalfEven (qabs x * sc) : Int) : Q) / sc - qabs x
          = (((roundHalfEven (qabs x * sc) : Int) : Q) - qabs x * sc) / sc := by
        field_simp
      rw [this, abs_div, abs_of_pos hpos, div_le_div_iff₀ hpos (by positivity)]
      nlinarith [hc]
    by_cases hneg : x < 0
    · simp only [hneg, if_true]
      have hx : qabs x = -x := by unfold qabs; simp [hneg]
      rw [hx] at key ⊢
      rw [show -(((roundHalfEven (-x * sc) : Int) : Q) / sc) - x
          = -((((roundHalfEven (-x * sc) : Int) : Q) / sc) - -x) by ring, abs_neg]
      exact key
    · simp only [hneg, if_false]
      have hx : qabs x = x := by unfold qabs; simp [hneg]
      rw [hx] at key ⊢
      exact key

/-- constructing a train from a string yields exactly the listed times (sorted), and a scalar
    edge means the interval `[0, edge]` -/
theorem train_from_string (toks : List Q) (edge : Q) :
    (trainFromTokens toks edge).spikes.Perm toks ∧ (trainFromTokens toks edge).spikes.Pairwise (· ≤ ·) ∧
    (trainFromTokens toks edge).ts = 0 ∧ (trainFromTokens toks edge).te = edge :=
  ⟨sortQ_perm _, sortQ_sorted _, rfl, rfl⟩

/-- a 0/1 time series yields exactly `start + (k+1)·bin` for every non-zero sample `k` -/
theorem time_series_times (row : List Q) (start bin x : Q) :
    x ∈ (timeSeriesTrain row start bin).spikes ↔
      ∃ k, ∃ h : k < row.length, row[k] > 0 ∧ x = start + ((k : Q) + 1) * bin :=
  timeSeriesTrain_spikes row start bin x
theorem time_series_edges (row : List Q) (start bin : Q) (h : row ≠ []) :
    (timeSeriesTrain row start bin).ts = start ∧
      (timeSeriesTrain row start bin).te = start + (row.length : Q) * bin :=
  timeSeriesTrain_edges row start bin h

example : roundSci 3 (12345 : Q) = 12340 ∧ roundSci 3 (1/3 : Q) = 3333/10000 := by
  constructor <;> decide +kernel

end PySpike.C19
