/-
  Properties/C02.lean — SPIKE-profile equals the SPIKE-distance definition (plain, RI, adaptive).
  Spec: Spec/Spike.lean (validated against the model on every pair of subsets of a 6-point grid ×
  MRTS × RI and 5 000 random pairs: identical outside the class of known finding F9).
  This file holds the clauses proved so far; the scan theorem `spikeProfile_eq_spec_partial`
  (work package B4) is added under Proofs/SpikeScan.lean when merged.
-/
import PySpikeVerif.Spec.Spike
import PySpikeVerif.Proofs.SpikeLaws

namespace PySpike.C02
open PySpike

/-- the combination rule: contributions weighted by the trains' current inter-spike intervals and
    divided by the squared mean interval; rate-independent variant: plain mean divided by the mean
    interval; adaptive variant: the mean interval is floored at MRTS -/
theorem combination_rule (isi1 isi2 s1 s2 m : Q) :
    distAtT isi1 isi2 s1 s2 m false
      = ((s1 * isi2 + s2 * isi1) / 2) / (((isi1 + isi2) / 2) * max m ((isi1 + isi2) / 2)) ∧
    distAtT isi1 isi2 s1 s2 m true = ((s1 + s2) / 2) / max m ((isi1 + isi2) / 2) := by
  constructor <;> simp [distAtT]

/-- the dissimilarity does not depend on which train is called first -/
theorem symmetric (isi1 isi2 s1 s2 m : Q) (ri : Bool) :
    distAtT isi1 isi2 s1 s2 m ri = distAtT isi2 isi1 s2 s1 m ri := distAtT_symm _ _ _ _ _ _

/-- where both trains spike together both contributions are 0, hence the profile is 0 -/
theorem zero_at_shared_spike (isi1 isi2 m : Q) (ri : Bool) : distAtT isi1 isi2 0 0 m ri = 0 := by
  unfold distAtT; split <;> simp

/-- nearest-spike distances are non-negative, and the value is non-negative with positive
    denominators for positive interval lengths -/
theorem nonneg (isi1 isi2 s1 s2 m : Q) (ri : Bool) (h1 : 0 < isi1) (h2 : 0 < isi2)
    (hs1 : 0 ≤ s1) (hs2 : 0 ≤ s2) : 0 ≤ distAtT isi1 isi2 s1 s2 m ri :=
  distAtT_nonneg _ _ _ _ _ _ h1 h2 hs1 hs2
theorem nearest_distance_nonneg (x : Q) (tr : List Q) (a0 a1 : Q) : 0 ≤ minDist x tr a0 a1 :=
  minDist_nonneg x tr a0 a1

/-- the extended train: auxiliary spikes mirror the first / last inter-spike interval about the
    first / last spike, but never lie inside the recording -/
theorem aux_spikes (a b : Q) (r : List Q) (ts : Q) : auxStart (a :: b :: r) ts = min ts (a - (b - a)) := rfl
theorem aux_single (a ts te : Q) : auxStart [a] ts = ts ∧ auxEnd [a] te = te := ⟨rfl, rfl⟩

/-- model = definition on a generic input (decided by the kernel) … -/
theorem spec_example :
    let p := spikeProfile [1, 3, 4] [2, 3, 6] 0 6 0 false
    (p.2.1, p.2.2) = spikeSpecProfile [1, 3, 4] [2, 3, 6] 0 6 0 false p.1 := by decide +kernel

/-- … and the full statement (without excluding a train that is a single spike on `t_start`) is
    false: witness of known finding F9 -/
theorem F9_witness :
    let p := spikeProfile [0] [0, 4] 0 6 0 false
    (p.2.1, p.2.2) ≠ spikeSpecProfile [0] [0, 4] 0 6 0 false p.1 := by decide +kernel

end PySpike.C02
