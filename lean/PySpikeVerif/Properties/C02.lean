/-
  Properties/C02.lean — SPIKE-profile equals the SPIKE-distance definition (plain, RI, adaptive).
  Spec: Spec/Spike.lean (validated against the model on every pair of subsets of a 6-point grid ×
  MRTS × RI and 5 000 random pairs: identical outside the class of known finding F9).
  The scan theorem `profile_is_definition_partial` (Proofs/SpikeScan.lean, work package B4) holds for
  every pair of valid trains except the class of known finding F9 (a train that is exactly one
  spike located on `t_start`); the unrestricted statement is kept visible and proved FALSE
  (`full_statement_fails`).
-/
import PySpikeVerif.Spec.Spike
import PySpikeVerif.Proofs.SpikeLaws
import PySpikeVerif.Proofs.SpikeScan
import PySpikeVerif.Proofs.SpikeBound

namespace PySpike.C02
open PySpike

/-- the combination rule: contributions weighted by the trains' current inter-spike intervals and
    divided by the squared mean interval; rate-independent variant: plain mean divided by the mean
    interval; adaptive variant: the mean interval is floored at MRTS -/
theorem combination_rule (isi1 isi2 s1 s2 m : Q) :
    distAtT isi1 isi2 s1 s2 m false
      = ((s1 * isi2 + s2 * isi1) / 2) / (((isi1 + isi2) / 2) * max m ((isi1 + isi2) / 2)) ∧
    distAtT isi1 isi2 s1 s2 m true = ((s1 + s2) / 2) / max m ((isi1 + isi2) / 2) := by
  constructor <;> simp [distAtT]

/-- the dissimilarity does not depend on which train is called first -/
theorem symmetric (isi1 isi2 s1 s2 m : Q) (ri : Bool) :
    distAtT isi1 isi2 s1 s2 m ri = distAtT isi2 isi1 s2 s1 m ri := distAtT_symm _ _ _ _ _ _

/-- where both trains spike together both contributions are 0, hence the profile is 0 -/
theorem zero_at_shared_spike (isi1 isi2 m : Q) (ri : Bool) : distAtT isi1 isi2 0 0 m ri = 0 := by
  unfold distAtT; split <;> simp

/-- nearest-spike distances are non-negative, and the value is non-negative with positive
    denominators for positive interval lengths -/
theorem nonneg (isi1 isi2 s1 s2 m : Q) (ri : Bool) (h1 : 0 < isi1) (h2 : 0 < isi2)
    (hs1 : 0 ≤ s1) (hs2 : 0 ≤ s2) : 0 ≤ distAtT isi1 isi2 s1 s2 m ri :=
  distAtT_nonneg _ _ _ _ _ _ h1 h2 hs1 hs2
theorem nearest_distance_nonneg (x : Q) (tr : List Q) (a0 a1 : Q) : 0 ≤ minDist x tr a0 a1 :=
  minDist_nonneg x tr a0 a1

/-- the extended train: auxiliary spikes mirror the first / last inter-spike interval about the
    first / last spike, but never lie inside the recording -/
theorem aux_spikes (a b : Q) (r : List Q) (ts : Q) : auxStart (a :: b :: r) ts = min ts (a - (b - a)) := rfl
theorem aux_single (a ts te : Q) : auxStart [a] ts = ts ∧ auxEnd [a] te = te := ⟨rfl, rfl⟩

/-- model = definition on a generic input (decided by the kernel) … -/
theorem spec_example :
    let p := spikeProfile [1, 3, 4] [2, 3, 6] 0 6 0 false
    (p.2.1, p.2.2) = spikeSpecProfile [1, 3, 4] [2, 3, 6] 0 6 0 false p.1 := by decide +kernel

/-- … and the full statement (without excluding a train that is a single spike on `t_start`) is
    false: witness of known finding F9 -/
theorem F9_witness :
    let p := spikeProfile [0] [0, 4] 0 6 0 false
    (p.2.1, p.2.2) ≠ spikeSpecProfile [0] [0, 4] 0 6 0 false p.1 := by decide +kernel

/-! ### the scan theorems (Proofs/SpikeScan.lean, work package B4) — all valid trains, every MRTS, both RI -/

/-- the SPIKE-profile is piecewise linear on the same breakpoints as the ISI-profile (all inputs) -/
theorem same_breakpoints_as_isi (t1 t2 : List Q) (ts te m : Q) (ri : Bool) :
    (spikeProfile t1 t2 ts te m ri).1 = (isiProfile t1 t2 ts te 0).1 := spikeProfile_breaks t1 t2 ts te m ri

theorem array_lengths (t1 t2 : List Q) (ts te m : Q) (ri : Bool) :
    (spikeProfile t1 t2 ts te m ri).2.1.length + 1 = (spikeProfile t1 t2 ts te m ri).1.length ∧
    (spikeProfile t1 t2 ts te m ri).2.2.length = (spikeProfile t1 t2 ts te m ri).2.1.length :=
  spikeProfile_lengths t1 t2 ts te m ri

/-- the incremental nearest-spike search with restart index equals the global minimum over the
    other train with its two auxiliary spikes -/
theorem nearest_spike_search_is_global_minimum (x a0 a1 : Q) (o c r : List Q) (hs : o.Pairwise (· < ·))
    (h0 : ∀ y ∈ o, a0 ≤ y) (h1 : ∀ y ∈ o, y ≤ a1) (ho : o = c ++ r) (hc : ∀ y ∈ c, y ≤ x) :
    minDist x (fromIdx c.getLast? r) a0 a1 = dtTo x (a0 :: (o ++ [a1])) :=
  getMinDist_eq_dtTo x a0 a1 o c r hs h0 h1 ho hc

/-- **the SPIKE-profile equals the documented instantaneous dissimilarity**: start value of every
    piece = `S(x_k⁺)`, end value = `S(x_{k+1}⁻)`, with `S` the cursor-free definition `spikeSpec`
    (previous/following spike distances to the nearest spike of the other train interpolated
    linearly, constant before the first / after the last spike, combined by `dist_at_t`) — for all
    valid trains outside the F9 class -/
theorem profile_is_definition_partial (t1 t2 : List Q) (ts te m : Q) (ri : Bool)
    (h1 : ValidNE t1 ts te) (h2 : ValidNE t2 ts te) (hlt : ts < te)
    (hn1 : ¬ OneSpikeOnStart t1 ts) (hn2 : ¬ OneSpikeOnStart t2 ts) :
    ((spikeProfile t1 t2 ts te m ri).2.1, (spikeProfile t1 t2 ts te m ri).2.2)
      = spikeSpecProfile t1 t2 ts te m ri (spikeProfile t1 t2 ts te m ri).1 :=
  spikeProfile_eq_spec_partial t1 t2 ts te m ri h1 h2 hlt hn1 hn2

/-- … at EVERY time `t` of the recording (not only at the breakpoints): the linear interpolation of
    the profile inside a piece equals the definition, for the plain and the RI variant -/
theorem value_at_every_time_partial (t1 t2 : List Q) (ts te m : Q) (ri : Bool)
    (h1 : ValidNE t1 ts te) (h2 : ValidNE t2 ts te) (hlt : ts < te)
    (hn1 : ¬ OneSpikeOnStart t1 ts) (hn2 : ¬ OneSpikeOnStart t2 ts)
    (k : Nat) (hk : k + 1 < (spikeProfile t1 t2 ts te m ri).1.length) (t : Q)
    (hxt : nth (spikeProfile t1 t2 ts te m ri).1 k ≤ t)
    (htx : t < nth (spikeProfile t1 t2 ts te m ri).1 (k + 1)) :
    (Pwl.pieceAt ⟨(spikeProfile t1 t2 ts te m ri).1, (spikeProfile t1 t2 ts te m ri).2.1,
        (spikeProfile t1 t2 ts te m ri).2.2⟩ k).at t
      = spikeSpec t1 t2 ts te m ri t true :=
  spike_affine_on_piece t1 t2 ts te m ri h1 h2 hlt hn1 hn2 k hk t hxt htx

/-- the profile is 0 on both sides of every instant where both trains spike (all valid trains,
    F9 class included) -/
theorem zero_where_both_spike (t1 t2 : List Q) (ts te m : Q) (ri : Bool)
    (h1 : ValidNE t1 ts te) (h2 : ValidNE t2 ts te) (hlt : ts < te) :
    (∀ p ∈ (spikeProfile t1 t2 ts te m ri).1.zip (spikeProfile t1 t2 ts te m ri).2.1,
      p.1 ∈ t1 → p.1 ∈ t2 → p.2 = 0) ∧
    (∀ p ∈ (spikeProfile t1 t2 ts te m ri).1.tail.zip (spikeProfile t1 t2 ts te m ri).2.2,
      p.1 ∈ t1 → p.1 ∈ t2 → p.2 = 0) := spike_tie_zero t1 t2 ts te m ri h1 h2 hlt

/-- all profile values are non-negative -/
theorem values_nonneg_partial (t1 t2 : List Q) (ts te m : Q) (ri : Bool)
    (h1 : ValidNE t1 ts te) (h2 : ValidNE t2 ts te) (hlt : ts < te)
    (hn1 : ¬ OneSpikeOnStart t1 ts) (hn2 : ¬ OneSpikeOnStart t2 ts) :
    (∀ v ∈ (spikeProfile t1 t2 ts te m ri).2.1, 0 ≤ v) ∧
    (∀ v ∈ (spikeProfile t1 t2 ts te m ri).2.2, 0 ≤ v) :=
  B4_spikeProfile_nonneg t1 t2 ts te m ri h1 h2 hlt hn1 hn2

/-- the FULL statement (without excluding the F9 class) is false of the code as it is -/
theorem full_statement_fails :
    ¬ ∀ (t1 t2 : List Q) (ts te m : Q) (ri : Bool),
      ValidNE t1 ts te → ValidNE t2 ts te → ts < te →
      ((spikeProfile t1 t2 ts te m ri).2.1, (spikeProfile t1 t2 ts te m ri).2.2)
        = spikeSpecProfile t1 t2 ts te m ri (spikeProfile t1 t2 ts te m ri).1 :=
  spike_full_statement_fails

/-- the SPIKE-distance *definition* never exceeds 1: for every pair of valid trains, every MRTS,
    both variants, every time of the recording and both one-sided limits (no exclusion) -/
theorem definition_le_one (t1 t2 : List Q) (ts te m : Q) (ri : Bool) (h1 : ValidNE t1 ts te)
    (h2 : ValidNE t2 ts te) (t : Q) (right : Bool)
    (hl : if right then ts ≤ t else ts < t) (hu : if right then t < te else t ≤ te) :
    spikeSpec t1 t2 ts te m ri t right ≤ 1 := spikeSpec_le_one t1 t2 ts te m ri h1 h2 t right hl hu

/-- all values of the computed profile are ≤ 1 (outside the class of known finding F9, where the
    scan is not the definition) -/
theorem values_le_one_partial (t1 t2 : List Q) (ts te m : Q) (ri : Bool)
    (h1 : ValidNE t1 ts te) (h2 : ValidNE t2 ts te) (hlt : ts < te)
    (hn1 : ¬ OneSpikeOnStart t1 ts) (hn2 : ¬ OneSpikeOnStart t2 ts) :
    ∀ v ∈ (spikeProfile t1 t2 ts te m ri).2.1 ++ (spikeProfile t1 t2 ts te m ri).2.2, v ≤ 1 :=
  spikeProfile_le_one t1 t2 ts te m ri h1 h2 hlt hn1 hn2

/-- the pooled bound that carries it: two brackets of neighbouring spikes around `t`, nearest-spike
    distances bounded by the distances to the other train's bracket ends -/
theorem bound_non_vacuous : spikeSpec [1, 3] [2, 3, 6] 0 6 0 false (5 / 2) true = 5 / 18 ∧
    spikeSpec [1, 3] [2, 3, 6] 0 6 0 true (5 / 2) true = 1 / 4 := by decide +kernel

end PySpike.C02
