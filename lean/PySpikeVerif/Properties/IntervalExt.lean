/-
  Properties/IntervalExt.lean — sub-interval forms (Proofs/IntervalLaws.lean, work package C3):
  C05 — the scalar measures over a sub-interval are the average of the multivariate profile over
        that sub-interval (ISI, SPIKE, SPIKE-Sync), every keyword combination;
  C09 — the integral / average over ANY sub-interval distributes over `add` (Pwc, Pwl);
  C11 — the event sum over any open interval distributes over `add` (Disc).
-/
import PySpikeVerif.Proofs.IntervalLaws

namespace PySpike.C05
open PySpike

/-- multivariate ISI distance over `interval=(a,b)` = average of the multivariate ISI profile over
    `(a,b)` = exact integral of the profile over `(a,b)` divided by `b − a` -/
theorem isi_multi_distance_interval (kw : Kw) (L : List Train) (ts te a b : Q)
    (hi : kw.interval = some (a, b)) (hv : B5_ValidList ts te L) (h2 : 2 ≤ L.length)
    (ha : ts ≤ a) (hab : a < b) (hb : b ≤ te) :
    isiDistanceMulti kw none L = (isiProfileMulti kw none L).avrg a b ∧
    (isiProfileMulti kw none L).avrg a b =
      some ((isiProfileMulti kw none L).riemann a b / (b - a)) :=
  isiDistanceMulti_eq_avrg_profile_interval kw L ts te a b hi hv h2 ha hab hb

/-- the same for the multivariate SPIKE distance -/
theorem spike_multi_distance_interval (kw : Kw) (L : List Train) (ts te a b : Q)
    (hi : kw.interval = some (a, b)) (hv : B5_ValidList ts te L) (h2 : 2 ≤ L.length)
    (ha : ts ≤ a) (hab : a < b) (hb : b ≤ te) :
    spikeDistanceMulti kw none L = (spikeProfileMulti kw none L).avrg a b ∧
    (spikeProfileMulti kw none L).avrg a b =
      some ((spikeProfileMulti kw none L).riemann a b / (b - a)) :=
  C3_spikeDistanceMulti_eq_avrg_profile_interval kw L ts te a b hi hv h2 ha hab hb

/-- multivariate SPIKE-Sync over `interval=(a,b)` = (coincidences / multiplicity) of the events of
    the multivariate profile strictly inside `(a,b)` -/
theorem sync_multi_interval (kw : Kw) (L : List Train) (ts te a b : Q)
    (hi : kw.interval = some (a, b)) (hv : B5_ValidList ts te L) (h2 : 2 ≤ L.length)
    (ha : ts ≤ a) (hb : b ≤ te) :
    spikeSyncMulti kw none L = ((syncProfileMulti kw none L).integral a b).map syncRatio ∧
    (syncProfileMulti kw none L).integral a b =
      some ((syncProfileMulti kw none L).sumInside a b) :=
  spikeSyncMulti_eq_ratio_profile_interval kw L ts te a b hi hv h2 ha hb

example : B5_ValidList 0 6 B5_exV ∧ 2 ≤ B5_exV.length ∧ (0:Q) ≤ 1/2 ∧ (1/2:Q) < 9/2 ∧ (9/2:Q) ≤ 6 :=
  ⟨B5_exV_valid, by decide, by norm_num, by norm_num, by norm_num⟩

end PySpike.C05

namespace PySpike.C09
open PySpike

/-- the exact integral over any `[a,b]` of a sum of piecewise constant profiles is the sum of the
    integrals (no hypothesis on `a b`) -/
theorem pwc_add_integral_any_interval {f g : Pwc} (hf : f.WF) (hg : g.WF) (h0 : f.first = g.first)
    (h1 : f.last = g.last) (a b : Q) :
    (f.add g).riemann a b = f.riemann a b + g.riemann a b := Pwc.C3_riemann_add_any hf hg h0 h1 a b

/-- … and the executable `integral` / `avrg` of the code on a sub-interval of the support -/
theorem pwc_add_integral_code {f g : Pwc} {a b : Q} (hf : f.WF) (hg : g.WF)
    (h0 : f.first = g.first) (h1 : f.last = g.last) (ha : f.first ≤ a) (hab : a < b)
    (hb : b ≤ f.last) :
    (∃ u v, f.integral a b = some u ∧ g.integral a b = some v ∧
      (f.add g).integral a b = some (u + v)) ∧
    (∃ u v, f.avrg a b = some u ∧ g.avrg a b = some v ∧ (f.add g).avrg a b = some (u + v)) :=
  ⟨Pwc.C3_integral_add hf hg h0 h1 ha hab hb, Pwc.C3_avrg_add hf hg h0 h1 ha hab hb⟩

theorem pwl_add_integral_any_interval {f g : Pwl} (hf : f.WF) (hg : g.WF) (h0 : f.first = g.first)
    (h1 : f.last = g.last) (a b : Q) :
    (f.add g).riemann a b = f.riemann a b + g.riemann a b := Pwl.C3_riemann_add_any hf hg h0 h1 a b

theorem pwl_add_integral_code {f g : Pwl} {a b : Q} (hf : f.WF) (hg : g.WF)
    (h0 : f.first = g.first) (h1 : f.last = g.last) (ha : f.first ≤ a) (hab : a < b)
    (hb : b ≤ f.last) :
    (∃ u v, f.integral a b = some u ∧ g.integral a b = some v ∧
      (f.add g).integral a b = some (u + v)) ∧
    (∃ u v, f.avrg a b = some u ∧ g.avrg a b = some v ∧ (f.add g).avrg a b = some (u + v)) :=
  ⟨Pwl.C3_integral_add hf hg h0 h1 ha hab hb, Pwl.C3_avrg_add hf hg h0 h1 ha hab hb⟩

/-- scaling commutes with integration over any interval -/
theorem mul_scalar_integral_any_interval (f : Pwc) (g : Pwl) (c a b : Q) :
    (f.mulScalar c).riemann a b = f.riemann a b * c ∧
    (g.mulScalar c).riemann a b = g.riemann a b * c :=
  ⟨Pwc.riemann_mulScalar f c a b, Pwl.riemann_mulScalar g c a b⟩

end PySpike.C09

namespace PySpike.C11
open PySpike

/-- the events strictly inside any `(a,b)` of a sum of discrete profiles sum to the sum of the two
    (values and multiplicities), with no hypothesis at all -/
theorem add_open_interval_sum (f g : Disc) (a b : Q) :
    (f.add g).sumInside a b =
      ((f.sumInside a b).1 + (g.sumInside a b).1, (f.sumInside a b).2 + (g.sumInside a b).2) :=
  Disc.C3_sumInside_add_any f g a b

/-- … and the code's `integral(interval)` on well-formed profiles over common edges -/
theorem add_integral_code {ts te : Q} {f g : Disc} (hf : C3_DiscOn ts te f)
    (hg : C3_DiscOn ts te g) {a b : Q} (ha : ts ≤ a) (hb : b ≤ te) :
    ∃ u v, f.integral a b = some u ∧ g.integral a b = some v ∧
      (f.add g).integral a b = some (u.1 + v.1, u.2 + v.2) := Disc.C3_integral_add hf hg ha hb

theorem mul_scalar_open_interval_sum (f : Disc) (c a b : Q) :
    (f.mulScalar c).sumInside a b = ((f.sumInside a b).1 * c, (f.sumInside a b).2) :=
  Disc.C3_sumInside_mulScalar f c a b

end PySpike.C11
