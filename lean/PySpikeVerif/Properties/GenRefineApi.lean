/-
  Properties/GenRefineApi.lean — `reconcile_spike_trains`, `reconcile_spike_trains_bi`, `merge_spike_trains` at source level.

  `Gen/Api.lean` is produced mechanically from `pyspike/spikes.py` (harness/py2lean_api.py, regenerated and compared
  on every run of C13 / C20). Reading conventions: a `SpikeTrain` object is the record `PyTrain` of its three
  attributes; `none` = the call raises (`min([])`, `np.concatenate([])`, IndexError); floats are rationals; the
  `SpikeTrain` constructor, `np.unique`, `np.sort`, `np.concatenate`, `min`, `max` are modelled by their documented
  meaning (Gen/PreludeApi.lean) — the correspondence check runs them in the real code.

  The source says `Eps = 1e-6`. That literal is the double 4722366482869645 / 2⁷² < 10⁻⁶; the hand-written model says
  10⁻⁶. All statements are in EXACT arithmetic (floats read as rationals): `tStart-Eps` and `tEnd+Eps` are rounded in the
  running code, which matters at edges ≥ 2³⁴ (finding F16, repaired: a spike inside `[tStart, tEnd]` is kept whatever the
  tolerance test says) and for a spike sitting within one rounding error of a band edge (DESIGN §5b).
  The first group of theorems is about the source text as it is (tolerance `epsDouble`), for EVERY non-empty list;
  the second identifies it with the model's `reconcile` for every list with no spike in the two slivers (each narrower
  than 10⁻²²) in which the two tolerances decide differently.
-/
import PySpikeVerif.Proofs.GenRefine.ApiRecon
import PySpikeVerif.Proofs.GenRefine.ApiThresh
import PySpikeVerif.Proofs.GenRefine.ApiTrain
import PySpikeVerif.Properties.C13
import Mathlib.Tactic.Linarith
import PySpikeVerif.Properties.C20
import PySpikeVerif.Properties.C15
open PySpike PySpike.Gen PySpike.GenRefine

namespace PySpike.C13

/-- 1) every returned train carries the same edges — the smallest start and the largest end — and the list keeps its length -/
theorem source_reconcile_common_interval (L R : List PyTrain) (h : GenApi.reconcile_spike_trains L = some R) :
    R.length = L.length ∧ ∀ r ∈ R, r.t_start = minList 0 (L.map (·.t_start)) ∧ r.t_end = maxList 0 (L.map (·.t_end)) :=
  gen_reconcile_edges L R h

/-- 2) + 3) the spike times of every returned train are strictly increasing: sorted, no value twice -/
theorem source_reconcile_strictly_increasing (L R : List PyTrain) (h : GenApi.reconcile_spike_trains L = some R) :
    ∀ r ∈ R, r.spikes.Pairwise (· < ·) := gen_reconcile_strict L R h

/-- 4) exact content: output i holds exactly the spike times of input i inside the tolerance-widened common interval -/
theorem source_reconcile_exact_content (L R : List PyTrain) (h : GenApi.reconcile_spike_trains L = some R)
    (i : Nat) (hi : i < L.length) (hi' : i < R.length) (x : Q) :
    x ∈ R[i].spikes ↔ x ∈ L[i].spikes ∧ minList 0 (L.map (·.t_start)) - epsDouble < x ∧ x < maxList 0 (L.map (·.t_end)) + epsDouble :=
  gen_reconcile_content L R h i hi hi' x

/-- reconciling a reconciled list changes nothing -/
theorem source_reconcile_idempotent (L R : List PyTrain) (h : GenApi.reconcile_spike_trains L = some R) :
    GenApi.reconcile_spike_trains R = some R := gen_reconcile_idem L R h

/-- the call succeeds on every non-empty list and raises (`min([])`) on the empty one -/
theorem source_reconcile_defined_iff (L : List PyTrain) : (GenApi.reconcile_spike_trains L).isSome ↔ L ≠ [] := by
  constructor
  · intro h hL
    rw [hL, gen_reconcile_nil] at h
    exact absurd h (by simp)
  · intro h
    rw [gen_reconcile_eq L h]
    rfl

/-- the translated source IS the model with the tolerance as a parameter … -/
theorem source_reconcile_is_model_with_tolerance (L : List PyTrain) (h : L ≠ []) :
    GenApi.reconcile_spike_trains L = some ((reconcileE epsDouble (L.map ofPy)).map toPy) := gen_reconcile_eq L h

/-- … the model's tolerance 10⁻⁶ and the double `1e-6` differ by less than 10⁻²² … -/
theorem tolerance_gap : epsDouble < recEps ∧ recEps - epsDouble < 1 / 10 ^ 22 := by
  unfold epsDouble recEps
  constructor <;> norm_num

/-- … and the translated source IS the model's `reconcile` (the function every C13 theorem above is about) on every
    non-empty list with no spike in the two slivers -/
theorem source_reconcile_is_model (L : List PyTrain) (h : L ≠ []) (hs : NoSliver (L.map ofPy)) :
    GenApi.reconcile_spike_trains L = some ((reconcile (L.map ofPy)).map toPy) := gen_reconcile_is_model L h hs

/-- `NoSliver` holds for every list whose spikes lie inside the common interval — in particular for every list of VALID
    trains (each train's spikes inside its own edges), which is what the properties quantify over -/
theorem noSliver_of_inside (L : List Train)
    (h : ∀ s ∈ L, ∀ x ∈ s.spikes, minList 0 (L.map (·.ts)) ≤ x ∧ x ≤ maxList 0 (L.map (·.te))) : NoSliver L := by
  intro s hs x hx
  obtain ⟨h1, h2⟩ := h s hs x hx
  have he := epsDouble_pos
  constructor
  · rintro ⟨_, h4⟩; linarith
  · rintro ⟨h3, _⟩; linarith

/-- valid trains: spikes inside the train's own edges -/
theorem noSliver_of_valid (L : List Train) (h : ∀ s ∈ L, ∀ x ∈ s.spikes, s.ts ≤ x ∧ x ≤ s.te) : NoSliver L := by
  apply noSliver_of_inside
  intro s hs x hx
  obtain ⟨h1, h2⟩ := h s hs x hx
  exact ⟨le_trans (smallest_start (List.mem_map_of_mem hs)) h1, le_trans h2 (largest_end (List.mem_map_of_mem hs))⟩

/-- hence: on every non-empty list of valid trains (sorted or not, with or without repeats, any edges) the translated
    source IS the model's `reconcile` -/
theorem source_reconcile_is_model_of_valid (L : List PyTrain) (h : L ≠ [])
    (hv : ∀ s ∈ L, ∀ x ∈ s.spikes, s.t_start ≤ x ∧ x ≤ s.t_end) :
    GenApi.reconcile_spike_trains L = some ((reconcile (L.map ofPy)).map toPy) := by
  apply source_reconcile_is_model L h
  apply noSliver_of_valid
  intro s hs x hx
  obtain ⟨t, ht, rfl⟩ := List.mem_map.mp hs
  exact hv t ht x hx

/-- already valid input (common edges, strictly increasing spike times inside them) is returned as it is by the
    translated source, in exact arithmetic: `Reconcile=True` (the default) and `Reconcile=False` then see the same trains.
    (In floating point this failed for edges ≥ 2³⁴ before the repair of F16; the C13 oracle replays that class.) -/
theorem source_reconcile_valid_unchanged (L : List PyTrain) (h : L ≠ []) (ts te : Q)
    (hv : ∀ t ∈ L, t.t_start = ts ∧ t.t_end = te ∧ t.spikes.Pairwise (· < ·) ∧ ∀ x ∈ t.spikes, ts ≤ x ∧ x ≤ te) :
    GenApi.reconcile_spike_trains L = some L := by
  have hv' : ∀ t ∈ L.map ofPy, t.ts = ts ∧ t.te = te ∧ t.spikes.Pairwise (· < ·) ∧ ∀ x ∈ t.spikes, ts ≤ x ∧ x ≤ te := by
    intro t ht
    obtain ⟨u, hu, rfl⟩ := List.mem_map.mp ht
    exact hv u hu
  rw [source_reconcile_is_model_of_valid L h (fun s hs x hx => by
        obtain ⟨h1, h2, _, h4⟩ := hv s hs
        rw [h1, h2]; exact h4 x hx),
      valid_input_unchanged (L.map ofPy) ts te hv', List.map_map]
  simp [Function.comp_def]

/-- the pair form `reconcile_spike_trains_bi` -/
theorem source_reconcile_pair_is_model (a b : PyTrain) (hs : NoSliver [ofPy a, ofPy b]) :
    GenApi.reconcile_spike_trains_bi a b =
      some (toPy (reconcileBi (ofPy a) (ofPy b)).1, toPy (reconcileBi (ofPy a) (ofPy b)).2) :=
  gen_reconcile_bi_is_model a b hs

/-- non-vacuity: the call is defined on a disordered list with repeats, and `NoSliver` holds for ordinary data
    (here: every spike at least 10⁻⁶ away from the band edges) -/
example : (GenApi.reconcile_spike_trains [⟨[3, 1, 1, 2], 0, 4⟩, ⟨[9/2, -1], 1, 5⟩, ⟨[], 0, 5⟩]).isSome :=
  (source_reconcile_defined_iff _).2 (by simp)
example : NoSliver [⟨[3, 1, 1, 2], 0, 4⟩, ⟨[9/2, -1], 1, 5⟩, ⟨[], 0, 5⟩] := by
  intro s hs x hx
  simp only [List.map_cons, List.map_nil, minList, maxList, List.foldl_cons, List.foldl_nil] at *
  simp only [List.mem_cons, List.not_mem_nil, or_false] at hs
  rcases hs with rfl | rfl | rfl <;> simp only [List.mem_cons, List.not_mem_nil, or_false] at hx
  · rcases hx with rfl | rfl | rfl | rfl <;> (unfold recEps epsDouble; constructor <;> norm_num)
  · rcases hx with rfl | rfl <;> (unfold recEps epsDouble; constructor <;> norm_num)

end PySpike.C13

namespace PySpike.C20

/-- `merge_spike_trains` as translated from the source IS `mergeTrains`, for EVERY non-empty list -/
theorem source_merge_is_model (L : List PyTrain) (h : L ≠ []) :
    GenApi.merge_spike_trains L = some (toPy (mergeTrains (L.map ofPy))) := gen_merge_eq L h

/-- `np.concatenate([])` raises -/
theorem source_merge_empty_list_raises : GenApi.merge_spike_trains [] = none := gen_merge_nil

/-- hence: the merged train of the source holds every spike of every train with its multiplicity, sorted, on the FIRST
    train's interval -/
theorem source_merge_counts (f : PyTrain) (r : List PyTrain) (x : Q) :
    ∃ m, GenApi.merge_spike_trains (f :: r) = some m ∧ m.spikes.Pairwise (· ≤ ·) ∧
      m.spikes.count x = (((f :: r).map ofPy).flatMap (·.spikes)).count x ∧
      m.t_start = f.t_start ∧ m.t_end = f.t_end :=
  ⟨_, gen_merge_eq (f :: r) (by simp), merge_sorted _, merge_counts _ x, rfl, rfl⟩

end PySpike.C20

namespace PySpike.C15

/-- `default_thresh(spike_train_list)` (the threshold `MRTS='auto'` stands for) as translated from
    `pyspike/isi_lengths.py`: its square IS `defaultThreshSq` — for ALL lists of trains; the empty list gives 0. The
    source returns `np.sqrt` of this number (√ is outside ℚ; the translator emits the radicand). -/
theorem source_default_thresh_sq_is_model (F : Nat) (L : List PyTrain) :
    GenApi.default_thresh_sq F L = some (defaultThreshSq (L.map ofPy)) := gen_default_thresh_sq F L

/-- `default_thresh_(train_list, t_start, t_end)` for a non-empty list: the mean of the squared pooled `isi_lengths` (the pool
    is then non-empty, no zero divisor; for `[]` numpy returns nan and `default_thresh` returns before it would pass `[]`) -/
theorem source_default_thresh_pool (F : Nat) (ls : List (List Rat)) (ts te : Rat) (_hne : ls ≠ []) :
    GenApi.default_thresh__sq F ls ts te =
      some (qsum ((ls.flatMap fun s => isiLengths s ts te).map fun x => x * x) /
            (((ls.flatMap fun s => isiLengths s ts te).length : Nat) : Q)) := gen_default_thresh__sq F ls ts te

end PySpike.C15

namespace PySpike.C18

/-- `SpikeTrain.get_spikes_non_empty()` as translated from `pyspike/SpikeTrain.py` IS `Train.nonEmpty`: the spikes, or
    for an EMPTY train the sorted distinct edges (what the multivariate ISI / SPIKE code feeds to the kernels) -/
theorem source_get_spikes_non_empty_is_model (t : PyTrain) :
    GenApi.SpikeTrain.get_spikes_non_empty t = some (Train.nonEmpty (ofPy t)) := gen_get_spikes_non_empty t

end PySpike.C18

namespace PySpike.C19

/-- `SpikeTrain.copy()` returns a train with the same three attributes; `SpikeTrain.sort()` sorts the spike times and
    leaves the edges alone (source level) -/
theorem source_copy_is_identity (t : PyTrain) : GenApi.SpikeTrain.copy t = some t := gen_copy t
theorem source_sort_sorts (t : PyTrain) :
    GenApi.SpikeTrain.sort t = some ⟨sortQ t.spikes, t.t_start, t.t_end⟩ := gen_sort t

end PySpike.C19
