/-
  Properties/C05Spike.lean — C05/C06 for the multivariate SPIKE distance with the well-formedness
  of the pair profiles discharged (Proofs/SpikeSymm.lean, work package C2).
-/
import PySpikeVerif.Proofs.SpikeSymm

namespace PySpike.C05
open PySpike PySpike.C01

/-- the bivariate SPIKE profile of valid trains on common edges is a well-formed piecewise linear
    function on exactly `[t_start, t_end]` (any keywords) -/
theorem spike_profile_well_formed (kw : Kw) (a b : Train)
    (ha : ValidTrain a) (hb : ValidTrain b) (hts : b.ts = a.ts) (hte : b.te = a.te) :
    B5_PwlOn a.ts a.te (spikeProfileBi kw a b) := C2_spikeProfileBi_on_anyRecon kw a b ha hb hts hte

/-- multivariate SPIKE distance = average of the multivariate SPIKE profile, for every list of
    ≥ 2 valid trains on common edges and every keyword combination (the full statement; replaces
    `spike_multi_distance_is_profile_average_partial`'s hypothesis on the pair profiles) -/
theorem spike_multi_distance_is_profile_average (kw : Kw) (L : List Train) (ts te : Q)
    (hi : kw.interval = none) (hv : B5_ValidList ts te L) (h2 : 2 ≤ L.length) :
    spikeDistanceMulti kw none L = some ((spikeProfileMulti kw none L).avrgAll) :=
  C2_spikeDistanceMulti_eq_avrg_profile_valid_anyRecon kw L ts te hi hv h2

example : B5_ValidList 0 6 B5_exV ∧ 2 ≤ B5_exV.length := ⟨B5_exV_valid, by decide⟩

end PySpike.C05

namespace PySpike.C06
open PySpike PySpike.C01

/-- the multivariate SPIKE profile at any time of the recording is the mean of the pair profiles
    (valid trains on common edges, any keywords) -/
theorem spike_multi_profile_is_mean (kw : Kw) (L : List Train) (ts te t : Q)
    (hv : B5_ValidList ts te L) (h2 : 2 ≤ L.length) (ht0 : ts ≤ t) (ht1 : t < te) :
    (spikeProfileMulti kw none L).evalR t =
      some (qsum ((pairsOf (List.range L.length)).map fun p =>
          ((spikeProfileBi kw (tr L p.1) (tr L p.2)).evalR t).getD 0)
        / ((pairsOf (List.range L.length)).length : Q)) :=
  C2_spikeProfileMulti_evalR_eq_mean_valid_anyRecon kw L ts te t hv h2 ht0 ht1

/-- the multivariate SPIKE distance ignores list order (default reconciliation: all trains;
    without: trains on common edges) -/
theorem spike_distance_order_independent (kw : Kw) {L' L : List Train} (ts te : Q)
    (he : kw.recon = true ∨ ∀ a ∈ L, a.ts = ts ∧ a.te = te) (hp : L'.Perm L) :
    spikeDistanceMulti kw none L' = spikeDistanceMulti kw none L := by
  cases hr : kw.recon with
  | true => exact C2_spikeDistanceMulti_perm_recon kw hr hp
  | false =>
    rcases he with h | h
    · rw [hr] at h; exact absurd h (by simp)
    · exact spikeDistanceMulti_perm_valid kw ts te hr h hp

/-- multivariate SPIKE-Sync ignores list order (default reconciliation: all trains; without:
    strictly increasing trains on common edges) -/
theorem sync_order_independent (kw : Kw) {L' L : List Train} (ts te : Q)
    (he : kw.recon = true ∨ ∀ a ∈ L, a.spikes.Pairwise (· < ·) ∧ a.ts = ts ∧ a.te = te)
    (hp : L'.Perm L) :
    spikeSyncMulti kw none L' = spikeSyncMulti kw none L := C2_spikeSyncMulti_perm_any kw ts te he hp

end PySpike.C06
