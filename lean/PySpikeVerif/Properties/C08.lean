/-
  Properties/C08.lean — time shift and scaling leave results unchanged.
  `φ x = α·x + β` with `α > 0`: spike times and both edges are mapped with φ, MRTS and max_tau are
  multiplied by α. Every kernel then returns the same profile with only the time axis mapped.
  No validity assumption is needed (all comparisons and the arithmetic commute with φ).
  Proofs: Proofs/Affine.lean. The time-reversal (mirror) clause is checked by correspondence + the
  property oracle only; for SPIKE it is false on the known class F9.
-/
import PySpikeVerif.Proofs.Affine

namespace PySpike.C08
open PySpike

variable {α : Q} (β : Q) (hα : 0 < α)
include hα

/-- ISI-profile: breakpoints mapped, values unchanged -/
theorem isi_profile_affine (s1 s2 : List Q) (ts te m : Q) :
    isiProfile (s1.map (aff α β)) (s2.map (aff α β)) (aff α β ts) (aff α β te) (α * m)
      = ((isiProfile s1 s2 ts te m).1.map (aff α β), (isiProfile s1 s2 ts te m).2) :=
  isiProfile_aff β hα s1 s2 ts te m

/-- SPIKE-profile (plain, RI, adaptive): breakpoints mapped, both value arrays unchanged -/
theorem spike_profile_affine (t1 t2 : List Q) (ts te m : Q) (ri : Bool) :
    spikeProfile (t1.map (aff α β)) (t2.map (aff α β)) (aff α β ts) (aff α β te) (α * m) ri
      = ((spikeProfile t1 t2 ts te m ri).1.map (aff α β), (spikeProfile t1 t2 ts te m ri).2.1,
          (spikeProfile t1 t2 ts te m ri).2.2) :=
  spikeProfile_aff β hα t1 t2 ts te m ri

/-- SPIKE-Sync profile: event times mapped, coincidence marks and multiplicities unchanged -/
theorem sync_profile_affine (s1 s2 : List Q) (ts te mt m : Q) :
    coincProfile (s1.map (aff α β)) (s2.map (aff α β)) (aff α β ts) (aff α β te) (α * mt) (α * m)
      = (coincProfile s1 s2 ts te mt m).map fun e => (aff α β e.1, e.2.1, e.2.2) :=
  coincProfile_aff β hα s1 s2 ts te mt m

/-- spike-train-order profile likewise -/
theorem order_profile_affine (s1 s2 : List Q) (ts te mt m : Q) :
    orderProfile (s1.map (aff α β)) (s2.map (aff α β)) (aff α β ts) (aff α β te) (α * mt) (α * m)
      = (orderProfile s1 s2 ts te mt m).map fun e => (aff α β e.1, e.2.1, e.2.2) :=
  orderProfile_aff β hα s1 s2 ts te mt m

/-- per-spike coincidence indicator (sync filter) and directionality values: unchanged -/
theorem filter_indicator_affine (s1 s2 : List Q) (ts te mt m : Q) :
    coincSingle (s1.map (aff α β)) (s2.map (aff α β)) (aff α β ts) (aff α β te) (α * mt) (α * m)
      = coincSingle s1 s2 ts te mt m := coincSingle_aff β hα s1 s2 ts te mt m
theorem directionality_affine (s1 s2 : List Q) (ts te mt m : Q) :
    dirProfile (s1.map (aff α β)) (s2.map (aff α β)) (aff α β ts) (aff α β te) (α * mt) (α * m)
      = dirProfile s1 s2 ts te mt m := dirProfile_aff β hα s1 s2 ts te mt m

/-- the coincidence window scales with the time axis -/
theorem window_affine (p1 c1 n1 p2 c2 n2 : Option Q) (M m : Q) :
    getTau (p1.map (aff α β)) (c1.map (aff α β)) (n1.map (aff α β))
        (p2.map (aff α β)) (c2.map (aff α β)) (n2.map (aff α β)) (α * M) (α * m)
      = α * getTau p1 c1 n1 p2 c2 n2 M m := getTau_aff β hα p1 c1 n1 p2 c2 n2 M m

omit hα in
/-- pure shift: `α = 1` -/
theorem isi_profile_shift (s1 s2 : List Q) (ts te m : Q) :
    isiProfile (s1.map (· + β)) (s2.map (· + β)) (ts + β) (te + β) m
      = ((isiProfile s1 s2 ts te m).1.map (· + β), (isiProfile s1 s2 ts te m).2) := by
  have h := isiProfile_aff (α := 1) β (by norm_num) s1 s2 ts te m
  have e : aff 1 β = fun x => x + β := by funext x; simp [aff]
  rw [e] at h
  simpa using h

end PySpike.C08
