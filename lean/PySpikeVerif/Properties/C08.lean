/-
  Properties/C08.lean — time shift and scaling leave results unchanged.
  `φ x = α·x + β` with `α > 0`: spike times and both edges are mapped with φ, MRTS and max_tau are
  multiplied by α. Every kernel then returns the same profile with only the time axis mapped.
  No validity assumption is needed (all comparisons and the arithmetic commute with φ).
  Proofs: Proofs/Affine.lean. The time-reversal (mirror) clause is checked by correspondence + the
  property oracle only; for SPIKE it is false on the known class F9.
-/
import PySpikeVerif.Proofs.Affine
import PySpikeVerif.Proofs.MirrorIsi
import PySpikeVerif.Proofs.MirrorSync

namespace PySpike.C08
open PySpike

variable {α : Q} (β : Q) (hα : 0 < α)
include hα

/-- ISI-profile: breakpoints mapped, values unchanged -/
theorem isi_profile_affine (s1 s2 : List Q) (ts te m : Q) :
    isiProfile (s1.map (aff α β)) (s2.map (aff α β)) (aff α β ts) (aff α β te) (α * m)
      = ((isiProfile s1 s2 ts te m).1.map (aff α β), (isiProfile s1 s2 ts te m).2) :=
  isiProfile_aff β hα s1 s2 ts te m

/-- SPIKE-profile (plain, RI, adaptive): breakpoints mapped, both value arrays unchanged -/
theorem spike_profile_affine (t1 t2 : List Q) (ts te m : Q) (ri : Bool) :
    spikeProfile (t1.map (aff α β)) (t2.map (aff α β)) (aff α β ts) (aff α β te) (α * m) ri
      = ((spikeProfile t1 t2 ts te m ri).1.map (aff α β), (spikeProfile t1 t2 ts te m ri).2.1,
          (spikeProfile t1 t2 ts te m ri).2.2) :=
  spikeProfile_aff β hα t1 t2 ts te m ri

/-- SPIKE-Sync profile: event times mapped, coincidence marks and multiplicities unchanged -/
theorem sync_profile_affine (s1 s2 : List Q) (ts te mt m : Q) :
    coincProfile (s1.map (aff α β)) (s2.map (aff α β)) (aff α β ts) (aff α β te) (α * mt) (α * m)
      = (coincProfile s1 s2 ts te mt m).map fun e => (aff α β e.1, e.2.1, e.2.2) :=
  coincProfile_aff β hα s1 s2 ts te mt m

/-- spike-train-order profile likewise -/
theorem order_profile_affine (s1 s2 : List Q) (ts te mt m : Q) :
    orderProfile (s1.map (aff α β)) (s2.map (aff α β)) (aff α β ts) (aff α β te) (α * mt) (α * m)
      = (orderProfile s1 s2 ts te mt m).map fun e => (aff α β e.1, e.2.1, e.2.2) :=
  orderProfile_aff β hα s1 s2 ts te mt m

/-- per-spike coincidence indicator (sync filter) and directionality values: unchanged -/
theorem filter_indicator_affine (s1 s2 : List Q) (ts te mt m : Q) :
    coincSingle (s1.map (aff α β)) (s2.map (aff α β)) (aff α β ts) (aff α β te) (α * mt) (α * m)
      = coincSingle s1 s2 ts te mt m := coincSingle_aff β hα s1 s2 ts te mt m
theorem directionality_affine (s1 s2 : List Q) (ts te mt m : Q) :
    dirProfile (s1.map (aff α β)) (s2.map (aff α β)) (aff α β ts) (aff α β te) (α * mt) (α * m)
      = dirProfile s1 s2 ts te mt m := dirProfile_aff β hα s1 s2 ts te mt m

/-- the coincidence window scales with the time axis -/
theorem window_affine (p1 c1 n1 p2 c2 n2 : Option Q) (M m : Q) :
    getTau (p1.map (aff α β)) (c1.map (aff α β)) (n1.map (aff α β))
        (p2.map (aff α β)) (c2.map (aff α β)) (n2.map (aff α β)) (α * M) (α * m)
      = α * getTau p1 c1 n1 p2 c2 n2 M m := getTau_aff β hα p1 c1 n1 p2 c2 n2 M m

omit hα in
/-- pure shift: `α = 1` -/
theorem isi_profile_shift (s1 s2 : List Q) (ts te m : Q) :
    isiProfile (s1.map (· + β)) (s2.map (· + β)) (ts + β) (te + β) m
      = ((isiProfile s1 s2 ts te m).1.map (· + β), (isiProfile s1 s2 ts te m).2) := by
  have h := isiProfile_aff (α := 1) β (by norm_num) s1 s2 ts te m
  have e : aff 1 β = fun x => x + β := by funext x; simp [aff]
  rw [e] at h
  simpa using h

/-! ### time reversal (Proofs/MirrorIsi.lean, Proofs/MirrorSync.lean — work packages B9, B10)
    `ψ x = ts + te - x`; the mirrored train is `(s.map ψ).reverse`. -/

/-- reflecting all spike times mirrors the ISI-profile: breakpoints mirrored, piece values in
    reverse order (left and right limits exchanged) -/
theorem isi_profile_mirror (s1 s2 : List Q) (ts te m : Q) (hlt : ts < te)
    (h1 : ValidNE s1 ts te) (h2 : ValidNE s2 ts te) :
    isiProfile (B9_mir ts te s1) (B9_mir ts te s2) ts te m
      = (((isiProfile s1 s2 ts te m).1.map (B9_psi ts te)).reverse, (isiProfile s1 s2 ts te m).2.reverse) :=
  isiProfile_mirror s1 s2 ts te m hlt h1 h2

/-- … so the ISI distance is unchanged -/
theorem isi_distance_mirror (s1 s2 : List Q) (ts te m : Q) (hlt : ts < te)
    (h1 : ValidNE s1 ts te) (h2 : ValidNE s2 ts te) :
    (Pwc.mk (isiProfile (B9_mir ts te s1) (B9_mir ts te s2) ts te m).1
            (isiProfile (B9_mir ts te s1) (B9_mir ts te s2) ts te m).2).avrgAll
      = (Pwc.mk (isiProfile s1 s2 ts te m).1 (isiProfile s1 s2 ts te m).2).avrgAll :=
  B9_isiProfile_mirror_avrgAll s1 s2 ts te m hlt h1 h2

/-- the SPIKE-Sync profile is mirrored (same marks and multiplicities, reversed order) … -/
theorem sync_profile_mirror (s1 s2 : List Q) (ts te mt m : Q)
    (h1 : StrictSorted s1) (h2 : StrictSorted s2) :
    coincProfile (B10_mir (ts + te) s1) (B10_mir (ts + te) s2) ts te mt m
      = ((coincProfile s1 s2 ts te mt m).map fun e => (B10_psi (ts + te) e.1, e.2.1, e.2.2)).reverse :=
  coincProfile_mirror s1 s2 ts te mt m h1 h2

/-- … the spike-train-order profile is mirrored AND negated … -/
theorem order_profile_mirror (s1 s2 : List Q) (ts te mt m : Q)
    (h1 : StrictSorted s1) (h2 : StrictSorted s2) (hne : s1 ≠ [] ∨ s2 ≠ []) :
    orderProfile (B10_mir (ts + te) s1) (B10_mir (ts + te) s2) ts te mt m
      = ((orderProfile s1 s2 ts te mt m).map fun e => (B10_psi (ts + te) e.1, -e.2.1, e.2.2)).reverse :=
  orderProfile_mirror s1 s2 ts te mt m h1 h2 hne

/-- … so the SPIKE-Sync value is unchanged and the order value changes sign -/
theorem sync_value_mirror_invariant (s1 s2 : List Q) (ts te mt m : Q)
    (h1 : StrictSorted s1) (h2 : StrictSorted s2) :
    (Disc.mk (coincProfile (B10_mir (ts + te) s1) (B10_mir (ts + te) s2) ts te mt m)).integralAll
      = (Disc.mk (coincProfile s1 s2 ts te mt m)).integralAll := sync_value_mirror s1 s2 ts te mt m h1 h2
theorem order_value_mirror_negated (s1 s2 : List Q) (ts te mt m : Q)
    (h1 : StrictSorted s1) (h2 : StrictSorted s2) (hne : s1 ≠ [] ∨ s2 ≠ []) :
    (Disc.mk (orderProfile (B10_mir (ts + te) s1) (B10_mir (ts + te) s2) ts te mt m)).integralAll
      = (-(Disc.mk (orderProfile s1 s2 ts te mt m)).integralAll.1,
         (Disc.mk (orderProfile s1 s2 ts te mt m)).integralAll.2) :=
  order_value_mirror s1 s2 ts te mt m h1 h2 hne

/-- SPIKE mirror: NOT proved and false in general (known finding F9: a train that is a single
    spike on `t_start` after mirroring); witness decided by the kernel -/
theorem F9_spike_mirror_fails :
    (spikeProfile [6] [2, 6] 0 6 0 false).2.1.reverse ≠ (spikeProfile [0] [0, 4] 0 6 0 false).2.2 := by
  decide +kernel

end PySpike.C08
