/-
  Properties/C15Mrts.lean — C15 at the level of whole profiles, and the pooled ISI list
  (Proofs/MrtsLaws.lean + Spec/IsiList.lean, work package C5).
  `Forall₂ R l₁ l₂` = the two lists have the same length and are related entry by entry.
-/
import PySpikeVerif.Proofs.MrtsLaws

namespace PySpike.C15
open PySpike

/-- the breakpoints of the ISI- and SPIKE-profiles do not depend on MRTS (all inputs) -/
theorem breakpoints_independent_of_mrts (s1 s2 : List Q) (ts te m : Q) (ri : Bool) :
    (isiProfile s1 s2 ts te m).1 = (isiProfile s1 s2 ts te 0).1 ∧
    (spikeProfile s1 s2 ts te m ri).1 = (spikeProfile s1 s2 ts te 0 ri).1 :=
  ⟨C5_isiProfile_breaks_indep_mrts s1 s2 ts te m, C5_spikeProfile_breaks_indep_mrts s1 s2 ts te m ri⟩

/-- raising MRTS never raises any value of the ISI-profile -/
theorem isi_profile_antitone (s1 s2 : List Q) (ts te m1 m2 : Q) (hlt : ts < te)
    (h1 : ValidNE s1 ts te) (h2 : ValidNE s2 ts te) (hm : m1 ≤ m2) :
    List.Forall₂ (· ≥ ·) (isiProfile s1 s2 ts te m1).2 (isiProfile s1 s2 ts te m2).2 :=
  C5_isiProfile_antitone_mrts s1 s2 ts te m1 m2 hlt h1 h2 hm

/-- an MRTS not above the first train's current interval length at any time changes nothing;
    MRTS = 0 is the plain ISI-profile |ν₁−ν₂| / max(ν₁,ν₂) -/
theorem isi_profile_small_mrts (s1 s2 : List Q) (ts te m : Q) (hlt : ts < te)
    (h1 : ValidNE s1 ts te) (h2 : ValidNE s2 ts te)
    (hm1 : ∀ t, ts ≤ t → t < te → m ≤ nuAt s1 ts te t) :
    isiProfile s1 s2 ts te m = isiProfile s1 s2 ts te 0 :=
  C5_isiProfile_small_mrts' s1 s2 ts te m hlt h1 h2 hm1

theorem isi_profile_zero_mrts (s1 s2 : List Q) (ts te : Q) (hlt : ts < te)
    (h1 : ValidNE s1 ts te) (h2 : ValidNE s2 ts te) :
    PwcMatches (fun t => |nuAt s1 ts te t - nuAt s2 ts te t| / max (nuAt s1 ts te t) (nuAt s2 ts te t))
      (isiProfile s1 s2 ts te 0).1 (isiProfile s1 s2 ts te 0).2 :=
  C5_isiProfile_zero_mrts s1 s2 ts te hlt h1 h2

/-- raising MRTS never raises any value of the SPIKE-profile (plain and RI; outside the F9 class,
    where the scan is not the definition) -/
theorem spike_profile_antitone_partial (t1 t2 : List Q) (ts te m1 m2 : Q) (ri : Bool)
    (h1 : ValidNE t1 ts te) (h2 : ValidNE t2 ts te) (hlt : ts < te)
    (hn1 : ¬ OneSpikeOnStart t1 ts) (hn2 : ¬ OneSpikeOnStart t2 ts) (hm : m1 ≤ m2) :
    List.Forall₂ (· ≥ ·) (spikeProfile t1 t2 ts te m1 ri).2.1 (spikeProfile t1 t2 ts te m2 ri).2.1 ∧
    List.Forall₂ (· ≥ ·) (spikeProfile t1 t2 ts te m1 ri).2.2 (spikeProfile t1 t2 ts te m2 ri).2.2 :=
  C5_spikeProfile_antitone_mrts t1 t2 ts te m1 m2 ri h1 h2 hlt hn1 hn2 hm

/-- an MRTS not above the mean current interval length at any time leaves the SPIKE-profile as it is -/
theorem spike_profile_small_mrts_partial (t1 t2 : List Q) (ts te m : Q) (ri : Bool)
    (h1 : ValidNE t1 ts te) (h2 : ValidNE t2 ts te) (hlt : ts < te)
    (hn1 : ¬ OneSpikeOnStart t1 ts) (hn2 : ¬ OneSpikeOnStart t2 ts)
    (hm : ∀ t, ts ≤ t → t < te → m ≤ (nuAt t1 ts te t + nuAt t2 ts te t) / 2) :
    spikeProfile t1 t2 ts te m ri = spikeProfile t1 t2 ts te 0 ri :=
  C5_spikeProfile_small_mrts' t1 t2 ts te m ri h1 h2 hlt hn1 hn2 hm

/-- SPIKE-Sync: raising MRTS keeps every event time and multiplicity, never unmarks a coincident
    spike (a marked entry keeps its value) and can only add coincidences -/
theorem sync_profile_monotone (s1 s2 : List Q) (ts te mt m1 m2 : Q)
    (h1 : StrictSorted s1) (h2 : StrictSorted s2) (hm : m1 ≤ m2) :
    List.Forall₂ (fun e1 e2 : Q × Q × Q => e1.1 = e2.1 ∧ e1.2.2 = e2.2.2 ∧ e1.2.1 ≤ e2.2.1 ∧
        (e1.2.1 ≠ 0 → e2.2.1 = e1.2.1))
      (coincProfile s1 s2 ts te mt m1) (coincProfile s1 s2 ts te mt m2) :=
  C5_coincProfile_mono_mrts s1 s2 ts te mt m1 m2 h1 h2 hm

/-- an MRTS whose quarter is not above half of any inter-spike interval (nor half the maximal
    window) leaves the SPIKE-Sync and spike-train-order profiles unchanged -/
theorem sync_profile_small_mrts (s1 s2 : List Q) (ts te mt m : Q)
    (h1 : StrictSorted s1) (h2 : StrictSorted s2) (htm : 0 ≤ trueMax ts te mt)
    (hd1 : ∀ d ∈ C5_diffs s1, m / 4 ≤ d / 2) (hd2 : ∀ d ∈ C5_diffs s2, m / 4 ≤ d / 2)
    (hm : m / 4 ≤ trueMax ts te mt / 2) :
    coincProfile s1 s2 ts te mt m = coincProfile s1 s2 ts te mt 0 ∧
    orderProfile s1 s2 ts te mt m = orderProfile s1 s2 ts te mt 0 :=
  ⟨C5_coincProfile_small_mrts s1 s2 ts te mt m h1 h2 htm
      (C5_SmallFor_of_diffs s1 _ m h1 hd1 hm) (C5_SmallFor_of_diffs s2 _ m h2 hd2 hm),
   C5_orderProfile_small_mrts s1 s2 ts te mt m h1 h2 htm
      (C5_SmallFor_of_diffs s1 _ m h1 hd1 hm) (C5_SmallFor_of_diffs s2 _ m h2 hd2 hm)⟩

/-- `isi_lengths` returns the inter-spike intervals with the edge rule of the profiles, outside
    the class of known finding F7 (one spike on an edge, or exactly the two edges) -/
theorem isi_lengths_is_isi_list_partial (s : List Q) (ts te : Q)
    (hb : ∀ x ∈ s, ts ≤ x ∧ x ≤ te) (hF : ¬ F7class s ts te) :
    isiLengths s ts te = isiListSpec s ts te := C5_isiLengths_eq_spec s ts te hb hF

/-- … the full statement is false of the code as it is (F7) -/
theorem isi_lengths_full_statement_fails :
    ¬ ∀ (s : List Q) (ts te : Q), s.Pairwise (· < ·) → (∀ x ∈ s, ts ≤ x ∧ x ≤ te) →
      isiLengths s ts te = isiListSpec s ts te := C5_isiLengths_full_statement_fails

/-- the ISI list is exactly the set of interval lengths the ISI-profile uses: every current
    interval length ν(t) is in the list, and every entry of the list is ν(t) for some t -/
theorem isi_list_is_profile_intervals (s : List Q) (ts te : Q) (hlt : ts < te)
    (hs : s.Pairwise (· < ·)) (hb : ∀ z ∈ s, ts ≤ z ∧ z ≤ te) :
    (∀ t, ts ≤ t → t < te → nuAt s ts te t ∈ isiListSpec s ts te) ∧
    (∀ x ∈ isiListSpec s ts te, ∃ t, ts ≤ t ∧ t < te ∧ nuAt s ts te t = x) :=
  ⟨fun t h1 h2 => C5_nuAt_mem_isiListSpec s ts te t hs h1 h2,
   fun x hx => C5_isiListSpec_mem_nuAt s ts te x hlt hs hb hx⟩

/-- the automatic threshold is positive (so `sqrt` of it is defined and MRTS = 'auto' > 0) -/
theorem auto_threshold_pos (t : Train) (L : List Train) (hlt : t.ts < t.te)
    (hs : t.spikes.Pairwise (· < ·)) (hb : ∀ x ∈ t.spikes, t.ts ≤ x ∧ x ≤ t.te) :
    0 < defaultThreshSq (t :: L) := C5_defaultThreshSq_pos t L hlt hs hb

example : ¬ F7class [1, 3] 0 4 ∧ isiListSpec [1, 3] 0 4 = [2, 2, 2] := by decide +kernel

end PySpike.C15
