/-
  Properties/WaveF4.lean — property theorems of work package F4 (C08 at the level of scalars, public
  functions and lists of trains; generated with tools/restate.py from lean/restate/F4.spec; statements
  are verbatim copies of Proofs/AffineApi.lean). `F4_affT α β` maps spike times and both edges with
  `x ↦ α·x + β`; `F4_scaleKw α β` multiplies MRTS and max_tau by α and maps the interval.
-/
import PySpikeVerif.Proofs.AffineApi

namespace PySpike.C08
open PySpike PySpike.C01

/-- every bivariate scalar (ISI, SPIKE, SPIKE-Sync, spike-train order, directionality; every keyword combination incl. interval, MRTS, max_tau scaled along) is unchanged by a shift, and by a positive scaling when the spikes lie inside their recording -/
theorem scalar_results_affine {α : Q} (β : Q) (hα : 0 < α) (kw : Kw) (normalize : Bool) (a b : Train)
    (h : α = 1 ∨ F4_Within [a, b]) :
    isiDistanceBi (F4_scaleKw α β kw) (F4_affT α β a) (F4_affT α β b) = isiDistanceBi kw a b ∧
    spikeDistanceBi (F4_scaleKw α β kw) (F4_affT α β a) (F4_affT α β b) = spikeDistanceBi kw a b ∧
    spikeSyncBi (F4_scaleKw α β kw) (F4_affT α β a) (F4_affT α β b) = spikeSyncBi kw a b ∧
    spikeTrainOrderBi (F4_scaleKw α β kw) normalize (F4_affT α β a) (F4_affT α β b)
      = spikeTrainOrderBi kw normalize a b ∧
    spikeDirectionality (F4_scaleKw α β kw) normalize (F4_affT α β a) (F4_affT α β b)
      = spikeDirectionality kw normalize a b :=
  F4_bivariate_scalars_aff β hα kw normalize a b h

/-- … the multivariate scalars and the directionality values, every `indices` selection -/
theorem multivariate_scalars_affine {α : Q} (β : Q) (hα : 0 < α) (kw : Kw) (idx : Option (List Nat)) (L : List Train)
    (h : α = 1 ∨ F4_Within L) (hi : F4_IdxOk idx L) :
    isiDistanceMulti (F4_scaleKw α β kw) idx (L.map (F4_affT α β)) = isiDistanceMulti kw idx L ∧
    spikeDistanceMulti (F4_scaleKw α β kw) idx (L.map (F4_affT α β)) = spikeDistanceMulti kw idx L ∧
    spikeSyncMulti (F4_scaleKw α β kw) idx (L.map (F4_affT α β)) = spikeSyncMulti kw idx L ∧
    spikeTrainOrderMulti (F4_scaleKw α β kw) idx (L.map (F4_affT α β))
      = spikeTrainOrderMulti kw idx L ∧
    dirValues (F4_scaleKw α β kw) idx (L.map (F4_affT α β)) = dirValues kw idx L :=
  F4_multivariate_scalars_aff β hα kw idx L h hi

/-- … the multivariate profiles: only the time axis is mapped -/
theorem multivariate_profiles_affine {α : Q} (β : Q) (hα : 0 < α) (kw : Kw) (idx : Option (List Nat)) (L : List Train)
    (h : F4_Ok α kw L) (hi : F4_IdxOk idx L) (hL : L ≠ []) :
    isiProfileMulti (F4_scaleKw α β kw) idx (L.map (F4_affT α β))
      = F4_mapPwc α β (isiProfileMulti kw idx L) ∧
    spikeProfileMulti (F4_scaleKw α β kw) idx (L.map (F4_affT α β))
      = F4_mapPwl α β (spikeProfileMulti kw idx L) ∧
    syncProfileMulti (F4_scaleKw α β kw) idx (L.map (F4_affT α β))
      = F4_mapDisc α β (syncProfileMulti kw idx L) ∧
    orderProfileMulti (F4_scaleKw α β kw) idx (L.map (F4_affT α β))
      = F4_mapDisc α β (orderProfileMulti kw idx L) :=
  F4_multivariate_profiles_aff β hα kw idx L h hi hL

/-- … the ISI distance matrix -/
theorem isi_matrix_affine {α : Q} (β : Q) (hα : 0 < α) (kw : Kw) (idx : Option (List Nat)) (L : List Train)
    (h : F4_Ok α kw L) (hi : F4_IdxOk idx L) :
    isiDistanceMatrix (F4_scaleKw α β kw) idx (L.map (F4_affT α β)) = isiDistanceMatrix kw idx L :=
  F4_isiDistanceMatrix_aff β hα kw idx L h hi

/-- … the SPIKE distance matrix -/
theorem spike_matrix_affine {α : Q} (β : Q) (hα : 0 < α) (kw : Kw) (idx : Option (List Nat)) (L : List Train)
    (h : F4_Ok α kw L) (hi : F4_IdxOk idx L) :
    spikeDistanceMatrix (F4_scaleKw α β kw) idx (L.map (F4_affT α β))
      = spikeDistanceMatrix kw idx L :=
  F4_spikeDistanceMatrix_aff β hα kw idx L h hi

/-- … the SPIKE-Sync matrix -/
theorem sync_matrix_affine {α : Q} (β : Q) (hα : 0 < α) (kw : Kw) (idx : Option (List Nat)) (L : List Train)
    (h : F4_Ok α kw L) (hi : F4_IdxOk idx L) :
    spikeSyncMatrix (F4_scaleKw α β kw) idx (L.map (F4_affT α β)) = spikeSyncMatrix kw idx L :=
  F4_spikeSyncMatrix_aff β hα kw idx L h hi

/-- … the directionality matrix -/
theorem directionality_matrix_affine {α : Q} (β : Q) (hα : 0 < α) (kw : Kw) (normalize : Bool) (idx : Option (List Nat))
    (L : List Train) (h : α = 1 ∨ F4_Within L) (hi : F4_IdxOk idx L) :
    spikeDirectionalityMatrix (F4_scaleKw α β kw) normalize idx (L.map (F4_affT α β))
      = spikeDirectionalityMatrix kw normalize idx L :=
  F4_spikeDirectionalityMatrix_aff β hα kw normalize idx L h hi

/-- … the sync filter: kept / removed spikes are the images of the kept / removed spikes -/
theorem filter_affine {α : Q} (β : Q) (hα : 0 < α) (kw : Kw) (thr : Q) (L : List Train) (h : F4_Ok α kw L) :
    filterBySync (F4_scaleKw α β kw) thr (L.map (F4_affT α β))
      = ((filterBySync kw thr L).1.map (F4_affT α β), (filterBySync kw thr L).2.map (F4_affT α β)) :=
  F4_filterBySync_aff β hα kw thr L h

/-- reconciliation commutes with a shift, and with a scaling when the spikes lie inside their recording … -/
theorem reconcile_affine {α : Q} (β : Q) (hα : 0 < α) (L : List Train) (h : α = 1 ∨ F4_Within L) :
    reconcile (L.map (F4_affT α β)) = (reconcile L).map (F4_affT α β) :=
  F4_reconcile_aff β hα L h

/-- … the condition is needed: the 1e-6 tolerance band of reconciliation is absolute, so a spike in the band outside the edge can leave it under scaling -/
theorem reconcile_scaling_needs_inside :
    reconcile ([⟨[-(3/4) * recEps], 0, 1⟩].map (F4_affT 2 0)) = [⟨[], 0, 2⟩] ∧
    (reconcile [⟨[-(3/4) * recEps], 0, 1⟩]).map (F4_affT 2 0) = [⟨[-(3/2) * recEps], 0, 2⟩] :=
  F4_reconcile_scale_counterexample 

/-- time reversal leaves the ISI distance, SPIKE-Sync and (outside the F9 class and its mirror image) the SPIKE distance unchanged, every keyword combination -/
theorem scalar_results_mirror (kw : Kw) (a b : Train) (hiv : kw.interval = none)
    (ha : ValidTrain a) (hb : ValidTrain b) (hts : b.ts = a.ts) (hte : b.te = a.te) :
    isiDistanceBi kw (D1_mirror a) (D1_mirror b) = isiDistanceBi kw a b ∧
    spikeSyncBi kw (D1_mirror a) (D1_mirror b) = spikeSyncBi kw a b ∧
    ((a.spikes ≠ [a.ts] ∧ a.spikes ≠ [a.te]) → (b.spikes ≠ [b.ts] ∧ b.spikes ≠ [b.te]) →
      spikeDistanceBi kw (D1_mirror a) (D1_mirror b) = spikeDistanceBi kw a b) :=
  F4_bivariate_mirror_anyRecon kw a b hiv ha hb hts hte

/-- … the multivariate ISI distance -/
theorem isi_multi_mirror (kw : Kw) (idx : Option (List Nat)) (L : List Train) (ts te : Q)
    (hiv : kw.interval = none) (hv : B5_ValidList ts te L) (hi : F4_IdxOk idx L) :
    isiDistanceMulti kw idx (L.map D1_mirror) = isiDistanceMulti kw idx L :=
  F4_isiDistanceMulti_mirror kw idx L ts te hiv hv hi

/-- … multivariate SPIKE-Sync -/
theorem sync_multi_mirror (kw : Kw) (idx : Option (List Nat)) (L : List Train) (ts te : Q)
    (hiv : kw.interval = none) (hv : B5_ValidList ts te L) (hi : F4_IdxOk idx L) :
    spikeSyncMulti kw idx (L.map D1_mirror) = spikeSyncMulti kw idx L :=
  F4_spikeSyncMulti_mirror kw idx L ts te hiv hv hi

/-- … the multivariate SPIKE distance (no train a single spike on an edge) -/
theorem spike_multi_mirror_partial (kw : Kw) (idx : Option (List Nat)) (L : List Train)
    (ts te : Q) (hiv : kw.interval = none) (hv : B5_ValidList ts te L) (hi : F4_IdxOk idx L)
    (hn : ∀ t ∈ L, t.spikes ≠ [ts] ∧ t.spikes ≠ [te]) :
    spikeDistanceMulti kw idx (L.map D1_mirror) = spikeDistanceMulti kw idx L :=
  F4_spikeDistanceMulti_mirror kw idx L ts te hiv hv hi hn

end PySpike.C08

