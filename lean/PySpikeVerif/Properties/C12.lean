/-
  Properties/C12.lean — compiled backend and pure-Python fallback compute the same results
  (source level; the `.pyx` files are tied to their models by the transliterated run, see
  Model/Pyx.lean and harness/pyx2py.py). Equalities proved so far; the scan equalities
  (`isiProfilePyx_eq`, single-pass routines = average of the profile) come with work package B3.
-/
import PySpikeVerif.Model.Pyx
import PySpikeVerif.Proofs.TauLaws

namespace PySpike.C12
open PySpike

/-- the two differently written `Interpolate` functions agree -/
theorem interpolate_agree (a b t : Q) : interpPyx a b t = interp a b t := interpPyx_eq_interp a b t

/-- hence `cython_get_tau.get_tau` = `python_backend.get_tau` -/
theorem get_tau_agree (p1 c1 n1 p2 c2 n2 : Option Q) (M m : Q) :
    getTauPyx p1 c1 n1 p2 c2 n2 M m = getTau p1 c1 n1 p2 c2 n2 M m := by
  unfold getTauPyx getTau
  simp only [interpPyx_eq_interp]

/-- the ISI ratio: `fmax(MRTS, fmax(nu1, nu2))` = `max([nu1, nu2, MRTS])` -/
theorem isi_ratio_agree (n1 n2 m : Q) : isiValPyx n1 n2 m = isiVal n1 n2 m := by
  unfold isiValPyx isiVal; rw [max_comm]

/-- auxiliary spikes: `2*t[0]-t[1]` = `t[0]-(t[1]-t[0])` -/
theorem aux_start_agree (t : List Q) (ts : Q) : auxStartPyx t ts = auxStart t ts := by
  cases t with
  | nil => rfl
  | cons a r =>
    cases r with
    | nil => rfl
    | cons b r' => simp only [auxStartPyx, auxStart]; congr 1; ring

/-- witnesses of the two known disagreements are NOT disagreements of the rational models
    (they are a `(1,1)` convention and a NaN of IEEE arithmetic): F10 … -/
theorem F10_model : orderValuePyx [] [] 0 4 0 0 = (1, 1) ∧
    (Disc.mk (orderProfile [] [] 0 4 0 0)).integralAll = (0, 0) := by
  constructor <;> decide +kernel
/-- … F12: the zero-width closing piece has value `0/0` (0 in ℚ, NaN in IEEE) -/
theorem F12_model : isiDistancePyx [4] [4] 0 4 0 = 0 := by decide +kernel

end PySpike.C12
