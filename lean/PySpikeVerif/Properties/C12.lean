/-
  Properties/C12.lean — compiled backend and pure-Python fallback compute the same results
  (source level; the `.pyx` files are tied to their models by the transliterated run, see
  Model/Pyx.lean and harness/pyx2py.py). Equalities proved so far; the scan equalities
  (`isiProfilePyx_eq`, single-pass routines = average of the profile) come with work package B3.
-/
import PySpikeVerif.Model.Pyx
import PySpikeVerif.Proofs.TauLaws
import PySpikeVerif.Proofs.PyxEq

namespace PySpike.C12
open PySpike

/-- the two differently written `Interpolate` functions agree -/
theorem interpolate_agree (a b t : Q) : interpPyx a b t = interp a b t := interpPyx_eq_interp a b t

/-- hence `cython_get_tau.get_tau` = `python_backend.get_tau` -/
theorem get_tau_agree (p1 c1 n1 p2 c2 n2 : Option Q) (M m : Q) :
    getTauPyx p1 c1 n1 p2 c2 n2 M m = getTau p1 c1 n1 p2 c2 n2 M m := by
  unfold getTauPyx getTau
  simp only [interpPyx_eq_interp]

/-- the ISI ratio: `fmax(MRTS, fmax(nu1, nu2))` = `max([nu1, nu2, MRTS])` -/
theorem isi_ratio_agree (n1 n2 m : Q) : isiValPyx n1 n2 m = isiVal n1 n2 m := by
  unfold isiValPyx isiVal; rw [max_comm]

/-- auxiliary spikes: `2*t[0]-t[1]` = `t[0]-(t[1]-t[0])` -/
theorem aux_start_agree (t : List Q) (ts : Q) : auxStartPyx t ts = auxStart t ts := by
  cases t with
  | nil => rfl
  | cons a r =>
    cases r with
    | nil => rfl
    | cons b r' => simp only [auxStartPyx, auxStart]; congr 1; ring

/-- witnesses of the two known disagreements are NOT disagreements of the rational models
    (they are a `(1,1)` convention and a NaN of IEEE arithmetic): F10 … -/
theorem F10_model : orderValuePyx [] [] 0 4 0 0 = (1, 1) ∧
    (Disc.mk (orderProfile [] [] 0 4 0 0)).integralAll = (0, 0) := by
  constructor <;> decide +kernel
/-- … F12: the zero-width closing piece has value `0/0` (0 in ℚ, NaN in IEEE) -/
theorem F12_model : isiDistancePyx [4] [4] 0 4 0 = 0 := by decide +kernel

/-! ### from Proofs/PyxEq.lean (work package B3): the routines written differently agree -/

/-- `isi_profile_cython` = `isi_distance_python`, for all inputs (the end-edge rule via the previous
    `nu` equals the recomputed `s[N-1]-s[N-2]`) -/
theorem isi_profile_agree (s1 s2 : List Q) (ts te m : Q) :
    isiProfilePyx s1 s2 ts te m = isiProfile s1 s2 ts te m := isiProfilePyx_eq s1 s2 ts te m

/-- `spike_profile_cython` = `spike_distance_python`, for all inputs -/
theorem spike_profile_agree (t1 t2 : List Q) (ts te m : Q) (ri : Bool) :
    spikeProfilePyx t1 t2 ts te m ri = spikeProfile t1 t2 ts te m ri := spikeProfilePyx_eq t1 t2 ts te m ri

/-- the single-pass `isi_distance_cython` equals averaging the profile (in ℚ, for all inputs;
    the IEEE NaN of known finding F12 comes from the zero-width closing piece) -/
theorem isi_distance_single_pass (s1 s2 : List Q) (ts te m : Q) :
    isiDistancePyx s1 s2 ts te m = (Pwc.mk (isiProfile s1 s2 ts te m).1 (isiProfile s1 s2 ts te m).2).avrgAll :=
  B3_isiDistancePyx_eq_avrg_all s1 s2 ts te m

/-- the single-pass `spike_distance_cython` equals averaging the (Python) profile -/
theorem spike_distance_single_pass (t1 t2 : List Q) (ts te m : Q) (ri : Bool) :
    spikeDistancePyx t1 t2 ts te m ri
      = (Pwl.mk (spikeProfile t1 t2 ts te m ri).1 (spikeProfile t1 t2 ts te m ri).2.1
                (spikeProfile t1 t2 ts te m ri).2.2).avrgAll :=
  spikeDistancePyx_eq_avrg_py t1 t2 ts te m ri

/-- `coincidence_value_cython` / `spike_train_order_cython`: the multiplicity equals the summed
    multiplicity of the profile (two empty trains excluded for the order routine: finding F10) -/
theorem coincidence_value_multiplicity (s1 s2 : List Q) (ts te mt m : Q) :
    (coincValuePyx s1 s2 ts te mt m).2 = (Disc.mk (coincProfile s1 s2 ts te mt m)).integralAll.2 :=
  coincValuePyx_mp s1 s2 ts te mt m
theorem order_value_multiplicity (s1 s2 : List Q) (ts te mt m : Q) (h : ¬ (s1 = [] ∧ s2 = [])) :
    (orderValuePyx s1 s2 ts te mt m).2 = (Disc.mk (orderProfile s1 s2 ts te mt m)).integralAll.2 :=
  orderValuePyx_mp s1 s2 ts te mt m h

/-- … and the value equals the summed profile values whenever no coincidence mark overwrites an
    already marked entry (`B3_scanSafe`, an executable predicate; for valid trains it is the
    one-to-one property of coincidences) -/
theorem coincidence_value_partial (s1 s2 : List Q) (ts te mt m : Q)
    (hs : B3_scanSafe 1 1 2 (trueMax ts te mt) m [] s1 [] s2 [] = true) :
    (coincValuePyx s1 s2 ts te mt m).1 = (Disc.mk (coincProfile s1 s2 ts te mt m)).integralAll.1 :=
  coincValuePyx_val s1 s2 ts te mt m hs

end PySpike.C12
