/-
  Properties/C04.lean — spike-train order and directionality follow the leader/follower sign
  convention. Spec: `entrySpec (-1) 1 0`, `dirSpec1/2` in Spec/Sync.lean (validated against the
  model on > 26 000 inputs). Proved so far: matrix antisymmetry / zero diagonal, the sign table of
  the spec, kernel-decided examples; swap negation and the scan theorem come with work packages
  B1/B2.
-/
import PySpikeVerif.Spec.Sync
import PySpikeVerif.Proofs.ApiLaws
import PySpikeVerif.Proofs.SyncScan
import PySpikeVerif.Proofs.OrderLaws

namespace PySpike.C04
open PySpike

/-- the directionality matrix is antisymmetric (normalised or not, any `indices`) … -/
theorem matrix_antisymmetric (kw : Kw) (normalize : Bool) (idx : Option (List Nat))
    (L : List Train) (i j : Nat)
    (hi : i < (resolveIdx idx (prep kw L).length).length)
    (hj : j < (resolveIdx idx (prep kw L).length).length) :
    ((spikeDirectionalityMatrix kw normalize idx L).getD i []).getD j 0 =
      - ((spikeDirectionalityMatrix kw normalize idx L).getD j []).getD i 0 :=
  spikeDirectionalityMatrix_antisymm kw normalize idx L i j hi hj

/-- … hence has a zero diagonal -/
theorem matrix_zero_diagonal (kw : Kw) (normalize : Bool) (idx : Option (List Nat))
    (L : List Train) (i : Nat) (hi : i < (resolveIdx idx (prep kw L).length).length) :
    ((spikeDirectionalityMatrix kw normalize idx L).getD i []).getD i 0 = 0 := by
  have h := spikeDirectionalityMatrix_antisymm kw normalize idx L i i hi hi
  linarith

/-- sign table of the definition: a coincident pair with the first train's spike first gives both
    spikes +1, with the first train's spike second -1; simultaneous spikes 0 -/
theorem sign_first_train_leads (s1 s2 : List Q) (tm m a : Q)
    (h0 : ¬ (s2.any fun b => decide (b < a ∧ Coinc s1 s2 tm m a b)) = true)
    (h1 : (s2.any fun b => decide (a < b ∧ Coinc s1 s2 tm m a b)) = true) :
    mark1 (-1) 1 s1 s2 tm m a = 1 := by unfold mark1; rw [if_neg h0, if_pos h1]
theorem sign_first_train_follows (s1 s2 : List Q) (tm m a : Q)
    (h0 : (s2.any fun b => decide (b < a ∧ Coinc s1 s2 tm m a b)) = true) :
    mark1 (-1) 1 s1 s2 tm m a = -1 := by unfold mark1; rw [if_pos h0]
theorem sign_not_coincident (s1 s2 : List Q) (tm m a : Q)
    (h0 : ¬ (s2.any fun b => decide (b < a ∧ Coinc s1 s2 tm m a b)) = true)
    (h1 : ¬ (s2.any fun b => decide (a < b ∧ Coinc s1 s2 tm m a b)) = true) :
    mark1 (-1) 1 s1 s2 tm m a = 0 := by unfold mark1; rw [if_neg h0, if_neg h1]
theorem sign_simultaneous (s1 s2 : List Q) (tm m t : Q) (h1 : t ∈ s1) (h2 : t ∈ s2) :
    entrySpec (-1) 1 0 s1 s2 tm m t = (t, 0, 2) := by simp [entrySpec, h1, h2]

/-- kernel-decided examples: train 1 leads (+1 on both spikes of each pair), swapped (-1),
    directionality values +1 for the leader and -1 for the follower -/
theorem example_leads : (orderProfile [1, 5] [2, 6] 0 10 0 0).map (·.2.1) = [1, 1, 1, 1, 1, 1] := by decide +kernel
theorem example_follows : (orderProfile [2, 6] [1, 5] 0 10 0 0).map (·.2.1) = [-1, -1, -1, -1, -1, -1] := by
  decide +kernel
theorem example_directionality : dirProfile [1, 5] [2, 6] 0 10 0 0 = ([1, 1], [-1, -1]) := by decide +kernel
theorem example_spec : dirProfile [1, 5, 7] [2, 5, 9] 0 10 0 0
    = (dirSpec1 [1, 5, 7] [2, 5, 9] (trueMax 0 10 0) 0, dirSpec2 [1, 5, 7] [2, 5, 9] (trueMax 0 10 0) 0) := by
  decide +kernel

/-- **the spike-train-order profile follows the sign convention for every input**: the scan equals
    the pairwise definition with values (-1, +1, 0): both spikes of a coincident pair get +1 when
    the first train's spike comes first and -1 when it comes second (`mark1`/`mark2`), simultaneous
    and non-coincident spikes get 0 -/
theorem order_profile_is_sign_convention (s1 s2 : List Q) (ts te mt m : Q)
    (h1 : StrictSorted s1) (h2 : StrictSorted s2) :
    orderProfile s1 s2 ts te mt m = frameProfile ts te (scanSpec (-1) 1 0 s1 s2 (trueMax ts te mt) m) :=
  orderProfile_eq_spec s1 s2 ts te mt m h1 h2

/-- it uses the same coincidences as SPIKE-Sync: the two profiles are the same scan with
    different values, so they have the same times and multiplicities and a spike is non-zero in
    the order profile only if it is marked in the SPIKE-Sync profile -/
theorem same_coincidences_as_sync (s1 s2 : List Q) (tm m a : Q) :
    mark1 (-1) 1 s1 s2 tm m a ≠ 0 → mark1 1 1 s1 s2 tm m a = 1 := by
  unfold mark1
  split
  · intro _; rfl
  · split
    · intro _; rfl
    · intro h; exact absurd rfl h

/-! ### Proofs/OrderLaws.lean (work package B2) -/

/-- swapping the two trains negates the spike-train-order profile (same times and multiplicities) -/
theorem swap_negates_order_profile (s1 s2 : List Q) (ts te mt m : Q)
    (h1 : s1.Pairwise (· < ·)) (h2 : s2.Pairwise (· < ·)) (hne : s1 ≠ [] ∨ s2 ≠ []) :
    orderProfile s2 s1 ts te mt m = (orderProfile s1 s2 ts te mt m).map (fun e => (e.1, -e.2.1, e.2.2)) :=
  orderProfile_swap_neg s1 s2 ts te mt m h1 h2 hne

/-- each train keeps its own directionality values when the arguments are swapped … -/
theorem swap_directionality_values (s1 s2 : List Q) (ts te mt m : Q)
    (h1 : s1.Pairwise (· < ·)) (h2 : s2.Pairwise (· < ·)) :
    dirProfile s2 s1 ts te mt m = ((dirProfile s1 s2 ts te mt m).2, (dirProfile s1 s2 ts te mt m).1) :=
  dirProfile_swap s1 s2 ts te mt m h1 h2

/-- … every coincidence writes +1 on the leader and -1 on the follower, so the two sums cancel … -/
theorem leader_follower_cancel (s1 s2 : List Q) (ts te mt m : Q)
    (h1 : s1.Pairwise (· < ·)) (h2 : s2.Pairwise (· < ·)) :
    qsum (dirProfile s1 s2 ts te mt m).1 + qsum (dirProfile s1 s2 ts te mt m).2 = 0 :=
  dirProfile_sum_zero s1 s2 ts te mt m h1 h2

/-- … hence the un-normalised directionality of A w.r.t. B is minus that of B w.r.t. A -/
theorem swap_negates_directionality (kw : Kw) (a b : Train) (hts : a.ts = b.ts) (hte : a.te = b.te) :
    spikeDirectionality kw false b a = - spikeDirectionality kw false a b :=
  B2_spikeDirectionality_swap kw a b hts hte

/-- the summed order profile is twice the directionality (sum of A's values), the multiplicity the
    total number of spikes -/
theorem order_integral_is_twice_directionality (s1 s2 : List Q) (ts te mt m : Q)
    (h1 : s1.Pairwise (· < ·)) (h2 : s2.Pairwise (· < ·)) :
    (Disc.mk (orderProfile s1 s2 ts te mt m)).integralAll
      = (2 * qsum (dirProfile s1 s2 ts te mt m).1, (s1.length : Q) + (s2.length : Q)) :=
  B2_orderProfile_integral s1 s2 ts te mt m h1 h2

/-- **synfire indicator** = twice the upper-triangle sum of the directionality matrix divided by
    (N-1) times the number of spikes (1 by convention when there are no spikes) -/
theorem synfire_identity (kw : Kw) (L : List Train) (hr : kw.recon = true) :
    spikeTrainOrderMulti kw none L =
      (let L' := prep kw L
       let n := L'.length
       let T := qsum (L'.map fun t => (t.spikes.length : Q))
       if ((n : Q) - 1) * T = 0 then 1
       else 2 * B2_upperSum (spikeDirectionalityMatrix kw false none L) n / (((n : Q) - 1) * T)) :=
  B2_spikeTrainOrderMulti_synfire_all kw L hr

/-- directionality values are +1 (leads), -1 (follows) or 0 -/
theorem directionality_values_signs (s1 s2 : List Q) (ts te mt m : Q) :
    (∀ v ∈ (dirProfile s1 s2 ts te mt m).1, v = -1 ∨ v = 0 ∨ v = 1) ∧
      (∀ v ∈ (dirProfile s1 s2 ts te mt m).2, v = -1 ∨ v = 0 ∨ v = 1) :=
  B2_dirProfile_values s1 s2 ts te mt m

end PySpike.C04
