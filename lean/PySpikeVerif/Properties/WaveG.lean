/-
  Properties/WaveG.lean — property theorems of wave G (work packages G1, G2, G3; generated with
  tools/restate.py from lean/restate/G*.spec: statements are verbatim copies of the statements in
  Proofs/MirrorApi.lean, ApiLifts.lean, MrtsMore.lean). Source of the work list: CLAUSES2.md.
-/
import PySpikeVerif.Proofs.MirrorApi
import PySpikeVerif.Proofs.ApiLifts
import PySpikeVerif.Proofs.MrtsMore

namespace PySpike.C08
open PySpike PySpike.C01

/-- time reversal negates the public normalised spike-train order of a valid pair (not both empty), every keyword combination -/
theorem order_mirror_api (kw : Kw) {ts te : Q} {a b : Train} (hv : C4_Valid ts te [a, b])
    (hne : a.spikes ≠ [] ∨ b.spikes ≠ []) :
    spikeTrainOrderBi kw true (D1_mirror a) (D1_mirror b) = - spikeTrainOrderBi kw true a b :=
  _root_.PySpike.order_mirror_api kw hv hne

/-- … two empty trains: both sides are the convention 1 -/
theorem order_mirror_api_empty (kw : Kw) {ts te : Q} {a b : Train} (hv : C4_Valid ts te [a, b])
    (he : a.spikes = [] ∧ b.spikes = []) :
    spikeTrainOrderBi kw true (D1_mirror a) (D1_mirror b) = 1 ∧ spikeTrainOrderBi kw true a b = 1 :=
  _root_.PySpike.G1_order_mirror_api_empty kw hv he

/-- … the un-normalised order value changes sign for every valid pair -/
theorem order_mirror_api_unnormalized (kw : Kw) {ts te : Q} {a b : Train}
    (hv : C4_Valid ts te [a, b]) :
    spikeTrainOrderBi kw false (D1_mirror a) (D1_mirror b) = - spikeTrainOrderBi kw false a b :=
  _root_.PySpike.G1_order_mirror_api_unnormalized kw hv

/-- time reversal negates the spike directionality (normalised or not) -/
theorem directionality_mirror_api (kw : Kw) (normalize : Bool) {ts te : Q} {a b : Train}
    (hv : C4_Valid ts te [a, b]) :
    spikeDirectionality kw normalize (D1_mirror a) (D1_mirror b)
      = - spikeDirectionality kw normalize a b :=
  _root_.PySpike.G1_directionality_mirror_api kw normalize hv

/-- time reversal negates the multivariate spike-train order (1 stays 1 when no selected train has a spike) -/
theorem order_multi_mirror (kw : Kw) (idx : Option (List Nat)) {ts te : Q} {L : List Train}
    (hv : B5_ValidList ts te L) (hi : F4_IdxOk idx L) (h2 : 2 ≤ (resolveIdx idx L.length).length) :
    spikeTrainOrderMulti kw idx (L.map D1_mirror)
      = if (∀ k ∈ resolveIdx idx L.length, (tr L k).spikes = []) then 1
        else - spikeTrainOrderMulti kw idx L :=
  _root_.PySpike.order_multi_mirror kw idx hv hi h2

/-- the multivariate ISI profile of the mirrored list at the mirrored time, right limit = left limit of the original -/
theorem isi_multi_profile_mirror (kw : Kw) {ts te : Q} {L : List Train}
    (hv : B5_ValidList ts te L) (h2 : 2 ≤ L.length) {t : Q} (ht0 : ts < t) (ht1 : t ≤ te) :
    (isiProfileMulti kw none (L.map D1_mirror)).evalR (ts + te - t)
      = (isiProfileMulti kw none L).evalL t :=
  _root_.PySpike.isi_multi_profile_mirror kw hv h2 ht0 ht1

/-- … left limit = right limit of the original -/
theorem isi_multi_profile_mirror_right (kw : Kw) {ts te : Q} {L : List Train}
    (hv : B5_ValidList ts te L) (h2 : 2 ≤ L.length) {t : Q} (ht0 : ts ≤ t) (ht1 : t < te) :
    (isiProfileMulti kw none (L.map D1_mirror)).evalL (ts + te - t)
      = (isiProfileMulti kw none L).evalR t :=
  _root_.PySpike.G1_isi_multi_profile_mirror_right kw hv h2 ht0 ht1

/-- the multivariate SPIKE-Sync profile is mirrored -/
theorem sync_multi_profile_mirror (kw : Kw) {ts te : Q} {L : List Train}
    (hv : B5_ValidList ts te L) (h2 : 2 ≤ L.length) (t : Q) :
    (syncProfileMulti kw none (L.map D1_mirror)).at (ts + te - t)
      = (syncProfileMulti kw none L).at t :=
  _root_.PySpike.G1_sync_multi_profile_mirror kw hv h2 t

/-- the multivariate order profile is mirrored and negated -/
theorem order_multi_profile_mirror (kw : Kw) {ts te : Q} {L : List Train}
    (hv : B5_ValidList ts te L) (h2 : 2 ≤ L.length) (t : Q) :
    (orderProfileMulti kw none (L.map D1_mirror)).at (ts + te - t)
      = (- ((orderProfileMulti kw none L).at t).1, ((orderProfileMulti kw none L).at t).2) :=
  _root_.PySpike.G1_order_multi_profile_mirror kw hv h2 t

/-- the multivariate SPIKE profile is mirrored (no train a single spike on an edge: F9) -/
theorem spike_multi_profile_mirror_partial (kw : Kw) {ts te : Q} {L : List Train}
    (hv : B5_ValidList ts te L) (h2 : 2 ≤ L.length)
    (hn : ∀ a ∈ L, a.spikes ≠ [ts] ∧ a.spikes ≠ [te]) {t : Q} (ht0 : ts < t) (ht1 : t ≤ te) :
    (spikeProfileMulti kw none (L.map D1_mirror)).evalR (ts + te - t)
      = (spikeProfileMulti kw none L).evalL t :=
  _root_.PySpike.G1_spike_multi_profile_mirror_partial kw hv h2 hn ht0 ht1

/-- ISI distance over a sub-interval = distance of the mirrored pair over the mirrored sub-interval -/
theorem isi_distance_mirror_interval (kw : Kw) (a b : Train) (ha : ValidTrain a) (hb : ValidTrain b)
    (hts : b.ts = a.ts) (hte : b.te = a.te) {p q : Q} (h0 : a.ts ≤ p) (hpq : p < q) (h1 : q ≤ a.te) :
    isiDistanceBi { kw with interval := some (a.ts + a.te - q, a.ts + a.te - p) }
        (D1_mirror a) (D1_mirror b)
      = isiDistanceBi { kw with interval := some (p, q) } a b :=
  _root_.PySpike.G1_isi_distance_mirror_interval kw a b ha hb hts hte h0 hpq h1

/-- … SPIKE-Sync, every interval -/
theorem sync_mirror_interval (kw : Kw) (a b : Train) (h : D4_VBi a b) (p q : Q) :
    spikeSyncBi { kw with interval := some (a.ts + a.te - q, a.ts + a.te - p) }
        (D1_mirror a) (D1_mirror b)
      = spikeSyncBi { kw with interval := some (p, q) } a b :=
  _root_.PySpike.G1_sync_mirror_interval kw a b h p q

/-- … SPIKE distance (outside F9) -/
theorem spike_distance_mirror_interval_partial (kw : Kw) (a b : Train) (ha : ValidTrain a)
    (hb : ValidTrain b) (hts : b.ts = a.ts) (hte : b.te = a.te)
    (hna : a.spikes ≠ [a.ts] ∧ a.spikes ≠ [a.te]) (hnb : b.spikes ≠ [b.ts] ∧ b.spikes ≠ [b.te])
    {p q : Q} (h0 : a.ts ≤ p) (hpq : p < q) (h1 : q ≤ a.te) :
    spikeDistanceBi { kw with interval := some (a.ts + a.te - q, a.ts + a.te - p) }
        (D1_mirror a) (D1_mirror b)
      = spikeDistanceBi { kw with interval := some (p, q) } a b :=
  _root_.PySpike.G1_spike_distance_mirror_interval_partial kw a b ha hb hts hte hna hnb h0 hpq h1

/-- … multivariate ISI distance -/
theorem isi_distance_multi_mirror_interval (kw : Kw) (idx : Option (List Nat)) {ts te : Q}
    {L : List Train} (hv : B5_ValidList ts te L) (hi : F4_IdxOk idx L) {p q : Q}
    (h0 : ts ≤ p) (hpq : p < q) (h1 : q ≤ te) :
    isiDistanceMulti { kw with interval := some (ts + te - q, ts + te - p) } idx (L.map D1_mirror)
      = isiDistanceMulti { kw with interval := some (p, q) } idx L :=
  _root_.PySpike.G1_isi_distance_multi_mirror_interval kw idx hv hi h0 hpq h1

/-- … multivariate SPIKE-Sync -/
theorem sync_multi_mirror_interval (kw : Kw) (idx : Option (List Nat)) {ts te : Q}
    {L : List Train} (hv : B5_ValidList ts te L) (hi : F4_IdxOk idx L) (p q : Q) :
    spikeSyncMulti { kw with interval := some (ts + te - q, ts + te - p) } idx (L.map D1_mirror)
      = spikeSyncMulti { kw with interval := some (p, q) } idx L :=
  _root_.PySpike.G1_sync_multi_mirror_interval kw idx hv hi p q

/-- the pooled ISI list scales with the time axis … -/
theorem isi_lengths_affine {α : Q} (β : Q) (hα : 0 < α) (s : List Q) (ts te : Q) :
    isiLengths (s.map (aff α β)) (aff α β ts) (aff α β te) = (isiLengths s ts te).map (α * ·) :=
  _root_.PySpike.G1_isiLengths_aff β hα s ts te

/-- … so the automatic threshold (MRTS='auto') squared scales with α², i.e. 'auto' behaves like an explicitly scaled MRTS under shift and scale -/
theorem auto_threshold_affine {α : Q} (β : Q) (hα : 0 < α) (L : List Train) :
    defaultThreshSq (L.map (F4_affT α β)) = α ^ 2 * defaultThreshSq L :=
  _root_.PySpike.auto_threshold_affine β hα L

/-- … multivariate SPIKE distance over a sub-interval (outside F9) -/
theorem spike_distance_multi_mirror_interval_partial (kw : Kw) (idx : Option (List Nat)) {ts te : Q}
    {L : List Train} (hv : B5_ValidList ts te L) (hi : F4_IdxOk idx L)
    (hn : ∀ t ∈ L, t.spikes ≠ [ts] ∧ t.spikes ≠ [te]) {p q : Q}
    (h0 : ts ≤ p) (hpq : p < q) (h1 : q ≤ te) :
    spikeDistanceMulti { kw with interval := some (ts + te - q, ts + te - p) } idx (L.map D1_mirror)
      = spikeDistanceMulti { kw with interval := some (p, q) } idx L :=
  _root_.PySpike.G1_spike_distance_multi_mirror_interval_partial kw idx hv hi hn h0 hpq h1

/-- the multivariate SPIKE profile mirrored, left limit = right limit of the original (outside F9) -/
theorem spike_multi_profile_mirror_partial_right (kw : Kw) {ts te : Q} {L : List Train}
    (hv : B5_ValidList ts te L) (h2 : 2 ≤ L.length)
    (hn : ∀ a ∈ L, a.spikes ≠ [ts] ∧ a.spikes ≠ [te]) {t : Q} (ht0 : ts ≤ t) (ht1 : t < te) :
    (spikeProfileMulti kw none (L.map D1_mirror)).evalL (ts + te - t)
      = (spikeProfileMulti kw none L).evalR t :=
  _root_.PySpike.G1_spike_multi_profile_mirror_partial_right kw hv h2 hn ht0 ht1

/-- mirroring a train twice gives the train back -/
theorem mirror_is_an_involution (a : Train) : D1_mirror (D1_mirror a) = a :=
  _root_.PySpike.G1_mirror_mirror a

end PySpike.C08

namespace PySpike.C03
open PySpike PySpike.C01

/-- the PUBLIC bivariate SPIKE-Sync profile of a valid pair is the pairwise coincidence definition, every keyword combination -/
theorem sync_profile_api_is_pairwise_definition (kw : Kw) (a b : Train) (ts te : Q)
    (hv : C4_Valid ts te [a, b]) :
    syncProfileBi kw a b
      = ⟨frameProfile a.ts a.te
          (scanSpec 1 1 2 a.spikes b.spikes (trueMax a.ts a.te kw.maxTau) kw.mrts)⟩ :=
  _root_.PySpike.G2_sync_profile_api_is_pairwise_definition kw a b ts te hv

/-- … for arbitrary input with the default reconciliation: the definition on the reconciled pair -/
theorem sync_profile_api_is_pairwise_definition_reconciled (kw : Kw) (a b : Train)
    (hr : kw.recon = true) :
    syncProfileBi kw a b
      = ⟨frameProfile (reconcileBi a b).1.ts (reconcileBi a b).1.te
          (scanSpec 1 1 2 (reconcileBi a b).1.spikes (reconcileBi a b).2.spikes
            (trueMax (reconcileBi a b).1.ts (reconcileBi a b).1.te kw.maxTau) kw.mrts)⟩ ∧
    orderProfileBi kw a b
      = ⟨frameProfile (reconcileBi a b).1.ts (reconcileBi a b).1.te
          (scanSpec (-1) 1 0 (reconcileBi a b).1.spikes (reconcileBi a b).2.spikes
            (trueMax (reconcileBi a b).1.ts (reconcileBi a b).1.te kw.maxTau) kw.mrts)⟩ :=
  _root_.PySpike.G2_sync_profile_api_is_pairwise_definition_recon kw a b hr

end PySpike.C03

namespace PySpike.C04
open PySpike PySpike.C01

/-- directionality values = sum over the other selected trains / (n−1), every keyword combination (reconciliation on or off) and every indices selection -/
theorem directionality_values_are_average_valid (kw : Kw) (idx : List Nat) (L : List Train)
    (ts te : Q) (hv : B5_ValidList ts te L) (hl : idxValid idx L.length = true) (i k : Nat)
    (hi : i < idx.length) :
    ((dirValues kw (some idx) L).getD i []).getD k 0
      = (((List.range idx.length).filter (· ≠ i)).map fun j =>
          (dirSpec1 (tr L (idx.getD i 0)).spikes (tr L (idx.getD j 0)).spikes
            (trueMax ts te kw.maxTau) kw.mrts).getD k 0).sum
        / ((idx.length : Q) - 1) :=
  _root_.PySpike.G2_directionality_values_are_average_valid kw idx L ts te hv hl i k hi

/-- … indices = None -/
theorem directionality_values_are_average_all_kw (kw : Kw) (L : List Train)
    (ts te : Q) (hv : B5_ValidList ts te L) (i k : Nat) (hi : i < L.length) :
    ((dirValues kw none L).getD i []).getD k 0
      = (((List.range L.length).filter (· ≠ i)).map fun j =>
          (dirSpec1 (tr L i).spikes (tr L j).spikes (trueMax ts te kw.maxTau) kw.mrts).getD k 0).sum
        / ((L.length : Q) - 1) :=
  _root_.PySpike.G2_directionality_values_are_average_all kw L ts te hv i k hi

/-- every directionality value lies in [-1,1]: every keyword combination, every list -/
theorem directionality_values_range_any (kw : Kw) (L : List Train) :
    ∀ l ∈ dirValues kw none L, ∀ v ∈ l, -1 ≤ v ∧ v ≤ 1 :=
  _root_.PySpike.G2_directionality_values_range kw L

/-- leader / follower contributions cancel (default reconciliation: all inputs) -/
theorem directionality_values_sum_zero_any (kw : Kw) (L : List Train)
    (hL : kw.recon = true ∨ ∀ s ∈ L, StrictSorted s.spikes) :
    qsum ((dirValues kw none L).map qsum) = 0 :=
  _root_.PySpike.G2_directionality_values_sum_zero kw L hL

/-- the PUBLIC bivariate spike-train-order profile of a valid pair is the sign-convention definition, every keyword combination -/
theorem order_profile_api_is_sign_convention (kw : Kw) (a b : Train) (ts te : Q)
    (hv : C4_Valid ts te [a, b]) :
    orderProfileBi kw a b
      = ⟨frameProfile a.ts a.te
          (scanSpec (-1) 1 0 a.spikes b.spikes (trueMax a.ts a.te kw.maxTau) kw.mrts)⟩ :=
  _root_.PySpike.G2_order_profile_api_is_sign_convention kw a b ts te hv

end PySpike.C04

namespace PySpike.C06
open PySpike PySpike.C01

/-- every off-diagonal entry of the PUBLIC ISI distance matrix (any indices selection, every keyword combination) is the public bivariate distance of the two selected trains -/
theorem isi_matrix_entries_are_public_pair_distances (kw : Kw) (idx : List Nat) (L : List Train) (ts te : Q)
    (hv : B5_ValidList ts te L) (hl : idxValid idx L.length = true) (M : List (List Q))
    (h : isiDistanceMatrix kw (some idx) L = some M) (i j : Nat)
    (hi : i < idx.length) (hj : j < idx.length) (hij : i ≠ j) :
    isiDistanceBi kw (tr L (idx.getD i 0)) (tr L (idx.getD j 0)) = some ((M.getD i []).getD j 0) :=
  _root_.PySpike.G2_isi_matrix_entries_are_pair_distances kw idx L ts te hv hl M h i j hi hj hij

/-- … its diagonal is 0 -/
theorem isi_matrix_diagonal_zero (kw : Kw) (idx : List Nat) (L : List Train) (ts te : Q)
    (hv : B5_ValidList ts te L) (hl : idxValid idx L.length = true) (M : List (List Q))
    (h : isiDistanceMatrix kw (some idx) L = some M) (i : Nat) (hi : i < idx.length) :
    (M.getD i []).getD i 0 = 0 :=
  _root_.PySpike.G2_isi_matrix_diagonal_zero kw idx L ts te hv hl M h i hi

/-- … the SPIKE distance matrix -/
theorem spike_matrix_entries_are_public_pair_distances (kw : Kw) (idx : List Nat) (L : List Train)
    (ts te : Q) (hv : B5_ValidList ts te L) (hl : idxValid idx L.length = true) (M : List (List Q))
    (h : spikeDistanceMatrix kw (some idx) L = some M) (i j : Nat)
    (hi : i < idx.length) (hj : j < idx.length) (hij : i ≠ j) :
    spikeDistanceBi kw (tr L (idx.getD i 0)) (tr L (idx.getD j 0))
      = some ((M.getD i []).getD j 0) :=
  _root_.PySpike.G2_spike_matrix_entries_are_pair_distances kw idx L ts te hv hl M h i j hi hj hij

/-- … its diagonal is 0 -/
theorem spike_matrix_diagonal_zero (kw : Kw) (idx : List Nat) (L : List Train) (ts te : Q)
    (hv : B5_ValidList ts te L) (hl : idxValid idx L.length = true) (M : List (List Q))
    (h : spikeDistanceMatrix kw (some idx) L = some M) (i : Nat) (hi : i < idx.length) :
    (M.getD i []).getD i 0 = 0 :=
  _root_.PySpike.G2_spike_matrix_diagonal_zero kw idx L ts te hv hl M h i hi

/-- … the SPIKE-Sync matrix -/
theorem sync_matrix_entries_are_public_pair_values (kw : Kw) (idx : List Nat) (L : List Train)
    (ts te : Q) (hv : B5_ValidList ts te L) (hl : idxValid idx L.length = true) (M : List (List Q))
    (h : spikeSyncMatrix kw (some idx) L = some M) (i j : Nat)
    (hi : i < idx.length) (hj : j < idx.length) (hij : i ≠ j) :
    spikeSyncBi kw (tr L (idx.getD i 0)) (tr L (idx.getD j 0)) = some ((M.getD i []).getD j 0) :=
  _root_.PySpike.G2_sync_matrix_entries_are_pair_values kw idx L ts te hv hl M h i j hi hj hij

/-- … its diagonal is 1 -/
theorem sync_matrix_diagonal_one (kw : Kw) (idx : List Nat) (L : List Train) (ts te : Q)
    (hv : B5_ValidList ts te L) (hl : idxValid idx L.length = true) (M : List (List Q))
    (h : spikeSyncMatrix kw (some idx) L = some M) (i : Nat) (hi : i < idx.length) :
    (M.getD i []).getD i 0 = 1 :=
  _root_.PySpike.G2_sync_matrix_diagonal_one kw idx L ts te hv hl M h i hi

/-- indices = None: every off-diagonal entry of the ISI matrix is the public pair distance, diagonal 0 -/
theorem isi_matrix_entries_all (kw : Kw) (L : List Train) (ts te : Q)
    (hv : B5_ValidList ts te L) (M : List (List Q)) (h : isiDistanceMatrix kw none L = some M)
    (i j : Nat) (hi : i < L.length) (hj : j < L.length) :
    (i ≠ j → isiDistanceBi kw (tr L i) (tr L j) = some ((M.getD i []).getD j 0)) ∧
    (M.getD i []).getD i 0 = 0 :=
  _root_.PySpike.G2_isi_matrix_entries_all kw L ts te hv M h i j hi hj

/-- … SPIKE matrix -/
theorem spike_matrix_entries_all (kw : Kw) (L : List Train) (ts te : Q)
    (hv : B5_ValidList ts te L) (M : List (List Q)) (h : spikeDistanceMatrix kw none L = some M)
    (i j : Nat) (hi : i < L.length) (hj : j < L.length) :
    (i ≠ j → spikeDistanceBi kw (tr L i) (tr L j) = some ((M.getD i []).getD j 0)) ∧
    (M.getD i []).getD i 0 = 0 :=
  _root_.PySpike.G2_spike_matrix_entries_all kw L ts te hv M h i j hi hj

/-- … SPIKE-Sync matrix (diagonal 1) -/
theorem sync_matrix_entries_all (kw : Kw) (L : List Train) (ts te : Q)
    (hv : B5_ValidList ts te L) (M : List (List Q)) (h : spikeSyncMatrix kw none L = some M)
    (i j : Nat) (hi : i < L.length) (hj : j < L.length) :
    (i ≠ j → spikeSyncBi kw (tr L i) (tr L j) = some ((M.getD i []).getD j 0)) ∧
    (M.getD i []).getD i 0 = 1 :=
  _root_.PySpike.G2_sync_matrix_entries_all kw L ts te hv M h i j hi hj

end PySpike.C06

namespace PySpike.C14
open PySpike PySpike.C01

/-- indices = the selected sub-list, every keyword combination: ISI profile -/
theorem isi_profile_indices_any_kw (kw : Kw) (idx : List Nat) (L : List Train) (ts te : Q) (hv : B5_ValidList ts te L) (hl : idxValid idx L.length = true) (h2 : 2 ≤ idx.length) :
    isiProfileMulti kw (some idx) L = isiProfileMulti kw none (idx.map (tr L)) :=
  _root_.PySpike.G2_isi_profile_indices kw idx L ts te hv hl h2

/-- … SPIKE profile -/
theorem spike_profile_indices_any_kw (kw : Kw) (idx : List Nat) (L : List Train) (ts te : Q) (hv : B5_ValidList ts te L) (hl : idxValid idx L.length = true) (h2 : 2 ≤ idx.length) :
    spikeProfileMulti kw (some idx) L = spikeProfileMulti kw none (idx.map (tr L)) :=
  _root_.PySpike.G2_spike_profile_indices kw idx L ts te hv hl h2

/-- … SPIKE-Sync profile -/
theorem sync_profile_indices_any_kw (kw : Kw) (idx : List Nat) (L : List Train) (ts te : Q) (hv : B5_ValidList ts te L) (hl : idxValid idx L.length = true) (h2 : 2 ≤ idx.length) :
    syncProfileMulti kw (some idx) L = syncProfileMulti kw none (idx.map (tr L)) :=
  _root_.PySpike.G2_sync_profile_indices kw idx L ts te hv hl h2

/-- … order profile -/
theorem order_profile_indices_any_kw (kw : Kw) (idx : List Nat) (L : List Train) (ts te : Q) (hv : B5_ValidList ts te L) (hl : idxValid idx L.length = true) (h2 : 2 ≤ idx.length) :
    orderProfileMulti kw (some idx) L = orderProfileMulti kw none (idx.map (tr L)) :=
  _root_.PySpike.G2_order_profile_indices kw idx L ts te hv hl h2

/-- … ISI distance -/
theorem isi_distance_indices_any_kw (kw : Kw) (idx : List Nat) (L : List Train) (ts te : Q) (hv : B5_ValidList ts te L) (hl : idxValid idx L.length = true) :
    isiDistanceMulti kw (some idx) L = isiDistanceMulti kw none (idx.map (tr L)) :=
  _root_.PySpike.G2_isi_distance_indices kw idx L ts te hv hl

/-- … SPIKE distance -/
theorem spike_distance_indices_any_kw (kw : Kw) (idx : List Nat) (L : List Train) (ts te : Q) (hv : B5_ValidList ts te L) (hl : idxValid idx L.length = true) :
    spikeDistanceMulti kw (some idx) L = spikeDistanceMulti kw none (idx.map (tr L)) :=
  _root_.PySpike.G2_spike_distance_indices kw idx L ts te hv hl

/-- … SPIKE-Sync -/
theorem spike_sync_indices_any_kw (kw : Kw) (idx : List Nat) (L : List Train) (ts te : Q) (hv : B5_ValidList ts te L) (hl : idxValid idx L.length = true) :
    spikeSyncMulti kw (some idx) L = spikeSyncMulti kw none (idx.map (tr L)) :=
  _root_.PySpike.G2_spike_sync_indices kw idx L ts te hv hl

/-- … spike-train order -/
theorem order_indices_any_kw (kw : Kw) (idx : List Nat) (L : List Train) (ts te : Q) (hv : B5_ValidList ts te L) (hl : idxValid idx L.length = true) :
    spikeTrainOrderMulti kw (some idx) L = spikeTrainOrderMulti kw none (idx.map (tr L)) :=
  _root_.PySpike.G2_order_indices kw idx L ts te hv hl

/-- … ISI matrix -/
theorem isi_matrix_indices_any_kw (kw : Kw) (idx : List Nat) (L : List Train) (ts te : Q) (hv : B5_ValidList ts te L) (hl : idxValid idx L.length = true) :
    isiDistanceMatrix kw (some idx) L = isiDistanceMatrix kw none (idx.map (tr L)) :=
  _root_.PySpike.G2_isi_matrix_indices kw idx L ts te hv hl

/-- … SPIKE matrix -/
theorem spike_matrix_indices_any_kw (kw : Kw) (idx : List Nat) (L : List Train) (ts te : Q) (hv : B5_ValidList ts te L) (hl : idxValid idx L.length = true) :
    spikeDistanceMatrix kw (some idx) L = spikeDistanceMatrix kw none (idx.map (tr L)) :=
  _root_.PySpike.G2_spike_matrix_indices kw idx L ts te hv hl

/-- … SPIKE-Sync matrix -/
theorem sync_matrix_indices_any_kw (kw : Kw) (idx : List Nat) (L : List Train) (ts te : Q) (hv : B5_ValidList ts te L) (hl : idxValid idx L.length = true) :
    spikeSyncMatrix kw (some idx) L = spikeSyncMatrix kw none (idx.map (tr L)) :=
  _root_.PySpike.G2_sync_matrix_indices kw idx L ts te hv hl

/-- … directionality values -/
theorem directionality_values_indices_any_kw (kw : Kw) (idx : List Nat) (L : List Train) (ts te : Q) (hv : B5_ValidList ts te L) (hl : idxValid idx L.length = true) :
    dirValues kw (some idx) L = dirValues kw none (idx.map (tr L)) :=
  _root_.PySpike.G2_directionality_values_indices kw idx L ts te hv hl

/-- … directionality matrix -/
theorem directionality_matrix_indices_any_kw (kw : Kw) (idx : List Nat) (L : List Train) (ts te : Q) (hv : B5_ValidList ts te L) (hl : idxValid idx L.length = true) (normalize : Bool) :
    spikeDirectionalityMatrix kw normalize (some idx) L =
      spikeDirectionalityMatrix kw normalize none (idx.map (tr L)) :=
  _root_.PySpike.G2_directionality_matrix_indices kw idx L ts te hv hl normalize

/-- indices=[i,j] = the bivariate call, every keyword combination: ISI profile -/
theorem isi_profile_two_indices_any_kw (kw : Kw) (L : List Train) (ts te : Q) (hv : B5_ValidList ts te L) (i j : Nat) (hi : i < L.length) (hj : j < L.length) :
    isiProfileMulti kw (some [i, j]) L = isiProfileBi kw (tr L i) (tr L j) :=
  _root_.PySpike.G2_isi_profile_two_indices kw L ts te hv i j hi hj

/-- … SPIKE profile -/
theorem spike_profile_two_indices_any_kw (kw : Kw) (L : List Train) (ts te : Q) (hv : B5_ValidList ts te L) (i j : Nat) (hi : i < L.length) (hj : j < L.length) :
    spikeProfileMulti kw (some [i, j]) L = spikeProfileBi kw (tr L i) (tr L j) :=
  _root_.PySpike.G2_spike_profile_two_indices kw L ts te hv i j hi hj

/-- … SPIKE-Sync profile -/
theorem sync_profile_two_indices_any_kw (kw : Kw) (L : List Train) (ts te : Q) (hv : B5_ValidList ts te L) (i j : Nat) (hi : i < L.length) (hj : j < L.length) :
    syncProfileMulti kw (some [i, j]) L = syncProfileBi kw (tr L i) (tr L j) :=
  _root_.PySpike.G2_sync_profile_two_indices kw L ts te hv i j hi hj

/-- … order profile -/
theorem order_profile_two_indices_any_kw (kw : Kw) (L : List Train) (ts te : Q) (hv : B5_ValidList ts te L) (i j : Nat) (hi : i < L.length) (hj : j < L.length) :
    orderProfileMulti kw (some [i, j]) L = orderProfileBi kw (tr L i) (tr L j) :=
  _root_.PySpike.G2_order_profile_two_indices kw L ts te hv i j hi hj

/-- … ISI distance -/
theorem isi_distance_two_indices_any_kw (kw : Kw) (L : List Train) (ts te : Q) (hv : B5_ValidList ts te L) (i j : Nat) (hi : i < L.length) (hj : j < L.length) :
    isiDistanceMulti kw (some [i, j]) L = isiDistanceBi kw (tr L i) (tr L j) :=
  _root_.PySpike.G2_isi_distance_two_indices kw L ts te hv i j hi hj

/-- … SPIKE distance -/
theorem spike_distance_two_indices_any_kw (kw : Kw) (L : List Train) (ts te : Q) (hv : B5_ValidList ts te L) (i j : Nat) (hi : i < L.length) (hj : j < L.length) :
    spikeDistanceMulti kw (some [i, j]) L = spikeDistanceBi kw (tr L i) (tr L j) :=
  _root_.PySpike.G2_spike_distance_two_indices kw L ts te hv i j hi hj

/-- … SPIKE-Sync -/
theorem spike_sync_two_indices_any_kw (kw : Kw) (L : List Train) (ts te : Q) (hv : B5_ValidList ts te L) (i j : Nat) (hi : i < L.length) (hj : j < L.length) :
    spikeSyncMulti kw (some [i, j]) L = spikeSyncBi kw (tr L i) (tr L j) :=
  _root_.PySpike.G2_spike_sync_two_indices kw L ts te hv i j hi hj

end PySpike.C14

namespace PySpike.C16
open PySpike PySpike.C01

/-- a marked event of the public SPIKE-Sync profile has a partner closer than max_tau, every keyword combination -/
theorem sync_profile_within_max_tau_any_kw (kw : Kw) (a b : Train) (ts te : Q)
    (hv : C4_Valid ts te [a, b]) (hτ : 0 < kw.maxTau) :
    ∀ e ∈ (syncProfileBi kw a b).interior,
      (e.1 ∈ a.spikes ∨ e.1 ∈ b.spikes) ∧ (e.2.1 ≠ 0 →
        (e.1 ∈ a.spikes → ∃ y ∈ b.spikes, qabs (e.1 - y) < kw.maxTau) ∧
        (e.1 ∈ b.spikes → ∃ x ∈ a.spikes, qabs (e.1 - x) < kw.maxTau)) :=
  _root_.PySpike.G2_sync_profile_within_max_tau kw a b ts te hv hτ

/-- … the order profile -/
theorem order_profile_within_max_tau_any_kw (kw : Kw) (a b : Train) (ts te : Q)
    (hv : C4_Valid ts te [a, b]) (hτ : 0 < kw.maxTau) :
    ∀ e ∈ (orderProfileBi kw a b).interior,
      (e.1 ∈ a.spikes ∨ e.1 ∈ b.spikes) ∧ (e.2.1 ≠ 0 →
        (e.1 ∈ a.spikes → ∃ y ∈ b.spikes, qabs (e.1 - y) < kw.maxTau) ∧
        (e.1 ∈ b.spikes → ∃ x ∈ a.spikes, qabs (e.1 - x) < kw.maxTau)) :=
  _root_.PySpike.G2_order_profile_within_max_tau kw a b ts te hv hτ

/-- … the directionality values -/
theorem directionality_within_max_tau_any_kw (kw : Kw) (L : List Train) (ts te : Q)
    (hv : B5_ValidList ts te L) (hτ : 0 < kw.maxTau) (i k : Nat) (hi : i < L.length)
    (hne : ((dirValues kw none L).getD i []).getD k 0 ≠ 0) :
    ∃ j, j < L.length ∧ j ≠ i ∧ ∃ hk : k < (tr L i).spikes.length,
      ∃ y ∈ (tr L j).spikes, qabs ((tr L i).spikes[k] - y) < kw.maxTau :=
  _root_.PySpike.G2_directionality_within_max_tau kw L ts te hv hτ i k hi hne

/-- … a spike the filter keeps -/
theorem filter_kept_within_max_tau_any_kw (kw : Kw) (thr : Q) (L : List Train) (ts te : Q)
    (hv : B5_ValidList ts te L) (hthr : 0 ≤ thr) (hτ : 0 < kw.maxTau) (i : Nat) (hi : i < L.length)
    (x : Q) (hx : x ∈ (tr (filterBySync kw thr L).1 i).spikes) :
    ∃ j, j < L.length ∧ j ≠ i ∧ ∃ y ∈ (tr L j).spikes, qabs (x - y) < kw.maxTau :=
  _root_.PySpike.G2_filter_kept_within_max_tau kw thr L ts te hv hthr hτ i hi x hx

/-- enlarging max_tau never removes a spike from the filter output (Sublist) -/
theorem filter_monotone_in_max_tau (kw : Kw) (mt1 mt2 thr : Q) (L : List Train) (ts te : Q)
    (hv : B5_ValidList ts te L) (h : F2_MaxTauLe mt1 mt2) (i : Nat) (hi : i < L.length) :
    (tr (filterBySync { kw with maxTau := mt1 } thr L).1 i).spikes.Sublist
      (tr (filterBySync { kw with maxTau := mt2 } thr L).1 i).spikes :=
  _root_.PySpike.G2_filter_monotone_in_max_tau kw mt1 mt2 thr L ts te hv h i hi

/-- … nor a coincidence from the multivariate profile: equal multiplicities, values monotone at every time -/
theorem sync_multi_profile_monotone_in_max_tau (kw : Kw) (mt1 mt2 : Q) (L : List Train)
    (ts te : Q) (hv : B5_ValidList ts te L) (h2 : 2 ≤ L.length) (h : F2_MaxTauLe mt1 mt2) (t : Q) :
    ((syncProfileMulti { kw with maxTau := mt1 } none L).at t).2
      = ((syncProfileMulti { kw with maxTau := mt2 } none L).at t).2 ∧
    ((syncProfileMulti { kw with maxTau := mt1 } none L).at t).1
      ≤ ((syncProfileMulti { kw with maxTau := mt2 } none L).at t).1 :=
  _root_.PySpike.G2_sync_multi_profile_monotone_in_max_tau kw mt1 mt2 L ts te hv h2 h t

/-- … the public bivariate profile -/
theorem sync_profile_api_monotone_in_max_tau (kw : Kw) (mt1 mt2 : Q) (a b : Train) (ts te : Q)
    (hv : C4_Valid ts te [a, b]) (h : F2_MaxTauLe mt1 mt2) :
    List.Forall₂ C5_EntryLe (syncProfileBi { kw with maxTau := mt1 } a b).e
      (syncProfileBi { kw with maxTau := mt2 } a b).e :=
  _root_.PySpike.G2_sync_profile_api_monotone_in_max_tau kw mt1 mt2 a b ts te hv h

/-- enlarging max_tau: a marked entry of the public order profile keeps its value -/
theorem order_profile_api_monotone_in_max_tau (kw : Kw) (mt1 mt2 : Q) (a b : Train) (ts te : Q)
    (hv : C4_Valid ts te [a, b]) (h : F2_MaxTauLe mt1 mt2) :
    List.Forall₂ F2_EntryKeep (orderProfileBi { kw with maxTau := mt1 } a b).e
      (orderProfileBi { kw with maxTau := mt2 } a b).e :=
  _root_.PySpike.G2_order_profile_api_monotone_in_max_tau kw mt1 mt2 a b ts te hv h

/-- … directionality values with an indices selection -/
theorem directionality_within_max_tau_indices (kw : Kw) (idx : List Nat) (L : List Train)
    (ts te : Q) (hv : B5_ValidList ts te L) (hl : idxValid idx L.length = true)
    (hτ : 0 < kw.maxTau) (i k : Nat) (hi : i < idx.length)
    (hne : ((dirValues kw (some idx) L).getD i []).getD k 0 ≠ 0) :
    ∃ j, j < idx.length ∧ j ≠ i ∧ ∃ hk : k < (tr L (idx.getD i 0)).spikes.length,
      ∃ y ∈ (tr L (idx.getD j 0)).spikes,
        qabs ((tr L (idx.getD i 0)).spikes[k] - y) < kw.maxTau :=
  _root_.PySpike.G2_directionality_within_max_tau_indices kw idx L ts te hv hl hτ i k hi hne

end PySpike.C16

namespace PySpike.C17
open PySpike PySpike.C01

/-- the keep rule for every keyword combination on valid lists -/
theorem keep_iff_any_kw (kw : Kw) (thr : Q) (L : List Train) (ts te : Q) (hv : B5_ValidList ts te L)
    (i : Nat) (hi : i < L.length) (k : Nat) (hk : k < (tr L i).spikes.length) :
    (tr L i).spikes[k] ∈ (tr (filterBySync kw thr L).1 i).spikes ↔
      (coincCounts kw L i).getD k 0 > thr * ((L.length : Q) - 1) :=
  _root_.PySpike.G2_keep_iff kw thr L ts te hv i hi k hk

/-- kept and removed spikes partition every input train in the original order, every keyword combination -/
theorem kept_removed_partition_any_kw (kw : Kw) (thr : Q) (L : List Train) (ts te : Q)
    (hv : B5_ValidList ts te L) (i : Nat) (hi : i < L.length) :
    (tr (filterBySync kw thr L).1 i).spikes.Sublist (tr L i).spikes ∧
    (tr (filterBySync kw thr L).2 i).spikes.Sublist (tr L i).spikes ∧
    (tr (filterBySync kw thr L).1 i).spikes.length + (tr (filterBySync kw thr L).2 i).spikes.length
      = (tr L i).spikes.length ∧
    ((tr (filterBySync kw thr L).1 i).spikes ++ (tr (filterBySync kw thr L).2 i).spikes).Perm
      (tr L i).spikes ∧
    (tr (filterBySync kw thr L).1 i).ts = (tr L i).ts ∧
    (tr (filterBySync kw thr L).1 i).te = (tr L i).te ∧
    (tr (filterBySync kw thr L).2 i).ts = (tr L i).ts ∧
    (tr (filterBySync kw thr L).2 i).te = (tr L i).te ∧
    (filterBySync kw thr L).1.length = L.length ∧ (filterBySync kw thr L).2.length = L.length :=
  _root_.PySpike.G2_kept_removed_partition kw thr L ts te hv i hi

/-- a higher threshold never keeps more, every keyword combination -/
theorem higher_threshold_keeps_less_any_kw (kw : Kw) (thr1 thr2 : Q) (L : List Train) (ts te : Q)
    (hv : B5_ValidList ts te L) (h12 : thr1 ≤ thr2) (i : Nat) (hi : i < L.length) :
    (tr (filterBySync kw thr2 L).1 i).spikes.Sublist (tr (filterBySync kw thr1 L).1 i).spikes :=
  _root_.PySpike.G2_higher_threshold_keeps_less kw thr1 thr2 L ts te hv h12 i hi

/-- threshold ≥ 1 keeps nothing, every keyword combination -/
theorem threshold_one_keeps_nothing_any_kw (kw : Kw) (thr : Q) (L : List Train) (ts te : Q)
    (hv : B5_ValidList ts te L) (h1 : 1 ≤ thr) (i : Nat) (hi : i < L.length) :
    (tr (filterBySync kw thr L).1 i).spikes = [] ∧
    (tr (filterBySync kw thr L).2 i).spikes = (tr L i).spikes :=
  _root_.PySpike.G2_threshold_one_keeps_nothing kw thr L ts te hv h1 i hi

end PySpike.C17

namespace PySpike.C05
open PySpike PySpike.C01

/-- multivariate SPIKE-Sync over an interval that contains no spike of any train is 1 (every keyword combination) -/
theorem sync_no_spike_in_interval (kw : Kw) (L : List Train) (ts te a b : Q)
    (hv : B5_ValidList ts te L) (hi : kw.interval = some (a, b)) (ha : ts ≤ a) (hb : b ≤ te)
    (h0 : ∀ t ∈ L, ∀ s ∈ t.spikes, ¬ (a < s ∧ s < b)) :
    spikeSyncMulti kw none L = some 1 :=
  _root_.PySpike.sync_no_spike_in_interval kw L ts te a b hv hi ha hb h0

/-- … bivariate -/
theorem sync_no_spike_in_interval_bi (kw : Kw) (x y : Train) (a b : Q) (h : D4_VBi x y)
    (hi : kw.interval = some (a, b)) (ha : x.ts ≤ a) (hb : b ≤ x.te)
    (hx : ∀ s ∈ x.spikes, ¬ (a < s ∧ s < b)) (hy : ∀ s ∈ y.spikes, ¬ (a < s ∧ s < b)) :
    spikeSyncBi kw x y = some 1 :=
  _root_.PySpike.G3_sync_no_spike_in_interval_bi kw x y a b h hi ha hb hx hy

end PySpike.C05

namespace PySpike.C15
open PySpike PySpike.C01

/-- raising MRTS keeps the multiplicities of the multivariate SPIKE-Sync profile and never lowers a value, at every time -/
theorem sync_multi_profile_monotone_in_mrts (kw : Kw) (m1 m2 : Q) (L : List Train) (ts te : Q)
    (hv : B5_ValidList ts te L) (h2 : 2 ≤ L.length) (hm : m1 ≤ m2) (t : Q) :
    ((syncProfileMulti { kw with mrts := m1 } none L).at t).2 =
      ((syncProfileMulti { kw with mrts := m2 } none L).at t).2 ∧
    ((syncProfileMulti { kw with mrts := m1 } none L).at t).1 ≤
      ((syncProfileMulti { kw with mrts := m2 } none L).at t).1 :=
  _root_.PySpike.sync_multi_profile_monotone kw m1 m2 L ts te hv h2 hm t

/-- … so the multivariate SPIKE-Sync value never decreases (any interval; both calls accept the same intervals) -/
theorem spike_sync_multi_monotone_in_mrts (kw : Kw) (m1 m2 : Q) (L : List Train) (ts te : Q)
    (hv : B5_ValidList ts te L) (hm : m1 ≤ m2) :
    F6_OptGe (spikeSyncMulti { kw with mrts := m2 } none L)
      (spikeSyncMulti { kw with mrts := m1 } none L) :=
  _root_.PySpike.G3_spike_sync_multi_monotone_in_mrts kw m1 m2 L ts te hv hm

/-- … and the filter keeps at least the same spikes -/
theorem sync_filter_monotone_in_mrts (kw : Kw) (thr m1 m2 : Q) (L : List Train) (ts te : Q)
    (hv : B5_ValidList ts te L) (hm : m1 ≤ m2) (i : Nat) (hi : i < L.length) :
    (tr (filterBySync { kw with mrts := m1 } thr L).1 i).spikes.Sublist
      (tr (filterBySync { kw with mrts := m2 } thr L).1 i).spikes ∧
    (tr (filterBySync { kw with mrts := m2 } thr L).2 i).spikes.Sublist
      (tr (filterBySync { kw with mrts := m1 } thr L).2 i).spikes :=
  _root_.PySpike.G3_sync_filter_monotone_in_mrts kw thr m1 m2 L ts te hv hm i hi

/-- MRTS = 0 is the non-adaptive SPIKE profile: every value is the plain / rate-independent combination of the nearest-spike distances and interval lengths (public function, outside F9) -/
theorem spike_profile_zero_mrts_partial (kw : Kw) (a b : Train)
    (ha : ValidTrain a) (hb : ValidTrain b) (hts : b.ts = a.ts) (hte : b.te = a.te)
    (hna : a.spikes ≠ [a.ts]) (hnb : b.spikes ≠ [b.ts]) :
    (spikeProfileBi { kw with mrts := 0 } a b).y1 =
      (((spikeProfileBi { kw with mrts := 0 } a b).x.zip
          (spikeProfileBi { kw with mrts := 0 } a b).x.tail).map fun p =>
        G3_nonAdaptive kw.ri
          (spikeContrib a.nonEmpty b.nonEmpty a.ts a.te p.1 true).1
          (spikeContrib b.nonEmpty a.nonEmpty a.ts a.te p.1 true).1
          (spikeContrib a.nonEmpty b.nonEmpty a.ts a.te p.1 true).2
          (spikeContrib b.nonEmpty a.nonEmpty a.ts a.te p.1 true).2) ∧
    (spikeProfileBi { kw with mrts := 0 } a b).y2 =
      (((spikeProfileBi { kw with mrts := 0 } a b).x.zip
          (spikeProfileBi { kw with mrts := 0 } a b).x.tail).map fun p =>
        G3_nonAdaptive kw.ri
          (spikeContrib a.nonEmpty b.nonEmpty a.ts a.te p.2 false).1
          (spikeContrib b.nonEmpty a.nonEmpty a.ts a.te p.2 false).1
          (spikeContrib a.nonEmpty b.nonEmpty a.ts a.te p.2 false).2
          (spikeContrib b.nonEmpty a.nonEmpty a.ts a.te p.2 false).2) :=
  _root_.PySpike.spike_profile_zero_mrts_partial kw a b ha hb hts hte hna hnb

/-- … at every time, with the current interval lengths ν of the real spike lists (positive) -/
theorem spike_profile_zero_mrts_at_every_time_partial (kw : Kw) (a b : Train)
    (ha : ValidTrain a) (hb : ValidTrain b) (hts : b.ts = a.ts) (hte : b.te = a.te)
    (hna : a.spikes ≠ [a.ts]) (hnb : b.spikes ≠ [b.ts])
    (k : Nat) (hk : k + 1 < (spikeProfileBi { kw with mrts := 0 } a b).x.length) (t : Q)
    (hxt : nth (spikeProfileBi { kw with mrts := 0 } a b).x k ≤ t)
    (htx : t < nth (spikeProfileBi { kw with mrts := 0 } a b).x (k + 1)) :
    ((spikeProfileBi { kw with mrts := 0 } a b).pieceAt k).at t =
      G3_nonAdaptive kw.ri
        (spikeContrib a.nonEmpty b.nonEmpty a.ts a.te t true).1
        (spikeContrib b.nonEmpty a.nonEmpty a.ts a.te t true).1
        (nuAt a.spikes a.ts a.te t) (nuAt b.spikes a.ts a.te t) ∧
    0 < nuAt a.spikes a.ts a.te t ∧ 0 < nuAt b.spikes a.ts a.te t :=
  _root_.PySpike.G3_spike_profile_zero_mrts_at_every_time_partial kw a b ha hb hts hte hna hnb k hk t hxt htx

/-- an MRTS not above any pooled inter-spike interval leaves the public SPIKE profile as with MRTS = 0 -/
theorem spike_profile_small_mrts_api_partial (kw : Kw) (m : Q) (a b : Train)
    (ha : ValidTrain a) (hb : ValidTrain b) (hts : b.ts = a.ts) (hte : b.te = a.te)
    (hna : a.spikes ≠ [a.ts]) (hnb : b.spikes ≠ [b.ts])
    (hm : ∀ ν ∈ isiListSpec a.spikes a.ts a.te ++ isiListSpec b.spikes a.ts a.te, m ≤ ν) :
    spikeProfileBi { kw with mrts := m } a b = spikeProfileBi { kw with mrts := 0 } a b :=
  _root_.PySpike.G3_spike_profile_small_mrts_api_partial kw m a b ha hb hts hte hna hnb hm

/-- … the public ISI profile -/
theorem isi_profile_small_mrts_api (kw : Kw) (m : Q) (a b : Train)
    (ha : ValidTrain a) (hb : ValidTrain b) (hts : b.ts = a.ts) (hte : b.te = a.te)
    (hm : ∀ ν ∈ isiListSpec a.spikes a.ts a.te, m ≤ ν) :
    isiProfileBi { kw with mrts := m } a b = isiProfileBi { kw with mrts := 0 } a b :=
  _root_.PySpike.G3_isi_profile_small_mrts_api kw m a b ha hb hts hte hm

/-- … the multivariate ISI and SPIKE profiles -/
theorem multi_profiles_small_mrts_partial (kw : Kw) (m : Q) (L : List Train) (ts te : Q)
    (hv : B5_ValidList ts te L) (h2 : 2 ≤ L.length) (hF9 : ∀ t ∈ L, t.spikes ≠ [ts])
    (hm : ∀ ν ∈ L.flatMap (fun t => isiListSpec t.spikes ts te), m ≤ ν) :
    spikeProfileMulti { kw with mrts := m } none L = spikeProfileMulti { kw with mrts := 0 } none L ∧
    isiProfileMulti { kw with mrts := m } none L = isiProfileMulti { kw with mrts := 0 } none L :=
  _root_.PySpike.G3_spike_profile_multi_small_mrts_partial kw m L ts te hv h2 hF9 hm

/-- bivariate SPIKE-Sync never decreases when MRTS is raised -/
theorem spike_sync_bi_monotone_in_mrts (kw : Kw) (m1 m2 : Q) (x y : Train) (h : D4_VBi x y)
    (hm : m1 ≤ m2) :
    F6_OptGe (spikeSyncBi { kw with mrts := m2 } x y) (spikeSyncBi { kw with mrts := m1 } x y) :=
  _root_.PySpike.G3_spike_sync_bi_monotone_in_mrts kw m1 m2 x y h hm

end PySpike.C15

