/-
  Properties/C10.lean — integral, average and evaluation of piecewise functions are exact.
  Model: `Pwc.integral/avrg/call/callSeq1/plottable`, same for `Pwl` (index arithmetic of
  PieceWiseConstFunc.py / PieceWiseLinFunc.py). Spec: `riemann` (sum over clipped pieces),
  `evalR/evalL` (one-sided limits). Proofs: Proofs/Integral.lean.
-/
import PySpikeVerif.Proofs.Integral

namespace PySpike.C10
open PySpike

/-! ## piecewise constant -/
section pwc
variable {f : Pwc} (hf : f.WF)
include hf

/-- `integral((a,b))` is the exact Riemann integral for every `a < b` inside the support — on
    breakpoints, between breakpoints, inside the same piece, on the end points -/
theorem pwc_integral_exact {a b : Q} (ha : f.first ≤ a) (hab : a < b) (hb : b ≤ f.last) :
    f.integral a b = some (f.riemann a b) := Pwc.integral_eq_riemann hf ha hab hb
/-- integrals over adjacent intervals add up -/
theorem pwc_integral_additive {a b c : Q} (ha : f.first ≤ a) (hab : a < b) (hbc : b < c) (hc : c ≤ f.last) :
    ∃ u v, f.integral a b = some u ∧ f.integral b c = some v ∧ f.integral a c = some (u + v) :=
  Pwc.integral_additive hf ha hab hbc hc
/-- the integral over the full support equals the integral without interval -/
theorem pwc_integral_full : f.integral f.first f.last = some f.integralAll := Pwc.integral_full hf
theorem pwc_integral_none_exact : f.integralAll = f.riemann f.first f.last := Pwc.integralAll_eq_riemann hf
/-- avrg = integral / length; list of intervals: summed integrals / summed lengths -/
theorem pwc_avrg {a b : Q} (ha : f.first ≤ a) (hab : a < b) (hb : b ≤ f.last) :
    f.avrg a b = some (f.riemann a b / (b - a)) := Pwc.avrg_eq hf ha hab hb
theorem pwc_avrg_none : f.avrgAll = f.riemann f.first f.last / (f.last - f.first) := Pwc.avrgAll_eq hf
theorem pwc_avrg_list (ivs : List (Q × Q)) (h : ∀ i ∈ ivs, f.first ≤ i.1 ∧ i.1 < i.2 ∧ i.2 ≤ f.last) :
    f.avrgList ivs = some (qsum (ivs.map fun i => f.riemann i.1 i.2) / qsum (ivs.map fun i => i.2 - i.1)) :=
  Pwc.avrgList_eq hf ivs h
/-- evaluation: one-sided limit at the two end points … -/
theorem pwc_call_ends : f.evalR f.first = some (f.call f.first) ∧ f.evalL f.last = some (f.call f.last) :=
  ⟨Pwc.call_first hf, Pwc.call_last hf⟩
/-- … mean of left and right limit at an interior breakpoint … -/
theorem pwc_call_breakpoint {t : Q} (hm : t ∈ f.x) (h0 : f.first < t) (h1 : t < f.last) :
    ∃ l r, f.evalL t = some l ∧ f.evalR t = some r ∧ f.call t = (l + r) / 2 :=
  Pwc.call_breakpoint hf hm h0 h1
/-- … the piece value elsewhere … -/
theorem pwc_call_inside {t : Q} (hm : t ∉ f.x) (h0 : f.first ≤ t) (h1 : t ≤ f.last) :
    ∃ v, f.evalR t = some v ∧ f.call t = v := Pwc.call_inside hf hm h0 h1
/-- … identically for a single time and for a list of times -/
theorem pwc_call_list_eq_single {t : Q} (h0 : f.first ≤ t) (h1 : t ≤ f.last) :
    f.callSeq1 t = f.call t := Pwc.callSeq1_eq_call hf h0 h1
/-- the plottable arrays trace exactly the pieces -/
theorem pwc_plottable :
    f.plottable = (f.pieces.flatMap (fun p => [p.1, p.2.1]), f.pieces.flatMap (fun p => [p.2.2, p.2.2])) ∧
    f.plottable.1.length = 2 * f.y.length ∧ f.plottable.2.length = 2 * f.y.length ∧
    ∀ k, k < f.y.length →
      f.plottable.1[2 * k]? = some (nth f.x k) ∧ f.plottable.1[2 * k + 1]? = some (nth f.x (k + 1)) ∧
      f.plottable.2[2 * k]? = some (nth f.y k) ∧ f.plottable.2[2 * k + 1]? = some (nth f.y k) :=
  Pwc.plottable_spec hf
end pwc

/-- out-of-range bounds raise `ValueError` (model: `none`) in exactly these cases -/
theorem pwc_integral_rejects (f : Pwc) (a b : Q) :
    f.integral a b = none ↔ (a > b ∨ a < f.first ∨ b > f.last) := Pwc.integral_eq_none_iff f a b

/-! ## piecewise linear -/
section pwl
variable {f : Pwl} (hf : f.WF)
include hf

theorem pwl_integral_exact {a b : Q} (ha : f.first ≤ a) (hab : a < b) (hb : b ≤ f.last) :
    f.integral a b = some (f.riemann a b) := Pwl.integral_eq_riemann hf ha hab hb
theorem pwl_integral_additive {a b c : Q} (ha : f.first ≤ a) (hab : a < b) (hbc : b < c) (hc : c ≤ f.last) :
    ∃ u v, f.integral a b = some u ∧ f.integral b c = some v ∧ f.integral a c = some (u + v) :=
  Pwl.integral_additive hf ha hab hbc hc
theorem pwl_integral_full : f.integral f.first f.last = some f.integralAll := Pwl.integral_full hf
theorem pwl_integral_none_exact : f.integralAll = f.riemann f.first f.last := Pwl.integralAll_eq_riemann hf
theorem pwl_avrg {a b : Q} (ha : f.first ≤ a) (hab : a < b) (hb : b ≤ f.last) :
    f.avrg a b = some (f.riemann a b / (b - a)) := Pwl.avrg_eq hf ha hab hb
theorem pwl_avrg_none : f.avrgAll = f.riemann f.first f.last / (f.last - f.first) := Pwl.avrgAll_eq hf
theorem pwl_avrg_list (ivs : List (Q × Q)) (h : ∀ i ∈ ivs, f.first ≤ i.1 ∧ i.1 < i.2 ∧ i.2 ≤ f.last) :
    f.avrgList ivs = some (qsum (ivs.map fun i => f.riemann i.1 i.2) / qsum (ivs.map fun i => i.2 - i.1)) :=
  Pwl.avrgList_eq hf ivs h
theorem pwl_call_ends : f.evalR f.first = some (f.call f.first) ∧ f.evalL f.last = some (f.call f.last) :=
  ⟨Pwl.call_first hf, Pwl.call_last hf⟩
theorem pwl_call_breakpoint {t : Q} (hm : t ∈ f.x) (h0 : f.first < t) (h1 : t < f.last) :
    ∃ l r, f.evalL t = some l ∧ f.evalR t = some r ∧ f.call t = (l + r) / 2 :=
  Pwl.call_breakpoint hf hm h0 h1
theorem pwl_call_inside {t : Q} (hm : t ∉ f.x) (h0 : f.first ≤ t) (h1 : t ≤ f.last) :
    ∃ v, f.evalR t = some v ∧ f.call t = v := Pwl.call_inside hf hm h0 h1
theorem pwl_call_list_eq_single {t : Q} (h0 : f.first ≤ t) (h1 : t ≤ f.last) :
    f.callSeq1 t = f.call t := Pwl.callSeq1_eq_call hf h0 h1
end pwl

end PySpike.C10
