/-
  Properties/C09Pwl.lean — C09, the one-step facts for piecewise LINEAR profiles (the piecewise
  constant ones are in C09.lean; histories of both in C09.lean / C09Hist.lean). Proofs/AddPwl.lean.
-/
import PySpikeVerif.Proofs.AddPwl

namespace PySpike.C09
open PySpike

variable {f g : Pwl} (hf : f.WF) (hg : g.WF) (h0 : f.first = g.first) (h1 : f.last = g.last)
include hf hg h0 h1

/-- the sum of two well-formed piecewise linear profiles on the same support is well-formed … -/
theorem pwl_add_wf : (f.add g).WF := Pwl.add_wf hf hg h0 h1
/-- … its breakpoints are exactly the union of the operands' breakpoints … -/
theorem pwl_add_breakpoints : ∀ x, x ∈ (f.add g).x ↔ x ∈ f.x ∨ x ∈ g.x := Pwl.add_mem_x hf hg h0 h1
/-- … on the same support … -/
theorem pwl_add_ends : (f.add g).first = f.first ∧ (f.add g).last = f.last :=
  ⟨Pwl.add_first hf hg h0 h1, Pwl.add_last hf hg h0 h1⟩
/-- … with, at every time, right and left limits equal to the sums of the operands' limits
    (linear interpolation inside the operands' pieces) … -/
theorem pwl_add_right_limit : ∀ t, f.first ≤ t → t < f.last →
    ∃ v w, f.evalR t = some v ∧ g.evalR t = some w ∧ (f.add g).evalR t = some (v + w) :=
  Pwl.add_evalR hf hg h0 h1
theorem pwl_add_left_limit : ∀ t, f.first < t → t ≤ f.last →
    ∃ v w, f.evalL t = some v ∧ g.evalL t = some w ∧ (f.add g).evalL t = some (v + w) :=
  Pwl.add_evalL hf hg h0 h1
/-- … and the integral is additive -/
theorem pwl_add_integral : (f.add g).integralAll = f.integralAll + g.integralAll :=
  Pwl.add_integralAll hf hg h0 h1
/-- the result does not depend on the order of the operands (equality of representations) -/
theorem pwl_add_comm : f.add g = g.add f := Pwl.add_comm hf hg h0 h1

omit hf hg h0 h1 in
theorem pwl_add_assoc {f g h : Pwl} (hf : f.WF) (hg : g.WF) (hh : h.WF)
    (h0 : f.first = g.first) (h0' : g.first = h.first) (h1 : f.last = g.last)
    (h1' : g.last = h.last) : (f.add g).add h = f.add (g.add h) :=
  Pwl.add_assoc hf hg hh h0 h0' h1 h1'

omit hf hg h0 h1 in
/-- `mul_scalar` scales both one-sided limits at every time -/
theorem pwl_mul_scalar (f : Pwl) (c t : Q) :
    (f.mulScalar c).evalR t = (f.evalR t).map (· * c) := Pwl.mulScalar_evalR f c t

end PySpike.C09
