/-
  Properties/GenRefine.lean — the second tie between the theorems and the source.

  `Gen/Backend.lean` is produced MECHANICALLY from `pyspike/cython/python_backend.py` and
  `directionality_python_backend.py` by `harness/py2lean.py` (integer cursors, arrays, while loops,
  Python indexing — nothing tidied). The theorems below say that every generated routine returns
  exactly what the hand-written model (`Model/*.lean`, about which all other property theorems are
  stated) returns. With them the hand-written model of these routines is no longer part of the
  trusted base: what is trusted instead is the property-agnostic translator (validated on every run
  by running the generated functions and the real Python code on the same inputs).

  The check regenerates the Lean text from `/repo` on every run and compares it byte for byte with the
  committed `Gen/Backend.lean`; when it differs, these theorems are re-checked against the new text
  in a scratch directory (DESIGN.md §5b).

  `F` is loop fuel: any `F ≥ len(s1) + len(s2) + 2` works; too little fuel is an error (`none`),
  never a wrong answer.

  Reading conventions (fourth audit):
  * `List Rat` stands for a float64 numpy array and `Rat` for a Python/numpy float read as the exact
    rational it denotes; integer-typed arrays (which numpy would truncate into) are outside the statements.
  * Division is total (`x / 0 = 0`) on BOTH sides. Where the code divides by zero — an array with a repeated
    spike time, both interval lengths 0 — numpy produces nan/inf and the two sides below agree on the
    placeholder 0 instead. The theorems of `SourceLevel.lean` assume valid (strictly increasing) trains, for
    which every divisor is proved positive (`C18.spike_scan_denominators_pos`, `isiVal_den_pos`, …).
  * `some v` means "the Python routine returns v"; `none` means IndexError / failed assertion on inputs of the
    shapes the hypotheses describe. For malformed shapes (arrays whose lengths do not fit) numpy may broadcast
    or read uninitialised memory where the generated model says `none`; the hypotheses exclude those.
-/
import PySpikeVerif.Proofs.GenRefine.Isi
import PySpikeVerif.Proofs.GenRefine.Coinc
import PySpikeVerif.Proofs.GenRefine.Spike
import PySpikeVerif.Proofs.GenRefine.Single
import PySpikeVerif.Proofs.GenRefine.OrderDir
import PySpikeVerif.Proofs.GenRefine.AddPwcDisc
import PySpikeVerif.Proofs.GenRefine.AddPwl
open PySpike PySpike.Gen PySpike.GenRefine

namespace PySpike.C01

/-- `isi_distance_python`, as translated from the source, IS `isiProfile` — for all non-empty arrays
    (sorted or not). Together with `C01.isi_profile_values/_breakpoints` the chain
    source → generated model → hand-written model → definition is closed by theorems. -/
theorem generated_isi_kernel_is_model (F : Nat) (s1 s2 : List Rat) (ts te m : Rat)
    (h1 : s1 ≠ []) (h2 : s2 ≠ []) (hF : s1.length + s2.length + 2 ≤ F) :
    Gen.isi_distance_python F s1 s2 ts te m = some (isiProfile s1 s2 ts te m) :=
  isi_distance_python_refines F s1 s2 ts te m h1 h2 hF

/-- … and an empty array is an IndexError in the code (`s1[0]`), which is why the API passes
    `get_spikes_non_empty()` -/
theorem generated_isi_kernel_rejects_empty (F : Nat) (s1 s2 : List Rat) (ts te m : Rat)
    (h : s1 = [] ∨ s2 = []) :
    Gen.isi_distance_python F s1 s2 ts te m = none :=
  isi_distance_python_rejects_empty F s1 s2 ts te m h

/-- the hypotheses are satisfiable and the statement is not about `none`: a concrete run -/
example : Gen.isi_distance_python 10 [1, 2] [3/2] 0 3 0
    = some ([0, 1, 3/2, 2, 3], [1/3, 1/3, 1/3, 1/3]) := by decide +kernel

end PySpike.C01

namespace PySpike.C02

/-- `get_min_dist` (loop with an early `return`) as translated from the source = the model's
    nearest-spike search, for EVERY start index (negative and past-the-end included) -/
theorem generated_get_min_dist_is_model (F : Nat) (x : Rat) (tr : List Rat) (i : Int) (a0 a1 : Rat)
    (hF : tr.length + 1 ≤ F) :
    Gen.get_min_dist F x tr i a0 a1 = some (minDist x (tr.drop i.toNat) a0 a1) :=
  get_min_dist_refines F x tr i a0 a1 hF

/-- `dist_at_t` as translated from the source = the model's combination rule -/
theorem generated_dist_at_t_is_model (F : Nat) (isi1 isi2 s1 s2 m : Rat) (ri : Bool) :
    Gen.dist_at_t F isi1 isi2 s1 s2 m ri = some (distAtT isi1 isi2 s1 s2 m ri) :=
  dist_at_t_refines F isi1 isi2 s1 s2 m ri

/-- `spike_distance_python` as translated from the source IS `spikeProfile`, for all non-empty
    arrays — the start-edge quirk of finding F9 included: it is in the source, hence in both models -/
theorem generated_spike_kernel_is_model (F : Nat) (s1 s2 : List Rat) (ts te m : Rat) (ri : Bool)
    (h1 : s1 ≠ []) (h2 : s2 ≠ []) (hF : s1.length + s2.length + 2 ≤ F) :
    Gen.spike_distance_python F s1 s2 ts te m ri = some (spikeProfile s1 s2 ts te m ri) :=
  spike_distance_python_refines F s1 s2 ts te m ri h1 h2 hF

end PySpike.C02

namespace PySpike.C03

/-- `get_tau` as translated from the source = the model's window, for every index pair the scans use -/
theorem generated_get_tau_is_model (F : Nat) (s1 s2 : List Rat) (i j : Int) (mt m : Rat)
    (hi : -1 ≤ i ∧ i < s1.length) (hj : -1 ≤ j ∧ j < s2.length) :
    Gen.get_tau F s1 s2 i j mt m = some (getTauIdx s1 s2 i j mt m) :=
  get_tau_refines F s1 s2 i j mt m hi hj

/-- index form of the window = cursor form used by the scan theorems -/
theorem get_tau_index_form_is_cursor_form (k1 r1 k2 r2 : List Rat) (mt m : Rat) :
    getTauIdx (k1.reverse ++ r1) (k2.reverse ++ r2) ((k1.length : Int) - 1) ((k2.length : Int) - 1) mt m
      = tauAt k1 r1 k2 r2 mt m :=
  getTauIdx_cursor k1 r1 k2 r2 mt m

/-- `coincidence_python` as translated from the source IS `coincProfile`, for ALL arrays (the write
    `c[n-1] = 1` that the source flags "BUG?" included: at `n = 1` it hits the edge entry `c[0]`, which is
    overwritten afterwards) -/
theorem generated_coincidence_kernel_is_model (F : Nat) (s1 s2 : List Rat) (ts te mt m : Rat)
    (hF : s1.length + s2.length + 2 ≤ F) :
    Gen.coincidence_python F s1 s2 ts te mt m = some (unzip3 (coincProfile s1 s2 ts te mt m)) :=
  coincidence_python_refines F s1 s2 ts te mt m hF

/-- `coincidence_single_python` (the filter's indicator) as translated from the source IS `coincSingle` -/
theorem generated_single_kernel_is_model (F : Nat) (s1 s2 : List Rat) (ts te mt m : Rat)
    (hF : s1.length + s2.length + 2 ≤ F) :
    Gen.coincidence_single_python F s1 s2 ts te mt m = some (coincSingle s1 s2 ts te mt m) :=
  coincidence_single_python_refines F s1 s2 ts te mt m hF

end PySpike.C03

namespace PySpike.C04

/-- `spike_train_order_profile_python` as translated from the source IS `orderProfile`, for ALL arrays -/
theorem generated_order_kernel_is_model (F : Nat) (s1 s2 : List Rat) (ts te mt m : Rat)
    (hF : s1.length + s2.length + 2 ≤ F) :
    Gen.spike_train_order_profile_python F s1 s2 ts te mt m
      = some (unzip3 (orderProfile s1 s2 ts te mt m)) :=
  spike_train_order_profile_python_refines F s1 s2 ts te mt m hF

/-- `spike_directionality_profile_python` as translated from the source IS `dirProfile`, for ALL arrays -/
theorem generated_directionality_kernel_is_model (F : Nat) (s1 s2 : List Rat) (ts te mt m : Rat)
    (hF : s1.length + s2.length + 2 ≤ F) :
    Gen.spike_directionality_profile_python F s1 s2 ts te mt m
      = some (dirProfile s1 s2 ts te mt m) :=
  spike_directionality_profile_python_refines F s1 s2 ts te mt m hF

end PySpike.C04

namespace PySpike.C09

/-- `add_piece_wise_const_python` as translated from the source IS `Pwc.add` for well-shaped arrays
    of functions that end at the same point — which `PieceWiseConstFunc.add` asserts before calling it -/
theorem generated_add_pwc_is_model_partial (F : Nat) (x1 y1 x2 y2 : List Rat)
    (h1 : x1.length = y1.length + 1) (h2 : x2.length = y2.length + 1) (hy1 : y1 ≠ []) (hy2 : y2 ≠ [])
    (hlast : lastD x1 0 = lastD x2 0)
    (hF : x1.length + x2.length + 2 ≤ F) :
    Gen.add_piece_wise_const_python F x1 y1 x2 y2
      = some ((Pwc.add ⟨x1, y1⟩ ⟨x2, y2⟩).x, (Pwc.add ⟨x1, y1⟩ ⟨x2, y2⟩).y) :=
  add_piece_wise_const_python_refines_partial F x1 y1 x2 y2 h1 h2 hy1 hy2 hlast hF

/-- Without `hlast` the full statement is FALSE: the code closes the axis with the last point of the
    array that is not exhausted first, the hand-written model always with `x1[-1]` (found by this
    refinement proof; unreachable through the class, which asserts equal end points) -/
theorem generated_add_pwc_full_statement_fails :
    Gen.add_piece_wise_const_python 20 [0, 1] [0] [0, 1, 2] [0, 0] = some ([0, 1, 2], [0, 0]) ∧
    ((Pwc.add ⟨[0, 1], [0]⟩ ⟨[0, 1, 2], [0, 0]⟩).x, (Pwc.add ⟨[0, 1], [0]⟩ ⟨[0, 1, 2], [0, 0]⟩).y)
      = ([0, 1, 1], [0, 0]) :=
  pwc_counterexample

/-- … and this is the only difference: values and all other breakpoints agree for ALL well-shaped arrays -/
theorem generated_add_pwc_general (F : Nat) (x1 y1 x2 y2 : List Rat)
    (h1 : x1.length = y1.length + 1) (h2 : x2.length = y2.length + 1) (hy1 : y1 ≠ []) (hy2 : y2 ≠ [])
    (hF : x1.length + x2.length + 2 ≤ F) :
    Gen.add_piece_wise_const_python F x1 y1 x2 y2
      = some ((Pwc.add ⟨x1, y1⟩ ⟨x2, y2⟩).x.dropLast ++
                [APD.pwcEnd (lastD x1 0) (lastD x2 0) (Pwc.inner ⟨x1, y1⟩) (Pwc.inner ⟨x2, y2⟩)],
              (Pwc.add ⟨x1, y1⟩ ⟨x2, y2⟩).y) :=
  add_piece_wise_const_python_refines_general F x1 y1 x2 y2 h1 h2 hy1 hy2 hF

/-- `add_piece_wise_lin_python` as translated from the source IS `Pwl.add` (same end point) -/
theorem generated_add_pwl_is_model_partial (F : Nat) (x1 y11 y12 x2 y21 y22 : List Rat)
    (h1 : x1.length = y11.length + 1 ∧ y11.length = y12.length ∧ y11 ≠ [])
    (h2 : x2.length = y21.length + 1 ∧ y21.length = y22.length ∧ y21 ≠ [])
    (hlast : lastD x1 0 = lastD x2 0)
    (hF : x1.length + x2.length + 2 ≤ F) :
    Gen.add_piece_wise_lin_python F x1 y11 y12 x2 y21 y22
      = some ((Pwl.add ⟨x1, y11, y12⟩ ⟨x2, y21, y22⟩).x, (Pwl.add ⟨x1, y11, y12⟩ ⟨x2, y21, y22⟩).y1,
              (Pwl.add ⟨x1, y11, y12⟩ ⟨x2, y21, y22⟩).y2) :=
  add_piece_wise_lin_python_refines_partial F x1 y11 y12 x2 y21 y22 h1 h2 hlast hF

/-- … in general: all values and every breakpoint but the closing one agree -/
theorem generated_add_pwl_general (F : Nat) (x1 y11 y12 x2 y21 y22 : List Rat)
    (h1 : x1.length = y11.length + 1 ∧ y11.length = y12.length ∧ y11 ≠ [])
    (h2 : x2.length = y21.length + 1 ∧ y21.length = y22.length ∧ y21 ≠ [])
    (hF : x1.length + x2.length + 2 ≤ F) :
    ∃ lx, (lx = lastD x1 0 ∨ lx = lastD x2 0) ∧
      Gen.add_piece_wise_lin_python F x1 y11 y12 x2 y21 y22
        = some ((Pwl.add ⟨x1, y11, y12⟩ ⟨x2, y21, y22⟩).x.dropLast ++ [lx],
                (Pwl.add ⟨x1, y11, y12⟩ ⟨x2, y21, y22⟩).y1, (Pwl.add ⟨x1, y11, y12⟩ ⟨x2, y21, y22⟩).y2) :=
  add_piece_wise_lin_python_refines_general F x1 y11 y12 x2 y21 y22 h1 h2 hF

end PySpike.C09

namespace PySpike.C11

/-- `add_discrete_function_python` as translated from the source IS `Disc.add`, for all well-shaped arrays -/
theorem generated_add_discrete_is_model (F : Nat) (x1 y1 mp1 x2 y2 mp2 : List Rat)
    (h1 : x1.length = y1.length ∧ x1.length = mp1.length ∧ 2 ≤ x1.length)
    (h2 : x2.length = y2.length ∧ x2.length = mp2.length ∧ 2 ≤ x2.length)
    (hF : x1.length + x2.length + 2 ≤ F) :
    Gen.add_discrete_function_python F x1 y1 mp1 x2 y2 mp2
      = some (unzip3 (Disc.add ⟨zip3 x1 y1 mp1⟩ ⟨zip3 x2 y2 mp2⟩).e) :=
  add_discrete_function_python_refines F x1 y1 mp1 x2 y2 mp2 h1 h2 hF

end PySpike.C11

namespace PySpike.C16

/-- the window routine the `max_tau` theorems are about is the routine of the source -/
theorem generated_get_tau_cursor_is_model (F : Nat) (k1 r1 k2 r2 : List Rat) (mt m : Rat) :
    Gen.get_tau F (k1.reverse ++ r1) (k2.reverse ++ r2) ((k1.length : Int) - 1) ((k2.length : Int) - 1) mt m
      = some (tauAt k1 r1 k2 r2 mt m) :=
  get_tau_cursor F k1 r1 k2 r2 mt m

end PySpike.C16
