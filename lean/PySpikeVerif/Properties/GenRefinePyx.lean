/-
  Properties/GenRefinePyx.lean — C12 at source level.

  `Gen/BackendPyx.lean` is produced mechanically from the five Cython files (`harness/pyx2py.py` for the
  C types and C semantics, then `harness/py2lean.py`), regenerated and compared on every run of C12.
  Every live routine of the compiled backend is proved equal to a hand-written model:
  the Cython-specific ones (single-pass distances, `nu` updated from its old value, own `Interpolate`,
  counters instead of arrays) to `Model/Pyx.lean`, the line-by-line twins to the SAME model as the Python
  routine. Combined with `Properties/GenRefine.lean` (Python source = model) and `Properties/C12.lean`
  (Pyx models = Python models / profile averages) this is
      Cython source  =  Python source          (as Lean functions over ℚ, on the inputs named in each theorem:
                                                non-empty / well-shaped arrays, index pairs the scans use,
                                                functions ending at the same point, RI ∈ {0, 1})
  — what C12 states, up to the compilation of the `.pyx` files, which never happens here, and IEEE
  effects (finding F12 is `NaN·0`, invisible over ℚ). The declared C types of all locals and return values are
  checked against the inferred Lean types by the translator (a `cdef int` that receives a double is rejected).
-/
import PySpikeVerif.Properties.GenRefine
import PySpikeVerif.Proofs.GenRefine.PyxTau
import PySpikeVerif.Proofs.GenRefine.PyxIsi
import PySpikeVerif.Proofs.GenRefine.PyxSpike
import PySpikeVerif.Proofs.GenRefine.PyxSpikeDist
import PySpikeVerif.Proofs.GenRefine.PyxCoinc
import PySpikeVerif.Proofs.GenRefine.PyxValues
import PySpikeVerif.Proofs.GenRefine.PyxOrderDir
import PySpikeVerif.Proofs.GenRefine.PyxAdd
open PySpike PySpike.Gen PySpike.GenPyx PySpike.GenRefine

namespace PySpike.C12

/-! ### the twins: Cython source and Python source are the same function -/

/-- `get_tau`: the Cython routine (its own, differently written `Interpolate`) and the Python routine
    return the same window for every index pair the scans use -/
theorem source_get_tau_twins_agree (F : Nat) (s1 s2 : List Rat) (i j : Int) (mt m : Rat)
    (hi : -1 ≤ i ∧ i < s1.length) (hj : -1 ≤ j ∧ j < s2.length) :
    cython_get_tau.get_tau F s1 s2 i j mt m = Gen.get_tau F s1 s2 i j mt m := by
  rw [pyx_get_tau_refines F s1 s2 i j mt m hi hj, get_tau_refines F s1 s2 i j mt m hi hj]

/-- SPIKE-Sync profile: `coincidence_profile_cython` = `coincidence_python`, all arrays -/
theorem source_coincidence_twins_agree (F : Nat) (s1 s2 : List Rat) (ts te mt m : Rat)
    (hF : s1.length + s2.length + 2 ≤ F) :
    cython_profiles.coincidence_profile_cython F s1 s2 ts te mt m = Gen.coincidence_python F s1 s2 ts te mt m := by
  rw [coincidence_profile_cython_refines F s1 s2 ts te mt m hF, coincidence_python_refines F s1 s2 ts te mt m hF]

/-- the filter's indicator: `coincidence_single_profile_cython` = `coincidence_single_python` -/
theorem source_single_twins_agree (F : Nat) (s1 s2 : List Rat) (ts te mt m : Rat)
    (hF : s1.length + s2.length + 2 ≤ F) :
    cython_profiles.coincidence_single_profile_cython F s1 s2 ts te mt m
      = Gen.coincidence_single_python F s1 s2 ts te mt m := by
  rw [coincidence_single_profile_cython_refines F s1 s2 ts te mt m hF,
    coincidence_single_python_refines F s1 s2 ts te mt m hF]

/-- spike-train-order profile -/
theorem source_order_twins_agree (F : Nat) (s1 s2 : List Rat) (ts te mt m : Rat)
    (hF : s1.length + s2.length + 2 ≤ F) :
    cython_directionality.spike_train_order_profile_cython F s1 s2 ts te mt m
      = Gen.spike_train_order_profile_python F s1 s2 ts te mt m := by
  rw [spike_train_order_profile_cython_refines F s1 s2 ts te mt m hF,
    spike_train_order_profile_python_refines F s1 s2 ts te mt m hF]

/-- directionality profiles -/
theorem source_directionality_twins_agree (F : Nat) (s1 s2 : List Rat) (ts te mt m : Rat)
    (hF : s1.length + s2.length + 2 ≤ F) :
    cython_directionality.spike_directionality_profiles_cython F s1 s2 ts te mt m
      = Gen.spike_directionality_profile_python F s1 s2 ts te mt m := by
  rw [spike_directionality_profiles_cython_refines F s1 s2 ts te mt m hF,
    spike_directionality_profile_python_refines F s1 s2 ts te mt m hF]

/-- `add` of piecewise-constant functions ending at the same point -/
theorem source_add_pwc_twins_agree (F : Nat) (x1 y1 x2 y2 : List Rat)
    (h1 : x1.length = y1.length + 1) (h2 : x2.length = y2.length + 1) (hy1 : y1 ≠ []) (hy2 : y2 ≠ [])
    (hlast : lastD x1 0 = lastD x2 0) (hF : x1.length + x2.length + 2 ≤ F) :
    cython_add.add_piece_wise_const_cython F x1 y1 x2 y2 = Gen.add_piece_wise_const_python F x1 y1 x2 y2 := by
  rw [add_piece_wise_const_cython_refines_partial F x1 y1 x2 y2 h1 h2 hy1 hy2 hlast hF,
    add_piece_wise_const_python_refines_partial F x1 y1 x2 y2 h1 h2 hy1 hy2 hlast hF]

/-- `add` of piecewise-linear functions (explicit `for` loops in Cython, numpy slice arithmetic in Python) -/
theorem source_add_pwl_twins_agree (F : Nat) (x1 y11 y12 x2 y21 y22 : List Rat)
    (h1 : x1.length = y11.length + 1 ∧ y11.length = y12.length ∧ y11 ≠ [])
    (h2 : x2.length = y21.length + 1 ∧ y21.length = y22.length ∧ y21 ≠ [])
    (hlast : lastD x1 0 = lastD x2 0) (hF : x1.length + x2.length + 2 ≤ F) :
    cython_add.add_piece_wise_lin_cython F x1 y11 y12 x2 y21 y22
      = Gen.add_piece_wise_lin_python F x1 y11 y12 x2 y21 y22 := by
  rw [add_piece_wise_lin_cython_refines_partial F x1 y11 y12 x2 y21 y22 h1 h2 hlast hF,
    add_piece_wise_lin_python_refines_partial F x1 y11 y12 x2 y21 y22 h1 h2 hlast hF]

/-- `add` of discrete functions -/
theorem source_add_discrete_twins_agree (F : Nat) (x1 y1 mp1 x2 y2 mp2 : List Rat)
    (h1 : x1.length = y1.length ∧ x1.length = mp1.length ∧ 2 ≤ x1.length)
    (h2 : x2.length = y2.length ∧ x2.length = mp2.length ∧ 2 ≤ x2.length)
    (hF : x1.length + x2.length + 2 ≤ F) :
    cython_add.add_discrete_function_cython F x1 y1 mp1 x2 y2 mp2
      = Gen.add_discrete_function_python F x1 y1 mp1 x2 y2 mp2 := by
  rw [add_discrete_function_cython_refines F x1 y1 mp1 x2 y2 mp2 h1 h2 hF,
    add_discrete_function_python_refines F x1 y1 mp1 x2 y2 mp2 h1 h2 hF]

/-! ### the routines that are written differently: Cython source = its own model (`Model/Pyx.lean`);
    the theorems of `Properties/C12.lean` relate those models to the Python ones -/

theorem source_isi_profile_cython_is_model (F : Nat) (s1 s2 : List Rat) (ts te m : Rat)
    (h1 : s1 ≠ []) (h2 : s2 ≠ []) (hF : s1.length + s2.length + 2 ≤ F) :
    cython_profiles.isi_profile_cython F s1 s2 ts te m = some (isiProfilePyx s1 s2 ts te m) :=
  isi_profile_cython_refines F s1 s2 ts te m h1 h2 hF

/-- the single-pass ISI distance -/
theorem source_isi_distance_cython_is_model (F : Nat) (s1 s2 : List Rat) (ts te m : Rat)
    (h1 : s1 ≠ []) (h2 : s2 ≠ []) (hF : s1.length + s2.length + 2 ≤ F) :
    cython_distances.isi_distance_cython F s1 s2 ts te m = some (isiDistancePyx s1 s2 ts te m) :=
  isi_distance_cython_refines F s1 s2 ts te m h1 h2 hF

theorem source_spike_profile_cython_is_model (F : Nat) (s1 s2 : List Rat) (ts te m : Rat) (ri : Bool)
    (h1 : s1 ≠ []) (h2 : s2 ≠ []) (hF : s1.length + s2.length + 2 ≤ F) :
    cython_profiles.spike_profile_cython F s1 s2 ts te m (if ri then 1 else 0)
      = some (spikeProfilePyx s1 s2 ts te m ri) :=
  spike_profile_cython_refines F s1 s2 ts te m ri h1 h2 hF

/-- the single-pass SPIKE distance -/
theorem source_spike_distance_cython_is_model (F : Nat) (s1 s2 : List Rat) (ts te m : Rat) (ri : Bool)
    (h1 : s1 ≠ []) (h2 : s2 ≠ []) (hF : s1.length + s2.length + 2 ≤ F) :
    cython_distances.spike_distance_cython F s1 s2 ts te m (if ri then 1 else 0)
      = some (spikeDistancePyx s1 s2 ts te m ri) :=
  spike_distance_cython_refines F s1 s2 ts te m ri h1 h2 hF

/-- the three single-pass counters -/
theorem source_coincidence_value_cython_is_model (F : Nat) (s1 s2 : List Rat) (ts te mt m : Rat)
    (hF : s1.length + s2.length + 2 ≤ F) :
    cython_distances.coincidence_value_cython F s1 s2 ts te mt m = some (coincValuePyx s1 s2 ts te mt m) :=
  coincidence_value_cython_refines F s1 s2 ts te mt m hF

theorem source_order_value_cython_is_model (F : Nat) (s1 s2 : List Rat) (ts te mt m : Rat)
    (hF : s1.length + s2.length + 2 ≤ F) :
    (cython_directionality.spike_train_order_cython F s1 s2 ts te mt m).map (fun p => ((p.1 : Rat), (p.2 : Rat)))
      = some (orderValuePyx s1 s2 ts te mt m) :=
  spike_train_order_cython_refines F s1 s2 ts te mt m hF

theorem source_directionality_value_cython_is_model (F : Nat) (s1 s2 : List Rat) (ts te mt m : Rat)
    (hF : s1.length + s2.length + 2 ≤ F) :
    (cython_directionality.spike_directionality_cython F s1 s2 ts te mt m).map (fun d => (d : Rat))
      = some (dirValuePyx s1 s2 ts te mt m) :=
  spike_directionality_cython_refines F s1 s2 ts te mt m hF

end PySpike.C12
