/-
  Properties/C08Spike.lean — C08, time reversal of the SPIKE profile (Proofs/MirrorSpike.lean,
  work package D1). `ψ x = ts + te − x`, mirrored train `B9_mir ts te s = (s.map ψ).reverse`.
  The definition is mirror-symmetric for all valid trains; the computed profile is, except on
  the class of known finding F9 and its mirror image (a train that is exactly one spike on an edge).
-/
import PySpikeVerif.Proofs.MirrorSpike

namespace PySpike.C08
open PySpike PySpike.C01

/-- the SPIKE-distance definition is mirror symmetric: value at the mirrored time, other side -/
theorem spike_definition_mirror (t1 t2 : List Q) (ts te m : Q) (ri : Bool) (t : Q) (right : Bool)
    (h1 : ValidNE t1 ts te) (h2 : ValidNE t2 ts te) (hlt : ts < te) :
    spikeSpec (B9_mir ts te t1) (B9_mir ts te t2) ts te m ri (B9_psi ts te t) (!right)
      = spikeSpec t1 t2 ts te m ri t right := spikeSpec_mirror t1 t2 ts te m ri t right h1 h2 hlt

/-- the computed SPIKE profile of the mirrored trains is the mirror image: breakpoints mirrored,
    `y1` and `y2` exchanged and reversed (no train is a single spike on an edge) -/
theorem spike_profile_mirror_partial (t1 t2 : List Q) (ts te m : Q) (ri : Bool)
    (h1 : ValidNE t1 ts te) (h2 : ValidNE t2 ts te) (hlt : ts < te)
    (hn1 : t1 ≠ [ts] ∧ t1 ≠ [te]) (hn2 : t2 ≠ [ts] ∧ t2 ≠ [te]) :
    (spikeProfile (B9_mir ts te t1) (B9_mir ts te t2) ts te m ri).1
        = B9_mir ts te (spikeProfile t1 t2 ts te m ri).1 ∧
    (spikeProfile (B9_mir ts te t1) (B9_mir ts te t2) ts te m ri).2.1
        = (spikeProfile t1 t2 ts te m ri).2.2.reverse ∧
    (spikeProfile (B9_mir ts te t1) (B9_mir ts te t2) ts te m ri).2.2
        = (spikeProfile t1 t2 ts te m ri).2.1.reverse :=
  spikeProfile_mirror t1 t2 ts te m ri h1 h2 hlt hn1 hn2

/-- the excluded class is exactly F9 and its mirror image -/
theorem spike_mirror_excluded_class (s : List Q) (ts te : Q) :
    (¬ OneSpikeOnStart s ts ∧ ¬ OneSpikeOnStart (B9_mir ts te s) ts) ↔ (s ≠ [ts] ∧ s ≠ [te]) :=
  D1_excluded_iff s ts te

/-- … so the SPIKE distance is unchanged by time reversal (API level, empty trains included) -/
theorem spike_distance_mirror_partial (kw : Kw) (a b : Train) (hrec : kw.recon = false)
    (hiv : kw.interval = none) (ha : ValidTrain a) (hb : ValidTrain b)
    (hts : b.ts = a.ts) (hte : b.te = a.te)
    (hna : a.spikes ≠ [a.ts] ∧ a.spikes ≠ [a.te]) (hnb : b.spikes ≠ [b.ts] ∧ b.spikes ≠ [b.te]) :
    spikeDistanceBi kw (D1_mirror a) (D1_mirror b) = spikeDistanceBi kw a b :=
  spikeDistanceBi_mirror kw a b hrec hiv ha hb hts hte hna hnb

example : ValidNE [1, 3] 0 6 ∧ ValidNE [2, 3, 6] 0 6 ∧ ([1, 3] : List Q) ≠ [0] ∧ ([1, 3] : List Q) ≠ [6] := by
  refine ⟨⟨by decide, by decide +kernel, by decide +kernel⟩, ⟨by decide, by decide +kernel, by decide +kernel⟩, by decide, by decide⟩

end PySpike.C08
