/-
  Properties/WaveH.lean — C15: the MRTS laws of the SPIKE profile for ALL valid trains (work package
  H1; generated with tools/restate.py from lean/restate/H1.spec; statements verbatim from
  Proofs/MrtsAll.lean). The `…_partial` forms of C15Mrts.lean / WaveF6.lean / WaveG.lean excluded the
  class of finding F9 only because their proofs went through the specification; these do not.
-/
import PySpikeVerif.Proofs.MrtsAll

namespace PySpike.C15
open PySpike PySpike.C01

/-- raising MRTS never raises any value of the SPIKE profile and keeps its breakpoints — ALL valid trains, the F9 class included (no exclusion) -/
theorem spike_profile_antitone (t1 t2 : List Q) (ts te m1 m2 : Q) (ri : Bool)
    (h1 : ValidNE t1 ts te) (h2 : ValidNE t2 ts te) (hlt : ts < te) (hm : m1 ≤ m2) :
    (spikeProfile t1 t2 ts te m1 ri).1 = (spikeProfile t1 t2 ts te m2 ri).1 ∧
    List.Forall₂ (· ≥ ·) (spikeProfile t1 t2 ts te m1 ri).2.1 (spikeProfile t1 t2 ts te m2 ri).2.1 ∧
    List.Forall₂ (· ≥ ·) (spikeProfile t1 t2 ts te m1 ri).2.2 (spikeProfile t1 t2 ts te m2 ri).2.2 :=
  _root_.PySpike.H1_spikeProfile_antitone_mrts t1 t2 ts te m1 m2 ri h1 h2 hlt hm

/-- an MRTS not above the mean current interval length at any time leaves the SPIKE profile as with MRTS = 0 — all valid trains -/
theorem spike_profile_small_mrts (t1 t2 : List Q) (ts te m : Q) (ri : Bool)
    (h1 : ValidNE t1 ts te) (h2 : ValidNE t2 ts te) (hlt : ts < te)
    (hm : ∀ t, ts ≤ t → t < te → m ≤ (nuAt t1 ts te t + nuAt t2 ts te t) / 2) :
    spikeProfile t1 t2 ts te m ri = spikeProfile t1 t2 ts te 0 ri :=
  _root_.PySpike.H1_spikeProfile_small_mrts t1 t2 ts te m ri h1 h2 hlt hm

/-- … in the form "MRTS not above any inter-spike interval of either train" -/
theorem spike_profile_small_mrts_lengths (t1 t2 : List Q) (ts te m : Q) (ri : Bool)
    (h1 : ValidNE t1 ts te) (h2 : ValidNE t2 ts te) (hlt : ts < te)
    (hm : ∀ ν ∈ isiListSpec t1 ts te ++ isiListSpec t2 ts te, m ≤ ν) :
    spikeProfile t1 t2 ts te m ri = spikeProfile t1 t2 ts te 0 ri :=
  _root_.PySpike.H1_spikeProfile_small_mrts_lengths t1 t2 ts te m ri h1 h2 hlt hm

/-- with MRTS = 0 every value of the SPIKE profile is 0 or the non-adaptive combination of non-negative nearest-spike distances with the current interval lengths ν of the two trains — all valid trains -/
theorem spike_profile_zero_mrts_values (t1 t2 : List Q) (ts te : Q) (ri : Bool)
    (h1 : ValidNE t1 ts te) (h2 : ValidNE t2 ts te) (hlt : ts < te) :
    ∀ v ∈ (spikeProfile t1 t2 ts te 0 ri).2.1 ++ (spikeProfile t1 t2 ts te 0 ri).2.2,
      H1_Plain t1 t2 ts te ri v :=
  _root_.PySpike.H1_spikeProfile_zero_mrts_values t1 t2 ts te ri h1 h2 hlt

/-- public bivariate SPIKE profile antitone in MRTS (same x; y1, y2; both one-sided limits at every time), every other keyword fixed, no exclusion -/
theorem spike_profile_api_antitone (kw : Kw) (m1 m2 : Q) (a b : Train)
    (ha : ValidTrain a) (hb : ValidTrain b) (hts : b.ts = a.ts) (hte : b.te = a.te) (hm : m1 ≤ m2) :
    (spikeProfileBi { kw with mrts := m1 } a b).x = (spikeProfileBi { kw with mrts := m2 } a b).x ∧
    List.Forall₂ (· ≥ ·) (spikeProfileBi { kw with mrts := m1 } a b).y1
      (spikeProfileBi { kw with mrts := m2 } a b).y1 ∧
    List.Forall₂ (· ≥ ·) (spikeProfileBi { kw with mrts := m1 } a b).y2
      (spikeProfileBi { kw with mrts := m2 } a b).y2 ∧
    (∀ t, a.ts ≤ t → t < a.te → ∃ v1 v2,
      (spikeProfileBi { kw with mrts := m1 } a b).evalR t = some v1 ∧
      (spikeProfileBi { kw with mrts := m2 } a b).evalR t = some v2 ∧ v2 ≤ v1) ∧
    (∀ t, a.ts < t → t ≤ a.te → ∃ v1 v2,
      (spikeProfileBi { kw with mrts := m1 } a b).evalL t = some v1 ∧
      (spikeProfileBi { kw with mrts := m2 } a b).evalL t = some v2 ∧ v2 ≤ v1) :=
  _root_.PySpike.H1_spike_profile_antitone kw m1 m2 a b ha hb hts hte hm

/-- … the multivariate SPIKE profile, no exclusion -/
theorem spike_multi_profile_antitone (kw : Kw) (m1 m2 : Q) (L : List Train) (ts te : Q)
    (hv : B5_ValidList ts te L) (h2 : 2 ≤ L.length) (hm : m1 ≤ m2) :
    (spikeProfileMulti { kw with mrts := m1 } none L).x
      = (spikeProfileMulti { kw with mrts := m2 } none L).x ∧
    List.Forall₂ (· ≥ ·) (spikeProfileMulti { kw with mrts := m1 } none L).y1
      (spikeProfileMulti { kw with mrts := m2 } none L).y1 ∧
    List.Forall₂ (· ≥ ·) (spikeProfileMulti { kw with mrts := m1 } none L).y2
      (spikeProfileMulti { kw with mrts := m2 } none L).y2 ∧
    (∀ t, ts ≤ t → t < te → ∃ v1 v2,
      (spikeProfileMulti { kw with mrts := m1 } none L).evalR t = some v1 ∧
      (spikeProfileMulti { kw with mrts := m2 } none L).evalR t = some v2 ∧ v2 ≤ v1) ∧
    (∀ t, ts < t → t ≤ te → ∃ v1 v2,
      (spikeProfileMulti { kw with mrts := m1 } none L).evalL t = some v1 ∧
      (spikeProfileMulti { kw with mrts := m2 } none L).evalL t = some v2 ∧ v2 ≤ v1) :=
  _root_.PySpike.H1_spike_multi_profile_antitone kw m1 m2 L ts te hv h2 hm

/-- … the bivariate SPIKE distance -/
theorem spike_distance_antitone (kw : Kw) (m1 m2 : Q) (a b : Train)
    (ha : ValidTrain a) (hb : ValidTrain b) (hts : b.ts = a.ts) (hte : b.te = a.te)
    (hiv : F6_IvOK a.te kw.interval) (hm : m1 ≤ m2) :
    F6_OptGe (spikeDistanceBi { kw with mrts := m1 } a b)
      (spikeDistanceBi { kw with mrts := m2 } a b) :=
  _root_.PySpike.H1_spike_distance_antitone kw m1 m2 a b ha hb hts hte hiv hm

/-- … the multivariate SPIKE distance -/
theorem spike_distance_multi_antitone (kw : Kw) (m1 m2 : Q) (L : List Train) (ts te : Q)
    (hv : B5_ValidList ts te L) (hne : L ≠ []) (hiv : F6_IvOK te kw.interval) (hm : m1 ≤ m2) :
    F6_OptGe (spikeDistanceMulti { kw with mrts := m1 } none L)
      (spikeDistanceMulti { kw with mrts := m2 } none L) :=
  _root_.PySpike.H1_spike_distance_multi_antitone kw m1 m2 L ts te hv hne hiv hm

/-- … every entry of the SPIKE distance matrix -/
theorem spike_distance_matrix_antitone (kw : Kw) (m1 m2 : Q) (L : List Train) (ts te : Q)
    (hv : B5_ValidList ts te L) (hne : L ≠ []) (hiv : F6_IvOK te kw.interval) (hm : m1 ≤ m2)
    (M1 M2 : List (List Q))
    (h1 : spikeDistanceMatrix { kw with mrts := m1 } none L = some M1)
    (h2 : spikeDistanceMatrix { kw with mrts := m2 } none L = some M2)
    (i j : Nat) (hi : i < L.length) (hj : j < L.length) :
    (M2.getD i []).getD j 0 ≤ (M1.getD i []).getD j 0 :=
  _root_.PySpike.H1_spike_distance_matrix_antitone kw m1 m2 L ts te hv hne hiv hm M1 M2 h1 h2 i j hi hj

/-- small MRTS leaves the public SPIKE profile unchanged, no exclusion -/
theorem spike_profile_small_mrts_api (kw : Kw) (m : Q) (a b : Train)
    (ha : ValidTrain a) (hb : ValidTrain b) (hts : b.ts = a.ts) (hte : b.te = a.te)
    (hm : ∀ ν ∈ isiListSpec a.spikes a.ts a.te ++ isiListSpec b.spikes a.ts a.te, m ≤ ν) :
    spikeProfileBi { kw with mrts := m } a b = spikeProfileBi { kw with mrts := 0 } a b :=
  _root_.PySpike.H1_spike_profile_small_mrts_api kw m a b ha hb hts hte hm

/-- … the multivariate SPIKE profile -/
theorem spike_multi_profile_small_mrts (kw : Kw) (m : Q) (L : List Train) (ts te : Q)
    (hv : B5_ValidList ts te L) (h2 : 2 ≤ L.length)
    (hm : ∀ ν ∈ L.flatMap (fun t => isiListSpec t.spikes ts te), m ≤ ν) :
    spikeProfileMulti { kw with mrts := m } none L = spikeProfileMulti { kw with mrts := 0 } none L :=
  _root_.PySpike.H1_spike_multi_profile_small_mrts kw m L ts te hv h2 hm

/-- … the multivariate ISI profile -/
theorem isi_multi_profile_small_mrts (kw : Kw) (m : Q) (L : List Train) (ts te : Q)
    (hv : B5_ValidList ts te L) (h2 : 2 ≤ L.length)
    (hm : ∀ ν ∈ L.flatMap (fun t => isiListSpec t.spikes ts te), m ≤ ν) :
    isiProfileMulti { kw with mrts := m } none L = isiProfileMulti { kw with mrts := 0 } none L :=
  _root_.PySpike.H1_isi_multi_profile_small_mrts kw m L ts te hv h2 hm

end PySpike.C15

