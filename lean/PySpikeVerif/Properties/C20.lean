/-
  Properties/C20.lean — merging and histogramming conserve every spike.
  Model: `mergeTrains`, `psthCounts`, `poissonFrom` (Model/Api.lean). Proofs: Proofs/Merge.lean.
-/
import PySpikeVerif.Proofs.Merge

namespace PySpike.C20
open PySpike

/-- the merged spike times are exactly the multiset union of all input spike times
    (duplicates across trains kept, empty trains contribute nothing) … -/
theorem merge_is_multiset_union (L : List Train) :
    (mergeTrains L).spikes.Perm (L.flatMap (·.spikes)) := mergeTrains_perm L
theorem merge_counts (L : List Train) (x : Q) :
    (mergeTrains L).spikes.count x = (L.flatMap (·.spikes)).count x := mergeTrains_count L x
/-- … sorted … -/
theorem merge_sorted (L : List Train) : (mergeTrains L).spikes.Pairwise (· ≤ ·) := mergeTrains_sorted L
/-- … on the first train's interval -/
theorem merge_interval (f : Train) (r : List Train) :
    (mergeTrains (f :: r)).ts = f.ts ∧ (mergeTrains (f :: r)).te = f.te := mergeTrains_edges rfl

/-- PSTH: `n` equally wide bins spanning the recording -/
theorem psth_bins (f : Train) (r : List Train) (n k : Nat) (hn : 0 < n) (hk : k < n) :
    (psthCounts (f :: r) n).1.length = n + 1 ∧ (psthCounts (f :: r) n).2.length = n ∧
    (psthCounts (f :: r) n).1.getD 0 0 = f.ts ∧ (psthCounts (f :: r) n).1.getD n 0 = f.te ∧
    (psthCounts (f :: r) n).1.getD (k+1) 0 - (psthCounts (f :: r) n).1.getD k 0 = (f.te - f.ts) / n :=
  ⟨psth_edges_len _ n, psth_counts_len _ n, psth_edge_first f r n hn, psth_edge_last f r n hn,
   psth_widths f r n k hk⟩

/-- the bin values sum to the total number of spikes inside the recording -/
theorem psth_conserves_spikes (f : Train) (r : List Train) (n : Nat) (hn : 0 < n) (hlt : f.ts < f.te) :
    qsum (psthCounts (f :: r) n).2 =
      ((((f :: r).flatMap (·.spikes)).filter (fun t => f.ts ≤ t ∧ t ≤ f.te)).length : Nat) :=
  psth_total f r n hn hlt

/-- generated Poisson trains (for any stream of non-negative inter-spike intervals): sorted and
    inside the requested interval -/
theorem poisson_sorted_inside {tS tE : Q} {ivs : List Q} (h : ∀ d ∈ ivs, 0 ≤ d) :
    (poissonFrom tS tE ivs).Pairwise (· ≤ ·) ∧ ∀ x ∈ poissonFrom tS tE ivs, tS ≤ x ∧ x < tE :=
  ⟨poissonFrom_sorted h, poissonFrom_inside h⟩

example : ((psthCounts [⟨[1, 4], 0, 4⟩, ⟨[], 0, 4⟩, ⟨[4, 2], 0, 4⟩] 2).2) = [1, 3] := by decide +kernel
example : ∀ d ∈ [(1:Q), 1/2, 3], 0 ≤ d := by decide +kernel

end PySpike.C20
