/-
  Properties/WaveE.lean — wave E:
  C02 / C07 / C18 (Proofs/SpikeRangeAll.lean): the SPIKE profile and distances lie in [0, 1] for ALL
      valid trains — the class of known finding F9 included (there the scan is not the definition,
      but its values are still bounded);
  C19 (Proofs/TextLaws.lean): laws of the printed decimal value and of the text round trip.
-/
import PySpikeVerif.Proofs.SpikeRangeAll
import PySpikeVerif.Proofs.TextLaws

namespace PySpike.C07
open PySpike PySpike.C01

/-- range of the SPIKE profile: every value of the scan lies in [0, 1] — all valid trains, every
    MRTS, plain and RI; NO exclusion -/
theorem spike_profile_range (t1 t2 : List Q) (ts te m : Q) (ri : Bool)
    (h1 : ValidNE t1 ts te) (h2 : ValidNE t2 ts te) (hlt : ts < te) :
    ∀ v ∈ (spikeProfile t1 t2 ts te m ri).2.1 ++ (spikeProfile t1 t2 ts te m ri).2.2, 0 ≤ v ∧ v ≤ 1 :=
  spikeProfile_range_all t1 t2 ts te m ri h1 h2 hlt

/-- … at the API (every keyword combination) … -/
theorem spike_profile_api_range (kw : Kw) (a b : Train) (ha : ValidTrain a) (hb : ValidTrain b)
    (hts : b.ts = a.ts) (hte : b.te = a.te) :
    (∀ v ∈ (spikeProfileBi kw a b).y1, 0 ≤ v ∧ v ≤ 1) ∧ (∀ v ∈ (spikeProfileBi kw a b).y2, 0 ≤ v ∧ v ≤ 1) :=
  E1_spikeProfileBi_range_all kw a b ha hb hts hte

/-- … so the SPIKE distance lies in [0, 1] (whole recording and sub-intervals `x < y ≤ t_end`) -/
theorem spike_distance_range (kw : Kw) (a b : Train) (ha : ValidTrain a) (hb : ValidTrain b)
    (hts : b.ts = a.ts) (hte : b.te = a.te)
    (hiv : ∀ x y, kw.interval = some (x, y) → x < y ∧ y ≤ a.te) :
    ∀ d, spikeDistanceBi kw a b = some d → 0 ≤ d ∧ d ≤ 1 :=
  E1_spikeDistanceBi_range_all kw a b ha hb hts hte hiv

/-- multivariate SPIKE profile, distance and matrix in [0, 1], no exclusion -/
theorem spike_multi_range (kw : Kw) (L : List Train) (ts te : Q)
    (hv : B5_ValidList ts te L) (h2 : 2 ≤ L.length)
    (hiv : ∀ x y, kw.interval = some (x, y) → x < y ∧ y ≤ te) :
    ((∀ v ∈ (spikeProfileMulti kw none L).y1, 0 ≤ v ∧ v ≤ 1) ∧
     (∀ v ∈ (spikeProfileMulti kw none L).y2, 0 ≤ v ∧ v ≤ 1)) ∧
    ∀ d, spikeDistanceMulti kw none L = some d → 0 ≤ d ∧ d ≤ 1 :=
  ⟨E1_spikeProfileMulti_range_all kw L ts te hv h2, E1_spikeDistanceMulti_range_all kw L ts te hv h2 hiv⟩

theorem spike_matrix_range (kw : Kw) (L : List Train) (ts te : Q)
    (hv : B5_ValidList ts te L) (hne : L ≠ [])
    (hiv : ∀ x y, kw.interval = some (x, y) → x < y ∧ y ≤ te) (M : List (List Q))
    (h : spikeDistanceMatrix kw none L = some M) (i j : Nat) (hi : i < L.length) (hj : j < L.length) :
    (i = j → (M.getD i []).getD j 0 = 0) ∧
    0 ≤ (M.getD i []).getD j 0 ∧ (M.getD i []).getD j 0 ≤ 1 :=
  E1_spikeDistanceMatrix_range_all kw L ts te hv hne hiv M h i j hi hj

/-- the hypotheses are met by a pair inside the F9 class -/
example : ValidNE [0] 0 6 ∧ ValidNE [0, 4] 0 6 ∧ OneSpikeOnStart [0] 0 := by
  refine ⟨⟨by decide, by decide +kernel, by decide +kernel⟩, ⟨by decide, by decide +kernel, by decide +kernel⟩, ?_⟩
  unfold OneSpikeOnStart; decide +kernel

end PySpike.C07

namespace PySpike.C02
open PySpike

/-- the computed SPIKE profile takes values in [0, 1] for ALL valid trains (inside the F9 class the
    values differ from the definition, `full_statement_fails`, but stay in range) -/
theorem values_in_unit_interval (t1 t2 : List Q) (ts te m : Q) (ri : Bool)
    (h1 : ValidNE t1 ts te) (h2 : ValidNE t2 ts te) (hlt : ts < te) :
    ∀ v ∈ (spikeProfile t1 t2 ts te m ri).2.1 ++ (spikeProfile t1 t2 ts te m ri).2.2, 0 ≤ v ∧ v ≤ 1 :=
  spikeProfile_range_all t1 t2 ts te m ri h1 h2 hlt

end PySpike.C02

namespace PySpike.C18
open PySpike PySpike.C01

/-- finite and bounded: every SPIKE value any public function returns for valid trains lies in
    [0, 1] — degenerate trains (one spike on an edge) included -/
theorem spike_values_bounded (kw : Kw) (a b : Train) (ha : ValidTrain a) (hb : ValidTrain b)
    (hts : b.ts = a.ts) (hte : b.te = a.te) :
    (∀ v ∈ (spikeProfileBi kw a b).y1, 0 ≤ v ∧ v ≤ 1) ∧ (∀ v ∈ (spikeProfileBi kw a b).y2, 0 ≤ v ∧ v ≤ 1) :=
  E1_spikeProfileBi_range_all kw a b ha hb hts hte

end PySpike.C18

namespace PySpike.C19
open PySpike

/-- values the exponent search of the model handles exactly: 0 or 10^-400 ≤ |x| < 10^400
    (every finite double is inside) -/
def Printable (x : Q) : Prop := x = 0 ∨ (pow10 (-400) ≤ |x| ∧ |x| < pow10 400)

theorem printable_iff (x : Q) : Printable x ↔ E2_Printable x := Iff.rfl

/-- printing is odd, keeps the sign and never prints a non-zero value as 0 -/
theorem printed_value_sign (p : Nat) (x : Q) :
    roundSci p (-x) = - roundSci p x ∧ roundSci p 0 = 0 ∧
    (pow10 (-400) ≤ |x| → (0 < x → 0 < roundSci p x) ∧ (x < 0 → roundSci p x < 0)) :=
  ⟨roundSci_neg p x, roundSci_zero p, fun h => roundSci_sign p h⟩

/-- printing is monotone: a sorted train is saved as a sorted line … -/
theorem printed_value_monotone (p : Nat) {x y : Q} (hx : Printable x) (hy : Printable y) (h : x ≤ y) :
    roundSci p x ≤ roundSci p y := roundSci_mono p hx hy h

/-- … so loading a saved list of sorted trains returns exactly the printed values, train by train -/
theorem load_save_sorted (p : Nat) (trains : List (List Q))
    (hs : ∀ s ∈ trains, s.Pairwise (· ≤ ·)) (hr : ∀ s ∈ trains, ∀ x ∈ s, Printable x) :
    loadLines false (saveLines p trains) = trains.map (List.map (roundSci p)) :=
  E2_load_save_sorted p trains hs hr

/-- printing a printed value changes nothing; a second save of what was loaded writes the same file -/
theorem printed_value_idempotent (p : Nat) {x : Q} (hx : Printable x) :
    roundSci p (roundSci p x) = roundSci p x := roundSci_idem p hx

theorem second_round_trip_identical (p : Nat) (trains : List (List Q))
    (hr : ∀ s ∈ trains, ∀ x ∈ s, Printable x) :
    saveLines p (loadLines false (saveLines p trains)) = saveLines p (trains.map sortQ) :=
  E2_save_load_save p trains hr

/-- a value with at most `p+1` significant decimal digits is printed exactly -/
theorem printed_value_exact (p : Nat) (x : Q) (k e : Int) (hx : x = (k : Q) * pow10 (e - p))
    (hk1 : (10 : Int) ^ p ≤ |k|) (hk2 : |k| < (10 : Int) ^ (p + 1))
    (hlo : -400 ≤ e) (hhi : e ≤ 400) : roundSci p x = x :=
  E2_roundSci_exact_digits p x k e hx hk1 hk2 hlo hhi

/-- relative accuracy `|printed − x| ≤ |x|·10^(−p)/2`; two spikes whose relative distance exceeds
    `10^(−p)` are never printed equal -/
theorem printed_value_relative_accuracy (p : Nat) {x : Q} (hx : x = 0 ∨ pow10 (-400) ≤ |x|) :
    |roundSci p x - x| ≤ |x| * pow10 (-(p : Int)) / 2 := E2_roundSci_rel_accuracy p hx

theorem resolved_spikes_stay_distinct (p : Nat) {x y : Q} (hx : x = 0 ∨ pow10 (-400) ≤ |x|)
    (hy : y = 0 ∨ pow10 (-400) ≤ |y|) (h : max |x| |y| * pow10 (-(p : Int)) < |x - y|) :
    roundSci p x ≠ roundSci p y := E2_roundSci_separates p hx hy h

end PySpike.C19
