/-
  Properties/C05.lean — every scalar measure equals the average of its profile over the same
  interval. Bivariate forms: by construction of the pure-Python route (the scalar *is* the
  profile's `avrg`/`integral`), stated here so that a change of the API model that breaks it breaks
  a proof. Multivariate forms and the single-pass Cython routines: Proofs/MultiLaws.lean and
  Proofs/PyxEq.lean (work packages B5, B3) once merged.
-/
import PySpikeVerif.Model.Api
import PySpikeVerif.Proofs.Basic

namespace PySpike.C05
open PySpike

theorem isi_distance_is_profile_average (kw : Kw) (a b : Train) :
    isiDistanceBi kw a b = pwcAvrgKw (isiProfileBi kw a b) kw.interval := rfl
theorem spike_distance_is_profile_average (kw : Kw) (a b : Train) :
    spikeDistanceBi kw a b = pwlAvrgKw (spikeProfileBi kw a b) kw.interval := rfl
/-- SPIKE-Sync = summed profile values / summed multiplicities over the interval -/
theorem spike_sync_is_profile_ratio (kw : Kw) (a b : Train) :
    spikeSyncBi kw a b = (discIntegralKw (syncProfileBi kw a b) kw.interval).map syncRatio := rfl
/-- the profile-side convention (`DiscreteFunc.avrg`: 1 when `mp ≤ 0`) and the scalar-side convention
    (`spike_sync_bi`: 1 when `mp == 0`) agree for non-negative multiplicity: when no spike falls into
    the averaging interval SPIKE-Sync is 1 -/
theorem sync_conventions_agree (c mp : Q) (h : 0 ≤ mp) : syncRatio (c, mp) = discRatio (c, mp) := by
  unfold syncRatio discRatio
  by_cases h0 : mp = 0
  · simp [h0]
  · have : 0 < mp := lt_of_le_of_ne h (Ne.symm h0)
    simp [h0, this]
theorem sync_empty_interval_is_one (c : Q) : syncRatio (c, 0) = 1 := by simp [syncRatio]
/-- spike-train order = summed profile values / summed multiplicities (whole recording) -/
theorem order_is_profile_ratio (kw : Kw) (a b : Train) :
    spikeTrainOrderBi kw true a b =
      (let vm := (orderProfileBi { kw with recon := true } a b).integralAll
       if vm.2 = 0 then 1 else vm.1 / vm.2) := rfl
/-- whole-recording averages divide the integral by the length of the support -/
theorem avrg_none_pwc (f : Pwc) : pwcAvrgKw f none = some (f.integralAll / (lastD f.x 0 - f.x.headD 0)) := rfl
theorem avrg_none_pwl (f : Pwl) : pwlAvrgKw f none = some (f.integralAll / (lastD f.x 0 - f.x.headD 0)) := rfl

end PySpike.C05
