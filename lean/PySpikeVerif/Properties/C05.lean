/-
  Properties/C05.lean — every scalar measure equals the average of its profile over the same
  interval. Bivariate forms: by construction of the pure-Python route (the scalar *is* the
  profile's `avrg`/`integral`), stated here so that a change of the API model that breaks it breaks
  a proof. Multivariate forms and the single-pass Cython routines: Proofs/MultiLaws.lean and
  Proofs/PyxEq.lean (work packages B5, B3) once merged.
-/
import PySpikeVerif.Model.Api
import PySpikeVerif.Proofs.Basic
import PySpikeVerif.Proofs.MultiLaws
import PySpikeVerif.Proofs.PyxEq

namespace PySpike.C05
open PySpike

theorem isi_distance_is_profile_average (kw : Kw) (a b : Train) :
    isiDistanceBi kw a b = pwcAvrgKw (isiProfileBi kw a b) kw.interval := rfl
theorem spike_distance_is_profile_average (kw : Kw) (a b : Train) :
    spikeDistanceBi kw a b = pwlAvrgKw (spikeProfileBi kw a b) kw.interval := rfl
/-- SPIKE-Sync = summed profile values / summed multiplicities over the interval -/
theorem spike_sync_is_profile_ratio (kw : Kw) (a b : Train) :
    spikeSyncBi kw a b = (discIntegralKw (syncProfileBi kw a b) kw.interval).map syncRatio := rfl
/-- the profile-side convention (`DiscreteFunc.avrg`: 1 when `mp ≤ 0`) and the scalar-side convention
    (`spike_sync_bi`: 1 when `mp == 0`) agree for non-negative multiplicity: when no spike falls into
    the averaging interval SPIKE-Sync is 1 -/
theorem sync_conventions_agree (c mp : Q) (h : 0 ≤ mp) : syncRatio (c, mp) = discRatio (c, mp) := by
  unfold syncRatio discRatio
  by_cases h0 : mp = 0
  · simp [h0]
  · have : 0 < mp := lt_of_le_of_ne h (Ne.symm h0)
    simp [h0, this]
theorem sync_empty_interval_is_one (c : Q) : syncRatio (c, 0) = 1 := by simp [syncRatio]
/-- spike-train order = summed profile values / summed multiplicities (whole recording) -/
theorem order_is_profile_ratio (kw : Kw) (a b : Train) :
    spikeTrainOrderBi kw true a b =
      (let vm := (orderProfileBi { kw with recon := true } a b).integralAll
       if vm.2 = 0 then 1 else vm.1 / vm.2) := rfl
/-- whole-recording averages divide the integral by the length of the support -/
theorem avrg_none_pwc (f : Pwc) : pwcAvrgKw f none = some (f.integralAll / (lastD f.x 0 - f.x.headD 0)) := rfl
theorem avrg_none_pwl (f : Pwl) : pwlAvrgKw f none = some (f.integralAll / (lastD f.x 0 - f.x.headD 0)) := rfl

/-! ### any number of trains (Proofs/MultiLaws.lean, work package B5) -/

/-- multivariate ISI distance (whole recording) = average of the multivariate ISI profile, for every
    list of ≥ 2 valid trains on a common interval and every keyword record -/
theorem isi_multi_distance_is_profile_average (kw : Kw) (L : List Train) (ts te : Q)
    (hi : kw.interval = none) (hv : B5_ValidList ts te L) (h2 : 2 ≤ L.length) :
    isiDistanceMulti kw none L = some ((isiProfileMulti kw none L).avrgAll) :=
  isiDistanceMulti_eq_avrg_profile_anyRecon kw L ts te hi hv h2

/-- multivariate SPIKE distance = average of the multivariate SPIKE profile, given that the pair
    profiles are well formed on the common interval (well-formedness of the SPIKE scan output is
    part of work package B4) — `_partial` in that sense -/
theorem spike_multi_distance_is_profile_average_partial (kw : Kw) (L : List Train) (ts te : Q)
    (hr : kw.recon = false) (hi : kw.interval = none) (h2 : 2 ≤ L.length)
    (hleaf : ∀ p ∈ pairsOf (List.range L.length),
      B5_PwlOn ts te (spikeProfileBi kw (tr L p.1) (tr L p.2))) :
    spikeDistanceMulti kw none L = some ((spikeProfileMulti kw none L).avrgAll) :=
  spikeDistanceMulti_eq_avrg_profile kw L ts te hr hi h2 hleaf

/-- multivariate SPIKE-Sync = total coincidences / total multiplicity of the multivariate profile
    (any list of ≥ 2 trains, any keywords, reconciliation on or off) -/
theorem sync_multi_is_profile_ratio (kw : Kw) (L : List Train)
    (hi : kw.interval = none) (h2 : 2 ≤ L.length) :
    spikeSyncMulti kw none L = some (syncRatio ((syncProfileMulti kw none L).integralAll)) :=
  spikeSyncMulti_eq_ratio_profile kw L hi h2

/-- multivariate spike-train order = summed values / summed multiplicities of the multivariate
    order profile (default reconciliation) -/
theorem order_multi_is_profile_ratio (kw : Kw) (L : List Train) (hr : kw.recon = true)
    (h2 : 2 ≤ L.length) :
    spikeTrainOrderMulti kw none L = syncRatio ((orderProfileMulti kw none L).integralAll) :=
  spikeTrainOrderMulti_eq_ratio_profile kw L hr h2

/-! ### compiled kernels importable: the single-pass routines equal averaging the profile
    (Proofs/PyxEq.lean, work package B3; in ℚ — the IEEE NaN of finding F12 excepted) -/
theorem isi_single_pass_is_profile_average (s1 s2 : List Q) (ts te m : Q) :
    isiDistancePyx s1 s2 ts te m = (Pwc.mk (isiProfile s1 s2 ts te m).1 (isiProfile s1 s2 ts te m).2).avrgAll :=
  B3_isiDistancePyx_eq_avrg_all s1 s2 ts te m
theorem spike_single_pass_is_profile_average (t1 t2 : List Q) (ts te m : Q) (ri : Bool) :
    spikeDistancePyx t1 t2 ts te m ri
      = (Pwl.mk (spikeProfile t1 t2 ts te m ri).1 (spikeProfile t1 t2 ts te m ri).2.1
                (spikeProfile t1 t2 ts te m ri).2.2).avrgAll :=
  spikeDistancePyx_eq_avrg_py t1 t2 ts te m ri

end PySpike.C05
