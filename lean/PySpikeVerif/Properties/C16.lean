/-
  Properties/C16.lean — max_tau is an upper bound on the coincidence window.

  Every coincidence test of the four scans (`coincidence_python`, `coincidence_single_python`,
  `spike_directionality_profile_python`, `spike_train_order_profile_python`) has the form
  `d < get_tau(…, true_max, MRTS)` with `d` the distance of the two spikes and
  `true_max = min(T, 2·max_tau)`. The theorems below bound that window.
-/
import PySpikeVerif.Proofs.TauLaws
import PySpikeVerif.Proofs.SyncScan

namespace PySpike.C16
open PySpike

/-- with `max_tau > 0` the window at any cursor position of any scan is at most `max_tau`, for every
    MRTS: two spikes `max_tau` or more apart fail the strict test `d < tau` -/
theorem window_le_max_tau (k1 r1 k2 r2 : List Q) (ts te mt mrts : Q) (h : 0 < mt) :
    tauAt k1 r1 k2 r2 (trueMax ts te mt) mrts ≤ mt :=
  tauAt_le_maxTau k1 r1 k2 r2 ts te mt mrts h

theorem far_spikes_not_coincident (k1 r1 k2 r2 : List Q) (ts te mt mrts d : Q) (h : 0 < mt)
    (hd : mt ≤ d) : ¬ d < tauAt k1 r1 k2 r2 (trueMax ts te mt) mrts :=
  fun hlt => absurd (lt_of_lt_of_le hlt (window_le_max_tau k1 r1 k2 r2 ts te mt mrts h))
    (not_lt.mpr hd)

/-- the same bound for `get_tau` called with explicit indices (the form the correspondence check
    exercises) -/
theorem getTau_bound (p1 c1 n1 p2 c2 n2 : Option Q) (ts te mt mrts : Q) (h : 0 < mt) :
    getTau p1 c1 n1 p2 c2 n2 (trueMax ts te mt) mrts ≤ mt :=
  le_trans (getTau_le_half _ _ _ _ _ _ _ _) (trueMax_half_le ts te mt h)

/-- enlarging `max_tau` never shrinks the window, so never removes a coincidence … -/
theorem window_mono_max_tau (k1 r1 k2 r2 : List Q) (ts te mt1 mt2 mrts : Q) (h1 : 0 < mt1)
    (h : mt1 ≤ mt2) :
    tauAt k1 r1 k2 r2 (trueMax ts te mt1) mrts ≤ tauAt k1 r1 k2 r2 (trueMax ts te mt2) mrts :=
  tauAt_mono_maxTau _ _ _ _ _ _ _ (trueMax_mono ts te mt1 mt2 h1 h)

/-- … and `max_tau = 0` (the value `None` is mapped to by every API function) is the unbounded
    case: its window dominates the window of every `max_tau` -/
theorem window_le_unbounded (k1 r1 k2 r2 : List Q) (ts te mt mrts : Q) :
    tauAt k1 r1 k2 r2 (trueMax ts te mt) mrts ≤ tauAt k1 r1 k2 r2 (trueMax ts te 0) mrts :=
  tauAt_mono_maxTau _ _ _ _ _ _ _ (trueMax_le_unbounded ts te mt)

/-- unbounded means: `true_max` is the recording length -/
theorem trueMax_zero (ts te : Q) : trueMax ts te 0 = te - ts := by
  unfold trueMax; simp

/-- **profile level**: with `max_tau > 0`, two spikes that the definition counts as coincident are
    strictly closer than `max_tau`; since the SPIKE-Sync profile, the order profile, the filter
    indicator (Properties/C03, C04) ARE this definition for all valid trains, no spike `max_tau` or
    more away from every spike of the other train is ever marked -/
theorem coincident_implies_within_max_tau (s1 s2 : List Q) (ts te mt m a b : Q) (h : 0 < mt)
    (hc : Coinc s1 s2 (trueMax ts te mt) m a b) : qabs (a - b) < mt :=
  lt_of_lt_of_le hc (le_trans (getTau_le_half _ _ _ _ _ _ _ _) (trueMax_half_le ts te mt h))

/-- enlarging max_tau never removes a coincidence (pairwise definition) -/
theorem coincidence_monotone_in_max_tau (s1 s2 : List Q) (ts te mt1 mt2 m a b : Q) (h1 : 0 < mt1)
    (h12 : mt1 ≤ mt2) (hc : Coinc s1 s2 (trueMax ts te mt1) m a b) :
    Coinc s1 s2 (trueMax ts te mt2) m a b :=
  lt_of_lt_of_le hc (getTau_mono_maxTau _ _ _ _ _ _ _ _ _ (trueMax_mono ts te mt1 mt2 h1 h12))

/-- … and the unbounded setting (`None` / 0) has every coincidence of every max_tau -/
theorem coincidence_unbounded (s1 s2 : List Q) (ts te mt m a b : Q)
    (hc : Coinc s1 s2 (trueMax ts te mt) m a b) : Coinc s1 s2 (trueMax ts te 0) m a b :=
  lt_of_lt_of_le hc (getTau_mono_maxTau _ _ _ _ _ _ _ _ _ (trueMax_le_unbounded ts te mt))

/-! non-vacuity / regression witness: the input of finding F4
    (`[10,20,30]` vs `[13,23,33]` on `[0,40]`, `max_tau = 1`) has no coincidence in the model -/
example : (coincProfile [10, 20, 30] [13, 23, 33] 0 40 1 0).map (·.2.1) = [0, 0, 0, 0, 0, 0, 0, 0] := by
  decide +kernel
-- without max_tau the same spikes (3 apart, half-ISI 5) are all coincident
example : (coincProfile [10, 20, 30] [13, 23, 33] 0 40 0 0).map (·.2.1) = [1, 1, 1, 1, 1, 1, 1, 1] := by
  decide +kernel
example : (coincProfile [10, 20, 30] [11, 23, 33] 0 40 2 0).map (·.2.1) = [1, 1, 1, 0, 0, 0, 0, 0] := by
  decide +kernel

end PySpike.C16
