/-
  Properties/C09Hist.lean — C09 (and C11) for histories of operations, all three function classes.
  Generic state-machine refinement: Proofs/History.lean (work package B7), instantiated for
  piecewise-constant, piecewise-linear and discrete function objects. `run alg init ops` applies any
  sequence of `add i j` / `mul_scalar i c` / `copy i` to the store `init`; `gstep` computes the
  coefficient vectors the same sequence prescribes symbolically.
-/
import PySpikeVerif.Proofs.History

namespace PySpike.C09
open PySpike PySpike.B7

/-- **piecewise linear**: after ANY sequence of add / mul_scalar / copy every object is well formed on
    the common interval and its right limit, left limit and integral are the prescribed linear
    combination of the initial functions -/
theorem pwl_history_refines (a b : Q) (init : List Pwl) (ops : List Op)
    (hok : ∀ f ∈ init, f.WF ∧ f.first = a ∧ f.last = b) :
    (∀ f ∈ B7.run pwlAlg init ops, f.WF ∧ f.first = a ∧ f.last = b) ∧
    (B7.run pwlAlg init ops).length = (ops.foldl (B7.gstep id) (unitVecs init.length)).length ∧
    ∀ k (hk : k < (B7.run pwlAlg init ops).length),
      ((ops.foldl (B7.gstep id) (unitVecs init.length)).getD k []).length = init.length ∧
      (∀ t, a ≤ t → t < b → ((B7.run pwlAlg init ops)[k]).evalR t = some (qsum (List.zipWith
        (fun c f => c * (f.evalR t).getD 0)
        ((ops.foldl (B7.gstep id) (unitVecs init.length)).getD k []) init))) ∧
      (∀ t, a < t → t ≤ b → ((B7.run pwlAlg init ops)[k]).evalL t = some (qsum (List.zipWith
        (fun c f => c * (f.evalL t).getD 0)
        ((ops.foldl (B7.gstep id) (unitVecs init.length)).getD k []) init))) ∧
      ((B7.run pwlAlg init ops)[k]).integralAll = qsum (List.zipWith
        (fun c f => c * f.integralAll)
        ((ops.foldl (B7.gstep id) (unitVecs init.length)).getD k []) init) :=
  pwl_history a b init ops hok

/-- **piecewise constant**, same statement incl. left limits and integral -/
theorem pwc_history_refines_full (a b : Q) (init : List Pwc) (ops : List Op)
    (hok : ∀ f ∈ init, f.WF ∧ f.first = a ∧ f.last = b) :
    (∀ f ∈ B7.run pwcAlg init ops, f.WF ∧ f.first = a ∧ f.last = b) ∧
    (B7.run pwcAlg init ops).length = (ops.foldl (B7.gstep id) (unitVecs init.length)).length ∧
    ∀ k (hk : k < (B7.run pwcAlg init ops).length),
      ((ops.foldl (B7.gstep id) (unitVecs init.length)).getD k []).length = init.length ∧
      (∀ t, a ≤ t → t < b → ((B7.run pwcAlg init ops)[k]).evalR t = some (qsum (List.zipWith
        (fun c f => c * (f.evalR t).getD 0)
        ((ops.foldl (B7.gstep id) (unitVecs init.length)).getD k []) init))) ∧
      (∀ t, a < t → t ≤ b → ((B7.run pwcAlg init ops)[k]).evalL t = some (qsum (List.zipWith
        (fun c f => c * (f.evalL t).getD 0)
        ((ops.foldl (B7.gstep id) (unitVecs init.length)).getD k []) init))) ∧
      ((B7.run pwcAlg init ops)[k]).integralAll = qsum (List.zipWith
        (fun c f => c * f.integralAll)
        ((ops.foldl (B7.gstep id) (unitVecs init.length)).getD k []) init) :=
  pwc_history a b init ops hok

/-- copies are independent of their originals, and the added operand is never modified (any of
    the three classes; `A` is the algebra) -/
theorem copies_independent (A : FuncAlg) (st : List A.F) (i j : Nat) (c : Q) (hi : i < st.length) :
    (B7.step A (B7.step A st (.copy i)) (.add i j)).getD st.length A.dflt = st.getD i A.dflt ∧
    (B7.step A (B7.step A st (.copy i)) (.mul i c)).getD st.length A.dflt = st.getD i A.dflt ∧
    (B7.step A (B7.step A st (.copy i)) (.add st.length j)).getD i A.dflt = st.getD i A.dflt ∧
    (B7.step A (B7.step A st (.copy i)) (.mul st.length c)).getD i A.dflt = st.getD i A.dflt :=
  copy_independent A st i j c hi

end PySpike.C09

namespace PySpike.C11
open PySpike PySpike.B7 PySpike.C09

/-- **discrete profiles**: after any sequence of add / mul_scalar / copy the value at every event
    time is the prescribed combination of the initial values and the multiplicity the prescribed
    combination of the initial multiplicities (`mul_scalar` scales values only) -/
theorem disc_history_values (a b : Q) (init : List Disc) (ops : List Op)
    (hok : ∀ f ∈ init, f.WF ∧ discFirst f = a ∧ discLast f = b)
    (k : Nat) (hk : k < (B7.run discAlg init ops).length) (t : Q) :
    (((B7.run discAlg init ops)[k]).at t).1 = qsum (List.zipWith
        (fun c f => c * (f.at t).1)
        ((ops.foldl (B7.gstep id) (unitVecs init.length)).getD k []) init) ∧
    (((B7.run discAlg init ops)[k]).at t).2 = qsum (List.zipWith
        (fun c f => c * (f.at t).2)
        ((ops.foldl (B7.gstep fun _ => 1) (unitVecs init.length)).getD k []) init) :=
  ⟨((disc_history a b init ops hok).2.2.2 k hk).2.2.1 t, ((disc_history a b init ops hok).2.2.2 k hk).2.2.2.1 t⟩

end PySpike.C11
