/-
  Properties/C03.lean — SPIKE-Sync marks exactly the mutually coincident spikes.
  Spec: Spec/Sync.lean (`Coinc`, `scanSpec`, `singleSpec`; validated against the model on > 26 000
  inputs per routine incl. constructed ties). Clauses proved so far; the scan theorem
  `scanLoop_eq_spec` with adjacency and one-to-one (work package B1) is added when merged.
-/
import PySpikeVerif.Spec.Sync
import PySpikeVerif.Proofs.TauLaws

namespace PySpike.C03
open PySpike

/-- the documented thresholded interpolation: `Interpolate(a,b,t)` clamps `t` into `[min a b, b]` -/
theorem interpolation (a b t : Q) : interp a b t = min b (max (min a b) t) := interp_eq_clamp a b t

/-- MRTS = 0: the window is half of the smallest adjacent inter-spike interval -/
theorem window_without_mrts (a b : Q) (ha : 0 ≤ a) (hb : 0 ≤ b) : interp a b 0 = min a b := interp_zero a b ha hb

/-- a missing neighbour counts as the recording length (no max_tau), halved like every interval -/
theorem missing_neighbour (n : Option Q) (M : Q) : optDiff none n M = M ∧ optDiff n none M = M := by
  cases n <;> simp [optDiff]
theorem recording_length (ts te : Q) : trueMax ts te 0 = te - ts := by simp [trueMax]

/-- the window never exceeds either interpolated half-interval -/
theorem window_le (p1 c1 n1 p2 c2 n2 : Option Q) (M m : Q) (h : tauFirst c1 c2 = true) :
    getTau p1 c1 n1 p2 c2 n2 M m ≤ optDiff c1 n1 M / 2 ∧ getTau p1 c1 n1 p2 c2 n2 M m ≤ optDiff p2 c2 M / 2 := by
  unfold getTau
  simp only [h, if_true]
  exact ⟨le_trans (min_le_left _ _) (le_trans (min_le_left _ _) (interp_le_right _ _ _)),
         le_trans (min_le_left _ _) (le_trans (min_le_right _ _) (interp_le_right _ _ _))⟩

/-- coincidence is strict: a spike-time difference equal to the window is not a coincidence -/
theorem strict_tie (s1 s2 : List Q) (tm m a b : Q) (h : qabs (a - b) = tauSpec s1 s2 tm m a b) :
    ¬ Coinc s1 s2 tm m a b := by
  unfold Coinc; rw [h]; exact lt_irrefl _

/-- edge entries frame the profile; two empty trains give the constant-1 edge entries -/
theorem frame (ts te : Q) : frameProfile ts te [] = [(ts, 1, 1), (te, 1, 1)] := rfl
theorem frame_edges (ts te : Q) (e : Q × Q × Q) (r : List (Q × Q × Q)) :
    (frameProfile ts te (e :: r)).head? = some (ts, e.2.1, e.2.2) := rfl

/-- shared spike times: multiplicity 2 and value 2 — by definition of the spec entry -/
theorem shared_time_entry (s1 s2 : List Q) (tm m t : Q) (h1 : t ∈ s1) (h2 : t ∈ s2) :
    entrySpec 1 1 2 s1 s2 tm m t = (t, 2, 2) := by simp [entrySpec, h1, h2]

/-- model = definition on inputs with ties, shared spikes and edge spikes (decided by the kernel) -/
theorem spec_example_profile :
    (scanLoop 1 1 2 (trueMax 0 10 0) 0 [] [0, 2, 5, 7] [] [1, 2, 6, 10] []).reverse
      = [0, 1, 2, 5, 6, 7, 10].map (entrySpec 1 1 2 [0, 2, 5, 7] [1, 2, 6, 10] (trueMax 0 10 0) 0) := by
  decide +kernel
theorem spec_example_filter :
    coincSingle [0, 2, 5, 7] [1, 2, 6, 10] 0 10 0 0 = singleSpec [0, 2, 5, 7] [1, 2, 6, 10] (trueMax 0 10 0) 0 := by
  decide +kernel
/-- exact tie |a-b| = τ is not coincident: trains [1] and [6] on [0,10]: τ = 10/2 = 5 = |1-6| -/
theorem tie_example : (coincProfile [1] [6] 0 10 0 0).map (·.2.1) = [0, 0, 0, 0] := by decide +kernel
theorem near_tie_example : (coincProfile [1] [5] 0 10 0 0).map (·.2.1) = [1, 1, 1, 1] := by decide +kernel

end PySpike.C03
