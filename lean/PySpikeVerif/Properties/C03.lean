/-
  Properties/C03.lean — SPIKE-Sync marks exactly the mutually coincident spikes.
  Spec: Spec/Sync.lean (`Coinc`, `scanSpec`, `singleSpec`; validated against the model on > 26 000
  inputs per routine incl. constructed ties). Clauses proved so far; the scan theorem
  `scanLoop_eq_spec` with adjacency and one-to-one (work package B1) is added when merged.
-/
import PySpikeVerif.Spec.Sync
import PySpikeVerif.Proofs.TauLaws
import PySpikeVerif.Proofs.SyncScan

namespace PySpike.C03
open PySpike

/-- the documented thresholded interpolation: `Interpolate(a,b,t)` clamps `t` into `[min a b, b]` -/
theorem interpolation (a b t : Q) : interp a b t = min b (max (min a b) t) := interp_eq_clamp a b t

/-- MRTS = 0: the window is half of the smallest adjacent inter-spike interval -/
theorem window_without_mrts (a b : Q) (ha : 0 ≤ a) (hb : 0 ≤ b) : interp a b 0 = min a b := interp_zero a b ha hb

/-- a missing neighbour counts as the recording length (no max_tau), halved like every interval -/
theorem missing_neighbour (n : Option Q) (M : Q) : optDiff none n M = M ∧ optDiff n none M = M := by
  cases n <;> simp [optDiff]
theorem recording_length (ts te : Q) : trueMax ts te 0 = te - ts := by simp [trueMax]

/-- the window never exceeds either interpolated half-interval -/
theorem window_le (p1 c1 n1 p2 c2 n2 : Option Q) (M m : Q) (h : tauFirst c1 c2 = true) :
    getTau p1 c1 n1 p2 c2 n2 M m ≤ optDiff c1 n1 M / 2 ∧ getTau p1 c1 n1 p2 c2 n2 M m ≤ optDiff p2 c2 M / 2 := by
  unfold getTau
  simp only [h, if_true]
  exact ⟨le_trans (min_le_left _ _) (le_trans (min_le_left _ _) (interp_le_right _ _ _)),
         le_trans (min_le_left _ _) (le_trans (min_le_right _ _) (interp_le_right _ _ _))⟩

/-- coincidence is strict: a spike-time difference equal to the window is not a coincidence -/
theorem strict_tie (s1 s2 : List Q) (tm m a b : Q) (h : qabs (a - b) = tauSpec s1 s2 tm m a b) :
    ¬ Coinc s1 s2 tm m a b := by
  unfold Coinc; rw [h]; exact lt_irrefl _

/-- edge entries frame the profile; two empty trains give the constant-1 edge entries -/
theorem frame (ts te : Q) : frameProfile ts te [] = [(ts, 1, 1), (te, 1, 1)] := rfl
theorem frame_edges (ts te : Q) (e : Q × Q × Q) (r : List (Q × Q × Q)) :
    (frameProfile ts te (e :: r)).head? = some (ts, e.2.1, e.2.2) := rfl

/-- shared spike times: multiplicity 2 and value 2 — by definition of the spec entry -/
theorem shared_time_entry (s1 s2 : List Q) (tm m t : Q) (h1 : t ∈ s1) (h2 : t ∈ s2) :
    entrySpec 1 1 2 s1 s2 tm m t = (t, 2, 2) := by simp [entrySpec, h1, h2]

/-- model = definition on inputs with ties, shared spikes and edge spikes (decided by the kernel) -/
theorem spec_example_profile :
    (scanLoop 1 1 2 (trueMax 0 10 0) 0 [] [0, 2, 5, 7] [] [1, 2, 6, 10] []).reverse
      = [0, 1, 2, 5, 6, 7, 10].map (entrySpec 1 1 2 [0, 2, 5, 7] [1, 2, 6, 10] (trueMax 0 10 0) 0) := by
  decide +kernel
theorem spec_example_filter :
    coincSingle [0, 2, 5, 7] [1, 2, 6, 10] 0 10 0 0 = singleSpec [0, 2, 5, 7] [1, 2, 6, 10] (trueMax 0 10 0) 0 := by
  decide +kernel
/-- exact tie |a-b| = τ is not coincident: trains [1] and [6] on [0,10]: τ = 10/2 = 5 = |1-6| -/
theorem tie_example : (coincProfile [1] [6] 0 10 0 0).map (·.2.1) = [0, 0, 0, 0] := by decide +kernel
theorem near_tie_example : (coincProfile [1] [5] 0 10 0 0).map (·.2.1) = [1, 1, 1, 1] := by decide +kernel

/-! ### the scan theorems (Proofs/SyncScan.lean, work package B1) — for all strictly increasing trains,
    every max_tau and MRTS, no bound on the number of spikes -/

/-- **the bivariate SPIKE-Sync profile is the pairwise definition**: one entry per distinct spike
    time in increasing order — (t, 2, 2) where both trains spike at `t`, otherwise multiplicity 1
    and value 1 exactly when the other train has a spike closer than the coincidence window —
    framed by the two edge entries -/
theorem profile_is_pairwise_definition (s1 s2 : List Q) (ts te mt m : Q)
    (h1 : StrictSorted s1) (h2 : StrictSorted s2) :
    coincProfile s1 s2 ts te mt m = frameProfile ts te (scanSpec 1 1 2 s1 s2 (trueMax ts te mt) m) :=
  coincProfile_eq_spec s1 s2 ts te mt m h1 h2

/-- the per-spike coincidence indicator used by the filter agrees with the same definition -/
theorem filter_indicator_is_pairwise_definition (s1 s2 : List Q) (ts te mt m : Q)
    (h1 : StrictSorted s1) (h2 : StrictSorted s2) :
    coincSingle s1 s2 ts te mt m = singleSpec s1 s2 (trueMax ts te mt) m :=
  coincSingle_eq_spec s1 s2 ts te mt m h1 h2

/-- the window is at most half of each inter-spike interval between the two spikes' neighbours -/
theorem window_le_half_isi (s1 s2 : List Q) (tm m a b : Q) :
    (b < a → (∀ p, predOf s1 a = some p → tauSpec s1 s2 tm m a b ≤ (a - p) / 2) ∧
             (∀ f, succOf s2 b = some f → tauSpec s1 s2 tm m a b ≤ (f - b) / 2)) ∧
    (a ≤ b → (∀ f, succOf s1 a = some f → tauSpec s1 s2 tm m a b ≤ (f - a) / 2) ∧
             (∀ p, predOf s2 b = some p → tauSpec s1 s2 tm m a b ≤ (b - p) / 2)) :=
  coinc_window_le_half_isi s1 s2 tm m a b

/-- coincident spikes are neighbours: no spike of either train lies strictly between them (so the
    scan, which only ever compares neighbouring events, misses nothing — and the "BUG?" comment in
    the source is harmless: the overwritten previous entry is always the partner's) -/
theorem coincident_spikes_adjacent (s1 s2 : List Q) (tm m a b : Q) (h1 : StrictSorted s1)
    (h2 : StrictSorted s2) (hc : Coinc s1 s2 tm m a b) (ha : a ∈ s1) (hb : b ∈ s2) (hab : a ≠ b) :
    ∀ x, x ∈ s1 ∨ x ∈ s2 → ¬ (min a b < x ∧ x < max a b) :=
  coinc_adjacent s1 s2 tm m a b h1 h2 hc ha hb hab

/-- coincidence is one-to-one … -/
theorem one_to_one (s1 s2 : List Q) (tm m : Q) (h1 : StrictSorted s1) (h2 : StrictSorted s2) :
    (∀ a b b', Coinc s1 s2 tm m a b → Coinc s1 s2 tm m a b' → a ∈ s1 → b ∈ s2 → b' ∈ s2 →
        a ≠ b → a ≠ b' → b = b') ∧
    (∀ a a' b, Coinc s1 s2 tm m a b → Coinc s1 s2 tm m a' b → a ∈ s1 → a' ∈ s1 → b ∈ s2 →
        a ≠ b → a' ≠ b → a = a') := coinc_one_to_one s1 s2 tm m h1 h2

/-- … so both trains contribute the same number of coincident spikes -/
theorem equal_counts (s1 s2 : List Q) (tm m : Q) (h1 : StrictSorted s1) (h2 : StrictSorted s2) :
    (scanSpec 1 1 2 s1 s2 tm m).countP (fun e => decide (e.1 ∈ s1 ∧ e.1 ∉ s2 ∧ e.2.1 = 1)) =
    (scanSpec 1 1 2 s1 s2 tm m).countP (fun e => decide (e.1 ∈ s2 ∧ e.1 ∉ s1 ∧ e.2.1 = 1)) :=
  coinc_counts_equal s1 s2 tm m h1 h2

end PySpike.C03
