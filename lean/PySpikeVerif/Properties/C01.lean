/-
  Properties/C01.lean — ISI-profile equals the ISI-distance definition for every pair of trains.

  Model: `isiProfile` (= `isi_distance_python`), `isiProfileBi` (= `pyspike.isi_profile(st1, st2)`).
  Spec : `nuAt`, `isiSpec` (Spec/Isi.lean).
  Quantifier: all valid trains (sorted, duplicate-free, inside [ts,te], ts < te), empty trains,
  one-spike trains, spikes on an edge, shared spike times, every MRTS (no sign condition needed).
-/
import PySpikeVerif.Proofs.Isi
import PySpikeVerif.Model.Api

namespace PySpike.C01

open PySpike

/-- a valid spike train object: strictly increasing spikes inside `[ts, te]`, `ts < te` -/
def ValidTrain (t : Train) : Prop :=
  t.ts < t.te ∧ t.spikes.Pairwise (· < ·) ∧ ∀ x ∈ t.spikes, t.ts ≤ x ∧ x ≤ t.te

theorem nonEmpty_valid (t : Train) (h : ValidTrain t) : ValidNE t.nonEmpty t.ts t.te := by
  obtain ⟨hlt, hs, hb⟩ := h
  unfold Train.nonEmpty
  by_cases he : t.spikes.isEmpty
  · simp only [he, if_true, hlt]
    refine ⟨by simp, by simp [hlt], ?_⟩
    intro x hx
    simp at hx
    rcases hx with hx | hx <;> subst hx
    · exact ⟨le_refl _, le_of_lt hlt⟩
    · exact ⟨le_of_lt hlt, le_refl _⟩
  · have he' : t.spikes ≠ [] := by simpa using he
    simp only [he]
    exact ⟨he', hs, hb⟩

/-- a train without spikes counts as one interval spanning the whole recording -/
theorem nuAt_empty (ts te t : Q) : nuAt [] ts te t = te - ts := by
  simp [nuAt]

/-- … and the auxiliary representation `[ts, te]` the kernels receive for it has the same
    interval length at every time of the recording -/
theorem nuAt_aux (ts te t : Q) (h1 : ts ≤ t) (h2 : t < te) : nuAt [ts, te] ts te t = te - ts := by
  have := nuAt_split [] [te] ts ts te t (by simp) h1 (by simpa using h2)
  simpa [nuAfter] using this

theorem nuAt_nonEmpty (tr : Train) (t : Q) (hv : ValidTrain tr) (h1 : tr.ts ≤ t) (h2 : t < tr.te) :
    nuAt tr.nonEmpty tr.ts tr.te t = nuAt tr.spikes tr.ts tr.te t := by
  unfold Train.nonEmpty
  by_cases he : tr.spikes.isEmpty
  · have : tr.spikes = [] := by simpa using he
    simp only [if_true, hv.1, this, nuAt_empty]
    exact nuAt_aux _ _ _ h1 h2
  · simp [he]

/-- **C01 (values)**. For valid trains on a common interval the profile returned by
    `isi_profile(st1, st2, MRTS=m)` (reconciliation off: the input is already valid) has one value
    per piece, and on the piece `[x_k, x_{k+1})` that value is `|ν₁-ν₂| / max(ν₁, ν₂, m)` with `νₙ`
    the length of train n's inter-spike interval containing the time (edge rule and empty-train rule
    inside `nuAt`). -/
theorem isi_profile_values (a b : Train) (m : Q) (ha : ValidTrain a) (hb : ValidTrain b)
    (hts : b.ts = a.ts) (hte : b.te = a.te) :
    (isiProfileBi { mrts := m, recon := false } a b).y.length + 1
      = (isiProfileBi { mrts := m, recon := false } a b).x.length ∧
    ∀ k (hk : k < (isiProfileBi { mrts := m, recon := false } a b).y.length)
      (hk1 : k + 1 < (isiProfileBi { mrts := m, recon := false } a b).x.length) (t : Q),
      (isiProfileBi { mrts := m, recon := false } a b).x[k]'(by omega) ≤ t →
      t < (isiProfileBi { mrts := m, recon := false } a b).x[k+1] →
      (isiProfileBi { mrts := m, recon := false } a b).y[k]
        = isiVal (nuAt a.spikes a.ts a.te t) (nuAt b.spikes a.ts a.te t) m := by
  have hva := nonEmpty_valid a ha
  have hvb := nonEmpty_valid b hb
  rw [hts, hte] at hvb
  have hm := isiProfile_matches a.nonEmpty b.nonEmpty a.ts a.te m hva hvb
  have hbr := isiProfile_breaks a.nonEmpty b.nonEmpty a.ts a.te m ha.1 hva hvb
  have hf : isiProfileBi { mrts := m, recon := false } a b =
      ⟨(isiProfile a.nonEmpty b.nonEmpty a.ts a.te m).1,
       (isiProfile a.nonEmpty b.nonEmpty a.ts a.te m).2⟩ := by
    simp [isiProfileBi, prepBi]
  suffices key : ∀ f : Pwc, f = ⟨(isiProfile a.nonEmpty b.nonEmpty a.ts a.te m).1,
       (isiProfile a.nonEmpty b.nonEmpty a.ts a.te m).2⟩ →
      (f.y.length + 1 = f.x.length ∧
       ∀ k (hk : k < f.y.length) (hk1 : k + 1 < f.x.length) (t : Q),
        f.x[k]'(by omega) ≤ t → t < f.x[k+1] →
        f.y[k] = isiVal (nuAt a.spikes a.ts a.te t) (nuAt b.spikes a.ts a.te t) m) from key _ hf
  intro f hf'
  subst hf'
  refine ⟨hm.1, ?_⟩
  intro k hk hk1 t h1 h2
  have hv := hm.2 k hk hk1 t h1 h2
  rw [hv]
  unfold isiSpec
  -- the piece lies inside the recording
  have hin : ∀ x ∈ (isiProfile a.nonEmpty b.nonEmpty a.ts a.te m).1, a.ts ≤ x ∧ x ≤ a.te := by
    intro x hx
    rcases (hbr.2 x).mp hx with hx | hx | ⟨hx1, hx2, _⟩
    · rw [hx]; exact ⟨le_refl _, le_of_lt ha.1⟩
    · rw [hx]; exact ⟨le_of_lt ha.1, le_refl _⟩
    · exact ⟨le_of_lt hx1, le_of_lt hx2⟩
  have ht1 : a.ts ≤ t := le_trans (hin _ (List.getElem_mem _)).1 h1
  have ht2 : t < a.te := lt_of_lt_of_le h2 (hin _ (List.getElem_mem _)).2
  rw [nuAt_nonEmpty a t ha ht1 ht2]
  have hb' : nuAt b.nonEmpty b.ts b.te t = nuAt b.spikes b.ts b.te t :=
    nuAt_nonEmpty b t hb (by rw [hts]; exact ht1) (by rw [hte]; exact ht2)
  rw [hts, hte] at hb'
  rw [hb']

/-- **C01 (breakpoints)**. The breakpoints are strictly increasing and are exactly the two interval
    edges plus every distinct spike time of either train strictly inside the interval. -/
theorem isi_profile_breakpoints (a b : Train) (m : Q) (ha : ValidTrain a) (hb : ValidTrain b)
    (hts : b.ts = a.ts) (hte : b.te = a.te) :
    ((isiProfileBi { mrts := m, recon := false } a b).x).Pairwise (· < ·) ∧
    ∀ x, x ∈ (isiProfileBi { mrts := m, recon := false } a b).x ↔
      x = a.ts ∨ x = a.te ∨ (a.ts < x ∧ x < a.te ∧ (x ∈ a.spikes ∨ x ∈ b.spikes)) := by
  have hva := nonEmpty_valid a ha
  have hvb := nonEmpty_valid b hb
  rw [hts, hte] at hvb
  have hbr := isiProfile_breaks a.nonEmpty b.nonEmpty a.ts a.te m ha.1 hva hvb
  have hf : (isiProfileBi { mrts := m, recon := false } a b).x =
      (isiProfile a.nonEmpty b.nonEmpty a.ts a.te m).1 := by
    simp [isiProfileBi, prepBi]
  rw [hf]
  refine ⟨hbr.1, ?_⟩
  intro x
  rw [hbr.2 x]
  have hmem : ∀ (tr : Train), tr.ts = a.ts → tr.te = a.te → a.ts < x → x < a.te →
      (x ∈ tr.nonEmpty ↔ x ∈ tr.spikes) := by
    intro tr h1 h2 hx1 hx2
    unfold Train.nonEmpty
    by_cases he : tr.spikes.isEmpty
    · have hnil : tr.spikes = [] := by simpa using he
      rw [if_pos he, h1, h2, if_pos ha.1, hnil]
      constructor
      · intro h
        rcases List.mem_cons.mp h with h | h
        · exact absurd h (ne_of_gt hx1)
        · rcases List.mem_cons.mp h with h | h
          · exact absurd h (ne_of_lt hx2)
          · exact absurd h (by simp)
      · intro h; exact absurd h (by simp)
    · rw [if_neg he]
  constructor
  · rintro (h | h | ⟨h1, h2, h3⟩)
    · exact Or.inl h
    · exact Or.inr (Or.inl h)
    · refine Or.inr (Or.inr ⟨h1, h2, ?_⟩)
      rw [hmem a rfl rfl h1 h2, hmem b hts hte h1 h2] at h3
      exact h3
  · rintro (h | h | ⟨h1, h2, h3⟩)
    · exact Or.inl h
    · exact Or.inr (Or.inl h)
    · refine Or.inr (Or.inr ⟨h1, h2, ?_⟩)
      rw [hmem a rfl rfl h1 h2, hmem b hts hte h1 h2]
      exact h3

/-- the ratio itself: `|ν₁-ν₂| / max(ν₁, ν₂, MRTS)` -/
theorem isiVal_def (nu1 nu2 m : Q) : isiVal nu1 nu2 m = |nu1 - nu2| / max (max nu1 nu2) m := by
  unfold isiVal; rw [qabs_eq_abs]

/-! ### non-vacuity: concrete inputs that meet the hypotheses and exercise every clause -/

def exA : Train := ⟨[1, 3, 4], 0, 6⟩
def exB : Train := ⟨[2, 3, 6], 0, 6⟩
example : ValidTrain exA ∧ ValidTrain exB ∧ exB.ts = exA.ts ∧ exB.te = exA.te := by
  refine ⟨⟨by decide, by decide, by decide⟩, ⟨by decide, by decide, by decide⟩, rfl, rfl⟩
example : (isiProfileBi { mrts := 0, recon := false } exA exB).x = [0, 1, 2, 3, 4, 6] := by decide +kernel
example : (isiProfileBi { mrts := 0, recon := false } exA exB).y = [0, 0, 1/2, 2/3, 1/3] := by decide +kernel
-- empty train, one-spike train on the edge
example : ValidTrain ⟨[], 0, 4⟩ ∧ ValidTrain ⟨[4], 0, 4⟩ :=
  ⟨⟨by decide, by decide, by decide⟩, ⟨by decide, by decide, by decide⟩⟩
example : (isiProfileBi { mrts := 0, recon := false } ⟨[], 0, 4⟩ ⟨[4], 0, 4⟩).x = [0, 4] := by decide +kernel

end PySpike.C01
