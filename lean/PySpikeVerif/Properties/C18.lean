/-
  Properties/C18.lean — every valid input yields a finite, well-formed result.
  In the rational model "finite" means: every denominator of every emitted value is positive
  (Lean's `x/0 = 0` must not make anything true for the wrong reason). Absence of exceptions is
  monitored by the harness (any exception on a valid input is a disagreement with the total model).
-/
import PySpikeVerif.Properties.C01
import PySpikeVerif.Properties.C07
import PySpikeVerif.Proofs.SpikeLaws
import PySpikeVerif.Proofs.SpikeScan
import PySpikeVerif.Proofs.FilterLaws

namespace PySpike.C18
open PySpike PySpike.C01

/-- interval lengths are positive at every time of the recording, also for empty trains, one-spike
    trains and spikes on the edges -/
theorem interval_length_pos (tr : Train) (hv : ValidTrain tr) (t : Q) (h1 : tr.ts ≤ t) (h2 : t < tr.te) :
    0 < nuAt tr.spikes tr.ts tr.te t := nuAt_pos tr.spikes tr.ts tr.te t hv.1 hv.2.2 h1 h2

/-- the denominator of every ISI-profile value is positive -/
theorem isi_denominator_pos (nu1 nu2 m : Q) (h1 : 0 < nu1) : 0 < max (max nu1 nu2) m := isiVal_den_pos nu1 nu2 m h1

/-- the denominators of every SPIKE-profile value are positive -/
theorem spike_denominators_pos (isi1 isi2 m : Q) (h1 : 0 < isi1) (h2 : 0 < isi2) :
    0 < max m ((isi1 + isi2) / 2) ∧ 0 < (isi1 + isi2) / 2 * max m ((isi1 + isi2) / 2) :=
  distAtT_den_pos isi1 isi2 m h1 h2

/-- ISI-profile: time axis strictly increasing from `t_start` to `t_end`, one value per piece -/
theorem isi_profile_shape (a b : Train) (m : Q) (ha : ValidTrain a) (hb : ValidTrain b)
    (hts : b.ts = a.ts) (hte : b.te = a.te) :
    ((isiProfileBi { mrts := m, recon := false } a b).x).Pairwise (· < ·) ∧
    a.ts ∈ (isiProfileBi { mrts := m, recon := false } a b).x ∧
    a.te ∈ (isiProfileBi { mrts := m, recon := false } a b).x ∧
    (∀ x ∈ (isiProfileBi { mrts := m, recon := false } a b).x, a.ts ≤ x ∧ x ≤ a.te) ∧
    (isiProfileBi { mrts := m, recon := false } a b).y.length + 1
      = (isiProfileBi { mrts := m, recon := false } a b).x.length := by
  obtain ⟨hs, hm⟩ := isi_profile_breakpoints a b m ha hb hts hte
  refine ⟨hs, (hm _).mpr (Or.inl rfl), (hm _).mpr (Or.inr (Or.inl rfl)), ?_,
    (isi_profile_values a b m ha hb hts hte).1⟩
  intro x hx
  rcases (hm x).mp hx with h | h | ⟨h1, h2, _⟩
  · rw [h]; exact ⟨le_refl _, le_of_lt ha.1⟩
  · rw [h]; exact ⟨le_of_lt ha.1, le_refl _⟩
  · exact ⟨le_of_lt h1, le_of_lt h2⟩

/-- ISI values and distance are within `[0,1]` (in particular finite) -/
theorem isi_values_finite (a b : Train) (m : Q) (ha : ValidTrain a) (hb : ValidTrain b)
    (hts : b.ts = a.ts) (hte : b.te = a.te) :
    ∀ y ∈ (isiProfileBi { mrts := m, recon := false } a b).y, 0 ≤ y ∧ y ≤ 1 :=
  C07.isi_profile_range a b m ha hb hts hte

/-- discrete profiles always carry the two edge entries -/
theorem discrete_profile_edges (ts te : Q) (es : List (Q × Q × Q)) :
    2 ≤ (frameProfile ts te es).length ∧ ((frameProfile ts te es).headD (0,0,0)).1 = ts := by
  cases es with
  | nil => exact ⟨by simp [frameProfile], rfl⟩
  | cons e r => exact ⟨by simp [frameProfile], rfl⟩

/-- the scalar conventions never divide by zero: SPIKE-Sync / order return 1 for zero multiplicity,
    normalised directionality 0 for a train without spikes -/
theorem sync_no_zero_division (c : Q) : syncRatio (c, 0) = 1 := by simp [syncRatio]

/-- SPIKE scan: every interval length it carries equals `nuAt` on the current piece (hence is
    positive by `interval_length_pos`: no emitted SPIKE value has a zero denominator) -/
theorem spike_interval_length_is_nuAt (s o : List Q) (ts te t : Q) (hs : s.Pairwise (· < ·)) (hne : s ≠ []) :
    (spikeContrib s o ts te t true).2 = nuAt s ts te t := B4_contrib_isi_eq_nuAt s o ts te t hs hne

/-- SPIKE-profile: same strictly increasing time axis as the ISI-profile, one start and one end
    value per piece, for ALL inputs -/
theorem spike_profile_shape (t1 t2 : List Q) (ts te m : Q) (ri : Bool) :
    (spikeProfile t1 t2 ts te m ri).1 = (isiProfile t1 t2 ts te 0).1 ∧
    (spikeProfile t1 t2 ts te m ri).2.1.length + 1 = (spikeProfile t1 t2 ts te m ri).1.length ∧
    (spikeProfile t1 t2 ts te m ri).2.2.length + 1 = (spikeProfile t1 t2 ts te m ri).1.length :=
  ⟨spikeProfile_breaks t1 t2 ts te m ri, (B6_spikeProfile_shape t1 t2 ts te m ri).1,
   (B6_spikeProfile_shape t1 t2 ts te m ri).2⟩

/-- discrete profiles: non-decreasing time axis from `t_start` to `t_end` with the two edge entries -/
theorem discrete_profile_sorted (ts te : Q) (es : List (Q × Q × Q)) (hle : ts ≤ te)
    (hs : (es.map (·.1)).Pairwise (· ≤ ·)) (hb : ∀ e ∈ es, ts ≤ e.1 ∧ e.1 ≤ te) :
    ((frameProfile ts te es).map (·.1)).Pairwise (· ≤ ·) := B6_frameProfile_sorted ts te es hle hs hb

end PySpike.C18
