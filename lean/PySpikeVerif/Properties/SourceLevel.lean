/-
  Properties/SourceLevel.lean — end-to-end statements: what the routine TRANSLATED FROM THE SOURCE
  returns, stated against the definition (no hand-written model in the statement).

  Chain: `Gen.f` (generated from pyspike/cython/python_backend.py on every run)
         = hand-written model     (Properties/GenRefine.lean)
         = definition             (Properties/C01.lean, …).
-/
import PySpikeVerif.Properties.GenRefine
import PySpikeVerif.Properties.C01
import PySpikeVerif.Properties.C03
import PySpikeVerif.Properties.C04
import PySpikeVerif.Properties.C16
open PySpike PySpike.Gen PySpike.GenRefine

namespace PySpike.C01

theorem nonEmpty_ne_nil (t : Train) : t.nonEmpty ≠ [] := by
  unfold Train.nonEmpty
  split
  · split
    · simp
    · split <;> simp
  · rename_i h; simpa using h

/-- **C01 at source level.** For valid trains on a common interval, `isi_distance_python` — the Lean
    text generated from the Python source — called as the API calls it (with `get_spikes_non_empty()`)
    returns breakpoints `xs` and values `ys` such that: one value per piece; on `[xs[k], xs[k+1])` the
    value is `|ν₁-ν₂| / max(ν₁, ν₂, MRTS)` with `νₙ` the ISI length of the definition (`nuAt`); the
    breakpoints are strictly increasing and are exactly the edges and the spike times strictly inside. -/
theorem source_isi_kernel_computes_the_definition (F : Nat) (a b : Train) (m : Q)
    (ha : ValidTrain a) (hb : ValidTrain b) (hts : b.ts = a.ts) (hte : b.te = a.te)
    (hF : a.nonEmpty.length + b.nonEmpty.length + 2 ≤ F) :
    ∃ xs ys, Gen.isi_distance_python F a.nonEmpty b.nonEmpty a.ts a.te m = some (xs, ys) ∧
      ys.length + 1 = xs.length ∧
      (∀ k (hk : k < ys.length) (hk1 : k + 1 < xs.length) (t : Q),
        xs[k]'(by omega) ≤ t → t < xs[k+1] →
        ys[k] = isiVal (nuAt a.spikes a.ts a.te t) (nuAt b.spikes a.ts a.te t) m) ∧
      xs.Pairwise (· < ·) ∧
      (∀ x, x ∈ xs ↔ x = a.ts ∨ x = a.te ∨ (a.ts < x ∧ x < a.te ∧ (x ∈ a.spikes ∨ x ∈ b.spikes))) := by
  have hgen := generated_isi_kernel_is_model F a.nonEmpty b.nonEmpty a.ts a.te m
    (nonEmpty_ne_nil a) (nonEmpty_ne_nil b) hF
  have hv := isi_profile_values a b m ha hb hts hte
  have hbp := isi_profile_breakpoints a b m ha hb hts hte
  have hf : isiProfileBi { mrts := m, recon := false } a b =
      ⟨(isiProfile a.nonEmpty b.nonEmpty a.ts a.te m).1,
       (isiProfile a.nonEmpty b.nonEmpty a.ts a.te m).2⟩ := by
    simp [isiProfileBi, prepBi]
  refine ⟨(isiProfileBi { mrts := m, recon := false } a b).x, (isiProfileBi { mrts := m, recon := false } a b).y,
    ?_, hv.1, hv.2, hbp.1, hbp.2⟩
  rw [hgen, hf]

end PySpike.C01

namespace PySpike.C03

/-- **C03 at source level.** `coincidence_python` as translated from the source returns, for all
    strictly increasing trains, exactly the three arrays of the pairwise definition: one entry per
    distinct spike time, (t, 2, 2) where both trains spike, value 1 exactly when the other train has a
    spike closer than the window of the definition, framed by the two edge entries. -/
theorem source_coincidence_kernel_computes_the_definition (F : Nat) (s1 s2 : List Q) (ts te mt m : Q)
    (h1 : StrictSorted s1) (h2 : StrictSorted s2) (hF : s1.length + s2.length + 2 ≤ F) :
    Gen.coincidence_python F s1 s2 ts te mt m
      = some (unzip3 (frameProfile ts te (scanSpec 1 1 2 s1 s2 (trueMax ts te mt) m))) := by
  rw [generated_coincidence_kernel_is_model F s1 s2 ts te mt m hF,
    profile_is_pairwise_definition s1 s2 ts te mt m h1 h2]

/-- … and the per-spike indicator the filter uses -/
theorem source_single_kernel_computes_the_definition (F : Nat) (s1 s2 : List Q) (ts te mt m : Q)
    (h1 : StrictSorted s1) (h2 : StrictSorted s2) (hF : s1.length + s2.length + 2 ≤ F) :
    Gen.coincidence_single_python F s1 s2 ts te mt m = some (singleSpec s1 s2 (trueMax ts te mt) m) := by
  rw [generated_single_kernel_is_model F s1 s2 ts te mt m hF,
    filter_indicator_is_pairwise_definition s1 s2 ts te mt m h1 h2]

end PySpike.C03

namespace PySpike.C04

/-- **C04 at source level.** `spike_train_order_profile_python` as translated from the source returns
    the sign convention of the definition (+1/+1 for a pair led by train 1, −1/−1 for a pair led by
    train 2, 0 for simultaneous and non-coincident spikes). -/
theorem source_order_kernel_computes_the_definition (F : Nat) (s1 s2 : List Q) (ts te mt m : Q)
    (h1 : StrictSorted s1) (h2 : StrictSorted s2) (hF : s1.length + s2.length + 2 ≤ F) :
    Gen.spike_train_order_profile_python F s1 s2 ts te mt m
      = some (unzip3 (frameProfile ts te (scanSpec (-1) 1 0 s1 s2 (trueMax ts te mt) m))) := by
  rw [generated_order_kernel_is_model F s1 s2 ts te mt m hF,
    order_profile_is_sign_convention s1 s2 ts te mt m h1 h2]

end PySpike.C04

namespace PySpike.C16

/-- **C16 at source level.** Whatever window `get_tau` — the routine translated from the source —
    returns at any cursor position of a scan called with `max_tau > 0`, it is at most `max_tau`
    (this is the statement that was false before the repair of F4). -/
theorem source_get_tau_le_max_tau (F : Nat) (k1 r1 k2 r2 : List Q) (ts te mt mrts : Q) (h : 0 < mt) :
    ∃ tau, Gen.get_tau F (k1.reverse ++ r1) (k2.reverse ++ r2) ((k1.length : Int) - 1) ((k2.length : Int) - 1)
              (trueMax ts te mt) mrts = some tau ∧ tau ≤ mt :=
  ⟨_, generated_get_tau_cursor_is_model F k1 r1 k2 r2 (trueMax ts te mt) mrts,
   window_le_max_tau k1 r1 k2 r2 ts te mt mrts h⟩

end PySpike.C16
