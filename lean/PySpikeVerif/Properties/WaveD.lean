/-
  Properties/WaveD.lean — property theorems delivered by the work packages of wave D:
  C04 (Proofs/DirLaws.lean)      directionality values = average over the other trains, ranges, cancellation
  C06 (Proofs/PermProfiles.lean) multivariate profiles ignore list order (as representations)
  C07 (Proofs/RangeLaws.lean)    ranges of distances, multivariate profiles and matrices
  C11 (Proofs/PermProfiles.lean) discrete add is commutative / associative as a representation
  C12 (Proofs/PyxCounters.lean)  compiled single-pass counters = profile sums for all sorted trains
  C16 (Proofs/DirLaws.lean)      API-level max_tau bound
  C18 (Proofs/Totality.lean)     every public function returns a well-formed result on valid input
-/
import PySpikeVerif.Proofs.DirLaws
import PySpikeVerif.Proofs.PermProfiles
import PySpikeVerif.Proofs.RangeLaws
import PySpikeVerif.Proofs.PyxCounters
import PySpikeVerif.Proofs.Totality
import PySpikeVerif.Proofs.AverageProfile

namespace PySpike.C04
open PySpike PySpike.C01

/-- the directionality scan computes the pairwise sign-convention definition (both trains) -/
theorem directionality_profile_is_definition (s1 s2 : List Q) (ts te mt m : Q)
    (h1 : StrictSorted s1) (h2 : StrictSorted s2) :
    dirProfile s1 s2 ts te mt m
      = (dirSpec1 s1 s2 (trueMax ts te mt) m, dirSpec2 s1 s2 (trueMax ts te mt) m) :=
  D5_dirProfile_eq_spec s1 s2 ts te mt m h1 h2

/-- `spike_directionality_values`: the value of spike `k` of train `i` is the pairwise
    directionality indicator against train `j`, summed over the other trains `j ≠ i`, divided by
    `N − 1` -/
theorem directionality_values_are_average (kw : Kw) (L : List Train) (ts te : Q) (hr : kw.recon = false)
    (hL : ∀ s ∈ L, s.ts = ts ∧ s.te = te ∧ StrictSorted s.spikes) (i k : Nat) (hi : i < L.length) :
    ((dirValues kw none L).getD i []).getD k 0
      = (((List.range L.length).filter (· ≠ i)).map fun j =>
          (dirSpec1 (tr L i).spikes (tr L j).spikes (trueMax ts te kw.maxTau) kw.mrts).getD k 0).sum
        / ((L.length : Q) - 1) := dirValues_eq_average kw L ts te hr hL i k hi

/-- every directionality value lies in [-1, 1] … -/
theorem directionality_values_range (kw : Kw) (L : List Train) (hr : kw.recon = false) :
    ∀ l ∈ dirValues kw none L, ∀ v ∈ l, -1 ≤ v ∧ v ≤ 1 := D5_dirValues_range kw L hr

/-- … and over all spikes of all trains leader and follower contributions cancel -/
theorem directionality_values_sum_zero (kw : Kw) (L : List Train) (hr : kw.recon = false)
    (hL : ∀ s ∈ L, StrictSorted s.spikes) : qsum ((dirValues kw none L).map qsum) = 0 :=
  D5_dirValues_sum_zero kw L hr hL

/-- multivariate spike-train order = summed pair values / summed pair multiplicities (1 when there
    is no spike at all), every keyword combination and index selection -/
theorem order_multi_is_pooled_ratio (kw : Kw) (idx : Option (List Nat)) (L : List Train) :
    spikeTrainOrderMulti kw idx L =
      (let L' := prep kw L
       let pairs := pairsOf (resolveIdx idx L'.length)
       let V := qsum (pairs.map fun p => (orderValues kw (tr L' p.1) (tr L' p.2)).1)
       let M := qsum (pairs.map fun p => (orderValues kw (tr L' p.1) (tr L' p.2)).2)
       if M = 0 then 1 else V / M) := D5_spikeTrainOrderMulti_eq_ratio kw idx L

end PySpike.C04

namespace PySpike.C16
open PySpike PySpike.C01

/-- API level: a marked event of the SPIKE-Sync / spike-train-order profile has a spike of the
    other train strictly closer than `max_tau` -/
theorem sync_profile_within_max_tau (kw : Kw) (a b : Train) (hr : kw.recon = false)
    (h1 : StrictSorted a.spikes) (h2 : StrictSorted b.spikes) (hτ : 0 < kw.maxTau) :
    ∀ e ∈ (syncProfileBi kw a b).interior,
      (e.1 ∈ a.spikes ∨ e.1 ∈ b.spikes) ∧ (e.2.1 ≠ 0 →
        (e.1 ∈ a.spikes → ∃ y ∈ b.spikes, qabs (e.1 - y) < kw.maxTau) ∧
        (e.1 ∈ b.spikes → ∃ x ∈ a.spikes, qabs (e.1 - x) < kw.maxTau)) :=
  D5_syncProfileBi_within_max_tau kw a b hr h1 h2 hτ

theorem order_profile_within_max_tau (kw : Kw) (a b : Train) (hr : kw.recon = false)
    (h1 : StrictSorted a.spikes) (h2 : StrictSorted b.spikes) (hτ : 0 < kw.maxTau) :
    ∀ e ∈ (orderProfileBi kw a b).interior,
      (e.1 ∈ a.spikes ∨ e.1 ∈ b.spikes) ∧ (e.2.1 ≠ 0 →
        (e.1 ∈ a.spikes → ∃ y ∈ b.spikes, qabs (e.1 - y) < kw.maxTau) ∧
        (e.1 ∈ b.spikes → ∃ x ∈ a.spikes, qabs (e.1 - x) < kw.maxTau)) :=
  D5_orderProfileBi_within_max_tau kw a b hr h1 h2 hτ

/-- a non-zero directionality value has a spike of another train closer than `max_tau` -/
theorem directionality_within_max_tau (kw : Kw) (L : List Train) (hr : kw.recon = false)
    (hL : ∀ s ∈ L, StrictSorted s.spikes) (hτ : 0 < kw.maxTau) (i k : Nat) (hi : i < L.length)
    (hne : ((dirValues kw none L).getD i []).getD k 0 ≠ 0) :
    ∃ j, j < L.length ∧ j ≠ i ∧ ∃ hk : k < (tr L i).spikes.length,
      ∃ y ∈ (tr L j).spikes, qabs ((tr L i).spikes[k] - y) < kw.maxTau :=
  D5_dirValues_within_max_tau kw L hr hL hτ i k hi hne

/-- a spike the filter keeps has a spike of another train closer than `max_tau` -/
theorem filter_kept_within_max_tau (kw : Kw) (thr : Q) (L : List Train)
    (hr : kw.recon = false) (hL : ∀ s ∈ L, StrictSorted s.spikes) (hthr : 0 ≤ thr)
    (hτ : 0 < kw.maxTau) (i : Nat) (hi : i < L.length) (x : Q)
    (hx : x ∈ (tr (filterBySync kw thr L).1 i).spikes) :
    ∃ j, j < L.length ∧ j ≠ i ∧ ∃ y ∈ (tr L j).spikes, qabs (x - y) < kw.maxTau :=
  D5_filterBySync_kept_within_max_tau kw thr L hr hL hthr hτ i hi x hx

end PySpike.C16

namespace PySpike.C06
open PySpike PySpike.C01

/-- the multivariate profiles do not depend on the order of the list — equality of the
    REPRESENTATIONS (breakpoints and values; for SPIKE-Sync the whole event list incl. edges),
    every keyword combination -/
theorem isi_profile_order_independent (kw : Kw) {L' L : List Train} (ts te : Q) (hp : L'.Perm L)
    (hv : B5_ValidList ts te L) (h2 : 2 ≤ L.length) :
    isiProfileMulti kw none L' = isiProfileMulti kw none L := isiProfileMulti_perm kw ts te hp hv h2
theorem spike_profile_order_independent (kw : Kw) {L' L : List Train} (ts te : Q) (hp : L'.Perm L)
    (hv : B5_ValidList ts te L) (h2 : 2 ≤ L.length) :
    spikeProfileMulti kw none L' = spikeProfileMulti kw none L := spikeProfileMulti_perm kw ts te hp hv h2
theorem sync_profile_order_independent (kw : Kw) {L' L : List Train} (ts te : Q) (hp : L'.Perm L)
    (hv : B5_ValidList ts te L) (h2 : 2 ≤ L.length) :
    syncProfileMulti kw none L' = syncProfileMulti kw none L := syncProfileMulti_perm kw ts te hp hv h2

/-- the generic statement: any associative-commutative `add` on a closed class and any symmetric
    pair function -/
theorem aggregate_order_independent {P} (add : P → P → P) (S : P → Prop)
    (hclosed : ∀ a b, S a → S b → S (add a b))
    (hassoc : ∀ a b c, S a → S b → S c → add (add a b) c = add a (add b c))
    (hcomm : ∀ a b, S a → S b → add a b = add b a)
    (pair : Train → Train → P) {L' L : List Train} (hp : L'.Perm L)
    (hS : ∀ a ∈ L, ∀ b ∈ L, S (pair a b))
    (hsym : ∀ a ∈ L, ∀ b ∈ L, pair a b = pair b a) (h2 : 2 ≤ L.length) :
    genericProfileMulti add (fun p => pair (tr L' p.1) (tr L' p.2)) (List.range L'.length) =
      genericProfileMulti add (fun p => pair (tr L p.1) (tr L p.2)) (List.range L.length) :=
  genericProfileMulti_perm add S hclosed hassoc hcomm pair hp hS hsym h2

example : ([⟨[2, 3, 6], 0, 6⟩, ⟨[], 0, 6⟩, ⟨[1, 3, 4], 0, 6⟩, ⟨[0, 5], 0, 6⟩] : List Train).Perm B5_exV ∧
    B5_ValidList 0 6 B5_exV ∧ 2 ≤ B5_exV.length := ⟨by decide, B5_exV_valid, by decide⟩

end PySpike.C06

namespace PySpike.C11
open PySpike

/-- discrete `add` is commutative and associative as a REPRESENTATION (edge entries included) on
    well-formed profiles with common edge times -/
theorem add_comm_representation {ts te : Q} {f g : Disc} (hf : C3_DiscOn ts te f) (hg : C3_DiscOn ts te g) :
    f.add g = g.add f := D3_Disc_add_comm hf hg
theorem add_assoc_representation {ts te : Q} {f g h : Disc} (hf : C3_DiscOn ts te f)
    (hg : C3_DiscOn ts te g) (hh : C3_DiscOn ts te h) :
    (f.add g).add h = f.add (g.add h) := D3_Disc_add_assoc hf hg hh

end PySpike.C11

namespace PySpike.C07
open PySpike PySpike.C01

/-- the bivariate ISI distance lies in [0,1] for every keyword combination and sub-interval -/
theorem isi_distance_range_any_kw (kw : Kw) (a b : Train) (ha : ValidTrain a) (hb : ValidTrain b)
    (hts : b.ts = a.ts) (hte : b.te = a.te) :
    ∀ d, isiDistanceBi kw a b = some d → 0 ≤ d ∧ d ≤ 1 := D2_isiDistanceBi_range kw a b ha hb hts hte

/-- the bivariate SPIKE distance lies in [0,1] (outside the F9 class; sub-intervals `x < y ≤ t_end`) -/
theorem spike_distance_range_partial (kw : Kw) (a b : Train) (ha : ValidTrain a) (hb : ValidTrain b)
    (hts : b.ts = a.ts) (hte : b.te = a.te)
    (hn1 : ¬ OneSpikeOnStart a.nonEmpty a.ts) (hn2 : ¬ OneSpikeOnStart b.nonEmpty b.ts)
    (hiv : ∀ x y, kw.interval = some (x, y) → x < y ∧ y ≤ a.te) :
    ∀ d, spikeDistanceBi kw a b = some d → 0 ≤ d ∧ d ≤ 1 :=
  spikeDistanceBi_range kw a b ha hb hts hte hn1 hn2 hiv

/-- for a valid train the excluded class is exactly "the train is one spike on t_start" -/
theorem spike_excluded_class (a : Train) (ha : ValidTrain a) :
    ¬ OneSpikeOnStart a.nonEmpty a.ts ↔ a.spikes ≠ [a.ts] := D2_notF9_iff a ha

/-- multivariate ISI: all profile values and the distance (whole recording or sub-interval) in [0,1] -/
theorem isi_multi_range (kw : Kw) (L : List Train) (ts te : Q)
    (hv : B5_ValidList ts te L) (h2 : 2 ≤ L.length) :
    (∀ v ∈ (isiProfileMulti kw none L).y, 0 ≤ v ∧ v ≤ 1) ∧
    ∀ d, isiDistanceMulti kw none L = some d → 0 ≤ d ∧ d ≤ 1 :=
  ⟨isiProfileMulti_range kw L ts te hv h2, isiDistanceMulti_range kw L ts te hv h2⟩

/-- multivariate SPIKE: the same outside the F9 class -/
theorem spike_multi_range_partial (kw : Kw) (L : List Train) (ts te : Q)
    (hv : B5_ValidList ts te L) (h2 : 2 ≤ L.length)
    (hn : ∀ a ∈ L, ¬ OneSpikeOnStart a.nonEmpty a.ts)
    (hiv : ∀ x y, kw.interval = some (x, y) → x < y ∧ y ≤ te) :
    ((∀ v ∈ (spikeProfileMulti kw none L).y1, 0 ≤ v ∧ v ≤ 1) ∧
     (∀ v ∈ (spikeProfileMulti kw none L).y2, 0 ≤ v ∧ v ≤ 1)) ∧
    ∀ d, spikeDistanceMulti kw none L = some d → 0 ≤ d ∧ d ≤ 1 :=
  ⟨spikeProfileMulti_range kw L ts te hv h2 hn, spikeDistanceMulti_range kw L ts te hv h2 hn hiv⟩

/-- distance matrices: zero diagonal, entries in [0,1] -/
theorem isi_matrix_range (kw : Kw) (L : List Train) (ts te : Q)
    (hv : B5_ValidList ts te L) (hne : L ≠ []) (M : List (List Q))
    (h : isiDistanceMatrix kw none L = some M) (i j : Nat) (hi : i < L.length) (hj : j < L.length) :
    (i = j → (M.getD i []).getD j 0 = 0) ∧
    0 ≤ (M.getD i []).getD j 0 ∧ (M.getD i []).getD j 0 ≤ 1 :=
  isiDistanceMatrix_range kw L ts te hv hne M h i j hi hj
theorem spike_matrix_range_partial (kw : Kw) (L : List Train) (ts te : Q)
    (hv : B5_ValidList ts te L) (hne : L ≠ []) (hn : ∀ a ∈ L, ¬ OneSpikeOnStart a.nonEmpty a.ts)
    (hiv : ∀ x y, kw.interval = some (x, y) → x < y ∧ y ≤ te) (M : List (List Q))
    (h : spikeDistanceMatrix kw none L = some M) (i j : Nat) (hi : i < L.length) (hj : j < L.length) :
    (i = j → (M.getD i []).getD j 0 = 0) ∧
    0 ≤ (M.getD i []).getD j 0 ∧ (M.getD i []).getD j 0 ≤ 1 :=
  spikeDistanceMatrix_range kw L ts te hv hne hn hiv M h i j hi hj

/-- generic: the average of a well-formed piecewise constant / linear function whose values lie in
    `[lo, hi]` lies in `[lo, hi]` (whole support) -/
theorem average_in_value_range {lo hi : Q} :
    (∀ f : Pwc, f.WF → f.first < f.last → (∀ v ∈ f.y, lo ≤ v ∧ v ≤ hi) → lo ≤ f.avrgAll ∧ f.avrgAll ≤ hi) ∧
    (∀ f : Pwl, f.WF → f.first < f.last → ((∀ v ∈ f.y1, lo ≤ v ∧ v ≤ hi) ∧ (∀ v ∈ f.y2, lo ≤ v ∧ v ≤ hi)) →
      lo ≤ f.avrgAll ∧ f.avrgAll ≤ hi) :=
  ⟨fun f hf _ h => Pwc.D2_avrgAll_range hf h, fun f hf _ h => Pwl.D2_avrgAll_range hf h⟩

end PySpike.C07

namespace PySpike.C12
open PySpike PySpike.C01

/-- the single-pass counters of `coincidence_value_cython` equal the sums over the profile, for ALL
    strictly increasing trains (the `scanSafe` side condition of `coincidence_value_partial` holds) -/
theorem coincidence_value_is_profile_sum (s1 s2 : List Q) (ts te mt m : Q)
    (h1 : StrictSorted s1) (h2 : StrictSorted s2) :
    coincValuePyx s1 s2 ts te mt m = (Disc.mk (coincProfile s1 s2 ts te mt m)).integralAll :=
  coincValuePyx_eq_profile_sum s1 s2 ts te mt m h1 h2

/-- `spike_train_order_cython` likewise, two empty trains excluded (known finding F10) -/
theorem order_value_is_profile_sum (s1 s2 : List Q) (ts te mt m : Q)
    (h1 : StrictSorted s1) (h2 : StrictSorted s2) (h : ¬ (s1 = [] ∧ s2 = [])) :
    orderValuePyx s1 s2 ts te mt m = (Disc.mk (orderProfile s1 s2 ts te mt m)).integralAll :=
  orderValuePyx_eq_profile_sum s1 s2 ts te mt m h1 h2 h

/-- `spike_directionality_cython` = sum of the first train's directionality values -/
theorem directionality_value_is_profile_sum (s1 s2 : List Q) (ts te mt m : Q)
    (h1 : StrictSorted s1) (h2 : StrictSorted s2) :
    dirValuePyx s1 s2 ts te mt m = qsum (dirProfile s1 s2 ts te mt m).1 :=
  dirValuePyx_eq_profile_sum s1 s2 ts te mt m h1 h2

/-- API shape: with the compiled kernels importable `isi_distance` / `spike_distance` without
    `interval` take the single-pass route; it returns what the profile route returns (all inputs) -/
theorem distances_compiled_route (kw : Kw) (a b : Train) (hi : kw.interval = none) :
    isiDistanceBi kw a b = some (D6_isiDistanceBiPyx kw a b) ∧
    spikeDistanceBi kw a b = some (D6_spikeDistanceBiPyx kw a b) :=
  ⟨D6_isiDistanceBi_eq_compiled kw a b hi, D6_spikeDistanceBi_eq_compiled kw a b hi⟩

/-- … and `spike_sync`, normalised `spike_train_order`, `spike_directionality` on valid trains -/
theorem sync_order_dir_compiled_route (kw : Kw) (normalize : Bool) (ts te : Q) (a b : Train)
    (hv : ∀ t ∈ [a, b], t.ts = ts ∧ t.te = te ∧ t.spikes.Pairwise (· < ·) ∧ ∀ x ∈ t.spikes, ts ≤ x ∧ x ≤ te) :
    (kw.interval = none → spikeSyncBi kw a b = some (D6_spikeSyncBiPyx kw a b)) ∧
    spikeTrainOrderBi kw true a b = D6_spikeTrainOrderBiPyx kw true a b ∧
    spikeDirectionality kw normalize a b = D6_spikeDirectionalityPyx kw normalize a b :=
  ⟨fun hi => D6_spikeSyncBi_eq_compiled_valid kw ts te a b hi hv,
   D6_spikeTrainOrderBi_eq_compiled_valid kw ts te a b hv,
   D6_spikeDirectionality_eq_compiled_valid kw normalize ts te a b hv⟩

end PySpike.C12

namespace PySpike.C18
open PySpike PySpike.C01

/-- every scalar measure is defined (the code raises nothing, divides by nothing zero) on every
    list of ≥ 2 valid trains, for every keyword combination with `interval` None or a
    non-degenerate sub-interval of the recording — degenerate trains included -/
theorem multivariate_scalars_defined (kw : Kw) (L : List Train) (ts te : Q)
    (hv : B5_ValidList ts te L) (h2 : 2 ≤ L.length)
    (hiv : kw.interval = none ∨ ∃ a b, kw.interval = some (a, b) ∧ ts ≤ a ∧ a < b ∧ b ≤ te) :
    (∃ d, isiDistanceMulti kw none L = some d) ∧ (∃ d, spikeDistanceMulti kw none L = some d) ∧
    (∃ d, spikeSyncMulti kw none L = some d) :=
  D4_multivariate_scalars_defined kw L ts te ⟨hv, h2⟩ hiv

theorem bivariate_scalars_defined (kw : Kw) (a b : Train)
    (h : ValidTrain a ∧ ValidTrain b ∧ b.ts = a.ts ∧ b.te = a.te)
    (hiv : kw.interval = none ∨ ∃ x y, kw.interval = some (x, y) ∧ a.ts ≤ x ∧ x < y ∧ y ≤ a.te) :
    (∃ d, isiDistanceBi kw a b = some d) ∧ (∃ d, spikeDistanceBi kw a b = some d) ∧
    (∃ d, spikeSyncBi kw a b = some d) := D4_bivariate_scalars_defined kw a b h hiv

/-- exactly which `interval`s each class of function accepts — IN THE HAND-WRITTEN MODEL. For ISI and
    SPIKE-Sync this is also the code's acceptance set; for SPIKE the code additionally raises IndexError
    when `q > t_end` or `p ≥ t_end` (no range check in `PieceWiseLinFunc.integral`; the model extrapolates):
    the exact set of the code is `GenRefine.pwl_integral_refines` / `Pwl.integralCode`. Intervals outside
    the recording are outside every property. -/
theorem scalars_defined_iff (kw : Kw) (L : List Train) (ts te : Q)
    (hv : B5_ValidList ts te L) (h2 : 2 ≤ L.length) :
    ((∃ d, isiDistanceMulti kw none L = some d) ↔ ∀ p q, kw.interval = some (p, q) → ts ≤ p ∧ p ≤ q ∧ q ≤ te) ∧
    ((∃ d, spikeDistanceMulti kw none L = some d) ↔ ∀ p q, kw.interval = some (p, q) → ts ≤ p) ∧
    ((∃ d, spikeSyncMulti kw none L = some d) ↔ ∀ p q, kw.interval = some (p, q) → ts ≤ p ∧ q ≤ te) :=
  ⟨D4_isiDistanceMulti_defined_iff kw L ts te ⟨hv, h2⟩, D4_spikeDistanceMulti_defined_iff kw L ts te ⟨hv, h2⟩,
   D4_spikeSyncMulti_defined_iff kw L ts te ⟨hv, h2⟩⟩

/-- all four bivariate profiles are well-formed on exactly `[t_start, t_end]`: time axis strictly
    increasing from `t_start` to `t_end`, consistent array lengths (discrete: sorted events
    between the two edge entries) -/
theorem bivariate_profiles_well_formed (kw : Kw) (a b : Train)
    (h : ValidTrain a ∧ ValidTrain b ∧ b.ts = a.ts ∧ b.te = a.te) :
    B5_PwcOn a.ts a.te (isiProfileBi kw a b) ∧ B5_PwlOn a.ts a.te (spikeProfileBi kw a b) ∧
    C3_DiscOn a.ts a.te (syncProfileBi kw a b) ∧ C3_DiscOn a.ts a.te (orderProfileBi kw a b) :=
  D4_bivariate_profiles_wellFormed kw a b h

/-- … and all four multivariate profiles -/
theorem multivariate_profiles_well_formed (kw : Kw) (L : List Train) (ts te : Q)
    (hv : B5_ValidList ts te L) (h2 : 2 ≤ L.length) :
    B5_PwcOn ts te (isiProfileMulti kw none L) ∧ B5_PwlOn ts te (spikeProfileMulti kw none L) ∧
    C3_DiscOn ts te (syncProfileMulti kw none L) ∧ C3_DiscOn ts te (orderProfileMulti kw none L) :=
  ⟨D4_isiProfileMulti_wellFormed kw L ts te ⟨hv, h2⟩, D4_spikeProfileMulti_wellFormed kw L ts te ⟨hv, h2⟩,
   D4_syncProfileMulti_wellFormed kw L ts te ⟨hv, h2⟩, D4_orderProfileMulti_wellFormed kw L ts te ⟨hv, h2⟩⟩

/-- matrices are defined and `N × N` -/
theorem matrices_well_formed (kw : Kw) (L : List Train) (ts te : Q)
    (hv : B5_ValidList ts te L) (h2 : 2 ≤ L.length)
    (hiv : kw.interval = none ∨ ∃ a b, kw.interval = some (a, b) ∧ ts ≤ a ∧ a < b ∧ b ≤ te) :
    (∃ M, isiDistanceMatrix kw none L = some M ∧ M.length = L.length ∧ ∀ row ∈ M, row.length = L.length) ∧
    (∃ M, spikeDistanceMatrix kw none L = some M ∧ M.length = L.length ∧ ∀ row ∈ M, row.length = L.length) ∧
    (∃ M, spikeSyncMatrix kw none L = some M ∧ M.length = L.length ∧ ∀ row ∈ M, row.length = L.length) :=
  D4_distanceMatrices_wellFormed kw L ts te ⟨hv, h2⟩ hiv

theorem directionality_matrix_shape (kw : Kw) (normalize : Bool) (L : List Train) :
    (spikeDirectionalityMatrix kw normalize none L).length = L.length ∧
    ∀ row ∈ spikeDirectionalityMatrix kw normalize none L, row.length = L.length :=
  D4_spikeDirectionalityMatrix_shape kw normalize L

/-- per-spike results: one value per spike of every (reconciled) train -/
theorem directionality_values_shape (kw : Kw) (idx : Option (List Nat)) (L : List Train) :
    (dirValues kw idx L).map List.length =
      (resolveIdx idx (prep kw L).length).map fun k => (tr (prep kw L) k).spikes.length :=
  D4_dirValues_lengths kw idx L

/-- the filter returns two lists of `N` valid trains on the same edges whose spikes are sublists
    of the input trains' spikes -/
theorem filter_well_formed (kw : Kw) (thr : Q) (L : List Train) (ts te : Q)
    (hv : B5_ValidList ts te L) :
    (filterBySync kw thr L).1.length = L.length ∧ (filterBySync kw thr L).2.length = L.length ∧
    B5_ValidList ts te (filterBySync kw thr L).1 ∧ B5_ValidList ts te (filterBySync kw thr L).2 ∧
    ∀ i, i < L.length →
      (tr (filterBySync kw thr L).1 i).spikes.Sublist (tr L i).spikes ∧
      (tr (filterBySync kw thr L).2 i).spikes.Sublist (tr L i).spikes :=
  D4_filterBySync_wellFormed kw thr L ts te hv

/-- the same totality for an `indices` selection of ≥ 2 valid positions -/
theorem indices_scalars_defined (kw : Kw) (L : List Train) (ts te : Q) (l : List Nat)
    (hv : B5_ValidList ts te L) (hl : idxValid l L.length = true) (h2 : 2 ≤ l.length)
    (hiv : kw.interval = none ∨ ∃ a b, kw.interval = some (a, b) ∧ ts ≤ a ∧ a < b ∧ b ≤ te) :
    (∃ d, isiDistanceMulti kw (some l) L = some d) ∧
    (∃ d, spikeDistanceMulti kw (some l) L = some d) ∧
    (∃ d, spikeSyncMulti kw (some l) L = some d) :=
  D4_indices_scalars_defined kw L ts te l hv hl h2 hiv
theorem indices_profiles_well_formed (kw : Kw) (L : List Train) (ts te : Q) (l : List Nat)
    (hv : B5_ValidList ts te L) (hl : idxValid l L.length = true) (h2 : 2 ≤ l.length) :
    B5_PwcOn ts te (isiProfileMulti kw (some l) L) ∧
    B5_PwlOn ts te (spikeProfileMulti kw (some l) L) ∧
    C3_DiscOn ts te (syncProfileMulti kw (some l) L) ∧
    C3_DiscOn ts te (orderProfileMulti kw (some l) L) :=
  D4_indices_profiles_wellFormed kw L ts te l hv hl h2

/-- the hypotheses are met by a list made of degenerate trains only (empty, one spike on an edge,
    two identical trains) -/
theorem degenerate_list_is_valid :
    B5_ValidList 0 6 [⟨[], 0, 6⟩, ⟨[0], 0, 6⟩, ⟨[0], 0, 6⟩, ⟨[1, 3, 6], 0, 6⟩] := D4_exL_valid.1

end PySpike.C18

namespace PySpike.C09
open PySpike

/-- `average_profile` of `n ≥ 2` well-formed profiles on a common support is well-formed on that
    support and is, at every time, the arithmetic mean of the profiles; fewer than two profiles
    are rejected (the code's assert) -/
theorem average_profile_pwc (a b : Q) (fs : List Pwc) (h2 : 2 ≤ fs.length)
    (hl : ∀ f ∈ fs, B5_PwcOn a b f) :
    ∃ g, averagePwc fs = some g ∧ B5_PwcOn a b g ∧
      ∀ t, a ≤ t → t < b →
        g.evalR t = some (qsum (fs.map fun f => (f.evalR t).getD 0) / (fs.length : Q)) :=
  averagePwc_is_mean a b fs h2 hl

theorem average_profile_pwl (a b : Q) (fs : List Pwl) (h2 : 2 ≤ fs.length)
    (hl : ∀ f ∈ fs, B5_PwlOn a b f) :
    ∃ g, averagePwl fs = some g ∧ g.WF ∧
      ∀ t, a ≤ t → t < b →
        g.evalR t = some (qsum (fs.map fun f => (f.evalR t).getD 0) / (fs.length : Q)) :=
  averagePwl_is_mean a b fs h2 hl

theorem average_profile_rejects (fs : List Pwc) (h : fs.length < 2) : averagePwc fs = none :=
  averagePwc_rejects fs h

end PySpike.C09
