/-
  Properties/C11.lean — discrete profiles add by event and integrate over open intervals.
  Model: `Disc.add` (= `add_discrete_function_python`), `Disc.integral`, `Disc.avrg`,
  `Disc.plottable` (DiscreteFunc.py). Spec: `Disc.at`, `Disc.sumInside`, unit expansion.
  Proofs: Proofs/AddDisc.lean, Proofs/DiscLaws.lean.
-/
import PySpikeVerif.Proofs.AddDisc
import PySpikeVerif.Proofs.DiscLaws

namespace PySpike.C11
open PySpike

section add
variable {f g : Disc} (hf : f.WF) (hg : g.WF)
  (h0 : (f.e.headD (0,0,0)).1 = (g.e.headD (0,0,0)).1)
  (h1 : (lastD f.e (0,0,0)).1 = (lastD g.e (0,0,0)).1)
include hf hg

/-- one entry per distinct event time: the event times of the sum are the union … -/
theorem add_event_times : ∀ t, t ∈ (f.add g).interior.map (·.1) ↔
    t ∈ f.interior.map (·.1) ∨ t ∈ g.interior.map (·.1) := Disc.add_times f g

/-- … with values and multiplicities summed where both operands have an event, copied otherwise -/
theorem add_event_values : ∀ t, (f.add g).at t = ((f.at t).1 + (g.at t).1, (f.at t).2 + (g.at t).2) :=
  Disc.add_at hf hg

include h0 h1
/-- in increasing order, framed by the two edge entries (well-formedness of the sum) -/
theorem add_well_formed : (f.add g).WF := Disc.add_wf hf hg h0 h1
omit hf hg h0 in
theorem add_edge_times : ((f.add g).e.headD (0,0,0)).1 = (f.e.headD (0,0,0)).1 ∧
    (lastD (f.add g).e (0,0,0)).1 = (lastD f.e (0,0,0)).1 := Disc.add_edges h1
end add

/-- the events of a sum do not depend on the order of the additions -/
theorem add_events_comm (f g : Disc) : (f.add g).interior = (g.add f).interior :=
  Disc.add_interior_comm f g
theorem add_events_assoc {f g h : Disc} (hf : f.WF) (hg : g.WF) (hh : h.WF) :
    ((f.add g).add h).interior = (f.add (g.add h)).interior := Disc.add_interior_assoc hf hg hh

/-- integrating returns the sums over exactly the events strictly inside the interval -/
theorem integral_open_interval (f : Disc) (hf : f.WF) (a b : Q)
    (ha : (f.e.headD (0,0,0)).1 ≤ a) (hab : a < b) (hb : b ≤ (lastD f.e (0,0,0)).1) :
    f.integral a b = some (f.sumInside a b) := Disc.integral_eq_sumInside f hf a b ha hab hb

/-- no interval: all events (edge entries never count) -/
theorem integral_all (f : Disc) :
    f.integralAll = (qsum (f.interior.map (·.2.1)), qsum (f.interior.map (·.2.2))) := rfl

/-- several intervals add up -/
theorem integral_list (f : Disc) (hf : f.WF) (ivs : List (Q × Q))
    (h : ∀ iv ∈ ivs, (f.e.headD (0,0,0)).1 ≤ iv.1 ∧ iv.2 ≤ (lastD f.e (0,0,0)).1) :
    f.integralList ivs = some (qsum (ivs.map fun iv => (f.sumInside iv.1 iv.2).1),
                               qsum (ivs.map fun iv => (f.sumInside iv.1 iv.2).2)) :=
  Disc.integralList_eq f hf ivs h

/-- the interval must lie inside the support (assertion failure otherwise), exactly -/
theorem integral_rejects (f : Disc) (hf : f.WF)
    (h01 : (f.e.headD (0,0,0)).1 ≤ (lastD f.e (0,0,0)).1) (a b : Q) :
    f.integral a b = none ↔ (a < (f.e.headD (0,0,0)).1 ∨ (lastD f.e (0,0,0)).1 < b) :=
  Disc.integral_eq_none_iff f hf h01 a b

/-- the average is the ratio, or 1 when no event is inside -/
theorem average (f : Disc) (hf : f.WF) (a b : Q)
    (ha : (f.e.headD (0,0,0)).1 ≤ a) (hab : a < b) (hb : b ≤ (lastD f.e (0,0,0)).1) :
    f.avrg a b = some (if (f.sumInside a b).2 > 0
      then (f.sumInside a b).1 / (f.sumInside a b).2 else 1) := Disc.avrg_eq f hf a b ha hab hb

/-- integral of a sum = sum of the integrals -/
theorem add_integral (f g : Disc) : (f.add g).integralAll =
    ((f.integralAll).1 + (g.integralAll).1, (f.integralAll).2 + (g.integralAll).2) :=
  Disc.add_integralAll f g

/-- plottable data without smoothing: value / multiplicity -/
theorem plottable_plain (f : Disc) : f.plottable 0 = f.e.map fun p => p.2.1 / p.2.2 :=
  Disc.plottable_zero f

/-- smoothing window `k > 0` (natural-number multiplicities): an entry whose multiplicity is below
    `E = (k+1)·mp₀` gets the mean over its own unit contributions and the nearest `E - mp` unit
    contributions on either side (fewer at the ends); an entry with `mp ≥ E` keeps `y/mp` -/
theorem plottable_smoothing (es : List (Q × Q × Nat)) (hpos : ∀ p ∈ es, 0 < p.2.2)
    (k : Nat) (hk : 0 < k) (i : Nat) (hi : i < es.length) :
    ((Disc.mk (embedN es)).plottable k)[i]? = some (
      if (k + 1) * (es.headD (0,0,0)).2.2 ≤ es[i].2.2 then es[i].2.1 / (es[i].2.2 : Q)
      else qmean ((unitsN (es.take i).reverse).take ((k + 1) * (es.headD (0,0,0)).2.2 - es[i].2.2)
        ++ List.replicate es[i].2.2 (es[i].2.1 / (es[i].2.2 : Q))
        ++ (unitsN (es.drop (i+1))).take ((k + 1) * (es.headD (0,0,0)).2.2 - es[i].2.2))) :=
  Disc.plottable_smooth es hpos k hk i hi

end PySpike.C11
