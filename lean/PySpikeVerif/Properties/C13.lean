/-
  Properties/C13.lean — inputs are normalised before use (and never modified: the model is pure;
  non-mutation of the real objects is monitored by the harness on every call).
  Model: `reconcile` (= `reconcile_spike_trains`), `prep`/`prepBi` in every API function.
-/
import PySpikeVerif.Proofs.Reconcile
import PySpikeVerif.Proofs.ApiLaws
import PySpikeVerif.Proofs.ApiReconcile

namespace PySpike.C13
open PySpike

/-- all reconciled trains share the interval from the smallest start to the largest end -/
theorem common_interval (L : List Train) :
    ∀ t ∈ reconcile L, t.ts = minList 0 (L.map (·.ts)) ∧ t.te = maxList 0 (L.map (·.te)) :=
  reconcile_edges L
theorem smallest_start {x : Q} {L : List Train} (hx : x ∈ L.map (·.ts)) : minList 0 (L.map (·.ts)) ≤ x :=
  minList_le hx
theorem largest_end {x : Q} {L : List Train} (hx : x ∈ L.map (·.te)) : x ≤ maxList 0 (L.map (·.te)) :=
  le_maxList hx

/-- same number of trains, same order -/
theorem same_length (L : List Train) : (reconcile L).length = L.length := reconcile_length L

/-- spike times strictly increasing (every distinct time exactly once) -/
theorem strictly_increasing (L : List Train) : ∀ t ∈ reconcile L, t.spikes.Pairwise (· < ·) :=
  reconcile_spikes_sorted L

/-- train `i` contains exactly the distinct input spike times of train `i` inside the common
    interval (tolerance 1e-6), and nothing else -/
theorem exact_content (L : List Train) (i : Nat) (hi : i < L.length) (x : Q) :
    x ∈ ((reconcile L)[i]'(by rw [reconcile_length]; exact hi)).spikes ↔
      x ∈ L[i].spikes ∧ minList 0 (L.map (·.ts)) - recEps < x ∧ x < maxList 0 (L.map (·.te)) + recEps :=
  reconcile_mem L i hi x

/-- doing it twice changes nothing -/
theorem idempotent (L : List Train) : reconcile (reconcile L) = reconcile L := reconcile_idem L

/-- the result does not depend on the order of the spike times within a train nor on repeated
    spike times: trains with the same edges and the same *sets* of spike times reconcile equally,
    hence (every API function being `core ∘ reconcile`) give the same results -/
theorem order_and_repeats_irrelevant {L₁ L₂ : List Train} (h : List.Forall₂ Train.sameSet L₁ L₂) :
    reconcile L₁ = reconcile L₂ := reconcile_perm_dup h

/-- already valid input is left as it is, so switching reconciliation off changes nothing … -/
theorem valid_input_unchanged (L : List Train) (ts te : Q)
    (h : ∀ t ∈ L, t.ts = ts ∧ t.te = te ∧ t.spikes.Pairwise (· < ·) ∧ ∀ x ∈ t.spikes, ts ≤ x ∧ x ≤ te) :
    reconcile L = L := reconcile_id_of_valid L ts te h

/-- … for every API function: `prep` with `Reconcile=True` equals `prep` with `Reconcile=False` -/
theorem reconcile_switch_irrelevant (kw : Kw) (L : List Train) (ts te : Q)
    (h : ∀ t ∈ L, t.ts = ts ∧ t.te = te ∧ t.spikes.Pairwise (· < ·) ∧ ∀ x ∈ t.spikes, ts ≤ x ∧ x ≤ te) :
    prep { kw with recon := true } L = prep { kw with recon := false } L := by
  simp [prep, reconcile_id_of_valid L ts te h]

/-- the bivariate entry points reconcile the pair as a two-element list -/
theorem bivariate_reconcile (a b : Train) :
    reconcile [a, b] = [(reconcileBi a b).1, (reconcileBi a b).2] := reconcileBi_eq a b

/-! non-vacuity: a shuffled train with a repeated spike has the same spike set as its sorted form -/
example : List.Forall₂ Train.sameSet [⟨[3, 1, 2, 1], 0, 4⟩] [⟨[1, 2, 3], 0, 4⟩] := by
  refine List.Forall₂.cons ⟨rfl, rfl, ?_⟩ List.Forall₂.nil
  intro x; simp only [List.mem_cons, List.not_mem_nil, or_false]; tauto
example : ∀ t ∈ [(⟨[1, 2, 3], 0, 4⟩ : Train), ⟨[], 0, 4⟩], t.ts = 0 ∧ t.te = 4 ∧
    t.spikes.Pairwise (· < ·) ∧ ∀ x ∈ t.spikes, (0:Q) ≤ x ∧ x ≤ 4 := by
  intro t ht
  simp only [List.mem_cons, List.not_mem_nil, or_false] at ht
  rcases ht with rfl | rfl
  · refine ⟨rfl, rfl, by decide, by decide⟩
  · refine ⟨rfl, rfl, by simp, by simp⟩

/-! ## every API function = its core on the reconciled trains (work package C4)

`C4_ApiAgree kw₁ L₁ kw₂ L₂` states, for each of the 14 multivariate API functions of the model
(profiles, distances, matrices, filter, order, directionality) and every `indices` / threshold /
`normalize` argument, that the call with `(kw₁, L₁)` returns what the call with `(kw₂, L₂)` returns;
`C4_ApiAgreeBi` is the same for the 11 bivariate entry points. -/

/-- with `Reconcile=True` (the default) every multivariate API function is its
    `Reconcile=False` core applied to the reconciled trains -/
theorem api_is_core_of_reconciled (kw : Kw) (L : List Train) (h : kw.recon = true) :
    C4_ApiAgree kw L { kw with recon := false } (reconcile L) := C4_api_eq_core_reconcile kw L h

/-- … and every bivariate one -/
theorem api_is_core_of_reconciled_bi (kw : Kw) (a b : Train) (h : kw.recon = true) :
    C4_ApiAgreeBi kw a b { kw with recon := false } (reconcileBi a b).1 (reconcileBi a b).2 :=
  C4_api_eq_core_reconcile_bi kw a b h

/-- hence the order of the spikes inside a train and repeated spikes do not influence any result -/
theorem api_order_and_repeats_irrelevant {L₁ L₂ : List Train} (kw : Kw) (hr : kw.recon = true)
    (h : List.Forall₂ Train.sameSet L₁ L₂) : C4_ApiAgree kw L₁ kw L₂ :=
  PySpike.api_order_and_repeats_irrelevant kw hr h

theorem api_order_and_repeats_irrelevant_bi {a₁ b₁ a₂ b₂ : Train} (kw : Kw) (hr : kw.recon = true)
    (ha : Train.sameSet a₁ a₂) (hb : Train.sameSet b₁ b₂) : C4_ApiAgreeBi kw a₁ b₁ kw a₂ b₂ :=
  PySpike.api_order_and_repeats_irrelevant_bi kw hr ha hb

/-- on already valid input the `Reconcile` switch changes no result of any API function -/
theorem api_reconcile_switch_irrelevant (kw : Kw) (L : List Train) (ts te : Q)
    (h : ∀ t ∈ L, t.ts = ts ∧ t.te = te ∧ t.spikes.Pairwise (· < ·) ∧ ∀ x ∈ t.spikes, ts ≤ x ∧ x ≤ te) :
    C4_ApiAgree { kw with recon := true } L { kw with recon := false } L :=
  PySpike.api_reconcile_switch_irrelevant kw L ts te h

theorem api_reconcile_switch_irrelevant_bi (kw : Kw) (a b : Train) (ts te : Q)
    (h : ∀ t ∈ [a, b], t.ts = ts ∧ t.te = te ∧ t.spikes.Pairwise (· < ·) ∧ ∀ x ∈ t.spikes, ts ≤ x ∧ x ≤ te) :
    C4_ApiAgreeBi { kw with recon := true } a b { kw with recon := false } a b :=
  PySpike.api_reconcile_switch_irrelevant_bi kw a b ts te h

end PySpike.C13
