/-
  Properties/C13.lean — inputs are normalised before use (and never modified: the model is pure;
  non-mutation of the real objects is monitored by the harness on every call).
  Model: `reconcile` (= `reconcile_spike_trains`), `prep`/`prepBi` in every API function.
-/
import PySpikeVerif.Proofs.Reconcile
import PySpikeVerif.Proofs.ApiLaws

namespace PySpike.C13
open PySpike

/-- all reconciled trains share the interval from the smallest start to the largest end -/
theorem common_interval (L : List Train) :
    ∀ t ∈ reconcile L, t.ts = minList 0 (L.map (·.ts)) ∧ t.te = maxList 0 (L.map (·.te)) :=
  reconcile_edges L
theorem smallest_start {x : Q} {L : List Train} (hx : x ∈ L.map (·.ts)) : minList 0 (L.map (·.ts)) ≤ x :=
  minList_le hx
theorem largest_end {x : Q} {L : List Train} (hx : x ∈ L.map (·.te)) : x ≤ maxList 0 (L.map (·.te)) :=
  le_maxList hx

/-- same number of trains, same order -/
theorem same_length (L : List Train) : (reconcile L).length = L.length := reconcile_length L

/-- spike times strictly increasing (every distinct time exactly once) -/
theorem strictly_increasing (L : List Train) : ∀ t ∈ reconcile L, t.spikes.Pairwise (· < ·) :=
  reconcile_spikes_sorted L

/-- train `i` contains exactly the distinct input spike times of train `i` inside the common
    interval (tolerance 1e-6), and nothing else -/
theorem exact_content (L : List Train) (i : Nat) (hi : i < L.length) (x : Q) :
    x ∈ ((reconcile L)[i]'(by rw [reconcile_length]; exact hi)).spikes ↔
      x ∈ L[i].spikes ∧ minList 0 (L.map (·.ts)) - recEps < x ∧ x < maxList 0 (L.map (·.te)) + recEps :=
  reconcile_mem L i hi x

/-- doing it twice changes nothing -/
theorem idempotent (L : List Train) : reconcile (reconcile L) = reconcile L := reconcile_idem L

/-- the result does not depend on the order of the spike times within a train nor on repeated
    spike times: trains with the same edges and the same *sets* of spike times reconcile equally,
    hence (every API function being `core ∘ reconcile`) give the same results -/
theorem order_and_repeats_irrelevant {L₁ L₂ : List Train} (h : List.Forall₂ Train.sameSet L₁ L₂) :
    reconcile L₁ = reconcile L₂ := reconcile_perm_dup h

/-- already valid input is left as it is, so switching reconciliation off changes nothing … -/
theorem valid_input_unchanged (L : List Train) (ts te : Q)
    (h : ∀ t ∈ L, t.ts = ts ∧ t.te = te ∧ t.spikes.Pairwise (· < ·) ∧ ∀ x ∈ t.spikes, ts ≤ x ∧ x ≤ te) :
    reconcile L = L := reconcile_id_of_valid L ts te h

/-- … for every API function: `prep` with `Reconcile=True` equals `prep` with `Reconcile=False` -/
theorem reconcile_switch_irrelevant (kw : Kw) (L : List Train) (ts te : Q)
    (h : ∀ t ∈ L, t.ts = ts ∧ t.te = te ∧ t.spikes.Pairwise (· < ·) ∧ ∀ x ∈ t.spikes, ts ≤ x ∧ x ≤ te) :
    prep { kw with recon := true } L = prep { kw with recon := false } L := by
  simp [prep, reconcile_id_of_valid L ts te h]

/-- the bivariate entry points reconcile the pair as a two-element list -/
theorem bivariate_reconcile (a b : Train) :
    reconcile [a, b] = [(reconcileBi a b).1, (reconcileBi a b).2] := reconcileBi_eq a b

/-! non-vacuity: a shuffled train with a repeated spike has the same spike set as its sorted form -/
example : List.Forall₂ Train.sameSet [⟨[3, 1, 2, 1], 0, 4⟩] [⟨[1, 2, 3], 0, 4⟩] := by
  refine List.Forall₂.cons ⟨rfl, rfl, ?_⟩ List.Forall₂.nil
  intro x; simp only [List.mem_cons, List.not_mem_nil, or_false]; tauto
example : ∀ t ∈ [(⟨[1, 2, 3], 0, 4⟩ : Train), ⟨[], 0, 4⟩], t.ts = 0 ∧ t.te = 4 ∧
    t.spikes.Pairwise (· < ·) ∧ ∀ x ∈ t.spikes, (0:Q) ≤ x ∧ x ≤ 4 := by
  intro t ht
  simp only [List.mem_cons, List.not_mem_nil, or_false] at ht
  rcases ht with rfl | rfl
  · refine ⟨rfl, rfl, by decide, by decide⟩
  · refine ⟨rfl, rfl, by simp, by simp⟩

end PySpike.C13
