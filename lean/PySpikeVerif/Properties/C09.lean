/-
  Properties/C09.lean — adding piecewise profiles is pointwise addition on the merged support.

  Part 1 (one `add` / `mul_scalar`): breakpoints = strictly increasing union, end points unchanged,
  both one-sided limits and the integral are the sums (re-stated from Proofs/AddPwc.lean).
  Part 2 (histories): a store of function objects driven by any sequence of
  `add i j` / `mul_scalar i c` / `copy i` operations; every object always denotes the formal linear
  combination of the initial functions that the history prescribes, and an operation on object `i`
  leaves every other object untouched (copies are independent, the added operand is not modified
  — in the model; the harness checks the same on the real objects after every operation).
-/
import PySpikeVerif.Proofs.AddPwc

namespace PySpike.C09
open PySpike

/-! ## Part 1 — piecewise constant -/

section
variable {f g : Pwc} (hf : f.WF) (hg : g.WF) (h0 : f.first = g.first) (h1 : f.last = g.last)
include hf hg h0 h1

/-- the sum is well formed: strictly increasing breakpoints, one value per piece -/
theorem pwc_add_wf : (f.add g).WF := Pwc.add_wf hf hg h0 h1
/-- breakpoints of the sum = union of the operands' breakpoints (strictly increasing by `pwc_add_wf`) -/
theorem pwc_add_breakpoints : ∀ x, x ∈ (f.add g).x ↔ x ∈ f.x ∨ x ∈ g.x := Pwc.add_mem_x hf hg h0 h1
/-- end points unchanged -/
theorem pwc_add_ends : (f.add g).first = f.first ∧ (f.add g).last = f.last :=
  ⟨Pwc.add_first, Pwc.add_last⟩
/-- right limit at every time = sum of the operands' right limits -/
theorem pwc_add_right_limit : ∀ t, f.first ≤ t → t < f.last →
    ∃ v w, f.evalR t = some v ∧ g.evalR t = some w ∧ (f.add g).evalR t = some (v + w) :=
  Pwc.add_evalR hf hg h0 h1
/-- left limit at every time = sum of the operands' left limits -/
theorem pwc_add_left_limit : ∀ t, f.first < t → t ≤ f.last →
    ∃ v w, f.evalL t = some v ∧ g.evalL t = some w ∧ (f.add g).evalL t = some (v + w) :=
  Pwc.add_evalL hf hg h0 h1
/-- integral of the sum = sum of the integrals -/
theorem pwc_add_integral : (f.add g).integralAll = f.integralAll + g.integralAll :=
  Pwc.add_integralAll hf hg h0 h1
end

/-- the result does not depend on the order of the additions: commutative … -/
theorem pwc_add_comm {f g : Pwc} (h0 : f.first = g.first) (h1 : f.last = g.last) :
    f.add g = g.add f := Pwc.add_comm h0 h1
/-- … and associative, as equality of representations -/
theorem pwc_add_assoc {f g h : Pwc} (hf : f.WF) (hg : g.WF) (hh : h.WF)
    (h0 : f.first = g.first) (h1 : f.last = g.last) (h0' : g.first = h.first)
    (h1' : g.last = h.last) : (f.add g).add h = f.add (g.add h) :=
  Pwc.add_assoc hf hg hh h0 h1 h0' h1'

theorem pwc_mul_scalar (f : Pwc) (c t : Q) :
    (f.mulScalar c).evalR t = (f.evalR t).map (· * c) ∧
    (f.mulScalar c).evalL t = (f.evalL t).map (· * c) ∧
    (f.mulScalar c).integralAll = f.integralAll * c :=
  ⟨Pwc.mulScalar_evalR f c t, Pwc.mulScalar_evalL f c t, Pwc.mulScalar_integralAll f c⟩

/-! ## Part 2 — histories of operations on a store of objects -/

inductive Op where
  | add (i j : Nat)      -- `obj[i].add(obj[j])`
  | mul (i : Nat) (c : Q) -- `obj[i].mul_scalar(c)`
  | copy (i : Nat)       -- `obj.append(obj[i].copy())`
deriving Repr

def dflt : Pwc := ⟨[0, 1], [0]⟩

/-- one operation on the store (out-of-range indices leave the store unchanged) -/
def step (st : List Pwc) : Op → List Pwc
  | .add i j => if i < st.length ∧ j < st.length then st.set i ((st.getD i dflt).add (st.getD j dflt)) else st
  | .mul i c => if i < st.length then st.set i ((st.getD i dflt).mulScalar c) else st
  | .copy i => if i < st.length then st ++ [st.getD i dflt] else st

def run (st : List Pwc) (ops : List Op) : List Pwc := ops.foldl step st

/-- all objects are well formed on the common interval `[a, b]` -/
def StoreOK (a b : Q) (st : List Pwc) : Prop := ∀ f ∈ st, f.WF ∧ f.first = a ∧ f.last = b

theorem getD_lt {α} (l : List α) (d : α) {n : Nat} (hn : n < l.length) : l.getD n d = l[n] := by
  simp [List.getD_eq_getElem?_getD, List.getElem?_eq_getElem hn]

theorem step_ok (a b : Q) (st : List Pwc) (op : Op) (h : StoreOK a b st) : StoreOK a b (step st op) := by
  cases op with
  | add i j =>
    show StoreOK a b (if i < st.length ∧ j < st.length then _ else st)
    by_cases hij : i < st.length ∧ j < st.length
    · rw [if_pos hij]
      intro f hf
      rcases List.mem_or_eq_of_mem_set hf with hf | hf
      · exact h f hf
      · have hi := h _ (List.getElem_mem hij.1)
        have hj := h _ (List.getElem_mem hij.2)
        rw [getD_lt _ _ hij.1, getD_lt _ _ hij.2] at hf
        subst hf
        have e0 : (st[i]).first = (st[j]).first := by rw [hi.2.1, hj.2.1]
        have e1 : (st[i]).last = (st[j]).last := by rw [hi.2.2, hj.2.2]
        exact ⟨Pwc.add_wf hi.1 hj.1 e0 e1, by rw [Pwc.add_first]; exact hi.2.1,
               by rw [Pwc.add_last]; exact hi.2.2⟩
    · rw [if_neg hij]; exact h
  | mul i c =>
    show StoreOK a b (if i < st.length then _ else st)
    by_cases hi : i < st.length
    · rw [if_pos hi]
      intro f hf
      rcases List.mem_or_eq_of_mem_set hf with hf | hf
      · exact h f hf
      · have hi' := h _ (List.getElem_mem hi)
        rw [getD_lt _ _ hi] at hf
        subst hf
        exact ⟨Pwc.mulScalar_wf hi'.1 c, hi'.2.1, hi'.2.2⟩
    · rw [if_neg hi]; exact h
  | copy i =>
    show StoreOK a b (if i < st.length then _ else st)
    by_cases hi : i < st.length
    · rw [if_pos hi]
      intro f hf
      rcases List.mem_append.mp hf with hf | hf
      · exact h f hf
      · simp only [List.mem_singleton] at hf; subst hf
        rw [getD_lt _ _ hi]
        exact h _ (List.getElem_mem hi)
    · rw [if_neg hi]; exact h

theorem run_ok (a b : Q) (ops : List Op) (st : List Pwc) (h : StoreOK a b st) :
    StoreOK a b (run st ops) := by
  induction ops generalizing st with
  | nil => exact h
  | cons op r ih => exact ih _ (step_ok a b st op h)

/-- an operation on object `i` does not change any other object: the added operand is not
    modified, a copy is independent of its original -/
theorem step_frame (st : List Pwc) (i j : Nat) (c : Q) (k : Nat) (hk : k < st.length) :
    (k ≠ i → (step st (.add i j)).getD k dflt = st.getD k dflt) ∧
    (k ≠ i → (step st (.mul i c)).getD k dflt = st.getD k dflt) ∧
    ((step st (.copy i)).getD k dflt = st.getD k dflt) := by
  refine ⟨?_, ?_, ?_⟩
  · intro hne
    show (if i < st.length ∧ j < st.length then _ else st).getD k dflt = _
    split
    · simp [List.getD_eq_getElem?_getD, List.getElem?_set_ne (Ne.symm hne)]
    · rfl
  · intro hne
    show (if i < st.length then _ else st).getD k dflt = _
    split
    · simp [List.getD_eq_getElem?_getD, List.getElem?_set_ne (Ne.symm hne)]
    · rfl
  · show (if i < st.length then _ else st).getD k dflt = _
    split
    · simp [List.getD_eq_getElem?_getD, List.getElem?_append_left hk]
    · rfl

/-- symbolic history: the coefficient vector (over the initial objects) of every live object -/
def gstep (n : Nat) (gs : List (List Q)) : Op → List (List Q)
  | .add i j => if i < gs.length ∧ j < gs.length then
      gs.set i (List.zipWith (· + ·) (gs.getD i []) (gs.getD j [])) else gs
  | .mul i c => if i < gs.length then gs.set i ((gs.getD i []).map (· * c)) else gs
  | .copy i => if i < gs.length then gs ++ [gs.getD i []] else gs

/-- value of the formal combination `Σ coef_k · init_k(t⁺)` -/
def combo (init : List Pwc) (coef : List Q) (t : Q) : Q :=
  qsum (List.zipWith (fun c f => c * (f.evalR t).getD 0) coef init)

theorem combo_add (init : List Pwc) (c1 c2 : List Q) (t : Q) (h1 : c1.length = init.length)
    (h2 : c2.length = init.length) :
    combo init (List.zipWith (· + ·) c1 c2) t = combo init c1 t + combo init c2 t := by
  induction init generalizing c1 c2 with
  | nil => simp [combo, qsum]
  | cons f r ih =>
    cases c1 with
    | nil => simp at h1
    | cons a c1' =>
      cases c2 with
      | nil => simp at h2
      | cons b c2' =>
        have := ih c1' c2' (by simpa using h1) (by simpa using h2)
        simp only [combo, List.zipWith_cons_cons, qsum] at this ⊢
        rw [this]; ring

theorem combo_mul (init : List Pwc) (c1 : List Q) (c t : Q) :
    combo init (c1.map (· * c)) t = combo init c1 t * c := by
  induction init generalizing c1 with
  | nil => simp [combo, qsum]
  | cons f r ih =>
    cases c1 with
    | nil => simp [combo, qsum]
    | cons a c1' =>
      have := ih c1'
      simp only [combo, List.map_cons, List.zipWith_cons_cons, qsum] at this ⊢
      rw [this]; ring

/-- the refinement invariant: object `k` denotes the combination recorded for it -/
def Denotes (a b : Q) (init : List Pwc) (st : List Pwc) (gs : List (List Q)) : Prop :=
  st.length = gs.length ∧
  ∀ k (hk : k < st.length), (gs.getD k []).length = init.length ∧
    ∀ t, a ≤ t → t < b → (st[k]).evalR t = some (combo init (gs.getD k []) t)

theorem evalR_some {f : Pwc} {a b t : Q} (hf : f.WF) (h0 : f.first = a) (h1 : f.last = b)
    (ht0 : a ≤ t) (ht1 : t < b) : ∃ v, f.evalR t = some v := by
  obtain ⟨v, w, hv, _, _⟩ := Pwc.add_evalR hf hf rfl rfl t (h0 ▸ ht0) (h1 ▸ ht1)
  exact ⟨v, hv⟩

theorem step_denotes (a b : Q) (init st : List Pwc) (gs : List (List Q)) (op : Op)
    (hok : StoreOK a b st) (h : Denotes a b init st gs) :
    Denotes a b init (step st op) (gstep init.length gs op) := by
  obtain ⟨hlen, hden⟩ := h
  cases op with
  | add i j =>
    show Denotes a b init (if i < st.length ∧ j < st.length then _ else st)
      (if i < gs.length ∧ j < gs.length then _ else gs)
    by_cases hij : i < st.length ∧ j < st.length
    · have hij' : i < gs.length ∧ j < gs.length := by rw [← hlen]; exact hij
      rw [if_pos hij, if_pos hij']
      refine ⟨by simp [hlen], ?_⟩
      intro k hk
      simp only [List.length_set] at hk
      by_cases hki : k = i
      · subst hki
        have hi := hok _ (List.getElem_mem hij.1)
        have hj := hok _ (List.getElem_mem hij.2)
        obtain ⟨hli, hdi⟩ := hden k hij.1
        obtain ⟨hlj, hdj⟩ := hden j hij.2
        simp only [List.getD_eq_getElem?_getD, List.getElem?_set_self hij'.1, Option.getD_some,
          List.getElem_set_self]
        refine ⟨by
          have hgk : gs.getD k [] = gs[k] := getD_lt _ _ hij'.1
          have hgj : gs.getD j [] = gs[j] := getD_lt _ _ hij'.2
          rw [hgk] at hli; rw [hgj] at hlj
          simp [List.length_zipWith, List.getElem?_eq_getElem hij'.1, List.getElem?_eq_getElem hij'.2, hli, hlj], ?_⟩
        intro t ht0 ht1
        simp only [List.getElem?_eq_getElem hij.1, List.getElem?_eq_getElem hij.2,
          List.getElem?_eq_getElem hij'.1, List.getElem?_eq_getElem hij'.2, Option.getD_some]
        have hgk : gs.getD k [] = gs[k] := getD_lt _ _ hij'.1
        have hgj : gs.getD j [] = gs[j] := getD_lt _ _ hij'.2
        rw [hgk] at hli hdi
        rw [hgj] at hlj hdj
        have e0 : (st[k]).first = (st[j]).first := by rw [hi.2.1, hj.2.1]
        have e1 : (st[k]).last = (st[j]).last := by rw [hi.2.2, hj.2.2]
        obtain ⟨v, w, hv, hw, hs⟩ := Pwc.add_evalR hi.1 hj.1 e0 e1 t (hi.2.1 ▸ ht0) (hi.2.2 ▸ ht1)
        rw [hs]
        rw [hdi t ht0 ht1] at hv
        rw [hdj t ht0 ht1] at hw
        cases hv; cases hw
        rw [combo_add init _ _ t hli hlj]
      · obtain ⟨hlk, hdk⟩ := hden k hk
        simp only [List.getD_eq_getElem?_getD, List.getElem?_set_ne (Ne.symm hki),
          List.getElem_set_ne (Ne.symm hki)]
        rw [← List.getD_eq_getElem?_getD]
        exact ⟨hlk, hdk⟩
    · have hij' : ¬ (i < gs.length ∧ j < gs.length) := by rw [← hlen]; exact hij
      rw [if_neg hij, if_neg hij']
      exact ⟨hlen, hden⟩
  | mul i c =>
    show Denotes a b init (if i < st.length then _ else st) (if i < gs.length then _ else gs)
    by_cases hi : i < st.length
    · have hi' : i < gs.length := by rw [← hlen]; exact hi
      rw [if_pos hi, if_pos hi']
      refine ⟨by simp [hlen], ?_⟩
      intro k hk
      simp only [List.length_set] at hk
      by_cases hki : k = i
      · subst hki
        obtain ⟨hli, hdi⟩ := hden k hi
        simp only [List.getD_eq_getElem?_getD, List.getElem?_set_self hi', Option.getD_some,
          List.getElem_set_self]
        have hgk : gs.getD k [] = gs[k] := getD_lt _ _ hi'
        rw [hgk] at hli hdi
        refine ⟨by simp [List.getElem?_eq_getElem hi', hli], ?_⟩
        intro t ht0 ht1
        simp only [List.getElem?_eq_getElem hi, List.getElem?_eq_getElem hi', Option.getD_some]
        rw [Pwc.mulScalar_evalR, hdi t ht0 ht1, combo_mul]
        rfl
      · obtain ⟨hlk, hdk⟩ := hden k hk
        simp only [List.getD_eq_getElem?_getD, List.getElem?_set_ne (Ne.symm hki),
          List.getElem_set_ne (Ne.symm hki)]
        rw [← List.getD_eq_getElem?_getD]
        exact ⟨hlk, hdk⟩
    · have hi' : ¬ i < gs.length := by rw [← hlen]; exact hi
      rw [if_neg hi, if_neg hi']
      exact ⟨hlen, hden⟩
  | copy i =>
    show Denotes a b init (if i < st.length then _ else st) (if i < gs.length then _ else gs)
    by_cases hi : i < st.length
    · have hi' : i < gs.length := by rw [← hlen]; exact hi
      rw [if_pos hi, if_pos hi']
      refine ⟨by simp [hlen], ?_⟩
      intro k hk
      simp only [List.length_append, List.length_singleton] at hk
      by_cases hkl : k < st.length
      · obtain ⟨hlk, hdk⟩ := hden k hkl
        have hkl' : k < gs.length := by rw [← hlen]; exact hkl
        simp only [List.getD_eq_getElem?_getD, List.getElem?_append_left hkl',
          List.getElem_append_left hkl]
        rw [← List.getD_eq_getElem?_getD]
        exact ⟨hlk, hdk⟩
      · have hke : k = st.length := by omega
        subst hke
        obtain ⟨hli, hdi⟩ := hden i hi
        have : (gs ++ [gs.getD i []]).getD st.length [] = gs.getD i [] := by
          rw [hlen]; simp [List.getD_eq_getElem?_getD]
        rw [this]
        refine ⟨hli, ?_⟩
        intro t ht0 ht1
        have : (st ++ [st.getD i dflt])[st.length]'(by simp) = st[i] := by
          rw [List.getElem_append_right (le_refl _)]
          simp [List.getElem?_eq_getElem hi]
        rw [this]
        exact hdi t ht0 ht1
    · have hi' : ¬ i < gs.length := by rw [← hlen]; exact hi
      rw [if_neg hi, if_neg hi']
      exact ⟨hlen, hden⟩

/-- unit coefficient vectors for the initial store -/
def unitVec (n k : Nat) : List Q := (List.range n).map fun m => if m = k then 1 else 0

/-- **C09 (histories)**: after ANY sequence of add / mul_scalar / copy operations on well-formed
    piecewise-constant functions on a common interval, every object of the store is well formed
    on that interval and its right limit at every time equals the linear combination of the
    initial functions that the same sequence produces symbolically. -/
theorem history_refines (a b : Q) (init : List Pwc) (gs : List (List Q)) (ops : List Op)
    (st : List Pwc) (hok : StoreOK a b st) (h : Denotes a b init st gs) :
    StoreOK a b (run st ops) ∧ Denotes a b init (run st ops) (ops.foldl (gstep init.length) gs) := by
  induction ops generalizing st gs with
  | nil => exact ⟨hok, h⟩
  | cons op r ih =>
    exact ih _ _ (step_ok a b st op hok) (step_denotes a b init st gs op hok h)

/-! non-vacuity -/
def e1 : Pwc := ⟨[0, 1, 3], [2, 5]⟩
def e2 : Pwc := ⟨[0, 2, 3], [1, 4]⟩
example : StoreOK 0 3 [e1, e2] := by
  intro f hf
  simp at hf
  rcases hf with rfl | rfl <;> refine ⟨⟨by decide, by decide, by decide⟩, by decide, by decide⟩
example : run [e1, e2] [.copy 0, .add 0 1, .mul 0 2, .add 2 0] =
    [⟨[0,1,2,3],[6,12,18]⟩, ⟨[0,2,3],[1,4]⟩, ⟨[0,1,2,3],[8,17,23]⟩] := by decide +kernel

end PySpike.C09
