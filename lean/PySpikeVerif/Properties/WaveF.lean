/-
  Properties/WaveF.lean — property theorems of wave F (work packages F1, F2, F3, F5; generated with
  tools/restate.py from lean/restate/*.spec: the statements are verbatim copies of the statements in
  Proofs/AxiomLaws.lean, WindowLaws.lean, OrderApi.lean, Assembled.lean, SpikeScan.lean, so that the
  full statement is visible and audited here). Source of the work list: CLAUSES.md.
-/
import PySpikeVerif.Proofs.AxiomLaws
import PySpikeVerif.Proofs.WindowLaws
import PySpikeVerif.Proofs.OrderApi
import PySpikeVerif.Proofs.Assembled

namespace PySpike.C07
open PySpike PySpike.C01

/-- SPIKE-Sync of a train with itself is 1 (whole recording and every sub-interval), every keyword combination, ALL inputs -/
theorem sync_identity (kw : Kw) (a : Train) :
    (kw.interval = none → spikeSyncBi kw a a = some 1) ∧
    ∀ r, spikeSyncBi kw a a = some r → r = 1 :=
  F1_spikeSyncBi_self kw a

/-- … every event of the profile of a train with itself has value = multiplicity (2, 2) -/
theorem sync_profile_identity (kw : Kw) (a : Train) :
    (∀ e ∈ (syncProfileBi kw a a).e, e.2.1 = e.2.2) ∧
    (syncProfileBi kw a a).interior = (prepBi kw a a).1.spikes.map fun t => (t, (2 : Q), (2 : Q)) :=
  F1_syncProfileBi_self_entries kw a

/-- ISI profile of a valid train with itself is identically 0, every keyword combination -/
theorem isi_profile_identity_any_kw (kw : Kw) (a : Train) (ha : ValidTrain a) :
    ∀ y ∈ (isiProfileBi kw a a).y, y = 0 :=
  F1_isiProfileBi_self kw a ha

/-- … and the ISI distance is 0 (whole recording and every sub-interval) -/
theorem isi_distance_identity (kw : Kw) (a : Train) (ha : ValidTrain a) :
    (kw.interval = none → isiDistanceBi kw a a = some 0) ∧
    ∀ d, isiDistanceBi kw a a = some d → d = 0 :=
  F1_isiDistanceBi_self kw a ha

/-- SPIKE-Sync profile and value are symmetric in the two trains (default reconciliation: all inputs; without: sorted trains on common edges) -/
theorem sync_symmetry (kw : Kw) (a b : Train)
    (h : kw.recon = true ∨
      (StrictSorted a.spikes ∧ StrictSorted b.spikes ∧ b.ts = a.ts ∧ b.te = a.te)) :
    syncProfileBi kw a b = syncProfileBi kw b a ∧ spikeSyncBi kw a b = spikeSyncBi kw b a :=
  F1_syncProfileBi_symm kw a b h

/-- ISI profile and distance are symmetric (default reconciliation: all inputs; without: common edges) -/
theorem isi_symmetry (kw : Kw) (a b : Train)
    (h : kw.recon = true ∨ (b.ts = a.ts ∧ b.te = a.te)) :
    isiProfileBi kw a b = isiProfileBi kw b a ∧ isiDistanceBi kw a b = isiDistanceBi kw b a :=
  F1_isiProfileBi_symm kw a b h

/-- the normalised spike directionality lies in [-1, 1], all inputs -/
theorem directionality_range (kw : Kw) (a b : Train) :
    -1 ≤ spikeDirectionality kw true a b ∧ spikeDirectionality kw true a b ≤ 1 :=
  F1_spikeDirectionality_range kw a b

/-- the un-normalised directionality is bounded by the first train's spike count -/
theorem directionality_abs_bound (kw : Kw) (a b : Train) :
    |spikeDirectionality kw false a b| ≤ (a.spikes.length : Q) :=
  F1_spikeDirectionality_abs_le_input kw a b

/-- un-normalised directionality is antisymmetric, all inputs -/
theorem directionality_antisymmetric (kw : Kw) (a b : Train) :
    spikeDirectionality kw false b a = - spikeDirectionality kw false a b :=
  F1_spikeDirectionality_swap kw a b

/-- swapping the trains negates the summed order value and keeps the multiplicity, all inputs -/
theorem order_values_swap (kw : Kw) (a b : Train) :
    orderValues kw b a = (-(orderValues kw a b).1, (orderValues kw a b).2) :=
  F1_orderValues_swap kw a b

/-- the normalised spike-train order is antisymmetric unless both (reconciled) trains are empty, where both calls return the convention 1 -/
theorem order_antisymmetric (kw : Kw) (a b : Train) :
    ((reconcileBi a b).1.spikes ≠ [] ∨ (reconcileBi a b).2.spikes ≠ [] →
      spikeTrainOrderBi kw true b a = - spikeTrainOrderBi kw true a b) ∧
    ((reconcileBi a b).1.spikes = [] ∧ (reconcileBi a b).2.spikes = [] →
      spikeTrainOrderBi kw true b a = 1 ∧ spikeTrainOrderBi kw true a b = 1) :=
  F1_spikeTrainOrderBi_swap kw a b

end PySpike.C07

namespace PySpike.C18
open PySpike PySpike.C01

/-- every inter-spike-interval length the SPIKE scan divides by is positive for ALL valid trains (F9 class included): start states, every state an iteration starts from, every state produced before t_end; the only zero arises at the last event on t_end and its value is discarded -/
theorem spike_scan_denominators_pos (t1 t2 : List Q) (ts te m : Q) (ri : Bool)
    (h1 : ValidNE t1 ts te) (h2 : ValidNE t2 ts te) (hlt : ts < te) :
    (0 < (B4_init t1 t2 ts te).1.isi ∧ 0 < (B4_init t2 t1 ts te).1.isi) ∧
    (∀ rec ∈ F1_spikeSteps t1 t2 ts te m ri, F1_RecPos te t1 t2 rec) ∧
    ((∀ z ∈ t1, z < te) → (∀ z ∈ t2, z < te) →
      0 < (B4_res t1 t2 ts te m ri).2.1.isi ∧ 0 < (B4_res t1 t2 ts te m ri).2.2.isi) :=
  F1_spike_scan_denominators_pos t1 t2 ts te m ri h1 h2 hlt

/-- … the exception is real: a train that is one spike on t_end ends with interval length 0 -/
theorem spike_scan_zero_only_at_end :
    ValidNE [6] 0 6 ∧ ValidNE [3] 0 6 ∧ (B4_res [6] [3] 0 6 0 false).2.1.isi = 0 :=
  F1_isi_zero_example 

/-- the instrumented trace used in `spike_scan_denominators_pos` IS the scan of the SPIKE profile: same events as the loop (`B4_res`), configurations chained from the two start states to the loop's final states, every event computed from the two configurations of its iteration by the displayed formulas (all inputs) -/
theorem spike_scan_trace_is_the_scan (t1 t2 : List Q) (ts te m : Q) (ri : Bool) :
    (F1_spikeSteps t1 t2 ts te m ri).map (·.2.2) = (B4_res t1 t2 ts te m ri).1 ∧
    F1_linked ((B4_init t1 t2 ts te).1, (B4_init t2 t1 ts te).1) (F1_spikeSteps t1 t2 ts te m ri)
      (B4_res t1 t2 ts te m ri).2 ∧
    ∀ rec ∈ F1_spikeSteps t1 t2 ts te m ri, F1_RecOK m ri rec :=
  F1_spikeSteps_spec t1 t2 ts te m ri

/-- with positive interval lengths every denominator of the combination rule is positive (plain, RI and MRTS-adaptive) -/
theorem combination_rule_denominators_pos (i1 i2 m : Q) (h1 : 0 < i1) (h2 : 0 ≤ i2) :
    0 < (i1 + i2) / 2 ∧ 0 < max m ((i1 + i2) / 2) ∧ 0 < (i1 + i2) / 2 * max m ((i1 + i2) / 2) :=
  F1_distAtT_den_pos i1 i2 m h1 h2

end PySpike.C18

namespace PySpike.C18
open PySpike PySpike.C01

/-- `spikeProfile` is assembled from the loop result `B4_res` exactly like this: first value from the two start states, right values of the events (the one at `t_end` dropped), left values of the events, closing value from the final states when no spike lies on `t_end` -/
theorem spike_profile_is_assembled_from_the_scan (t1 t2 : List Q) (ts te m : Q) (ri : Bool) :
    spikeProfile t1 t2 ts te m ri =
      if (ts :: (B4_res t1 t2 ts te m ri).1.map (·.1)).getLast? = some te then
        (ts :: (B4_res t1 t2 ts te m ri).1.map (·.1),
         (distAtT (B4_init t1 t2 ts te).1.isi (B4_init t2 t1 ts te).1.isi
            (B4_init t1 t2 ts te).2.2.2 (B4_init t2 t1 ts te).2.2.2 m ri
            :: (B4_res t1 t2 ts te m ri).1.map (·.2.2)).dropLast,
         (B4_res t1 t2 ts te m ri).1.map (·.2.1))
      else
        ((ts :: (B4_res t1 t2 ts te m ri).1.map (·.1)) ++ [te],
         distAtT (B4_init t1 t2 ts te).1.isi (B4_init t2 t1 ts te).1.isi
            (B4_init t1 t2 ts te).2.2.2 (B4_init t2 t1 ts te).2.2.2 m ri
            :: (B4_res t1 t2 ts te m ri).1.map (·.2.2),
         (B4_res t1 t2 ts te m ri).1.map (·.2.1) ++
           [distAtT (B4_res t1 t2 ts te m ri).2.1.isi (B4_res t1 t2 ts te m ri).2.2.isi
              (B4_res t1 t2 ts te m ri).2.1.dtf (B4_res t1 t2 ts te m ri).2.2.dtf m ri]) :=
  B4_spikeProfile_unfold t1 t2 ts te m ri

end PySpike.C18

namespace PySpike.C03
open PySpike PySpike.C01

/-- without MRTS and max_tau the coincidence window of a spike pair is the minimum of the four adjacent half inter-spike intervals (a missing neighbour counts as the recording length) -/
theorem window_closed_form (s1 s2 : List Q) (ts te a b : Q)
    (hs1 : ∀ y ∈ s1, ts ≤ y ∧ y ≤ te) (ha : a ∈ s1) :
    tauSpec s1 s2 (trueMax ts te 0) 0 a b =
      min (min (F2_hP s1 a (te - ts)) (F2_hF s1 a (te - ts)))
          (min (F2_hP s2 b (te - ts)) (F2_hF s2 b (te - ts))) :=
  F2_window_closed_form s1 s2 ts te a b hs1 ha

/-- … and with max_tau > 0 additionally capped by max_tau -/
theorem window_closed_form_max_tau (s1 s2 : List Q) (ts te mt a b : Q) (hmt : 0 < mt)
    (hs1 : ∀ y ∈ s1, ts ≤ y ∧ y ≤ te) (hs2 : ∀ y ∈ s2, ts ≤ y ∧ y ≤ te)
    (ha : a ∈ s1) (hb : b ∈ s2) :
    tauSpec s1 s2 (trueMax ts te mt) 0 a b =
      min (min (min (F2_hP s1 a (te - ts)) (F2_hF s1 a (te - ts)))
               (min (F2_hP s2 b (te - ts)) (F2_hF s2 b (te - ts)))) mt :=
  F2_window_closed_form_max_tau s1 s2 ts te mt a b hmt hs1 hs2 ha hb

/-- with MRTS: the documented thresholded interpolation of the two facing half intervals of each train, capped by half the maximal window -/
theorem window_mrts_form (s1 s2 : List Q) (tm m a b : Q) :
    tauSpec s1 s2 tm m a b =
      if a ≤ b then
        min (min (interp (F2_hP s1 a tm) (F2_hF s1 a tm) (m / 4))
                 (interp (F2_hF s2 b tm) (F2_hP s2 b tm) (m / 4))) (tm / 2)
      else
        min (min (interp (F2_hF s1 a tm) (F2_hP s1 a tm) (m / 4))
                 (interp (F2_hP s2 b tm) (F2_hF s2 b tm) (m / 4))) (tm / 2) :=
  F2_tauSpec_unfold s1 s2 tm m a b

/-- … which is the plain minimum when MRTS/4 is below all four half intervals -/
theorem window_small_mrts (s1 s2 : List Q) (tm m a b : Q) (hm : m / 4 ≤ F2_min4 s1 s2 tm a b) :
    tauSpec s1 s2 tm m a b = min (F2_min4 s1 s2 tm a b) (tm / 2) :=
  F2_window_small_mrts s1 s2 tm m a b hm

/-- two-sided bounds of the window for every MRTS -/
theorem window_two_sided_bounds (s1 s2 : List Q) (tm m a b : Q) :
    min (F2_min4 s1 s2 tm a b) (tm / 2) ≤ tauSpec s1 s2 tm m a b ∧
    (a ≤ b → tauSpec s1 s2 tm m a b ≤ min (min (F2_hF s1 a tm) (F2_hP s2 b tm)) (tm / 2)) ∧
    (b < a → tauSpec s1 s2 tm m a b ≤ min (min (F2_hP s1 a tm) (F2_hF s2 b tm)) (tm / 2)) :=
  F2_window_bounds s1 s2 tm m a b

/-- coincidence is mutual: a is coincident with b seen from train 1 iff b is coincident with a seen from train 2 (all inputs) -/
theorem coincidence_mutual (s1 s2 : List Q) (tm m a b : Q) :
    Coinc s1 s2 tm m a b ↔ Coinc s2 s1 tm m b a :=
  F2_coincidence_mutual s1 s2 tm m a b

/-- simultaneous spikes are coincident whenever the maximal window is positive -/
theorem simultaneous_spikes_coincident (s1 s2 : List Q) (tm m a : Q) (htm : 0 < tm) :
    Coinc s1 s2 tm m a a ∧ Coinc s2 s1 tm m a a :=
  F2_coincidence_simultaneous s1 s2 tm m a htm

end PySpike.C03

namespace PySpike.C04
open PySpike PySpike.C01

/-- swapping the trains negates the whole order profile; for two empty trains the profile is the constant convention (1,1) — no exclusion -/
theorem swap_negates_order_profile_all (s1 s2 : List Q) (ts te mt m : Q)
    (h1 : s1.Pairwise (· < ·)) (h2 : s2.Pairwise (· < ·)) :
    orderProfile s2 s1 ts te mt m =
      if s1 = [] ∧ s2 = [] then [(ts, 1, 1), (te, 1, 1)]
      else (orderProfile s1 s2 ts te mt m).map (fun e => (e.1, -e.2.1, e.2.2)) :=
  F2_orderProfile_swap_all s1 s2 ts te mt m h1 h2

/-- … on the spike events, no exclusion -/
theorem swap_negates_order_profile_events (s1 s2 : List Q) (ts te mt m : Q)
    (h1 : s1.Pairwise (· < ·)) (h2 : s2.Pairwise (· < ·)) :
    (Disc.mk (orderProfile s2 s1 ts te mt m)).interior
      = (Disc.mk (orderProfile s1 s2 ts te mt m)).interior.map (fun e => (e.1, -e.2.1, e.2.2)) :=
  F2_orderProfile_swap_interior s1 s2 ts te mt m h1 h2

end PySpike.C04

namespace PySpike.C08
open PySpike PySpike.C01

/-- time reversal mirrors and negates the order profile; two empty trains: the constant convention — no exclusion -/
theorem order_profile_mirror_all (s1 s2 : List Q) (ts te mt m : Q)
    (h1 : StrictSorted s1) (h2 : StrictSorted s2) :
    orderProfile (B10_mir (ts + te) s1) (B10_mir (ts + te) s2) ts te mt m =
      if s1 = [] ∧ s2 = [] then [(ts, 1, 1), (te, 1, 1)]
      else ((orderProfile s1 s2 ts te mt m).map
          fun e => (B10_psi (ts + te) e.1, -e.2.1, e.2.2)).reverse :=
  F2_orderProfile_mirror_all s1 s2 ts te mt m h1 h2

end PySpike.C08

namespace PySpike.C16
open PySpike PySpike.C01

/-- enlarging max_tau (None/0 = largest) keeps every event time and multiplicity and never removes a coincidence from the SPIKE-Sync profile -/
theorem sync_profile_monotone_in_max_tau (s1 s2 : List Q) (ts te mt1 mt2 m : Q)
    (h1 : StrictSorted s1) (h2 : StrictSorted s2) (h : F2_MaxTauLe mt1 mt2) :
    List.Forall₂ C5_EntryLe (coincProfile s1 s2 ts te mt1 m) (coincProfile s1 s2 ts te mt2 m) :=
  F2_coincProfile_mono_max_tau s1 s2 ts te mt1 mt2 m h1 h2 h

/-- … nor from the filter's per-spike indicator -/
theorem filter_indicator_monotone_in_max_tau (s1 s2 : List Q) (ts te mt1 mt2 m : Q)
    (h1 : StrictSorted s1) (h2 : StrictSorted s2) (h : F2_MaxTauLe mt1 mt2) :
    List.Forall₂ (fun x y : Q => x ≤ y ∧ (x = 1 → y = 1))
      (coincSingle s1 s2 ts te mt1 m) (coincSingle s1 s2 ts te mt2 m) :=
  F2_coincSingle_mono_max_tau s1 s2 ts te mt1 mt2 m h1 h2 h

/-- … a marked entry of the spike-train-order profile keeps its sign -/
theorem order_profile_monotone_in_max_tau (s1 s2 : List Q) (ts te mt1 mt2 m : Q)
    (h1 : StrictSorted s1) (h2 : StrictSorted s2) (h : F2_MaxTauLe mt1 mt2) :
    List.Forall₂ F2_EntryKeep (orderProfile s1 s2 ts te mt1 m) (orderProfile s1 s2 ts te mt2 m) :=
  F2_orderProfile_mono_max_tau s1 s2 ts te mt1 mt2 m h1 h2 h

/-- … and so do the directionality values -/
theorem directionality_monotone_in_max_tau (s1 s2 : List Q) (ts te mt1 mt2 m : Q)
    (h1 : StrictSorted s1) (h2 : StrictSorted s2) (h : F2_MaxTauLe mt1 mt2) :
    List.Forall₂ (fun x y : Q => x ≠ 0 → y = x)
      (dirProfile s1 s2 ts te mt1 m).1 (dirProfile s1 s2 ts te mt2 m).1 ∧
    List.Forall₂ (fun x y : Q => x ≠ 0 → y = x)
      (dirProfile s1 s2 ts te mt1 m).2 (dirProfile s1 s2 ts te mt2 m).2 :=
  F2_dirProfile_mono_max_tau s1 s2 ts te mt1 mt2 m h1 h2 h

end PySpike.C16

namespace PySpike.C04
open PySpike PySpike.C01

/-- the public `spike_directionality` of a valid pair = sum of the first train's directionality indicators against the second (the pairwise sign-convention definition `dirSpec1`), divided by the first train's spike count when normalised (0 for a train without spikes) -/
theorem directionality_is_sum_of_values (kw : Kw) (normalize : Bool) (a b : Train) (ts te : Q)
    (hv : C4_Valid ts te [a, b]) :
    spikeDirectionality kw normalize a b =
      (let d := qsum (dirSpec1 a.spikes b.spikes (trueMax a.ts a.te kw.maxTau) kw.mrts)
       if normalize then (if a.spikes = [] then 0 else d / (a.spikes.length : Q)) else d) :=
  F3_directionality_is_sum kw normalize a b ts te hv

/-- the same for arbitrary input with reconciliation (default): the formula holds on the reconciled pair -/
theorem directionality_is_sum_of_values_reconciled (kw : Kw) (normalize : Bool) (a b : Train)
    (hr : kw.recon = true) :
    spikeDirectionality kw normalize a b =
      (let a' := (reconcileBi a b).1
       let b' := (reconcileBi a b).2
       let d := qsum (dirSpec1 a'.spikes b'.spikes (trueMax a'.ts a'.te kw.maxTau) kw.mrts)
       if normalize then (if a'.spikes = [] then 0 else d / (a'.spikes.length : Q)) else d) :=
  F3_directionality_is_sum_recon kw normalize a b hr

/-- synfire indicator = 2 · upper-triangle sum of the un-normalised directionality matrix / ((N−1) · number of spikes), for valid lists and EVERY keyword combination (reconciliation on or off) -/
theorem synfire_identity_valid (kw : Kw) (L : List Train) (ts te : Q) (hv : B5_ValidList ts te L) :
    spikeTrainOrderMulti kw none L =
      (let n := L.length
       let T := qsum (L.map fun t => (t.spikes.length : Q))
       if ((n : Q) - 1) * T = 0 then 1
       else 2 * B2_upperSum (spikeDirectionalityMatrix kw false none L) n / (((n : Q) - 1) * T)) :=
  F3_synfire_identity_all kw L ts te hv

/-- … and for an `indices` selection -/
theorem synfire_identity_indices (kw : Kw) (idx : List Nat) (L : List Train) (ts te : Q)
    (hv : B5_ValidList ts te L) (hl : idxValid idx L.length = true) :
    spikeTrainOrderMulti kw (some idx) L =
      (let n := idx.length
       let T := qsum (idx.map fun i => ((tr L i).spikes.length : Q))
       if ((n : Q) - 1) * T = 0 then 1
       else 2 * B2_upperSum (spikeDirectionalityMatrix kw false (some idx) L) n
          / (((n : Q) - 1) * T)) :=
  F3_synfire_identity_indices kw idx L ts te hv hl

/-- entries of the directionality matrix: above the diagonal the pair's directionality, below its negative; un-normalised: entry (i,j) = directionality of (i,j) for all i ≠ j -/
theorem matrix_entries_are_pair_directionalities (kw : Kw) (normalize : Bool) (L : List Train)
    (ts te : Q) (hv : B5_ValidList ts te L) (i j : Nat) (hi : i < L.length) (hj : j < L.length) :
    (i < j → ((spikeDirectionalityMatrix kw normalize none L).getD i []).getD j 0 =
        spikeDirectionality kw normalize (tr L i) (tr L j)) ∧
    (j < i → ((spikeDirectionalityMatrix kw normalize none L).getD i []).getD j 0 =
        - spikeDirectionality kw normalize (tr L j) (tr L i)) ∧
    (i ≠ j → ((spikeDirectionalityMatrix kw false none L).getD i []).getD j 0 =
        spikeDirectionality kw false (tr L i) (tr L j)) :=
  F3_matrix_entry_all kw normalize L ts te hv i j hi hj

/-- … for an `indices` selection -/
theorem matrix_entries_indices (kw : Kw) (normalize : Bool) (idx : List Nat) (L : List Train)
    (ts te : Q) (hv : B5_ValidList ts te L) (hl : idxValid idx L.length = true)
    (i j : Nat) (hi : i < idx.length) (hj : j < idx.length) :
    (i < j → ((spikeDirectionalityMatrix kw normalize (some idx) L).getD i []).getD j 0 =
        spikeDirectionality kw normalize (tr L (idx.getD i 0)) (tr L (idx.getD j 0))) ∧
    (j < i → ((spikeDirectionalityMatrix kw normalize (some idx) L).getD i []).getD j 0 =
        - spikeDirectionality kw normalize (tr L (idx.getD j 0)) (tr L (idx.getD i 0))) ∧
    (i ≠ j → ((spikeDirectionalityMatrix kw false (some idx) L).getD i []).getD j 0 =
        spikeDirectionality kw false (tr L (idx.getD i 0)) (tr L (idx.getD j 0))) :=
  F3_matrix_entry_indices kw normalize idx L ts te hv hl i j hi hj

end PySpike.C04

namespace PySpike.C05
open PySpike PySpike.C01

/-- multivariate spike-train order = ratio of the summed multivariate order profile, valid lists, EVERY keyword combination -/
theorem order_multi_is_profile_ratio_valid (kw : Kw) (L : List Train) (ts te : Q)
    (hv : B5_ValidList ts te L) (h2 : 2 ≤ L.length) :
    spikeTrainOrderMulti kw none L = syncRatio ((orderProfileMulti kw none L).integralAll) :=
  F3_order_multi_is_profile_ratio_all kw L ts te hv h2

/-- … for an `indices` selection -/
theorem order_multi_is_profile_ratio_indices (kw : Kw) (idx : List Nat) (L : List Train)
    (ts te : Q) (hv : B5_ValidList ts te L) (hl : idxValid idx L.length = true)
    (h2 : 2 ≤ idx.length) :
    spikeTrainOrderMulti kw (some idx) L
      = syncRatio ((orderProfileMulti kw (some idx) L).integralAll) :=
  F3_order_multi_is_profile_ratio_indices kw idx L ts te hv hl h2

end PySpike.C05

namespace PySpike.C01
open PySpike PySpike.C01

/-- the public bivariate ISI profile equals the definition for EVERY keyword combination -/
theorem isi_profile_api_values_any_kw (kw : Kw) (a b : Train) (ha : ValidTrain a) (hb : ValidTrain b)
    (hts : b.ts = a.ts) (hte : b.te = a.te) :
    (isiProfileBi kw a b).y.length + 1 = (isiProfileBi kw a b).x.length ∧
    ∀ k (hk : k < (isiProfileBi kw a b).y.length)
      (hk1 : k + 1 < (isiProfileBi kw a b).x.length) (t : Q),
      (isiProfileBi kw a b).x[k]'(by omega) ≤ t → t < (isiProfileBi kw a b).x[k+1] →
      (isiProfileBi kw a b).y[k]
        = isiVal (nuAt a.spikes a.ts a.te t) (nuAt b.spikes a.ts a.te t) kw.mrts :=
  F5_isi_profile_api_values kw a b ha hb hts hte

end PySpike.C01

namespace PySpike.C02
open PySpike PySpike.C01

/-- the PUBLIC bivariate SPIKE profile (every keyword combination, empty trains included) equals the definition at every breakpoint, outside the F9 class -/
theorem spike_profile_api_is_definition_partial (kw : Kw) (a b : Train)
    (ha : ValidTrain a) (hb : ValidTrain b) (hts : b.ts = a.ts) (hte : b.te = a.te)
    (hna : a.spikes ≠ [a.ts]) (hnb : b.spikes ≠ [b.ts]) :
    ((spikeProfileBi kw a b).y1, (spikeProfileBi kw a b).y2) =
      spikeSpecProfile a.nonEmpty b.nonEmpty a.ts a.te kw.mrts kw.ri (spikeProfileBi kw a b).x :=
  F5_spike_profile_api_is_definition_partial kw a b ha hb hts hte hna hnb

/-- … and at every time inside a piece -/
theorem spike_profile_api_value_at_every_time_partial (kw : Kw) (a b : Train)
    (ha : ValidTrain a) (hb : ValidTrain b) (hts : b.ts = a.ts) (hte : b.te = a.te)
    (hna : a.spikes ≠ [a.ts]) (hnb : b.spikes ≠ [b.ts])
    (k : Nat) (hk : k + 1 < (spikeProfileBi kw a b).x.length) (t : Q)
    (hxt : nth (spikeProfileBi kw a b).x k ≤ t) (htx : t < nth (spikeProfileBi kw a b).x (k + 1)) :
    ((spikeProfileBi kw a b).pieceAt k).at t =
      spikeSpec a.nonEmpty b.nonEmpty a.ts a.te kw.mrts kw.ri t true :=
  F5_spike_profile_api_value_at_every_time_partial kw a b ha hb hts hte hna hnb k hk t hxt htx

/-- what a train without spikes contributes in the definition: its two edges act as auxiliary spikes -/
theorem empty_train_contribution (o : List Q) (ts te t : Q) (right : Bool)
    (hl : if right then ts ≤ t else ts < t) (hu : if right then t < te else t ≤ te) :
    spikeContrib [ts, te] o ts te t right =
      ((dtTo ts (extTrain o ts te) * (te - t) + dtTo te (extTrain o ts te) * (t - ts)) / (te - ts),
       te - ts) :=
  F5_empty_train_contrib o ts te t right hl hu

/-- … nearest-spike distance to a train without spikes -/
theorem empty_train_nearest_distance (ts te x : Q) (h0 : ts ≤ x) (h1 : x ≤ te) :
    dtTo x (extTrain [ts, te] ts te) = min (x - ts) (te - x) :=
  F5_dtTo_empty_train ts te x h0 h1

end PySpike.C02

namespace PySpike.C06
open PySpike PySpike.C01

/-- multivariate ISI distance = mean of the PUBLIC pair distances computed with the same keywords -/
theorem isi_distance_multi_is_mean_of_pair_distances (kw : Kw) (L : List Train) (ts te : Q)
    (hv : B5_ValidList ts te L) (d : Nat × Nat → Q)
    (hd : ∀ p ∈ pairsOf (List.range L.length), isiDistanceBi kw (tr L p.1) (tr L p.2) = some (d p)) :
    isiDistanceMulti kw none L =
      some (qsum ((pairsOf (List.range L.length)).map d) / ((pairsOf (List.range L.length)).length : Q)) :=
  F5_isi_distance_multi_is_mean_of_pair_distances kw L ts te hv d hd

/-- … SPIKE -/
theorem spike_distance_multi_is_mean_of_pair_distances (kw : Kw) (L : List Train) (ts te : Q)
    (hv : B5_ValidList ts te L) (d : Nat × Nat → Q)
    (hd : ∀ p ∈ pairsOf (List.range L.length), spikeDistanceBi kw (tr L p.1) (tr L p.2) = some (d p)) :
    spikeDistanceMulti kw none L =
      some (qsum ((pairsOf (List.range L.length)).map d) / ((pairsOf (List.range L.length)).length : Q)) :=
  F5_spike_distance_multi_is_mean_of_pair_distances kw L ts te hv d hd

/-- multivariate SPIKE-Sync = total coincidences / total multiplicity of the public pair values -/
theorem spike_sync_multi_is_pooled_pair_ratio (kw : Kw) (L : List Train) (ts te : Q)
    (hv : B5_ValidList ts te L) (cm : Nat × Nat → Q × Q)
    (hd : ∀ p ∈ pairsOf (List.range L.length), syncValues kw (tr L p.1) (tr L p.2) = some (cm p)) :
    spikeSyncMulti kw none L =
      some (syncRatio (qsum ((pairsOf (List.range L.length)).map fun p => (cm p).1),
                       qsum ((pairsOf (List.range L.length)).map fun p => (cm p).2))) :=
  F5_spike_sync_multi_is_pooled_pair_ratio kw L ts te hv cm hd

/-- … with all pair values defined for every accepted interval (ISI) -/
theorem isi_distance_multi_mean_defined (kw : Kw) (L : List Train) (ts te : Q)
    (hv : B5_ValidList ts te L) (hiv : D4_IvIsi ts te kw) :
    (∀ p ∈ pairsOf (List.range L.length), ∃ d, isiDistanceBi kw (tr L p.1) (tr L p.2) = some d) ∧
    isiDistanceMulti kw none L =
      some (qsum ((pairsOf (List.range L.length)).map fun p =>
          (isiDistanceBi kw (tr L p.1) (tr L p.2)).getD 0)
        / ((pairsOf (List.range L.length)).length : Q)) :=
  F5_isi_distance_multi_mean_defined kw L ts te hv hiv

/-- … (SPIKE) -/
theorem spike_distance_multi_mean_defined (kw : Kw) (L : List Train) (ts te : Q)
    (hv : B5_ValidList ts te L) (hiv : D4_IvSpike ts kw) :
    (∀ p ∈ pairsOf (List.range L.length), ∃ d, spikeDistanceBi kw (tr L p.1) (tr L p.2) = some d) ∧
    spikeDistanceMulti kw none L =
      some (qsum ((pairsOf (List.range L.length)).map fun p =>
          (spikeDistanceBi kw (tr L p.1) (tr L p.2)).getD 0)
        / ((pairsOf (List.range L.length)).length : Q)) :=
  F5_spike_distance_multi_mean_defined kw L ts te hv hiv

/-- … (SPIKE-Sync) -/
theorem spike_sync_multi_pooled_defined (kw : Kw) (L : List Train) (ts te : Q)
    (hv : B5_ValidList ts te L) (hiv : D4_IvSync ts te kw) :
    (∀ p ∈ pairsOf (List.range L.length), ∃ cm, syncValues kw (tr L p.1) (tr L p.2) = some cm) ∧
    spikeSyncMulti kw none L =
      some (syncRatio
        (qsum ((pairsOf (List.range L.length)).map fun p =>
            ((syncValues kw (tr L p.1) (tr L p.2)).getD (0, 0)).1),
         qsum ((pairsOf (List.range L.length)).map fun p =>
            ((syncValues kw (tr L p.1) (tr L p.2)).getD (0, 0)).2))) :=
  F5_spike_sync_multi_pooled_defined kw L ts te hv hiv

/-- left limits: multivariate ISI profile = mean of the pair profiles -/
theorem isi_multi_profile_left_limit_is_mean (kw : Kw) (L : List Train) (ts te t : Q)
    (hv : B5_ValidList ts te L) (h2 : 2 ≤ L.length) (ht0 : ts < t) (ht1 : t ≤ te) :
    (isiProfileMulti kw none L).evalL t =
      some (qsum ((pairsOf (List.range L.length)).map fun p =>
          ((isiProfileBi kw (tr L p.1) (tr L p.2)).evalL t).getD 0)
        / ((pairsOf (List.range L.length)).length : Q)) ∧
    ∀ p ∈ pairsOf (List.range L.length),
      (isiProfileBi kw (tr L p.1) (tr L p.2)).evalL t =
        some (((isiProfileBi kw (tr L p.1) (tr L p.2)).evalL t).getD 0) :=
  F5_isi_multi_profile_left_limit_is_mean kw L ts te t hv h2 ht0 ht1

/-- left limits: multivariate SPIKE profile = mean of the pair profiles -/
theorem spike_multi_profile_left_limit_is_mean (kw : Kw) (L : List Train) (ts te t : Q)
    (hv : B5_ValidList ts te L) (h2 : 2 ≤ L.length) (ht0 : ts < t) (ht1 : t ≤ te) :
    (spikeProfileMulti kw none L).evalL t =
      some (qsum ((pairsOf (List.range L.length)).map fun p =>
          ((spikeProfileBi kw (tr L p.1) (tr L p.2)).evalL t).getD 0)
        / ((pairsOf (List.range L.length)).length : Q)) ∧
    ∀ p ∈ pairsOf (List.range L.length),
      (spikeProfileBi kw (tr L p.1) (tr L p.2)).evalL t =
        some (((spikeProfileBi kw (tr L p.1) (tr L p.2)).evalL t).getD 0) :=
  F5_spike_multi_profile_left_limit_is_mean kw L ts te t hv h2 ht0 ht1

/-- the multivariate SPIKE-Sync profile carries at every time the summed values and multiplicities of all pair profiles -/
theorem sync_multi_profile_is_pair_sum (kw : Kw) (L : List Train) (ts te : Q)
    (hv : B5_ValidList ts te L) (h2 : 2 ≤ L.length) (t : Q) :
    (syncProfileMulti kw none L).at t =
      (qsum ((pairsOf (List.range L.length)).map fun p =>
          ((syncProfileBi kw (tr L p.1) (tr L p.2)).at t).1),
       qsum ((pairsOf (List.range L.length)).map fun p =>
          ((syncProfileBi kw (tr L p.1) (tr L p.2)).at t).2)) :=
  F5_sync_multi_profile_at_is_pair_sum kw L ts te hv h2 t

/-- ISI distance ignores list order (default reconciliation: all inputs; without: common edges) -/
theorem isi_distance_order_independent_any (kw : Kw) {L' L : List Train} (ts te : Q)
    (he : kw.recon = true ∨ ∀ a ∈ L, a.ts = ts ∧ a.te = te) (hp : L'.Perm L) :
    isiDistanceMulti kw none L' = isiDistanceMulti kw none L :=
  F5_isi_distance_order_independent kw ts te he hp

end PySpike.C06

namespace PySpike.C17
open PySpike PySpike.C01

/-- a spike at time t of train i is kept iff its coincidence count exceeds threshold·(N−1), removed otherwise (every keyword combination, shared spike times included) -/
theorem keep_iff_count_at_time (kw : Kw) (thr : Q) (L : List Train) (ts te : Q)
    (hv : B5_ValidList ts te L) (i : Nat) (hi : i < L.length) (t : Q) (ht : t ∈ (tr L i).spikes) :
    (t ∈ (tr (filterBySync kw thr L).1 i).spikes ↔
      C4_countAt kw L i t > thr * ((L.length : Q) - 1)) ∧
    (t ∈ (tr (filterBySync kw thr L).2 i).spikes ↔
      C4_countAt kw L i t ≤ thr * ((L.length : Q) - 1)) :=
  F5_filter_keep_iff_countAt kw thr L ts te hv i hi t ht

/-- the multivariate profile at t: summed counts of the trains spiking at t over |A_t|·(N−1), every keyword combination -/
theorem multi_profile_at_time_any_kw (kw : Kw) (L : List Train) (ts te : Q)
    (hv : B5_ValidList ts te L) (h2 : 2 ≤ L.length) (t : Q) :
    (syncProfileMulti kw none L).at t =
      (((C4_trainsAt L t).map fun i => C4_countAt kw L i t).sum,
       ((C4_trainsAt L t).length : Q) * ((L.length : Q) - 1)) :=
  F5_multi_profile_at_time kw L ts te hv h2 t

/-- if the spike is kept in every train that spikes at t, the profile fraction at t exceeds the threshold -/
theorem all_kept_implies_profile_above (kw : Kw) (thr : Q) (L : List Train) (ts te : Q)
    (hv : B5_ValidList ts te L) (h2 : 2 ≤ L.length) (t : Q) (hne : C4_trainsAt L t ≠ [])
    (hk : ∀ i ∈ C4_trainsAt L t, t ∈ (tr (filterBySync kw thr L).1 i).spikes) :
    ((syncProfileMulti kw none L).at t).1 > thr * ((syncProfileMulti kw none L).at t).2 :=
  F5_all_kept_profile_above kw thr L ts te hv h2 t hne hk

/-- if it is removed in every such train, the profile fraction is at most the threshold -/
theorem all_removed_implies_profile_below (kw : Kw) (thr : Q) (L : List Train) (ts te : Q)
    (hv : B5_ValidList ts te L) (h2 : 2 ≤ L.length) (t : Q)
    (hk : ∀ i ∈ C4_trainsAt L t, t ∈ (tr (filterBySync kw thr L).2 i).spikes) :
    ((syncProfileMulti kw none L).at t).1 ≤ thr * ((syncProfileMulti kw none L).at t).2 :=
  F5_all_removed_profile_below kw thr L ts te hv h2 t hk

/-- when all trains spiking at t have the same count, kept ⇔ profile fraction above threshold -/
theorem kept_iff_profile_above_equal_counts (kw : Kw) (thr : Q) (L : List Train) (ts te : Q)
    (hv : B5_ValidList ts te L) (h2 : 2 ≤ L.length) (i : Nat) (hi : i < L.length) (t : Q)
    (ht : t ∈ (tr L i).spikes)
    (hc : ∀ j ∈ C4_trainsAt L t, C4_countAt kw L j t = C4_countAt kw L i t) :
    t ∈ (tr (filterBySync kw thr L).1 i).spikes ↔
      ((syncProfileMulti kw none L).at t).1 > thr * ((syncProfileMulti kw none L).at t).2 :=
  F5_kept_iff_profile_above_of_equal_counts kw thr L ts te hv h2 i hi t ht hc

end PySpike.C17

