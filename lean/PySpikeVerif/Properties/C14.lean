/-
  Properties/C14.lean — all call forms and index selections of a measure agree.
  API model: Model/Api.lean; proofs: Proofs/ApiLaws.lean. `kw.recon = false` in the `indices`
  theorems: the property is about valid trains (reconciliation is the identity on them, C13);
  the two-train-vs-list theorems hold for every keyword record, reconciliation included.
  `interval`, `max_tau`, `MRTS`, `RI` are fields of `kw` and are therefore carried through every form.
-/
import PySpikeVerif.Proofs.ApiLaws

namespace PySpike.C14
open PySpike

/-! ### two trains = list of those two trains -/
theorem isi_profile_pair (kw : Kw) (a b : Train) : isiProfileMulti kw none [a, b] = isiProfileBi kw a b :=
  isiProfileMulti_pair kw a b
theorem spike_profile_pair (kw : Kw) (a b : Train) : spikeProfileMulti kw none [a, b] = spikeProfileBi kw a b :=
  spikeProfileMulti_pair kw a b
theorem sync_profile_pair (kw : Kw) (a b : Train) : syncProfileMulti kw none [a, b] = syncProfileBi kw a b :=
  syncProfileMulti_pair kw a b
theorem order_profile_pair (kw : Kw) (a b : Train) : orderProfileMulti kw none [a, b] = orderProfileBi kw a b :=
  orderProfileMulti_pair kw a b
theorem isi_distance_pair (kw : Kw) (a b : Train) : isiDistanceMulti kw none [a, b] = isiDistanceBi kw a b :=
  isiDistanceMulti_pair kw a b
theorem spike_distance_pair (kw : Kw) (a b : Train) : spikeDistanceMulti kw none [a, b] = spikeDistanceBi kw a b :=
  spikeDistanceMulti_pair kw a b
theorem spike_sync_pair (kw : Kw) (a b : Train) : spikeSyncMulti kw none [a, b] = spikeSyncBi kw a b :=
  spikeSyncMulti_pair kw a b
theorem order_pair (kw : Kw) (a b : Train) : spikeTrainOrderMulti kw none [a, b] = spikeTrainOrderBi kw true a b :=
  spikeTrainOrderMulti_pair kw a b

/-! ### `indices` = passing the selected sub-list (any subset, any order) -/
section
variable (kw : Kw) (idx : List Nat) (L : List Train) (hr : kw.recon = false) (hv : idxValid idx L.length)
include hr hv

theorem isi_profile_indices (h2 : 2 ≤ idx.length) :
    isiProfileMulti kw (some idx) L = isiProfileMulti kw none (idx.map (tr L)) :=
  isiProfileMulti_indices kw idx L hr hv h2
theorem spike_profile_indices (h2 : 2 ≤ idx.length) :
    spikeProfileMulti kw (some idx) L = spikeProfileMulti kw none (idx.map (tr L)) :=
  spikeProfileMulti_indices kw idx L hr hv h2
theorem sync_profile_indices (h2 : 2 ≤ idx.length) :
    syncProfileMulti kw (some idx) L = syncProfileMulti kw none (idx.map (tr L)) :=
  syncProfileMulti_indices kw idx L hr hv h2
theorem order_profile_indices (h2 : 2 ≤ idx.length) :
    orderProfileMulti kw (some idx) L = orderProfileMulti kw none (idx.map (tr L)) :=
  orderProfileMulti_indices kw idx L hr hv h2
theorem isi_distance_indices : isiDistanceMulti kw (some idx) L = isiDistanceMulti kw none (idx.map (tr L)) :=
  isiDistanceMulti_indices kw idx L hr hv
theorem spike_distance_indices : spikeDistanceMulti kw (some idx) L = spikeDistanceMulti kw none (idx.map (tr L)) :=
  spikeDistanceMulti_indices kw idx L hr hv
theorem spike_sync_indices : spikeSyncMulti kw (some idx) L = spikeSyncMulti kw none (idx.map (tr L)) :=
  spikeSyncMulti_indices kw idx L hr hv
theorem order_indices : spikeTrainOrderMulti kw (some idx) L = spikeTrainOrderMulti kw none (idx.map (tr L)) :=
  spikeTrainOrderMulti_indices kw idx L hr hv
theorem isi_matrix_indices : isiDistanceMatrix kw (some idx) L = isiDistanceMatrix kw none (idx.map (tr L)) :=
  isiDistanceMatrix_indices kw idx L hr hv
theorem spike_matrix_indices : spikeDistanceMatrix kw (some idx) L = spikeDistanceMatrix kw none (idx.map (tr L)) :=
  spikeDistanceMatrix_indices kw idx L hr hv
theorem sync_matrix_indices : spikeSyncMatrix kw (some idx) L = spikeSyncMatrix kw none (idx.map (tr L)) :=
  spikeSyncMatrix_indices kw idx L hr hv
theorem directionality_values_indices : dirValues kw (some idx) L = dirValues kw none (idx.map (tr L)) :=
  dirValues_indices kw idx L hr hv
theorem directionality_matrix_indices (normalize : Bool) :
    spikeDirectionalityMatrix kw normalize (some idx) L =
      spikeDirectionalityMatrix kw normalize none (idx.map (tr L)) :=
  spikeDirectionalityMatrix_indices kw normalize idx L hr hv
end

/-- a longer list with `indices = [i, j]` = the two-train call -/
theorem isi_profile_two_indices (kw : Kw) (L : List Train) (i j : Nat) (hr : kw.recon = false)
    (hi : i < L.length) (hj : j < L.length) :
    isiProfileMulti kw (some [i, j]) L = isiProfileBi kw (tr L i) (tr L j) := by
  rw [isiProfileMulti_indices kw [i, j] L hr (by simp [idxValid, hi, hj]) (by simp)]
  exact isiProfileMulti_pair kw _ _
theorem isi_distance_two_indices (kw : Kw) (L : List Train) (i j : Nat) (hr : kw.recon = false)
    (hi : i < L.length) (hj : j < L.length) :
    isiDistanceMulti kw (some [i, j]) L = isiDistanceBi kw (tr L i) (tr L j) := by
  rw [isiDistanceMulti_indices kw [i, j] L hr (by simp [idxValid, hi, hj])]
  exact isiDistanceMulti_pair kw _ _
theorem spike_profile_two_indices (kw : Kw) (L : List Train) (i j : Nat) (hr : kw.recon = false)
    (hi : i < L.length) (hj : j < L.length) :
    spikeProfileMulti kw (some [i, j]) L = spikeProfileBi kw (tr L i) (tr L j) := by
  rw [spikeProfileMulti_indices kw [i, j] L hr (by simp [idxValid, hi, hj]) (by simp)]
  exact spikeProfileMulti_pair kw _ _
theorem spike_sync_two_indices (kw : Kw) (L : List Train) (i j : Nat) (hr : kw.recon = false)
    (hi : i < L.length) (hj : j < L.length) :
    spikeSyncMulti kw (some [i, j]) L = spikeSyncBi kw (tr L i) (tr L j) := by
  rw [spikeSyncMulti_indices kw [i, j] L hr (by simp [idxValid, hi, hj])]
  exact spikeSyncMulti_pair kw _ _
theorem order_two_indices (kw : Kw) (L : List Train) (i j : Nat) (hr : kw.recon = false)
    (hi : i < L.length) (hj : j < L.length) :
    spikeTrainOrderMulti kw (some [i, j]) L = spikeTrainOrderBi kw true (tr L i) (tr L j) := by
  rw [spikeTrainOrderMulti_indices kw [i, j] L hr (by simp [idxValid, hi, hj])]
  exact spikeTrainOrderMulti_pair kw _ _

end PySpike.C14
