/-
  Model/Spike.lean — `get_min_dist`, `dist_at_t`, `spike_distance_python`
  (pyspike/cython/python_backend.py:103-320) as list recursion.
  Per train the code keeps (t_p, t_f, dt_p, dt_f, isi) and a cursor; the model keeps the same
  five numbers plus the last consumed spike and the remaining spikes.
-/
import PySpikeVerif.Model.Isi
namespace PySpike

/-- body of the `while` loop of `get_min_dist` with the running minimum `d` -/
def getMinDistFrom (x : Q) (tr : List Q) (d : Q) (aux1 : Q) : Q :=
  match tr with
  | [] => let dt := qabs (aux1 - x); if dt > d then d else dt
  | y :: r => let dt := qabs (x - y); if dt > d then d else getMinDistFrom x r dt aux1

/-- `get_min_dist(spike_time, spike_train[start_index:], t_aux[0], t_aux[1])` -/
def minDist (x : Q) (tr : List Q) (aux0 aux1 : Q) : Q :=
  getMinDistFrom x tr (qabs (x - aux0)) aux1

/-- `dist_at_t`, python_backend.py:127-138 -/
def distAtT (isi1 isi2 s1 s2 m : Q) (ri : Bool) : Q :=
  let mean := (isi1 + isi2) / 2
  let lim := max m mean
  if ri then ((s1 + s2) / 2) / lim
  else ((s1 * isi2 + s2 * isi1) / 2) / (mean * lim)

/-- `t_aux[0]`, python_backend.py:172 -/
def auxStart (t : List Q) (ts : Q) : Q :=
  match t with
  | a :: b :: _ => min ts (a - (b - a))
  | _ => ts

/-- `t_aux[1]`, python_backend.py:173 -/
def auxEnd (t : List Q) (te : Q) : Q :=
  match t with
  | [] => te
  | [_] => te
  | [p, l] => max te (l + (l - p))
  | _ :: b :: c :: r => auxEnd (b :: c :: r) te

structure SpkSt where
  tp : Q
  tf : Q
  dtp : Q
  dtf : Q
  isi : Q
deriving Repr

/-- start-edge initialisation for one train (python_backend.py:176-213).
    `t` own spikes, `o` the other train, `a0` own `t_aux[0]`, `oa0 oa1` the other's aux spikes.
    Returns the numeric state, the last consumed spike, the remaining spikes and the initial `s`. -/
def spkInit (t o : List Q) (ts te a0 oa0 oa1 : Q) : SpkSt × Option Q × List Q × Q :=
  match t with
  | [] => (⟨ts, te, 0, 0, te - ts⟩, none, [], 0)   -- not reachable through the API
  | a :: r =>
    let tp := if a = ts then ts else a0
    if a > ts then
      let tf := a
      let dtf := minDist tf o oa0 oa1
      let isi := match r with | b :: _ => max (tf - ts) (b - a) | [] => tf - ts
      (⟨tp, tf, dtf, dtf, isi⟩, none, a :: r, dtf)
    else
      let tf := match r with | b :: _ => b | [] => te
      let dtp := minDist tp o oa0 oa1
      let dtf := minDist tf o oa0 oa1
      (⟨tp, tf, dtp, dtf, tf - a⟩, some a, r, dtp)

structure SpkEnv where
  te : Q
  m : Q
  ri : Bool
  as1 : Q   -- t_aux1[0]
  ae1 : Q   -- t_aux1[1]
  as2 : Q   -- t_aux2[0]
  ae2 : Q   -- t_aux2[1]

/-- the spikes of a train from its current index on (`t[index:]`, index<0 ↦ 0) -/
def fromIdx (prev : Option Q) (rest : List Q) : List Q := prev.toList ++ rest

/-- One iteration of branch 1 (resp. 2) of the loop: train `x` (last consumed `px`, next spike `a`,
    then `r'`) advances, `y` is the other train and `yfrom` its spikes from its index on.
    `xe` = own end aux spike, `y0 y1` = aux spikes of `y`.
    Returns the new state of `x`, event time, `y_ends[index-1]`, `y_starts[index]`. -/
def spkAdvance (te m : Q) (ri : Bool) (x : SpkSt) (px : Option Q) (a : Q) (r' : List Q)
    (y : SpkSt) (yfrom : List Q) (xe y0 y1 : Q) : SpkSt × Q × Q × Q :=
  let sx := x.dtf * (x.tf - x.tp) / x.isi
  let dtp' := x.dtf
  let tp' := x.tf
  let tf' := match r' with | b :: _ => b | [] => xe
  let sy := (y.dtp * (y.tf - tp') + y.dtf * (tp' - y.tp)) / y.isi
  let yend := distAtT x.isi y.isi sx sy m ri
  let dtf' := match r' with | _ :: _ => minDist tf' yfrom y0 y1 | [] => dtp'
  let isi' := match r' with | _ :: _ => tf' - tp' | [] => nuAfter px a [] te
  (⟨tp', tf', dtp', dtf', isi'⟩, tp', yend, distAtT isi' y.isi dtp' sy m ri)

/-- new state of one train in the tie branch (python_backend.py:279-306); `ofrom` = the other
    train's spikes from its (already advanced) index on. -/
def spkTie (te : Q) (x : SpkSt) (px : Option Q) (a : Q) (r' : List Q) (ofrom : List Q)
    (xe o0 o1 : Q) : SpkSt :=
  let tp' := x.tf
  match r' with
  | b :: _ => ⟨tp', b, 0, minDist b ofrom o0 o1, b - tp'⟩
  | [] => ⟨tp', xe, 0, 0, nuAfter px a [] te⟩

/-- the `while` loop; emits (event time, y_end before it, y_start after it) and returns the
    final train states -/
def spkLoop (e : SpkEnv) (x1 : SpkSt) (p1 : Option Q) (r1 : List Q)
    (x2 : SpkSt) (p2 : Option Q) (r2 : List Q) : List (Q × Q × Q) × SpkSt × SpkSt :=
  match r1, r2 with
  | [], [] => ([], x1, x2)
  | a :: r1', [] =>
    let adv := spkAdvance e.te e.m e.ri x1 p1 a r1' x2 (fromIdx p2 []) e.ae1 e.as2 e.ae2
    let rec_ := spkLoop e adv.1 (some a) r1' x2 p2 []
    ((adv.2.1, adv.2.2.1, adv.2.2.2) :: rec_.1, rec_.2)
  | [], b :: r2' =>
    let adv := spkAdvance e.te e.m e.ri x2 p2 b r2' x1 (fromIdx p1 []) e.ae2 e.as1 e.ae1
    let rec_ := spkLoop e x1 p1 [] adv.1 (some b) r2'
    ((adv.2.1, adv.2.2.1, adv.2.2.2) :: rec_.1, rec_.2)
  | a :: r1', b :: r2' =>
    if x1.tf < x2.tf then
      let adv := spkAdvance e.te e.m e.ri x1 p1 a r1' x2 (fromIdx p2 (b :: r2')) e.ae1 e.as2 e.ae2
      let rec_ := spkLoop e adv.1 (some a) r1' x2 p2 (b :: r2')
      ((adv.2.1, adv.2.2.1, adv.2.2.2) :: rec_.1, rec_.2)
    else if x1.tf > x2.tf then
      let adv := spkAdvance e.te e.m e.ri x2 p2 b r2' x1 (fromIdx p1 (a :: r1')) e.ae2 e.as1 e.ae1
      let rec_ := spkLoop e x1 p1 (a :: r1') adv.1 (some b) r2'
      ((adv.2.1, adv.2.2.1, adv.2.2.2) :: rec_.1, rec_.2)
    else
      let x1' := spkTie e.te x1 p1 a r1' (b :: r2') e.ae1 e.as2 e.ae2
      let x2' := spkTie e.te x2 p2 b r2' (a :: r1') e.ae2 e.as1 e.ae1
      let rec_ := spkLoop e x1' (some a) r1' x2' (some b) r2'
      ((x1.tf, 0, 0) :: rec_.1, rec_.2)
termination_by r1.length + r2.length
decreasing_by all_goals (simp; try omega)

/-- `spike_distance_python(spikes1, spikes2, t_start, t_end, MRTS, RI)`
    → `(spike_events, y_starts, y_ends)` -/
def spikeProfile (t1 t2 : List Q) (ts te m : Q) (ri : Bool) : List Q × List Q × List Q :=
  let a10 := auxStart t1 ts
  let a11 := auxEnd t1 te
  let a20 := auxStart t2 ts
  let a21 := auxEnd t2 te
  let i1 := spkInit t1 t2 ts te a10 a20 a21
  let i2 := spkInit t2 t1 ts te a20 a10 a11
  let y0 := distAtT i1.1.isi i2.1.isi i1.2.2.2 i2.2.2.2 m ri
  let res := spkLoop ⟨te, m, ri, a10, a11, a20, a21⟩ i1.1 i1.2.1 i1.2.2.1 i2.1 i2.2.1 i2.2.2.1
  let evs := res.1
  let f1 := res.2.1
  let f2 := res.2.2
  let times := ts :: evs.map (·.1)
  let ystarts := y0 :: evs.map (·.2.2)
  let yends := evs.map (·.2.1)
  if times.getLast? = some te then
    (times, ystarts.dropLast, yends)
  else
    (times ++ [te], ystarts, yends ++ [distAtT f1.isi f2.isi f1.dtf f2.dtf m ri])

end PySpike
