/-
  Model/Basic.lean — number type and small helpers shared by all model files.
  The model computes over core `Rat` (no imports); see DESIGN.md §3.
-/
namespace PySpike

abbrev Q := Rat

/-- `abs` of the code (`abs`, `fabs`). Kept as an `if` so that the model needs no import;
    `Proofs/Basic.lean` shows `qabs x = |x|`. -/
def qabs (x : Q) : Q := if x < 0 then -x else x

/-- last element of a list with a default. -/
def lastD {α} : List α → α → α
  | [], d => d
  | [a], _ => a
  | _ :: b :: r, d => lastD (b :: r) d

/-- sum of a list of rationals (`np.sum`). -/
def qsum : List Q → Q
  | [] => 0
  | a :: r => a + qsum r

end PySpike
