/-
  Model/Funcs.lean — the three function classes and their `add` kernels:
  `add_piece_wise_const_python`, `add_piece_wise_lin_python`, `add_discrete_function_python`
  (pyspike/cython/python_backend.py:487-671), and `__call__`, `integral`, `avrg`,
  `get_plottable_data`, `mul_scalar` of PieceWiseConstFunc.py, PieceWiseLinFunc.py, DiscreteFunc.py.
  Arrays are lists; `np.searchsorted` is modelled by counting (`ssRight`, `ssLeft`).
-/
import PySpikeVerif.Model.Basic
namespace PySpike

/-- `np.searchsorted(xs, t, side='right')` on a sorted array: number of entries `≤ t` -/
def ssRight (xs : List Q) (t : Q) : Nat := (xs.filter (· ≤ t)).length
/-- `np.searchsorted(xs, t, side='left')`: number of entries `< t` -/
def ssLeft (xs : List Q) (t : Q) : Nat := (xs.filter (· < t)).length

def nth (xs : List Q) (i : Nat) : Q := xs.getD i 0

/-! ## piecewise constant -/

structure Pwc where
  x : List Q
  y : List Q
deriving Repr, DecidableEq

/-- interior breakpoints with the value to their right: `[(x[1],y[1]), …, (x[n-1],y[n-1])]` -/
def Pwc.inner (f : Pwc) : List (Q × Q) := (f.x.tail.zip f.y.tail)

/-- loop + tail copy of `add_piece_wise_const_python`; `c1 c2` = `y1[index1]`, `y2[index2]` -/
def addPwcLoop (c1 c2 : Q) (r1 r2 : List (Q × Q)) : List (Q × Q) :=
  match r1, r2 with
  | [], [] => []
  | (a, va) :: r1', [] => (a, va + c2) :: addPwcLoop va c2 r1' []
  | [], (b, vb) :: r2' => (b, vb + c1) :: addPwcLoop c1 vb [] r2'
  | (a, va) :: r1', (b, vb) :: r2' =>
    if a < b then (a, va + c2) :: addPwcLoop va c2 r1' ((b, vb) :: r2')
    else if b < a then (b, c1 + vb) :: addPwcLoop c1 vb ((a, va) :: r1') r2'
    else (a, va + vb) :: addPwcLoop va vb r1' r2'
termination_by r1.length + r2.length
decreasing_by all_goals (simp; try omega)

/-- `add_piece_wise_const_python(x1, y1, x2, y2)` -/
def Pwc.add (f g : Pwc) : Pwc :=
  let evs := addPwcLoop (f.y.headD 0) (g.y.headD 0) f.inner g.inner
  ⟨f.x.headD 0 :: evs.map (·.1) ++ [lastD f.x 0], (f.y.headD 0 + g.y.headD 0) :: evs.map (·.2)⟩

def Pwc.mulScalar (f : Pwc) (c : Q) : Pwc := ⟨f.x, f.y.map (· * c)⟩

/-- pieces `(x[k], x[k+1], y[k])` -/
def Pwc.pieces (f : Pwc) : List (Q × Q × Q) :=
  (f.x.zip (f.x.tail.zip f.y))

/-- `integral(None)`: `np.sum((x[1:]-x[:-1]) * y)` -/
def Pwc.integralAll (f : Pwc) : Q := qsum (f.pieces.map fun p => (p.2.1 - p.1) * p.2.2)

/-- `integral(interval=(a,b))`, PieceWiseConstFunc.py:130-160; `none` = `ValueError` -/
def Pwc.integral (f : Pwc) (a b : Q) : Option Q :=
  if a > b then none
  else if a < f.x.headD 0 then none
  else if b > lastD f.x 0 then none
  else
    let si := ssRight f.x a
    let ei1 := ssLeft f.x b     -- end_ind + 1
    if si > ei1 - 1 ∨ ei1 = 0 then
      -- same piece
      let ei := ei1 - 1
      some ((nth f.x si - nth f.x ei) * nth f.y ei
            - ((a - nth f.x ei) + (nth f.x si - b)) * nth f.y ei)
    else
      let ei := ei1 - 1
      let mid := qsum (((f.x.drop (si+1)).take (ei - si)).zip
                  (((f.x.drop si).take (ei - si)).zip ((f.y.drop si).take (ei - si)))
                  |>.map fun p => (p.1 - p.2.1) * p.2.2)
      some (mid + (nth f.x si - a) * nth f.y (si - 1) + (b - nth f.x ei) * nth f.y ei)

/-- `avrg(None)` -/
def Pwc.avrgAll (f : Pwc) : Q := f.integralAll / (lastD f.x 0 - f.x.headD 0)

/-- `avrg((a,b))` -/
def Pwc.avrg (f : Pwc) (a b : Q) : Option Q := (f.integral a b).map (· / (b - a))

/-- `avrg([(a1,b1),…])` -/
def Pwc.avrgList (f : Pwc) (ivs : List (Q × Q)) : Option Q :=
  let rec go (ivs : List (Q × Q)) (acc len : Q) : Option Q :=
    match ivs with
    | [] => some (acc / len)
    | (a, b) :: r => match f.integral a b with
      | none => none
      | some v => go r (acc + v) (len + (b - a))
  go ivs 0 0

/-- `__call__(t)` for a single time, PieceWiseConstFunc.py:56-64 -/
def Pwc.call (f : Pwc) (t : Q) : Q :=
  let ind := ssRight f.x t
  if t = f.x.headD 0 then f.y.headD 0
  else if t = lastD f.x 0 then lastD f.y 0
  else if f.x.contains t then (nth f.y (ind-1) + nth f.y (ind-2)) / 2
  else nth f.y (ind-1)

/-- `__call__([t…])` for one entry of a sequence, PieceWiseConstFunc.py:43-55 -/
def Pwc.callSeq1 (f : Pwc) (t : Q) : Q :=
  let n := f.x.length
  let ind0 := ssRight f.x t
  let ind := if ind0 = 0 then 1 else if ind0 = n then n - 1 else ind0
  let indL := ssLeft f.x t
  if ind ≠ indL ∧ ind > 1 ∧ ind < n then (nth f.y (ind-1) + nth f.y (ind-2)) / 2
  else nth f.y (ind-1)

/-- `get_plottable_data()` -/
def Pwc.plottable (f : Pwc) : List Q × List Q :=
  (f.pieces.flatMap (fun p => [p.1, p.2.1]), f.pieces.flatMap (fun p => [p.2.2, p.2.2]))

/-! ## piecewise linear -/

structure Pwl where
  x : List Q
  y1 : List Q
  y2 : List Q
deriving Repr, DecidableEq

structure Piece where
  xl : Q
  xr : Q
  yl : Q
  yr : Q
deriving Repr, DecidableEq

def Pwl.pieces (f : Pwl) : List Piece :=
  (f.x.zip (f.x.tail.zip (f.y1.zip f.y2))).map fun p => ⟨p.1, p.2.1, p.2.2.1, p.2.2.2⟩

/-- linear interpolation inside a piece: `yl + (yr-yl)*(x-xl)/(xr-xl)` -/
def Piece.at (p : Piece) (x : Q) : Q := p.yl + (p.yr - p.yl) * (x - p.xl) / (p.xr - p.xl)

/-- loop + tail copy of `add_piece_wise_lin_python`; emits for every interior breakpoint of the sum
    (x, left limit, right limit) -/
def addPwlLoop (c1 : Piece) (r1 : List Piece) (c2 : Piece) (r2 : List Piece) : List (Q × Q × Q) :=
  match r1, r2 with
  | [], [] => []
  | p :: r1', [] =>
    let y := c2.at c1.xr
    (c1.xr, c1.yr + y, p.yl + y) :: addPwlLoop p r1' c2 []
  | [], q :: r2' =>
    let y := c1.at c2.xr
    (c2.xr, c2.yr + y, q.yl + y) :: addPwlLoop c1 [] q r2'
  | p :: r1', q :: r2' =>
    if c1.xr < c2.xr then
      let y := c2.at c1.xr
      (c1.xr, c1.yr + y, p.yl + y) :: addPwlLoop p r1' c2 (q :: r2')
    else if c2.xr < c1.xr then
      let y := c1.at c2.xr
      (c2.xr, c2.yr + y, q.yl + y) :: addPwlLoop c1 (p :: r1') q r2'
    else
      (c1.xr, c1.yr + c2.yr, p.yl + q.yl) :: addPwlLoop p r1' q r2'
termination_by r1.length + r2.length
decreasing_by all_goals (simp; try omega)

/-- `add_piece_wise_lin_python(x1, y11, y12, x2, y21, y22)` -/
def Pwl.add (f g : Pwl) : Pwl :=
  match f.pieces, g.pieces with
  | c1 :: r1, c2 :: r2 =>
    let evs := addPwlLoop c1 r1 c2 r2
    ⟨f.x.headD 0 :: evs.map (·.1) ++ [lastD f.x 0],
     (c1.yl + c2.yl) :: evs.map (·.2.2),
     evs.map (·.2.1) ++ [lastD f.y2 0 + lastD g.y2 0]⟩
  | _, _ => f

def Pwl.mulScalar (f : Pwl) (c : Q) : Pwl := ⟨f.x, f.y1.map (· * c), f.y2.map (· * c)⟩

/-- `integral(None)`: `np.sum((x[1:]-x[:-1]) * 0.5*(y1+y2))` -/
def Pwl.integralAll (f : Pwl) : Q := qsum (f.pieces.map fun p => (p.xr - p.xl) * ((p.yl + p.yr) / 2))

def Pwl.pieceAt (f : Pwl) (k : Nat) : Piece := ⟨nth f.x k, nth f.x (k+1), nth f.y1 k, nth f.y2 k⟩

/-- `integral(interval=(a,b))`, PieceWiseLinFunc.py:151-193; `none` = assertion failure -/
def Pwl.integral (f : Pwl) (a b : Q) : Option Q :=
  let si := ssRight f.x a
  let ei1 := ssLeft f.x b
  if si = 0 then none
  else if ei1 = 0 ∨ si > ei1 - 1 then
    let p := f.pieceAt (si - 1)
    some ((p.at a + p.at b) / 2 * (b - a))
  else
    let ei := ei1 - 1
    let mid := qsum ((((f.pieces.drop si).take (ei - si))).map
                 fun p => (p.xr - p.xl) * ((p.yl + p.yr) / 2))
    let p0 := f.pieceAt (si - 1)
    let p1 := f.pieceAt ei
    some (mid + (nth f.x si - a) / 2 * (nth f.y2 (si-1) + p0.at a)
              + (b - nth f.x ei) / 2 * (nth f.y1 ei + p1.at b))

def Pwl.avrgAll (f : Pwl) : Q := f.integralAll / (lastD f.x 0 - f.x.headD 0)
def Pwl.avrg (f : Pwl) (a b : Q) : Option Q := (f.integral a b).map (· / (b - a))
def Pwl.avrgList (f : Pwl) (ivs : List (Q × Q)) : Option Q :=
  let rec go (ivs : List (Q × Q)) (acc len : Q) : Option Q :=
    match ivs with
    | [] => some (acc / len)
    | (a, b) :: r => match f.integral a b with
      | none => none
      | some v => go r (acc + v) (len + (b - a))
  go ivs 0 0

/-- `__call__(t)` single time, PieceWiseLinFunc.py:75-87 -/
def Pwl.call (f : Pwl) (t : Q) : Q :=
  let ind := ssRight f.x t
  if t = f.x.headD 0 then f.y1.headD 0
  else if t = lastD f.x 0 then lastD f.y2 0
  else if f.x.contains t then (nth f.y1 (ind-1) + nth f.y2 (ind-2)) / 2
  else (f.pieceAt (ind-1)).at t

/-- `__call__([t…])` one entry, PieceWiseLinFunc.py:55-74 -/
def Pwl.callSeq1 (f : Pwl) (t : Q) : Q :=
  let n := f.x.length
  let ind0 := ssRight f.x t
  let ind := if ind0 = 0 then 1 else if ind0 = n then n - 1 else ind0
  let indL := ssLeft f.x t
  if ind ≠ indL ∧ ind > 1 ∧ ind < n then (nth f.y1 (ind-1) + nth f.y2 (ind-2)) / 2
  else (f.pieceAt (ind-1)).at t

def Pwl.plottable (f : Pwl) : List Q × List Q :=
  (f.pieces.flatMap (fun p => [p.xl, p.xr]), f.pieces.flatMap (fun p => [p.yl, p.yr]))

/-! ## discrete -/

/-- entries (x, y, mp); first and last are the edge entries -/
structure Disc where
  e : List (Q × Q × Q)
deriving Repr, DecidableEq

/-- loop + tail copy of `add_discrete_function_python`; `r1 r2` = interior entries still to merge,
    `e1 e2` = closing edge entries; returns interior entries of the sum followed by its closing
    edge entry -/
def addDiscLoop (r1 r2 : List (Q × Q × Q)) (e1 e2 : Q × Q × Q) : List (Q × Q × Q) :=
  match r1, r2 with
  | [], [] => [(e1.1, e1.2.1 + e2.2.1, e1.2.2 + e2.2.2)]
  | a :: r1', [] => a :: r1' ++ [e1]
  | [], b :: r2' => b :: r2' ++ [e2]
  | a :: r1', b :: r2' =>
    if a.1 < b.1 then a :: addDiscLoop r1' (b :: r2') e1 e2
    else if b.1 < a.1 then b :: addDiscLoop (a :: r1') r2' e1 e2
    else (a.1, a.2.1 + b.2.1, a.2.2 + b.2.2) :: addDiscLoop r1' r2' e1 e2
termination_by r1.length + r2.length
decreasing_by all_goals (simp; try omega)

def Disc.interior (f : Disc) : List (Q × Q × Q) := f.e.tail.dropLast

/-- `add_discrete_function_python(x1, y1, mp1, x2, y2, mp2)` -/
def Disc.add (f g : Disc) : Disc :=
  let rest := addDiscLoop f.interior g.interior (lastD f.e (0,0,0)) (lastD g.e (0,0,0))
  match rest with
  | [] => f
  | h :: _ => ⟨((f.e.headD (0,0,0)).1, h.2.1, h.2.2) :: rest⟩

def Disc.mulScalar (f : Disc) (c : Q) : Disc := ⟨f.e.map fun p => (p.1, p.2.1 * c, p.2.2)⟩

/-- `integral(None)` → (value, multiplicity): sums over `[1:-1]` -/
def Disc.integralAll (f : Disc) : Q × Q :=
  (qsum (f.interior.map (·.2.1)), qsum (f.interior.map (·.2.2)))

/-- `integral((a,b))`, DiscreteFunc.py:167-180; `none` = assertion failure -/
def Disc.integral (f : Disc) (a b : Q) : Option (Q × Q) :=
  let xs := f.e.map (·.1)
  let si := ssRight xs a
  let ei := ssLeft xs b
  if si = 0 ∨ ei ≥ xs.length then none
  else
    let sel := (f.e.drop si).take (ei - si)
    some (qsum (sel.map (·.2.1)), qsum (sel.map (·.2.2)))

def Disc.integralList (f : Disc) (ivs : List (Q × Q)) : Option (Q × Q) :=
  let rec go (ivs : List (Q × Q)) (v m : Q) : Option (Q × Q) :=
    match ivs with
    | [] => some (v, m)
    | (a, b) :: r => match f.integral a b with
      | none => none
      | some (v', m') => go r (v + v') (m + m')
  go ivs 0 0

/-- `avrg` with `normalize=True`: `val/mp` if `mp > 0` else 1 -/
def discRatio (vm : Q × Q) : Q := if vm.2 > 0 then vm.1 / vm.2 else 1

def Disc.avrgAll (f : Disc) : Q := discRatio f.integralAll
def Disc.avrg (f : Disc) (a b : Q) : Option Q := (f.integral a b).map discRatio

/-- one side of the smoothing window of `get_plottable_data(k)`, DiscreteFunc.py:93-113:
    walk over `ents` (neighbouring entries, nearest first) starting from accumulated (y, mp) -/
def smoothSide (expected : Q) (ents : List (Q × Q × Q)) (y mp : Q) : Q × Q :=
  match ents with
  | [] => (y, mp)
  | (_, yj, mpj) :: r =>
    if mp + mpj < expected then smoothSide expected r (y + yj) (mp + mpj)
    else (y + yj * (expected - mp) / mpj, mp + (expected - mp))

/-- `get_plottable_data(averaging_window_size=k)` → y values (x values are `self.x`) -/
def Disc.plottable (f : Disc) (k : Nat) : List Q :=
  if k = 0 then f.e.map fun p => p.2.1 / p.2.2
  else
    -- `expected_mp = (k+1) * int(self.mp[0])`
    let mp0 : Q := ((f.e.headD (0,0,0)).2.2.floor : Int)
    let expected : Q := ((k : Q) + 1) * mp0
    let rec go (left : List (Q × Q × Q)) (right : List (Q × Q × Q)) : List Q :=
      match right with
      | [] => []
      | (x, y, mp) :: r =>
        let v :=
          if mp ≥ expected then y / mp
          else
            let rr := smoothSide expected r y mp
            let ll := smoothSide expected left rr.1 mp
            ll.1 / (ll.2 + rr.2 - mp)
        v :: go ((x, y, mp) :: left) r
    go [] f.e

/-- `average_profile(profiles)` for Pwc -/
def averagePwc (fs : List Pwc) : Option Pwc :=
  match fs with
  | f :: g :: r => some (((g :: r).foldl Pwc.add f).mulScalar (1 / ((fs.length : Nat) : Q)))
  | _ => none

end PySpike
