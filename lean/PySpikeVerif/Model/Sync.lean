/-
  Model/Sync.lean — `get_tau`, `coincidence_python`, `coincidence_single_python`
  (pyspike/cython/python_backend.py:324-481), `spike_directionality_profile_python`,
  `spike_train_order_profile_python` (pyspike/cython/directionality_python_backend.py).
  Cursors `i`, `j` of the code = (consumed spikes, newest first) and (remaining spikes).
-/
import PySpikeVerif.Model.Basic
namespace PySpike

/-- `Interpolate(a, b, t)` of python_backend.py:350-359 -/
def interp (a b t : Q) : Q :=
  let mab := min a b
  if t < mab then mab else if t > b then b else t

/-- `Interpolate` of cython_get_tau.pyx:4-13 (written differently) -/
def interpPyx (a b t : Q) : Q :=
  if t < a ∧ a < b then a
  else if t < b ∧ b ≤ a then b
  else if t > b then b
  else t

/-- difference to a neighbouring spike, `d` when the spike or the neighbour is missing -/
def optDiff (x y : Option Q) (d : Q) : Q :=
  match x, y with
  | some c, some n => n - c
  | _, _ => d

/-- the branch condition `i<0 or j<0 or spikes1[i] <= spikes2[j]` -/
def tauFirst (c1 c2 : Option Q) : Bool :=
  match c1, c2 with
  | some a, some b => decide (a ≤ b)
  | _, _ => true

/-- `get_tau` with the neighbours passed explicitly: `p_n c_n n_n` = previous, current, next spike
    of train n around index i (resp. j); `none` for a missing one (index -1 ⇒ `c = none`).
    `maxTau` is the `max_tau` *argument* of `get_tau` (the callers pass `true_max`). -/
def getTau (p1 c1 n1 p2 c2 n2 : Option Q) (maxTau mrts : Q) : Q :=
  let mF1 : Q := optDiff c1 n1 maxTau / 2
  let mF2 : Q := optDiff c2 n2 maxTau / 2
  let mP1 : Q := optDiff p1 c1 maxTau / 2
  let mP2 : Q := optDiff p2 c2 maxTau / 2
  let m : Q := mrts / 4
  if tauFirst c1 c2 then
    min (min (interp mP1 mF1 m) (interp mF2 mP2 m)) (maxTau / 2)
  else
    min (min (interp mF1 mP1 m) (interp mP2 mF2 m)) (maxTau / 2)

/-- index form used by the correspondence check: `get_tau(spikes1, spikes2, i, j, max_tau, MRTS)` -/
def getTauIdx (s1 s2 : List Q) (i j : Int) (maxTau mrts : Q) : Q :=
  let at_ (s : List Q) (k : Int) : Option Q := if k < 0 then none else s[k.toNat]?
  -- the code tests `i > 0` for the past and `i > -1 ∧ i < len-1` for the future neighbour
  getTau (if i > 0 then at_ s1 (i-1) else none) (at_ s1 i) (if i > -1 then at_ s1 (i+1) else none)
         (if j > 0 then at_ s2 (j-1) else none) (at_ s2 j) (if j > -1 then at_ s2 (j+1) else none)
         maxTau mrts

/-- `true_max`, python_backend.py:380-382 -/
def trueMax (ts te maxTau : Q) : Q :=
  if maxTau > 0 then min (te - ts) (2 * maxTau) else te - ts

/-- `get_tau(spikes1, spikes2, i, j, …)` at the cursor: `k_n` consumed spikes newest first -/
def tauAt (k1 r1 k2 r2 : List Q) (tm mrts : Q) : Q :=
  getTau k1.tail.head? k1.head? r1.head? k2.tail.head? k2.head? r2.head? tm mrts

/-- `c[n-1] = v` -/
def markHead (v : Q) : List (Q × Q × Q) → List (Q × Q × Q)
  | [] => []
  | (t, _, mp) :: r => (t, v, mp) :: r

/-- The merge scan shared by `coincidence_python` (v1 = v2 = 1, vt = 2) and
    `spike_train_order_profile_python` (v1 = -1, v2 = 1, vt = 0).
    `out` = entries written so far, newest first, as (time, value, multiplicity). -/
def scanLoop (v1 v2 vt tm mrts : Q) (k1 r1 k2 r2 : List Q) (out : List (Q × Q × Q)) :
    List (Q × Q × Q) :=
  match r1, r2 with
  | [], [] => out
  | a :: r1', [] =>
    let tau := tauAt (a :: k1) r1' k2 [] tm mrts
    let out' := match k2 with
      | j :: _ => if a - j < tau then (a, v1, 1) :: markHead v1 out else (a, 0, 1) :: out
      | [] => (a, 0, 1) :: out
    scanLoop v1 v2 vt tm mrts (a :: k1) r1' k2 [] out'
  | [], b :: r2' =>
    let tau := tauAt k1 [] (b :: k2) r2' tm mrts
    let out' := match k1 with
      | i :: _ => if b - i < tau then (b, v2, 1) :: markHead v2 out else (b, 0, 1) :: out
      | [] => (b, 0, 1) :: out
    scanLoop v1 v2 vt tm mrts k1 [] (b :: k2) r2' out'
  | a :: r1', b :: r2' =>
    if a < b then
      let tau := tauAt (a :: k1) r1' k2 (b :: r2') tm mrts
      let out' := match k2 with
        | j :: _ => if a - j < tau then (a, v1, 1) :: markHead v1 out else (a, 0, 1) :: out
        | [] => (a, 0, 1) :: out
      scanLoop v1 v2 vt tm mrts (a :: k1) r1' k2 (b :: r2') out'
    else if b < a then
      let tau := tauAt k1 (a :: r1') (b :: k2) r2' tm mrts
      let out' := match k1 with
        | i :: _ => if b - i < tau then (b, v2, 1) :: markHead v2 out else (b, 0, 1) :: out
        | [] => (b, 0, 1) :: out
      scanLoop v1 v2 vt tm mrts k1 (a :: r1') (b :: k2) r2' out'
    else
      scanLoop v1 v2 vt tm mrts (a :: k1) r1' (b :: k2) r2' ((a, vt, 2) :: out)
termination_by r1.length + r2.length
decreasing_by all_goals (simp; try omega)

/-- edge entries, python_backend.py:424-439 -/
def frameProfile (ts te : Q) (entries : List (Q × Q × Q)) : List (Q × Q × Q) :=
  match entries with
  | [] => [(ts, 1, 1), (te, 1, 1)]
  | f :: _ =>
    let l := lastD entries f
    (ts, f.2.1, f.2.2) :: entries ++ [(te, l.2.1, l.2.2)]

/-- `coincidence_python(spikes1, spikes2, t_start, t_end, max_tau, MRTS)` → entries (st, c, mp) -/
def coincProfile (s1 s2 : List Q) (ts te maxTau mrts : Q) : List (Q × Q × Q) :=
  frameProfile ts te (scanLoop 1 1 2 (trueMax ts te maxTau) mrts [] s1 [] s2 []).reverse

/-- `spike_train_order_profile_python` -/
def orderProfile (s1 s2 : List Q) (ts te maxTau mrts : Q) : List (Q × Q × Q) :=
  frameProfile ts te (scanLoop (-1) 1 0 (trueMax ts te maxTau) mrts [] s1 [] s2 []).reverse

/-- inner `while` of `coincidence_single_python`: advance `j` while the next spike of train 2 is
    before `a` -/
def skipBefore (a : Q) (k2 r2 : List Q) : List Q × List Q :=
  match r2 with
  | [] => (k2, [])
  | b :: r2' => if b < a then skipBefore a (b :: k2) r2' else (k2, b :: r2')

theorem skipBefore_length (a : Q) (k2 r2 : List Q) : (skipBefore a k2 r2).2.length ≤ r2.length := by
  induction r2 generalizing k2 with
  | nil => simp [skipBefore]
  | cons b r ih =>
    unfold skipBefore
    split
    · exact Nat.le_trans (ih _) (by simp)
    · simp

/-- the `for` loop of `coincidence_single_python`, python_backend.py:463-481 -/
def singleLoop (tm mrts : Q) (k1 r1 k2 r2 : List Q) : List Q :=
  match r1 with
  | [] => []
  | a :: r1' =>
    let sk := skipBefore a k2 r2
    let k2a := sk.1
    let r2a := sk.2
    let tau := tauAt (a :: k1) r1' k2a r2a tm mrts
    let c : Q := match k2a with
      | j :: _ => if qabs (a - j) < tau then 1 else 0
      | [] => 0
    let move : Bool := match r2a, k2a with
      | [], _ => false
      | _ :: _, [] => true
      | _ :: _, j :: _ => decide (j < a)
    match r2a, move with
    | b :: r2b, true =>
      let tau' := tauAt (a :: k1) r1' (b :: k2a) r2b tm mrts
      let c' : Q := if qabs (b - a) < tau' then 1 else c
      c' :: singleLoop tm mrts (a :: k1) r1' (b :: k2a) r2b
    | _, _ => c :: singleLoop tm mrts (a :: k1) r1' k2a r2a

/-- `coincidence_single_python(spikes1, spikes2, t_start, t_end, max_tau, MRTS)` -/
def coincSingle (s1 s2 : List Q) (ts te maxTau mrts : Q) : List Q :=
  singleLoop (trueMax ts te maxTau) mrts [] s1 [] s2

/-- `d[idx] = v` on the newest-first value list -/
def setHead (v : Q) : List Q → List Q
  | [] => []
  | _ :: r => v :: r

/-- `spike_directionality_profile_python`, loop; `d1 d2` = values of the consumed spikes,
    newest first -/
def dirLoop (tm mrts : Q) (k1 r1 k2 r2 : List Q) (d1 d2 : List Q) : List Q × List Q :=
  match r1, r2 with
  | [], [] => (d1, d2)
  | a :: r1', [] =>
    let tau := tauAt (a :: k1) r1' k2 [] tm mrts
    match k2 with
    | j :: _ =>
      if a - j < tau then dirLoop tm mrts (a :: k1) r1' k2 [] ((-1) :: d1) (setHead 1 d2)
      else dirLoop tm mrts (a :: k1) r1' k2 [] (0 :: d1) d2
    | [] => dirLoop tm mrts (a :: k1) r1' k2 [] (0 :: d1) d2
  | [], b :: r2' =>
    let tau := tauAt k1 [] (b :: k2) r2' tm mrts
    match k1 with
    | i :: _ =>
      if b - i < tau then dirLoop tm mrts k1 [] (b :: k2) r2' (setHead 1 d1) ((-1) :: d2)
      else dirLoop tm mrts k1 [] (b :: k2) r2' d1 (0 :: d2)
    | [] => dirLoop tm mrts k1 [] (b :: k2) r2' d1 (0 :: d2)
  | a :: r1', b :: r2' =>
    if a < b then
      let tau := tauAt (a :: k1) r1' k2 (b :: r2') tm mrts
      match k2 with
      | j :: _ =>
        if a - j < tau then dirLoop tm mrts (a :: k1) r1' k2 (b :: r2') ((-1) :: d1) (setHead 1 d2)
        else dirLoop tm mrts (a :: k1) r1' k2 (b :: r2') (0 :: d1) d2
      | [] => dirLoop tm mrts (a :: k1) r1' k2 (b :: r2') (0 :: d1) d2
    else if b < a then
      let tau := tauAt k1 (a :: r1') (b :: k2) r2' tm mrts
      match k1 with
      | i :: _ =>
        if b - i < tau then dirLoop tm mrts k1 (a :: r1') (b :: k2) r2' (setHead 1 d1) ((-1) :: d2)
        else dirLoop tm mrts k1 (a :: r1') (b :: k2) r2' d1 (0 :: d2)
      | [] => dirLoop tm mrts k1 (a :: r1') (b :: k2) r2' d1 (0 :: d2)
    else
      dirLoop tm mrts (a :: k1) r1' (b :: k2) r2' (0 :: d1) (0 :: d2)
termination_by r1.length + r2.length
decreasing_by all_goals (simp; try omega)

/-- `spike_directionality_profile_python(spikes1, spikes2, t_start, t_end, max_tau, MRTS)` -/
def dirProfile (s1 s2 : List Q) (ts te maxTau mrts : Q) : List Q × List Q :=
  let r := dirLoop (trueMax ts te maxTau) mrts [] s1 [] s2 [] []
  (r.1.reverse, r.2.reverse)

end PySpike
