/-
  Model/Api.lean — the API layer: `SpikeTrain`, `reconcile_spike_trains` (spikes.py:162-195),
  `generic.py`, and the public functions of isi_distance.py, spike_distance.py, spike_sync.py,
  spike_directionality.py, isi_lengths.py, spikes.py (merge), psth.py — pure-Python backend.
  `MRTS='auto'` is resolved by the caller (`defaultThreshSq` gives the square of the threshold,
  `sqrt` is outside ℚ).
-/
import PySpikeVerif.Model.Isi
import PySpikeVerif.Model.Spike
import PySpikeVerif.Model.Sync
import PySpikeVerif.Model.Funcs
namespace PySpike

structure Train where
  spikes : List Q
  ts : Q
  te : Q
deriving Repr, DecidableEq

instance : Inhabited Train := ⟨⟨[], 0, 0⟩⟩

/-- `get_spikes_non_empty`: `np.unique([t_start, t_end])` for an empty train -/
def Train.nonEmpty (t : Train) : List Q :=
  if t.spikes.isEmpty then
    (if t.ts < t.te then [t.ts, t.te] else if t.te < t.ts then [t.te, t.ts] else [t.ts])
  else t.spikes

/-- remove adjacent duplicates (second half of `np.unique`) -/
def dedupAdj : List Q → List Q
  | [] => []
  | [a] => [a]
  | a :: b :: r => if a = b then dedupAdj (b :: r) else a :: dedupAdj (b :: r)

/-- `np.unique` / `np.sort` -/
def sortQ (l : List Q) : List Q := l.mergeSort (fun a b => decide (a ≤ b))
def uniqueQ (l : List Q) : List Q := dedupAdj (sortQ l)

def minList (d : Q) : List Q → Q
  | [] => d
  | a :: r => r.foldl min a
def maxList (d : Q) : List Q → Q
  | [] => d
  | a :: r => r.foldl max a

/-- `Eps = 1e-6` of spikes.py:184 -/
def recEps : Q := 1 / 1000000

/-- `reconcile_spike_trains` -/
def reconcile (L : List Train) : List Train :=
  let tS := minList 0 (L.map (·.ts))
  let tE := maxList 0 (L.map (·.te))
  L.map fun s => ⟨(uniqueQ s.spikes).filter (fun t => t > tS - recEps ∧ t < tE + recEps), tS, tE⟩

def reconcileBi (a b : Train) : Train × Train :=
  match reconcile [a, b] with
  | [a', b'] => (a', b')
  | _ => (a, b)

/-- keyword arguments; `maxTau = 0` stands for `None`/0, `interval = none` for `None` -/
structure Kw where
  mrts : Q := 0
  ri : Bool := false
  maxTau : Q := 0
  recon : Bool := true
  interval : Option (Q × Q) := none
deriving Repr

def Kw.noRecon (k : Kw) : Kw := { k with recon := false }

/-- `pairs = [(indices[i], j) for i in range(len(indices)) for j in indices[i+1:]]` -/
def pairsOf : List Nat → List (Nat × Nat)
  | [] => []
  | i :: r => r.map (fun j => (i, j)) ++ pairsOf r

/-- pairs of positions `[(i, j) for i in range(n) for j in range(i+1, n)]` -/
def posPairs (n : Nat) : List (Nat × Nat) := pairsOf (List.range n)

def resolveIdx (idx : Option (List Nat)) (n : Nat) : List Nat :=
  match idx with
  | none => List.range n
  | some l => l

def idxValid (idx : List Nat) (n : Nat) : Bool := idx.all (· < n)

/-- `divide_and_conquer(pairs1, pairs2)` of generic.py:63-83 -/
def divideAndConquer {P} (add : P → P → P) (leaf : Nat × Nat → P) :
    Nat → List (Nat × Nat) → List (Nat × Nat) → P
  | 0, p1, _ => leaf (p1.headD (0, 0))
  | fuel + 1, p1, p2 =>
    let d1 := if p1.length > 1 then
        divideAndConquer add leaf fuel (p1.take (p1.length / 2)) (p1.drop (p1.length / 2))
      else leaf (p1.headD (0, 0))
    let d2 := if p2.length > 1 then
        divideAndConquer add leaf fuel (p2.take (p2.length / 2)) (p2.drop (p2.length / 2))
      else leaf (p2.headD (0, 0))
    add d1 d2

/-- `_generic_profile_multi` after reconciliation: sum of the pair profiles and the pair count -/
def genericProfileMulti {P} (add : P → P → P) (leaf : Nat × Nat → P) (idx : List Nat) : P × Nat :=
  let pairs := pairsOf idx
  let L := pairs.length
  if L > 1 then
    (divideAndConquer add leaf L (pairs.take (L / 2)) (pairs.drop (L / 2)), L)
  else (leaf (pairs.headD (0, 0)), L)

def tr (L : List Train) (i : Nat) : Train := L.getD i default

def prep (kw : Kw) (L : List Train) : List Train := if kw.recon then reconcile L else L
def prepBi (kw : Kw) (a b : Train) : Train × Train := if kw.recon then reconcileBi a b else (a, b)

/-! ## ISI -/

def isiProfileBi (kw : Kw) (a b : Train) : Pwc :=
  let ab := prepBi kw a b
  let r := isiProfile ab.1.nonEmpty ab.2.nonEmpty ab.1.ts ab.1.te kw.mrts
  ⟨r.1, r.2⟩

def isiProfileMulti (kw : Kw) (idx : Option (List Nat)) (L : List Train) : Pwc :=
  let L' := prep kw L
  let r := genericProfileMulti Pwc.add (fun p => isiProfileBi kw.noRecon (tr L' p.1) (tr L' p.2))
    (resolveIdx idx L'.length)
  r.1.mulScalar (1 / (r.2 : Q))

def pwcAvrgKw (f : Pwc) (iv : Option (Q × Q)) : Option Q :=
  match iv with
  | none => some f.avrgAll
  | some (a, b) => f.avrg a b

def isiDistanceBi (kw : Kw) (a b : Train) : Option Q :=
  pwcAvrgKw (isiProfileBi kw a b) kw.interval

def sumOpt : List (Option Q) → Option Q
  | [] => some 0
  | none :: _ => none
  | some v :: r => (sumOpt r).map (v + ·)

/-- `_generic_distance_multi` -/
def genericDistanceMulti (dist : Train → Train → Option Q) (idx : List Nat) (L : List Train) :
    Option Q :=
  let pairs := pairsOf idx
  (sumOpt (pairs.map fun p => dist (tr L p.1) (tr L p.2))).map (· / (pairs.length : Q))

def isiDistanceMulti (kw : Kw) (idx : Option (List Nat)) (L : List Train) : Option Q :=
  let L' := prep kw L
  genericDistanceMulti (isiDistanceBi kw.noRecon) (resolveIdx idx L'.length) L'

/-- `_generic_distance_matrix` as a list of rows; `diag` the value on the diagonal -/
def genericDistanceMatrix (dist : Train → Train → Option Q) (diag : Q) (sign : Q)
    (idx : List Nat) (L : List Train) : Option (List (List Q)) :=
  let n := idx.length
  (List.range n).mapM fun i => (List.range n).mapM fun j =>
    if i = j then some diag
    else if i < j then dist (tr L (idx.getD i 0)) (tr L (idx.getD j 0))
    else (dist (tr L (idx.getD j 0)) (tr L (idx.getD i 0))).map (sign * ·)

def isiDistanceMatrix (kw : Kw) (idx : Option (List Nat)) (L : List Train) : Option (List (List Q)) :=
  let L' := prep kw L
  genericDistanceMatrix (isiDistanceBi kw.noRecon) 0 1 (resolveIdx idx L'.length) L'

/-! ## SPIKE -/

def spikeProfileBi (kw : Kw) (a b : Train) : Pwl :=
  let ab := prepBi kw a b
  let r := spikeProfile ab.1.nonEmpty ab.2.nonEmpty ab.1.ts ab.1.te kw.mrts kw.ri
  ⟨r.1, r.2.1, r.2.2⟩

def spikeProfileMulti (kw : Kw) (idx : Option (List Nat)) (L : List Train) : Pwl :=
  let L' := prep kw L
  let r := genericProfileMulti Pwl.add (fun p => spikeProfileBi kw.noRecon (tr L' p.1) (tr L' p.2))
    (resolveIdx idx L'.length)
  r.1.mulScalar (1 / (r.2 : Q))

def pwlAvrgKw (f : Pwl) (iv : Option (Q × Q)) : Option Q :=
  match iv with
  | none => some f.avrgAll
  | some (a, b) => f.avrg a b

def spikeDistanceBi (kw : Kw) (a b : Train) : Option Q :=
  pwlAvrgKw (spikeProfileBi kw a b) kw.interval

def spikeDistanceMulti (kw : Kw) (idx : Option (List Nat)) (L : List Train) : Option Q :=
  let L' := prep kw L
  genericDistanceMulti (spikeDistanceBi kw.noRecon) (resolveIdx idx L'.length) L'

def spikeDistanceMatrix (kw : Kw) (idx : Option (List Nat)) (L : List Train) :
    Option (List (List Q)) :=
  let L' := prep kw L
  genericDistanceMatrix (spikeDistanceBi kw.noRecon) 0 1 (resolveIdx idx L'.length) L'

/-! ## SPIKE-Sync -/

def syncProfileBi (kw : Kw) (a b : Train) : Disc :=
  let ab := prepBi kw a b
  ⟨coincProfile ab.1.spikes ab.2.spikes ab.1.ts ab.1.te kw.maxTau kw.mrts⟩

def syncProfileMulti (kw : Kw) (idx : Option (List Nat)) (L : List Train) : Disc :=
  let L' := prep kw L
  (genericProfileMulti Disc.add (fun p => syncProfileBi kw.noRecon (tr L' p.1) (tr L' p.2))
    (resolveIdx idx L'.length)).1

def discIntegralKw (f : Disc) (iv : Option (Q × Q)) : Option (Q × Q) :=
  match iv with
  | none => some f.integralAll
  | some (a, b) => f.integral a b

/-- `_spike_sync_values` (pure-Python route) -/
def syncValues (kw : Kw) (a b : Train) : Option (Q × Q) :=
  discIntegralKw (syncProfileBi kw a b) kw.interval

/-- `spike_sync_bi`: `1.0 if mp == 0 else c/mp` -/
def syncRatio (vm : Q × Q) : Q := if vm.2 = 0 then 1 else vm.1 / vm.2

def spikeSyncBi (kw : Kw) (a b : Train) : Option Q := (syncValues kw a b).map syncRatio

def sumOpt2 : List (Option (Q × Q)) → Option (Q × Q)
  | [] => some (0, 0)
  | none :: _ => none
  | some v :: r => (sumOpt2 r).map fun s => (v.1 + s.1, v.2 + s.2)

def spikeSyncMulti (kw : Kw) (idx : Option (List Nat)) (L : List Train) : Option Q :=
  let L' := prep kw L
  let pairs := pairsOf (resolveIdx idx L'.length)
  (sumOpt2 (pairs.map fun p => syncValues kw.noRecon (tr L' p.1) (tr L' p.2))).map syncRatio

def spikeSyncMatrix (kw : Kw) (idx : Option (List Nat)) (L : List Train) :
    Option (List (List Q)) :=
  let L' := prep kw L
  genericDistanceMatrix (spikeSyncBi kw.noRecon) 1 1 (resolveIdx idx L'.length) L'

def addLists : List Q → List Q → List Q
  | a :: r, b :: s => (a + b) :: addLists r s
  | l, [] => l
  | [], _ => []

/-- per-spike coincidence counts of train `i` against all other trains (spike_sync.py:338-345) -/
def coincCounts (kw : Kw) (L : List Train) (i : Nat) : List Q :=
  let st := tr L i
  (List.range L.length).foldl (fun acc j =>
    if i = j then acc
    else addLists acc (coincSingle st.spikes (tr L j).spikes st.ts st.te kw.maxTau kw.mrts))
    (st.spikes.map fun _ => 0)

/-- `filter_by_spike_sync(..., return_removed_spikes=True)` → (kept, removed) -/
def filterBySync (kw : Kw) (thr : Q) (L : List Train) : List Train × List Train :=
  let L' := prep kw L
  let n : Q := (L'.length : Q) - 1
  let res := (List.range L'.length).map fun i =>
    let st := tr L' i
    let cs := coincCounts kw L' i
    let z := st.spikes.zip cs
    (Train.mk ((z.filter fun p => p.2 > thr * n).map (·.1)) st.ts st.te,
     Train.mk ((z.filter fun p => p.2 ≤ thr * n).map (·.1)) st.ts st.te)
  (res.map (·.1), res.map (·.2))

/-! ## spike-train order and directionality -/

def orderProfileBi (kw : Kw) (a b : Train) : Disc :=
  let ab := prepBi kw a b
  ⟨orderProfile ab.1.spikes ab.2.spikes ab.1.ts ab.1.te kw.maxTau kw.mrts⟩

def orderProfileMulti (kw : Kw) (idx : Option (List Nat)) (L : List Train) : Disc :=
  let L' := prep kw L
  (genericProfileMulti Disc.add (fun p => orderProfileBi kw.noRecon (tr L' p.1) (tr L' p.2))
    (resolveIdx idx L'.length)).1

/-- `_spike_train_order_impl` (pure-Python route; `interval` must be None) -/
def orderValues (kw : Kw) (a b : Train) : Q × Q :=
  -- the fallback goes through `spike_train_order_profile(st1, st2, max_tau=…, MRTS=…)`, which
  -- reconciles again (idempotent)
  (orderProfileBi { kw with recon := true } a b).integralAll

/-- `spike_train_order_bi` -/
def spikeTrainOrderBi (kw : Kw) (normalize : Bool) (a b : Train) : Q :=
  let vm := orderValues kw a b
  if normalize then (if vm.2 = 0 then 1 else vm.1 / vm.2) else vm.1

/-- `spike_train_order_multi` -/
def spikeTrainOrderMulti (kw : Kw) (idx : Option (List Nat)) (L : List Train) : Q :=
  let L' := prep kw L
  let pairs := pairsOf (resolveIdx idx L'.length)
  let tot := pairs.foldl (fun acc p =>
      let vm := orderValues kw (tr L' p.1) (tr L' p.2)
      (acc.1 + vm.1, acc.2 + vm.2)) ((0 : Q), (0 : Q))
  if tot.2 = 0 then 1 else tot.1 / tot.2

/-- `_spike_directionality_values_impl`: one value list per selected train -/
def dirValues (kw : Kw) (idx : Option (List Nat)) (L : List Train) : List (List Q) :=
  let L' := prep kw L
  let ids := resolveIdx idx L'.length
  let n := ids.length
  let init : List (List Q) := ids.map fun k => (tr L' k).spikes.map fun _ => 0
  let acc := (posPairs n).foldl (fun acc p =>
      let si := tr L' (ids.getD p.1 0)
      let sj := tr L' (ids.getD p.2 0)
      let d := dirProfile si.spikes sj.spikes si.ts si.te kw.maxTau kw.mrts
      let acc := acc.set p.1 (addLists (acc.getD p.1 []) d.1)
      acc.set p.2 (addLists (acc.getD p.2 []) d.2)) init
  acc.map fun l => l.map (· / ((n : Q) - 1))

/-- `spike_directionality` (pure-Python route) -/
def spikeDirectionality (kw : Kw) (normalize : Bool) (a b : Train) : Q :=
  let ab := prepBi kw a b
  -- `spike_directionality_values([st1, st2], …)` reconciles again (idempotent)
  let vals := dirValues { kw with recon := true } none [ab.1, ab.2]
  let d := qsum (vals.headD [])
  let c : Q := (ab.1.spikes.length : Q)
  if normalize then (if c = 0 then 0 else d / c) else d

/-- `spike_directionality_matrix` -/
def spikeDirectionalityMatrix (kw : Kw) (normalize : Bool) (idx : Option (List Nat))
    (L : List Train) : List (List Q) :=
  let L' := prep kw L
  let ids := resolveIdx idx L'.length
  let n := ids.length
  (List.range n).map fun i => (List.range n).map fun j =>
    if i = j then 0
    else if i < j then
      spikeDirectionality kw.noRecon normalize (tr L' (ids.getD i 0)) (tr L' (ids.getD j 0))
    else
      - spikeDirectionality kw.noRecon normalize (tr L' (ids.getD j 0)) (tr L' (ids.getD i 0))

/-! ## isi_lengths / default_thresh -/

/-- `isi_lengths(spike_times, t_start, t_end)`, isi_lengths.py:11-46 -/
def isiLengths (s : List Q) (ts te : Q) : List Q :=
  match s with
  | [] => [te - ts]
  | a :: r =>
    let N := s.length
    let l := lastD s a
    let l2 := (s.dropLast).getLast?.getD a      -- spike_times[-2]
    let delStart : Q :=
      if a > ts then (match r with | b :: _ => max (a - ts) (b - a) | [] => a - ts)
      else (match r with | b :: _ => b - a | [] => ts - a)
    let iStart : Nat := if a > ts then 0 else 1
    let delEnd : Q :=
      if l < te then (if N > 1 then max (te - l) (l - l2) else te - a)
      else (if N > 1 then l - l2 else a - te)
    let iEnd : Nat := if l < te then N else N - 1
    -- dels = [s[i+1]-s[i] for i in range(i_start, i_end-1)]
    let diffs := (s.zip s.tail).map fun p => p.2 - p.1
    let dels := (diffs.drop iStart).take (iEnd - 1 - iStart)
    [delStart] ++ dels ++ [delEnd]

/-- square of `default_thresh(spike_train_list)`: mean of the squared pooled ISI lengths;
    the code returns `np.sqrt` of this -/
def defaultThreshSq (L : List Train) : Q :=
  match L with
  | [] => 0
  | st :: _ =>
    let pool := L.flatMap fun t => isiLengths t.spikes st.ts st.te
    qsum (pool.map fun x => x * x) / (pool.length : Q)

/-! ## spikes.py / psth.py -/

/-- `merge_spike_trains` -/
def mergeTrains (L : List Train) : Train :=
  let f := L.headD default
  ⟨sortQ (L.flatMap (·.spikes)), f.ts, f.te⟩

/-- `psth(spike_trains, bin_size)` with `bin_count` given (it is `int(T / bin_size)`, computed in
    floating point by the code): bin edges `linspace(ts, te, n+1)` and `np.histogram` counts
    (last bin closed) -/
def psthCounts (L : List Train) (n : Nat) : List Q × List Q :=
  let f := L.headD default
  let w : Q := (f.te - f.ts) / (n : Q)
  let edges := (List.range (n + 1)).map fun k => if k = n then f.te else f.ts + (k : Q) * w
  let all := L.flatMap (·.spikes)
  let counts := (List.range n).map fun k =>
    let lo := edges.getD k 0
    let hi := edges.getD (k + 1) 0
    ((all.filter fun t => lo ≤ t ∧ (t < hi ∨ (k + 1 = n ∧ t = hi))).length : Q)
  (edges, counts)

/-- `generate_poisson_spikes` with the stream of exponential variates as a parameter:
    `spikes = (T_start + cumsum(intervals))[· < T_end]` -/
def poissonFrom (tS tE : Q) (intervals : List Q) : List Q :=
  let rec cum (acc : Q) : List Q → List Q
    | [] => []
    | d :: r => (acc + d) :: cum (acc + d) r
  (cum tS intervals).filter (· < tE)

/-- `import_spike_trains_from_time_series`: times `start + (k+1)*bin` of the non-zero samples -/
def timeSeriesTrain (row : List Q) (start bin : Q) : Train :=
  let n := row.length
  let pts : List Q := (List.range n).map fun (k : Nat) => start + bin + (k : Q) * bin
  ⟨((pts.zip row).filter fun p => p.2 > 0).map (·.1), start, lastD pts start⟩

end PySpike
