/-
  Model/Extra.lean — small public helpers of the library that are outside the measure pipeline
  (no Mathlib): `average_profile` (pyspike/DiscreteFunc.py:231-247);
  the piecewise constant twin `averagePwc` is in Model/Funcs.lean.
-/
import PySpikeVerif.Model.Funcs
namespace PySpike

/-- `average_profile(profiles)`: `assert len(profiles) > 1`; copy of the first profile, `add` the
    others one after the other, `mul_scalar(1.0/len(profiles))` -/
def averagePwl (fs : List Pwl) : Option Pwl :=
  match fs with
  | f :: g :: r => some (((g :: r).foldl Pwl.add f).mulScalar (1 / ((fs.length : Nat) : Q)))
  | _ => none

end PySpike
