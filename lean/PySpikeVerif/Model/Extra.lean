/-
  Model/Extra.lean — small public helpers of the library that are outside the measure pipeline
  (no Mathlib): `average_profile` (pyspike/DiscreteFunc.py:231-247);
  the piecewise constant twin `averagePwc` is in Model/Funcs.lean.
-/
import PySpikeVerif.Model.Funcs
namespace PySpike

/-- `average_profile(profiles)`: `assert len(profiles) > 1`; copy of the first profile, `add` the
    others one after the other, `mul_scalar(1.0/len(profiles))` -/
def averagePwl (fs : List Pwl) : Option Pwl :=
  match fs with
  | f :: g :: r => some (((g :: r).foldl Pwl.add f).mulScalar (1 / ((fs.length : Nat) : Q)))
  | _ => none

end PySpike

namespace PySpike

/-- `PieceWiseConstFunc.integral((a, b))` exactly as the code behaves: for the degenerate interval
    `a = b = x[-1]` it indexes `x[len(x)]` (IndexError); everywhere else it is `Pwc.integral`.
    Found by the refinement proof of the generated model (Gen/Classes.lean); no property quantifies
    over `a = b`. -/
def Pwc.integralCode (f : Pwc) (a b : Q) : Option Q :=
  if a = lastD f.x 0 ∧ b = lastD f.x 0 then none else f.integral a b

/-- `PieceWiseLinFunc.integral((a, b))` exactly as the code behaves: besides the assertion `a ≥ x[0]`
    it raises IndexError when `a ≥ x[-1]` or `b > x[-1]` (the hand-written `Pwl.integral` extrapolates the
    last piece there). Found by the refinement proof of the generated model; intervals outside the support
    are outside every property. -/
def Pwl.integralCode (f : Pwl) (a b : Q) : Option Q :=
  if f.x.headD 0 ≤ a ∧ a < lastD f.x 0 ∧ b ≤ lastD f.x 0 then f.integral a b else none

/-- `avrg([(a₁,b₁), …])` with the code-faithful single-interval integral -/
def Pwc.avrgListCode (f : Pwc) (ivs : List (Q × Q)) : Option Q :=
  let rec go (ivs : List (Q × Q)) (acc len : Q) : Option Q :=
    match ivs with
    | [] => some (acc / len)
    | (a, b) :: r => match f.integralCode a b with
      | none => none
      | some v => go r (acc + v) (len + (b - a))
  go ivs 0 0

def Pwl.avrgListCode (f : Pwl) (ivs : List (Q × Q)) : Option Q :=
  let rec go (ivs : List (Q × Q)) (acc len : Q) : Option Q :=
    match ivs with
    | [] => some (acc / len)
    | (a, b) :: r => match f.integralCode a b with
      | none => none
      | some v => go r (acc + v) (len + (b - a))
  go ivs 0 0

end PySpike
