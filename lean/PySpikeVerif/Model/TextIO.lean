/-
  Model/TextIO.lean — `save_spike_trains_to_txt` / `load_spike_trains_from_txt` /
  `spike_train_from_string` (spikes.py:12-61, 92-106) at the level of lines and number tokens.

  A saved number is printed with `"{0:.pe}"`: correctly rounded (ties to even, on the exact value
  of the double) to `p` digits after the decimal point of the scientific notation; `roundSci p`
  is that decimal value as a rational. Loading parses the decimal back (the nearest double — the
  harness compares `float(model value)` with the loaded double). Splitting a text line into tokens
  at the separator is not modelled (tokens never contain the separator or start with the comment
  string — trusted).
-/
import PySpikeVerif.Model.Api
namespace PySpike

/-- `e` with `10^e ≤ x < 10^(e+1)` for `x > 0` (search bounded by `fuel`) -/
def exp10Up (x : Q) : Nat → Int → Int
  | 0, e => e
  | fuel + 1, e => if x < 10 then e else exp10Up (x / 10) fuel (e + 1)
def exp10Down (x : Q) : Nat → Int → Int
  | 0, e => e
  | fuel + 1, e => if 1 ≤ x then e else exp10Down (x * 10) fuel (e - 1)
def exponent10 (x : Q) : Int := if 1 ≤ x then exp10Up x 400 0 else exp10Down x 400 0

def pow10 (e : Int) : Q := if 0 ≤ e then (10 : Q) ^ e.toNat else 1 / (10 : Q) ^ (-e).toNat

/-- round to the nearest integer, ties to even -/
def roundHalfEven (r : Q) : Int :=
  let f := r.floor
  let d := r - f
  if d < 1/2 then f else if 1/2 < d then f + 1 else if f % 2 = 0 then f else f + 1

/-- value of `"{0:.pe}".format(x)` -/
def roundSci (p : Nat) (x : Q) : Q :=
  if x = 0 then 0 else
  let a := qabs x
  let e := exponent10 a
  let scale := pow10 ((p : Int) - e)
  let r : Q := (roundHalfEven (a * scale) : Int) / scale
  if x < 0 then -r else r

inductive Line where
  | comment               -- a line starting with the comment string
  | data (toks : List Q)  -- the numbers of a line (an empty line has none)
deriving Repr, DecidableEq

/-- `save_spike_trains_to_txt(trains, file, sep, precision)`: one line per train -/
def saveLines (p : Nat) (trains : List (List Q)) : List Line :=
  trains.map fun s => Line.data (s.map (roundSci p))

/-- `load_spike_trains_from_txt(file, edges, sep, comment, is_sorted=False, ignore_empty_lines)`:
    comment lines skipped, empty lines give an empty train unless ignored, every line sorted -/
def loadLines (ignoreEmpty : Bool) (lines : List Line) : List (List Q) :=
  lines.filterMap fun l =>
    match l with
    | .comment => none
    | .data [] => if ignoreEmpty then none else some []
    | .data (t :: r) => some (sortQ (t :: r))

/-- `spike_train_from_string(s, edges)` with a scalar edge: interval `[0, edge]` -/
def trainFromTokens (toks : List Q) (edge : Q) : Train := ⟨sortQ toks, 0, edge⟩

end PySpike
