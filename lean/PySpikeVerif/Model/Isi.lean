/-
  Model/Isi.lean — `isi_distance_python` (pyspike/cython/python_backend.py:16-97)
  as list recursion. Cursor `index_n` of the code = number of consumed spikes - 1;
  the model carries the last consumed spike (`prev`) and the remaining spikes (`rest`).
  One loop iteration of the code = one recursive call of `isiLoop`.
-/
import PySpikeVerif.Model.Basic
namespace PySpike

/-- ISI length of a train right after its spike `a` has been consumed
    (python_backend.py:52-57 and the three copies of it). `prev` is the spike before `a`. -/
def nuAfter (prev : Option Q) (a : Q) (rest : List Q) (te : Q) : Q :=
  match rest with
  | f :: _ => f - a
  | [] => match prev with
    | some q => max (te - a) (a - q)
    | none => te - a

/-- `abs(nu1 - nu2) / max([nu1, nu2, MRTS])` -/
def isiVal (nu1 nu2 m : Q) : Q := qabs (nu1 - nu2) / max (max nu1 nu2) m

structure TrainCur where
  prev : Option Q
  rest : List Q
  nu   : Q
deriving Repr

/-- start-edge initialisation, python_backend.py:30-43 -/
def isiInit (s : List Q) (ts te : Q) : TrainCur :=
  match s with
  | [] => ⟨none, [], te - ts⟩           -- not reachable through the API (`get_spikes_non_empty`)
  | a :: r =>
    if a > ts then
      ⟨none, a :: r, match r with | b :: _ => max (a - ts) (b - a) | [] => a - ts⟩
    else
      ⟨some a, r, match r with | b :: _ => b - a | [] => te - a⟩

/-- the `while` loop, python_backend.py:47-89; emits (event time, value after the event) -/
def isiLoop (te m : Q) (p1 : Option Q) (r1 : List Q) (nu1 : Q)
    (p2 : Option Q) (r2 : List Q) (nu2 : Q) : List (Q × Q) :=
  match r1, r2 with
  | [], [] => []
  | a :: r1', [] =>
    let nu1' := nuAfter p1 a r1' te
    (a, isiVal nu1' nu2 m) :: isiLoop te m (some a) r1' nu1' p2 [] nu2
  | [], b :: r2' =>
    let nu2' := nuAfter p2 b r2' te
    (b, isiVal nu1 nu2' m) :: isiLoop te m p1 [] nu1 (some b) r2' nu2'
  | a :: r1', b :: r2' =>
    if a < b then
      let nu1' := nuAfter p1 a r1' te
      (a, isiVal nu1' nu2 m) :: isiLoop te m (some a) r1' nu1' p2 (b :: r2') nu2
    else if b < a then
      let nu2' := nuAfter p2 b r2' te
      (b, isiVal nu1 nu2' m) :: isiLoop te m p1 (a :: r1') nu1 (some b) r2' nu2'
    else
      let nu1' := nuAfter p1 a r1' te
      let nu2' := nuAfter p2 b r2' te
      (a, isiVal nu1' nu2' m) :: isiLoop te m (some a) r1' nu1' (some b) r2' nu2'
termination_by r1.length + r2.length
decreasing_by all_goals (simp; try omega)

/-- trimming of the trailing event, python_backend.py:90-97:
    if the last event is `t_end` the value after it is dropped, otherwise `t_end` is appended. -/
def finishPwc (evs : List (Q × Q)) (te : Q) : List Q × List Q :=
  if (evs.getLast?.map (·.1)) = some te then
    (evs.map (·.1), (evs.map (·.2)).dropLast)
  else
    (evs.map (·.1) ++ [te], evs.map (·.2))

def isiEvents (s1 s2 : List Q) (ts te m : Q) : List (Q × Q) :=
  let i1 := isiInit s1 ts te
  let i2 := isiInit s2 ts te
  (ts, isiVal i1.nu i2.nu m) :: isiLoop te m i1.prev i1.rest i1.nu i2.prev i2.rest i2.nu

/-- `isi_distance_python(s1, s2, t_start, t_end, MRTS)` → `(spike_events, isi_values)` -/
def isiProfile (s1 s2 : List Q) (ts te m : Q) : List Q × List Q :=
  finishPwc (isiEvents s1 s2 ts te m) te

end PySpike
