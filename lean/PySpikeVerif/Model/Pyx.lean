/-
  Model/Pyx.lean — the Cython sources (`pyspike/cython/*.pyx`) where they are written differently
  from their pure-Python twins:

  * `isi_profile_cython` / `isi_distance_cython`: the end-edge correction reuses the *previous*
    value of `nu` (`fmax(t_end - s[i], nu)`) instead of recomputing `s[N-1]-s[N-2]`;
    `isi_distance_cython` accumulates the integral in a single pass instead of building a profile;
  * `cython_get_tau.Interpolate` is written with different comparisons (`interpPyx`);
  * `spike_profile_cython` / `spike_distance_cython`: auxiliary spikes as `2*t[0]-t[1]`; the distance
    routine accumulates trapezoids in a single pass and adds a final piece up to `t_end` always;
  * `coincidence_value_cython`, `spike_train_order_cython`, `spike_directionality_cython`:
    single-pass counters instead of profiles (2 per coincident pair).

  Where a `.pyx` routine is line-by-line the same algorithm as its `.py` twin
  (`coincidence_profile_cython`, `coincidence_single_profile_cython`, the three `add_*_cython`,
  `spike_train_order_profile_cython`, `spike_directionality_profiles_cython`) the model of the
  twin in Model/Sync.lean / Model/Funcs.lean is the model of both, and the tie of the `.pyx` source
  to it is the transliterated run of the correspondence check (harness/pyx2py.py).
-/
import PySpikeVerif.Model.Isi
import PySpikeVerif.Model.Spike
import PySpikeVerif.Model.Sync
import PySpikeVerif.Model.Funcs
namespace PySpike

/-! ## ISI -/

/-- `nu` after consuming spike `a` in `isi_profile_cython`: `multi` = (`N > 1`), `nuOld` the value of
    `nu` before the update -/
def nuAfterPyx (multi : Bool) (nuOld : Q) (a : Q) (rest : List Q) (te : Q) : Q :=
  match rest with
  | f :: _ => f - a
  | [] => if multi then max (te - a) nuOld else te - a

/-- `fabs(nu1-nu2)/fmax(MRTS, fmax(nu1, nu2))` -/
def isiValPyx (nu1 nu2 m : Q) : Q := qabs (nu1 - nu2) / max m (max nu1 nu2)

def isiLoopPyx (te m : Q) (m1 m2 : Bool) (r1 : List Q) (nu1 : Q) (r2 : List Q) (nu2 : Q) :
    List (Q × Q) :=
  match r1, r2 with
  | [], [] => []
  | a :: r1', [] =>
    let nu1' := nuAfterPyx m1 nu1 a r1' te
    (a, isiValPyx nu1' nu2 m) :: isiLoopPyx te m m1 m2 r1' nu1' [] nu2
  | [], b :: r2' =>
    let nu2' := nuAfterPyx m2 nu2 b r2' te
    (b, isiValPyx nu1 nu2' m) :: isiLoopPyx te m m1 m2 [] nu1 r2' nu2'
  | a :: r1', b :: r2' =>
    if a < b then
      let nu1' := nuAfterPyx m1 nu1 a r1' te
      (a, isiValPyx nu1' nu2 m) :: isiLoopPyx te m m1 m2 r1' nu1' (b :: r2') nu2
    else if b < a then
      let nu2' := nuAfterPyx m2 nu2 b r2' te
      (b, isiValPyx nu1 nu2' m) :: isiLoopPyx te m m1 m2 (a :: r1') nu1 r2' nu2'
    else
      let nu1' := nuAfterPyx m1 nu1 a r1' te
      let nu2' := nuAfterPyx m2 nu2 b r2' te
      (a, isiValPyx nu1' nu2' m) :: isiLoopPyx te m m1 m2 r1' nu1' r2' nu2'
termination_by r1.length + r2.length
decreasing_by all_goals (simp; try omega)

def isiEventsPyx (s1 s2 : List Q) (ts te m : Q) : List (Q × Q) :=
  let i1 := isiInit s1 ts te
  let i2 := isiInit s2 ts te
  (ts, isiValPyx i1.nu i2.nu m) ::
    isiLoopPyx te m (decide (s1.length > 1)) (decide (s2.length > 1)) i1.rest i1.nu i2.rest i2.nu

/-- `isi_profile_cython` -/
def isiProfilePyx (s1 s2 : List Q) (ts te m : Q) : List Q × List Q :=
  finishPwc (isiEventsPyx s1 s2 ts te m) te

/-- single-pass integration `isi_value += curr_isi * (curr_t - last_t)` over a list of
    (event time, value after the event), closing at `te` -/
def accumPwc (lastT cur : Q) (evs : List (Q × Q)) (te : Q) : Q :=
  match evs with
  | [] => cur * (te - lastT)
  | (t, v) :: r => cur * (t - lastT) + accumPwc t v r te

/-- `isi_distance_cython` -/
def isiDistancePyx (s1 s2 : List Q) (ts te m : Q) : Q :=
  match isiEventsPyx s1 s2 ts te m with
  | [] => 0
  | (t0, v0) :: r => accumPwc t0 v0 r te / (te - ts)

/-! ## coincidence window -/

/-- `get_tau` of cython_get_tau.pyx (its own `Interpolate`) -/
def getTauPyx (p1 c1 n1 p2 c2 n2 : Option Q) (maxTau mrts : Q) : Q :=
  let mF1 : Q := optDiff c1 n1 maxTau / 2
  let mF2 : Q := optDiff c2 n2 maxTau / 2
  let mP1 : Q := optDiff p1 c1 maxTau / 2
  let mP2 : Q := optDiff p2 c2 maxTau / 2
  let m : Q := mrts / 4
  if tauFirst c1 c2 then
    min (min (interpPyx mP1 mF1 m) (interpPyx mF2 mP2 m)) (maxTau / 2)
  else
    min (min (interpPyx mF1 mP1 m) (interpPyx mP2 mF2 m)) (maxTau / 2)

/-! ## SPIKE -/

/-- `fmin(t_start, 2*t1[0]-t1[1])` -/
def auxStartPyx (t : List Q) (ts : Q) : Q :=
  match t with
  | a :: b :: _ => min ts (2 * a - b)
  | _ => ts

/-- `fmax(t_end, 2*t1[N1-1]-t1[N1-2])` -/
def auxEndPyx (t : List Q) (te : Q) : Q :=
  match t with
  | [] => te
  | [_] => te
  | [p, l] => max te (2 * l - p)
  | _ :: b :: c :: r => auxEndPyx (b :: c :: r) te

/-- events of the SPIKE scan with the Cython auxiliary spikes: (time, y_end before, y_start after),
    the initial `y_start` and the final train states -/
def spikeEventsPyx (t1 t2 : List Q) (ts te m : Q) (ri : Bool) :
    Q × List (Q × Q × Q) × SpkSt × SpkSt :=
  let a10 := auxStartPyx t1 ts
  let a11 := auxEndPyx t1 te
  let a20 := auxStartPyx t2 ts
  let a21 := auxEndPyx t2 te
  let i1 := spkInit t1 t2 ts te a10 a20 a21
  let i2 := spkInit t2 t1 ts te a20 a10 a11
  let y0 := distAtT i1.1.isi i2.1.isi i1.2.2.2 i2.2.2.2 m ri
  let res := spkLoop ⟨te, m, ri, a10, a11, a20, a21⟩ i1.1 i1.2.1 i1.2.2.1 i2.1 i2.2.1 i2.2.2.1
  (y0, res.1, res.2.1, res.2.2)

/-- `spike_profile_cython` -/
def spikeProfilePyx (t1 t2 : List Q) (ts te m : Q) (ri : Bool) : List Q × List Q × List Q :=
  let e := spikeEventsPyx t1 t2 ts te m ri
  let evs := e.2.1
  let times := ts :: evs.map (·.1)
  let ystarts := e.1 :: evs.map (·.2.2)
  let yends := evs.map (·.2.1)
  if times.getLast? = some te then
    (times, ystarts.dropLast, yends)
  else
    (times ++ [te], ystarts, yends ++ [distAtT e.2.2.1.isi e.2.2.2.isi e.2.2.1.dtf e.2.2.2.dtf m ri])

/-- `spike_value += 0.5*(y_start + y_end) * (t_curr - t_last)` over the events, then the final
    piece up to `t_end` with `y_end = dist_at_t(isi1, isi2, dt_f1, dt_f2)` — added unconditionally -/
def accumPwl (lastT ystart : Q) (evs : List (Q × Q × Q)) (te yfinal : Q) : Q :=
  match evs with
  | [] => (ystart + yfinal) / 2 * (te - lastT)
  | (t, ye, ys) :: r => (ystart + ye) / 2 * (t - lastT) + accumPwl t ys r te yfinal

/-- `spike_distance_cython` -/
def spikeDistancePyx (t1 t2 : List Q) (ts te m : Q) (ri : Bool) : Q :=
  let e := spikeEventsPyx t1 t2 ts te m ri
  accumPwl ts e.1 e.2.1 te (distAtT e.2.2.1.isi e.2.2.2.isi e.2.2.1.dtf e.2.2.2.dtf m ri) / (te - ts)

/-! ## single-pass counters -/

/-- the loop shared by `coincidence_value_cython` (w1 = w2 = wt = 2),
    `spike_train_order_cython` (w1 = -2, w2 = 2, wt = 0) and `spike_directionality_cython`
    (w1 = -1, w2 = 1, wt = 0): returns (accumulated value, multiplicity) -/
def valueLoop (w1 w2 wt tm mrts : Q) (k1 r1 k2 r2 : List Q) (acc mp : Q) : Q × Q :=
  match r1, r2 with
  | [], [] => (acc, mp)
  | a :: r1', [] =>
    let tau := tauAt (a :: k1) r1' k2 [] tm mrts
    let hit : Bool := match k2 with | j :: _ => decide (a - j < tau) | [] => false
    valueLoop w1 w2 wt tm mrts (a :: k1) r1' k2 [] (if hit then acc + w1 else acc) (mp + 1)
  | [], b :: r2' =>
    let tau := tauAt k1 [] (b :: k2) r2' tm mrts
    let hit : Bool := match k1 with | i :: _ => decide (b - i < tau) | [] => false
    valueLoop w1 w2 wt tm mrts k1 [] (b :: k2) r2' (if hit then acc + w2 else acc) (mp + 1)
  | a :: r1', b :: r2' =>
    if a < b then
      let tau := tauAt (a :: k1) r1' k2 (b :: r2') tm mrts
      let hit : Bool := match k2 with | j :: _ => decide (a - j < tau) | [] => false
      valueLoop w1 w2 wt tm mrts (a :: k1) r1' k2 (b :: r2') (if hit then acc + w1 else acc) (mp + 1)
    else if b < a then
      let tau := tauAt k1 (a :: r1') (b :: k2) r2' tm mrts
      let hit : Bool := match k1 with | i :: _ => decide (b - i < tau) | [] => false
      valueLoop w1 w2 wt tm mrts k1 (a :: r1') (b :: k2) r2' (if hit then acc + w2 else acc) (mp + 1)
    else
      valueLoop w1 w2 wt tm mrts (a :: k1) r1' (b :: k2) r2' (acc + wt) (mp + 2)
termination_by r1.length + r2.length
decreasing_by all_goals (simp; try omega)

/-- `coincidence_value_cython` → (coinc, mp) -/
def coincValuePyx (s1 s2 : List Q) (ts te maxTau mrts : Q) : Q × Q :=
  valueLoop 2 2 2 (trueMax ts te maxTau) mrts [] s1 [] s2 0 0

/-- `spike_train_order_cython` → (d, mp); `(1, 1)` when nothing was counted -/
def orderValuePyx (s1 s2 : List Q) (ts te maxTau mrts : Q) : Q × Q :=
  let r := valueLoop (-2) 2 0 (trueMax ts te maxTau) mrts [] s1 [] s2 0 0
  if r.1 = 0 ∧ r.2 = 0 then (1, 1) else r

/-- `spike_directionality_cython` → d -/
def dirValuePyx (s1 s2 : List Q) (ts te maxTau mrts : Q) : Q :=
  (valueLoop (-1) 1 0 (trueMax ts te maxTau) mrts [] s1 [] s2 0 0).1

end PySpike
