/-
  Gen/PreludeApi.lean — run-time support for the generated model of the object-level helpers of
  pyspike/spikes.py (`Gen/Api.lean`, produced by `harness/py2lean_api.py` on every run).

  What is *modelled* here (not translated): the `SpikeTrain` constructor (`SpikeTrain.py:12-31`: the spike
  times become a float array, sorted with `np.sort` unless `is_sorted`; edges given as a pair), and the numpy /
  builtin functions by their documented meaning: `np.sort` (ascending), `np.unique` (sorted, each value once),
  `np.concatenate` (ValueError on an empty list), `min` / `max` of a list (ValueError on an empty list),
  `np.insert` at a constant position.
  The correspondence check runs the constructor and these calls in the real code on every run.
  No Mathlib import.
-/
import PySpikeVerif.Gen.Prelude
namespace PySpike.Gen

/-- a `SpikeTrain` object: its three attributes -/
structure PyTrain where
  spikes : List Rat
  t_start : Rat
  t_end : Rat
deriving Repr, DecidableEq

/-- `np.sort(a)` -/
def npSort (a : List Rat) : List Rat := a.mergeSort (fun x y => decide (x ≤ y))

/-- drop a value equal to its predecessor (on a sorted list: keep each value once) -/
def dropRepeats : List Rat → List Rat
  | [] => []
  | [a] => [a]
  | a :: b :: r => if a = b then dropRepeats (b :: r) else a :: dropRepeats (b :: r)

/-- `np.unique(a)`: the sorted distinct values -/
def npUnique (a : List Rat) : List Rat := dropRepeats (npSort a)

/-- `SpikeTrain(spike_times, [t_start, t_end], is_sorted)` -/
def mkTrain (spike_times : List Rat) (t_start t_end : Rat) (is_sorted : Bool) : PyTrain :=
  ⟨if is_sorted then spike_times else npSort spike_times, t_start, t_end⟩

/-- `min(l)` (ValueError on an empty list) -/
def pyMin : List Rat → Option Rat
  | [] => none
  | a :: r => some (r.foldl min a)

/-- `max(l)` (ValueError on an empty list) -/
def pyMax : List Rat → Option Rat
  | [] => none
  | a :: r => some (r.foldl max a)

/-- `np.concatenate(ls)` (ValueError: need at least one array to concatenate) -/
def npConcatenate (ls : List (List Rat)) : Option (List Rat) :=
  if ls.isEmpty then none else some ls.flatten

/-- `np.insert(a, k, v)` for a position `0 ≤ k ≤ len(a)`: the values `v` go in before position `k` (IndexError beyond) -/
def npInsert (a : List Rat) (k : Nat) (v : List Rat) : Option (List Rat) :=
  if k ≤ a.length then some (a.take k ++ v ++ a.drop k) else none

end PySpike.Gen
