/-
  Gen/Prelude.lean — run-time support for the *generated* model (`Gen/Backend.lean`), which
  `harness/py2lean.py` produces from `/repo/pyspike/cython/*.py` on every run.

  The generated code is a shallow embedding of the Python subset the backend uses:
  * every Python function becomes a state record `f.St` (parameters + locals), a `main` block and one
    recursive function per loop; control flow is the three-valued `Flow` (continue / `return` / error);
  * numbers: Python `int` ↦ `Int`, `float`/numpy double ↦ `Rat` (real-number semantics, `x / 0 = 0`),
    numpy 1-d arrays ↦ `List Rat`;
  * indexing follows Python: a negative index counts from the end, an index out of range is an
    error (`none`; Python raises `IndexError`), slices clamp.
  No Mathlib import (the driver links this).
-/
import PySpikeVerif.Model.Basic
namespace PySpike.Gen

/-- outcome of executing a block: fall through with a new state, `return r`, or a run-time error
    (IndexError, loop fuel exhausted, falling off the end of a function). -/
inductive Flow (σ ρ : Type) where
  | next (s : σ)
  | ret (r : ρ)
  | err

namespace Flow
variable {σ ρ α : Type}

/-- sequencing of statements -/
@[inline] def bind (x : Flow σ ρ) (k : σ → Flow σ ρ) : Flow σ ρ :=
  match x with
  | .next s => k s
  | .ret r => .ret r
  | .err => .err

/-- evaluate an expression that may fail, then continue -/
@[inline] def ofOpt (x : Option α) (k : α → Flow σ ρ) : Flow σ ρ :=
  match x with
  | some a => k a
  | none => .err

/-- result of a function body: the returned value; falling off the end is an error here
    (every translated function returns explicitly). -/
def run : Flow σ ρ → Option ρ
  | .ret r => some r
  | _ => none

@[simp] theorem bind_next (s : σ) (k : σ → Flow σ ρ) : bind (.next s) k = k s := rfl
@[simp] theorem bind_ret (r : ρ) (k : σ → Flow σ ρ) : bind (.ret r : Flow σ ρ) k = .ret r := rfl
@[simp] theorem bind_err (k : σ → Flow σ ρ) : bind (.err : Flow σ ρ) k = .err := rfl
@[simp] theorem ofOpt_some (a : α) (k : α → Flow σ ρ) : ofOpt (some a) k = k a := rfl
@[simp] theorem ofOpt_none (k : α → Flow σ ρ) : ofOpt (none : Option α) k = .err := rfl
@[simp] theorem run_ret (r : ρ) : run (.ret r : Flow σ ρ) = some r := rfl
@[simp] theorem run_next (s : σ) : run (.next s : Flow σ ρ) = none := rfl
@[simp] theorem run_err : run (.err : Flow σ ρ) = none := rfl
end Flow

/-- normalise a Python index against a length: `some k` with `k < n`, or `none` (IndexError). -/
def pyNorm (n : Nat) (i : Int) : Option Nat :=
  if 0 ≤ i then (if i < (n : Int) then some i.toNat else none)
  else (if -(n : Int) ≤ i then some ((n : Int) + i).toNat else none)

/-- `a[i]` -/
def pyIdx (a : List Rat) (i : Int) : Option Rat :=
  match pyNorm a.length i with
  | some k => a[k]?
  | none => none

/-- `a[i] = v` (functional update) -/
def pySet (a : List Rat) (i : Int) (v : Rat) : Option (List Rat) :=
  match pyNorm a.length i with
  | some k => some (a.set k v)
  | none => none

/-- `a[i]` on a C memoryview compiled with `boundscheck=False, wraparound=False`: a negative or
    out-of-range index is undefined behaviour in C; here it is an error (`none`), never a wrap-around. -/
def cIdx (a : List Rat) (i : Int) : Option Rat :=
  if 0 ≤ i then a[i.toNat]? else none

/-- `a[i] = v` on a C memoryview (same convention) -/
def cSet (a : List Rat) (i : Int) (v : Rat) : Option (List Rat) :=
  if 0 ≤ i ∧ i < (a.length : Int) then some (a.set i.toNat v) else none

/-- clamp a slice bound as Python does (`None` is given by the caller as 0 / `len`). -/
def pyBound (n : Nat) (i : Int) : Nat :=
  if 0 ≤ i then min i.toNat n else ((n : Int) + i).toNat

/-- `a[lo:hi]` -/
def pySlice (a : List Rat) (lo hi : Int) : List Rat :=
  let l := pyBound a.length lo
  let h := pyBound a.length hi
  (a.take h).drop l

/-- `a[lo:]` -/
def pyFrom (a : List Rat) (lo : Int) : List Rat := a.drop (pyBound a.length lo)

/-- `a[:hi]` -/
def pyTo (a : List Rat) (hi : Int) : List Rat := a.take (pyBound a.length hi)

/-- `a[lo:hi] = v` for a slice and a value of the same length (numpy raises ValueError otherwise;
    a length-1 / scalar right-hand side is not used by the translated code). -/
def pySetSlice (a : List Rat) (lo hi : Int) (v : List Rat) : Option (List Rat) :=
  let l := pyBound a.length lo
  let h := pyBound a.length hi
  if h - l = v.length then some (a.take l ++ v ++ a.drop (max l h)) else none

/-- numpy broadcasting of a binary operation array ∘ array (equal lengths) -/
def vZip (f : Rat → Rat → Rat) (a b : List Rat) : Option (List Rat) :=
  if a.length = b.length then some (List.zipWith f a b) else none

/-- `np.empty(n)`, `np.zeros(n)` (the content of `np.empty` is unspecified: every entry the
    translated code returns has been written before, which the refinement theorems confirm). -/
def npZeros (n : Int) : List Rat := List.replicate n.toNat 0
def npOnes (n : Int) : List Rat := List.replicate n.toNat 1

/-- `range(a, b)` -/
def rangeInt (a b : Int) : List Int := (List.range (b - a).toNat).map (fun (k : Nat) => a + (k : Int))

/-- `int(x)` for a float: truncation towards zero -/
def pyTrunc (x : Rat) : Int := if 0 ≤ x then x.floor else -((-x).floor)

def pyAbs (x : Rat) : Rat := PySpike.qabs x

/-- `np.searchsorted(a, v, side='right')` on a sorted array: the number of entries `≤ v`
    (numpy's documented meaning; binary search itself is not modelled) -/
def npSearchRight (a : List Rat) (v : Rat) : Int := ((a.filter (· ≤ v)).length : Int)
/-- `np.searchsorted(a, v, side='left')`: the number of entries `< v` -/
def npSearchLeft (a : List Rat) (v : Rat) : Int := ((a.filter (· < v)).length : Int)
/-- `np.sum(a)` -/
def vSum (a : List Rat) : Rat := PySpike.qsum a
/-- `sum(a == v)` -/
def vCountEq (a : List Rat) (v : Rat) : Int := ((a.filter (· = v)).length : Int)

end PySpike.Gen
