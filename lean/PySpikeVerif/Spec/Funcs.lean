/-
  Spec/Funcs.lean — cursor-free meaning of the three function classes (properties C09, C10, C11):
  one-sided limits, well-formedness, Riemann integral by clipping every piece.
-/
import PySpikeVerif.Model.Funcs
namespace PySpike

/-! ## piecewise constant -/

/-- well-formed representation: one value per piece, strictly increasing breakpoints, ≥ 1 piece -/
def Pwc.WF (f : Pwc) : Prop :=
  f.y.length + 1 = f.x.length ∧ f.x.Pairwise (· < ·) ∧ 2 ≤ f.x.length

/-- right limit `f(t⁺)`: the value of the piece `[x_k, x_{k+1})` containing `t` -/
def Pwc.evalR (f : Pwc) (t : Q) : Option Q :=
  (f.pieces.find? fun p => decide (p.1 ≤ t ∧ t < p.2.1)).map (·.2.2)

/-- left limit `f(t⁻)`: the value of the piece `(x_k, x_{k+1}]` containing `t` -/
def Pwc.evalL (f : Pwc) (t : Q) : Option Q :=
  (f.pieces.find? fun p => decide (p.1 < t ∧ t ≤ p.2.1)).map (·.2.2)

/-- length of the overlap of `[l, r]` with `[a, b]` -/
def clipLen (a b l r : Q) : Q := max 0 (min b r - max a l)

/-- exact Riemann integral of a piecewise constant function over `[a, b]` -/
def Pwc.riemann (f : Pwc) (a b : Q) : Q :=
  qsum (f.pieces.map fun p => clipLen a b p.1 p.2.1 * p.2.2)

def Pwc.first (f : Pwc) : Q := f.x.headD 0
def Pwc.last (f : Pwc) : Q := lastD f.x 0

/-! ## piecewise linear -/

def Pwl.WF (f : Pwl) : Prop :=
  f.y1.length + 1 = f.x.length ∧ f.y2.length + 1 = f.x.length ∧ f.x.Pairwise (· < ·) ∧ 2 ≤ f.x.length

def Pwl.evalR (f : Pwl) (t : Q) : Option Q :=
  (f.pieces.find? fun p => decide (p.xl ≤ t ∧ t < p.xr)).map (·.at t)

def Pwl.evalL (f : Pwl) (t : Q) : Option Q :=
  (f.pieces.find? fun p => decide (p.xl < t ∧ t ≤ p.xr)).map (·.at t)

/-- integral of a linear piece over its overlap with `[a,b]` (trapezoid on the clipped piece) -/
def Piece.clipInt (p : Piece) (a b : Q) : Q :=
  let lo := max a p.xl
  let hi := min b p.xr
  if lo < hi then (hi - lo) * ((p.at lo + p.at hi) / 2) else 0

def Pwl.riemann (f : Pwl) (a b : Q) : Q := qsum (f.pieces.map fun p => p.clipInt a b)

def Pwl.first (f : Pwl) : Q := f.x.headD 0
def Pwl.last (f : Pwl) : Q := lastD f.x 0

/-! ## discrete -/

/-- well-formed discrete profile: two edge entries framing the events; event times strictly
    increasing and strictly inside?  No — events may sit on an edge (a spike on `t_start`), so the
    times are only non-decreasing at the two ends and strictly increasing in the interior. -/
def Disc.WF (f : Disc) : Prop :=
  2 ≤ f.e.length ∧ (f.interior.map (·.1)).Pairwise (· < ·) ∧
  (∀ p ∈ f.interior, (f.e.headD (0,0,0)).1 ≤ p.1 ∧ p.1 ≤ (lastD f.e (0,0,0)).1)

/-- summed (value, multiplicity) of the events of `f` at time `t` (edge entries never count) -/
def Disc.at (f : Disc) (t : Q) : Q × Q :=
  match f.interior.find? (fun p => p.1 = t) with
  | some p => (p.2.1, p.2.2)
  | none => (0, 0)

/-- sum over the events strictly inside `(a, b)` -/
def Disc.sumInside (f : Disc) (a b : Q) : Q × Q :=
  let sel := f.interior.filter fun p => decide (a < p.1 ∧ p.1 < b)
  (qsum (sel.map (·.2.1)), qsum (sel.map (·.2.2)))

end PySpike
