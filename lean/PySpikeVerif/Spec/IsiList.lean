/-
  Spec/IsiList.lean — cursor-free definition of the pooled inter-spike-interval list of one train
  (`isi_lengths`, used by `default_thresh` / `MRTS='auto'`), work package C5 (property C15).
  No Mathlib import: can be linked into the differential test harness.
-/
import PySpikeVerif.Model.Basic
namespace PySpike

/-- consecutive differences `s[i+1] - s[i]` -/
def C5_diffs : List Q → List Q
  | a :: b :: r => (b - a) :: C5_diffs (b :: r)
  | _ => []

/-- edge interval at the start: the larger of the distance to the edge and the neighbouring
    inter-spike interval (just the distance to the edge for a one-spike train) -/
def C5_startEdge (s : List Q) (ts : Q) : Q :=
  match s with
  | [] => 0
  | [a] => a - ts
  | a :: b :: _ => max (a - ts) (b - a)

/-- edge interval at the end, symmetrically (`l` last spike, `q` the spike before it) -/
def C5_endEdge (s : List Q) (te : Q) : Q :=
  match s.getLast?, s.dropLast.getLast? with
  | none, _ => 0
  | some l, none => te - l
  | some l, some q => max (te - l) (l - q)

/-- the inter-spike-interval lengths of a train with the edge rule of the ISI and SPIKE profiles:
    no spike: the whole recording; otherwise an edge interval before the first spike if it is
    after `ts`, the consecutive differences, an edge interval after the last spike if it is
    before `te`. -/
def isiListSpec (s : List Q) (ts te : Q) : List Q :=
  match s with
  | [] => [te - ts]
  | a :: r =>
    (if ts < a then [C5_startEdge (a :: r) ts] else []) ++ C5_diffs (a :: r) ++
      (if lastD (a :: r) a < te then [C5_endEdge (a :: r) te] else [])

/-- the inputs on which `isi_lengths` does not return the inter-spike intervals (finding F7):
    a single spike on an edge, or exactly the two edges -/
def F7class (s : List Q) (ts te : Q) : Prop :=
  (s.length = 1 ∧ (s = [ts] ∨ s = [te])) ∨ s = [ts, te]

instance (s : List Q) (ts te : Q) : Decidable (F7class s ts te) := by
  unfold F7class; infer_instance

end PySpike
