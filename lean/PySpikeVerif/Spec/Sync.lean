/-
  Spec/Sync.lean — cursor-free definition of coincidences (properties C03, C04, C16, C17):
  neighbours by filtering, the pairwise coincidence relation, and the profile entries derived
  from it.
-/
import PySpikeVerif.Model.Sync
import PySpikeVerif.Model.Api
namespace PySpike

/-- last spike of `s` before `x`, first spike of `s` after `x` (sorted `s`) -/
def predOf (s : List Q) (x : Q) : Option Q := (s.filter (· < x)).getLast?
def succOf (s : List Q) (x : Q) : Option Q := (s.filter (x < ·)).head?

/-- coincidence window of spike `a` of train 1 and spike `b` of train 2: `get_tau` applied to the
    neighbouring inter-spike intervals of the two spikes (`tm` = `true_max`) -/
def tauSpec (s1 s2 : List Q) (tm mrts a b : Q) : Q :=
  getTau (predOf s1 a) (some a) (succOf s1 a) (predOf s2 b) (some b) (succOf s2 b) tm mrts

/-- spikes `a` (train 1) and `b` (train 2) are coincident: strictly closer than the window -/
def Coinc (s1 s2 : List Q) (tm mrts a b : Q) : Prop := qabs (a - b) < tauSpec s1 s2 tm mrts a b

instance (s1 s2 : List Q) (tm mrts a b : Q) : Decidable (Coinc s1 s2 tm mrts a b) := by
  unfold Coinc; infer_instance

/-- value written for spike `a` of train 1: `v1` if it is coincident with an earlier spike of
    train 2 (train 1 comes second), `v2` if with a later one (train 1 comes first), else 0.
    SPIKE-Sync: v1 = v2 = 1. Spike-train order: v1 = -1, v2 = +1. -/
def mark1 (v1 v2 : Q) (s1 s2 : List Q) (tm mrts a : Q) : Q :=
  if s2.any (fun b => decide (b < a ∧ Coinc s1 s2 tm mrts a b)) then v1
  else if s2.any (fun b => decide (a < b ∧ Coinc s1 s2 tm mrts a b)) then v2
  else 0

/-- value written for spike `b` of train 2 -/
def mark2 (v1 v2 : Q) (s1 s2 : List Q) (tm mrts b : Q) : Q :=
  if s1.any (fun a => decide (a < b ∧ Coinc s1 s2 tm mrts a b)) then v2
  else if s1.any (fun a => decide (b < a ∧ Coinc s1 s2 tm mrts a b)) then v1
  else 0

/-- the profile entry (time, value, multiplicity) at a spike time `t` -/
def entrySpec (v1 v2 vt : Q) (s1 s2 : List Q) (tm mrts t : Q) : Q × Q × Q :=
  if t ∈ s1 ∧ t ∈ s2 then (t, vt, 2)
  else if t ∈ s1 then (t, mark1 v1 v2 s1 s2 tm mrts t, 1)
  else (t, mark2 v1 v2 s1 s2 tm mrts t, 1)

/-- one entry per distinct spike time, in increasing order -/
def scanSpec (v1 v2 vt : Q) (s1 s2 : List Q) (tm mrts : Q) : List (Q × Q × Q) :=
  (uniqueQ (s1 ++ s2)).map (entrySpec v1 v2 vt s1 s2 tm mrts)

/-- per-spike coincidence indicator of train 1 against train 2 (used by the sync filter):
    1 iff some spike of train 2 — possibly at the same instant — is closer than the window -/
def singleSpec (s1 s2 : List Q) (tm mrts : Q) : List Q :=
  s1.map fun a => if s2.any (fun b => decide (Coinc s1 s2 tm mrts a b)) then 1 else 0

/-- directionality value of a spike: +1 if it leads its partner, -1 if it follows, 0 otherwise -/
def dirSpec1 (s1 s2 : List Q) (tm mrts : Q) : List Q := s1.map (mark1 (-1) 1 s1 s2 tm mrts)
def dirSpec2 (s1 s2 : List Q) (tm mrts : Q) : List Q :=
  s2.map fun b => - mark2 (-1) 1 s1 s2 tm mrts b

/-- strictly increasing spike list -/
def StrictSorted (s : List Q) : Prop := s.Pairwise (· < ·)

end PySpike
