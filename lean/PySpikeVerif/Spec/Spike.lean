/-
  Spec/Spike.lean — cursor-free definition of the SPIKE-profile (property C02).

  For each train the extended train (auxiliary spike before the first and after the last spike)
  is used; `dtTo x e` is the distance of `x` to the nearest spike of the other extended train.
  At time `t` (right limit `t⁺` or left limit `t⁻`) train n contributes
    * before its first real spike: the constant `dt(first spike)`, interval length = edge rule;
    * after its last real spike:   the constant `dt(last spike)`,  interval length = edge rule;
    * otherwise, with `p`/`f` the neighbouring real spikes: the linear interpolation
      `(dt(p)·(f-t) + dt(f)·(t-p)) / (f-p)`, interval length `f-p`.
  The two contributions are combined by `distAtT`.
-/
import PySpikeVerif.Model.Spike
import PySpikeVerif.Spec.Isi
namespace PySpike

/-- train with its two auxiliary spikes -/
def extTrain (s : List Q) (ts te : Q) : List Q := auxStart s ts :: (s ++ [auxEnd s te])

/-- distance from `x` to the nearest element of the non-empty list `e` -/
def dtTo (x : Q) : List Q → Q
  | [] => 0
  | [y] => qabs (x - y)
  | y :: z :: r => min (qabs (x - y)) (dtTo x (z :: r))

/-- (contribution s_n, interval length) of train `s` against train `o` at `t⁺` (`right = true`) or
    `t⁻` (`right = false`); `s` and `o` non-empty (`get_spikes_non_empty`) -/
def spikeContrib (s o : List Q) (ts te t : Q) (right : Bool) : Q × Q :=
  let eo := extTrain o ts te
  let first := s.headD ts
  let last := lastD s te
  let before : Bool := if right then decide (t < first) else decide (t ≤ first)
  let after : Bool := if right then decide (last ≤ t) else decide (last < t)
  if before then
    (dtTo first eo, match s with | a :: b :: _ => max (a - ts) (b - a) | _ => first - ts)
  else if after then
    (dtTo last eo, match (s.dropLast).getLast? with | some q => max (te - last) (last - q) | none => te - last)
  else
    let p := if right then lastD (s.filter (· ≤ t)) first else lastD (s.filter (· < t)) first
    let f := if right then (s.filter (t < ·)).headD last else (s.filter (t ≤ ·)).headD last
    ((dtTo p eo * (f - t) + dtTo f eo * (t - p)) / (f - p), f - p)

/-- the instantaneous SPIKE dissimilarity at `t⁺` / `t⁻` -/
def spikeSpec (s1 s2 : List Q) (ts te m : Q) (ri : Bool) (t : Q) (right : Bool) : Q :=
  let c1 := spikeContrib s1 s2 ts te t right
  let c2 := spikeContrib s2 s1 ts te t right
  distAtT c1.2 c2.2 c1.1 c2.1 m ri

/-- the profile according to the definition on given breakpoints `xs`:
    `y1[k] = S(xs[k]⁺)`, `y2[k] = S(xs[k+1]⁻)` -/
def spikeSpecProfile (s1 s2 : List Q) (ts te m : Q) (ri : Bool) (xs : List Q) : List Q × List Q :=
  ((xs.zip xs.tail).map fun p => spikeSpec s1 s2 ts te m ri p.1 true,
   (xs.zip xs.tail).map fun p => spikeSpec s1 s2 ts te m ri p.2 false)

/-- the input class of known finding F9: a train that is exactly one spike located on `t_start` -/
def OneSpikeOnStart (s : List Q) (ts : Q) : Prop := s = [ts]

instance (s : List Q) (ts : Q) : Decidable (OneSpikeOnStart s ts) := by
  unfold OneSpikeOnStart; infer_instance

end PySpike
