/-
  Spec/Isi.lean — cursor-free definition of the ISI-profile, read off property C01.
-/
import PySpikeVerif.Model.Isi
namespace PySpike

/-- `nuAt s ts te t`: length of the inter-spike interval of train `s` containing time `t`.
    `p` = last spike `≤ t`, `f` = first spike `> t`.
    Between two spikes: `f - p`. Before the first spike: the larger of the distance to the edge and
    the neighbouring ISI (just the edge distance for a one-spike train); after the last likewise.
    A train without spikes: the whole recording. -/
def nuAt (s : List Q) (ts te t : Q) : Q :=
  let before := s.filter (· ≤ t)
  let after := s.filter (t < ·)
  match before.getLast?, after.head? with
  | some p, some f => f - p
  | none, some f =>
    match after.tail.head? with
    | some g => max (f - ts) (g - f)
    | none => f - ts
  | some p, none =>
    match before.dropLast.getLast? with
    | some q => max (te - p) (p - q)
    | none => te - p
  | none, none => te - ts

/-- the value of the ISI-profile at time `t` according to the definition -/
def isiSpec (s1 s2 : List Q) (ts te m t : Q) : Q :=
  isiVal (nuAt s1 ts te t) (nuAt s2 ts te t) m

/-- a valid spike train as the kernels receive it: non-empty (`get_spikes_non_empty`), strictly
    increasing, inside `[ts, te]` -/
def ValidNE (s : List Q) (ts te : Q) : Prop :=
  s ≠ [] ∧ s.Pairwise (· < ·) ∧ ∀ x ∈ s, ts ≤ x ∧ x ≤ te

/-- "value after event i holds on [event i, event i+1)" (the last event is followed by `tend`) -/
def EvOK (spec : Q → Q) : List (Q × Q) → Q → Prop
  | [], _ => True
  | [(a, v)], tend => ∀ t, a ≤ t → t < tend → v = spec t
  | (a, v) :: (b, w) :: r, tend => (∀ t, a ≤ t → t < b → v = spec t) ∧ EvOK spec ((b, w) :: r) tend

end PySpike
