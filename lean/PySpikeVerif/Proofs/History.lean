/-
  Proofs/History.lean — work package B7: the history (state-machine refinement) theorem of
  Properties/C09.lean made GENERIC over the function class and over the observation, and
  instantiated for
    * `Pwc`  with `evalR` (re-deriving `C09.history_refines`), `evalL`, `integralAll`,
    * `Pwl`  with `evalR`, `evalL`, `integralAll`,
    * `Disc` with the value / the multiplicity at an event time and the two integral components.

  A store of function objects is driven by any list of operations `add i j` / `mul i c` / `copy i`
  (`C09.Op`).  `FuncAlg` captures what a function class has to provide (add, mul_scalar, a
  well-formedness-on-`[a,b]` predicate closed under both); `Obs A` captures an additive observation
  of the objects (a one-sided limit at a time, the integral, the value at an event time …).
  `generic_history_refines`: after ANY list of operations every object of the store is well formed on
  `[a,b]` and every observation of it equals the linear combination — coefficients computed by the
  symbolic `gstep` — of the observations of the initial objects.  `step_frame`: an operation on
  object `i` leaves every other object unchanged and a copy is independent of its original.
-/
import PySpikeVerif.Properties.C09
import PySpikeVerif.Proofs.AddPwl
import PySpikeVerif.Proofs.AddDisc

namespace PySpike.B7
open PySpike
open PySpike.C09 (Op getD_lt unitVec)

/-! ## the generic structure -/

/-- a class of function objects on a common interval `[a, b]` -/
structure FuncAlg where
  /-- the representation type -/
  F : Type
  /-- default object (only used for out-of-range `getD`) -/
  dflt : F
  add : F → F → F
  mul : F → Q → F
  /-- well formed on `[a, b]` -/
  On : Q → Q → F → Prop
  on_add : ∀ {a b : Q} {f g : F}, On a b f → On a b g → On a b (add f g)
  on_mul : ∀ {a b : Q} {f : F} (c : Q), On a b f → On a b (mul f c)

/-- an additive observation of the objects of `A`: `T` = observation points (times; `Unit` for the
    integral), `dom a b` = the points at which the observation is defined, `sc c` = the factor by
    which `mul · c` scales the observation (`c` itself, except for the multiplicity of a discrete
    function, which `mul_scalar` does not touch: `sc c = 1`) -/
structure Obs (A : FuncAlg) where
  T : Type
  dom : Q → Q → T → Prop
  sc : Q → Q
  obs : A.F → T → Option Q
  obs_add : ∀ {a b : Q} {f g : A.F} {t : T}, A.On a b f → A.On a b g → dom a b t →
    ∃ v w, obs f t = some v ∧ obs g t = some w ∧ obs (A.add f g) t = some (v + w)
  obs_mul : ∀ (f : A.F) (c : Q) (t : T), obs (A.mul f c) t = (obs f t).map (· * sc c)

section generic
variable (A : FuncAlg)

/-- one operation on the store (out-of-range indices leave the store unchanged) -/
def step (st : List A.F) : Op → List A.F
  | .add i j => if i < st.length ∧ j < st.length then
      st.set i (A.add (st.getD i A.dflt) (st.getD j A.dflt)) else st
  | .mul i c => if i < st.length then st.set i (A.mul (st.getD i A.dflt) c) else st
  | .copy i => if i < st.length then st ++ [st.getD i A.dflt] else st

def run (st : List A.F) (ops : List Op) : List A.F := ops.foldl (step A) st

/-- all objects are well formed on the common interval `[a, b]` -/
def StoreOK (a b : Q) (st : List A.F) : Prop := ∀ f ∈ st, A.On a b f

theorem step_ok (a b : Q) (st : List A.F) (op : Op) (h : StoreOK A a b st) :
    StoreOK A a b (step A st op) := by
  cases op with
  | add i j =>
    show StoreOK A a b (if i < st.length ∧ j < st.length then _ else st)
    by_cases hij : i < st.length ∧ j < st.length
    · rw [if_pos hij]
      intro f hf
      rcases List.mem_or_eq_of_mem_set hf with hf | hf
      · exact h f hf
      · have hi := h _ (List.getElem_mem hij.1)
        have hj := h _ (List.getElem_mem hij.2)
        rw [getD_lt _ _ hij.1, getD_lt _ _ hij.2] at hf
        subst hf
        exact A.on_add hi hj
    · rw [if_neg hij]; exact h
  | mul i c =>
    show StoreOK A a b (if i < st.length then _ else st)
    by_cases hi : i < st.length
    · rw [if_pos hi]
      intro f hf
      rcases List.mem_or_eq_of_mem_set hf with hf | hf
      · exact h f hf
      · have hi' := h _ (List.getElem_mem hi)
        rw [getD_lt _ _ hi] at hf
        subst hf
        exact A.on_mul c hi'
    · rw [if_neg hi]; exact h
  | copy i =>
    show StoreOK A a b (if i < st.length then _ else st)
    by_cases hi : i < st.length
    · rw [if_pos hi]
      intro f hf
      rcases List.mem_append.mp hf with hf | hf
      · exact h f hf
      · simp only [List.mem_singleton] at hf; subst hf
        rw [getD_lt _ _ hi]
        exact h _ (List.getElem_mem hi)
    · rw [if_neg hi]; exact h

theorem run_ok (a b : Q) (ops : List Op) (st : List A.F) (h : StoreOK A a b st) :
    StoreOK A a b (run A st ops) := by
  induction ops generalizing st with
  | nil => exact h
  | cons op r ih => exact ih _ (step_ok A a b st op h)

/-- **frame property**: an operation on object `i` does not change any other object — the added
    operand is not modified, and a copy is independent of its original (later operations on the
    original or on the copy do not affect the other, by the first two clauses) -/
theorem step_frame (st : List A.F) (i j : Nat) (c : Q) (k : Nat) (hk : k < st.length) :
    (k ≠ i → (step A st (.add i j)).getD k A.dflt = st.getD k A.dflt) ∧
    (k ≠ i → (step A st (.mul i c)).getD k A.dflt = st.getD k A.dflt) ∧
    ((step A st (.copy i)).getD k A.dflt = st.getD k A.dflt) := by
  refine ⟨?_, ?_, ?_⟩
  · intro hne
    show (if i < st.length ∧ j < st.length then _ else st).getD k A.dflt = _
    split
    · simp [List.getD_eq_getElem?_getD, List.getElem?_set_ne (Ne.symm hne)]
    · rfl
  · intro hne
    show (if i < st.length then _ else st).getD k A.dflt = _
    split
    · simp [List.getD_eq_getElem?_getD, List.getElem?_set_ne (Ne.symm hne)]
    · rfl
  · show (if i < st.length then _ else st).getD k A.dflt = _
    split
    · simp [List.getD_eq_getElem?_getD, List.getElem?_append_left hk]
    · rfl

/-- the store never shrinks, `add`/`mul` keep its length, `copy` appends exactly one object -/
theorem step_length (st : List A.F) (op : Op) :
    st.length ≤ (step A st op).length ∧ (step A st op).length ≤ st.length + 1 := by
  cases op with
  | add i j =>
    show st.length ≤ (if i < st.length ∧ j < st.length then _ else st).length ∧
      (if i < st.length ∧ j < st.length then _ else st).length ≤ _
    split <;> simp
  | mul i c =>
    show st.length ≤ (if i < st.length then _ else st).length ∧
      (if i < st.length then _ else st).length ≤ _
    split <;> simp
  | copy i =>
    show st.length ≤ (if i < st.length then _ else st).length ∧
      (if i < st.length then _ else st).length ≤ _
    split <;> simp

/-- the new object created by `copy i` is (a copy of) object `i` -/
theorem step_copy_new (st : List A.F) (i : Nat) (hi : i < st.length) :
    (step A st (.copy i)).getD st.length A.dflt = st.getD i A.dflt := by
  show (if i < st.length then _ else st).getD st.length A.dflt = _
  rw [if_pos hi]
  simp [List.getD_eq_getElem?_getD]

/-- **a copy is independent of its original**: after `copy i` (the copy gets index `st.length`),
    modifying the original (`add i j`, `mul i c`) leaves the copy equal to the OLD original, and
    modifying the copy (`add n j`, `mul n c` with `n = st.length`) leaves the original unchanged -/
theorem copy_independent (st : List A.F) (i j : Nat) (c : Q) (hi : i < st.length) :
    (step A (step A st (.copy i)) (.add i j)).getD st.length A.dflt = st.getD i A.dflt ∧
    (step A (step A st (.copy i)) (.mul i c)).getD st.length A.dflt = st.getD i A.dflt ∧
    (step A (step A st (.copy i)) (.add st.length j)).getD i A.dflt = st.getD i A.dflt ∧
    (step A (step A st (.copy i)) (.mul st.length c)).getD i A.dflt = st.getD i A.dflt := by
  have hlen : (step A st (.copy i)).length = st.length + 1 := by
    show (if i < st.length then _ else st).length = _
    rw [if_pos hi]; simp
  have hn : st.length < (step A st (.copy i)).length := by omega
  have hi' : i < (step A st (.copy i)).length := by omega
  have hne : st.length ≠ i := by omega
  have f1 := step_frame A (step A st (.copy i)) i j c st.length hn
  have f2 := step_frame A (step A st (.copy i)) st.length j c i hi'
  have f0 := (step_frame A st i j c i hi).2.2
  refine ⟨?_, ?_, ?_, ?_⟩
  · rw [f1.1 hne, step_copy_new A st i hi]
  · rw [f1.2.1 hne, step_copy_new A st i hi]
  · rw [f2.1 hne.symm, f0]
  · rw [f2.2.1 hne.symm, f0]

/-- symbolic history: the coefficient vector (over the initial objects) of every live object;
    `sc` = how `mul · c` scales the observation -/
def gstep (sc : Q → Q) (gs : List (List Q)) : Op → List (List Q)
  | .add i j => if i < gs.length ∧ j < gs.length then
      gs.set i (List.zipWith (· + ·) (gs.getD i []) (gs.getD j [])) else gs
  | .mul i c => if i < gs.length then gs.set i ((gs.getD i []).map (· * sc c)) else gs
  | .copy i => if i < gs.length then gs ++ [gs.getD i []] else gs

variable {A} (O : Obs A)

/-- value of the formal combination `Σ coef_k · obs(init_k, t)` -/
def combo (init : List A.F) (coef : List Q) (t : O.T) : Q :=
  qsum (List.zipWith (fun c f => c * (O.obs f t).getD 0) coef init)

theorem combo_add (init : List A.F) (c1 c2 : List Q) (t : O.T) (h1 : c1.length = init.length)
    (h2 : c2.length = init.length) :
    combo O init (List.zipWith (· + ·) c1 c2) t = combo O init c1 t + combo O init c2 t := by
  induction init generalizing c1 c2 with
  | nil => simp [combo, qsum]
  | cons f r ih =>
    cases c1 with
    | nil => simp at h1
    | cons a c1' =>
      cases c2 with
      | nil => simp at h2
      | cons b c2' =>
        have := ih c1' c2' (by simpa using h1) (by simpa using h2)
        simp only [combo, List.zipWith_cons_cons, qsum] at this ⊢
        rw [this]; ring

theorem combo_mul (init : List A.F) (c1 : List Q) (c : Q) (t : O.T) :
    combo O init (c1.map (· * c)) t = combo O init c1 t * c := by
  induction init generalizing c1 with
  | nil => simp [combo, qsum]
  | cons f r ih =>
    cases c1 with
    | nil => simp [combo, qsum]
    | cons a c1' =>
      have := ih c1'
      simp only [combo, List.map_cons, List.zipWith_cons_cons, qsum] at this ⊢
      rw [this]; ring

/-- the refinement invariant: object `k` denotes the combination recorded for it -/
def Denotes (a b : Q) (init : List A.F) (st : List A.F) (gs : List (List Q)) : Prop :=
  st.length = gs.length ∧
  ∀ k (hk : k < st.length), (gs.getD k []).length = init.length ∧
    ∀ t, O.dom a b t → O.obs (st[k]) t = some (combo O init (gs.getD k []) t)

/-- on its domain the observation of a well-formed object is defined -/
theorem obs_some {a b : Q} {f : A.F} {t : O.T} (hf : A.On a b f) (ht : O.dom a b t) :
    ∃ v, O.obs f t = some v := by
  obtain ⟨v, _, hv, _, _⟩ := O.obs_add hf hf ht
  exact ⟨v, hv⟩

theorem step_denotes (a b : Q) (init st : List A.F) (gs : List (List Q)) (op : Op)
    (hok : StoreOK A a b st) (h : Denotes O a b init st gs) :
    Denotes O a b init (step A st op) (gstep O.sc gs op) := by
  obtain ⟨hlen, hden⟩ := h
  cases op with
  | add i j =>
    show Denotes O a b init (if i < st.length ∧ j < st.length then _ else st)
      (if i < gs.length ∧ j < gs.length then _ else gs)
    by_cases hij : i < st.length ∧ j < st.length
    · have hij' : i < gs.length ∧ j < gs.length := by rw [← hlen]; exact hij
      rw [if_pos hij, if_pos hij']
      refine ⟨by simp [hlen], ?_⟩
      intro k hk
      simp only [List.length_set] at hk
      by_cases hki : k = i
      · subst hki
        have hi := hok _ (List.getElem_mem hij.1)
        have hj := hok _ (List.getElem_mem hij.2)
        obtain ⟨hli, hdi⟩ := hden k hij.1
        obtain ⟨hlj, hdj⟩ := hden j hij.2
        simp only [List.getD_eq_getElem?_getD, List.getElem?_set_self hij'.1, Option.getD_some,
          List.getElem_set_self]
        refine ⟨by
          have hgk : gs.getD k [] = gs[k] := getD_lt _ _ hij'.1
          have hgj : gs.getD j [] = gs[j] := getD_lt _ _ hij'.2
          rw [hgk] at hli; rw [hgj] at hlj
          simp [List.length_zipWith, List.getElem?_eq_getElem hij'.1,
            List.getElem?_eq_getElem hij'.2, hli, hlj], ?_⟩
        intro t ht
        simp only [List.getElem?_eq_getElem hij.1, List.getElem?_eq_getElem hij.2,
          List.getElem?_eq_getElem hij'.1, List.getElem?_eq_getElem hij'.2, Option.getD_some]
        have hgk : gs.getD k [] = gs[k] := getD_lt _ _ hij'.1
        have hgj : gs.getD j [] = gs[j] := getD_lt _ _ hij'.2
        rw [hgk] at hli hdi
        rw [hgj] at hlj hdj
        obtain ⟨v, w, hv, hw, hs⟩ := O.obs_add hi hj ht
        rw [hs]
        rw [hdi t ht] at hv
        rw [hdj t ht] at hw
        cases hv; cases hw
        rw [combo_add O init _ _ t hli hlj]
      · obtain ⟨hlk, hdk⟩ := hden k hk
        simp only [List.getD_eq_getElem?_getD, List.getElem?_set_ne (Ne.symm hki),
          List.getElem_set_ne (Ne.symm hki)]
        rw [← List.getD_eq_getElem?_getD]
        exact ⟨hlk, hdk⟩
    · have hij' : ¬ (i < gs.length ∧ j < gs.length) := by rw [← hlen]; exact hij
      rw [if_neg hij, if_neg hij']
      exact ⟨hlen, hden⟩
  | mul i c =>
    show Denotes O a b init (if i < st.length then _ else st) (if i < gs.length then _ else gs)
    by_cases hi : i < st.length
    · have hi' : i < gs.length := by rw [← hlen]; exact hi
      rw [if_pos hi, if_pos hi']
      refine ⟨by simp [hlen], ?_⟩
      intro k hk
      simp only [List.length_set] at hk
      by_cases hki : k = i
      · subst hki
        obtain ⟨hli, hdi⟩ := hden k hi
        simp only [List.getD_eq_getElem?_getD, List.getElem?_set_self hi', Option.getD_some,
          List.getElem_set_self]
        have hgk : gs.getD k [] = gs[k] := getD_lt _ _ hi'
        rw [hgk] at hli hdi
        refine ⟨by simp [List.getElem?_eq_getElem hi', hli], ?_⟩
        intro t ht
        simp only [List.getElem?_eq_getElem hi, List.getElem?_eq_getElem hi', Option.getD_some]
        rw [O.obs_mul, hdi t ht, combo_mul]
        rfl
      · obtain ⟨hlk, hdk⟩ := hden k hk
        simp only [List.getD_eq_getElem?_getD, List.getElem?_set_ne (Ne.symm hki),
          List.getElem_set_ne (Ne.symm hki)]
        rw [← List.getD_eq_getElem?_getD]
        exact ⟨hlk, hdk⟩
    · have hi' : ¬ i < gs.length := by rw [← hlen]; exact hi
      rw [if_neg hi, if_neg hi']
      exact ⟨hlen, hden⟩
  | copy i =>
    show Denotes O a b init (if i < st.length then _ else st) (if i < gs.length then _ else gs)
    by_cases hi : i < st.length
    · have hi' : i < gs.length := by rw [← hlen]; exact hi
      rw [if_pos hi, if_pos hi']
      refine ⟨by simp [hlen], ?_⟩
      intro k hk
      simp only [List.length_append, List.length_singleton] at hk
      by_cases hkl : k < st.length
      · obtain ⟨hlk, hdk⟩ := hden k hkl
        have hkl' : k < gs.length := by rw [← hlen]; exact hkl
        simp only [List.getD_eq_getElem?_getD, List.getElem?_append_left hkl',
          List.getElem_append_left hkl]
        rw [← List.getD_eq_getElem?_getD]
        exact ⟨hlk, hdk⟩
      · have hke : k = st.length := by omega
        subst hke
        obtain ⟨hli, hdi⟩ := hden i hi
        have : (gs ++ [gs.getD i []]).getD st.length [] = gs.getD i [] := by
          rw [hlen]; simp [List.getD_eq_getElem?_getD]
        rw [this]
        refine ⟨hli, ?_⟩
        intro t ht
        have : (st ++ [st.getD i A.dflt])[st.length]'(by simp) = st[i] := by
          rw [List.getElem_append_right (le_refl _)]
          simp [List.getElem?_eq_getElem hi]
        rw [this]
        exact hdi t ht
    · have hi' : ¬ i < gs.length := by rw [← hlen]; exact hi
      rw [if_neg hi, if_neg hi']
      exact ⟨hlen, hden⟩

/-- **generic history theorem**: after ANY sequence of add / mul_scalar / copy operations on objects
    well formed on a common interval, every object of the store is well formed on that interval and
    its observation at every point of the domain equals the linear combination of the observations
    of the initial objects that the same sequence produces symbolically. -/
theorem generic_history_refines (a b : Q) (init : List A.F) (gs : List (List Q)) (ops : List Op)
    (st : List A.F) (hok : StoreOK A a b st) (h : Denotes O a b init st gs) :
    StoreOK A a b (run A st ops) ∧
    Denotes O a b init (run A st ops) (ops.foldl (gstep O.sc) gs) := by
  induction ops generalizing st gs with
  | nil => exact ⟨hok, h⟩
  | cons op r ih =>
    exact ih _ _ (step_ok A a b st op hok) (step_denotes O a b init st gs op hok h)

/-! ### the initial store denotes the unit vectors -/

/-- coefficient vectors of the initial store: object `k` is `1 · init_k` -/
def unitVecs (n : Nat) : List (List Q) := (List.range n).map (unitVec n)

theorem wsum_zero (g : A.F → Q) : ∀ (l : List A.F) (w : Nat → Q), (∀ m, w m = 0) →
    qsum (List.zipWith (fun c f => c * g f) ((List.range l.length).map w) l) = 0
  | [], _, _ => by simp [qsum]
  | f :: r, w, hw => by
    have ih := wsum_zero g r (w ∘ Nat.succ) (fun m => hw _)
    rw [List.length_cons, List.range_succ_eq_map, List.map_cons, List.map_map,
      List.zipWith_cons_cons, qsum, ih, hw 0]
    ring

theorem wsum_unit (g : A.F → Q) : ∀ (l : List A.F) (k : Nat) (hk : k < l.length) (w : Nat → Q),
    (∀ m, w m = if m = k then 1 else 0) →
    qsum (List.zipWith (fun c f => c * g f) ((List.range l.length).map w) l) = g l[k]
  | [], _, hk, _, _ => by simp at hk
  | f :: r, 0, _, w, hw => by
    have ih := wsum_zero g r (w ∘ Nat.succ) (fun m => by
      show w (m + 1) = 0
      rw [hw]; simp)
    rw [List.length_cons, List.range_succ_eq_map, List.map_cons, List.map_map,
      List.zipWith_cons_cons, qsum, ih, hw 0]
    simp
  | f :: r, k + 1, hk, w, hw => by
    have ih := wsum_unit g r k (by simpa using hk) (w ∘ Nat.succ) (fun m => by
      show w (m + 1) = _
      rw [hw]; simp)
    rw [List.length_cons, List.range_succ_eq_map, List.map_cons, List.map_map,
      List.zipWith_cons_cons, qsum, ih, hw 0]
    simp

theorem combo_unit (init : List A.F) (k : Nat) (hk : k < init.length) (t : O.T) :
    combo O init (unitVec init.length k) t = (O.obs init[k] t).getD 0 :=
  wsum_unit (fun f => (O.obs f t).getD 0) init k hk _ (fun _ => rfl)

theorem denotes_init (a b : Q) (init : List A.F) (hok : StoreOK A a b init) :
    Denotes O a b init init (unitVecs init.length) := by
  refine ⟨by simp [unitVecs], ?_⟩
  intro k hk
  have hg : (unitVecs init.length).getD k [] = unitVec init.length k := by
    simp [unitVecs, List.getD_eq_getElem?_getD, hk]
  rw [hg]
  refine ⟨by simp [unitVec], ?_⟩
  intro t ht
  obtain ⟨v, hv⟩ := obs_some O (hok _ (List.getElem_mem hk)) ht
  rw [combo_unit O init k hk t, hv]
  rfl

/-- **generic history theorem, from the initial store**: run any operation sequence on a store
    `init` of objects well formed on `[a, b]`; then every object `k` of the final store is well
    formed on `[a, b]`, the symbolic history has a coefficient vector `coef` (of length
    `init.length`) for it, and at every point `t` of the domain
    `obs (final_k, t) = Σ_m coef_m · obs (init_m, t)`. -/
theorem generic_history_from_init (a b : Q) (init : List A.F) (ops : List Op)
    (hok : StoreOK A a b init) :
    StoreOK A a b (run A init ops) ∧
    (run A init ops).length = (ops.foldl (gstep O.sc) (unitVecs init.length)).length ∧
    ∀ k (hk : k < (run A init ops).length),
      ((ops.foldl (gstep O.sc) (unitVecs init.length)).getD k []).length = init.length ∧
      ∀ t, O.dom a b t → O.obs ((run A init ops)[k]) t =
        some (combo O init ((ops.foldl (gstep O.sc) (unitVecs init.length)).getD k []) t) := by
  obtain ⟨h1, h2, h3⟩ := generic_history_refines O a b init _ ops init hok (denotes_init O a b init hok)
  exact ⟨h1, h2, h3⟩

end generic

/-! ## instance: piecewise constant -/

@[reducible] def pwcAlg : FuncAlg where
  F := Pwc
  dflt := C09.dflt
  add := Pwc.add
  mul := Pwc.mulScalar
  On a b f := f.WF ∧ f.first = a ∧ f.last = b
  on_add := by
    intro a b f g hf hg
    have e0 : f.first = g.first := by rw [hf.2.1, hg.2.1]
    have e1 : f.last = g.last := by rw [hf.2.2, hg.2.2]
    exact ⟨Pwc.add_wf hf.1 hg.1 e0 e1, by rw [Pwc.add_first]; exact hf.2.1,
      by rw [Pwc.add_last]; exact hf.2.2⟩
  on_mul := by
    intro a b f c hf
    exact ⟨Pwc.mulScalar_wf hf.1 c, hf.2.1, hf.2.2⟩

/-- right limits on `[a, b)` -/
@[reducible] def pwcEvalR : Obs pwcAlg where
  T := Q
  dom a b t := a ≤ t ∧ t < b
  sc c := c
  obs := Pwc.evalR
  obs_add := by
    intro a b f g t hf hg ht
    have e0 : f.first = g.first := by rw [hf.2.1, hg.2.1]
    have e1 : f.last = g.last := by rw [hf.2.2, hg.2.2]
    exact Pwc.add_evalR hf.1 hg.1 e0 e1 t (by rw [hf.2.1]; exact ht.1) (by rw [hf.2.2]; exact ht.2)
  obs_mul := Pwc.mulScalar_evalR

/-- left limits on `(a, b]` -/
@[reducible] def pwcEvalL : Obs pwcAlg where
  T := Q
  dom a b t := a < t ∧ t ≤ b
  sc c := c
  obs := Pwc.evalL
  obs_add := by
    intro a b f g t hf hg ht
    have e0 : f.first = g.first := by rw [hf.2.1, hg.2.1]
    have e1 : f.last = g.last := by rw [hf.2.2, hg.2.2]
    exact Pwc.add_evalL hf.1 hg.1 e0 e1 t (by rw [hf.2.1]; exact ht.1) (by rw [hf.2.2]; exact ht.2)
  obs_mul := Pwc.mulScalar_evalL

/-- the integral over the whole interval (no time argument) -/
@[reducible] def pwcIntegral : Obs pwcAlg where
  T := Unit
  dom _ _ _ := True
  sc c := c
  obs f _ := some f.integralAll
  obs_add := by
    intro a b f g t hf hg _
    have e0 : f.first = g.first := by rw [hf.2.1, hg.2.1]
    have e1 : f.last = g.last := by rw [hf.2.2, hg.2.2]
    exact ⟨_, _, rfl, rfl, congrArg some (Pwc.add_integralAll hf.1 hg.1 e0 e1)⟩
  obs_mul := by
    intro f c t
    exact congrArg some (Pwc.mulScalar_integralAll f c)

/-! ### `C09.history_refines` re-derived from the generic theorem -/

theorem pwc_step_eq (st : List Pwc) (op : Op) : C09.step st op = step pwcAlg st op := by
  cases op <;> rfl

theorem pwc_run_eq (st : List Pwc) (ops : List Op) : C09.run st ops = run pwcAlg st ops := by
  induction ops generalizing st with
  | nil => rfl
  | cons op r ih =>
    show C09.run (C09.step st op) r = run pwcAlg (step pwcAlg st op) r
    rw [pwc_step_eq]; exact ih _

theorem pwc_gstep_eq (n : Nat) (gs : List (List Q)) (op : Op) :
    C09.gstep n gs op = gstep pwcEvalR.sc gs op := by
  cases op <;> rfl

theorem pwc_gfold_eq (n : Nat) (ops : List Op) (gs : List (List Q)) :
    ops.foldl (C09.gstep n) gs = ops.foldl (gstep pwcEvalR.sc) gs := by
  induction ops generalizing gs with
  | nil => rfl
  | cons op r ih => rw [List.foldl_cons, List.foldl_cons, pwc_gstep_eq, ih]

theorem pwc_storeOK_iff (a b : Q) (st : List Pwc) : C09.StoreOK a b st ↔ StoreOK pwcAlg a b st :=
  Iff.rfl

theorem pwc_combo_eq (init : List Pwc) (coef : List Q) (t : Q) :
    C09.combo init coef t = combo pwcEvalR init coef t := rfl

theorem pwc_denotes_iff (a b : Q) (init st : List Pwc) (gs : List (List Q)) :
    C09.Denotes a b init st gs ↔ Denotes pwcEvalR a b init st gs := by
  constructor
  · rintro ⟨h1, h2⟩
    exact ⟨h1, fun k hk => ⟨(h2 k hk).1, fun t ht => (h2 k hk).2 t ht.1 ht.2⟩⟩
  · rintro ⟨h1, h2⟩
    exact ⟨h1, fun k hk => ⟨(h2 k hk).1, fun t ht0 ht1 => (h2 k hk).2 t ⟨ht0, ht1⟩⟩⟩

/-- `C09.history_refines` (same statement) as an instance of `generic_history_refines` -/
theorem pwc_history_refines (a b : Q) (init : List Pwc) (gs : List (List Q)) (ops : List Op)
    (st : List Pwc) (hok : C09.StoreOK a b st) (h : C09.Denotes a b init st gs) :
    C09.StoreOK a b (C09.run st ops) ∧
    C09.Denotes a b init (C09.run st ops) (ops.foldl (C09.gstep init.length) gs) := by
  rw [pwc_run_eq, pwc_gfold_eq]
  have := generic_history_refines pwcEvalR a b init gs ops st hok
    ((pwc_denotes_iff a b init st gs).mp h)
  exact ⟨this.1, (pwc_denotes_iff a b init _ _).mpr this.2⟩

/-- right limits, left limits and the integral of every object after any history (one run of the
    store, three observations) -/
theorem pwc_history (a b : Q) (init : List Pwc) (ops : List Op)
    (hok : ∀ f ∈ init, f.WF ∧ f.first = a ∧ f.last = b) :
    (∀ f ∈ run pwcAlg init ops, f.WF ∧ f.first = a ∧ f.last = b) ∧
    (run pwcAlg init ops).length = (ops.foldl (gstep id) (unitVecs init.length)).length ∧
    ∀ k (hk : k < (run pwcAlg init ops).length),
      ((ops.foldl (gstep id) (unitVecs init.length)).getD k []).length = init.length ∧
      (∀ t, a ≤ t → t < b → ((run pwcAlg init ops)[k]).evalR t = some (qsum (List.zipWith
        (fun c f => c * (f.evalR t).getD 0)
        ((ops.foldl (gstep id) (unitVecs init.length)).getD k []) init))) ∧
      (∀ t, a < t → t ≤ b → ((run pwcAlg init ops)[k]).evalL t = some (qsum (List.zipWith
        (fun c f => c * (f.evalL t).getD 0)
        ((ops.foldl (gstep id) (unitVecs init.length)).getD k []) init))) ∧
      ((run pwcAlg init ops)[k]).integralAll = qsum (List.zipWith
        (fun c f => c * f.integralAll)
        ((ops.foldl (gstep id) (unitVecs init.length)).getD k []) init) := by
  obtain ⟨h1, h2, h3⟩ := generic_history_from_init pwcEvalR a b init ops hok
  obtain ⟨_, _, h4⟩ := generic_history_from_init pwcEvalL a b init ops hok
  obtain ⟨_, _, h5⟩ := generic_history_from_init pwcIntegral a b init ops hok
  refine ⟨h1, h2, fun k hk => ⟨(h3 k hk).1, fun t ht0 ht1 => (h3 k hk).2 t ⟨ht0, ht1⟩,
    fun t ht0 ht1 => (h4 k hk).2 t ⟨ht0, ht1⟩, ?_⟩⟩
  exact Option.some.inj ((h5 k hk).2 () trivial)

/-! ## instance: piecewise linear -/

def pwlDflt : Pwl := ⟨[0, 1], [0], [0]⟩

@[reducible] def pwlAlg : FuncAlg where
  F := Pwl
  dflt := pwlDflt
  add := Pwl.add
  mul := Pwl.mulScalar
  On a b f := f.WF ∧ f.first = a ∧ f.last = b
  on_add := by
    intro a b f g hf hg
    have e0 : f.first = g.first := by rw [hf.2.1, hg.2.1]
    have e1 : f.last = g.last := by rw [hf.2.2, hg.2.2]
    exact ⟨Pwl.add_wf hf.1 hg.1 e0 e1, by rw [Pwl.add_first hf.1 hg.1 e0 e1]; exact hf.2.1,
      by rw [Pwl.add_last hf.1 hg.1 e0 e1]; exact hf.2.2⟩
  on_mul := by
    intro a b f c hf
    exact ⟨Pwl.mulScalar_wf hf.1 c, hf.2.1, hf.2.2⟩

/-- right limits (= values, the function is evaluated inside the piece) on `[a, b)` -/
@[reducible] def pwlEvalR : Obs pwlAlg where
  T := Q
  dom a b t := a ≤ t ∧ t < b
  sc c := c
  obs := Pwl.evalR
  obs_add := by
    intro a b f g t hf hg ht
    have e0 : f.first = g.first := by rw [hf.2.1, hg.2.1]
    have e1 : f.last = g.last := by rw [hf.2.2, hg.2.2]
    exact Pwl.add_evalR hf.1 hg.1 e0 e1 t (by rw [hf.2.1]; exact ht.1) (by rw [hf.2.2]; exact ht.2)
  obs_mul := Pwl.mulScalar_evalR

/-- left limits on `(a, b]` -/
@[reducible] def pwlEvalL : Obs pwlAlg where
  T := Q
  dom a b t := a < t ∧ t ≤ b
  sc c := c
  obs := Pwl.evalL
  obs_add := by
    intro a b f g t hf hg ht
    have e0 : f.first = g.first := by rw [hf.2.1, hg.2.1]
    have e1 : f.last = g.last := by rw [hf.2.2, hg.2.2]
    exact Pwl.add_evalL hf.1 hg.1 e0 e1 t (by rw [hf.2.1]; exact ht.1) (by rw [hf.2.2]; exact ht.2)
  obs_mul := Pwl.mulScalar_evalL

@[reducible] def pwlIntegral : Obs pwlAlg where
  T := Unit
  dom _ _ _ := True
  sc c := c
  obs f _ := some f.integralAll
  obs_add := by
    intro a b f g t hf hg _
    have e0 : f.first = g.first := by rw [hf.2.1, hg.2.1]
    have e1 : f.last = g.last := by rw [hf.2.2, hg.2.2]
    exact ⟨_, _, rfl, rfl, congrArg some (Pwl.add_integralAll hf.1 hg.1 e0 e1)⟩
  obs_mul := by
    intro f c t
    exact congrArg some (Pwl.mulScalar_integralAll f c)

/-- **histories of piecewise-linear objects**: after any sequence of add / mul_scalar / copy on
    well-formed piecewise-linear functions on `[a, b]` every object is well formed on `[a, b]` and
    its right limit on `[a, b)`, its left limit on `(a, b]` and its integral are the linear
    combination (coefficients from the symbolic history) of those of the initial objects. -/
theorem pwl_history (a b : Q) (init : List Pwl) (ops : List Op)
    (hok : ∀ f ∈ init, f.WF ∧ f.first = a ∧ f.last = b) :
    (∀ f ∈ run pwlAlg init ops, f.WF ∧ f.first = a ∧ f.last = b) ∧
    (run pwlAlg init ops).length = (ops.foldl (gstep id) (unitVecs init.length)).length ∧
    ∀ k (hk : k < (run pwlAlg init ops).length),
      ((ops.foldl (gstep id) (unitVecs init.length)).getD k []).length = init.length ∧
      (∀ t, a ≤ t → t < b → ((run pwlAlg init ops)[k]).evalR t = some (qsum (List.zipWith
        (fun c f => c * (f.evalR t).getD 0)
        ((ops.foldl (gstep id) (unitVecs init.length)).getD k []) init))) ∧
      (∀ t, a < t → t ≤ b → ((run pwlAlg init ops)[k]).evalL t = some (qsum (List.zipWith
        (fun c f => c * (f.evalL t).getD 0)
        ((ops.foldl (gstep id) (unitVecs init.length)).getD k []) init))) ∧
      ((run pwlAlg init ops)[k]).integralAll = qsum (List.zipWith
        (fun c f => c * f.integralAll)
        ((ops.foldl (gstep id) (unitVecs init.length)).getD k []) init) := by
  obtain ⟨h1, h2, h3⟩ := generic_history_from_init pwlEvalR a b init ops hok
  obtain ⟨_, _, h4⟩ := generic_history_from_init pwlEvalL a b init ops hok
  obtain ⟨_, _, h5⟩ := generic_history_from_init pwlIntegral a b init ops hok
  refine ⟨h1, h2, fun k hk => ⟨(h3 k hk).1, fun t ht0 ht1 => (h3 k hk).2 t ⟨ht0, ht1⟩,
    fun t ht0 ht1 => (h4 k hk).2 t ⟨ht0, ht1⟩, ?_⟩⟩
  exact Option.some.inj ((h5 k hk).2 () trivial)

/-! ## instance: discrete -/

/-- first / last (edge) time of a discrete function -/
def discFirst (f : Disc) : Q := (f.e.headD (0,0,0)).1
def discLast (f : Disc) : Q := (lastD f.e (0,0,0)).1

/-- `mul_scalar` on one entry: only the value is scaled, time and multiplicity are unchanged -/
def discScale (c : Q) (p : Ev) : Ev := (p.1, p.2.1 * c, p.2.2)

theorem Disc.mulScalar_e (f : Disc) (c : Q) : (f.mulScalar c).e = f.e.map (discScale c) := rfl

theorem Disc.mulScalar_interior (f : Disc) (c : Q) :
    (f.mulScalar c).interior = f.interior.map (discScale c) := by
  simp only [Disc.interior, Disc.mulScalar_e, List.map_dropLast, List.map_tail]

theorem atL_scale (c t : Q) : ∀ l : List Ev,
    atL (l.map (discScale c)) t = ((atL l t).1 * c, (atL l t).2)
  | [] => by simp [atL_nil]
  | a :: r => by
    rw [List.map_cons, atL_cons, atL_cons, atL_scale c t r]
    show (if a.1 = t then _ else _) = _
    by_cases h : a.1 = t
    · rw [if_pos h, if_pos h]; rfl
    · rw [if_neg h, if_neg h]

/-- value and multiplicity at an event time after `mul_scalar`: the value is scaled, the
    multiplicity is unchanged -/
theorem Disc.mulScalar_at (f : Disc) (c t : Q) :
    (f.mulScalar c).at t = ((f.at t).1 * c, (f.at t).2) := by
  rw [Disc.at_eq, Disc.at_eq, Disc.mulScalar_interior, atL_scale]

theorem Disc.mulScalar_first (f : Disc) (c : Q) : discFirst (f.mulScalar c) = discFirst f := by
  unfold discFirst
  rw [Disc.mulScalar_e]
  cases f.e <;> rfl

theorem lastD_scale (c : Q) : ∀ (l : List Ev) (d d' : Ev), d'.1 = d.1 →
    (lastD (l.map (discScale c)) d').1 = (lastD l d).1
  | [], _, _, h => h
  | [_], _, _, _ => rfl
  | _ :: b :: r, d, d', h => by
    have := lastD_scale c (b :: r) d d' h
    simpa only [List.map_cons, lastD] using this

theorem Disc.mulScalar_last (f : Disc) (c : Q) : discLast (f.mulScalar c) = discLast f := by
  unfold discLast
  rw [Disc.mulScalar_e]
  exact lastD_scale c f.e _ _ rfl

theorem Disc.mulScalar_wf {f : Disc} (hf : f.WF) (c : Q) : (f.mulScalar c).WF := by
  obtain ⟨h1, h2, h3⟩ := hf
  refine ⟨by simpa [Disc.mulScalar] using h1, ?_, ?_⟩
  · rw [Disc.mulScalar_interior, List.map_map]
    exact h2
  · intro p hp
    rw [Disc.mulScalar_interior] at hp
    obtain ⟨q, hq, rfl⟩ := List.mem_map.mp hp
    have hF := Disc.mulScalar_first f c
    have hL := Disc.mulScalar_last f c
    unfold discFirst at hF
    unfold discLast at hL
    rw [hF, hL]
    exact h3 q hq

theorem Disc.mulScalar_integralAll (f : Disc) (c : Q) :
    (f.mulScalar c).integralAll = ((f.integralAll).1 * c, (f.integralAll).2) := by
  simp only [Disc.integralAll, Disc.mulScalar_interior, List.map_map]
  rw [← qsum_map_mul, List.map_map]
  rfl

def discDflt : Disc := ⟨[(0, 0, 0), (1, 0, 0)]⟩

@[reducible] def discAlg : FuncAlg where
  F := Disc
  dflt := discDflt
  add := Disc.add
  mul := Disc.mulScalar
  On a b f := f.WF ∧ discFirst f = a ∧ discLast f = b
  on_add := by
    intro a b f g hf hg
    have e0 : (f.e.headD (0,0,0)).1 = (g.e.headD (0,0,0)).1 := hf.2.1.trans hg.2.1.symm
    have e1 : (lastD f.e (0,0,0)).1 = (lastD g.e (0,0,0)).1 := hf.2.2.trans hg.2.2.symm
    obtain ⟨hE0, hE1⟩ := Disc.add_edges (f := f) (g := g) e1
    exact ⟨Disc.add_wf hf.1 hg.1 e0 e1, hE0.trans hf.2.1, hE1.trans hf.2.2⟩
  on_mul := by
    intro a b f c hf
    exact ⟨Disc.mulScalar_wf hf.1 c, (Disc.mulScalar_first f c).trans hf.2.1,
      (Disc.mulScalar_last f c).trans hf.2.2⟩

/-- summed value of the events at time `t` (0 if there is none) -/
@[reducible] def discValue : Obs discAlg where
  T := Q
  dom _ _ _ := True
  sc c := c
  obs f t := some (f.at t).1
  obs_add := by
    intro a b f g t hf hg _
    exact ⟨_, _, rfl, rfl, congrArg (fun p => some p.1) (Disc.add_at hf.1 hg.1 t)⟩
  obs_mul := by
    intro f c t
    exact congrArg (fun p => some p.1) (Disc.mulScalar_at f c t)

/-- summed multiplicity of the events at time `t`; `mul_scalar` does not change it (`sc c = 1`) -/
@[reducible] def discMult : Obs discAlg where
  T := Q
  dom _ _ _ := True
  sc _ := 1
  obs f t := some (f.at t).2
  obs_add := by
    intro a b f g t hf hg _
    exact ⟨_, _, rfl, rfl, congrArg (fun p => some p.2) (Disc.add_at hf.1 hg.1 t)⟩
  obs_mul := by
    intro f c t
    rw [Disc.mulScalar_at]
    simp

/-- value component of `integral(None)` -/
@[reducible] def discIntValue : Obs discAlg where
  T := Unit
  dom _ _ _ := True
  sc c := c
  obs f _ := some (f.integralAll).1
  obs_add := by
    intro a b f g t hf hg _
    exact ⟨_, _, rfl, rfl, congrArg (fun p => some p.1) (Disc.add_integralAll f g)⟩
  obs_mul := by
    intro f c t
    exact congrArg (fun p => some p.1) (Disc.mulScalar_integralAll f c)

/-- multiplicity component of `integral(None)` -/
@[reducible] def discIntMult : Obs discAlg where
  T := Unit
  dom _ _ _ := True
  sc _ := 1
  obs f _ := some (f.integralAll).2
  obs_add := by
    intro a b f g t hf hg _
    exact ⟨_, _, rfl, rfl, congrArg (fun p => some p.2) (Disc.add_integralAll f g)⟩
  obs_mul := by
    intro f c t
    rw [Disc.mulScalar_integralAll]
    simp

/-- **histories of discrete-function objects**: after any sequence of add / mul_scalar / copy on
    well-formed discrete functions with common edge times `a`, `b` every object is well formed with
    the same edge times; its value at every time and the value component of its integral are the
    linear combination given by the symbolic history `gstep id`, its multiplicity at every time and
    the multiplicity component of its integral the combination given by `gstep (fun _ => 1)`
    (`mul_scalar` never changes multiplicities). -/
theorem disc_history (a b : Q) (init : List Disc) (ops : List Op)
    (hok : ∀ f ∈ init, f.WF ∧ discFirst f = a ∧ discLast f = b) :
    (∀ f ∈ run discAlg init ops, f.WF ∧ discFirst f = a ∧ discLast f = b) ∧
    (run discAlg init ops).length = (ops.foldl (gstep id) (unitVecs init.length)).length ∧
    (run discAlg init ops).length =
      (ops.foldl (gstep fun _ => 1) (unitVecs init.length)).length ∧
    ∀ k (hk : k < (run discAlg init ops).length),
      ((ops.foldl (gstep id) (unitVecs init.length)).getD k []).length = init.length ∧
      ((ops.foldl (gstep fun _ => 1) (unitVecs init.length)).getD k []).length = init.length ∧
      (∀ t, (((run discAlg init ops)[k]).at t).1 = qsum (List.zipWith
        (fun c f => c * (f.at t).1)
        ((ops.foldl (gstep id) (unitVecs init.length)).getD k []) init)) ∧
      (∀ t, (((run discAlg init ops)[k]).at t).2 = qsum (List.zipWith
        (fun c f => c * (f.at t).2)
        ((ops.foldl (gstep fun _ => 1) (unitVecs init.length)).getD k []) init)) ∧
      (((run discAlg init ops)[k]).integralAll).1 = qsum (List.zipWith
        (fun c f => c * (f.integralAll).1)
        ((ops.foldl (gstep id) (unitVecs init.length)).getD k []) init) ∧
      (((run discAlg init ops)[k]).integralAll).2 = qsum (List.zipWith
        (fun c f => c * (f.integralAll).2)
        ((ops.foldl (gstep fun _ => 1) (unitVecs init.length)).getD k []) init) := by
  obtain ⟨h1, h2, h3⟩ := generic_history_from_init discValue a b init ops hok
  obtain ⟨_, h2', h4⟩ := generic_history_from_init discMult a b init ops hok
  obtain ⟨_, _, h5⟩ := generic_history_from_init discIntValue a b init ops hok
  obtain ⟨_, _, h6⟩ := generic_history_from_init discIntMult a b init ops hok
  refine ⟨h1, h2, h2', fun k hk => ⟨(h3 k hk).1, (h4 k hk).1,
    fun t => Option.some.inj ((h3 k hk).2 t trivial),
    fun t => Option.some.inj ((h4 k hk).2 t trivial),
    Option.some.inj ((h5 k hk).2 () trivial), Option.some.inj ((h6 k hk).2 () trivial)⟩⟩

/-! ## examples (non-vacuity): concrete stores and operation sequences -/

def exOps : List Op := [.copy 0, .add 0 1, .mul 0 2, .add 2 0]

/-- the symbolic history of `exOps` on two initial objects: object 0 = `2·f₀ + 2·f₁`,
    object 1 = `f₁`, object 2 (the copy of `f₀`, taken BEFORE `f₀` was modified) = `3·f₀ + 2·f₁` -/
example : exOps.foldl (gstep id) (unitVecs 2) = [[2, 2], [0, 1], [3, 2]] := by decide +kernel
/-- multiplicities are not scaled -/
example : exOps.foldl (gstep fun _ => 1) (unitVecs 2) = [[1, 1], [0, 1], [2, 1]] := by
  decide +kernel

/-! ### piecewise linear -/

theorem exPwl_ok : ∀ f ∈ [exPwlF, exPwlG], f.WF ∧ f.first = 0 ∧ f.last = 3 := by
  intro f hf
  simp only [List.mem_cons, List.not_mem_nil, or_false] at hf
  rcases hf with rfl | rfl
  · exact ⟨exPwlF_wf, by decide +kernel, by decide +kernel⟩
  · exact ⟨exPwlG_wf, by decide +kernel, by decide +kernel⟩

example : StoreOK pwlAlg 0 3 [exPwlF, exPwlG] := exPwl_ok

example : run pwlAlg [exPwlF, exPwlG] exOps =
    [⟨[0, 1, 2, 3], [2, 5, 4], [5, 4, 10]⟩, ⟨[0, 2, 3], [0, 1], [1, 5]⟩,
     ⟨[0, 1, 2, 3], [3, 7, 5], [7, 5, 10]⟩] := by decide +kernel

example : run pwlAlg [exPwlF, exPwlG, exPwlH]
      [.add 2 0, .copy 2, .mul 1 (-1/2), .add 3 1, .add 0 3, .mul 9 3, .add 1 1] =
    [⟨[0, 1/2, 1, 2, 3], [2, 31/8, 11/4, 2], [31/8, 35/4, 2, -1/2]⟩,
     ⟨[0, 2, 3], [0, -1], [-1, -5]⟩,
     ⟨[0, 1/2, 1, 3], [1, 5/2, 1], [5/2, 7, 2]⟩,
     ⟨[0, 1/2, 1, 2, 3], [1, 19/8, 3/4, 1], [19/8, 27/4, 1, -1/2]⟩] := by decide +kernel

/-- the theorem applied: object 2 of the final store is `3·F + 2·G` everywhere on `[0, 3)` and its
    integral is `3·∫F + 2·∫G` -/
example : (∀ t, 0 ≤ t → t < 3 → ((run pwlAlg [exPwlF, exPwlG] exOps).getD 2 pwlDflt).evalR t =
      some (3 * (exPwlF.evalR t).getD 0 + 2 * (exPwlG.evalR t).getD 0)) ∧
    ((run pwlAlg [exPwlF, exPwlG] exOps).getD 2 pwlDflt).integralAll =
      3 * exPwlF.integralAll + 2 * exPwlG.integralAll := by
  have hlen : 2 < (run pwlAlg [exPwlF, exPwlG] exOps).length := by decide +kernel
  obtain ⟨_, hR, _, hI⟩ := (pwl_history 0 3 [exPwlF, exPwlG] exOps exPwl_ok).2.2 2 hlen
  have e : (exOps.foldl (gstep id) (unitVecs [exPwlF, exPwlG].length)).getD 2 [] = [3, 2] := by
    decide +kernel
  rw [e] at hR hI
  rw [getD_lt _ _ hlen]
  constructor
  · intro t h0 h1
    rw [hR t h0 h1]
    simp [qsum]
  · rw [hI]
    simp [qsum]

/-! ### discrete -/

theorem exDisc_ok : ∀ f ∈ [exDF, exDG], f.WF ∧ discFirst f = 0 ∧ discLast f = 4 := by
  intro f hf
  simp only [List.mem_cons, List.not_mem_nil, or_false] at hf
  rcases hf with rfl | rfl
  · refine ⟨?_, by decide +kernel, by decide +kernel⟩
    simp [Disc.WF, Disc.interior, exDF, lastD]
    norm_num
  · refine ⟨?_, by decide +kernel, by decide +kernel⟩
    simp [Disc.WF, Disc.interior, exDG, lastD]
    norm_num

example : StoreOK discAlg 0 4 [exDF, exDG] := exDisc_ok

example : run discAlg [exDF, exDG] exOps =
    [⟨[(0, 4, 1), (1, 4, 1), (2, 6, 1), (3, 10, 3), (4, 4, 2)]⟩,
     ⟨[(0, 1, 1), (2, 3, 1), (3, 1, 1), (4, 1, 1)]⟩,
     ⟨[(0, 6, 2), (1, 6, 2), (2, 6, 1), (3, 14, 5), (4, 5, 3)]⟩] := by decide +kernel

example : (exDF.mulScalar 3).at 3 = (12, 2) := by decide +kernel

/-- the theorem applied: at every time the value of object 2 is `3·F + 2·G`, its multiplicity
    `2·F + 1·G` -/
example : ∀ t, (((run discAlg [exDF, exDG] exOps).getD 2 discDflt).at t).1 =
      3 * (exDF.at t).1 + 2 * (exDG.at t).1 ∧
    (((run discAlg [exDF, exDG] exOps).getD 2 discDflt).at t).2 =
      2 * (exDF.at t).2 + (exDG.at t).2 := by
  intro t
  have hlen : 2 < (run discAlg [exDF, exDG] exOps).length := by decide +kernel
  obtain ⟨_, _, hV, hM, _, _⟩ := (disc_history 0 4 [exDF, exDG] exOps exDisc_ok).2.2.2 2 hlen
  have e : (exOps.foldl (gstep id) (unitVecs [exDF, exDG].length)).getD 2 [] = [3, 2] := by
    decide +kernel
  have e' : (exOps.foldl (gstep fun _ => 1) (unitVecs [exDF, exDG].length)).getD 2 [] = [2, 1] := by
    decide +kernel
  rw [e] at hV
  rw [e'] at hM
  rw [getD_lt _ _ hlen, hV t, hM t]
  simp [qsum]

/-! ### piecewise constant: `C09.history_refines` and the generic version agree on the example -/

example : run pwcAlg [C09.e1, C09.e2] exOps = C09.run [C09.e1, C09.e2] exOps :=
  (pwc_run_eq _ _).symm

theorem exPwc_ok : ∀ f ∈ [C09.e1, C09.e2], f.WF ∧ f.first = 0 ∧ f.last = 3 := by
  intro f hf
  simp only [List.mem_cons, List.not_mem_nil, or_false] at hf
  rcases hf with rfl | rfl <;> refine ⟨⟨by decide, by decide, by decide⟩, by decide, by decide⟩

/-- the hypotheses of the generic theorem (`StoreOK`, `Denotes`) hold for concrete stores -/
example : StoreOK pwcAlg 0 3 [C09.e1, C09.e2] ∧
    Denotes pwcEvalR 0 3 [C09.e1, C09.e2] [C09.e1, C09.e2] (unitVecs 2) ∧
    Denotes pwcEvalL 0 3 [C09.e1, C09.e2] [C09.e1, C09.e2] (unitVecs 2) ∧
    Denotes pwlEvalR 0 3 [exPwlF, exPwlG] [exPwlF, exPwlG] (unitVecs 2) ∧
    Denotes discMult 0 4 [exDF, exDG] [exDF, exDG] (unitVecs 2) :=
  ⟨exPwc_ok, denotes_init pwcEvalR 0 3 _ exPwc_ok, denotes_init pwcEvalL 0 3 _ exPwc_ok,
   denotes_init pwlEvalR 0 3 _ exPwl_ok, denotes_init discMult 0 4 _ exDisc_ok⟩

example := generic_history_refines pwlEvalL 0 3 _ _ exOps _ exPwl_ok
  (denotes_init pwlEvalL 0 3 _ exPwl_ok)

end PySpike.B7
