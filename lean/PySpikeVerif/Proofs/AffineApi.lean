/-
  Proofs/AffineApi.lean — work package F4 (property C08, CLAUSES.md gap 8):
  the SCALAR results, the public API and the multivariate lift of shift / positive scaling
  `φ x = α·x + β`, `0 < α` (MRTS and max_tau multiplied by α, the interval mapped with φ).
-/
import PySpikeVerif.Proofs.Affine
import PySpikeVerif.Proofs.ApiReconcile
import PySpikeVerif.Proofs.Isi
import PySpikeVerif.Proofs.SpikeScan
import PySpikeVerif.Proofs.MultiLaws
import PySpikeVerif.Proofs.MirrorSpike
import PySpikeVerif.Proofs.MirrorSync
import PySpikeVerif.Proofs.Totality
import Mathlib.Tactic.Linarith
import Mathlib.Tactic.Ring
import Mathlib.Tactic.FieldSimp

namespace PySpike

/-! ## definitions -/

/-- a spike train object with every time mapped by `φ = aff α β` -/
def F4_affT (α β : Q) (a : Train) : Train := ⟨a.spikes.map (aff α β), aff α β a.ts, aff α β a.te⟩

/-- keyword arguments after the change of the time axis: MRTS and max_tau are lengths (scaled by α),
    the interval consists of times (mapped by φ) -/
def F4_scaleKw (α β : Q) (kw : Kw) : Kw :=
  { kw with mrts := α * kw.mrts, maxTau := α * kw.maxTau,
            interval := kw.interval.map (fun p => (aff α β p.1, aff α β p.2)) }

/-- only the time axis changes -/
def F4_mapPwc (α β : Q) (f : Pwc) : Pwc := ⟨f.x.map (aff α β), f.y⟩
def F4_mapPwl (α β : Q) (f : Pwl) : Pwl := ⟨f.x.map (aff α β), f.y1, f.y2⟩
def F4_mapDisc (α β : Q) (f : Disc) : Disc := ⟨f.e.map (affE α β)⟩

/-! ## part 1: integrals and averages of the three function classes -/

section funcs
variable {α : Q} (β : Q) (hα : 0 < α)

theorem F4_qsum_map_smul {A} (g : A → Q) (c : Q) (l : List A) :
    qsum (l.map fun p => c * g p) = c * qsum (l.map g) := by
  induction l with
  | nil => simp [qsum]
  | cons a r ih => simp only [List.map_cons, qsum, ih]; ring

theorem F4_lastD_indep {A : Type} : ∀ (l : List A) (d d' : A), l ≠ [] → lastD l d = lastD l d'
  | [], _, _, h => absurd rfl h
  | [_], _, _, _ => rfl
  | _ :: b :: r, d, d', _ => by
    simp only [lastD]
    exact F4_lastD_indep (b :: r) d d' (by simp)

theorem F4_lastD_map_ne {A B : Type} (g : A → B) (l : List A) (d : A) (d' : B) (h : l ≠ []) :
    lastD (l.map g) d' = g (lastD l d) := by
  rw [F4_lastD_indep (l.map g) d' (g d) (by simpa using h)]
  exact lastD_map g l d

theorem F4_headD_map_ne {A B : Type} (g : A → B) (l : List A) (d : A) (d' : B) (h : l ≠ []) :
    (l.map g).headD d' = g (l.headD d) := headD_map_of_ne_nil g l d d' h

include hα in
theorem F4_ssRight_map (x : List Q) (t : Q) :
    ssRight (x.map (aff α β)) (aff α β t) = ssRight x t := by
  unfold ssRight
  rw [List.filter_map, List.length_map]
  congr 1
  apply List.filter_congr
  intro y _
  simp only [Function.comp_apply, aff_le_iff β hα]

include hα in
theorem F4_ssLeft_map (x : List Q) (t : Q) :
    ssLeft (x.map (aff α β)) (aff α β t) = ssLeft x t := by
  unfold ssLeft
  rw [List.filter_map, List.length_map]
  congr 1
  apply List.filter_congr
  intro y _
  simp only [Function.comp_apply, aff_lt_iff β hα]

theorem F4_nth_map {x : List Q} {i : Nat} (h : i < x.length) :
    nth (x.map (aff α β)) i = aff α β (nth x i) := by
  simp [nth, h]

theorem F4_nth_oob {x : List Q} {i : Nat} (h : x.length ≤ i) : nth x i = 0 := by
  simp [nth, h]

theorem F4_nth_map_oob {x : List Q} {i : Nat} (h : x.length ≤ i) :
    nth (x.map (aff α β)) i = 0 := by
  simp [nth, h]

/-! ### piecewise constant -/

theorem F4_Pwc_pieces_map (x y : List Q) :
    (Pwc.mk (x.map (aff α β)) y).pieces
      = (Pwc.mk x y).pieces.map fun p => (aff α β p.1, aff α β p.2.1, p.2.2) := by
  unfold Pwc.pieces
  rw [← List.map_tail, List.zip_map_left, List.zip_map_left, List.zip_map_right, List.map_map]
  apply List.map_congr_left
  intro p _
  rfl

theorem F4_Pwc_integralAll_map (x y : List Q) :
    (Pwc.mk (x.map (aff α β)) y).integralAll = α * (Pwc.mk x y).integralAll := by
  unfold Pwc.integralAll
  rw [F4_Pwc_pieces_map, List.map_map, ← F4_qsum_map_smul]
  congr 1
  apply List.map_congr_left
  intro p _
  simp only [Function.comp_apply, aff]
  ring

include hα in
/-- **averages are invariant (Pwc, whole support)** -/
theorem F4_Pwc_avrgAll_map (x y : List Q) (hx : x ≠ []) :
    (Pwc.mk (x.map (aff α β)) y).avrgAll = (Pwc.mk x y).avrgAll := by
  unfold Pwc.avrgAll
  rw [F4_Pwc_integralAll_map]
  simp only
  rw [F4_lastD_map_ne (aff α β) x 0 0 hx, F4_headD_map_ne (aff α β) x 0 0 hx, aff_sub]
  rw [mul_div_mul_left _ _ (ne_of_gt hα)]

theorem F4_ssLeft_le (x : List Q) (t : Q) : ssLeft x t ≤ x.length := List.length_filter_le _ _

theorem F4_ssRight_le (x : List Q) (t : Q) : ssRight x t ≤ x.length := List.length_filter_le _ _

theorem F4_Pwc_mid_map (x y : List Q) (si n : Nat) :
    qsum (((((x.map (aff α β)).drop (si+1)).take n).zip
        ((((x.map (aff α β)).drop si).take n).zip ((y.drop si).take n))).map
          fun p => (p.1 - p.2.1) * p.2.2)
      = α * qsum ((((x.drop (si+1)).take n).zip
        (((x.drop si).take n).zip ((y.drop si).take n))).map fun p => (p.1 - p.2.1) * p.2.2) := by
  rw [← List.map_drop, ← List.map_drop, ← List.map_take, ← List.map_take,
    List.zip_map_left, List.zip_map_left, List.zip_map_right, List.map_map, List.map_map,
    ← F4_qsum_map_smul]
  congr 1
  apply List.map_congr_left
  intro p _
  simp only [Function.comp_apply, Prod.map, id, aff]
  ring

include hα in
/-- the integral over a sub-interval scales with α (same `ValueError` cases) -/
theorem F4_Pwc_integral_map (x y : List Q) (hx : x ≠ []) (a b : Q) :
    (Pwc.mk (x.map (aff α β)) y).integral (aff α β a) (aff α β b)
      = ((Pwc.mk x y).integral a b).map (α * ·) := by
  unfold Pwc.integral
  simp only [F4_ssRight_map β hα, F4_ssLeft_map β hα, F4_lastD_map_ne (aff α β) x 0 0 hx,
    F4_headD_map_ne (aff α β) x 0 0 hx, gt_iff_lt, aff_lt_iff β hα]
  by_cases h1 : b < a
  · simp only [h1, if_true, Option.map_none]
  rw [if_neg h1, if_neg h1]
  by_cases h2 : a < x.headD 0
  · simp only [h2, if_true, Option.map_none]
  rw [if_neg h2, if_neg h2]
  by_cases h3 : lastD x 0 < b
  · simp only [h3, if_true, Option.map_none]
  rw [if_neg h3, if_neg h3]
  by_cases h4 : ssLeft x b - 1 < ssRight x a ∨ ssLeft x b = 0
  · rw [if_pos h4, if_pos h4]
    simp only [Option.map_some, aff]
    congr 1
    ring
  · rw [if_neg h4, if_neg h4]
    have h5 : ssRight x a ≤ ssLeft x b - 1 := by omega
    have h6 : ssLeft x b - 1 < x.length := by
      have := F4_ssLeft_le x b
      omega
    simp only [Option.map_some]
    rw [F4_Pwc_mid_map, F4_nth_map β h6, F4_nth_map β (lt_of_le_of_lt h5 h6)]
    simp only [aff]
    congr 1
    ring

include hα in
/-- **averages are invariant (Pwc, sub-interval)** -/
theorem F4_Pwc_avrg_map (x y : List Q) (hx : x ≠ []) (a b : Q) :
    (Pwc.mk (x.map (aff α β)) y).avrg (aff α β a) (aff α β b) = (Pwc.mk x y).avrg a b := by
  unfold Pwc.avrg
  rw [F4_Pwc_integral_map β hα x y hx, aff_sub]
  cases (Pwc.mk x y).integral a b with
  | none => rfl
  | some v =>
    simp only [Option.map_some]
    rw [mul_div_mul_left _ _ (ne_of_gt hα)]

/-! ### piecewise linear -/

def F4_affP (α β : Q) (p : Piece) : Piece := ⟨aff α β p.xl, aff α β p.xr, p.yl, p.yr⟩

theorem F4_Pwl_pieces_map (x y1 y2 : List Q) :
    (Pwl.mk (x.map (aff α β)) y1 y2).pieces = (Pwl.mk x y1 y2).pieces.map (F4_affP α β) := by
  unfold Pwl.pieces
  rw [← List.map_tail, List.zip_map_left, List.zip_map_left, List.zip_map_right, List.map_map,
    List.map_map, List.map_map]
  apply List.map_congr_left
  intro p _
  rfl

include hα in
theorem F4_Piece_at_map (p : Piece) (t : Q) : (F4_affP α β p).at (aff α β t) = p.at t := by
  unfold Piece.at F4_affP
  simp only [aff_sub]
  rw [← mul_assoc, mul_comm (p.yr - p.yl) α, mul_assoc, mul_div_mul_left _ _ (ne_of_gt hα)]

theorem F4_Pwl_integralAll_map (x y1 y2 : List Q) :
    (Pwl.mk (x.map (aff α β)) y1 y2).integralAll = α * (Pwl.mk x y1 y2).integralAll := by
  unfold Pwl.integralAll
  rw [F4_Pwl_pieces_map, List.map_map, ← F4_qsum_map_smul]
  congr 1
  apply List.map_congr_left
  intro p _
  simp only [Function.comp_apply, aff, F4_affP]
  ring

include hα in
/-- **averages are invariant (Pwl, whole support)** -/
theorem F4_Pwl_avrgAll_map (x y1 y2 : List Q) (hx : x ≠ []) :
    (Pwl.mk (x.map (aff α β)) y1 y2).avrgAll = (Pwl.mk x y1 y2).avrgAll := by
  unfold Pwl.avrgAll
  rw [F4_Pwl_integralAll_map]
  simp only
  rw [F4_lastD_map_ne (aff α β) x 0 0 hx, F4_headD_map_ne (aff α β) x 0 0 hx, aff_sub]
  rw [mul_div_mul_left _ _ (ne_of_gt hα)]

theorem F4_pieceAt_map (x y1 y2 : List Q) (k : Nat) (h : k + 1 < x.length) :
    (Pwl.mk (x.map (aff α β)) y1 y2).pieceAt k = F4_affP α β ((Pwl.mk x y1 y2).pieceAt k) := by
  unfold Pwl.pieceAt F4_affP
  simp only
  rw [F4_nth_map β h, F4_nth_map β (Nat.lt_of_succ_lt h)]

theorem F4_pieceAt_at_oob (x y1 y2 : List Q) (k : Nat) (h1 : y1.length ≤ k) (h2 : y2.length ≤ k)
    (t : Q) : ((Pwl.mk x y1 y2).pieceAt k).at t = 0 := by
  unfold Pwl.pieceAt Piece.at
  simp only [F4_nth_oob h1, F4_nth_oob h2]
  simp

theorem F4_Pwl_mid_map (x y1 y2 : List Q) (si n : Nat) :
    qsum ((((Pwl.mk (x.map (aff α β)) y1 y2).pieces.drop si).take n).map
        fun p => (p.xr - p.xl) * ((p.yl + p.yr) / 2))
      = α * qsum ((((Pwl.mk x y1 y2).pieces.drop si).take n).map
        fun p => (p.xr - p.xl) * ((p.yl + p.yr) / 2)) := by
  rw [F4_Pwl_pieces_map, ← List.map_drop, ← List.map_take, List.map_map, ← F4_qsum_map_smul]
  congr 1
  apply List.map_congr_left
  intro p _
  simp only [Function.comp_apply, aff, F4_affP]
  ring

include hα in
/-- the integral over a sub-interval scales with α (same failure cases); only the array lengths
    of a profile are needed -/
theorem F4_Pwl_integral_map (x y1 y2 : List Q) (hy1 : y1.length < x.length)
    (hy2 : y2.length < x.length) (a b : Q) :
    (Pwl.mk (x.map (aff α β)) y1 y2).integral (aff α β a) (aff α β b)
      = ((Pwl.mk x y1 y2).integral a b).map (α * ·) := by
  unfold Pwl.integral
  simp only [F4_ssRight_map β hα, F4_ssLeft_map β hα]
  by_cases h1 : ssRight x a = 0
  · simp only [h1, if_true, Option.map_none]
  rw [if_neg h1, if_neg h1]
  have hsl := F4_ssRight_le x a
  by_cases h2 : ssLeft x b = 0 ∨ ssRight x a > ssLeft x b - 1
  · rw [if_pos h2, if_pos h2]
    simp only [Option.map_some]
    congr 1
    by_cases h3 : ssRight x a < x.length
    · rw [F4_pieceAt_map β x y1 y2 _ (by omega), F4_Piece_at_map β hα, F4_Piece_at_map β hα,
        aff_sub]
      ring
    · rw [F4_pieceAt_at_oob _ y1 y2 _ (by omega) (by omega),
        F4_pieceAt_at_oob _ y1 y2 _ (by omega) (by omega),
        F4_pieceAt_at_oob _ y1 y2 _ (by omega) (by omega),
        F4_pieceAt_at_oob _ y1 y2 _ (by omega) (by omega)]
      ring
  · rw [if_neg h2, if_neg h2]
    have h5 : ssRight x a ≤ ssLeft x b - 1 := by omega
    have h6 : ssLeft x b - 1 < x.length := by
      have := F4_ssLeft_le x b
      omega
    simp only [Option.map_some]
    congr 1
    rw [F4_Pwl_mid_map, F4_nth_map β h6, F4_nth_map β (lt_of_le_of_lt h5 h6),
      F4_pieceAt_map β x y1 y2 (ssRight x a - 1) (by omega), F4_Piece_at_map β hα]
    by_cases h7 : ssLeft x b - 1 + 1 < x.length
    · rw [F4_pieceAt_map β x y1 y2 _ h7, F4_Piece_at_map β hα]
      simp only [aff]
      ring
    · rw [F4_pieceAt_at_oob (x.map (aff α β)) y1 y2 (ssLeft x b - 1) (by omega) (by omega),
        F4_pieceAt_at_oob x y1 y2 (ssLeft x b - 1) (by omega) (by omega),
        F4_nth_oob (x := y1) (i := ssLeft x b - 1) (by omega)]
      simp only [aff]
      ring

include hα in
/-- **averages are invariant (Pwl, sub-interval)** -/
theorem F4_Pwl_avrg_map (x y1 y2 : List Q) (hy1 : y1.length < x.length)
    (hy2 : y2.length < x.length) (a b : Q) :
    (Pwl.mk (x.map (aff α β)) y1 y2).avrg (aff α β a) (aff α β b) = (Pwl.mk x y1 y2).avrg a b := by
  unfold Pwl.avrg
  rw [F4_Pwl_integral_map β hα x y1 y2 hy1 hy2, aff_sub]
  cases (Pwl.mk x y1 y2).integral a b with
  | none => rfl
  | some v =>
    simp only [Option.map_some]
    rw [mul_div_mul_left _ _ (ne_of_gt hα)]

/-! ### discrete -/

theorem F4_Disc_interior_map (e : List (Q × Q × Q)) :
    (Disc.mk (e.map (affE α β))).interior = (Disc.mk e).interior.map (affE α β) := by
  unfold Disc.interior
  simp only [List.map_dropLast, List.map_tail]

/-- **`integral()` of a discrete profile (value and multiplicity sums) is invariant** -/
theorem F4_Disc_integralAll_map (e : List (Q × Q × Q)) :
    (Disc.mk (e.map (affE α β))).integralAll = (Disc.mk e).integralAll := by
  unfold Disc.integralAll
  rw [F4_Disc_interior_map]
  simp only [List.map_map, Function.comp_def, affE]

include hα in
/-- **`integral((a,b))` of a discrete profile is invariant** -/
theorem F4_Disc_integral_map (e : List (Q × Q × Q)) (a b : Q) :
    (Disc.mk (e.map (affE α β))).integral (aff α β a) (aff α β b) = (Disc.mk e).integral a b := by
  unfold Disc.integral
  have hx : (e.map (affE α β)).map (·.1) = (e.map (·.1)).map (aff α β) := by
    simp only [List.map_map, Function.comp_def, affE]
  simp only [hx, F4_ssRight_map β hα, F4_ssLeft_map β hα, List.length_map]
  split
  · rfl
  · rw [← List.map_drop, ← List.map_take]
    simp only [List.map_map, Function.comp_def, affE]

theorem F4_Disc_avrgAll_map (e : List (Q × Q × Q)) :
    (Disc.mk (e.map (affE α β))).avrgAll = (Disc.mk e).avrgAll := by
  unfold Disc.avrgAll
  rw [F4_Disc_integralAll_map]

include hα in
theorem F4_Disc_avrg_map (e : List (Q × Q × Q)) (a b : Q) :
    (Disc.mk (e.map (affE α β))).avrg (aff α β a) (aff α β b) = (Disc.mk e).avrg a b := by
  unfold Disc.avrg
  rw [F4_Disc_integral_map β hα]

end funcs

/-! ## part 2a: trains, `np.unique`, `reconcile_spike_trains` -/

section recon
variable {α : Q} (β : Q) (hα : 0 < α)

include hα in
theorem F4_nonEmpty_aff (a : Train) :
    (F4_affT α β a).nonEmpty = a.nonEmpty.map (aff α β) := by
  unfold Train.nonEmpty F4_affT
  cases h : a.spikes with
  | nil =>
    simp only [List.map_nil, List.isEmpty_nil, if_true, aff_lt_iff β hα]
    split_ifs <;> rfl
  | cons x r => rfl

include hα in
theorem F4_sortQ_map (l : List Q) : sortQ (l.map (aff α β)) = (sortQ l).map (aff α β) := by
  unfold sortQ
  rw [List.map_mergeSort]
  intro a _ b _
  simp only [aff_le_iff β hα]

include hα in
theorem F4_dedupAdj_map (l : List Q) : dedupAdj (l.map (aff α β)) = (dedupAdj l).map (aff α β) := by
  induction l using dedupAdj.induct with
  | case1 => rfl
  | case2 a => rfl
  | case3 a r ih =>
    simp only [List.map_cons] at ih ⊢
    rw [dedupAdj, dedupAdj, if_pos rfl, if_pos rfl, ih]
  | case4 a b r h ih =>
    simp only [List.map_cons] at ih ⊢
    rw [dedupAdj, dedupAdj, if_neg h, if_neg (mt (aff_inj β hα a b).mp h), ih]
    rfl

include hα in
/-- `np.unique` commutes with a strictly increasing affine map -/
theorem F4_uniqueQ_map (l : List Q) : uniqueQ (l.map (aff α β)) = (uniqueQ l).map (aff α β) := by
  unfold uniqueQ
  rw [F4_sortQ_map β hα, F4_dedupAdj_map β hα]

include hα in
theorem F4_foldl_min_map (r : List Q) (a : Q) :
    (r.map (aff α β)).foldl min (aff α β a) = aff α β (r.foldl min a) := by
  induction r generalizing a with
  | nil => rfl
  | cons b r ih => simp only [List.map_cons, List.foldl_cons, aff_min β hα, ih]

include hα in
theorem F4_foldl_max_map (r : List Q) (a : Q) :
    (r.map (aff α β)).foldl max (aff α β a) = aff α β (r.foldl max a) := by
  induction r generalizing a with
  | nil => rfl
  | cons b r ih => simp only [List.map_cons, List.foldl_cons, aff_max β hα, ih]

include hα in
theorem F4_minList_map (l : List Q) (hl : l ≠ []) :
    minList 0 (l.map (aff α β)) = aff α β (minList 0 l) := by
  cases l with
  | nil => exact absurd rfl hl
  | cons a r => exact F4_foldl_min_map β hα r a

include hα in
theorem F4_maxList_map (l : List Q) (hl : l ≠ []) :
    maxList 0 (l.map (aff α β)) = aff α β (maxList 0 l) := by
  cases l with
  | nil => exact absurd rfl hl
  | cons a r => exact F4_foldl_max_map β hα r a

/-- every spike of every train lies inside the train's own recording interval (the SpikeTrain
    contract; neither sortedness nor common edges are needed) -/
def F4_Within (L : List Train) : Prop := ∀ t ∈ L, ∀ s ∈ t.spikes, t.ts ≤ s ∧ s ≤ t.te

include hα in
theorem F4_recFilter_map (tS tE : Q) (l : List Q)
    (h : ∀ t ∈ l, (aff α β tS - recEps < aff α β t ∧ aff α β t < aff α β tE + recEps)
        ↔ (tS - recEps < t ∧ t < tE + recEps)) :
    recFilter (aff α β tS) (aff α β tE) (l.map (aff α β)) = (recFilter tS tE l).map (aff α β) := by
  unfold recFilter
  rw [F4_uniqueQ_map β hα, List.filter_map]
  congr 1
  apply List.filter_congr
  intro t ht
  have := h t (uniqueQ_mem.mp ht)
  simp only [Function.comp_apply, gt_iff_lt, decide_eq_decide]
  exact this

include hα in
/-- **`reconcile_spike_trains` commutes with the change of the time axis** for pure shifts (any
    input) and, for every `α > 0`, whenever the spikes lie inside their recording intervals. (The
    absolute tolerance `Eps = 1e-6` of `reconcile_spike_trains` is not scaled: for `α ≠ 1` a spike
    outside `[t_start, t_end]` by less than `Eps` may be kept on one side and dropped on the other.) -/
theorem F4_reconcile_aff (L : List Train) (h : α = 1 ∨ F4_Within L) :
    reconcile (L.map (F4_affT α β)) = (reconcile L).map (F4_affT α β) := by
  by_cases hL : L = []
  · subst hL; rfl
  have hts : (L.map (F4_affT α β)).map (·.ts) = (L.map (·.ts)).map (aff α β) := by
    simp only [List.map_map, Function.comp_def, F4_affT]
  have hte : (L.map (F4_affT α β)).map (·.te) = (L.map (·.te)).map (aff α β) := by
    simp only [List.map_map, Function.comp_def, F4_affT]
  have hne1 : L.map (·.ts) ≠ [] := by simpa using hL
  have hne2 : L.map (·.te) ≠ [] := by simpa using hL
  rw [reconcile_eq, reconcile_eq, hts, hte, F4_minList_map β hα _ hne1, F4_maxList_map β hα _ hne2,
    List.map_map, List.map_map]
  apply List.map_congr_left
  intro s hs
  simp only [Function.comp_apply, F4_affT]
  rw [F4_recFilter_map β hα]
  intro t ht
  rcases h with h1 | hw
  · subst h1
    simp only [aff, one_mul]
    constructor <;> intro ⟨h1, h2⟩ <;> constructor <;> linarith
  · obtain ⟨h1, h2⟩ := hw s hs t ht
    have h3 : minList 0 (L.map (·.ts)) ≤ s.ts := minList_le (List.mem_map_of_mem hs)
    have h4 : s.te ≤ maxList 0 (L.map (·.te)) := le_maxList (List.mem_map_of_mem hs)
    have h5 := (aff_le_iff β hα (minList 0 (L.map (·.ts))) t).mpr (le_trans h3 h1)
    have h6 := (aff_le_iff β hα t (maxList 0 (L.map (·.te)))).mpr (le_trans h2 h4)
    have := recEps_pos
    constructor <;> intro _ <;> constructor <;> linarith

/-- the hypothesis of `F4_reconcile_aff` cannot be dropped: the tolerance `Eps` is absolute, so for
    `α = 2` a spike `0.75·Eps` before `t_start` is kept before scaling and dropped after it -/
theorem F4_reconcile_scale_counterexample :
    reconcile ([⟨[-(3/4) * recEps], 0, 1⟩].map (F4_affT 2 0)) = [⟨[], 0, 2⟩] ∧
    (reconcile [⟨[-(3/4) * recEps], 0, 1⟩]).map (F4_affT 2 0) = [⟨[-(3/2) * recEps], 0, 2⟩] := by
  constructor
  · rw [reconcile_eq]
    have e : recFilter 0 2 [2 * (-(3/4) * recEps) + 0] = [] := by
      unfold recFilter
      rw [uniqueQ_id (by simp)]
      unfold recEps
      decide +kernel
    have e2 : (2 : Q) * 0 + 0 = 0 := by norm_num
    have e3 : (2 : Q) * 1 + 0 = 2 := by norm_num
    simp only [List.map_cons, List.map_nil, F4_affT, aff, minList, maxList, List.foldl_nil, e2, e3, e]
  · rw [reconcile_eq]
    have e : recFilter 0 1 [-(3/4) * recEps] = [-(3/4) * recEps] := by
      unfold recFilter
      rw [uniqueQ_id (by simp)]
      unfold recEps
      decide +kernel
    simp only [List.map_cons, List.map_nil, minList, maxList, List.foldl_nil, e, F4_affT, aff]
    unfold recEps
    norm_num

theorem F4_Within_reconcile (L : List Train) (h : F4_Within L) : F4_Within (reconcile L) := by
  intro t ht s hs
  rw [reconcile_eq, List.mem_map] at ht
  obtain ⟨u, hu, rfl⟩ := ht
  simp only at hs ⊢
  obtain ⟨h1, h2⟩ := h u hu s (recFilter_mem.mp hs).1
  exact ⟨le_trans (minList_le (List.mem_map_of_mem hu)) h1,
    le_trans h2 (le_maxList (List.mem_map_of_mem hu))⟩

/-- hypothesis under which the API functions commute with `φ`: no reconciliation, or a pure
    shift, or spikes inside their recording intervals -/
def F4_Ok (α : Q) (kw : Kw) (L : List Train) : Prop := kw.recon = false ∨ α = 1 ∨ F4_Within L

include hα in
theorem F4_prep_aff (kw : Kw) (L : List Train) (h : F4_Ok α kw L) :
    prep (F4_scaleKw α β kw) (L.map (F4_affT α β)) = (prep kw L).map (F4_affT α β) := by
  unfold prep
  have e : (F4_scaleKw α β kw).recon = kw.recon := rfl
  rw [e]
  cases hr : kw.recon with
  | false => rfl
  | true =>
    simp only [if_true]
    rcases h with h | h
    · rw [hr] at h; exact absurd h (by decide)
    · exact F4_reconcile_aff β hα L h

include hα in
theorem F4_prepBi_aff (kw : Kw) (a b : Train) (h : F4_Ok α kw [a, b]) :
    prepBi (F4_scaleKw α β kw) (F4_affT α β a) (F4_affT α β b)
      = (F4_affT α β (prepBi kw a b).1, F4_affT α β (prepBi kw a b).2) := by
  have h1 := F4_prep_aff β hα kw [a, b] h
  simp only [List.map_cons, List.map_nil] at h1
  rw [prep_pair, prep_pair] at h1
  simp only [List.map_cons, List.map_nil, List.cons.injEq, and_true] at h1
  exact Prod.ext h1.1 h1.2

theorem F4_Within_prep (kw : Kw) (L : List Train) (h : F4_Within L) : F4_Within (prep kw L) := by
  unfold prep
  split
  · exact F4_Within_reconcile L h
  · exact h

theorem F4_Within_prepBi (kw : Kw) (a b : Train) (h : F4_Within [a, b]) :
    F4_Within [(prepBi kw a b).1, (prepBi kw a b).2] := by
  rw [← prep_pair]
  exact F4_Within_prep kw _ h

theorem F4_prep_length (kw : Kw) (L : List Train) : (prep kw L).length = L.length := by
  unfold prep
  split
  · exact reconcile_length L
  · rfl

theorem F4_tr_map (L : List Train) (i : Nat) (h : i < L.length) :
    tr (L.map (F4_affT α β)) i = F4_affT α β (tr L i) := by
  simp [tr, h]

end recon

/-! ## parts 2/3: the bivariate public functions -/

section bi
variable {α : Q} (β : Q) (hα : 0 < α)

theorem F4_isiProfile_x_ne (s1 s2 : List Q) (ts te m : Q) : (isiProfile s1 s2 ts te m).1 ≠ [] := by
  unfold isiProfile finishPwc
  have := isiEvents_ne s1 s2 ts te m
  split <;> simp [this]

theorem F4_isiProfileBi_x_ne (kw : Kw) (a b : Train) : (isiProfileBi kw a b).x ≠ [] :=
  F4_isiProfile_x_ne _ _ _ _ _

theorem F4_spikeProfileBi_lengths (kw : Kw) (a b : Train) :
    (spikeProfileBi kw a b).y1.length < (spikeProfileBi kw a b).x.length ∧
    (spikeProfileBi kw a b).y2.length < (spikeProfileBi kw a b).x.length := by
  have h := spikeProfile_lengths (prepBi kw a b).1.nonEmpty (prepBi kw a b).2.nonEmpty
    (prepBi kw a b).1.ts (prepBi kw a b).1.te kw.mrts kw.ri
  unfold spikeProfileBi
  simp only
  omega

include hα in
/-- **ISI profile at the API**: only the time axis changes -/
theorem F4_isiProfileBi_aff (kw : Kw) (a b : Train) (h : F4_Ok α kw [a, b]) :
    isiProfileBi (F4_scaleKw α β kw) (F4_affT α β a) (F4_affT α β b)
      = F4_mapPwc α β (isiProfileBi kw a b) := by
  unfold isiProfileBi
  simp only [F4_prepBi_aff β hα kw a b h, F4_nonEmpty_aff β hα]
  have e : (F4_scaleKw α β kw).mrts = α * kw.mrts := rfl
  have e1 : (F4_affT α β (prepBi kw a b).1).ts = aff α β (prepBi kw a b).1.ts := rfl
  have e2 : (F4_affT α β (prepBi kw a b).1).te = aff α β (prepBi kw a b).1.te := rfl
  rw [e, e1, e2, isiProfile_aff β hα]
  rfl

include hα in
/-- **SPIKE profile at the API** -/
theorem F4_spikeProfileBi_aff (kw : Kw) (a b : Train) (h : F4_Ok α kw [a, b]) :
    spikeProfileBi (F4_scaleKw α β kw) (F4_affT α β a) (F4_affT α β b)
      = F4_mapPwl α β (spikeProfileBi kw a b) := by
  unfold spikeProfileBi
  simp only [F4_prepBi_aff β hα kw a b h, F4_nonEmpty_aff β hα]
  have e : (F4_scaleKw α β kw).mrts = α * kw.mrts := rfl
  have e0 : (F4_scaleKw α β kw).ri = kw.ri := rfl
  have e1 : (F4_affT α β (prepBi kw a b).1).ts = aff α β (prepBi kw a b).1.ts := rfl
  have e2 : (F4_affT α β (prepBi kw a b).1).te = aff α β (prepBi kw a b).1.te := rfl
  rw [e, e0, e1, e2, spikeProfile_aff β hα]
  rfl

include hα in
/-- **SPIKE-Sync profile at the API** -/
theorem F4_syncProfileBi_aff (kw : Kw) (a b : Train) (h : F4_Ok α kw [a, b]) :
    syncProfileBi (F4_scaleKw α β kw) (F4_affT α β a) (F4_affT α β b)
      = F4_mapDisc α β (syncProfileBi kw a b) := by
  unfold syncProfileBi
  simp only [F4_prepBi_aff β hα kw a b h]
  have e : (F4_scaleKw α β kw).mrts = α * kw.mrts := rfl
  have e0 : (F4_scaleKw α β kw).maxTau = α * kw.maxTau := rfl
  have e1 : (F4_affT α β (prepBi kw a b).1).ts = aff α β (prepBi kw a b).1.ts := rfl
  have e2 : (F4_affT α β (prepBi kw a b).1).te = aff α β (prepBi kw a b).1.te := rfl
  have e3 : (F4_affT α β (prepBi kw a b).1).spikes = (prepBi kw a b).1.spikes.map (aff α β) := rfl
  have e4 : (F4_affT α β (prepBi kw a b).2).spikes = (prepBi kw a b).2.spikes.map (aff α β) := rfl
  rw [e, e0, e1, e2, e3, e4, coincProfile_aff β hα]
  rfl

include hα in
/-- **spike-order profile at the API** -/
theorem F4_orderProfileBi_aff (kw : Kw) (a b : Train) (h : F4_Ok α kw [a, b]) :
    orderProfileBi (F4_scaleKw α β kw) (F4_affT α β a) (F4_affT α β b)
      = F4_mapDisc α β (orderProfileBi kw a b) := by
  unfold orderProfileBi
  simp only [F4_prepBi_aff β hα kw a b h]
  have e : (F4_scaleKw α β kw).mrts = α * kw.mrts := rfl
  have e0 : (F4_scaleKw α β kw).maxTau = α * kw.maxTau := rfl
  have e1 : (F4_affT α β (prepBi kw a b).1).ts = aff α β (prepBi kw a b).1.ts := rfl
  have e2 : (F4_affT α β (prepBi kw a b).1).te = aff α β (prepBi kw a b).1.te := rfl
  have e3 : (F4_affT α β (prepBi kw a b).1).spikes = (prepBi kw a b).1.spikes.map (aff α β) := rfl
  have e4 : (F4_affT α β (prepBi kw a b).2).spikes = (prepBi kw a b).2.spikes.map (aff α β) := rfl
  rw [e, e0, e1, e2, e3, e4, orderProfile_aff β hα]
  rfl

include hα in
theorem F4_pwcAvrgKw_aff (f : Pwc) (hx : f.x ≠ []) (iv : Option (Q × Q)) :
    pwcAvrgKw (F4_mapPwc α β f) (iv.map fun p => (aff α β p.1, aff α β p.2)) = pwcAvrgKw f iv := by
  cases iv with
  | none =>
    simp only [Option.map_none, pwcAvrgKw, F4_mapPwc]
    rw [F4_Pwc_avrgAll_map β hα f.x f.y hx]
  | some p =>
    obtain ⟨a, b⟩ := p
    simp only [Option.map_some, pwcAvrgKw, F4_mapPwc]
    exact F4_Pwc_avrg_map β hα f.x f.y hx a b

include hα in
theorem F4_pwlAvrgKw_aff (f : Pwl) (h1 : f.y1.length < f.x.length) (h2 : f.y2.length < f.x.length)
    (iv : Option (Q × Q)) :
    pwlAvrgKw (F4_mapPwl α β f) (iv.map fun p => (aff α β p.1, aff α β p.2)) = pwlAvrgKw f iv := by
  have hx : f.x ≠ [] := by
    intro h; rw [h] at h1; simp at h1
  cases iv with
  | none =>
    simp only [Option.map_none, pwlAvrgKw, F4_mapPwl]
    rw [F4_Pwl_avrgAll_map β hα f.x f.y1 f.y2 hx]
  | some p =>
    obtain ⟨a, b⟩ := p
    simp only [Option.map_some, pwlAvrgKw, F4_mapPwl]
    exact F4_Pwl_avrg_map β hα f.x f.y1 f.y2 h1 h2 a b

include hα in
theorem F4_discIntegralKw_aff (f : Disc) (iv : Option (Q × Q)) :
    discIntegralKw (F4_mapDisc α β f) (iv.map fun p => (aff α β p.1, aff α β p.2))
      = discIntegralKw f iv := by
  cases iv with
  | none =>
    simp only [Option.map_none, discIntegralKw, F4_mapDisc]
    rw [F4_Disc_integralAll_map β]
  | some p =>
    obtain ⟨a, b⟩ := p
    simp only [Option.map_some, discIntegralKw, F4_mapDisc]
    exact F4_Disc_integral_map β hα f.e a b

include hα in
/-- **ISI distance is invariant** (every interval, every MRTS) -/
theorem F4_isiDistanceBi_aff (kw : Kw) (a b : Train) (h : F4_Ok α kw [a, b]) :
    isiDistanceBi (F4_scaleKw α β kw) (F4_affT α β a) (F4_affT α β b) = isiDistanceBi kw a b := by
  unfold isiDistanceBi
  rw [F4_isiProfileBi_aff β hα kw a b h]
  exact F4_pwcAvrgKw_aff β hα _ (F4_isiProfileBi_x_ne kw a b) kw.interval

include hα in
/-- **SPIKE distance is invariant** -/
theorem F4_spikeDistanceBi_aff (kw : Kw) (a b : Train) (h : F4_Ok α kw [a, b]) :
    spikeDistanceBi (F4_scaleKw α β kw) (F4_affT α β a) (F4_affT α β b)
      = spikeDistanceBi kw a b := by
  unfold spikeDistanceBi
  rw [F4_spikeProfileBi_aff β hα kw a b h]
  exact F4_pwlAvrgKw_aff β hα _ (F4_spikeProfileBi_lengths kw a b).1
    (F4_spikeProfileBi_lengths kw a b).2 kw.interval

include hα in
theorem F4_syncValues_aff (kw : Kw) (a b : Train) (h : F4_Ok α kw [a, b]) :
    syncValues (F4_scaleKw α β kw) (F4_affT α β a) (F4_affT α β b) = syncValues kw a b := by
  unfold syncValues
  rw [F4_syncProfileBi_aff β hα kw a b h]
  exact F4_discIntegralKw_aff β hα _ kw.interval

include hα in
/-- **SPIKE synchronisation is invariant** -/
theorem F4_spikeSyncBi_aff (kw : Kw) (a b : Train) (h : F4_Ok α kw [a, b]) :
    spikeSyncBi (F4_scaleKw α β kw) (F4_affT α β a) (F4_affT α β b) = spikeSyncBi kw a b := by
  unfold spikeSyncBi
  rw [F4_syncValues_aff β hα kw a b h]

include hα in
/-- `orderValues` always reconciles, whatever `kw.recon`: hence the hypothesis does not mention
    `kw.recon` -/
theorem F4_orderValues_aff (kw : Kw) (a b : Train) (h : α = 1 ∨ F4_Within [a, b]) :
    orderValues (F4_scaleKw α β kw) (F4_affT α β a) (F4_affT α β b) = orderValues kw a b := by
  unfold orderValues
  have e : ({ F4_scaleKw α β kw with recon := true } : Kw)
      = F4_scaleKw α β { kw with recon := true } := rfl
  rw [e, F4_orderProfileBi_aff β hα _ a b (Or.inr h)]
  exact F4_Disc_integralAll_map β _

include hα in
/-- **spike-train order is invariant** (normalised or not) -/
theorem F4_spikeTrainOrderBi_aff (kw : Kw) (normalize : Bool) (a b : Train)
    (h : α = 1 ∨ F4_Within [a, b]) :
    spikeTrainOrderBi (F4_scaleKw α β kw) normalize (F4_affT α β a) (F4_affT α β b)
      = spikeTrainOrderBi kw normalize a b := by
  unfold spikeTrainOrderBi
  rw [F4_orderValues_aff β hα kw a b h]

end bi

/-! ## part 4 (scalars): lists of trains -/

section multi
variable {α : Q} (β : Q) (hα : 0 < α)

/-- every selected index addresses a train of the list (always true for `indices=None`) -/
def F4_IdxOk (idx : Option (List Nat)) (L : List Train) : Prop :=
  ∀ i ∈ resolveIdx idx L.length, i < L.length

theorem F4_IdxOk_none (L : List Train) : F4_IdxOk none L := by
  intro i hi
  simpa [resolveIdx] using hi

theorem F4_IdxOk_prep {idx : Option (List Nat)} {L : List Train} (kw : Kw) (h : F4_IdxOk idx L) :
    ∀ i ∈ resolveIdx idx (prep kw L).length, i < (prep kw L).length := by
  rw [F4_prep_length]; exact h

theorem F4_genericDistanceMulti_congr (d d' : Train → Train → Option Q) (ids : List Nat)
    (L : List Train) (hi : ∀ i ∈ ids, i < L.length)
    (hd : ∀ a b, a ∈ L → b ∈ L → d' (F4_affT α β a) (F4_affT α β b) = d a b) :
    genericDistanceMulti d' ids (L.map (F4_affT α β)) = genericDistanceMulti d ids L := by
  unfold genericDistanceMulti
  simp only
  congr 2
  apply List.map_congr_left
  intro p hp
  obtain ⟨h1, h2⟩ := mem_pairsOf hp
  rw [F4_tr_map β L p.1 (hi _ h1), F4_tr_map β L p.2 (hi _ h2)]
  exact hd _ _ (B5_tr_mem L _ (hi _ h1)) (B5_tr_mem L _ (hi _ h2))

include hα in
/-- **multivariate ISI distance is invariant** -/
theorem F4_isiDistanceMulti_aff (kw : Kw) (idx : Option (List Nat)) (L : List Train)
    (h : F4_Ok α kw L) (hi : F4_IdxOk idx L) :
    isiDistanceMulti (F4_scaleKw α β kw) idx (L.map (F4_affT α β)) = isiDistanceMulti kw idx L := by
  unfold isiDistanceMulti
  simp only [F4_prep_aff β hα kw L h, List.length_map]
  exact F4_genericDistanceMulti_congr β _ _ _ _ (F4_IdxOk_prep kw hi)
    (fun a b _ _ => F4_isiDistanceBi_aff β hα kw.noRecon a b (Or.inl rfl))

include hα in
/-- **multivariate SPIKE distance is invariant** -/
theorem F4_spikeDistanceMulti_aff (kw : Kw) (idx : Option (List Nat)) (L : List Train)
    (h : F4_Ok α kw L) (hi : F4_IdxOk idx L) :
    spikeDistanceMulti (F4_scaleKw α β kw) idx (L.map (F4_affT α β))
      = spikeDistanceMulti kw idx L := by
  unfold spikeDistanceMulti
  simp only [F4_prep_aff β hα kw L h, List.length_map]
  exact F4_genericDistanceMulti_congr β _ _ _ _ (F4_IdxOk_prep kw hi)
    (fun a b _ _ => F4_spikeDistanceBi_aff β hα kw.noRecon a b (Or.inl rfl))

include hα in
/-- **multivariate SPIKE synchronisation is invariant** -/
theorem F4_spikeSyncMulti_aff (kw : Kw) (idx : Option (List Nat)) (L : List Train)
    (h : F4_Ok α kw L) (hi : F4_IdxOk idx L) :
    spikeSyncMulti (F4_scaleKw α β kw) idx (L.map (F4_affT α β)) = spikeSyncMulti kw idx L := by
  unfold spikeSyncMulti
  simp only [F4_prep_aff β hα kw L h, List.length_map]
  have hi' := F4_IdxOk_prep kw hi
  congr 2
  apply List.map_congr_left
  intro p hp
  obtain ⟨h1, h2⟩ := mem_pairsOf hp
  rw [F4_tr_map β _ p.1 (hi' _ h1), F4_tr_map β _ p.2 (hi' _ h2)]
  exact F4_syncValues_aff β hα kw.noRecon _ _ (Or.inl rfl)

theorem F4_Within_pair {L : List Train} (h : F4_Within L) {a b : Train} (ha : a ∈ L) (hb : b ∈ L) :
    F4_Within [a, b] := by
  intro t ht
  simp only [List.mem_cons, List.not_mem_nil, or_false] at ht
  rcases ht with rfl | rfl
  · exact h _ ha
  · exact h _ hb

include hα in
/-- **multivariate spike-train order is invariant**; the pair values are always computed on
    reconciled pairs, hence no `recon = false` alternative -/
theorem F4_spikeTrainOrderMulti_aff (kw : Kw) (idx : Option (List Nat)) (L : List Train)
    (h : α = 1 ∨ F4_Within L) (hi : F4_IdxOk idx L) :
    spikeTrainOrderMulti (F4_scaleKw α β kw) idx (L.map (F4_affT α β))
      = spikeTrainOrderMulti kw idx L := by
  unfold spikeTrainOrderMulti
  simp only [F4_prep_aff β hα kw L (Or.inr h), List.length_map]
  have hi' := F4_IdxOk_prep kw hi
  have hw : α = 1 ∨ F4_Within (prep kw L) := h.imp id (F4_Within_prep kw L)
  have e : List.foldl (fun acc p =>
        (acc.1 + (orderValues (F4_scaleKw α β kw) (tr ((prep kw L).map (F4_affT α β)) p.1)
            (tr ((prep kw L).map (F4_affT α β)) p.2)).1,
         acc.2 + (orderValues (F4_scaleKw α β kw) (tr ((prep kw L).map (F4_affT α β)) p.1)
            (tr ((prep kw L).map (F4_affT α β)) p.2)).2)) ((0 : Q), (0 : Q))
        (pairsOf (resolveIdx idx (prep kw L).length))
      = List.foldl (fun acc p =>
        (acc.1 + (orderValues kw (tr (prep kw L) p.1) (tr (prep kw L) p.2)).1,
         acc.2 + (orderValues kw (tr (prep kw L) p.1) (tr (prep kw L) p.2)).2)) ((0 : Q), (0 : Q))
        (pairsOf (resolveIdx idx (prep kw L).length)) := by
    apply foldl_congr_mem
    intro acc p hp
    obtain ⟨h1, h2⟩ := mem_pairsOf hp
    rw [F4_tr_map β _ p.1 (hi' _ h1), F4_tr_map β _ p.2 (hi' _ h2),
      F4_orderValues_aff β hα kw _ _ (hw.imp id fun w =>
        F4_Within_pair w (B5_tr_mem _ _ (hi' _ h1)) (B5_tr_mem _ _ (hi' _ h2)))]
  rw [e]

include hα in
/-- **spike-directionality values (one list per train) are invariant** -/
theorem F4_dirValues_aff (kw : Kw) (idx : Option (List Nat)) (L : List Train)
    (h : F4_Ok α kw L) (hi : F4_IdxOk idx L) :
    dirValues (F4_scaleKw α β kw) idx (L.map (F4_affT α β)) = dirValues kw idx L := by
  unfold dirValues
  simp only [F4_prep_aff β hα kw L h, List.length_map]
  have hi' := F4_IdxOk_prep kw hi
  generalize prep kw L = L' at hi'
  generalize hids : resolveIdx idx L'.length = ids at hi'
  have hinit : (ids.map fun k => (tr (L'.map (F4_affT α β)) k).spikes.map fun _ => (0 : Q))
      = ids.map fun k => (tr L' k).spikes.map fun _ => (0 : Q) := by
    apply List.map_congr_left
    intro k hk
    rw [F4_tr_map β _ k (hi' _ hk)]
    simp only [F4_affT, List.map_map, Function.comp_def]
  rw [hinit]
  congr 1
  apply foldl_congr_mem
  intro acc p hp
  obtain ⟨h1, h2⟩ := mem_posPairs hp
  have g1 : ids.getD p.1 0 ∈ ids := by
    rw [List.getD_eq_getElem?_getD, List.getElem?_eq_getElem h1]; simp
  have g2 : ids.getD p.2 0 ∈ ids := by
    rw [List.getD_eq_getElem?_getD, List.getElem?_eq_getElem h2]; simp
  rw [F4_tr_map β _ _ (hi' _ g1), F4_tr_map β _ _ (hi' _ g2)]
  have e : (F4_scaleKw α β kw).mrts = α * kw.mrts := rfl
  have e0 : (F4_scaleKw α β kw).maxTau = α * kw.maxTau := rfl
  simp only [F4_affT, e, e0, dirProfile_aff β hα]

include hα in
/-- **spike directionality `D(a,b)` is invariant** (normalised or not); the values are always
    computed on the reconciled pair, hence no `recon = false` alternative -/
theorem F4_spikeDirectionality_aff (kw : Kw) (normalize : Bool) (a b : Train)
    (h : α = 1 ∨ F4_Within [a, b]) :
    spikeDirectionality (F4_scaleKw α β kw) normalize (F4_affT α β a) (F4_affT α β b)
      = spikeDirectionality kw normalize a b := by
  unfold spikeDirectionality
  simp only [F4_prepBi_aff β hα kw a b (Or.inr h)]
  have e : ({ F4_scaleKw α β kw with recon := true } : Kw)
      = F4_scaleKw α β { kw with recon := true } := rfl
  have hw : F4_Ok α { kw with recon := true } [(prepBi kw a b).1, (prepBi kw a b).2] :=
    Or.inr (h.imp id (F4_Within_prepBi kw a b))
  have hd := F4_dirValues_aff β hα { kw with recon := true } none
    [(prepBi kw a b).1, (prepBi kw a b).2] hw (F4_IdxOk_none _)
  simp only [List.map_cons, List.map_nil] at hd
  rw [e, hd]
  simp only [F4_affT, List.length_map]

end multi

/-! ## part 4 (profiles): the `add` kernels commute with the change of the time axis -/

section add
variable {α : Q} (β : Q) (hα : 0 < α)

def F4_affI (α β : Q) (p : Q × Q) : Q × Q := (aff α β p.1, p.2)

theorem F4_Pwc_inner_map (f : Pwc) : (F4_mapPwc α β f).inner = f.inner.map (F4_affI α β) := by
  unfold Pwc.inner F4_mapPwc
  simp only
  rw [← List.map_tail, List.zip_map_left]
  apply List.map_congr_left
  intro p _
  rfl

include hα in
theorem F4_addPwcLoop_map (c1 c2 : Q) (r1 r2 : List (Q × Q)) :
    addPwcLoop c1 c2 (r1.map (F4_affI α β)) (r2.map (F4_affI α β))
      = (addPwcLoop c1 c2 r1 r2).map (F4_affI α β) := by
  induction c1, c2, r1, r2 using addPwcLoop.induct with
  | case1 c1 c2 => simp [addPwcLoop]
  | case2 c1 c2 a va r1' ih =>
    simp only [List.map_cons, List.map_nil, F4_affI] at ih ⊢
    rw [addPwcLoop, addPwcLoop, ih]
    rfl
  | case3 c1 c2 b vb r2' ih =>
    simp only [List.map_cons, List.map_nil, F4_affI] at ih ⊢
    rw [addPwcLoop, addPwcLoop, ih]
    rfl
  | case4 c1 c2 a va r1' b vb r2' hab ih =>
    simp only [List.map_cons, F4_affI] at ih ⊢
    rw [addPwcLoop, if_pos ((aff_lt_iff β hα a b).mpr hab), addPwcLoop, if_pos hab, ih]
    rfl
  | case5 c1 c2 a va r1' b vb r2' hab hba ih =>
    simp only [List.map_cons, F4_affI] at ih ⊢
    rw [addPwcLoop, if_neg (mt (aff_lt_iff β hα a b).mp hab),
      if_pos ((aff_lt_iff β hα b a).mpr hba), addPwcLoop, if_neg hab, if_pos hba, ih]
    rfl
  | case6 c1 c2 a va r1' b vb r2' hab hba ih =>
    simp only [List.map_cons, F4_affI] at ih ⊢
    rw [addPwcLoop, if_neg (mt (aff_lt_iff β hα a b).mp hab),
      if_neg (mt (aff_lt_iff β hα b a).mp hba), addPwcLoop, if_neg hab, if_neg hba, ih]
    rfl

include hα in
/-- `add` of two piecewise constant functions commutes with the change of the time axis -/
theorem F4_Pwc_add_map (f g : Pwc) (hf : f.x ≠ []) :
    Pwc.add (F4_mapPwc α β f) (F4_mapPwc α β g) = F4_mapPwc α β (Pwc.add f g) := by
  unfold Pwc.add
  simp only [F4_Pwc_inner_map, F4_addPwcLoop_map β hα]
  have e1 : (F4_mapPwc α β f).x = f.x.map (aff α β) := rfl
  have e2 : (F4_mapPwc α β f).y = f.y := rfl
  have e3 : (F4_mapPwc α β g).y = g.y := rfl
  rw [e1, e2, e3, F4_lastD_map_ne (aff α β) f.x 0 0 hf, F4_headD_map_ne (aff α β) f.x 0 0 hf]
  unfold F4_mapPwc
  simp only [List.map_cons, List.map_append, List.map_map, Function.comp_def, F4_affI,
    List.map_nil]

theorem F4_Pwc_add_x_ne (f g : Pwc) : (Pwc.add f g).x ≠ [] := by
  unfold Pwc.add; simp

theorem F4_Pwc_mulScalar_map (f : Pwc) (c : Q) :
    (F4_mapPwc α β f).mulScalar c = F4_mapPwc α β (f.mulScalar c) := rfl

/-! piecewise linear -/

theorem F4_Pwl_pieces_mapPwl (f : Pwl) :
    (F4_mapPwl α β f).pieces = f.pieces.map (F4_affP α β) :=
  F4_Pwl_pieces_map β f.x f.y1 f.y2

include hα in
theorem F4_Piece_at_xr_map (p q : Piece) :
    (F4_affP α β p).at (F4_affP α β q).xr = p.at q.xr := F4_Piece_at_map β hα p q.xr

include hα in
theorem F4_addPwlLoop_map (c1 : Piece) (r1 : List Piece) (c2 : Piece) (r2 : List Piece) :
    addPwlLoop (F4_affP α β c1) (r1.map (F4_affP α β)) (F4_affP α β c2) (r2.map (F4_affP α β))
      = (addPwlLoop c1 r1 c2 r2).map (affE α β) := by
  have hxr : ∀ p : Piece, (F4_affP α β p).xr = aff α β p.xr := fun _ => rfl
  have hyr : ∀ p : Piece, (F4_affP α β p).yr = p.yr := fun _ => rfl
  have hyl : ∀ p : Piece, (F4_affP α β p).yl = p.yl := fun _ => rfl
  induction c1, r1, c2, r2 using addPwlLoop.induct with
  | case1 c1 c2 => simp [addPwlLoop]
  | case2 c1 c2 p r1' ih =>
    simp only [List.map_cons, List.map_nil] at ih ⊢
    rw [addPwlLoop, addPwlLoop, ih]
    simp only [hxr, hyr, hyl, F4_Piece_at_map β hα, List.map_cons, affE]
  | case3 c1 c2 q r2' ih =>
    simp only [List.map_cons, List.map_nil] at ih ⊢
    rw [addPwlLoop, addPwlLoop, ih]
    simp only [hxr, hyr, hyl, F4_Piece_at_map β hα, List.map_cons, affE]
  | case4 c1 c2 p r1' q r2' hlt ih =>
    simp only [List.map_cons] at ih ⊢
    rw [addPwlLoop, if_pos (by rw [hxr, hxr]; exact (aff_lt_iff β hα _ _).mpr hlt), addPwlLoop,
      if_pos hlt, ih]
    simp only [hxr, hyr, hyl, F4_Piece_at_map β hα, List.map_cons, affE]
  | case5 c1 c2 p r1' q r2' hn hlt ih =>
    simp only [List.map_cons] at ih ⊢
    rw [addPwlLoop, if_neg (by rw [hxr, hxr]; exact mt (aff_lt_iff β hα _ _).mp hn),
      if_pos (by rw [hxr, hxr]; exact (aff_lt_iff β hα _ _).mpr hlt), addPwlLoop,
      if_neg hn, if_pos hlt, ih]
    simp only [hxr, hyr, hyl, F4_Piece_at_map β hα, List.map_cons, affE]
  | case6 c1 c2 p r1' q r2' hn1 hn2 ih =>
    simp only [List.map_cons] at ih ⊢
    rw [addPwlLoop, if_neg (by rw [hxr, hxr]; exact mt (aff_lt_iff β hα _ _).mp hn1),
      if_neg (by rw [hxr, hxr]; exact mt (aff_lt_iff β hα _ _).mp hn2), addPwlLoop,
      if_neg hn1, if_neg hn2, ih]
    simp only [hxr, hyr, hyl, List.map_cons, affE]

include hα in
/-- `add` of two piecewise linear functions commutes with the change of the time axis -/
theorem F4_Pwl_add_map (f g : Pwl) (hf : f.x ≠ []) :
    Pwl.add (F4_mapPwl α β f) (F4_mapPwl α β g) = F4_mapPwl α β (Pwl.add f g) := by
  unfold Pwl.add
  rw [F4_Pwl_pieces_mapPwl, F4_Pwl_pieces_mapPwl]
  cases h1 : f.pieces with
  | nil => rfl
  | cons c1 r1 =>
    cases h2 : g.pieces with
    | nil => rfl
    | cons c2 r2 =>
      simp only [List.map_cons, F4_addPwlLoop_map β hα]
      have e1 : (F4_mapPwl α β f).x = f.x.map (aff α β) := rfl
      have e2 : (F4_mapPwl α β f).y2 = f.y2 := rfl
      have e3 : (F4_mapPwl α β g).y2 = g.y2 := rfl
      rw [e1, e2, e3, F4_lastD_map_ne (aff α β) f.x 0 0 hf, F4_headD_map_ne (aff α β) f.x 0 0 hf]
      unfold F4_mapPwl F4_affP
      simp only [List.map_cons, List.map_append, List.map_map, Function.comp_def, affE,
        List.map_nil]

theorem F4_Pwl_add_x_ne (f g : Pwl) (hf : f.x ≠ []) : (Pwl.add f g).x ≠ [] := by
  unfold Pwl.add
  split
  · simp
  · exact hf

theorem F4_Pwl_mulScalar_map (f : Pwl) (c : Q) :
    (F4_mapPwl α β f).mulScalar c = F4_mapPwl α β (f.mulScalar c) := rfl

/-! discrete -/

include hα in
theorem F4_addDiscLoop_map (r1 r2 : List (Q × Q × Q)) (e1 e2 : Q × Q × Q) :
    addDiscLoop (r1.map (affE α β)) (r2.map (affE α β)) (affE α β e1) (affE α β e2)
      = (addDiscLoop r1 r2 e1 e2).map (affE α β) := by
  have h1 : ∀ e : Q × Q × Q, (affE α β e).1 = aff α β e.1 := fun _ => rfl
  have h2 : ∀ e : Q × Q × Q, (affE α β e).2 = e.2 := fun _ => rfl
  induction r1, r2 using addDiscLoop.induct with
  | case1 => simp [addDiscLoop, affE]
  | case2 a r1' => simp [addDiscLoop]
  | case3 b r2' => simp [addDiscLoop]
  | case4 a r1' b r2' hab ih =>
    simp only [List.map_cons] at ih ⊢
    rw [addDiscLoop, if_pos (by rw [h1, h1]; exact (aff_lt_iff β hα _ _).mpr hab), addDiscLoop,
      if_pos hab, ih, List.map_cons]
  | case5 a r1' b r2' hab hba ih =>
    simp only [List.map_cons] at ih ⊢
    rw [addDiscLoop, if_neg (by rw [h1, h1]; exact mt (aff_lt_iff β hα _ _).mp hab),
      if_pos (by rw [h1, h1]; exact (aff_lt_iff β hα _ _).mpr hba), addDiscLoop,
      if_neg hab, if_pos hba, ih, List.map_cons]
  | case6 a r1' b r2' hab hba ih =>
    simp only [List.map_cons] at ih ⊢
    rw [addDiscLoop, if_neg (by rw [h1, h1]; exact mt (aff_lt_iff β hα _ _).mp hab),
      if_neg (by rw [h1, h1]; exact mt (aff_lt_iff β hα _ _).mp hba), addDiscLoop,
      if_neg hab, if_neg hba, ih, List.map_cons]
    simp only [h1, h2]
    rfl

include hα in
/-- `add` of two discrete profiles commutes with the change of the time axis -/
theorem F4_Disc_add_map (f g : Disc) (hf : f.e ≠ []) (hg : g.e ≠ []) :
    Disc.add (F4_mapDisc α β f) (F4_mapDisc α β g) = F4_mapDisc α β (Disc.add f g) := by
  unfold Disc.add
  have e1 : (F4_mapDisc α β f).e = f.e.map (affE α β) := rfl
  have e2 : (F4_mapDisc α β g).e = g.e.map (affE α β) := rfl
  have i1 : (F4_mapDisc α β f).interior = f.interior.map (affE α β) := F4_Disc_interior_map β f.e
  have i2 : (F4_mapDisc α β g).interior = g.interior.map (affE α β) := F4_Disc_interior_map β g.e
  simp only [i1, i2, e1, e2]
  rw [F4_lastD_map_ne (affE α β) f.e (0, 0, 0) (0, 0, 0) hf,
    F4_lastD_map_ne (affE α β) g.e (0, 0, 0) (0, 0, 0) hg,
    F4_headD_map_ne (affE α β) f.e (0, 0, 0) (0, 0, 0) hf, F4_addDiscLoop_map β hα]
  cases addDiscLoop f.interior g.interior (lastD f.e (0, 0, 0)) (lastD g.e (0, 0, 0)) with
  | nil => rfl
  | cons h r => rfl

theorem F4_Disc_add_e_ne (f g : Disc) (hf : f.e ≠ []) : (Disc.add f g).e ≠ [] := by
  unfold Disc.add
  dsimp only
  split
  · exact hf
  · simp

end add

/-! ## part 4 (profiles): multivariate profiles -/

section multiProfiles
variable {α : Q} (β : Q) (hα : 0 < α)

theorem F4_headD_mem {A : Type} (l : List A) (d : A) (h : l ≠ []) : l.headD d ∈ l := by
  cases l with
  | nil => exact absurd rfl h
  | cons a r => simp

/-- `divide_and_conquer` commutes with a map `m` that commutes with `add` on a closed set `S` -/
theorem F4_dac_map {P : Type} (add : P → P → P) (m : P → P) (S : P → Prop)
    (hclosed : ∀ a b, S a → S b → S (add a b))
    (hadd : ∀ a b, S a → S b → add (m a) (m b) = m (add a b))
    (leaf leaf' : Nat × Nat → P) (fuel : Nat) :
    ∀ (p1 p2 : List (Nat × Nat)), p1 ≠ [] → p2 ≠ [] →
      (∀ p ∈ p1, leaf' p = m (leaf p) ∧ S (leaf p)) →
      (∀ p ∈ p2, leaf' p = m (leaf p) ∧ S (leaf p)) →
      divideAndConquer add leaf' fuel p1 p2 = m (divideAndConquer add leaf fuel p1 p2) ∧
        S (divideAndConquer add leaf fuel p1 p2) := by
  induction fuel with
  | zero =>
    intro p1 p2 h1 _ hl1 _
    simp only [divideAndConquer]
    exact hl1 _ (F4_headD_mem p1 (0, 0) h1)
  | succ n ih =>
    intro p1 p2 h1 h2 hl1 hl2
    simp only [divideAndConquer]
    have d1 : (if p1.length > 1 then
          divideAndConquer add leaf' n (p1.take (p1.length / 2)) (p1.drop (p1.length / 2))
        else leaf' (p1.headD (0, 0)))
        = m (if p1.length > 1 then
          divideAndConquer add leaf n (p1.take (p1.length / 2)) (p1.drop (p1.length / 2))
        else leaf (p1.headD (0, 0))) ∧
        S (if p1.length > 1 then
          divideAndConquer add leaf n (p1.take (p1.length / 2)) (p1.drop (p1.length / 2))
        else leaf (p1.headD (0, 0))) := by
      by_cases hc : p1.length > 1
      · simp only [hc, if_true]
        exact ih _ _ (take_half_ne_nil hc) (drop_half_ne_nil hc)
          (fun p hp => hl1 p (List.mem_of_mem_take hp)) (fun p hp => hl1 p (List.mem_of_mem_drop hp))
      · simp only [hc, if_false]
        exact hl1 _ (F4_headD_mem p1 (0, 0) h1)
    have d2 : (if p2.length > 1 then
          divideAndConquer add leaf' n (p2.take (p2.length / 2)) (p2.drop (p2.length / 2))
        else leaf' (p2.headD (0, 0)))
        = m (if p2.length > 1 then
          divideAndConquer add leaf n (p2.take (p2.length / 2)) (p2.drop (p2.length / 2))
        else leaf (p2.headD (0, 0))) ∧
        S (if p2.length > 1 then
          divideAndConquer add leaf n (p2.take (p2.length / 2)) (p2.drop (p2.length / 2))
        else leaf (p2.headD (0, 0))) := by
      by_cases hc : p2.length > 1
      · simp only [hc, if_true]
        exact ih _ _ (take_half_ne_nil hc) (drop_half_ne_nil hc)
          (fun p hp => hl2 p (List.mem_of_mem_take hp)) (fun p hp => hl2 p (List.mem_of_mem_drop hp))
      · simp only [hc, if_false]
        exact hl2 _ (F4_headD_mem p2 (0, 0) h2)
    rw [d1.1, d2.1]
    exact ⟨hadd _ _ d1.2 d2.2, hclosed _ _ d1.2 d2.2⟩

theorem F4_gpm_map {P : Type} (add : P → P → P) (m : P → P) (S : P → Prop)
    (hclosed : ∀ a b, S a → S b → S (add a b))
    (hadd : ∀ a b, S a → S b → add (m a) (m b) = m (add a b))
    (leaf leaf' : Nat × Nat → P) (idx : List Nat)
    (hl : ∀ p, (p ∈ pairsOf idx ∨ p = (0, 0)) → leaf' p = m (leaf p) ∧ S (leaf p)) :
    genericProfileMulti add leaf' idx
      = (m (genericProfileMulti add leaf idx).1, (genericProfileMulti add leaf idx).2) := by
  unfold genericProfileMulti
  simp only
  by_cases hc : (pairsOf idx).length > 1
  · simp only [hc, if_true]
    have := F4_dac_map add m S hclosed hadd leaf leaf' (pairsOf idx).length
      ((pairsOf idx).take ((pairsOf idx).length / 2)) ((pairsOf idx).drop ((pairsOf idx).length / 2))
      (take_half_ne_nil hc) (drop_half_ne_nil hc)
      (fun p hp => hl p (Or.inl (List.mem_of_mem_take hp)))
      (fun p hp => hl p (Or.inl (List.mem_of_mem_drop hp)))
    rw [this.1]
  · simp only [hc, if_false]
    congr 1
    apply (hl _ _).1
    cases h : pairsOf idx with
    | nil => exact Or.inr rfl
    | cons a r => exact Or.inl (by simp)

/-- pairs of selected trains (and the pair `(0,0)` used by `_generic_profile_multi` when fewer than
    two trains are selected) address trains of the list -/
theorem F4_pair_in_range {idx : Option (List Nat)} {L : List Train} (hi : F4_IdxOk idx L)
    (hL : L ≠ []) (p : Nat × Nat)
    (hp : p ∈ pairsOf (resolveIdx idx L.length) ∨ p = (0, 0)) : p.1 < L.length ∧ p.2 < L.length := by
  rcases hp with hp | rfl
  · obtain ⟨h1, h2⟩ := mem_pairsOf hp
    exact ⟨hi _ h1, hi _ h2⟩
  · have : 0 < L.length := List.length_pos_iff.mpr hL
    exact ⟨this, this⟩

include hα in
/-- **multivariate ISI profile**: only the time axis changes -/
theorem F4_isiProfileMulti_aff (kw : Kw) (idx : Option (List Nat)) (L : List Train)
    (h : F4_Ok α kw L) (hi : F4_IdxOk idx L) (hL : L ≠ []) :
    isiProfileMulti (F4_scaleKw α β kw) idx (L.map (F4_affT α β))
      = F4_mapPwc α β (isiProfileMulti kw idx L) := by
  unfold isiProfileMulti
  simp only [F4_prep_aff β hα kw L h, List.length_map]
  have hi' : F4_IdxOk idx (prep kw L) := F4_IdxOk_prep kw hi
  have hL' : prep kw L ≠ [] := by
    intro e; have := F4_prep_length kw L; rw [e] at this; exact hL (List.length_eq_zero_iff.mp this.symm)
  rw [F4_gpm_map Pwc.add (F4_mapPwc α β) (fun f => f.x ≠ [])
    (fun a b _ _ => F4_Pwc_add_x_ne a b) (fun a b ha _ => F4_Pwc_add_map β hα a b ha)
    (fun p => isiProfileBi kw.noRecon (tr (prep kw L) p.1) (tr (prep kw L) p.2))]
  · rfl
  · intro p hp
    obtain ⟨h1, h2⟩ := F4_pair_in_range hi' hL' p hp
    refine ⟨?_, F4_isiProfileBi_x_ne _ _ _⟩
    simp only [F4_tr_map β _ _ h1, F4_tr_map β _ _ h2]
    exact F4_isiProfileBi_aff β hα kw.noRecon _ _ (Or.inl rfl)

include hα in
/-- **multivariate SPIKE profile** -/
theorem F4_spikeProfileMulti_aff (kw : Kw) (idx : Option (List Nat)) (L : List Train)
    (h : F4_Ok α kw L) (hi : F4_IdxOk idx L) (hL : L ≠ []) :
    spikeProfileMulti (F4_scaleKw α β kw) idx (L.map (F4_affT α β))
      = F4_mapPwl α β (spikeProfileMulti kw idx L) := by
  unfold spikeProfileMulti
  simp only [F4_prep_aff β hα kw L h, List.length_map]
  have hi' : F4_IdxOk idx (prep kw L) := F4_IdxOk_prep kw hi
  have hL' : prep kw L ≠ [] := by
    intro e; have := F4_prep_length kw L; rw [e] at this; exact hL (List.length_eq_zero_iff.mp this.symm)
  rw [F4_gpm_map Pwl.add (F4_mapPwl α β) (fun f => f.x ≠ [])
    (fun a b ha _ => F4_Pwl_add_x_ne a b ha) (fun a b ha _ => F4_Pwl_add_map β hα a b ha)
    (fun p => spikeProfileBi kw.noRecon (tr (prep kw L) p.1) (tr (prep kw L) p.2))]
  · rfl
  · intro p hp
    obtain ⟨h1, h2⟩ := F4_pair_in_range hi' hL' p hp
    refine ⟨?_, ?_⟩
    · simp only [F4_tr_map β _ _ h1, F4_tr_map β _ _ h2]
      exact F4_spikeProfileBi_aff β hα kw.noRecon _ _ (Or.inl rfl)
    · have := (F4_spikeProfileBi_lengths kw.noRecon (tr (prep kw L) p.1) (tr (prep kw L) p.2)).1
      intro e; rw [e] at this; simp at this

theorem F4_frameProfile_ne (ts te : Q) (entries : List (Q × Q × Q)) :
    frameProfile ts te entries ≠ [] := by
  unfold frameProfile
  split <;> simp

theorem F4_syncProfileBi_e_ne (kw : Kw) (a b : Train) : (syncProfileBi kw a b).e ≠ [] :=
  F4_frameProfile_ne _ _ _

theorem F4_orderProfileBi_e_ne (kw : Kw) (a b : Train) : (orderProfileBi kw a b).e ≠ [] :=
  F4_frameProfile_ne _ _ _

include hα in
/-- **multivariate SPIKE-Sync profile** -/
theorem F4_syncProfileMulti_aff (kw : Kw) (idx : Option (List Nat)) (L : List Train)
    (h : F4_Ok α kw L) (hi : F4_IdxOk idx L) (hL : L ≠ []) :
    syncProfileMulti (F4_scaleKw α β kw) idx (L.map (F4_affT α β))
      = F4_mapDisc α β (syncProfileMulti kw idx L) := by
  unfold syncProfileMulti
  simp only [F4_prep_aff β hα kw L h, List.length_map]
  have hi' : F4_IdxOk idx (prep kw L) := F4_IdxOk_prep kw hi
  have hL' : prep kw L ≠ [] := by
    intro e; have := F4_prep_length kw L; rw [e] at this; exact hL (List.length_eq_zero_iff.mp this.symm)
  rw [F4_gpm_map Disc.add (F4_mapDisc α β) (fun f => f.e ≠ [])
    (fun a b ha _ => F4_Disc_add_e_ne a b ha) (fun a b ha hb => F4_Disc_add_map β hα a b ha hb)
    (fun p => syncProfileBi kw.noRecon (tr (prep kw L) p.1) (tr (prep kw L) p.2))]
  intro p hp
  obtain ⟨h1, h2⟩ := F4_pair_in_range hi' hL' p hp
  refine ⟨?_, F4_syncProfileBi_e_ne _ _ _⟩
  simp only [F4_tr_map β _ _ h1, F4_tr_map β _ _ h2]
  exact F4_syncProfileBi_aff β hα kw.noRecon _ _ (Or.inl rfl)

include hα in
/-- **multivariate spike-order profile** -/
theorem F4_orderProfileMulti_aff (kw : Kw) (idx : Option (List Nat)) (L : List Train)
    (h : F4_Ok α kw L) (hi : F4_IdxOk idx L) (hL : L ≠ []) :
    orderProfileMulti (F4_scaleKw α β kw) idx (L.map (F4_affT α β))
      = F4_mapDisc α β (orderProfileMulti kw idx L) := by
  unfold orderProfileMulti
  simp only [F4_prep_aff β hα kw L h, List.length_map]
  have hi' : F4_IdxOk idx (prep kw L) := F4_IdxOk_prep kw hi
  have hL' : prep kw L ≠ [] := by
    intro e; have := F4_prep_length kw L; rw [e] at this; exact hL (List.length_eq_zero_iff.mp this.symm)
  rw [F4_gpm_map Disc.add (F4_mapDisc α β) (fun f => f.e ≠ [])
    (fun a b ha _ => F4_Disc_add_e_ne a b ha) (fun a b ha hb => F4_Disc_add_map β hα a b ha hb)
    (fun p => orderProfileBi kw.noRecon (tr (prep kw L) p.1) (tr (prep kw L) p.2))]
  intro p hp
  obtain ⟨h1, h2⟩ := F4_pair_in_range hi' hL' p hp
  refine ⟨?_, F4_orderProfileBi_e_ne _ _ _⟩
  simp only [F4_tr_map β _ _ h1, F4_tr_map β _ _ h2]
  exact F4_orderProfileBi_aff β hα kw.noRecon _ _ (Or.inl rfl)

end multiProfiles

/-! ## matrices and `filter_by_spike_sync` -/

section matrices
variable {α : Q} (β : Q) (hα : 0 < α)

theorem F4_tr_map_g (g : Train → Train) (L : List Train) (i : Nat) (h : i < L.length) :
    tr (L.map g) i = g (tr L i) := by
  simp [tr, h]

theorem F4_getD_mem (ids : List Nat) (i : Nat) (h : i < ids.length) : ids.getD i 0 ∈ ids := by
  rw [List.getD_eq_getElem?_getD, List.getElem?_eq_getElem h]; simp

theorem F4_genericDistanceMatrix_congr (g : Train → Train) (d d' : Train → Train → Option Q)
    (diag sign : Q) (ids : List Nat) (L : List Train) (hi : ∀ i ∈ ids, i < L.length)
    (hd : ∀ a b, a ∈ L → b ∈ L → d' (g a) (g b) = d a b) :
    genericDistanceMatrix d' diag sign ids (L.map g) = genericDistanceMatrix d diag sign ids L := by
  unfold genericDistanceMatrix
  simp only
  apply mapM_option_congr
  intro i hi'
  apply mapM_option_congr
  intro j hj
  have hi2 := hi _ (F4_getD_mem ids i (List.mem_range.mp hi'))
  have hj2 := hi _ (F4_getD_mem ids j (List.mem_range.mp hj))
  rw [F4_tr_map_g g L _ hi2, F4_tr_map_g g L _ hj2, hd _ _ (B5_tr_mem L _ hi2) (B5_tr_mem L _ hj2),
    hd _ _ (B5_tr_mem L _ hj2) (B5_tr_mem L _ hi2)]

include hα in
/-- **ISI distance matrix is invariant** -/
theorem F4_isiDistanceMatrix_aff (kw : Kw) (idx : Option (List Nat)) (L : List Train)
    (h : F4_Ok α kw L) (hi : F4_IdxOk idx L) :
    isiDistanceMatrix (F4_scaleKw α β kw) idx (L.map (F4_affT α β)) = isiDistanceMatrix kw idx L := by
  unfold isiDistanceMatrix
  simp only [F4_prep_aff β hα kw L h, List.length_map]
  exact F4_genericDistanceMatrix_congr _ _ _ _ _ _ _ (F4_IdxOk_prep kw hi)
    (fun a b _ _ => F4_isiDistanceBi_aff β hα kw.noRecon a b (Or.inl rfl))

include hα in
/-- **SPIKE distance matrix is invariant** -/
theorem F4_spikeDistanceMatrix_aff (kw : Kw) (idx : Option (List Nat)) (L : List Train)
    (h : F4_Ok α kw L) (hi : F4_IdxOk idx L) :
    spikeDistanceMatrix (F4_scaleKw α β kw) idx (L.map (F4_affT α β))
      = spikeDistanceMatrix kw idx L := by
  unfold spikeDistanceMatrix
  simp only [F4_prep_aff β hα kw L h, List.length_map]
  exact F4_genericDistanceMatrix_congr _ _ _ _ _ _ _ (F4_IdxOk_prep kw hi)
    (fun a b _ _ => F4_spikeDistanceBi_aff β hα kw.noRecon a b (Or.inl rfl))

include hα in
/-- **SPIKE-Sync matrix is invariant** -/
theorem F4_spikeSyncMatrix_aff (kw : Kw) (idx : Option (List Nat)) (L : List Train)
    (h : F4_Ok α kw L) (hi : F4_IdxOk idx L) :
    spikeSyncMatrix (F4_scaleKw α β kw) idx (L.map (F4_affT α β)) = spikeSyncMatrix kw idx L := by
  unfold spikeSyncMatrix
  simp only [F4_prep_aff β hα kw L h, List.length_map]
  exact F4_genericDistanceMatrix_congr _ _ _ _ _ _ _ (F4_IdxOk_prep kw hi)
    (fun a b _ _ => F4_spikeSyncBi_aff β hα kw.noRecon a b (Or.inl rfl))

include hα in
/-- **spike-directionality matrix is invariant** -/
theorem F4_spikeDirectionalityMatrix_aff (kw : Kw) (normalize : Bool) (idx : Option (List Nat))
    (L : List Train) (h : α = 1 ∨ F4_Within L) (hi : F4_IdxOk idx L) :
    spikeDirectionalityMatrix (F4_scaleKw α β kw) normalize idx (L.map (F4_affT α β))
      = spikeDirectionalityMatrix kw normalize idx L := by
  unfold spikeDirectionalityMatrix
  simp only [F4_prep_aff β hα kw L (Or.inr h), List.length_map]
  have hi' := F4_IdxOk_prep kw hi
  have hw : α = 1 ∨ F4_Within (prep kw L) := h.imp id (F4_Within_prep kw L)
  apply List.map_congr_left
  intro i hi1
  apply List.map_congr_left
  intro j hj1
  have hi2 := hi' _ (F4_getD_mem _ i (List.mem_range.mp hi1))
  have hj2 := hi' _ (F4_getD_mem _ j (List.mem_range.mp hj1))
  have m1 := B5_tr_mem _ _ hi2
  have m2 := B5_tr_mem _ _ hj2
  have e : (F4_scaleKw α β kw).noRecon = F4_scaleKw α β kw.noRecon := rfl
  rw [F4_tr_map β _ _ hi2, F4_tr_map β _ _ hj2, e,
    F4_spikeDirectionality_aff β hα kw.noRecon normalize _ _ (hw.imp id fun w => F4_Within_pair w m1 m2),
    F4_spikeDirectionality_aff β hα kw.noRecon normalize _ _ (hw.imp id fun w => F4_Within_pair w m2 m1)]

include hα in
theorem F4_coincCounts_aff (kw : Kw) (L : List Train) (i : Nat) (hi : i < L.length) :
    coincCounts (F4_scaleKw α β kw) (L.map (F4_affT α β)) i = coincCounts kw L i := by
  unfold coincCounts
  simp only [List.length_map, F4_tr_map β L i hi]
  have e0 : ((F4_affT α β (tr L i)).spikes.map fun _ => (0 : Q)) = (tr L i).spikes.map fun _ => (0 : Q) := by
    simp only [F4_affT, List.map_map, Function.comp_def]
  rw [e0]
  apply foldl_congr_mem
  intro acc j hj
  rw [F4_tr_map β L j (List.mem_range.mp hj)]
  have e : (F4_scaleKw α β kw).mrts = α * kw.mrts := rfl
  have e1 : (F4_scaleKw α β kw).maxTau = α * kw.maxTau := rfl
  simp only [F4_affT, e, e1, coincSingle_aff β hα]

theorem F4_filter_zip_map (f : Q → Q) (xs cs : List Q) (P : Q → Bool) :
    (((xs.map f).zip cs).filter fun p => P p.2).map (·.1)
      = (((xs.zip cs).filter fun p => P p.2).map (·.1)).map f := by
  rw [List.zip_map_left, List.filter_map, List.map_map, List.map_map]
  rfl

include hα in
/-- **`filter_by_spike_sync`**: the kept and the removed spikes are the images of the kept and
    removed spikes -/
theorem F4_filterBySync_aff (kw : Kw) (thr : Q) (L : List Train) (h : F4_Ok α kw L) :
    filterBySync (F4_scaleKw α β kw) thr (L.map (F4_affT α β))
      = ((filterBySync kw thr L).1.map (F4_affT α β), (filterBySync kw thr L).2.map (F4_affT α β)) := by
  unfold filterBySync
  simp only [F4_prep_aff β hα kw L h, List.length_map, List.map_map]
  generalize prep kw L = L'
  congr 1
  · apply List.map_congr_left
    intro i hi
    have hi' := List.mem_range.mp hi
    simp only [Function.comp_apply, F4_coincCounts_aff β hα kw L' i hi', F4_tr_map β L' i hi']
    simp only [F4_affT]
    rw [F4_filter_zip_map (aff α β) _ _ (fun c => decide (c > thr * ((L'.length : Q) - 1)))]
  · apply List.map_congr_left
    intro i hi
    have hi' := List.mem_range.mp hi
    simp only [Function.comp_apply, F4_coincCounts_aff β hα kw L' i hi', F4_tr_map β L' i hi']
    simp only [F4_affT]
    rw [F4_filter_zip_map (aff α β) _ _ (fun c => decide (c ≤ thr * ((L'.length : Q) - 1)))]

end matrices

/-! ## part 5: mirror `t ↦ t_start + t_end − t` for the bivariate and multivariate scalars -/

section mirror
open PySpike.C01

theorem F4_genericDistanceMulti_congr_g (g : Train → Train) (d d' : Train → Train → Option Q)
    (ids : List Nat) (L : List Train) (hi : ∀ i ∈ ids, i < L.length)
    (hd : ∀ a b, a ∈ L → b ∈ L → d' (g a) (g b) = d a b) :
    genericDistanceMulti d' ids (L.map g) = genericDistanceMulti d ids L := by
  unfold genericDistanceMulti
  simp only
  congr 2
  apply List.map_congr_left
  intro p hp
  obtain ⟨h1, h2⟩ := mem_pairsOf hp
  rw [F4_tr_map_g g L p.1 (hi _ h1), F4_tr_map_g g L p.2 (hi _ h2)]
  exact hd _ _ (B5_tr_mem L _ (hi _ h1)) (B5_tr_mem L _ (hi _ h2))

/-- ISI distance of the mirrored pair (whole recording) -/
theorem F4_isiDistanceBi_mirror (kw : Kw) (a b : Train) (hrec : kw.recon = false)
    (hiv : kw.interval = none) (ha : ValidTrain a) (hb : ValidTrain b)
    (hts : b.ts = a.ts) (hte : b.te = a.te) :
    isiDistanceBi kw (D1_mirror a) (D1_mirror b) = isiDistanceBi kw a b := by
  have hva := nonEmpty_valid a ha
  have hvb := nonEmpty_valid b hb
  rw [hts, hte] at hvb
  unfold isiDistanceBi isiProfileBi prepBi pwcAvrgKw
  simp only [hrec, hiv, Bool.false_eq_true, if_false]
  rw [D1_nonEmpty_mirror a ha.1, D1_nonEmpty_mirror b hb.1, hts, hte]
  show some _ = some _
  congr 1
  exact B9_isiProfile_mirror_avrgAll a.nonEmpty b.nonEmpty a.ts a.te kw.mrts ha.1 hva hvb

/-- SPIKE-Sync counts of the mirrored pair (whole recording) -/
theorem F4_syncValues_mirror (kw : Kw) (a b : Train) (hrec : kw.recon = false)
    (hiv : kw.interval = none) (ha : a.spikes.Pairwise (· < ·)) (hb : b.spikes.Pairwise (· < ·))
    (hts : b.ts = a.ts) (hte : b.te = a.te) :
    syncValues kw (D1_mirror a) (D1_mirror b) = syncValues kw a b := by
  unfold syncValues syncProfileBi prepBi discIntegralKw
  simp only [hrec, hiv, Bool.false_eq_true, if_false]
  show some (Disc.mk (coincProfile (B9_mir a.ts a.te a.spikes) (B9_mir b.ts b.te b.spikes)
    a.ts a.te kw.maxTau kw.mrts)).integralAll = some _
  rw [hts, hte]
  congr 1
  exact sync_value_mirror a.spikes b.spikes a.ts a.te kw.maxTau kw.mrts ha hb

theorem F4_spikeSyncBi_mirror (kw : Kw) (a b : Train) (hrec : kw.recon = false)
    (hiv : kw.interval = none) (ha : a.spikes.Pairwise (· < ·)) (hb : b.spikes.Pairwise (· < ·))
    (hts : b.ts = a.ts) (hte : b.te = a.te) :
    spikeSyncBi kw (D1_mirror a) (D1_mirror b) = spikeSyncBi kw a b := by
  unfold spikeSyncBi
  rw [F4_syncValues_mirror kw a b hrec hiv ha hb hts hte]

theorem F4_mirror_validList {ts te : Q} {L : List Train} (hv : B5_ValidList ts te L) :
    B5_ValidList ts te (L.map D1_mirror) := by
  intro t ht
  rw [List.mem_map] at ht
  obtain ⟨u, hu, rfl⟩ := ht
  obtain ⟨h1, h2, h3⟩ := hv u hu
  exact ⟨D1_mirror_valid u h1, h2, h3⟩

/-- **multivariate ISI distance of the mirrored list** (every `Reconcile` setting: valid lists are
    fixed points of `reconcile_spike_trains`) -/
theorem F4_isiDistanceMulti_mirror (kw : Kw) (idx : Option (List Nat)) (L : List Train) (ts te : Q)
    (hiv : kw.interval = none) (hv : B5_ValidList ts te L) (hi : F4_IdxOk idx L) :
    isiDistanceMulti kw idx (L.map D1_mirror) = isiDistanceMulti kw idx L := by
  unfold isiDistanceMulti
  simp only [D4_prep_valid kw _ ts te (F4_mirror_validList hv), D4_prep_valid kw L ts te hv,
    List.length_map]
  apply F4_genericDistanceMulti_congr_g D1_mirror _ _ _ L hi
  intro a b ha hb
  obtain ⟨a1, a2, a3⟩ := hv a ha
  obtain ⟨b1, b2, b3⟩ := hv b hb
  exact F4_isiDistanceBi_mirror kw.noRecon a b rfl hiv a1 b1 (by rw [a2, b2]) (by rw [a3, b3])

/-- **multivariate SPIKE distance of the mirrored list**, outside the class of finding F9 and its
    mirror image (no train is exactly one spike on an edge) -/
theorem F4_spikeDistanceMulti_mirror (kw : Kw) (idx : Option (List Nat)) (L : List Train)
    (ts te : Q) (hiv : kw.interval = none) (hv : B5_ValidList ts te L) (hi : F4_IdxOk idx L)
    (hn : ∀ t ∈ L, t.spikes ≠ [ts] ∧ t.spikes ≠ [te]) :
    spikeDistanceMulti kw idx (L.map D1_mirror) = spikeDistanceMulti kw idx L := by
  unfold spikeDistanceMulti
  simp only [D4_prep_valid kw _ ts te (F4_mirror_validList hv), D4_prep_valid kw L ts te hv,
    List.length_map]
  apply F4_genericDistanceMulti_congr_g D1_mirror _ _ _ L hi
  intro a b ha hb
  obtain ⟨a1, a2, a3⟩ := hv a ha
  obtain ⟨b1, b2, b3⟩ := hv b hb
  exact spikeDistanceBi_mirror kw.noRecon a b rfl hiv a1 b1 (by rw [a2, b2]) (by rw [a3, b3])
    (by rw [a2, a3]; exact hn a ha) (by rw [b2, b3]; exact hn b hb)

/-- **multivariate SPIKE synchronisation of the mirrored list** -/
theorem F4_spikeSyncMulti_mirror (kw : Kw) (idx : Option (List Nat)) (L : List Train) (ts te : Q)
    (hiv : kw.interval = none) (hv : B5_ValidList ts te L) (hi : F4_IdxOk idx L) :
    spikeSyncMulti kw idx (L.map D1_mirror) = spikeSyncMulti kw idx L := by
  unfold spikeSyncMulti
  simp only [D4_prep_valid kw _ ts te (F4_mirror_validList hv), D4_prep_valid kw L ts te hv,
    List.length_map]
  congr 2
  apply List.map_congr_left
  intro p hp
  obtain ⟨h1, h2⟩ := mem_pairsOf hp
  rw [F4_tr_map_g D1_mirror L p.1 (hi _ h1), F4_tr_map_g D1_mirror L p.2 (hi _ h2)]
  obtain ⟨a1, a2, a3⟩ := hv _ (B5_tr_mem L _ (hi _ h1))
  obtain ⟨b1, b2, b3⟩ := hv _ (B5_tr_mem L _ (hi _ h2))
  exact F4_syncValues_mirror kw.noRecon _ _ rfl hiv a1.2.1 b1.2.1 (by rw [a2, b2]) (by rw [a3, b3])

/-- the three bivariate mirror laws for every `Reconcile` setting (valid trains with common edges are
    fixed by `reconcile_spike_trains`) -/
theorem F4_bivariate_mirror_anyRecon (kw : Kw) (a b : Train) (hiv : kw.interval = none)
    (ha : ValidTrain a) (hb : ValidTrain b) (hts : b.ts = a.ts) (hte : b.te = a.te) :
    isiDistanceBi kw (D1_mirror a) (D1_mirror b) = isiDistanceBi kw a b ∧
    spikeSyncBi kw (D1_mirror a) (D1_mirror b) = spikeSyncBi kw a b ∧
    ((a.spikes ≠ [a.ts] ∧ a.spikes ≠ [a.te]) → (b.spikes ≠ [b.ts] ∧ b.spikes ≠ [b.te]) →
      spikeDistanceBi kw (D1_mirror a) (D1_mirror b) = spikeDistanceBi kw a b) := by
  have p1 : prepBi kw a b = (a, b) := B5_prepBi_valid kw a b ha hb hts hte
  have p2 : prepBi kw (D1_mirror a) (D1_mirror b) = (D1_mirror a, D1_mirror b) :=
    B5_prepBi_valid kw _ _ (D1_mirror_valid a ha) (D1_mirror_valid b hb) hts hte
  have i1 := isiDistanceBi_prep kw a b
  have i2 := isiDistanceBi_prep kw (D1_mirror a) (D1_mirror b)
  have s1 := syncValues_prep kw a b
  have s2 := syncValues_prep kw (D1_mirror a) (D1_mirror b)
  have d1 := spikeDistanceBi_prep kw a b
  have d2 := spikeDistanceBi_prep kw (D1_mirror a) (D1_mirror b)
  rw [p1] at i1 s1 d1
  rw [p2] at i2 s2 d2
  refine ⟨?_, ?_, ?_⟩
  · rw [← i1, ← i2]
    exact F4_isiDistanceBi_mirror kw.noRecon a b rfl hiv ha hb hts hte
  · unfold spikeSyncBi
    rw [← s1, ← s2]
    exact congrArg _ (F4_syncValues_mirror kw.noRecon a b rfl hiv ha.2.1 hb.2.1 hts hte)
  · intro hna hnb
    rw [← d1, ← d2]
    exact spikeDistanceBi_mirror kw.noRecon a b rfl hiv ha hb hts hte hna hnb

example : ValidTrain ⟨[1, 3, 4], 0, 6⟩ ∧ ValidTrain ⟨[0, 5], 0, 6⟩ := by
  constructor <;> (unfold ValidTrain; decide +kernel)

end mirror

/-! ## summary statements (clause "scalar results unchanged" of C08) -/

section summary
variable {α : Q} (β : Q) (hα : 0 < α)

include hα in
/-- **C08, scalar results, two trains**: with all times mapped by `t ↦ α·t + β` (`α > 0`), MRTS and
    max_tau multiplied by `α` and the interval mapped, the ISI distance, the SPIKE distance, SPIKE
    synchronisation, the spike-train order and the spike directionality are unchanged — for every
    keyword setting, provided the spikes lie inside their recording intervals (or `α = 1`). -/
theorem F4_bivariate_scalars_aff (kw : Kw) (normalize : Bool) (a b : Train)
    (h : α = 1 ∨ F4_Within [a, b]) :
    isiDistanceBi (F4_scaleKw α β kw) (F4_affT α β a) (F4_affT α β b) = isiDistanceBi kw a b ∧
    spikeDistanceBi (F4_scaleKw α β kw) (F4_affT α β a) (F4_affT α β b) = spikeDistanceBi kw a b ∧
    spikeSyncBi (F4_scaleKw α β kw) (F4_affT α β a) (F4_affT α β b) = spikeSyncBi kw a b ∧
    spikeTrainOrderBi (F4_scaleKw α β kw) normalize (F4_affT α β a) (F4_affT α β b)
      = spikeTrainOrderBi kw normalize a b ∧
    spikeDirectionality (F4_scaleKw α β kw) normalize (F4_affT α β a) (F4_affT α β b)
      = spikeDirectionality kw normalize a b :=
  ⟨F4_isiDistanceBi_aff β hα kw a b (Or.inr h), F4_spikeDistanceBi_aff β hα kw a b (Or.inr h),
   F4_spikeSyncBi_aff β hα kw a b (Or.inr h), F4_spikeTrainOrderBi_aff β hα kw normalize a b h,
   F4_spikeDirectionality_aff β hα kw normalize a b h⟩

include hα in
/-- **C08, scalar results, lists of trains** (every `indices` selection inside the list) -/
theorem F4_multivariate_scalars_aff (kw : Kw) (idx : Option (List Nat)) (L : List Train)
    (h : α = 1 ∨ F4_Within L) (hi : F4_IdxOk idx L) :
    isiDistanceMulti (F4_scaleKw α β kw) idx (L.map (F4_affT α β)) = isiDistanceMulti kw idx L ∧
    spikeDistanceMulti (F4_scaleKw α β kw) idx (L.map (F4_affT α β)) = spikeDistanceMulti kw idx L ∧
    spikeSyncMulti (F4_scaleKw α β kw) idx (L.map (F4_affT α β)) = spikeSyncMulti kw idx L ∧
    spikeTrainOrderMulti (F4_scaleKw α β kw) idx (L.map (F4_affT α β))
      = spikeTrainOrderMulti kw idx L ∧
    dirValues (F4_scaleKw α β kw) idx (L.map (F4_affT α β)) = dirValues kw idx L :=
  ⟨F4_isiDistanceMulti_aff β hα kw idx L (Or.inr h) hi,
   F4_spikeDistanceMulti_aff β hα kw idx L (Or.inr h) hi,
   F4_spikeSyncMulti_aff β hα kw idx L (Or.inr h) hi,
   F4_spikeTrainOrderMulti_aff β hα kw idx L h hi,
   F4_dirValues_aff β hα kw idx L (Or.inr h) hi⟩

include hα in
/-- **C08, profiles of lists of trains**: only the time axis changes -/
theorem F4_multivariate_profiles_aff (kw : Kw) (idx : Option (List Nat)) (L : List Train)
    (h : F4_Ok α kw L) (hi : F4_IdxOk idx L) (hL : L ≠ []) :
    isiProfileMulti (F4_scaleKw α β kw) idx (L.map (F4_affT α β))
      = F4_mapPwc α β (isiProfileMulti kw idx L) ∧
    spikeProfileMulti (F4_scaleKw α β kw) idx (L.map (F4_affT α β))
      = F4_mapPwl α β (spikeProfileMulti kw idx L) ∧
    syncProfileMulti (F4_scaleKw α β kw) idx (L.map (F4_affT α β))
      = F4_mapDisc α β (syncProfileMulti kw idx L) ∧
    orderProfileMulti (F4_scaleKw α β kw) idx (L.map (F4_affT α β))
      = F4_mapDisc α β (orderProfileMulti kw idx L) :=
  ⟨F4_isiProfileMulti_aff β hα kw idx L h hi hL, F4_spikeProfileMulti_aff β hα kw idx L h hi hL,
   F4_syncProfileMulti_aff β hα kw idx L h hi hL, F4_orderProfileMulti_aff β hα kw idx L h hi hL⟩

end summary

/-! ## non-vacuity: concrete inputs satisfying the hypotheses, and both sides evaluated -/

section examples

/-- four trains on `[0, 6]`: shared spike times, an empty train, spikes on both edges -/
def F4_exL : List Train := [⟨[1, 3, 4], 0, 6⟩, ⟨[2, 3, 6], 0, 6⟩, ⟨[], 0, 6⟩, ⟨[0, 5], 0, 6⟩]
def F4_exKw : Kw := { recon := false, mrts := 1, maxTau := 2 }
def F4_exKwIv : Kw := { recon := false, mrts := 1, maxTau := 2, interval := some (1/2, 5) }

theorem F4_exL_within : F4_Within F4_exL := by unfold F4_Within F4_exL; decide +kernel
theorem F4_ex_pos : (0 : Q) < 3 / 2 := by decide +kernel
theorem F4_exL_idx : F4_IdxOk (some [0, 1, 3]) F4_exL := by
  unfold F4_IdxOk F4_exL resolveIdx; decide
theorem F4_exL_valid : B5_ValidList 0 6 F4_exL := by
  intro t ht
  simp only [F4_exL, List.mem_cons, List.not_mem_nil, or_false] at ht
  rcases ht with rfl | rfl | rfl | rfl <;>
    exact ⟨by unfold PySpike.C01.ValidTrain; decide +kernel, rfl, rfl⟩

-- part 1
example : (Pwc.mk ([0, 1, 4].map (aff (3/2) (-2))) [1/2, 1/3]).avrg (aff (3/2) (-2) (1/2)) (aff (3/2) (-2) 3)
    = (Pwc.mk [0, 1, 4] [1/2, 1/3]).avrg (1/2) 3 := F4_Pwc_avrg_map (-2) F4_ex_pos _ _ (by simp) _ _
example : (Pwc.mk [0, 1, 4] [1/2, 1/3]).avrg (1/2) 3 = some (11/30) := by decide +kernel
example : (Pwl.mk ([0, 1, 4].map (aff (3/2) (-2))) [1/2, 1/3] [1, 0]).avrg (aff (3/2) (-2) (1/2)) (aff (3/2) (-2) 3)
    = (Pwl.mk [0, 1, 4] [1/2, 1/3] [1, 0]).avrg (1/2) 3 :=
  F4_Pwl_avrg_map (-2) F4_ex_pos _ _ _ (by decide) (by decide) _ _
example : (Pwl.mk [0, 1, 4] [1/2, 1/3] [1, 0]).avrg (1/2) 3 = some (127/360) := by decide +kernel
example : (Pwl.mk ([0, 1, 4].map (aff (3/2) (-2))) [1/2, 1/3] [1, 0]).avrg (aff (3/2) (-2) (1/2)) (aff (3/2) (-2) 3)
    = some (127/360) := by decide +kernel

-- part 2: bivariate scalars, every kw (here `recon = true`, spikes inside the recording)
example : isiDistanceBi (F4_scaleKw (3/2) (-2) { mrts := 1 }) (F4_affT (3/2) (-2) ⟨[1, 3, 4], 0, 6⟩)
      (F4_affT (3/2) (-2) ⟨[2, 3, 6], 0, 6⟩)
    = isiDistanceBi { mrts := 1 } ⟨[1, 3, 4], 0, 6⟩ ⟨[2, 3, 6], 0, 6⟩ :=
  F4_isiDistanceBi_aff (-2) F4_ex_pos _ _ _ (Or.inr (Or.inr (by unfold F4_Within; decide +kernel)))
example : spikeDirectionality (F4_scaleKw (3/2) (-2) { maxTau := 2 }) true
      (F4_affT (3/2) (-2) ⟨[1, 3, 4], 0, 6⟩) (F4_affT (3/2) (-2) ⟨[2, 3, 6], 0, 6⟩)
    = spikeDirectionality { maxTau := 2 } true ⟨[1, 3, 4], 0, 6⟩ ⟨[2, 3, 6], 0, 6⟩ :=
  F4_spikeDirectionality_aff (-2) F4_ex_pos _ _ _ _ (Or.inr (by unfold F4_Within; decide +kernel))
-- a pure shift needs no hypothesis at all (unsorted spikes outside the recording, `recon = true`)
example : spikeTrainOrderBi (F4_scaleKw 1 5 {}) true (F4_affT 1 5 ⟨[7, 3, 3], 0, 6⟩) (F4_affT 1 5 ⟨[2, -1], 1, 4⟩)
    = spikeTrainOrderBi {} true ⟨[7, 3, 3], 0, 6⟩ ⟨[2, -1], 1, 4⟩ :=
  F4_spikeTrainOrderBi_aff 5 (by decide +kernel) _ _ _ _ (Or.inl rfl)

-- part 4: both sides evaluated (`recon = false`), then the theorems applied
example : isiDistanceMulti (F4_scaleKw (3/2) (-2) F4_exKw) none (F4_exL.map (F4_affT (3/2) (-2))) = some (53/108) := by
  decide +kernel
example : isiDistanceMulti F4_exKw none F4_exL = some (53/108) := by decide +kernel
example : spikeDistanceMulti (F4_scaleKw (3/2) (-2) F4_exKwIv) none (F4_exL.map (F4_affT (3/2) (-2)))
    = spikeDistanceMulti F4_exKwIv none F4_exL :=
  F4_spikeDistanceMulti_aff (-2) F4_ex_pos _ _ _ (Or.inl rfl) (F4_IdxOk_none _)
example : spikeDistanceMulti F4_exKwIv none F4_exL = some (849770003 / 2514758400) := by decide +kernel
example : spikeSyncMulti (F4_scaleKw (3/2) (-2) { F4_exKwIv with recon := true }) (some [0, 1, 3])
      (F4_exL.map (F4_affT (3/2) (-2)))
    = spikeSyncMulti { F4_exKwIv with recon := true } (some [0, 1, 3]) F4_exL :=
  F4_spikeSyncMulti_aff (-2) F4_ex_pos _ _ _ (Or.inr (Or.inr F4_exL_within)) F4_exL_idx
example : spikeSyncMulti (F4_scaleKw (3/2) (-2) F4_exKwIv) (some [0, 1, 3]) (F4_exL.map (F4_affT (3/2) (-2)))
    = some (1/5) := by decide +kernel
example : spikeTrainOrderMulti (F4_scaleKw (3/2) (-2) F4_exKw) none (F4_exL.map (F4_affT (3/2) (-2)))
    = spikeTrainOrderMulti F4_exKw none F4_exL :=
  F4_spikeTrainOrderMulti_aff (-2) F4_ex_pos _ _ _ (Or.inr F4_exL_within) (F4_IdxOk_none _)
example : spikeProfileMulti (F4_scaleKw (3/2) (-2) F4_exKw) none (F4_exL.map (F4_affT (3/2) (-2)))
    = F4_mapPwl (3/2) (-2) (spikeProfileMulti F4_exKw none F4_exL) :=
  F4_spikeProfileMulti_aff (-2) F4_ex_pos _ _ _ (Or.inl rfl) (F4_IdxOk_none _) (by simp [F4_exL])
example : (spikeProfileMulti (F4_scaleKw (3/2) (-2) F4_exKw) none (F4_exL.map (F4_affT (3/2) (-2)))).x
    = [-2, -1/2, 1, 5/2, 4, 11/2, 7] := by decide +kernel
example : (spikeProfileMulti F4_exKw none F4_exL).x = [0, 1, 2, 3, 4, 5, 6] := by decide +kernel
example : syncProfileMulti (F4_scaleKw (3/2) (-2) F4_exKw) (some [0, 1, 3]) (F4_exL.map (F4_affT (3/2) (-2)))
    = F4_mapDisc (3/2) (-2) (syncProfileMulti F4_exKw (some [0, 1, 3]) F4_exL) := by decide +kernel

-- part 5
example : isiDistanceMulti { mrts := 1 } none (F4_exL.map D1_mirror) = isiDistanceMulti { mrts := 1 } none F4_exL :=
  F4_isiDistanceMulti_mirror _ _ _ 0 6 rfl F4_exL_valid (F4_IdxOk_none _)
example : isiDistanceMulti F4_exKw none (F4_exL.map D1_mirror) = some (53/108) := by decide +kernel
example : spikeDistanceMulti F4_exKw none (F4_exL.map D1_mirror) = spikeDistanceMulti F4_exKw none F4_exL :=
  F4_spikeDistanceMulti_mirror _ _ _ 0 6 rfl F4_exL_valid (F4_IdxOk_none _) (by unfold F4_exL; decide +kernel)
example : spikeDistanceMulti F4_exKw none (F4_exL.map D1_mirror) = some (81599669 / 256132800) := by
  decide +kernel

end examples

end PySpike
